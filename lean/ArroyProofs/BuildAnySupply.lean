import ArroyProofs.IndexInvOps
/-! The build with an ARBITRARY id supply (helpers for property C13, second sentence).

`Build.buildWith mk` is the text of `Build.build` with the generator `mk used` in place of
`IdGen.new used` (`buildWith_new : buildWith IdGen.new = build`). The forest chain
(`insertItems_forest`, `newTrees_spec`, `resplit_spec`, …) is proved from `GenOK inUse g` for an
arbitrary generator `g`; only the three top-level lemmas (`Transp.afterUsed_spec`, `Transp.build_transparentOn`,
`build_core`) mention `IdGen.new`. This file re-proves these three for `mk used` (same proofs, the
generator abstracted), so that no existing file changes. -/
namespace Arroy
open BuildM Generated IdSet

namespace Build

/-- `Writer::build` drawing its node ids from the generator `mk used` (`used`: the tree ids in use) -/
def buildWith (mk : List Nat → IdGen) (c : Cfg) (o : BuildOpts) (loopFuel : Nat) : BuildM Unit := do
  preProcessItems c
  let items ← itemIndices c
  let updated ← resetUpdated c
  if fits (cap c o) items.length then singleLeaf c items else
  let toDelete := updated
  let toInsert := IdSet.inter items updated
  let s ← getStore
  let roots := match s.get c.metaKey with
    | some (.metadata _ _ _ roots) => roots
    | _ => []
  let used ← usedTreeNode c
  let g := mk used
  let target := targetNTrees o c.dims items.length roots.length
  let roots ← deleteExtraTrees c (roots.length - target) roots
  let roots ← deleteItemsFromTrees c o roots toDelete
  let (large, g) ← insertItemsInCurrentTrees c o roots (toInsert.length + 1) toInsert g
  let (roots, large, g) ← newTrees c items (target - roots.length) roots large g
  incrementalIndexLargeDescendants c o loopFuel large g
  writeMetadata c items roots

/-- with the generator of the code, `buildWith` is `build` -/
theorem buildWith_new : buildWith IdGen.new = build := rfl

end Build

/-- the hypothesis on the supply: started on the tree ids in use (a strictly increasing list of `u32`s), it
    hands out fresh, pairwise distinct 32-bit ids (`FreshSupply` is `FreshSupplyOf IdGen.new`) -/
def FreshSupplyOf (mk : List Nat → IdGen) : Prop :=
  ∀ used : List Nat, IdSet.Sorted used → (∀ i ∈ used, i < 4294967296) → GenOK used (mk used)

theorem freshSupplyOf_new : FreshSupplyOf IdGen.new ↔ FreshSupply := Iff.rfl

namespace Transp
open Build

/-- what `buildWith` does after `used_tree_node`, with generator `g0` -/
def afterUsedWith (g0 : IdGen) (c : Cfg) (o : BuildOpts) (loopFuel : Nat) (items updated roots : List Nat) :
    BuildM Unit := do
  let toDelete := updated
  let toInsert := IdSet.inter items updated
  let g := g0
  let target := targetNTrees o c.dims items.length roots.length
  let roots ← deleteExtraTrees c (roots.length - target) roots
  let roots ← deleteItemsFromTrees c o roots toDelete
  let (large, g) ← insertItemsInCurrentTrees c o roots (toInsert.length + 1) toInsert g
  let (roots, large, g) ← newTrees c items (target - roots.length) roots large g
  incrementalIndexLargeDescendants c o loopFuel large g
  writeMetadata c items roots

theorem afterUsedWith_new (c : Cfg) (o : BuildOpts) (fuel : Nat) (items updated roots used : List Nat) :
    afterUsedWith (IdGen.new used) c o fuel items updated roots = afterUsed c o fuel items updated roots used := rfl

theorem buildWith_eq (mk : List Nat → IdGen) (c : Cfg) (o : BuildOpts) (fuel : Nat) :
    buildWith mk c o fuel =
      bind' (preProcessItems c) (fun _ => bind' (itemIndices c) (fun items => bind' (resetUpdated c) (fun updated =>
        if fits (cap c o) items.length then singleLeaf c items else
        bind' getStore (fun s => bind' (usedTreeNode c)
          (fun used => afterUsedWith (mk used) c o fuel items updated (rootsOf c s)))))) := rfl

/-! ## cancellation transparency (as for `build`: the generator plays no role) -/

theorem afterUsedWith_tr (g0 : IdGen) (c : Cfg) (o fuel items updated roots) :
    Transparent (afterUsedWith g0 c o fuel items updated roots) := by
  unfold afterUsedWith
  repeat (first
    | exact deleteExtraTrees_tr _ _ _ | exact deleteItemsFromTrees_tr _ _ _ _
    | exact insertItemsInCurrentTrees_tr _ _ _ _ _ _ | exact newTrees_tr _ _ _ _ _ _
    | exact incrementalIndexLargeDescendants_tr _ _ _ _ _ | exact writeMetadata_tr _ _ _ | transp_step)

/-- after a swallowed cancellation, with at least one root, the rest of `buildWith` fails with `cancelled` -/
theorem afterUsedWith_doomed (g0 : IdGen) (c : Cfg) (o : BuildOpts) (fuel : Nat) (items updated roots : List Nat)
    {st : BState} (hd : Doomed st) (hr : roots ≠ []) :
    ∃ k, afterUsedWith g0 c o fuel items updated roots st = .error (.cancelled k) := by
  unfold afterUsedWith
  dsimp only
  cases hk : roots.length - targetNTrees o c.dims items.length roots.length with
  | zero =>
    obtain ⟨j, hj⟩ := deleteItemsFromTrees_doomed c o roots updated hd hr
    refine ⟨j, ?_⟩
    simp only [deleteExtraTrees, bind, BuildM.bind', pure, BuildM.pure', hj]
  | succ k =>
    obtain ⟨j, hj⟩ := deleteExtraTrees_doomed c k roots hd
    exact ⟨j, by simp only [bind, BuildM.bind', hj]⟩

theorem buildWith_transparentOn (mk : List Nat → IdGen) (c : Cfg) (o : BuildOpts) (fuel : Nat) :
    TransparentOn (RootsPresent c) (buildWith mk c o fuel) := by
  rw [buildWith_eq]
  refine TransparentOn.bind' ((preProcessItems_tr c).on _) (preProcessItems_keeps c).post (fun _ => ?_)
  refine TransparentOn.bind' ((itemIndices_tr c).on _) (itemIndices_keeps c).post (fun items => ?_)
  refine TransparentOn.bind' ((resetUpdated_tr c).on _) (resetUpdated_keeps c).post (fun updated => ?_)
  intro st hP
  split
  · exact singleLeaf_tr c items st
  · apply TransparentAt.getStore_bind
    refine usedThen_at c (fun u => afterUsedWith_tr (mk u) c o fuel items updated _) ?_
    intro hs st1 hd
    refine afterUsedWith_doomed (mk []) c o fuel items updated _ hd (hP ?_)
    obtain ⟨n, _, h0, _⟩ := hs
    intro e
    rw [e] at h0
    exact h0 rfl

/-- a `buildWith` that returns `Ok` under a cancel schedule is the fault-free `buildWith`
    (`C10_transparent_ok` for an arbitrary supply) -/
theorem buildWith_transparent_ok (mk : List Nat → IdGen) (c : Cfg) (o : BuildOpts) (fuel : Nat) (st st' : BState)
    (H : RootsPresent c st.store) (h : buildWith mk c o fuel st = .ok ((), st')) :
    buildWith mk c o fuel (erase st) = .ok ((), erase st') :=
  ((buildWith_transparentOn mk c o fuel st H).ok () st' h).1

/-! ## the chain after `used_tree_node` (`afterUsed_spec` with the generator abstracted) -/

theorem afterUsedWith_spec (g0 : IdGen) (c : Cfg) (o : BuildOpts) (fuel : Nat) (items updated roots used items0 : List Nat)
    (ts0 : List T) (st st' : BState) (hi : c.index < 65536) (hcap : 1 ≤ Build.cap c o)
    (hw : Store.WF st.store)
    (f0 : Forest c st.store roots items0 ts0)
    (hitems : Sorted items) (hupd : Sorted updated)
    (hrel : ∀ x, x ∉ updated → (x ∈ items0 ↔ x ∈ items))
    (hused : ∀ i, (Store.get st.store (c.treeKey i)).isSome = true → i ∈ used)
    (hg : GenOK used g0)
    (h : afterUsedWith g0 c o fuel items updated roots st = .ok ((), st')) :
    ∃ (roots' : List Nat) (ts' : List T),
      Store.get st'.store c.metaKey = some (.metadata c.metric.nameBytes c.dims items roots') ∧
      Forest c st'.store roots' items ts' ∧
      StoreStep c st.store st'.store ∧
      (∀ k, (∀ i, k ≠ c.treeKey i) → k ≠ c.metaKey → Store.get st'.store k = Store.get st.store k) ∧
      roots'.length = Build.targetNTrees o c.dims items.length roots.length ∧
      ((∀ t ∈ ts0, RoutedD (Build.treeCtx c o st.store).isZero
          (maskSide updated (sideD (Build.treeCtx c o st.store))) t) →
        ∀ t ∈ ts', RoutedT (Build.treeCtx c o st.store) t) ∧
      ((∀ t ∈ ts0, ∀ bk ∈ t.buckets, bk.2.length ≤ Build.cap c o) →
        ∀ t ∈ ts', ∀ bk ∈ t.buckets, bk.2.length ≤ Build.cap c o) := by
  unfold afterUsedWith at h
  -- 1. delete the extra trees
  obtain ⟨roots1, st1, h1, k1⟩ := bind_ok_inv h
  clear h
  obtain ⟨ts1, f1, sub1, step1, frame1, len1⟩ := deleteExtraTrees_spec c items0 _ roots ts0 st st1 roots1 f0 h1
  have hw1 := step1.wf hw
  have hin1 : ∀ i ∈ ts1.flatMap T.ids, i ∈ used := by
    intro i hi'
    obtain ⟨t, ht, hit⟩ := List.mem_flatMap.1 hi'
    exact hused i ((f0.holds t (sub1 t ht)).isSome hit)
  -- 2. delete the updated items
  obtain ⟨roots2, st2, h2, k2⟩ := bind_ok_inv k1
  clear k1
  obtain ⟨ts2, f2, sub2, step2, frame2, len2, some2⟩ :=
    deleteItemsFromTrees_forest c o roots1 items0 (IdSet.diff items updated) updated ts1 f1 hcap hupd
      (by
        intro x
        rw [mem_diff hitems hupd]
        constructor
        · rintro ⟨h1', h2'⟩; exact ⟨(hrel x h2').2 h1', h2'⟩
        · rintro ⟨h1', h2'⟩; exact ⟨(hrel x h2').1 h1', h2'⟩)
      hw1 hi h2
  have hw2 := step2.wf hw1
  have hin2 : ∀ i ∈ ts2.flatMap T.ids, i ∈ used := by
    intro i hi'
    exact hin1 i ((f1.cover i).1 (some2 i ((f2.cover i).2 hi')))
  -- 3. insert the updated items that are still stored
  obtain ⟨x3, st3, h3, k3⟩ := bind_ok_inv k2
  clear k2
  obtain ⟨large3, g3⟩ := x3
  simp only at k3
  obtain ⟨ts3, inUse3, f3, hg3, sup3, in3, step3, frame3, rel3, none3, cap3⟩ :=
    insertItems_forest c o roots2 (IdSet.diff items updated) items (IdSet.inter items updated) ts2
      g0 g3 used st2 st3 large3 _ f2 hin2 hg hw2 hi (sorted_inter updated hitems)
      (by
        intro x hx hx'
        exact ((mem_diff hitems hupd).1 hx').2 ((mem_inter hitems hupd).1 hx).2)
      (by
        intro x
        rw [mem_diff hitems hupd, mem_inter hitems hupd]
        constructor
        · intro hx
          by_cases hu : x ∈ updated
          · exact Or.inr ⟨hx, hu⟩
          · exact Or.inl ⟨hx, hu⟩
        · rintro (⟨hx, _⟩ | ⟨hx, _⟩) <;> exact hx)
      h3
  have hw3 := step3.wf hw2
  -- 4. create the missing trees
  obtain ⟨x4, st4, h4, k4⟩ := bind_ok_inv k3
  clear k3
  obtain ⟨roots4, large4, g4⟩ := x4
  simp only at k4
  obtain ⟨ts4, inUse4, f4, len4, hg4, sup4, in4, step4, frame4, new4, lsub4⟩ :=
    newTrees_spec c items hi hitems _ roots2 large3 roots4 large4 ts3 g3 g4 inUse3 st3 st4 f3 in3 hg3 h4
  have hw4 := step4.wf hw3
  -- 5. re-split the over-full buckets
  obtain ⟨u5, st5, h5, k5⟩ := bind_ok_inv k4
  clear k4
  obtain ⟨ts5, f5, step5, frame5, routed5, cap5⟩ :=
    resplit_spec c o roots4 items hi hcap fuel large4 ts4 g4 inUse4 st4 st5 f4 in4 hg4 hw4 h5
  -- 6. the metadata
  have e6 := writeMetadata_ok k5
  have frame04 : TreeFrame c st.store st4.store := ((frame1.trans frame2).trans frame3).trans frame4
  have frame05 : TreeFrame c st.store st5.store := frame04.trans frame5
  have cx2 : Build.treeCtx c o st2.store = Build.treeCtx c o st.store := (frame1.trans frame2).treeCtx o
  have cx4 : Build.treeCtx c o st4.store = Build.treeCtx c o st.store := frame04.treeCtx o
  refine ⟨roots4, ts5, ?_, ?_, ?_, ?_, ?_, ?_, ?_⟩
  · rw [e6, Store.get_put_same]
  · rw [e6]
    exact f5.frame (fun i => Store.get_put_other _ _ _ _ (Ne.symm (c.metaKey_ne_treeKey i)))
  · rw [e6]
    exact ((((step1.trans step2).trans step3).trans step4).trans step5).put_tree _ _ (c.metaKey_wf hi) c.metaKey_mode
  · intro k hk1 hk2
    rw [e6, Store.get_put_other _ _ _ _ hk2]
    exact frame05 k hk1
  · rw [len4, len2, len1]
    have := Nat.le_total roots.length (Build.targetNTrees o c.dims items.length roots.length)
    omega
  · intro hr
    rw [cx4] at routed5
    apply routed5
    intro t4 ht4
    rcases new4 t4 ht4 with h' | ⟨id, rfl, _⟩
    · obtain ⟨t2, ht2, r23⟩ := rel3.mem_right t4 h'
      rw [cx2] at r23
      apply r23.routed
      obtain ⟨t1, ht1, rfl⟩ := sub2 t2 ht2
      rw [routedT_iff_routedD]
      apply RoutedD.unmask (D := updated) (delT_routed _ _ _ _ t1 (hr t1 (sub1 t1 ht1)))
      intro x hx
      exact ((delT_tree_items hcap hupd ((TWF_iff t1).2 (f1.wf t1 ht1)) (not_leaf_of_refs f1.refs t1 ht1) x).1 hx).2
    · trivial
  · intro hc
    apply cap5
    intro t4 ht4 bk hbk hnf
    rcases new4 t4 ht4 with h' | ⟨id, rfl, hid⟩
    · apply lsub4
      by_cases hno : roots2 = [] ∨ IdSet.inter items updated = []
      · -- nothing was inserted: the trees are those after the deletion
        rw [(none3 hno).1] at h'
        obtain ⟨t1, ht1, rfl⟩ := sub2 t4 h'
        have := delT_capacity (Build.cap c o) updated t1 (fun b hb => hc t1 (sub1 t1 ht1) b hb) bk hbk
        exact absurd (by simpa [fits] using this) hnf
      · simp only [not_or] at hno
        exact cap3 hno.1 hno.2 t4 h' bk hbk hnf
    · simp only [T.buckets, List.mem_singleton] at hbk
      subst hbk
      exact hid


end Transp
open Transp

/-! ## `buildWith` on a store whose index is unbuilt or holds a valid forest (`build_core` with the supply abstracted) -/

theorem buildWith_core (mk : List Nat → IdGen) (c : Cfg) (o : BuildOpts) (fuel : Nat) (st st' : BState)
    (roots0 items0 : List Nat) (ts0 : List T)
    (hi : c.index < 65536) (hcap : 1 ≤ Build.cap c o)
    (hs : Store.Sorted st.store) (hw : Store.WF st.store)
    (old : Old c st.store roots0 items0 ts0) (hnone : st.cancelAt = none) (hfresh : FreshSupplyOf mk)
    (h : Build.buildWith mk c o fuel st = .ok ((), st')) :
    ∃ roots' ts', BuildOut c o st.store st'.store roots0 ts0 roots' ts' := by
  rw [buildWith_eq] at h
  obtain ⟨u1, st1, h1, k1⟩ := bind'_ok_inv h
  clear h
  obtain ⟨kept1, c1⟩ := preProcessItems_spec c h1 hs hw hi
  have hs1 := kept1.step.sorted hs
  have hw1 := kept1.step.wf hw
  obtain ⟨items, st2, h2, k2⟩ := bind'_ok_inv k1
  clear k1
  obtain ⟨e2a, e2b, c2⟩ := itemIndices_spec c h2
  obtain ⟨updated, st3, h3, k3⟩ := bind'_ok_inv k2
  clear k2
  obtain ⟨e3a, e3b, c3⟩ := resetUpdated_spec c h3
  rw [e2b] at e3a e3b
  have hitems : items = st.store.keysOf c.index modeItem := by rw [e2a, kept1.keysOf_item hs hw hi]
  have hupdated : updated = st.store.keysOf c.index modeUpdated := by rw [e3a, kept1.keysOf_updated hs hw hi]
  have hmarks := eraseMarks_all c st1.store hw1 hi
  rw [← e3a, ← e3b] at hmarks
  obtain ⟨marks_none, marks_other⟩ := hmarks
  have step03 : StoreStep c st.store st3.store := by
    rw [e3b]; exact eraseMarks_step c kept1.step _
  have hw3 := step03.wf hw
  have htree3 : ∀ i, Store.get st3.store (c.treeKey i) = Store.get st.store (c.treeKey i) := by
    intro i
    rw [marks_other _ (fun id => Ne.symm (c.updatedKey_ne_treeKey id i)), kept1.tree]
  have hmeta3 : Store.get st3.store c.metaKey = Store.get st.store c.metaKey := by
    rw [marks_other _ (fun id => c.metaKey_ne_updatedKey c id), kept1.meta]
  have hitem3 : ∀ id, Store.get st3.store (c.itemKey id) = Store.get st1.store (c.itemKey id) :=
    fun id => marks_other _ (fun id' => c.itemKey_ne_updatedKey c id' id)
  have hother3 : ∀ k : Key, k.index ≠ c.index → Store.get st3.store k = Store.get st.store k := by
    intro k hk
    rw [marks_other k (fun id e => hk (by rw [e]; rfl)), kept1.other k (Or.inl hk)]
  have hsitems : Sorted items := by rw [hitems]; exact Store.keysOf_sorted hs hw _ _ hi (by decide)
  have hsupd : Sorted updated := by rw [hupdated]; exact Store.keysOf_sorted hs hw _ _ hi (by decide)
  have hcancel3 : st3.cancelAt = none := by rw [c3, c2, c1, hnone]
  subst hitems
  split at k3
  · -- the index fits in one bucket
    rename_i hfit
    obtain ⟨sstep, smeta, sother, sforest⟩ := singleLeaf_spec c _ hw3 hi hsitems k3
    refine ⟨_, _, ⟨smeta, sforest, step03.trans sstep, ?_, ?_, ?_, ?_, fun _ => ⟨rfl, rfl⟩, ?_, ?_, ?_⟩⟩
    · intro id
      rw [sother _ (fun i => c.updatedKey_ne_treeKey id i) (Ne.symm (c.metaKey_ne_updatedKey c id))
        (Ne.symm (c.versionKey_ne_updatedKey id))]
      exact marks_none id
    · intro id
      rw [← kept1.vec id]
      apply vecOf_congr
      rw [sother _ (fun i => c.itemKey_ne_treeKey id i) (Ne.symm (c.metaKey_ne_itemKey c id))
        (Ne.symm (c.versionKey_ne_itemKey id)), hitem3]
    · intro id
      rw [sother _ (fun i => c.itemKey_ne_treeKey id i) (Ne.symm (c.metaKey_ne_itemKey c id))
        (Ne.symm (c.versionKey_ne_itemKey id)), hitem3, kept1.present]
    · intro k hk
      rw [sother k (fun i e => hk (by rw [e]; rfl)) (fun e => hk (by rw [e]; rfl)) (fun e => hk (by rw [e]; rfl))]
      exact hother3 k hk
    · intro hnf; rw [hfit] at hnf; cases hnf
    · intro _ t ht
      split at ht
      · cases ht
      · simp only [List.mem_singleton] at ht
        subst ht; trivial
    · intro _ t ht bk hbk
      split at ht
      · cases ht
      · simp only [List.mem_singleton] at ht
        subst ht
        simp only [T.buckets, List.mem_singleton] at hbk
        subst hbk
        simpa [fits] using hfit
  · -- the main path
    rename_i hfit
    obtain ⟨s, st4, h4, k4⟩ := bind'_ok_inv k3
    clear k3
    obtain ⟨rfl, rfl⟩ := getStore_ok' h4
    obtain ⟨used, st5, h5, k5⟩ := bind'_ok_inv k4
    clear k4
    have hns : ¬ Swallows c st3 := by
      rintro ⟨n, hn, _⟩
      rw [hcancel3] at hn; cases hn
    rw [usedTreeNode_noswallow c hns] at h5
    simp only [Except.ok.injEq, Prod.mk.injEq] at h5
    obtain ⟨hused_eq, hst5⟩ := h5
    have hst5s : st5.store = st3.store := by rw [← hst5]
    subst hused_eq
    have hroots : rootsOf c st3.store = roots0 := by rw [rootsOf_congr hmeta3, old.roots_eq]
    rw [hroots] at k5
    have hused_lt : ∀ i ∈ st3.store.keysOf c.index modeTree, i < 4294967296 := by
      intro i hi'
      rw [Store.mem_keysOf_iff hw3 _ _ _ hi (by decide)] at hi'
      exact lt_of_isSome_tree hw3 hi'
    obtain ⟨roots', ts', a1, a2, a3, a4, a5, a6, a7⟩ :=
      afterUsedWith_spec (mk _) c o fuel _ updated roots0 _ items0 ts0 st5 st' hi hcap (by rw [hst5s]; exact hw3)
        (by rw [hst5s]; exact old.forest.frame htree3) hsitems hsupd
        (by
          intro x hx
          rw [hupdated, Store.mem_keysOf_iff hw _ _ _ hi (by decide)] at hx
          have := old.marks x (by
            simp only [Cfg.updatedKey, Key.mkUpdated]
            cases hg' : Store.get st.store ⟨c.index, modeUpdated, x⟩ with
            | none => rfl
            | some v => rw [hg'] at hx; simp at hx)
          rw [this, Store.mem_keysOf_iff hw _ _ _ hi (by decide)]
          rfl)
        (by
          intro i hi'
          rw [hst5s] at hi'
          exact (Store.mem_keysOf_iff hw3 _ _ _ hi (by decide)).2 hi')
        (hfresh _ (Store.keysOf_sorted (step03.sorted hs) hw3 _ _ hi (by decide)) hused_lt)
        k5
    rw [hst5s] at a3 a4 a6
    rw [hupdated] at a6
    have hcx : Build.treeCtx c o st3.store = Build.treeCtx c o st.store :=
      treeCtx_stable c o (fun id => by rw [← kept1.vec id]; exact vecOf_congr (hitem3 id))
    rw [hcx] at a6
    refine ⟨roots', ts', ⟨a1, a2, step03.trans a3, ?_, ?_, ?_, ?_, ?_, fun _ => a5, a6, a7⟩⟩
    · intro id
      rw [a4 _ (fun i => c.updatedKey_ne_treeKey id i) (Ne.symm (c.metaKey_ne_updatedKey c id))]
      exact marks_none id
    · intro id
      rw [← kept1.vec id]
      apply vecOf_congr
      rw [a4 _ (fun i => c.itemKey_ne_treeKey id i) (Ne.symm (c.metaKey_ne_itemKey c id)), hitem3]
    · intro id
      rw [a4 _ (fun i => c.itemKey_ne_treeKey id i) (Ne.symm (c.metaKey_ne_itemKey c id)), hitem3, kept1.present]
    · intro k hk
      rw [a4 k (fun i e => hk (by rw [e]; rfl)) (fun e => hk (by rw [e]; rfl))]
      exact hother3 k hk
    · intro hf
      rw [hf] at hfit
      exact absurd rfl hfit


/-- `C01_build_out` for an arbitrary supply: everything the proof establishes about a successful build -/
theorem buildWith_out (mk : List Nat → IdGen) (c : Cfg) (o : BuildOpts) (fuel : Nat) (st st' : BState)
    (roots0 items0 : List Nat) (ts0 : List T)
    (hi : c.index < 65536) (hcap : 1 ≤ Build.cap c o) (hfresh : FreshSupplyOf mk)
    (hs : Store.Sorted st.store) (hw : Store.WF st.store) (old : Old c st.store roots0 items0 ts0)
    (h : Build.buildWith mk c o fuel st = .ok ((), st')) :
    ∃ roots' ts', BuildOut c o st.store st'.store roots0 ts0 roots' ts' := by
  have hrp : RootsPresent c st.store := old.rootsPresent hw hi
  have h' := buildWith_transparent_ok mk c o fuel st st' hrp h
  exact buildWith_core mk c o fuel (erase st) (erase st') roots0 items0 ts0 hi hcap hs hw old rfl hfresh h'

end Arroy
