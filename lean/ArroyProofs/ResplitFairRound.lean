import ArroyProofs.ResplitFair
/-! One round of `incremental_index_large_descendants`, with everything the termination argument needs:
the subtree `u'` that replaces the over-full bucket `b` is held by the store, grew out of the tree made
from the batch (re-rooted at `b`), and the queued ids are exactly over-full buckets of `u'`.
`resplit_round_out` is `resplit_round` (same proof) with the additional facts exported. -/
namespace Arroy
open BuildM Generated IdSet

/-- outcome of one round on bucket `b` (content `ids`) of the store `s`: `u0` is the tree made from the
    batch, re-rooted at `b`; `u'` the subtree below `b` after the rest was inserted -/
structure RoundOut (c : Cfg) (o : BuildOpts) (roots items : List Nat) (ts : List T) (s : Store) (b : Nat)
    (ids inUse : List Nat) (g' : IdGen) (stc : BState) (large2 : List Nat) (u0 u' : T) (inUse' : List Nat) : Prop where
  forest : Forest c stc.store roots items (ts.map (fun t => t.subst b u'))
  at_b : ∀ t ∈ ts, T.At b ids t
  gen : GenOK inUse' g'
  sup : ∀ i ∈ inUse, i ∈ inUse'
  ids_in : ∀ i ∈ u'.ids, i ∈ inUse'
  step : StoreStep c s stc.store
  frame : TreeFrame c s stc.store
  routed : RoutedT (Build.treeCtx c o s) u'
  items : ∀ x, x ∈ u'.items ↔ x ∈ ids
  queued : ∀ bk ∈ u'.buckets, ¬ fits (Build.cap c o) bk.2.length → bk.1 ∈ large2
  holds : Holds c stc.store u'
  ref : u'.ref = NodeId.mkTree b
  ids_nodup : u'.ids.Nodup
  items_nodup : u'.items.Nodup
  fresh : ∀ i ∈ u'.ids, i = b ∨ i ∉ inUse
  untouched : ∀ k', (∀ i ∈ u'.ids, k' ≠ c.treeKey i) → Store.get stc.store k' = Store.get s k'
  grow : Grow u0 u'
  large : LargeOf (Build.cap c o) [u'] large2
  large_sorted : Sorted large2
  sorted_ids : Sorted ids

theorem resplit_round_out (c : Cfg) (o : BuildOpts) (roots items : List Nat) (ts : List T) (s : Store)
    (b : Nat) (ids : List Nat) (k : Nat) (g g' : IdGen) (inUse : List Nat) (fuel0 fuel1 : Nat)
    (normals : List (List Nat)) (rs : List Bool) (r : MakeRes) (sta stb stc : BState) (large2 : List Nat)
    (f : Forest c s roots items ts)
    (hget : Store.get s (c.treeKey b) = some (.desc ids))
    (hin : ∀ i ∈ ts.flatMap T.ids, i ∈ inUse) (hg : GenOK inUse g)
    (hw : Store.WF s) (hi : c.index < 65536) (hcap : 1 ≤ Build.cap c o)
    (hm : makeT (Build.treeCtx c o s) fuel0 (ids.take k) g normals rs = .ok r)
    (hsa : sta.store = s)
    (hwb : Build.writeBack c [] r.puts (fun id => if id = r.tree.ref.item then b else id) sta = .ok ((), stb))
    (hins : Build.insertItemsInCurrentTrees c o [b] fuel1 (ids.drop k) r.gen stb = .ok ((large2, g'), stc)) :
    ∃ (u' : T) (inUse' : List Nat),
      RoundOut c o roots items ts s b ids inUse g' stc large2 (rootAt b ids r.tree) u' inUse' := by
  subst hsa
  have hbold : b ∈ ts.flatMap T.ids := (f.cover b).1 (by rw [hget]; rfl)
  have hb : b ∈ inUse := hin b hbold
  have hblt : b < 4294967296 := lt_of_isSome_tree hw (by rw [hget]; rfl)
  -- the bucket holds a sorted set
  have hsorted : Sorted ids := by
    obtain ⟨t, ht, hbt⟩ := List.mem_flatMap.1 hbold
    exact wf_bucket (f.wf t ht) (bucket_of_holds (f.holds t ht) hbt hget)
  have hstake : Sorted (ids.take k) := hsorted.sublist (List.take_sublist k ids)
  have hsdrop : Sorted (ids.drop k) := hsorted.sublist (List.drop_sublist k ids)
  have hsplit : ∀ x, x ∈ ids ↔ x ∈ ids.take k ∨ x ∈ ids.drop k := by
    intro x
    conv => lhs; rw [← List.take_append_drop k ids]
    exact List.mem_append
  have hdisj : ∀ x ∈ ids.drop k, x ∉ ids.take k := by
    intro x hx hx'
    have := hsorted.nodup
    rw [← List.take_append_drop k ids] at this
    exact (List.nodup_append.1 this).2.2 x hx' x hx rfl
  -- first half: the new subtree at `b`
  obtain ⟨a1, a2, a3, a4, a5, a6⟩ :=
    resplit_root c _ fuel0 (ids.take k) g normals rs r inUse b ids hm hg hb hget hblt hi hwb
  have hframe1 : TreeFrame c sta.store stb.store := fun k' hk' => a4 k' (fun i _ => hk' i)
  have hcx : Build.treeCtx c o stb.store = Build.treeCtx c o sta.store := hframe1.treeCtx o
  -- second half: the remaining items
  obtain ⟨us', inUse', c1, c2, c3, c4, c5, c6, c7, c8, c9, c10, c11, c12, c13, c14, c15, c16⟩ :=
    insertAll_grow c o [b] hi fuel1 (ids.drop k) [rootAt b ids r.tree] r.gen g'
      ((rootAt b ids r.tree).ids ++ inUse) stb stc large2
      (by simp [rootAt_ref])
      (by intro t ht; simp only [List.mem_singleton] at ht; subst ht; exact a1)
      (by simpa using a2)
      (by intro i hi'; simp only [List.flatMap_cons, List.flatMap_nil, List.append_nil] at hi'
          exact List.mem_append_left _ hi')
      a6 (a5.wf hw) hsdrop hins
  obtain ⟨u', rfl, hu'ref⟩ := singleton_of_map_ref c1
  simp only [List.flatMap_cons, List.flatMap_nil, List.append_nil] at c3 c4 c5 c8 c9
  rw [hcx] at c11
  have hrel : InsRel (Build.treeCtx c o sta.store) (ids.drop k) (rootAt b ids r.tree) u' := c11.1
  -- properties of the subtree before the insertion
  have hmi := makeT_items _ fuel0 (ids.take k) g normals rs r hm
  have hwf0 : WF (rootAt b ids r.tree) := rootAt_wf b ids r.tree hsorted (hmi.2 hstake)
  have hrouted0 : RoutedT (Build.treeCtx c o sta.store) (rootAt b ids r.tree) :=
    rootAt_routed _ b ids r.tree (makeT_routed _ fuel0 (ids.take k) g normals rs r hm
      (treeCtx_isZero_replicate_zero c o sta.store))
  have hitems : ∀ x, x ∈ u'.items ↔ x ∈ ids := by
    intro x
    rw [hrel.items, hsplit]
    by_cases hleaf : ∃ y, r.tree = .leaf y
    · obtain ⟨y, hy⟩ := hleaf
      rw [hy]
      simp only [rootAt, T.items]
      rw [hsplit]
      constructor
      · rintro ((h | h) | h)
        · exact Or.inl h
        · exact Or.inr h
        · exact Or.inr h
      · rintro (h | h)
        · exact Or.inl (Or.inl h)
        · exact Or.inr h
    · have hnl : ∀ y, r.tree ≠ .leaf y := fun y hy => hleaf ⟨y, hy⟩
      rw [rootAt_items b ids r.tree hnl, hmi.1.mem_iff]
  have hnodup : u'.items.Nodup := by
    by_cases hleaf : ∃ y, r.tree = .leaf y
    · obtain ⟨y, hy⟩ := hleaf
      obtain ⟨s', hs'⟩ := hrel.bucket b ids (by rw [hy]; rfl)
      have := hrel.wf hsdrop hwf0
      rw [hs'] at this ⊢
      exact Sorted.nodup this
    · have hnl : ∀ y, r.tree ≠ .leaf y := fun y hy => hleaf ⟨y, hy⟩
      apply hrel.nodup hsdrop hwf0
      · rw [rootAt_items b ids r.tree hnl]
        exact makeT_items_nodup _ fuel0 (ids.take k) g normals rs r hm hstake
      · intro x hx
        rw [rootAt_items b ids r.tree hnl, hmi.1.mem_iff]
        exact hdisj x hx
  have hfresh : ∀ i ∈ u'.ids, i = b ∨ i ∉ ts.flatMap T.ids := by
    intro i hi'
    rcases c4 i hi' with h' | ⟨h', _⟩
    · rcases a3 i h' with h'' | ⟨h'', _⟩
      · exact Or.inl h''
      · exact Or.inr (fun hm' => h'' (hin i hm'))
    · exact Or.inr (fun hm' => h' (List.mem_append_right _ (hin i hm')))
  have hframe : ∀ k', (∀ i ∈ u'.ids, k' ≠ c.treeKey i) → Store.get stc.store k' = Store.get sta.store k' := by
    intro k' hk'
    rw [c9 k' hk', a4 k' (fun i hi' => hk' i (c5 i hi'))]
  obtain ⟨fnew, hat⟩ := f.subst hget hu'ref c3 hfresh (c2 u' (by simp)) hframe (hrel.wf hsdrop hwf0) hnodup hitems
  have hfresh' : ∀ i ∈ u'.ids, i = b ∨ i ∉ inUse := by
    intro i hi'
    rcases c4 i hi' with h' | ⟨h', _⟩
    · rcases a3 i h' with h'' | ⟨h'', _⟩
      · exact Or.inl h''
      · exact Or.inr h''
    · exact Or.inr (fun hm' => h' (List.mem_append_right _ hm'))
  refine ⟨u', inUse', fnew, hat, c6, fun i hi' => c7 i (List.mem_append_right _ hi'), c8, a5.trans c10,
    fun k' hk' => hframe k' (fun i _ => hk' i), hrel.routed hrouted0, hitems, ?_, c2 u' (by simp), hu'ref, c3,
    hnodup, hfresh', hframe, c14.1, c15, c16, hsorted⟩
  -- over-full buckets of the new subtree are queued
  intro bk hbk hnf
  by_cases hd : ids.drop k = []
  · obtain ⟨e1, _, _⟩ := c12 (Or.inr hd)
    have e1' : u' = rootAt b ids r.tree := by simpa using e1
    rw [e1'] at hbk
    exfalso
    apply hnf
    by_cases hleaf : ∃ y, r.tree = .leaf y
    · obtain ⟨y, hy⟩ := hleaf
      rw [hy] at hbk
      simp only [rootAt, T.buckets, List.mem_singleton] at hbk
      subst hbk
      have h1 := makeT_leaf_batch hm hy
      have : ids = [y] := by
        rw [← List.take_append_drop k ids, hd, h1]; rfl
      simp only [this, List.length_cons, List.length_nil, fits]
      simpa using hcap
    · have hnl : ∀ y, r.tree ≠ .leaf y := fun y hy => hleaf ⟨y, hy⟩
      obtain ⟨q, hq, hq2⟩ := rootAt_buckets b ids r.tree hnl bk hbk
      have := makeT_capacity _ fuel0 (ids.take k) g normals rs r hm q hq
      rw [hq2] at this
      simpa [fits, Build.treeCtx] using this
  · exact c13 (by simp) hd u' (by simp) bk hbk hnf


end Arroy

