import ArroyProofs.InPlaceEq
import ArroyProofs.TransparentBuild
/-! The stages of `Build.build` written with the in-place routines (`InPlace.deleteLoopM`, ...,
`InPlace.buildM`) against the stages of `ArroyModel/Build.lean`.

`Sim m m'` : from every state, `m'` (in place) succeeds iff `m` (charged afterwards) does, with the
same value and state; if `m` fails with `e`, `m'` fails with `e`, or — only under a cancel schedule
and only if `e` is not itself a cancellation — with a cancellation that pre-empts `e`. -/
namespace Arroy
open BuildM Generated
namespace InPlace

/-- not a cancellation -/
def NC (e : Err) : Prop := ∀ k, e ≠ .cancelled k

/-! ## the pure routines never fail with `cancelled` -/

theorem next_err_nc {g : IdGen} {e : Err} (h : g.next = .error e) : NC e := by
  unfold IdGen.next at h
  dsimp only at h
  split at h
  · cases h; intro k hk; cases hk
  · split at h
    · split at h <;> cases h
    · cases h

theorem sideSplit_err_nc {cx : TreeCtx} {nm : List Nat} {xs : List Nat} {rs : List Bool} {e : Err}
    (h : sideSplit cx nm xs rs = .error e) : NC e := by
  induction xs generalizing rs with
  | nil => cases h
  | cons x xs ih =>
    unfold sideSplit at h
    split at h
    · cases h; intro k hk; cases hk
    · cases hs : sideSplit cx nm xs rs with
      | error e' => rw [hs] at h; cases h; exact ih hs
      | ok q => rw [hs] at h; dsimp only at h; split at h <;> cases h
    · split at h
      · cases h; intro k hk; cases hk
      · rename_i b rs1
        cases hs : sideSplit cx nm xs rs1 with
        | error e' => rw [hs] at h; cases h; exact ih hs
        | ok q => rw [hs] at h; dsimp only at h; split at h <;> cases h

theorem insParts_err_nc {cx : TreeCtx} {nm ins : List Nat} {rs : List Bool} {e : Err}
    (h : insParts cx nm ins rs = .error e) : NC e := by
  unfold insParts at h
  split at h
  · split at h
    · cases h
    · cases h; intro k hk; cases hk
  · exact sideSplit_err_nc h

theorem insertT_err_nc {cx : TreeCtx} {t : T} {ins : List Nat} {g : IdGen} {rs : List Bool} {e : Err}
    (h : insertT cx t ins g rs = .error e) : NC e := by
  induction t generalizing ins g rs with
  | leaf i =>
    unfold insertT at h
    dsimp only at h
    split at h
    · cases hg : g.next with
      | error e' => rw [hg] at h; cases h; exact next_err_nc hg
      | ok q => rw [hg] at h; cases h
    · cases h
  | bucket id s =>
    unfold insertT at h
    dsimp only at h
    split at h <;> cases h
  | node id nm l r ihl ihr =>
    rw [insertT_node] at h
    cases hp : insParts cx nm ins rs with
    | error e' => rw [hp] at h; cases h; exact insParts_err_nc hp
    | ok q =>
      obtain ⟨left, right, rs1⟩ := q
      rw [hp] at h
      dsimp only at h
      cases ha : insertT cx l left g rs1 with
      | error e' => rw [ha] at h; cases h; exact ihl ha
      | ok a =>
        rw [ha] at h
        dsimp only at h
        cases hb : insertT cx r right a.gen a.rands with
        | error e' => rw [hb] at h; cases h; exact ihr hb
        | ok b => rw [hb] at h; cases h

theorem chooseSplit_err_nc {cx : TreeCtx} {items : List Nat} {attempts : Nat} {normals : List (List Nat)}
    {rs : List Bool} {p : Nat} {e : Err} (h : chooseSplit cx items attempts normals rs p = .error e) : NC e := by
  induction attempts generalizing normals rs p with
  | zero =>
    unfold chooseSplit at h
    cases normals with
    | nil => cases h; intro k hk; cases hk
    | cons nm normals' =>
      dsimp only at h
      cases hs : sideSplit cx nm items rs with
      | error e' => rw [hs] at h; cases h; exact sideSplit_err_nc hs
      | ok q => rw [hs] at h; dsimp only at h; split at h <;> cases h
  | succ a ih =>
    unfold chooseSplit at h
    cases normals with
    | nil => cases h; intro k hk; cases hk
    | cons nm normals' =>
      dsimp only at h
      cases hs : sideSplit cx nm items rs with
      | error e' => rw [hs] at h; cases h; exact sideSplit_err_nc hs
      | ok q =>
        rw [hs] at h
        dsimp only at h
        split at h
        · cases h
        · exact ih h

theorem makeDecide_err_nc {items n l r : List Nat} {rs1 : List Bool} {e : Err}
    (h : makeDecide items n l r rs1 = .error e) : NC e := by
  unfold makeDecide at h
  split at h
  · split at h
    · cases h
    · cases h; intro k hk; cases hk
  · cases h

theorem makeRestT_err_nc {cx : TreeCtx} {fuel : Nat}
    (ih : ∀ items g normals rs e, makeT cx fuel items g normals rs = .error e → NC e)
    {items : List Nat} {g : IdGen} {normals : List (List Nat)} {rs : List Bool} {e : Err}
    (h : makeRestT cx fuel items g normals rs = .error e) : NC e := by
  unfold makeRestT at h
  split at h
  · cases hg : g.next with
    | error e' => rw [hg] at h; cases h; exact next_err_nc hg
    | ok q => rw [hg] at h; cases h
  · cases hc : chooseSplit cx items splitAttempts normals rs 0 with
    | error e' => rw [hc] at h; cases h; exact chooseSplit_err_nc hc
    | ok q =>
      obtain ⟨n, l, r, normals1, rs1, k⟩ := q
      rw [hc] at h
      dsimp only at h
      cases hd : makeDecide items n l r rs1 with
      | error e' => rw [hd] at h; cases h; exact makeDecide_err_nc hd
      | ok d =>
        obtain ⟨n', l', r', rs2⟩ := d
        rw [hd] at h
        dsimp only at h
        cases ha : makeT cx fuel l' g normals1 rs2 with
        | error e' => rw [ha] at h; cases h; exact ih _ _ _ _ _ ha
        | ok a =>
          rw [ha] at h
          dsimp only at h
          cases hb : makeT cx fuel r' a.gen a.normals a.rands with
          | error e' => rw [hb] at h; cases h; exact ih _ _ _ _ _ hb
          | ok b =>
            rw [hb] at h
            dsimp only at h
            cases hg : b.gen.next with
            | error e' => rw [hg] at h; cases h; exact next_err_nc hg
            | ok q => rw [hg] at h; cases h

theorem makeT_err_nc {cx : TreeCtx} {fuel : Nat} {items : List Nat} {g : IdGen} {normals : List (List Nat)}
    {rs : List Bool} {e : Err} (h : makeT cx fuel items g normals rs = .error e) : NC e := by
  induction fuel generalizing items g normals rs e with
  | zero => cases h; intro k hk; cases hk
  | succ fuel ih =>
    rw [makeT_succ] at h
    rcases items with _ | ⟨x, _ | ⟨y, zs⟩⟩
    · exact makeRestT_err_nc (fun _ _ _ _ _ h => ih h) h
    · cases h
    · exact makeRestT_err_nc (fun _ _ _ _ _ h => ih h) h

/-! ## `Sim` -/

/-- outcome of the charged-afterwards computation (left) against the in-place one (right),
    under the schedule `ca` of the start state -/
def Agree (ca : Option Nat) : Except Err (α × BState) → Except Err (α × BState) → Prop
  | .ok (a, s1), y => y = .ok (a, s1) ∧ s1.cancelAt = ca
  | .error e, .error e' => e' = e ∨ ((∃ k, e' = .cancelled k) ∧ NC e ∧ ca ≠ none)
  | .error _, .ok _ => False

def Sim (m m' : BuildM α) : Prop := ∀ st, Agree st.cancelAt (m st) (m' st)

/-- a successful run leaves the schedule alone -/
def Keeps (m : BuildM α) : Prop := ∀ st a st', m st = .ok (a, st') → st'.cancelAt = st.cancelAt

theorem Keeps.of_tr {m : BuildM α} (h : Transp.Transparent m) : Keeps m :=
  fun st a st' hm => ((h st).ok a st' hm).2.2.1

theorem Sim.refl {m : BuildM α} (h : Keeps m) : Sim m m := by
  intro st
  cases hm : m st with
  | error e => exact Or.inl rfl
  | ok r => obtain ⟨a, s1⟩ := r; exact ⟨rfl, h st a s1 hm⟩

theorem Sim.of_eq {m m' : BuildM α} (e : m' = m) (h : Keeps m) : Sim m m' := by
  subst e; exact Sim.refl h

theorem Sim.bind' {m m' : BuildM α} {f f' : α → BuildM β} (h : Sim m m') (hf : ∀ a, Sim (f a) (f' a)) :
    Sim (bind' m f) (bind' m' f') := by
  intro st
  have h0 := h st
  cases hm : m st with
  | error e =>
    rw [hm] at h0
    cases hm' : m' st with
    | ok r => rw [hm'] at h0; exact h0.elim
    | error e' =>
      rw [hm'] at h0
      rw [bind'_err hm, bind'_err hm']
      exact h0
  | ok r =>
    obtain ⟨a, s1⟩ := r
    rw [hm] at h0
    obtain ⟨h1, h2⟩ := h0
    rw [bind'_ok hm, bind'_ok h1, ← h2]
    exact hf a s1

theorem Sim.bind {m m' : BuildM α} {f f' : α → BuildM β} (h : Sim m m') (hf : ∀ a, Sim (f a) (f' a)) :
    Sim (m >>= f) (m' >>= f') := Sim.bind' h hf

theorem Sim.bindL {m : BuildM α} {f f' : α → BuildM β} (h : Keeps m) (hf : ∀ a, Sim (f a) (f' a)) :
    Sim (m >>= f) (m >>= f') := Sim.bind' (Sim.refl h) hf

theorem Sim.ite {p : Prop} [Decidable p] {a a' b b' : BuildM α} (ha : Sim a a') (hb : Sim b b') :
    Sim (if p then a else b) (if p then a' else b') := by
  split <;> assumption

theorem Keeps.pure (a : α) : Keeps (pure a : BuildM α) := by
  intro st b st' h; cases h; rfl
theorem Keeps.pure' (a : α) : Keeps (pure' a : BuildM α) := Keeps.pure a
theorem Keeps.fail (e : Err) : Keeps (fail e : BuildM α) := by
  intro st b st' h; cases h
theorem Keeps.poll : Keeps poll := Keeps.of_tr Transp.Transparent.poll
theorem Keeps.pollN (k : Nat) : Keeps (pollN k) := Keeps.of_tr (Transp.Transparent.pollN k)
theorem Keeps.getStore : Keeps getStore := Keeps.of_tr Transp.Transparent.getStore
theorem Keeps.nextBatch : Keeps nextBatch := Keeps.of_tr Transp.Transparent.nextBatch
theorem Keeps.peek : Keeps (fun s => .ok (s, s) : BuildM BState) := by
  intro st b st' h; cases h; rfl
theorem Keeps.usedTreeNode (c : Cfg) : Keeps (Build.usedTreeNode c) := by
  intro st a st' h
  unfold Build.usedTreeNode at h
  dsimp only at h
  split at h
  · split at h <;> (cases h; rfl)
  · cases h; rfl

/-- a state update -/
def upd (v : BState → BState) : BuildM Unit := fun s => .ok ((), v s)

/-- the update neither reads nor writes the poll counter and the schedule -/
structure PollFree (v : BState → BState) : Prop where
  cancelAt : ∀ s, (v s).cancelAt = s.cancelAt
  polls : ∀ s, (v s).polls = s.polls
  comm : ∀ s p, v { s with polls := p } = { v s with polls := p }

theorem Keeps.upd {v : BState → BState} (hv : PollFree v) : Keeps (upd v) := by
  intro st a st' h; cases h; exact hv.cancelAt st

theorem poll_upd {v : BState → BState} (hv : PollFree v) (s : BState) :
    poll (v s) = (match poll s with
      | .ok (_, s') => .ok ((), v s')
      | .error e => .error e) := by
  cases hc : s.cancelAt with
  | none =>
    have hc' : (v s).cancelAt = none := by rw [hv.cancelAt, hc]
    rw [Transp.poll_none hc', Transp.poll_none hc]
    dsimp only
    rw [hv.polls, hv.comm s (s.polls + 1)]
  | some n =>
    have hc' : (v s).cancelAt = some n := by rw [hv.cancelAt, hc]
    by_cases hn : n ≤ s.polls
    · rw [Transp.poll_some_ge hc' (by rw [hv.polls]; exact hn), Transp.poll_some_ge hc hn, hv.polls]
    · rw [Transp.poll_some_lt hc' (by rw [hv.polls]; omega), Transp.poll_some_lt hc (by omega)]
      dsimp only
      rw [hv.polls, hv.comm s (s.polls + 1)]

theorem upd_poll_comm {v : BState → BState} (hv : PollFree v) (f : Unit → BuildM β) :
    bind' (upd v) (fun _ => bind' poll f) = bind' poll (fun _ => bind' (upd v) f) := by
  funext s
  show BuildM.bind' poll f (v s) = _
  unfold BuildM.bind'
  rw [poll_upd hv]
  cases poll s with
  | error e => rfl
  | ok r => rfl

theorem upd_pollN_comm {v : BState → BState} (hv : PollFree v) (k : Nat) (f : Unit → BuildM β) :
    bind' (upd v) (fun _ => bind' (pollN k) f) = bind' (pollN k) (fun _ => bind' (upd v) f) := by
  induction k with
  | zero => rfl
  | succ k ih =>
    simp only [pollN_succ_bind]
    rw [upd_poll_comm hv]
    simp only [ih]

/-- the charging pattern of `Build.lean` (`liftExcept x`, write the oracle remainders back, `pollN`,
    go on) against the in-place routine (`After n x`), for continuations that agree -/
theorem Sim.charge {ρ : Type} {x : Except Err ρ} {n : Nat} (polls : ρ → Nat) (u : ρ → BState → BState)
    (hn : ∀ r, x = .ok r → polls r = n) (hx : ∀ e, x = .error e → NC e) (hu : ∀ r, PollFree (u r))
    {f f' : ρ → BuildM β} (hf : ∀ r, Sim (f r) (f' r)) :
    Sim (BuildM.bind' (liftExcept x) (fun r => BuildM.bind' (upd (u r)) (fun _ => BuildM.bind' (pollN (polls r)) (fun _ => f r))))
        (BuildM.bind' (After n x) (fun r => BuildM.bind' (upd (u r)) (fun _ => f' r))) := by
  cases x with
  | error e =>
    rw [After_error_bind]
    intro st
    obtain ⟨e', h1, h2⟩ := After_error_run (α := β) n e st
    rw [h1]
    show Agree _ (.error e) (.error e')
    rcases h2 with h2 | ⟨h2, h3⟩
    · exact Or.inl h2
    · exact Or.inr ⟨h2, hx e rfl, h3⟩
  | ok r =>
    rw [After_ok_bind, liftExcept_ok, pure'_bind', hn r rfl, upd_pollN_comm (hu r)]
    exact Sim.bind' (Sim.refl (Keeps.pollN n)) (fun _ => Sim.bind' (Sim.refl (Keeps.upd (hu r))) (fun _ => hf r))

theorem pollFree_rands (r : List Bool) : PollFree (fun s => { s with rands := r }) :=
  ⟨fun _ => rfl, fun _ => rfl, fun _ _ => rfl⟩

theorem pollFree_normals_rands (n : List (List Nat)) (r : List Bool) :
    PollFree (fun s => { s with normals := n, rands := r }) :=
  ⟨fun _ => rfl, fun _ => rfl, fun _ _ => rfl⟩

/-! ## what `Sim` says about the runs -/

theorem Sim.ok_iff {m m' : BuildM α} (h : Sim m m') (st : BState) (x : α × BState) :
    m st = .ok x ↔ m' st = .ok x := by
  have h0 := h st
  constructor
  · intro hm
    rw [hm] at h0
    exact h0.1
  · intro hm'
    cases hm : m st with
    | error e => rw [hm, hm'] at h0; exact h0.elim
    | ok r =>
      rw [hm] at h0
      rw [h0.1] at hm'
      exact hm'

theorem Sim.err {m m' : BuildM α} (h : Sim m m') (st : BState) (e : Err) (hm : m st = .error e) :
    ∃ e', m' st = .error e' ∧ (e' = e ∨ ((∃ k, e' = .cancelled k) ∧ NC e ∧ st.cancelAt ≠ none)) := by
  have h0 := h st
  rw [hm] at h0
  cases hm' : m' st with
  | ok r => rw [hm'] at h0; exact h0.elim
  | error e' => rw [hm'] at h0; exact ⟨e', rfl, h0⟩

theorem Sim.err' {m m' : BuildM α} (h : Sim m m') (st : BState) (e' : Err) (hm' : m' st = .error e') :
    ∃ e, m st = .error e ∧ (e' = e ∨ ((∃ k, e' = .cancelled k) ∧ NC e ∧ st.cancelAt ≠ none)) := by
  have h0 := h st
  cases hm : m st with
  | ok r =>
    obtain ⟨a, s1⟩ := r
    rw [hm] at h0
    rw [h0.1] at hm'
    cases hm'
  | error e => rw [hm, hm'] at h0; exact ⟨e, rfl, h0⟩

/-- without a schedule the two runs are the same -/
theorem Sim.eq_of_none {m m' : BuildM α} (h : Sim m m') (st : BState) (hc : st.cancelAt = none) :
    m' st = m st := by
  have h0 := h st
  cases hm : m st with
  | ok r =>
    obtain ⟨a, s1⟩ := r
    rw [hm] at h0
    exact h0.1
  | error e =>
    obtain ⟨e', h1, h2⟩ := h.err st e hm
    rw [h1]
    rcases h2 with h2 | ⟨_, _, h2⟩
    · rw [h2]
    · exact absurd hc h2

/-- a cancellation reported by the charged-afterwards run is reported by the in-place run, at the same call -/
theorem Sim.cancelled {m m' : BuildM α} (h : Sim m m') (st : BState) (k : Nat)
    (hm : m st = .error (.cancelled k)) : m' st = .error (.cancelled k) := by
  obtain ⟨e', h1, h2⟩ := h.err st _ hm
  rcases h2 with h2 | ⟨_, h2, _⟩
  · rw [h1, h2]
  · exact absurd rfl (h2 k)

/-! ## the stages -/
open Build

/-- `delete_items_from_trees`, loop over the roots: the two presentations are the same computation -/
theorem deleteLoopM_eq (c : Cfg) (o : BuildOpts) (D : List Nat) (s : Store) (roots : List Nat) :
    deleteLoopM c o D s roots = deleteLoop c o D s roots := by
  induction roots with
  | nil => rfl
  | cons root rest ih =>
    unfold deleteLoopM deleteLoop
    rw [ih]
    simp only [bind_eq, delM_eq_fun, bind'_assoc, pure'_bind']

theorem deleteItemsFromTreesM_eq (c : Cfg) (o : BuildOpts) (roots D : List Nat) :
    deleteItemsFromTreesM c o roots D = deleteItemsFromTrees c o roots D := by
  unfold deleteItemsFromTreesM deleteItemsFromTrees
  simp only [deleteLoopM_eq]

theorem Keeps.reifyRoot (c : Cfg) (s : Store) (root : Nat) : Keeps (Build.reifyRoot c s root) :=
  Keeps.of_tr (Transp.reifyRoot_tr c s root)

theorem insertRoots_sim (c : Cfg) (o : BuildOpts) (snap : Store) (batch roots : List Nat) (g : IdGen) :
    Sim (insertRoots c o snap batch roots g) (insertRootsM c o snap batch roots g) := by
  induction roots generalizing g with
  | nil => exact Sim.refl (Keeps.pure _)
  | cons root rest ih =>
    unfold insertRoots insertRootsM
    refine Sim.bindL Keeps.poll (fun _ => ?_)
    refine Sim.bindL (Keeps.reifyRoot c snap root) (fun t => ?_)
    refine Sim.bindL Keeps.peek (fun st => ?_)
    obtain ⟨n, e, p⟩ := insertM_after (treeCtx c o snap) t batch g st.rands
    rw [e]
    refine Sim.charge InsRes.polls (fun r s => { s with rands := r.rands }) p (fun e h => insertT_err_nc h)
      (fun r => pollFree_rands r.rands) (fun r => ?_)
    refine Sim.bind (ih r.gen) (fun x => ?_)
    obtain ⟨puts, large, g'⟩ := x
    exact Sim.refl (Keeps.pure _)

theorem Keeps.writeBack (c : Cfg) (a b d) : Keeps (Build.writeBack c a b d) :=
  Keeps.of_tr (Transp.writeBack_tr c a b d)

theorem Keeps.forEachWriteBack (c : Cfg) (putss : List (List (Nat × Val))) :
    Keeps (BuildM.forEach putss (fun puts => Build.writeBack c [] puts id)) :=
  Keeps.of_tr (Transp.Transparent.forEach _ _ (fun _ => Transp.writeBack_tr c _ _ _))

theorem insertItemsInCurrentTrees_sim (c : Cfg) (o : BuildOpts) (roots : List Nat) (fuel : Nat)
    (toInsert : List Nat) (g : IdGen) :
    Sim (insertItemsInCurrentTrees c o roots fuel toInsert g)
        (insertItemsInCurrentTreesM c o roots fuel toInsert g) := by
  induction fuel generalizing toInsert g with
  | zero => exact Sim.refl (Keeps.fail _)
  | succ fuel ih =>
    unfold insertItemsInCurrentTrees insertItemsInCurrentTreesM
    refine Sim.ite (Sim.refl (Keeps.pure _)) ?_
    refine Sim.bindL Keeps.poll (fun _ => ?_)
    refine Sim.bindL Keeps.getStore (fun snapshot => ?_)
    refine Sim.bindL Keeps.nextBatch (fun k => ?_)
    refine Sim.ite (Sim.refl (Keeps.fail _)) ?_
    refine Sim.bind (insertRoots_sim c o snapshot _ roots g) (fun x => ?_)
    obtain ⟨putss, large, g'⟩ := x
    refine Sim.bindL (Keeps.forEachWriteBack c putss) (fun _ => ?_)
    refine Sim.bind (ih _ g') (fun y => ?_)
    obtain ⟨large', g''⟩ := y
    exact Sim.refl (Keeps.pure _)

theorem incrementalIndexLargeDescendants_sim (c : Cfg) (o : BuildOpts) (fuel : Nat) (large : List Nat)
    (g : IdGen) :
    Sim (incrementalIndexLargeDescendants c o fuel large g)
        (incrementalIndexLargeDescendantsM c o fuel large g) := by
  induction fuel generalizing large g with
  | zero =>
    unfold incrementalIndexLargeDescendants incrementalIndexLargeDescendantsM
    exact Sim.ite (Sim.refl (Keeps.pure _)) (Sim.refl (Keeps.fail _))
  | succ fuel ih =>
    unfold incrementalIndexLargeDescendants incrementalIndexLargeDescendantsM
    cases large with
    | nil => exact Sim.refl (Keeps.pure _)
    | cons b large' =>
      dsimp only
      refine Sim.bindL Keeps.poll (fun _ => ?_)
      refine Sim.bindL Keeps.getStore (fun s => ?_)
      cases hget : s.get (c.treeKey b) with
      | none => exact Sim.refl (Keeps.fail _)
      | some v =>
        cases v with
        | desc ids =>
          dsimp only
          refine Sim.bindL Keeps.nextBatch (fun k => ?_)
          refine Sim.ite (Sim.refl (Keeps.fail _)) ?_
          refine Sim.bindL Keeps.peek (fun st => ?_)
          obtain ⟨n, e, p⟩ := makeM_after (treeCtx c o s) (st.normals.length + 2) (ids.take k) g st.normals st.rands
          rw [e]
          refine Sim.charge MakeRes.polls (fun r s => { s with normals := r.normals, rands := r.rands }) p
            (fun e h => makeT_err_nc h) (fun r => pollFree_normals_rands r.normals r.rands) (fun r => ?_)
          refine Sim.bindL (Keeps.writeBack c _ _ _) (fun _ => ?_)
          refine Sim.bind (insertItemsInCurrentTrees_sim c o [b] _ _ r.gen) (fun y => ?_)
          obtain ⟨large'', g'⟩ := y
          exact ih _ g'
        | _ => exact Sim.refl (Keeps.fail _)

theorem build_sim (c : Cfg) (o : BuildOpts) (fuel : Nat) : Sim (build c o fuel) (buildM c o fuel) := by
  unfold build buildM
  simp only [deleteItemsFromTreesM_eq]
  refine Sim.bindL (Keeps.of_tr (Transp.preProcessItems_tr c)) (fun _ => ?_)
  refine Sim.bindL (Keeps.of_tr (Transp.itemIndices_tr c)) (fun items => ?_)
  refine Sim.bindL (Keeps.of_tr (Transp.resetUpdated_tr c)) (fun updated => ?_)
  refine Sim.ite (Sim.refl (Keeps.of_tr (Transp.singleLeaf_tr c items))) ?_
  refine Sim.bindL Keeps.getStore (fun s => ?_)
  refine Sim.bindL (Keeps.usedTreeNode c) (fun used => ?_)
  refine Sim.bindL (Keeps.of_tr (Transp.deleteExtraTrees_tr c _ _)) (fun roots => ?_)
  refine Sim.bindL (Keeps.of_tr (Transp.deleteItemsFromTrees_tr c o _ _)) (fun roots' => ?_)
  refine Sim.bind (insertItemsInCurrentTrees_sim c o roots' _ _ _) (fun x => ?_)
  obtain ⟨large, g⟩ := x
  refine Sim.bindL (Keeps.of_tr (Transp.newTrees_tr c items _ _ _ _)) (fun y => ?_)
  obtain ⟨roots'', large', g'⟩ := y
  refine Sim.bind (incrementalIndexLargeDescendants_sim c o fuel large' g') (fun _ => ?_)
  exact Sim.refl (Keeps.of_tr (Transp.writeMetadata_tr c _ _))

end InPlace
end Arroy
