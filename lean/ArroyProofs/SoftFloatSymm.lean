import ArroyModel.SoftFloat
/-! Bit-for-bit symmetry facts of the soft-float model (core Lean only):
`add`, `mul`, `fma` commute for all bit patterns (NaNs are canonicalised to `qnan`);
`a - b` and `b - a` differ at most in the sign bit, hence `(a-b)²` and `|a-b|` are symmetric;
`x - x = +0` for finite `x`. -/
namespace Arroy.SF

/-! ### commutativity -/

theorem exactAdd_comm (n1 : Bool) (m1 : Nat) (e1 : Int) (n2 : Bool) (m2 : Nat) (e2 : Int) :
    exactAdd n1 m1 e1 n2 m2 e2 = exactAdd n2 m2 e2 n1 m1 e1 := by
  unfold exactAdd
  simp only [Int.min_comm e1 e2]
  rw [Int.add_comm]

theorem addV_comm (f : Fmt) (x y : V) : addV f x y = addV f y x := by
  cases x with
  | nan => cases y <;> simp [addV]
  | inf a =>
    cases y with
    | nan => simp [addV]
    | inf b => cases a <;> cases b <;> simp [addV]
    | fin n m e => simp [addV]
  | fin n1 m1 e1 =>
    cases y with
    | nan => simp [addV]
    | inf b => simp [addV]
    | fin n2 m2 e2 =>
      simp only [addV]
      rw [exactAdd_comm n1 m1 e1 n2 m2 e2, Bool.and_comm n1 n2]

/-- `a + b = b + a`, bit for bit -/
theorem add_comm (f : Fmt) (a b : Nat) : add f a b = add f b a := addV_comm f _ _

theorem bne_comm' (s t : Bool) : (s != t) = (t != s) := by cases s <;> cases t <;> rfl

/-- `a * b = b * a`, bit for bit -/
theorem mul_comm (f : Fmt) (a b : Nat) : mul f a b = mul f b a := by
  unfold mul
  cases unpack f a with
  | nan => cases unpack f b <;> rfl
  | inf s =>
    cases unpack f b with
    | nan => rfl
    | inf t => simp only [bne_comm' s t]
    | fin t m e => simp only [bne_comm' s t]
  | fin s m1 e1 =>
    cases unpack f b with
    | nan => rfl
    | inf t => simp only [bne_comm' s t]
    | fin t m2 e2 => simp only [bne_comm' s t, Nat.mul_comm m1 m2, Int.add_comm e1 e2]

/-- `fma(a, b, c) = fma(b, a, c)`, bit for bit -/
theorem fma_comm (f : Fmt) (a b c : Nat) : fma f a b c = fma f b a c := by
  unfold fma
  cases unpack f a with
  | nan => cases unpack f b <;> cases unpack f c <;> rfl
  | inf s =>
    cases unpack f b with
    | nan => cases unpack f c <;> rfl
    | inf t => cases unpack f c <;> simp only [bne_comm' s t]
    | fin t m e => cases unpack f c <;> simp only [bne_comm' s t]
  | fin s m1 e1 =>
    cases unpack f b with
    | nan => cases unpack f c <;> rfl
    | inf t => cases unpack f c <;> simp only [bne_comm' s t]
    | fin t m2 e2 =>
      cases unpack f c <;> simp only [bne_comm' s t, Nat.mul_comm m1 m2, Int.add_comm e1 e2]

/-! ### the sign bit -/

/-- weight of the sign bit -/
def signW (f : Fmt) : Nat := 2^(f.width - 1)

theorem signW_eq (f : Fmt) (hp : 1 ≤ f.p) : signW f = 2^(f.p - 1) * 2^f.ebits := by
  unfold signW Fmt.width
  rw [← Nat.pow_add]; congr 1; omega

theorem unpack_flip (f : Fmt) (a b : Nat)
    (h1 : b % 2^(f.p - 1) = a % 2^(f.p - 1))
    (h2 : b / 2^(f.p - 1) % 2^f.ebits = a / 2^(f.p - 1) % 2^f.ebits)
    (h3 : (b / 2^(f.width - 1) % 2 == 1) = !(a / 2^(f.width - 1) % 2 == 1)) :
    unpack f b = negV (unpack f a) := by
  unfold unpack
  simp only [h1, h2, h3]
  split
  · split <;> simp [negV]
  · split <;> simp [negV]

/-- adding the weight of the sign bit flips the sign and nothing else (for every natural number,
also those with bits above the format's width, which `unpack` ignores) -/
theorem unpack_add_signW (f : Fmt) (hp : 1 ≤ f.p) (a : Nat) :
    unpack f (a + signW f) = negV (unpack f a) := by
  apply unpack_flip
  · rw [signW_eq f hp, Nat.add_mul_mod_self_left]
  · rw [signW_eq f hp, Nat.add_mul_div_left _ _ (Nat.two_pow_pos _), Nat.add_mod_right]
  · show ((a + 2^(f.width - 1)) / 2^(f.width - 1) % 2 == 1) = _
    rw [Nat.add_div_right _ (Nat.two_pow_pos _)]
    have : a / 2^(f.width - 1) % 2 = 0 ∨ a / 2^(f.width - 1) % 2 = 1 := by omega
    rcases this with h | h
    · have : (a / 2^(f.width - 1) + 1) % 2 = 1 := by omega
      simp [h, this]
    · have : (a / 2^(f.width - 1) + 1) % 2 = 0 := by omega
      simp [h, this]

theorem negV_negV (x : V) : negV (negV x) = x := by cases x <;> simp [negV]

/-- two bit patterns that are equal or differ exactly by the sign bit -/
def NegRel (f : Fmt) (r r' : Nat) : Prop := r' = r ∨ r' = r + signW f ∨ r = r' + signW f

theorem NegRel.unpack {f : Fmt} (hp : 1 ≤ f.p) {r r' : Nat} (h : NegRel f r r') :
    unpack f r' = unpack f r ∨ unpack f r' = negV (unpack f r) := by
  rcases h with h | h | h
  · left; rw [h]
  · right; rw [h, unpack_add_signW f hp]
  · right; rw [h, unpack_add_signW f hp, negV_negV]

theorem packBits_true (f : Fmt) (ex frac : Nat) :
    packBits f true ex frac = packBits f false ex frac + signW f := by
  simp only [packBits, signW, if_true, Bool.false_eq_true, if_false]; omega

theorem NegRel.packBits (f : Fmt) (n n' : Bool) (ex frac : Nat) :
    NegRel f (packBits f n ex frac) (packBits f n' ex frac) := by
  cases n <;> cases n'
  · exact Or.inl rfl
  · exact Or.inr (Or.inl (packBits_true f ex frac))
  · exact Or.inr (Or.inr (packBits_true f ex frac))
  · exact Or.inl rfl

/-- the sign of `roundPack` is the sign handed in; exponent and fraction do not depend on it -/
theorem roundPack_shape (f : Fmt) (m : Nat) (e : Int) (sticky : Bool) :
    ∃ ex frac, ∀ neg, roundPack f neg m e sticky = packBits f neg ex frac := by
  unfold roundPack
  simp only
  repeat' split
  all_goals exact ⟨_, _, fun _ => rfl⟩

theorem NegRel.roundPack (f : Fmt) (n n' : Bool) (m : Nat) (e : Int) (sticky : Bool) :
    NegRel f (roundPack f n m e sticky) (roundPack f n' m e sticky) := by
  obtain ⟨ex, frac, h⟩ := roundPack_shape f m e sticky
  rw [h n, h n']; exact NegRel.packBits f n n' ex frac

theorem NegRel.infBits (f : Fmt) (n n' : Bool) : NegRel f (infBits f n) (infBits f n') :=
  NegRel.packBits f n n' _ _

theorem NegRel.refl (f : Fmt) (r : Nat) : NegRel f r r := Or.inl rfl

/-! ### `a - b` versus `b - a` -/

theorem exactAdd_swap (n1 : Bool) (m1 : Nat) (e1 : Int) (n2 : Bool) (m2 : Nat) (e2 : Int) :
    ∃ (s : Int) (e : Int),
      exactAdd n1 m1 e1 (!n2) m2 e2 = (decide (s < 0), s.natAbs, e) ∧
      exactAdd n2 m2 e2 (!n1) m1 e1 = (decide (-s < 0), s.natAbs, e) := by
  unfold exactAdd
  refine ⟨_, _, rfl, ?_⟩
  simp only [Int.min_comm e2 e1]
  have key : ∀ a b : Int, ((if n2 = true then -b else b) + if (!n1) = true then -a else a)
       = -((if n1 = true then -a else a) + if (!n2) = true then -b else b) := by
    intro a b; cases n1 <;> cases n2 <;> simp <;> omega
  rw [key, Int.natAbs_neg]

/-- `b - a` is `a - b` with at most the sign bit changed (both NaN, or equal zeros, or negations) -/
theorem sub_swap (f : Fmt) (a b : Nat) : NegRel f (sub f a b) (sub f b a) := by
  unfold sub
  cases unpack f a with
  | nan => cases unpack f b <;> exact NegRel.refl _ _
  | inf s =>
    cases unpack f b with
    | nan => exact NegRel.refl _ _
    | inf t =>
      cases s <;> cases t <;> simp only [addV, negV] <;>
        first | exact NegRel.refl _ _ | exact NegRel.infBits f _ _
    | fin t m e => exact NegRel.infBits f _ _
  | fin s m1 e1 =>
    cases unpack f b with
    | nan => exact NegRel.refl _ _
    | inf t => exact NegRel.infBits f _ _
    | fin t m2 e2 =>
      simp only [addV, negV]
      obtain ⟨z, e, h1, h2⟩ := exactAdd_swap s m1 e1 t m2 e2
      rw [h1, h2]
      simp only
      split
      · exact NegRel.packBits f _ _ 0 0
      · exact NegRel.roundPack f _ _ _ _ _

/-- `(a-b)·(a-b) = (b-a)·(b-a)`, bit for bit -/
theorem mul_self_negRel (f : Fmt) (hp : 1 ≤ f.p) {r r' : Nat} (h : NegRel f r r') :
    mul f r r = mul f r' r' := by
  unfold mul
  rcases h.unpack hp with h | h <;> rw [h]
  cases unpack f r <;> simp [negV]

theorem fma_self_negRel (f : Fmt) (hp : 1 ≤ f.p) {r r' : Nat} (h : NegRel f r r') (c : Nat) :
    fma f r r c = fma f r' r' c := by
  unfold fma
  rcases h.unpack hp with h | h <;> rw [h]
  cases unpack f r <;> cases unpack f c <;> simp [negV]

theorem abs_negRel (f : Fmt) {r r' : Nat} (h : NegRel f r r') : abs f r = abs f r' := by
  unfold abs
  rcases h with h | h | h
  · rw [h]
  · rw [h]; exact (Nat.add_mod_right _ _).symm
  · rw [h]; exact Nat.add_mod_right _ _

theorem sub_sq_symm (f : Fmt) (hp : 1 ≤ f.p) (a b : Nat) :
    mul f (sub f a b) (sub f a b) = mul f (sub f b a) (sub f b a) :=
  mul_self_negRel f hp (sub_swap f a b)

theorem sub_fma_symm (f : Fmt) (hp : 1 ≤ f.p) (a b c : Nat) :
    fma f (sub f a b) (sub f a b) c = fma f (sub f b a) (sub f b a) c :=
  fma_self_negRel f hp (sub_swap f a b) c

theorem sub_abs_symm (f : Fmt) (a b : Nat) : abs f (sub f a b) = abs f (sub f b a) :=
  abs_negRel f (sub_swap f a b)

/-! ### finite values and `x - x` -/

/-- neither NaN nor infinite -/
def isFin (f : Fmt) (a : Nat) : Bool := match unpack f a with | .fin _ _ _ => true | _ => false

theorem isFin_iff (f : Fmt) (a : Nat) :
    isFin f a = (a / 2^(f.p - 1) % 2^f.ebits != f.emaxField) := by
  unfold isFin unpack
  simp only [bne]
  cases (a / 2^(f.p - 1) % 2^f.ebits == f.emaxField)
  · simp only [Bool.false_eq_true, if_false, Bool.not_false]
    cases (a / 2^(f.p - 1) % 2^f.ebits == 0) <;> rfl
  · simp only [if_true, Bool.not_true]
    cases (a % 2^(f.p - 1) == 0) <;> rfl

theorem exactAdd_self (n : Bool) (m : Nat) (e : Int) : exactAdd n m e (!n) m e = (false, 0, e) := by
  unfold exactAdd
  have key : ∀ a : Int, ((if n = true then -a else a) + if (!n) = true then -a else a) = 0 := by
    intro a; cases n <;> simp <;> omega
  simp only [key]
  simp

/-- `x - x = +0` for every finite `x` -/
theorem sub_self (f : Fmt) (a : Nat) (h : isFin f a = true) : sub f a a = 0 := by
  unfold sub
  unfold isFin at h
  cases hx : unpack f a with
  | nan => simp [hx] at h
  | inf s => simp [hx] at h
  | fin n m e =>
    simp only [addV, negV, exactAdd_self]
    cases n <;> simp [packBits]

end Arroy.SF
