import ArroyProofs.StoreFold
import ArroyProofs.SetLemmas
import ArroyModel.Upgrade
/-! The upgrade functions as lists of writes: `up04to05` and `down` in closed form. -/
namespace Arroy.Upgrade
open Arroy Generated Store

/-- a tree node after the upgrade: the kinds of the children of a split node are renumbered -/
def upVal : Val → Val
  | .split l r n => .split ⟨(remapMode l.mode).getD l.mode, l.item⟩ ⟨(remapMode r.mode).getD r.mode, r.item⟩ n
  | other => other

/-- a tree node in the old layout -/
def downVal : Val → Val
  | .split l r n => .split ⟨(unmapMode l.mode).getD l.mode, l.item⟩ ⟨(unmapMode r.mode).getD r.mode, r.item⟩ n
  | other => other

/-- what a successful `upEntry` writes -/
def upWrites (kv : Key × Val) : List (Key × Val) :=
  if kv.1.mode = oldModeItem then [(⟨kv.1.index, modeItem, kv.1.item⟩, kv.2)]
  else if kv.1.mode = oldModeTree then [(⟨kv.1.index, modeTree, kv.1.item⟩, upVal kv.2)]
  else if kv.1.mode = oldModeMetadata then
    if kv.1.item = 0 then
      match kv.2 with
      | .metadata _ d i r => [(⟨kv.1.index, modeMetadata, 0⟩, .metadata cosineName d i r)]
      | _ => []
    else if kv.1.item = 1 then
      match kv.2 with
      | .desc ids => ids.map (fun id => (⟨kv.1.index, modeUpdated, id⟩, Val.unit))
      | _ => []
    else []
  else []

/-- the old-layout entries `upEntry` accepts -/
def UpGood (kv : Key × Val) : Prop :=
  kv.1.mode = oldModeItem ∨
  (kv.1.mode = oldModeTree ∧
    ∀ l r n, kv.2 = .split l r n → (remapMode l.mode).isSome = true ∧ (remapMode r.mode).isSome = true) ∨
  (kv.1.mode = oldModeMetadata ∧ kv.1.item = 0 ∧ ∃ nm d i r, kv.2 = .metadata nm d i r) ∨
  (kv.1.mode = oldModeMetadata ∧ kv.1.item = 1)

theorem upEntry_good (acc : Store) (kv : Key × Val) (h : UpGood kv) :
    upEntry acc kv = .ok (putAll acc (upWrites kv)) := by
  obtain ⟨k, v⟩ := kv
  unfold upEntry upWrites
  simp only
  rcases h with h | ⟨h, hc⟩ | ⟨h, h0, nm, d, i, r, hv⟩ | ⟨h, h1⟩
  · simp only at h
    rw [if_pos h, if_pos h]; rfl
  · simp only at h hc
    have h' : ¬ k.mode = oldModeItem := by rw [h]; decide
    rw [if_neg h', if_pos h, if_neg h', if_pos h]
    cases v with
    | split l r n =>
      obtain ⟨hl, hr⟩ := hc l r n rfl
      simp only [remapNode, upVal]
      cases hl' : remapMode l.mode with
      | none => rw [hl'] at hl; cases hl
      | some a =>
        cases hr' : remapMode r.mode with
        | none => rw [hr'] at hr; cases hr
        | some b => rfl
    | _ => rfl
  · simp only at h h0 hv
    subst hv
    have h1 : ¬ k.mode = oldModeItem := by rw [h]; decide
    have h2 : ¬ k.mode = oldModeTree := by rw [h]; decide
    rw [if_neg h1, if_neg h2, if_pos h, if_pos h0, if_neg h1, if_neg h2, if_pos h, if_pos h0]
    rfl
  · simp only at h h1
    have h1' : ¬ k.mode = oldModeItem := by rw [h]; decide
    have h2 : ¬ k.mode = oldModeTree := by rw [h]; decide
    have h0 : ¬ k.item = 0 := by rw [h1]; decide
    rw [if_neg h1', if_neg h2, if_pos h, if_neg h0, if_pos h1, if_neg h1', if_neg h2, if_pos h, if_neg h0, if_pos h1]
    cases v with
    | desc ids =>
      simp only [putAll, List.foldl_map]
    | _ => rfl

theorem foldlM_upEntry (old : List (Key × Val)) (acc : Store) (h : ∀ kv ∈ old, UpGood kv) :
    old.foldlM upEntry acc = .ok (putAll acc (old.flatMap upWrites)) := by
  induction old generalizing acc with
  | nil => rfl
  | cons kv rest ih =>
    rw [List.foldlM_cons, upEntry_good acc kv (h kv (List.mem_cons_self ..))]
    show rest.foldlM upEntry _ = _
    rw [ih _ (fun x hx => h x (List.mem_cons_of_mem _ hx)), List.flatMap_cons, putAll_append]

/-- on acceptable input the upgrade is the list of its writes applied to the empty database -/
theorem up04to05_good (old : List (Key × Val)) (h : ∀ kv ∈ old, UpGood kv) :
    up04to05 old = .ok (putAll [] (old.flatMap upWrites)) := foldlM_upEntry old [] h

/-! ## `down` -/

/-- first pass of `down`: items, tree nodes, metadata -/
def downWrites (oldName : Bytes) (kv : Key × Val) : List (Key × Val) :=
  if kv.1.mode = modeItem then [(⟨kv.1.index, oldModeItem, kv.1.item⟩, kv.2)]
  else if kv.1.mode = modeTree then [(⟨kv.1.index, oldModeTree, kv.1.item⟩, downVal kv.2)]
  else if kv.1.mode = metadataKeyMode ∧ kv.1.item = metadataKeyItem then
    match kv.2 with
    | .metadata _ d i r => [(⟨kv.1.index, oldModeMetadata, 0⟩, .metadata oldName d i r)]
    | _ => []
  else []

def bitmapKey (i : Nat) : Key := ⟨i, oldModeMetadata, 1⟩

def curIds (acc : Store) (key : Key) : List Nat :=
  match Store.get acc key with
  | some (.desc ids) => ids
  | _ => []

/-- second pass of `down`: one updated mark into the bitmap of its index -/
def markStep (acc : List (Key × Val)) (kv : Key × Val) : List (Key × Val) :=
  if kv.1.mode = modeUpdated then
    Store.put acc (bitmapKey kv.1.index) (.desc (IdSet.insert kv.1.item (curIds acc (bitmapKey kv.1.index))))
  else acc

theorem down_eq (oldName : Bytes) (s : Store) :
    down oldName s = s.foldl markStep (putAll [] (s.flatMap (downWrites oldName))) := by
  unfold down
  simp only
  rw [← foldl_putAll]
  congr 1
  · funext acc kv
    obtain ⟨k, v⟩ := kv
    unfold markStep curIds bitmapKey insertOld
    simp only
    split
    · cases hg : Store.get acc ⟨k.index, oldModeMetadata, 1⟩ with
      | none => rfl
      | some x => cases x <;> rfl
    · rfl
  · congr 1
    funext acc kv
    obtain ⟨k, v⟩ := kv
    unfold downWrites insertOld
    simp only
    split
    · rfl
    · split
      · cases v <;> rfl
      · split
        · cases v <;> rfl
        · rfl

theorem mem_downWrites_iff (oldName : Bytes) (k k' : Key) (v v' : Val) :
    (k', v') ∈ downWrites oldName (k, v) ↔
      (k.mode = modeItem ∧ k' = ⟨k.index, oldModeItem, k.item⟩ ∧ v' = v) ∨
      (k.mode = modeTree ∧ k' = ⟨k.index, oldModeTree, k.item⟩ ∧ v' = downVal v) ∨
      (k.mode = metadataKeyMode ∧ k.item = metadataKeyItem ∧ ∃ nm d i r, v = .metadata nm d i r ∧
        k' = ⟨k.index, oldModeMetadata, 0⟩ ∧ v' = .metadata oldName d i r) := by
  unfold downWrites
  simp only
  constructor
  · intro h
    split at h
    · rename_i h1
      simp only [List.mem_singleton, Prod.mk.injEq] at h
      exact Or.inl ⟨h1, h.1, h.2⟩
    · split at h
      · rename_i h2
        simp only [List.mem_singleton, Prod.mk.injEq] at h
        exact Or.inr (Or.inl ⟨h2, h.1, h.2⟩)
      · split at h
        · rename_i h3
          split at h
          · simp only [List.mem_singleton, Prod.mk.injEq] at h
            exact Or.inr (Or.inr ⟨h3.1, h3.2, _, _, _, _, rfl, h.1, h.2⟩)
          · cases h
        · cases h
  · rintro (⟨h1, h2, h3⟩ | ⟨h1, h2, h3⟩ | ⟨h1, h1', nm, d, i, r, hv, h2, h3⟩)
    · rw [if_pos h1, h2, h3]; exact List.mem_singleton.2 rfl
    · rw [if_neg (by rw [h1]; decide), if_pos h1, h2, h3]; exact List.mem_singleton.2 rfl
    · subst hv
      rw [if_neg (by rw [h1]; decide), if_neg (by rw [h1]; decide), if_pos ⟨h1, h1'⟩, h2, h3]
      exact List.mem_singleton.2 rfl

theorem length_downWrites_le (oldName : Bytes) (kv : Key × Val) : (downWrites oldName kv).length ≤ 1 := by
  unfold downWrites
  split
  · simp
  · split
    · simp
    · split
      · split <;> simp
      · simp

/-- in a sorted store two entries with the same key are the same entry -/
theorem eq_of_key_eq {s : Store} (hs : Sorted s) {x y : Key × Val} (hx : x ∈ s) (hy : y ∈ s) (h : x.1 = y.1) :
    x = y := by
  obtain ⟨kx, vx⟩ := x
  obtain ⟨ky, vy⟩ := y
  simp only at h
  subst h
  have h1 := (get_eq_some_iff hs kx vx).2 hx
  have h2 := (get_eq_some_iff hs kx vy).2 hy
  rw [h1] at h2
  cases h2; rfl

/-- the source key of an old-layout key written by the first pass -/
theorem downWrites_src {oldName : Bytes} {kv w : Key × Val} (h : w ∈ downWrites oldName kv) :
    kv.1 = if w.1.mode = oldModeItem then ⟨w.1.index, modeItem, w.1.item⟩
      else if w.1.mode = oldModeTree then ⟨w.1.index, modeTree, w.1.item⟩
      else ⟨w.1.index, metadataKeyMode, metadataKeyItem⟩ := by
  obtain ⟨k, v⟩ := kv
  obtain ⟨k', v'⟩ := w
  rcases (mem_downWrites_iff oldName k k' v v').1 h with ⟨h1, h2, _⟩ | ⟨h1, h2, _⟩ | ⟨h1, h1', _, _, _, _, _, h2, _⟩
  · subst h2
    show k = if oldModeItem = oldModeItem then _ else _
    rw [if_pos rfl]; exact Key.eq_of_fields rfl h1 rfl
  · subst h2
    show k = if oldModeTree = oldModeItem then _ else if oldModeTree = oldModeTree then _ else _
    rw [if_neg (by decide), if_pos rfl]; exact Key.eq_of_fields rfl h1 rfl
  · subst h2
    show k = if oldModeMetadata = oldModeItem then _ else if oldModeMetadata = oldModeTree then _ else _
    rw [if_neg (by decide), if_neg (by decide)]; exact Key.eq_of_fields rfl h1 h1'

theorem functional_downWrites (oldName : Bytes) {s : Store} (hs : Sorted s) :
    Functional (s.flatMap (downWrites oldName)) := by
  intro a ha b hb hab
  obtain ⟨x, hx, hax⟩ := List.mem_flatMap.1 ha
  obtain ⟨y, hy, hby⟩ := List.mem_flatMap.1 hb
  have hxy : x.1 = y.1 := by rw [downWrites_src hax, downWrites_src hby, hab]
  have := eq_of_key_eq hs hx hy hxy
  subst this
  have hl := length_downWrites_le oldName x
  match hd : downWrites oldName x, hl with
  | [], _ => rw [hd] at hax; cases hax
  | [w], _ =>
    rw [hd] at hax hby
    simp only [List.mem_singleton] at hax hby
    rw [hax, hby]

/-! ### the second pass -/

/-- the ids of the updated marks of index `i`, in store order -/
def marks (i : Nat) (l : List (Key × Val)) : List Nat :=
  (l.filter (fun kv => decide (kv.1.mode = modeUpdated ∧ kv.1.index = i))).map (·.1.item)

def insertAll (xs : List Nat) (init : List Nat) : List Nat := xs.foldl (fun a x => IdSet.insert x a) init

theorem mem_insertAll {xs init : List Nat} {z : Nat} : z ∈ insertAll xs init ↔ z ∈ xs ∨ z ∈ init := by
  unfold insertAll
  induction xs generalizing init with
  | nil => simp
  | cons x xs ih =>
    rw [List.foldl_cons, ih, IdSet.mem_insert, List.mem_cons]
    constructor
    · rintro (h | h | h)
      · exact Or.inl (Or.inr h)
      · exact Or.inl (Or.inl h)
      · exact Or.inr h
    · rintro ((h | h) | h)
      · exact Or.inr (Or.inl h)
      · exact Or.inl h
      · exact Or.inr (Or.inr h)

theorem sorted_insertAll {xs init : List Nat} (h : IdSet.Sorted init) : IdSet.Sorted (insertAll xs init) := by
  unfold insertAll
  induction xs generalizing init with
  | nil => exact h
  | cons x xs ih => exact ih (IdSet.sorted_insert h)

theorem mem_marks_iff {i id : Nat} {l : List (Key × Val)} :
    id ∈ marks i l ↔ ∃ v, ((⟨i, modeUpdated, id⟩ : Key), v) ∈ l := by
  unfold marks
  simp only [List.mem_map, List.mem_filter, decide_eq_true_eq]
  constructor
  · rintro ⟨⟨k, v⟩, ⟨hm, h1, h2⟩, h3⟩
    simp only at h1 h2 h3
    have : k = ⟨i, modeUpdated, id⟩ := Key.eq_of_fields h2 h1 h3
    rw [← this]; exact ⟨v, hm⟩
  · rintro ⟨v, hv⟩
    exact ⟨_, ⟨hv, rfl, rfl⟩, rfl⟩

theorem markStep_sorted {acc : Store} (h : Sorted acc) (kv : Key × Val) : Sorted (markStep acc kv) := by
  unfold markStep
  split
  · exact put_sorted h _ _
  · exact h

theorem foldl_markStep_sorted {acc : Store} (h : Sorted acc) (l : List (Key × Val)) :
    Sorted (l.foldl markStep acc) := by
  induction l generalizing acc with
  | nil => exact h
  | cons kv rest ih => exact ih (markStep_sorted h kv)

theorem get_markStep_other (acc : Store) (kv : Key × Val) (k' : Key)
    (h : ¬ (k'.mode = oldModeMetadata ∧ k'.item = 1)) : Store.get (markStep acc kv) k' = Store.get acc k' := by
  unfold markStep
  split
  · rw [get_put, if_neg]
    intro e; apply h; rw [e]; exact ⟨rfl, rfl⟩
  · rfl

theorem get_foldl_markStep_other (l : List (Key × Val)) (acc : Store) (k' : Key)
    (h : ¬ (k'.mode = oldModeMetadata ∧ k'.item = 1)) :
    Store.get (l.foldl markStep acc) k' = Store.get acc k' := by
  induction l generalizing acc with
  | nil => rfl
  | cons kv rest ih => rw [List.foldl_cons, ih, get_markStep_other acc kv k' h]

theorem bitmapKey_inj {i j : Nat} (h : bitmapKey i = bitmapKey j) : i = j := congrArg Key.index h

theorem curIds_of_get {acc : Store} {key : Key} {ids : List Nat} (h : Store.get acc key = some (.desc ids)) :
    curIds acc key = ids := by
  unfold curIds; rw [h]

theorem get_foldl_markStep_bitmap (l : List (Key × Val)) (acc : Store) (i : Nat) :
    Store.get (l.foldl markStep acc) (bitmapKey i) =
      if marks i l = [] then Store.get acc (bitmapKey i)
      else some (.desc (insertAll (marks i l) (curIds acc (bitmapKey i)))) := by
  induction l generalizing acc with
  | nil => rfl
  | cons kv rest ih =>
    rw [List.foldl_cons, ih]
    by_cases hm : kv.1.mode = modeUpdated
    · by_cases hi : kv.1.index = i
      · have hmk : marks i (kv :: rest) = kv.1.item :: marks i rest := by
          unfold marks; rw [List.filter_cons_of_pos (by simp [hm, hi])]; rfl
        have hg : Store.get (markStep acc kv) (bitmapKey i) =
            some (.desc (IdSet.insert kv.1.item (curIds acc (bitmapKey i)))) := by
          unfold markStep; rw [if_pos hm, hi, get_put, if_pos rfl]
        have hc : curIds (markStep acc kv) (bitmapKey i) = IdSet.insert kv.1.item (curIds acc (bitmapKey i)) :=
          curIds_of_get hg
        rw [hmk, hg, hc, if_neg (List.cons_ne_nil kv.1.item (marks i rest))]
        split <;> rename_i he
        · rw [he]; rfl
        · rfl
      · have hmk : marks i (kv :: rest) = marks i rest := by
          unfold marks; rw [List.filter_cons_of_neg (by simp [hi])]
        have hg : Store.get (markStep acc kv) (bitmapKey i) = Store.get acc (bitmapKey i) := by
          unfold markStep; rw [if_pos hm, get_put, if_neg (fun e => hi (bitmapKey_inj e).symm)]
        have hc : curIds (markStep acc kv) (bitmapKey i) = curIds acc (bitmapKey i) := by
          unfold curIds; rw [hg]
        rw [hmk, hg, hc]
    · have hmk : marks i (kv :: rest) = marks i rest := by
        unfold marks; rw [List.filter_cons_of_neg (by simp [hm])]
      have : markStep acc kv = acc := by unfold markStep; rw [if_neg hm]
      rw [hmk, this]

/-! ### `down` in closed form -/

theorem down_sorted (oldName : Bytes) (s : Store) : Sorted (down oldName s) := by
  rw [down_eq]
  exact foldl_markStep_sorted (putAll_sorted sorted_nil _) _

theorem get_down_bitmap (oldName : Bytes) (s : Store) (i : Nat) :
    Store.get (down oldName s) (bitmapKey i) =
      if marks i s = [] then none else some (.desc (insertAll (marks i s) [])) := by
  have hb : Store.get (putAll [] (s.flatMap (downWrites oldName))) (bitmapKey i) = none := by
    rw [get_putAll_of_not_mem]
    · rfl
    · intro w hw e
      obtain ⟨⟨k, v⟩, _, hx⟩ := List.mem_flatMap.1 hw
      obtain ⟨k', v'⟩ := w
      simp only at e
      subst e
      rcases (mem_downWrites_iff oldName k _ v v').1 hx with ⟨_, h2, _⟩ | ⟨_, h2, _⟩ | ⟨_, _, _, _, _, _, _, h2, _⟩
      · exact absurd (congrArg Key.mode h2) (show ¬ oldModeMetadata = oldModeItem by decide)
      · exact absurd (congrArg Key.mode h2) (show ¬ oldModeMetadata = oldModeTree by decide)
      · exact absurd (congrArg Key.item h2) (show ¬ 1 = 0 by decide)
  rw [down_eq, get_foldl_markStep_bitmap, hb]
  unfold curIds
  rw [hb]

theorem get_down_other (oldName : Bytes) {s : Store} (hs : Sorted s) (k' : Key) (v' : Val)
    (h : ¬ (k'.mode = oldModeMetadata ∧ k'.item = 1)) :
    Store.get (down oldName s) k' = some v' ↔ ∃ kv ∈ s, (k', v') ∈ downWrites oldName kv := by
  rw [down_eq, get_foldl_markStep_other _ _ _ h, get_putAll_nil (functional_downWrites oldName hs),
    List.mem_flatMap]

/-- the content of the old-layout database, entry by entry -/
def OldEntry (oldName : Bytes) (s : Store) (k' : Key) (v' : Val) : Prop :=
  (k'.mode = oldModeItem ∧ Store.get s ⟨k'.index, modeItem, k'.item⟩ = some v') ∨
  (k'.mode = oldModeTree ∧ ∃ v, Store.get s ⟨k'.index, modeTree, k'.item⟩ = some v ∧ v' = downVal v) ∨
  (k'.mode = oldModeMetadata ∧ k'.item = 0 ∧ ∃ nm d i r,
    Store.get s ⟨k'.index, metadataKeyMode, metadataKeyItem⟩ = some (.metadata nm d i r) ∧
    v' = .metadata oldName d i r) ∨
  (k'.mode = oldModeMetadata ∧ k'.item = 1 ∧ marks k'.index s ≠ [] ∧
    v' = .desc (insertAll (marks k'.index s) []))

theorem mem_down_iff (oldName : Bytes) {s : Store} (hs : Sorted s) (k' : Key) (v' : Val) :
    (k', v') ∈ down oldName s ↔ OldEntry oldName s k' v' := by
  rw [← get_eq_some_iff (down_sorted oldName s)]
  unfold OldEntry
  by_cases hb : k'.mode = oldModeMetadata ∧ k'.item = 1
  · have hk : k' = bitmapKey k'.index := Key.eq_of_fields rfl hb.1 hb.2
    have e1 : ¬ k'.mode = oldModeItem := by rw [hb.1]; decide
    have e2 : ¬ k'.mode = oldModeTree := by rw [hb.1]; decide
    have e3 : ¬ k'.item = 0 := by rw [hb.2]; decide
    have : Store.get (down oldName s) k' = Store.get (down oldName s) (bitmapKey k'.index) := by rw [← hk]
    rw [this, get_down_bitmap]
    constructor
    · intro h
      by_cases hm : marks k'.index s = []
      · rw [if_pos hm] at h; cases h
      · rw [if_neg hm] at h
        simp only [Option.some.injEq] at h
        exact Or.inr (Or.inr (Or.inr ⟨hb.1, hb.2, hm, h.symm⟩))
    · rintro (⟨h, _⟩ | ⟨h, _⟩ | ⟨_, h, _⟩ | ⟨_, _, hm, hv⟩)
      · exact absurd h e1
      · exact absurd h e2
      · exact absurd h e3
      · rw [if_neg hm, hv]
  · rw [get_down_other oldName hs k' v' hb]
    constructor
    · rintro ⟨⟨k, v⟩, hkv, hw⟩
      have hg := (get_eq_some_iff hs k v).2 hkv
      rcases (mem_downWrites_iff oldName k k' v v').1 hw with
        ⟨h1, h2, h3⟩ | ⟨h1, h2, h3⟩ | ⟨h1, h1', nm, d, i, r, hv, h2, h3⟩
      · left
        subst h2 h3
        refine ⟨rfl, ?_⟩
        rw [← hg]; congr 1; exact Key.eq_of_fields rfl h1.symm rfl
      · right; left
        subst h2
        refine ⟨rfl, v, ?_, h3⟩
        rw [← hg]; congr 1; exact Key.eq_of_fields rfl h1.symm rfl
      · right; right; left
        subst h2 hv
        refine ⟨rfl, rfl, nm, d, i, r, ?_, h3⟩
        rw [← hg]; congr 1; exact Key.eq_of_fields rfl h1.symm h1'.symm
    · rintro (⟨h1, hg⟩ | ⟨h1, v, hg, hv⟩ | ⟨h1, h0, nm, d, i, r, hg, hv⟩ | ⟨h1, h0, _⟩)
      · refine ⟨_, mem_of_get hg, ?_⟩
        rw [mem_downWrites_iff]
        exact Or.inl ⟨rfl, Key.eq_of_fields rfl h1 rfl, rfl⟩
      · refine ⟨_, mem_of_get hg, ?_⟩
        rw [mem_downWrites_iff]
        exact Or.inr (Or.inl ⟨rfl, Key.eq_of_fields rfl h1 rfl, hv⟩)
      · refine ⟨_, mem_of_get hg, ?_⟩
        rw [mem_downWrites_iff]
        exact Or.inr (Or.inr ⟨rfl, rfl, nm, d, i, r, rfl, Key.eq_of_fields rfl h1 h0, hv⟩)
      · exact absurd ⟨h1, h0⟩ hb

/-! ### the writes of the upgrade -/

theorem mem_upWrites_iff (k' k : Key) (v' v : Val) :
    (k, v) ∈ upWrites (k', v') ↔
      (k'.mode = oldModeItem ∧ k = ⟨k'.index, modeItem, k'.item⟩ ∧ v = v') ∨
      (k'.mode = oldModeTree ∧ k = ⟨k'.index, modeTree, k'.item⟩ ∧ v = upVal v') ∨
      (k'.mode = oldModeMetadata ∧ k'.item = 0 ∧ ∃ nm d i r, v' = .metadata nm d i r ∧
        k = ⟨k'.index, modeMetadata, 0⟩ ∧ v = .metadata cosineName d i r) ∨
      (k'.mode = oldModeMetadata ∧ k'.item = 1 ∧ ∃ ids id, v' = .desc ids ∧ id ∈ ids ∧
        k = ⟨k'.index, modeUpdated, id⟩ ∧ v = .unit) := by
  unfold upWrites
  simp only
  constructor
  · intro h
    split at h
    · rename_i h1
      simp only [List.mem_singleton, Prod.mk.injEq] at h
      exact Or.inl ⟨h1, h.1, h.2⟩
    · split at h
      · rename_i h2
        simp only [List.mem_singleton, Prod.mk.injEq] at h
        exact Or.inr (Or.inl ⟨h2, h.1, h.2⟩)
      · split at h
        · rename_i h3
          split at h
          · rename_i h0
            split at h
            · simp only [List.mem_singleton, Prod.mk.injEq] at h
              exact Or.inr (Or.inr (Or.inl ⟨h3, h0, _, _, _, _, rfl, h.1, h.2⟩))
            · cases h
          · split at h
            · rename_i h01
              split at h
              · rename_i ids
                obtain ⟨id, hid, he⟩ := List.mem_map.1 h
                simp only [Prod.mk.injEq] at he
                exact Or.inr (Or.inr (Or.inr ⟨h3, h01, ids, id, rfl, hid, he.1.symm, he.2.symm⟩))
              · cases h
            · cases h
        · cases h
  · rintro (⟨h1, h2, h3⟩ | ⟨h1, h2, h3⟩ | ⟨h1, h0, nm, d, i, r, hv, h2, h3⟩ | ⟨h1, h01, ids, id, hv, hid, h2, h3⟩)
    · rw [if_pos h1, h2, h3]; exact List.mem_singleton.2 rfl
    · rw [if_neg (by rw [h1]; decide), if_pos h1, h2, h3]; exact List.mem_singleton.2 rfl
    · subst hv
      rw [if_neg (by rw [h1]; decide), if_neg (by rw [h1]; decide), if_pos h1, if_pos h0, h2, h3]
      exact List.mem_singleton.2 rfl
    · subst hv
      rw [if_neg (by rw [h1]; decide), if_neg (by rw [h1]; decide), if_pos h1, if_neg (by rw [h01]; decide),
        if_pos h01, h2, h3]
      exact List.mem_map.2 ⟨id, hid, rfl⟩

theorem upWrites_item {k' : Key} (v' : Val) (h : k'.mode = oldModeItem) :
    upWrites (k', v') = [(⟨k'.index, modeItem, k'.item⟩, v')] := by
  unfold upWrites; simp only; rw [if_pos h]

theorem upWrites_tree {k' : Key} (v' : Val) (h : k'.mode = oldModeTree) :
    upWrites (k', v') = [(⟨k'.index, modeTree, k'.item⟩, upVal v')] := by
  unfold upWrites; simp only; rw [if_neg (by rw [h]; decide), if_pos h]

theorem upWrites_meta {k' : Key} (nm : Bytes) (d : Nat) (i r : List Nat) (h : k'.mode = oldModeMetadata)
    (h0 : k'.item = 0) :
    upWrites (k', .metadata nm d i r) = [(⟨k'.index, modeMetadata, 0⟩, .metadata cosineName d i r)] := by
  unfold upWrites; simp only; rw [if_neg (by rw [h]; decide), if_neg (by rw [h]; decide), if_pos h, if_pos h0]

theorem upWrites_bitmap {k' : Key} (ids : List Nat) (h : k'.mode = oldModeMetadata) (h1 : k'.item = 1) :
    upWrites (k', .desc ids) = ids.map (fun id => (⟨k'.index, modeUpdated, id⟩, Val.unit)) := by
  unfold upWrites; simp only
  rw [if_neg (by rw [h]; decide), if_neg (by rw [h]; decide), if_pos h, if_neg (by rw [h1]; decide), if_pos h1]

end Arroy.Upgrade
