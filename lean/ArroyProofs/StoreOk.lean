import ArroyProofs.NormalLen
import ArroyProofs.BuildPrefix
/-! The generic form of `ArroyProofs/NormalLen.lean`: an arbitrary predicate `P` on the normals of split
nodes and an arbitrary predicate `Q` on the entries of the store, stated on list membership (so no
sortedness of the store is needed).

`StoreOk Q s`: every entry of `s` satisfies `Q`. `BuildQ c P Q` collects what a build of index `c` needs
of the two predicates. The tree-level routines (`reify`, `delT`, `insertT`, `makeT`) only ever produce
normals they read, normals of the oracle, or `List.replicate n.length 0` of such a normal. -/
namespace Arroy
open Generated BuildM

/-- `P` holds of the normal of a split value (anything else passes) -/
def Val.NOk (P : List Nat → Prop) : Val → Prop
  | .split _ _ n => P n
  | _ => True

@[simp] theorem Val.nok_split (P : List Nat → Prop) (l r : NodeId) (n : List Nat) : Val.NOk P (.split l r n) ↔ P n := Iff.rfl
@[simp] theorem Val.nok_desc (P : List Nat → Prop) (s : List Nat) : Val.NOk P (.desc s) ↔ True := Iff.rfl
@[simp] theorem Val.nok_leaf (P : List Nat → Prop) (h v : List Nat) : Val.NOk P (.leaf h v) ↔ True := Iff.rfl
@[simp] theorem Val.nok_metadata (P : List Nat → Prop) (a : Bytes) (b : Nat) (e f : List Nat) :
    Val.NOk P (.metadata a b e f) ↔ True := Iff.rfl
@[simp] theorem Val.nok_version (P : List Nat → Prop) (a b e : Nat) : Val.NOk P (.version a b e) ↔ True := Iff.rfl

/-- the entry predicate `Q` holds of every entry of the store (list membership: no sortedness needed) -/
def StoreOk (Q : Key → Val → Prop) (s : Store) : Prop := ∀ kv ∈ s, Q kv.1 kv.2

/-- what a build of index `c` needs of the predicates: `P` for split normals, `Q` for store entries -/
structure BuildQ (c : Cfg) (P : List Nat → Prop) (Q : Key → Val → Prop) : Prop where
  zero : ∀ n, P n → P (List.replicate n.length 0)
  tree : ∀ id v, Val.NOk P v → Q (c.treeKey id) v
  ofTree : ∀ id l r n, Q (c.treeKey id) (.split l r n) → P n
  /-- the metadata record a build writes -/
  metadata : ∀ it r, Q c.metaKey (.metadata c.metric.nameBytes c.dims it r)
  /-- the version record the single-bucket shortcut writes -/
  version : Q c.versionKey (.version crateVersion.1 crateVersion.2.1 crateVersion.2.2)
  dot : c.metric = .dot → ∀ k h w s,
    isPrefixOf (encodePrefix c.index (some modeItem)) (encodeKey k) = true →
    Q k (.leaf h w) → Q k (dotVal c s (k, w))

/-- every normal of the tree satisfies `P` -/
def TOk (P : List Nat → Prop) (t : T) : Prop := ∀ n ∈ t.normals, P n

/-- every staged split node has a normal satisfying `P` -/
def PutsOk (P : List Nat → Prop) (puts : List (Nat × Val)) : Prop := ∀ p ∈ puts, Val.NOk P p.2

@[simp] theorem tok_leaf (P : List Nat → Prop) (i : Nat) : TOk P (.leaf i) ↔ True := by simp [TOk, T.normals]
@[simp] theorem tok_bucket (P : List Nat → Prop) (id : Nat) (s : List Nat) : TOk P (.bucket id s) ↔ True := by
  simp [TOk, T.normals]
@[simp] theorem tok_node (P : List Nat → Prop) (id : Nat) (n : List Nat) (l r : T) :
    TOk P (.node id n l r) ↔ P n ∧ TOk P l ∧ TOk P r := by
  simp only [TOk, T.normals, List.mem_cons, List.mem_append]
  constructor
  · intro h
    exact ⟨h n (Or.inl rfl), fun x hx => h x (Or.inr (Or.inl hx)), fun x hx => h x (Or.inr (Or.inr hx))⟩
  · rintro ⟨h1, h2, h3⟩ x (rfl | hx | hx)
    · exact h1
    · exact h2 x hx
    · exact h3 x hx

@[simp] theorem putsOk_nil (P : List Nat → Prop) : PutsOk P [] ↔ True := by simp [PutsOk]
@[simp] theorem putsOk_cons (P : List Nat → Prop) (p : Nat × Val) (ps : List (Nat × Val)) :
    PutsOk P (p :: ps) ↔ Val.NOk P p.2 ∧ PutsOk P ps := by simp [PutsOk]
@[simp] theorem putsOk_append (P : List Nat → Prop) (a b : List (Nat × Val)) :
    PutsOk P (a ++ b) ↔ PutsOk P a ∧ PutsOk P b := by
  simp only [PutsOk, List.mem_append]
  constructor
  · intro h; exact ⟨fun p hp => h p (Or.inl hp), fun p hp => h p (Or.inr hp)⟩
  · rintro ⟨h1, h2⟩ p (hp | hp)
    · exact h1 p hp
    · exact h2 p hp
theorem putsOk_ite (P : List Nat → Prop) (p : Prop) [Decidable p] (x : Nat × Val) (hx : Val.NOk P x.2) :
    PutsOk P (if p then [x] else []) := by
  split <;> simp [hx]

/-! ## the store -/

theorem StoreOk.nil (Q : Key → Val → Prop) : StoreOk Q [] := by
  intro kv h; cases h

theorem StoreOk.put {Q : Key → Val → Prop} {s : Store} (h : StoreOk Q s) (k : Key) (v : Val) (hv : Q k v) :
    StoreOk Q (Store.put s k v) := by
  intro kv hkv
  rcases Store.mem_put hkv with rfl | hm
  · exact hv
  · exact h kv hm

theorem StoreOk.filter {Q : Key → Val → Prop} {s : Store} (h : StoreOk Q s) (p : Key × Val → Bool) :
    StoreOk Q (s.filter p) := by
  intro kv hkv
  exact h kv (List.mem_filter.1 hkv).1

theorem StoreOk.erase {Q : Key → Val → Prop} {s : Store} (h : StoreOk Q s) (k : Key) :
    StoreOk Q (Store.erase s k) := by
  unfold Store.erase; exact h.filter _

theorem StoreOk.deleteRange {Q : Key → Val → Prop} {s : Store} (h : StoreOk Q s) (lo hi : Key) :
    StoreOk Q (Store.deleteRange s lo hi) := by
  unfold Store.deleteRange; exact h.filter _

theorem StoreOk.deletePrefix {Q : Key → Val → Prop} {s : Store} (h : StoreOk Q s) (index : Nat) (mode : Option Nat) :
    StoreOk Q (Store.deletePrefix s index mode) := by
  unfold Store.deletePrefix; exact h.filter _

theorem StoreOk.foldl {Q : Key → Val → Prop} {β : Type} (f : Store → β → Store)
    (hf : ∀ s x, StoreOk Q s → StoreOk Q (f s x)) (l : List β) :
    ∀ s, StoreOk Q s → StoreOk Q (l.foldl f s) := by
  induction l with
  | nil => intro s h; exact h
  | cons x xs ih => intro s h; exact ih _ (hf s x h)

/-- what is stored under a key satisfies `Q` -/
theorem StoreOk.of_get {Q : Key → Val → Prop} {s : Store} (h : StoreOk Q s) {k : Key} {v : Val}
    (hg : Store.get s k = some v) : Q k v :=
  h (k, v) (Store.mem_of_get hg)

/-! ## the tree-level routines -/

/-- a tree read out of a store has the normals of the store -/
theorem reify_tok {c : Cfg} {P : List Nat → Prop} {Q : Key → Val → Prop} (hq : BuildQ c P Q) {s : Store}
    (hs : StoreOk Q s) :
    ∀ (fuel : Nat) (ref : NodeId) (t : T), reify c s fuel ref = some t → TOk P t := by
  intro fuel
  induction fuel with
  | zero => intro ref t h; simp [reify] at h
  | succ fuel ih =>
    intro ref t h
    unfold reify at h
    split at h
    · cases h; simp
    · split at h
      · split at h
        · cases h; simp
        · rename_i l r n hg
          split at h
          · rename_i tl tr hl hr
            cases h
            rw [tok_node]
            exact ⟨hq.ofTree _ _ _ _ (hs.of_get hg), ih _ _ hl, ih _ _ hr⟩
          · cases h
        · cases h
      · cases h

/-- the normals of the pruned tree, and of the split nodes it stages, are normals of the tree -/
theorem delT_tok {P : List Nat → Prop} (cap : Nat) (D : List Nat) (t : T) (ht : TOk P t) :
    TOk P (delT cap D t).tree ∧ PutsOk P (delT cap D t).puts := by
  induction t with
  | leaf i => simp [delT]
  | bucket id s =>
    simp only [delT, tok_bucket, true_and]
    split <;> simp
  | node id n l r ihl ihr =>
    rw [tok_node] at ht
    obtain ⟨hn, hl, hr⟩ := ht
    obtain ⟨a1, a2⟩ := ihl hl
    obtain ⟨b1, b2⟩ := ihr hr
    simp only [delT]
    split
    · simp [a2, b2]
    · split
      · simp [a2, b2, b1]
      · split
        · simp [a2, b2, a1]
        · simp only [tok_node, putsOk_append]
          exact ⟨⟨hn, a1, b1⟩, ⟨a2, b2⟩, putsOk_ite _ _ _ hn⟩

/-- the same for `insert_items_in_file` -/
theorem insertT_tok {P : List Nat → Prop} (cx : TreeCtx) (t : T) (ins : List Nat) (g : IdGen) (rs : List Bool)
    (res : InsRes) (h : insertT cx t ins g rs = .ok res) (ht : TOk P t) :
    TOk P res.tree ∧ PutsOk P res.puts := by
  induction t generalizing ins g rs res with
  | leaf i =>
    rcases insertT_leaf_ok h with ⟨_, id, g', _, rfl⟩ | ⟨_, rfl⟩ <;> simp
  | bucket id s =>
    rcases insertT_bucket_ok h with ⟨_, rfl⟩ | ⟨_, rfl⟩ <;> simp
  | node id n l r ihl ihr =>
    rw [tok_node] at ht
    obtain ⟨hn, hl, hr⟩ := ht
    obtain ⟨left, right, rs1, a, b, _, ha, hb, rfl⟩ := insertT_node_ok h
    obtain ⟨a1, a2⟩ := ihl _ _ _ _ ha hl
    obtain ⟨b1, b2⟩ := ihr _ _ _ _ hb hr
    simp only [tok_node, putsOk_append]
    exact ⟨⟨hn, a1, b1⟩, ⟨a2, b2⟩, putsOk_ite _ _ _ hn⟩

/-- with an oracle whose normals all satisfy `P` (closed under `n ↦ List.replicate n.length 0`), every
    normal of the tree made (an oracle normal, or `List.replicate n.length 0` of one after a random
    split), every staged split node and what is left of the oracle satisfy `P` -/
theorem makeT_tok {P : List Nat → Prop} (hzero : ∀ n, P n → P (List.replicate n.length 0))
    (cx : TreeCtx) (fuel : Nat) (items : List Nat) (g : IdGen)
    (normals : List (List Nat)) (rs : List Bool) (res : MakeRes)
    (h : makeT cx fuel items g normals rs = .ok res) (hN : ∀ n ∈ normals, P n) :
    TOk P res.tree ∧ PutsOk P res.puts ∧ ∀ n ∈ res.normals, P n := by
  induction fuel generalizing items g normals rs res with
  | zero => simp [makeT] at h
  | succ fuel ih =>
    simp only [makeT] at h
    split at h
    · cases h; simp; exact hN
    · split at h
      · split at h
        · cases h
        · cases h; simp; exact hN
      · split at h
        · cases h
        · rename_i n l r normals1 rs1 k hcs
          obtain ⟨hn, hsub⟩ := chooseSplit_normals_mem hcs
          have hN1 : ∀ x ∈ normals1, P x := fun x hx => hN x (hsub x hx)
          have hnd : P n := hN n hn
          split at h
          · cases h
          · rename_i n' l' r' rs2 hdec
            have hn' : P n' := by
              split at hdec
              · split at hdec
                · cases hdec; exact hzero _ hnd
                · cases hdec
              · cases hdec; exact hnd
            split at h
            · cases h
            · rename_i a ha
              obtain ⟨a1, a2, a3⟩ := ih _ _ _ _ _ ha hN1
              split at h
              · cases h
              · rename_i b hb
                obtain ⟨b1, b2, b3⟩ := ih _ _ _ _ _ hb a3
                split at h
                · cases h
                · cases h
                  simp only [tok_node, putsOk_append, putsOk_cons, putsOk_nil, Val.nok_split]
                  exact ⟨⟨hn', a1, b1⟩, ⟨⟨a2, b2⟩, hn', trivial⟩, b3⟩

end Arroy
