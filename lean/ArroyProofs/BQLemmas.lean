import ArroyModel.Distance
/-! Helper lemmas for C12: `chunks`, the sign-bit codec (`BQ.packWord` / `BQ.unpackWord`),
popcount of xor = number of differing sign bits. -/
namespace Arroy
namespace BQL
open Generated

/-! ## `chunks` -/

theorem chunks_nil (n : Nat) : chunks n ([] : List α) = [] := by
  rw [chunks]; simp

theorem chunks_zero (l : List α) : chunks 0 l = [] := by
  rw [chunks]; simp

theorem chunks_cons_eq (n : Nat) (l : List α) (hn : n ≠ 0) (hl : l ≠ []) :
    chunks n l = l.take n :: chunks n (l.drop n) := by
  rw [chunks]; simp [hn, hl]

/-- a list that fits in one chunk -/
theorem chunks_short (n : Nat) (l : List α) (hn : n ≠ 0) (hl : l ≠ []) (h : l.length ≤ n) :
    chunks n l = [l] := by
  rw [chunks_cons_eq n l hn hl, List.take_of_length_le h, List.drop_of_length_le h, chunks_nil]

theorem chunks_map (f : α → β) (n : Nat) (l : List α) :
    chunks n (l.map f) = (chunks n l).map (List.map f) := by
  induction h : l.length using Nat.strongRecOn generalizing l with
  | _ k ih =>
    by_cases hn : n = 0
    · subst hn; simp [chunks_zero]
    by_cases hl : l = []
    · subst hl; simp [chunks_nil]
    · have hl' : l.map f ≠ [] := by simpa using hl
      rw [chunks_cons_eq n l hn hl, chunks_cons_eq n _ hn hl']
      have hlen : 0 < l.length := List.length_pos_iff.mpr hl
      simp only [List.map_cons, List.map_take]
      congr 1
      rw [← List.map_drop]
      exact ih (l.drop n).length (by simp; omega) _ rfl

theorem chunks_length (n : Nat) (l : List α) (hn : 0 < n) :
    (chunks n l).length = (l.length + (n - 1)) / n := by
  induction h : l.length using Nat.strongRecOn generalizing l with
  | _ k ih =>
    by_cases hl : l = []
    · subst hl; subst h
      simp only [chunks_nil, List.length_nil, Nat.zero_add]
      exact (Nat.div_eq_of_lt (by omega)).symm
    · have hlen : 0 < l.length := List.length_pos_iff.mpr hl
      rw [chunks_cons_eq n l (by omega) hl, List.length_cons,
        ih (l.drop n).length (by simp; omega) _ rfl, List.length_drop]
      by_cases hk : l.length ≤ n
      · have h0 : l.length - n = 0 := by omega
        rw [h0, Nat.zero_add, Nat.div_eq_of_lt (by omega)]
        subst h
        have : (l.length + (n - 1)) / n = 1 := by
          apply Nat.div_eq_of_lt_le <;> omega
        omega
      · subst h
        have : l.length + (n - 1) = (l.length - n + (n - 1)) + n := by omega
        rw [this, Nat.add_div_right _ hn]

/-! ## the sign-bit codec -/

/-- the value a component reads back as -/
def sgn (x : Nat) : Nat := if F32.signPositive x then F32.one else F32.negOne

theorem packWord_lt (xs : List Nat) : BQ.packWord xs < 2 ^ xs.length := by
  induction xs with
  | nil => simp [BQ.packWord]
  | cons x xs ih =>
    simp only [BQ.packWord, List.length_cons, Nat.pow_succ]
    split <;> omega

theorem packWord_cons_mod (x : Nat) (xs : List Nat) :
    BQ.packWord (x :: xs) % 2 = if F32.signPositive x then 1 else 0 := by
  simp only [BQ.packWord]; split <;> omega

theorem packWord_cons_div (x : Nat) (xs : List Nat) :
    BQ.packWord (x :: xs) / 2 = BQ.packWord xs := by
  simp only [BQ.packWord]; split <;> omega

theorem unpackWord_zero (k : Nat) : BQ.unpackWord k 0 = List.replicate k F32.negOne := by
  induction k with
  | zero => rfl
  | succ k ih => simp [BQ.unpackWord, ih, List.replicate_succ]

theorem unpackWord_length (k w : Nat) : (BQ.unpackWord k w).length = k := by
  induction k generalizing w with
  | zero => rfl
  | succ k ih => simp [BQ.unpackWord, ih]

/-- reading back `xs.length + k` bits of a packed word: the signs, then `k` cleared bits -/
theorem unpackWord_packWord (xs : List Nat) (k : Nat) :
    BQ.unpackWord (xs.length + k) (BQ.packWord xs) = xs.map sgn ++ List.replicate k F32.negOne := by
  induction xs with
  | nil => simp [BQ.packWord, unpackWord_zero]
  | cons x xs ih =>
    have e : (x :: xs).length + k = (xs.length + k) + 1 := by simp; omega
    rw [e]
    simp only [BQ.unpackWord, List.map_cons, List.cons_append]
    rw [packWord_cons_mod, packWord_cons_div, ih]
    by_cases hx : F32.signPositive x <;> simp [hx, sgn]

/-- packing as a function of the sign bits only -/
def packBits : List Bool → Nat
  | [] => 0
  | b :: bs => (if b then 1 else 0) + 2 * packBits bs

theorem packWord_eq_packBits (xs : List Nat) :
    BQ.packWord xs = packBits (xs.map F32.signPositive) := by
  induction xs with
  | nil => rfl
  | cons x xs ih => simp [BQ.packWord, packBits, ih]

theorem pack_eq_packBits (xs : List Nat) :
    BQ.pack xs = (chunks quantizedWordBits (xs.map F32.signPositive)).map packBits := by
  rw [chunks_map, List.map_map]
  simp only [BQ.pack]
  apply List.map_congr_left
  intro l _
  exact packWord_eq_packBits l

theorem unpack_cons (w : Nat) (ws : List Nat) :
    BQ.unpack (w :: ws) = BQ.unpackWord quantizedWordBits w ++ BQ.unpack ws := by
  simp [BQ.unpack]

theorem pack_nil : BQ.pack [] = [] := by simp [BQ.pack, chunks_nil]

theorem pack_cons_eq (xs : List Nat) (h : xs ≠ []) :
    BQ.pack xs = BQ.packWord (xs.take 64) :: BQ.pack (xs.drop 64) := by
  simp only [BQ.pack]
  rw [chunks_cons_eq _ xs (by decide) h]
  rfl

/-- number of padding bits after `n` components -/
def padBits (n : Nat) : Nat := (64 - n % 64) % 64

/-- the full unpacked vector: the sign values followed by the padding, all `-1.0` -/
theorem unpack_pack (xs : List Nat) :
    BQ.unpack (BQ.pack xs) = xs.map sgn ++ List.replicate (padBits xs.length) F32.negOne := by
  induction h : xs.length using Nat.strongRecOn generalizing xs with
  | _ n ih =>
    by_cases hl : xs = []
    · subst hl; subst h; simp [pack_nil, BQ.unpack, padBits]
    · have hlen : 0 < xs.length := List.length_pos_iff.mpr hl
      rw [pack_cons_eq xs hl, unpack_cons]
      have hq : quantizedWordBits = 64 := rfl
      rw [hq]
      by_cases hk : 64 ≤ xs.length
      · have ht : (xs.take 64).length = 64 := by simp; omega
        have := unpackWord_packWord (xs.take 64) 0
        rw [ht] at this
        rw [this, ih (xs.drop 64).length (by simp; omega) _ rfl]
        simp only [List.replicate_zero, List.append_nil, List.length_drop]
        have hp : padBits (xs.length - 64) = padBits n := by
          subst h; unfold padBits; congr 2
          have : xs.length = (xs.length - 64) + 64 := by omega
          omega
        rw [hp, ← List.append_assoc, ← List.map_append, List.take_append_drop]
      · have ht : xs.take 64 = xs := List.take_of_length_le (by omega)
        have hd : xs.drop 64 = [] := List.drop_of_length_le (by omega)
        rw [ht, hd, pack_nil]
        have := unpackWord_packWord xs (64 - xs.length)
        have e : xs.length + (64 - xs.length) = 64 := by omega
        rw [e] at this
        rw [this]
        have hp : padBits n = 64 - xs.length := by
          subst h; unfold padBits
          rw [Nat.mod_eq_of_lt (by omega), Nat.mod_eq_of_lt (by omega)]
        simp [BQ.unpack, hp]

theorem pack_length (xs : List Nat) : (BQ.pack xs).length = (xs.length + 63) / 64 := by
  simp only [BQ.pack, List.length_map]
  exact chunks_length 64 xs (by decide)

theorem pack_lt (xs : List Nat) : ∀ w ∈ BQ.pack xs, w < 2 ^ 64 := by
  induction h : xs.length using Nat.strongRecOn generalizing xs with
  | _ n ih =>
    by_cases hl : xs = []
    · subst hl; simp [pack_nil]
    · have hlen : 0 < xs.length := List.length_pos_iff.mpr hl
      rw [pack_cons_eq xs hl]
      intro w hw
      rcases List.mem_cons.mp hw with rfl | hw
      · have := packWord_lt (xs.take 64)
        have hle : (xs.take 64).length ≤ 64 := by simp; omega
        exact Nat.lt_of_lt_of_le this (Nat.pow_le_pow_right (by decide) hle)
      · exact ih (xs.drop 64).length (by simp; omega) _ rfl w hw

/-! ## Hamming distance = number of differing signs -/

/-- number of positions at which the sign bits differ -/
def diffSigns : List Nat → List Nat → Nat
  | x :: xs, y :: ys => (if F32.signPositive x = F32.signPositive y then 0 else 1) + diffSigns xs ys
  | _, _ => 0

theorem diffSigns_eq_countP (xs ys : List Nat) :
    diffSigns xs ys = (xs.zip ys).countP (fun p => F32.signPositive p.1 != F32.signPositive p.2) := by
  induction xs generalizing ys with
  | nil => simp [diffSigns]
  | cons x xs ih =>
    cases ys with
    | nil => simp [diffSigns]
    | cons y ys =>
      simp only [diffSigns, List.zip_cons_cons, List.countP_cons, ih]
      by_cases h : F32.signPositive x = F32.signPositive y <;> simp [h] <;> omega

theorem diffSigns_comm (xs ys : List Nat) : diffSigns xs ys = diffSigns ys xs := by
  induction xs generalizing ys with
  | nil => cases ys <;> simp [diffSigns]
  | cons x xs ih =>
    cases ys with
    | nil => simp [diffSigns]
    | cons y ys =>
      simp only [diffSigns, ih ys]
      by_cases h : F32.signPositive x = F32.signPositive y
      · simp [h]
      · have : ¬ F32.signPositive y = F32.signPositive x := fun e => h e.symm
        simp [h, this]

theorem diffSigns_le (xs ys : List Nat) : diffSigns xs ys ≤ xs.length := by
  induction xs generalizing ys with
  | nil => simp [diffSigns]
  | cons x xs ih =>
    cases ys with
    | nil => simp [diffSigns]
    | cons y ys =>
      simp only [diffSigns, List.length_cons]
      have := ih ys
      split <;> omega

theorem diffSigns_zero_iff (xs ys : List Nat) (hl : xs.length = ys.length) :
    diffSigns xs ys = 0 ↔ xs.map F32.signPositive = ys.map F32.signPositive := by
  induction xs generalizing ys with
  | nil => cases ys <;> simp_all [diffSigns]
  | cons x xs ih =>
    cases ys with
    | nil => simp at hl
    | cons y ys =>
      simp only [List.length_cons, Nat.add_right_cancel_iff] at hl
      simp only [diffSigns, List.map_cons, List.cons.injEq, Nat.add_eq_zero_iff, ih ys hl]
      by_cases h : F32.signPositive x = F32.signPositive y <;> simp [h]

theorem diffSigns_take_drop (n : Nat) (xs ys : List Nat) :
    diffSigns xs ys = diffSigns (xs.take n) (ys.take n) + diffSigns (xs.drop n) (ys.drop n) := by
  induction n generalizing xs ys with
  | zero => simp [diffSigns]
  | succ n ih =>
    cases xs with
    | nil => simp [diffSigns]
    | cons x xs =>
      cases ys with
      | nil => simp [diffSigns]
      | cons y ys =>
        simp only [List.take_succ_cons, List.drop_succ_cons, diffSigns]
        rw [ih xs ys]; omega

theorem popcount_zero (k : Nat) : BQ.popcount k 0 = 0 := by
  induction k with
  | zero => rfl
  | succ k ih => simp [BQ.popcount, ih]

theorem xor_bit_mod (b1 b2 p q : Nat) (h1 : b1 < 2) (h2 : b2 < 2) :
    ((b1 + 2 * p) ^^^ (b2 + 2 * q)) % 2 = if b1 = b2 then 0 else 1 := by
  have := @Nat.xor_mod_two_pow (b1 + 2 * p) (b2 + 2 * q) 1
  simp only [Nat.pow_one] at this
  rw [this]
  have e1 : (b1 + 2 * p) % 2 = b1 := by omega
  have e2 : (b2 + 2 * q) % 2 = b2 := by omega
  rw [e1, e2]
  have c1 : b1 = 0 ∨ b1 = 1 := by omega
  have c2 : b2 = 0 ∨ b2 = 1 := by omega
  rcases c1 with rfl | rfl <;> rcases c2 with rfl | rfl <;> decide

/-- popcount of the xor of two packed words (any number of bits covering them) -/
theorem popcount_xor_packWord (xs ys : List Nat) (hl : xs.length = ys.length) (k : Nat) :
    BQ.popcount (xs.length + k) (BQ.packWord xs ^^^ BQ.packWord ys) = diffSigns xs ys := by
  induction xs generalizing ys with
  | nil =>
    cases ys with
    | nil => simp [BQ.packWord, diffSigns, popcount_zero]
    | cons y ys => simp at hl
  | cons x xs ih =>
    cases ys with
    | nil => simp at hl
    | cons y ys =>
      simp only [List.length_cons, Nat.add_right_cancel_iff] at hl
      have e : (x :: xs).length + k = (xs.length + k) + 1 := by simp; omega
      rw [e]
      simp only [BQ.popcount, BQ.packWord, diffSigns, Nat.xor_div_two]
      have hp : ∀ (b p : Nat), b < 2 → (b + 2 * p) / 2 = p := by intro b p hb; omega
      have hbx : (if F32.signPositive x = true then 1 else 0) < 2 := by split <;> omega
      have hby : (if F32.signPositive y = true then 1 else 0) < 2 := by split <;> omega
      rw [hp _ _ hbx, hp _ _ hby, ih ys hl, xor_bit_mod _ _ _ _ hbx hby]
      congr 1
      by_cases hx : F32.signPositive x <;> by_cases hy : F32.signPositive y <;> simp [hx, hy]

theorem hamming_nil_left (v : List Nat) : BQ.hamming [] v = 0 := by simp [BQ.hamming]

theorem hamming_cons (a b : Nat) (u v : List Nat) :
    BQ.hamming (a :: u) (b :: v) = BQ.popcount 64 (a ^^^ b) + BQ.hamming u v := by
  simp [BQ.hamming, quantizedWordBits]

theorem hamming_comm (u v : List Nat) : BQ.hamming u v = BQ.hamming v u := by
  induction u generalizing v with
  | nil => cases v <;> simp [BQ.hamming]
  | cons a u ih =>
    cases v with
    | nil => simp [BQ.hamming]
    | cons b v => rw [hamming_cons, hamming_cons, ih v, Nat.xor_comm]

theorem hamming_self (u : List Nat) : BQ.hamming u u = 0 := by
  induction u with
  | nil => simp [BQ.hamming]
  | cons a u ih => rw [hamming_cons, ih, Nat.xor_self, popcount_zero]

theorem hamming_pack (xs ys : List Nat) (hl : xs.length = ys.length) :
    BQ.hamming (BQ.pack xs) (BQ.pack ys) = diffSigns xs ys := by
  induction h : xs.length using Nat.strongRecOn generalizing xs ys with
  | _ n ih =>
    by_cases hx : xs = []
    · subst hx
      have : ys = [] := List.length_eq_zero_iff.mp (by simpa using hl.symm)
      subst this; simp [pack_nil, BQ.hamming, diffSigns]
    · have hlen : 0 < xs.length := List.length_pos_iff.mpr hx
      have hy : ys ≠ [] := by intro e; subst e; exact hx (List.length_eq_zero_iff.mp hl)
      have hrec : BQ.hamming (BQ.pack (xs.drop 64)) (BQ.pack (ys.drop 64))
          = diffSigns (xs.drop 64) (ys.drop 64) :=
        ih (xs.drop 64).length (by simp; omega) (xs.drop 64) (ys.drop 64) (by simp [hl]) rfl
      rw [pack_cons_eq xs hx, pack_cons_eq ys hy]
      rw [hamming_cons, hrec]
      rw [diffSigns_take_drop 64 xs ys]
      apply congrArg (· + diffSigns (xs.drop 64) (ys.drop 64))
      have hle : (xs.take 64).length ≤ 64 := by simp; omega
      have := popcount_xor_packWord (xs.take 64) (ys.take 64) (by simp [hl])
        (64 - (xs.take 64).length)
      have e : (xs.take 64).length + (64 - (xs.take 64).length) = 64 := by omega
      rw [e] at this
      exact this

end BQL
end Arroy
