import ArroyProofs.Traverse
import ArroyProofs.OrdLemmas
/-! `nnsByLeaf` after the traversal: scoring, sorting, truncation. The exact answer over a set of ids
(`exactOver`) and its properties; `nnsByLeaf` is `exactOver` of the deduplicated candidate list. -/
namespace Arroy
namespace Reader

/-- the true score of the stored item `id` against the query leaf `(qh, qv)` (0 if `id` is not a leaf) -/
def scoreOf (c : Cfg) (s : Store) (qh qv : List Nat) (id : Nat) : Nat :=
  match s.get (c.itemKey id) with
  | some (.leaf h v) => c.metric.builtDistance c.host qh qv h v
  | _ => 0

/-- `id` is stored as a leaf -/
def IsLeaf (c : Cfg) (s : Store) (id : Nat) : Prop := ∃ h v, s.get (c.itemKey id) = some (.leaf h v)

def scored (c : Cfg) (s : Store) (qh qv : List Nat) (ids : List Nat) : List (Nat × Nat) :=
  ids.map fun id => (scoreOf c s qh qv id, id)

/-- all of `ids` scored and sorted nearest first (ties by id) -/
def sortedScored (c : Cfg) (s : Store) (qh qv : List Nat) (ids : List Nat) : List (Nat × Nat) :=
  (scored c s qh qv ids).mergeSort scoreLe

/-- the exact answer over the id set `ids`: the `count` nearest, with their reported distances -/
def exactOver (c : Cfg) (s : Store) (dims : Nat) (qh qv : List Nat) (count : Nat) (ids : List Nat) : List (Nat × Nat) :=
  ((sortedScored c s qh qv ids).take count).map fun (d, id) => (id, c.metric.normalizedDistance d dims)

theorem scoreAll_ok (c : Cfg) (s : Store) (qh qv : List Nat) (ids : List Nat) (h : ∀ id ∈ ids, IsLeaf c s id) :
    scoreAll c s qh qv ids = .ok (scored c s qh qv ids) := by
  induction ids with
  | nil => rfl
  | cons id rest ih =>
    obtain ⟨hd, v, hg⟩ := h id List.mem_cons_self
    have := ih (fun x hx => h x (List.mem_cons_of_mem _ hx))
    simp [scoreAll, hg, this, scored, scoreOf]

theorem scoreAll_ok_inv (c : Cfg) (s : Store) (qh qv : List Nat) (ids : List Nat) (r : List (Nat × Nat))
    (h : scoreAll c s qh qv ids = .ok r) : (∀ id ∈ ids, IsLeaf c s id) ∧ r = scored c s qh qv ids := by
  induction ids generalizing r with
  | nil => simp [scoreAll] at h; subst h; simp [scored]
  | cons id rest ih =>
    simp only [scoreAll] at h
    split at h
    · rename_i hd v hg
      split at h
      · rename_i r' hr
        cases h
        obtain ⟨h1, h2⟩ := ih r' hr
        refine ⟨?_, ?_⟩
        · intro x hx
          rcases List.mem_cons.1 hx with rfl | hx
          · exact ⟨hd, v, hg⟩
          · exact h1 x hx
        · simp [scored, scoreOf, hg, h2]
      · cases h
    · cases h
    · cases h

/-- `nnsByLeaf`, forwards: once the traversal succeeds and its candidates are stored leaves, the answer is
the exact answer over the deduplicated candidates -/
theorem nnsByLeaf_of_traverse (c : Cfg) (s : Store) (rd : ReaderState) (qh qv : List Nat) (q : QueryOpts)
    (nns : List Nat) (hne : rd.items ≠ [])
    (ht : traverse c s qv q (budget c.metric rd.roots.length q) (2 * s.length + rd.roots.length + 2)
      (rd.roots.map fun r => (F32.inf, NodeId.mkTree r)) [] = .ok nns)
    (hl : ∀ id ∈ IdSet.ofList nns, IsLeaf c s id) :
    nnsByLeaf c s rd qh qv q = .ok (exactOver c s rd.dims qh qv q.count (IdSet.ofList nns)) := by
  unfold nnsByLeaf
  have : rd.items.isEmpty = false := by cases h : rd.items <;> simp_all
  simp only [this, Bool.false_eq_true, if_false, ht, scoreAll_ok c s qh qv _ hl]
  rfl

/-- `nnsByLeaf`, backwards: a successful answer is empty on an empty index, and otherwise the exact answer
over the deduplicated candidates of a successful traversal, all of which are stored leaves -/
theorem nnsByLeaf_ok_inv (c : Cfg) (s : Store) (rd : ReaderState) (qh qv : List Nat) (q : QueryOpts)
    (ans : List (Nat × Nat)) (h : nnsByLeaf c s rd qh qv q = .ok ans) :
    (rd.items = [] ∧ ans = []) ∨
    ∃ nns, rd.items ≠ [] ∧
      traverse c s qv q (budget c.metric rd.roots.length q) (2 * s.length + rd.roots.length + 2)
        (rd.roots.map fun r => (F32.inf, NodeId.mkTree r)) [] = .ok nns ∧
      (∀ id ∈ IdSet.ofList nns, IsLeaf c s id) ∧
      ans = exactOver c s rd.dims qh qv q.count (IdSet.ofList nns) := by
  unfold nnsByLeaf at h
  split at h
  · rename_i he
    left
    cases h
    exact ⟨List.isEmpty_iff.1 he, rfl⟩
  · rename_i he
    have hne : rd.items ≠ [] := fun e => he (by simp [e])
    right
    simp only at h
    split at h
    · cases h
    · rename_i nns ht
      split at h
      · cases h
      · rename_i sc hs
        cases h
        obtain ⟨h1, h2⟩ := scoreAll_ok_inv c s qh qv _ sc hs
        exact ⟨nns, hne, ht, h1, by subst h2; rfl⟩

/-! ### properties of the sorted scored list and of the exact answer -/

theorem sortedScored_perm (c : Cfg) (s : Store) (qh qv : List Nat) (ids : List Nat) :
    (sortedScored c s qh qv ids).Perm (scored c s qh qv ids) := List.mergeSort_perm _ _

theorem sortedScored_pairwise (c : Cfg) (s : Store) (qh qv : List Nat) (ids : List Nat) :
    (sortedScored c s qh qv ids).Pairwise (fun a b => scoreLe a b = true) :=
  List.pairwise_mergeSort scoreLe_trans scoreLe_total _

theorem sortedScored_ids_perm (c : Cfg) (s : Store) (qh qv : List Nat) (ids : List Nat) :
    ((sortedScored c s qh qv ids).map (·.2)).Perm ids := by
  have := (sortedScored_perm c s qh qv ids).map (·.2)
  simpa [scored, List.map_map, Function.comp_def] using this

theorem sortedScored_length (c : Cfg) (s : Store) (qh qv : List Nat) (ids : List Nat) :
    (sortedScored c s qh qv ids).length = ids.length := by
  simp [sortedScored, scored]

theorem sortedScored_score (c : Cfg) (s : Store) (qh qv : List Nat) (ids : List Nat) :
    ∀ p ∈ sortedScored c s qh qv ids, p.1 = scoreOf c s qh qv p.2 ∧ p.2 ∈ ids := by
  intro p hp
  have hp' := (sortedScored_perm c s qh qv ids).mem_iff.1 hp
  obtain ⟨id, hid, rfl⟩ := List.mem_map.1 hp'
  exact ⟨rfl, hid⟩

/-- the sorted scored list is the only `scoreLe`-sorted arrangement of the scored ids:
ties in distance are broken by id, so the exact answer is unique -/
theorem sortedScored_unique (c : Cfg) (s : Store) (qh qv : List Nat) (ids : List Nat)
    (l : List (Nat × Nat)) (hp : l.Perm (scored c s qh qv ids)) (hs : l.Pairwise (fun a b => scoreLe a b = true)) :
    l = sortedScored c s qh qv ids := by
  refine List.Perm.eq_of_pairwise (le := fun a b => scoreLe a b = true) ?_ hs (sortedScored_pairwise c s qh qv ids)
    (hp.trans (sortedScored_perm c s qh qv ids).symm)
  intro a b ha hb h1 h2
  have ha' := hp.mem_iff.1 ha
  have hb' := (sortedScored_perm c s qh qv ids).mem_iff.1 hb
  obtain ⟨ia, _, rfl⟩ := List.mem_map.1 ha'
  obtain ⟨ib, _, rfl⟩ := List.mem_map.1 hb'
  have := (scoreLe_antisymm _ _ h1 h2).2
  simp only at this
  subst this; rfl

/-- elementwise description of `exactOver` -/
theorem exactOver_eq_map (c : Cfg) (s : Store) (dims : Nat) (qh qv : List Nat) (count : Nat) (ids : List Nat) :
    exactOver c s dims qh qv count ids =
      (((sortedScored c s qh qv ids).take count).map (·.2)).map
        fun id => (id, c.metric.normalizedDistance (scoreOf c s qh qv id) dims) := by
  unfold exactOver
  rw [List.map_map]
  apply List.map_congr_left
  intro p hp
  have := (sortedScored_score c s qh qv ids p (List.mem_of_mem_take hp)).1
  obtain ⟨d, id⟩ := p
  simp only at this
  simp [this]

theorem exactOver_ids (c : Cfg) (s : Store) (dims : Nat) (qh qv : List Nat) (count : Nat) (ids : List Nat) :
    (exactOver c s dims qh qv count ids).map (·.1) = ((sortedScored c s qh qv ids).map (·.2)).take count := by
  rw [exactOver_eq_map, List.map_map, List.map_take]
  simp [Function.comp_def]

theorem exactOver_length (c : Cfg) (s : Store) (dims : Nat) (qh qv : List Nat) (count : Nat) (ids : List Nat) :
    (exactOver c s dims qh qv count ids).length = min count ids.length := by
  simp [exactOver, sortedScored_length]

theorem exactOver_nodup (c : Cfg) (s : Store) (dims : Nat) (qh qv : List Nat) (count : Nat) (ids : List Nat)
    (hnd : ids.Nodup) : ((exactOver c s dims qh qv count ids).map (·.1)).Nodup := by
  rw [exactOver_ids]
  exact List.Nodup.sublist (List.take_sublist _ _) ((sortedScored_ids_perm c s qh qv ids).nodup_iff.2 hnd)

theorem exactOver_mem (c : Cfg) (s : Store) (dims : Nat) (qh qv : List Nat) (count : Nat) (ids : List Nat) :
    ∀ p ∈ exactOver c s dims qh qv count ids,
      p.1 ∈ ids ∧ p.2 = c.metric.normalizedDistance (scoreOf c s qh qv p.1) dims := by
  intro p hp
  rw [exactOver_eq_map] at hp
  obtain ⟨id, hid, rfl⟩ := List.mem_map.1 hp
  refine ⟨?_, rfl⟩
  obtain ⟨p, hp1, rfl⟩ := List.mem_map.1 hid
  exact (sortedScored_score c s qh qv ids p (List.mem_of_mem_take hp1)).2

/-- the answer re-scored with the true scores is the head of the sorted scored list -/
theorem exactOver_rescored (c : Cfg) (s : Store) (dims : Nat) (qh qv : List Nat) (count : Nat) (ids : List Nat) :
    (exactOver c s dims qh qv count ids).map (fun p => (scoreOf c s qh qv p.1, p.1)) =
      (sortedScored c s qh qv ids).take count := by
  rw [exactOver_eq_map, List.map_map, List.map_map]
  conv => rhs; rw [← List.map_id ((sortedScored c s qh qv ids).take count)]
  apply List.map_congr_left
  intro p hp
  have := (sortedScored_score c s qh qv ids p (List.mem_of_mem_take hp)).1
  obtain ⟨d, id⟩ := p
  simp only at this
  simp [this]

/-- nearest first on the true scores -/
theorem exactOver_sorted (c : Cfg) (s : Store) (dims : Nat) (qh qv : List Nat) (count : Nat) (ids : List Nat) :
    ((exactOver c s dims qh qv count ids).map (fun p => (scoreOf c s qh qv p.1, p.1))).Pairwise
      (fun a b => scoreLe a b = true) := by
  rw [exactOver_rescored]
  exact (sortedScored_pairwise c s qh qv ids).sublist (List.take_sublist _ _)

/-- everything that is not returned is no nearer than anything returned -/
theorem exactOver_best (c : Cfg) (s : Store) (dims : Nat) (qh qv : List Nat) (count : Nat) (ids : List Nat)
    (p : Nat × Nat) (hp : p ∈ exactOver c s dims qh qv count ids) (y : Nat) (hy : y ∈ ids)
    (hny : y ∉ (exactOver c s dims qh qv count ids).map (·.1)) :
    scoreLe (scoreOf c s qh qv p.1, p.1) (scoreOf c s qh qv y, y) = true := by
  have hpm : (scoreOf c s qh qv p.1, p.1) ∈ (sortedScored c s qh qv ids).take count := by
    rw [← exactOver_rescored c s dims]
    exact List.mem_map.2 ⟨p, hp, rfl⟩
  have hym : (scoreOf c s qh qv y, y) ∈ sortedScored c s qh qv ids :=
    (sortedScored_perm c s qh qv ids).mem_iff.2 (List.mem_map.2 ⟨y, hy, rfl⟩)
  have hyd : (scoreOf c s qh qv y, y) ∈ (sortedScored c s qh qv ids).drop count := by
    rw [← List.take_append_drop count (sortedScored c s qh qv ids), List.mem_append] at hym
    rcases hym with h | h
    · exfalso; apply hny
      rw [exactOver_ids, ← List.map_take]
      exact List.mem_map.2 ⟨_, h, rfl⟩
    · exact h
  have hpw := sortedScored_pairwise c s qh qv ids
  rw [← List.take_append_drop count (sortedScored c s qh qv ids), List.pairwise_append] at hpw
  exact hpw.2.2 _ hpm _ hyd

end Reader
end Arroy
