import ArroyProofs.IndexInvOps
import ArroyModel.Check
/-! The forest of a store is what `reify` reads at the roots: uniqueness, and the link to the
executable `Check.trees`. -/
namespace Arroy
open Generated IdSet Transp

theorem Forest.reify_eq {c : Cfg} {s : Store} {roots items : List Nat} {ts : List T} (f : Forest c s roots items ts) :
    roots.map (fun r => reify c s (s.length + 1) (NodeId.mkTree r)) = ts.map some := by
  have e0 : roots.map (fun root => reify c s (s.length + 1) (NodeId.mkTree root)) =
      (roots.map NodeId.mkTree).map (fun ref => reify c s (s.length + 1) ref) := by
    rw [List.map_map]; rfl
  rw [e0, ← f.refs, List.map_map]
  apply List.map_congr_left
  intro t ht
  exact reify_of_holds_nodup c s t (f.holds t ht) (f.tree_nodup ht)

theorem Forest.unique {c : Cfg} {s : Store} {roots i1 i2 : List Nat} {ts1 ts2 : List T}
    (f1 : Forest c s roots i1 ts1) (f2 : Forest c s roots i2 ts2) : ts1 = ts2 :=
  map_some_inj (f1.reify_eq.symm.trans f2.reify_eq)

theorem filterMap_map_some {α β : Type} (l : List α) (g : α → Option β) (ts : List β) (h : l.map g = ts.map some) :
    l.filterMap g = ts := by
  induction l generalizing ts with
  | nil => cases ts with
    | nil => rfl
    | cons _ _ => simp at h
  | cons a l ih =>
    cases ts with
    | nil => simp at h
    | cons t ts =>
      simp only [List.map_cons, List.cons.injEq] at h
      simp only [List.filterMap_cons, h.1, ih ts h.2]

theorem Check.trees_of_forest {c : Cfg} {s : Store} {roots items : List Nat} {ts : List T}
    (f : Forest c s roots items ts) (hr : rootsOf c s = roots) : Check.trees c s = ts := by
  unfold Check.trees
  unfold rootsOf at hr
  split
  · rename_i name dims its roots' hm
    rw [hm] at hr
    simp only at hr
    subst hr
    exact filterMap_map_some _ _ _ f.reify_eq
  · rename_i hm
    have hroots : roots = [] := by
      rw [← hr]
      split
      · rename_i name dims its roots' hm'
        exact absurd hm' (hm name dims its roots')
      · rfl
    subst hroots
    have := f.length
    simp only [List.length_nil, List.length_eq_zero_iff] at this
    exact this.symm

theorem Check.trees_of_old {c : Cfg} {s : Store} {roots items : List Nat} {ts : List T}
    (old : Old c s roots items ts) : Check.trees c s = ts :=
  Check.trees_of_forest old.forest old.roots_eq

theorem BuildOut.trees {c : Cfg} {o : BuildOpts} {s s' : Store} {roots0 roots' : List Nat} {ts0 ts' : List T}
    (b : BuildOut c o s s' roots0 ts0 roots' ts') : Check.trees c s' = ts' :=
  Check.trees_of_forest b.forest (by simp [rootsOf, b.metadata])

end Arroy
