import ArroyModel.Store
/-! Basic laws of the store operations (`get` after `put` / `erase` / filters). -/
namespace Arroy
namespace Store

theorem get_put_same (s : Store) (k : Key) (v : Val) : (s.put k v).get k = some v := by
  induction s with
  | nil => simp [put, get]
  | cons kv rest ih =>
    obtain ⟨k', v'⟩ := kv
    simp only [put]
    split
    · simp [get]
    · split
      · simp [get]
      · rename_i h1 h2
        simp [get, h2, ih]

theorem get_put_other (s : Store) (k k' : Key) (v : Val) (h : k' ≠ k) : (s.put k v).get k' = s.get k' := by
  induction s with
  | nil => simp [put, get, Ne.symm h]
  | cons kv rest ih =>
    obtain ⟨k0, v0⟩ := kv
    simp only [put]
    split
    · simp [get, Ne.symm h]
    · split
      · rename_i h1 h2
        subst h2
        simp [get, Ne.symm h]
      · simp [get, ih]

theorem get_filter (s : Store) (p : Key × Val → Bool) (k : Key) (hp : ∀ v, p (k, v) = true) :
    Store.get (s.filter p) k = s.get k := by
  induction s with
  | nil => rfl
  | cons kv rest ih =>
    obtain ⟨k0, v0⟩ := kv
    by_cases hk : k0 = k
    · subst hk; simp [List.filter, hp, get]
    · cases hpk : p (k0, v0) <;> simp [List.filter, hpk, get, hk, ih]

theorem get_filter_none (s : Store) (p : Key × Val → Bool) (k : Key) (hp : ∀ v, p (k, v) = false) :
    Store.get (s.filter p) k = none := by
  induction s with
  | nil => rfl
  | cons kv rest ih =>
    obtain ⟨k0, v0⟩ := kv
    by_cases hk : k0 = k
    · subst hk; simp [List.filter, hp, ih]
    · cases hpk : p (k0, v0) <;> simp [List.filter, hpk, get, hk, ih]

theorem get_erase_same (s : Store) (k : Key) : (s.erase k).get k = none := by
  unfold erase
  exact get_filter_none s _ k (by simp)

theorem get_erase_other (s : Store) (k k' : Key) (h : k' ≠ k) : (s.erase k).get k' = s.get k' := by
  unfold erase
  exact get_filter s _ k' (by simp [h])

end Store
end Arroy
