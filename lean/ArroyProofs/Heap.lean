import ArroyModel.Tree
import ArroyProofs.StoreLemmas
/-! The store as a heap of tree nodes: representation predicate `Holds`, frame lemma,
and `reify` reads back exactly the tree that the store holds. -/
namespace Arroy

/-- the store of index `c.index` contains tree `t`: every cell, exactly as given -/
def Holds (c : Cfg) (s : Store) (t : T) : Prop :=
  ∀ cell ∈ t.cells, s.get (c.treeKey cell.1) = some cell.2

theorem cells_ids (t : T) : t.cells.map (·.1) = t.ids := by
  induction t with
  | leaf i => rfl
  | bucket id s => rfl
  | node id n l r ihl ihr => simp [T.cells, T.ids, ihl, ihr]

theorem mem_ids_of_mem_cells {t : T} {cell : Nat × Val} (h : cell ∈ t.cells) : cell.1 ∈ t.ids := by
  rw [← cells_ids]; exact List.mem_map_of_mem h

/-- frame: a store agreeing with `s` on the node ids of `t` still holds `t` -/
theorem Holds.frame {c : Cfg} {s s' : Store} {t : T} (hh : Holds c s t)
    (agree : ∀ i ∈ t.ids, s'.get (c.treeKey i) = s.get (c.treeKey i)) : Holds c s' t := by
  intro cell hc
  rw [agree _ (mem_ids_of_mem_cells hc)]
  exact hh cell hc

theorem Holds.left {c : Cfg} {s : Store} {id n l r} (h : Holds c s (.node id n l r)) : Holds c s l := by
  intro cell hc; exact h cell (by simp [T.cells, hc])

theorem Holds.right {c : Cfg} {s : Store} {id n l r} (h : Holds c s (.node id n l r)) : Holds c s r := by
  intro cell hc; exact h cell (by simp [T.cells, hc])

theorem Holds.root {c : Cfg} {s : Store} {id n l r} (h : Holds c s (.node id n l r)) :
    s.get (c.treeKey id) = some (.split l.ref r.ref n) := h (id, .split l.ref r.ref n) (by simp [T.cells])

theorem Holds.bucket {c : Cfg} {s : Store} {id its} (h : Holds c s (.bucket id its)) :
    s.get (c.treeKey id) = some (.desc its) := h (id, .desc its) (by simp [T.cells])

@[simp] theorem NodeId.isItem_mkTree (id : Nat) : (NodeId.mkTree id).isItem = false := by
  simp [NodeId.mkTree, NodeId.isItem]; decide
@[simp] theorem NodeId.isTree_mkTree (id : Nat) : (NodeId.mkTree id).isTree = true := by
  simp [NodeId.mkTree, NodeId.isTree]
@[simp] theorem NodeId.isItem_mkItem (id : Nat) : (NodeId.mkItem id).isItem = true := by
  simp [NodeId.mkItem, NodeId.isItem]
@[simp] theorem NodeId.item_mkTree (id : Nat) : (NodeId.mkTree id).item = id := rfl
@[simp] theorem NodeId.item_mkItem (id : Nat) : (NodeId.mkItem id).item = id := rfl

def T.depth : T → Nat
  | .leaf _ => 1
  | .bucket _ _ => 1
  | .node _ _ l r => 1 + max l.depth r.depth

theorem T.ref_isItem_leaf (i : Nat) : (T.leaf i).ref.isItem = true := by
  simp [T.ref, NodeId.mkItem, NodeId.isItem]

theorem T.ref_tree (t : T) (h : ∀ i, t ≠ .leaf i) : t.ref.isItem = false ∧ t.ref.isTree = true := by
  cases t with
  | leaf i => exact absurd rfl (h i)
  | bucket id s => simp [T.ref, NodeId.mkTree, NodeId.isItem, NodeId.isTree]; decide
  | node id n l r => simp [T.ref, NodeId.mkTree, NodeId.isItem, NodeId.isTree]; decide

/-- `reify` reads back the tree the store holds (given enough fuel) -/
theorem reify_of_holds (c : Cfg) (s : Store) (t : T) (h : Holds c s t) (fuel : Nat) (hf : t.depth ≤ fuel) :
    reify c s fuel t.ref = some t := by
  induction t generalizing fuel with
  | leaf i =>
    cases fuel with
    | zero => simp [T.depth] at hf
    | succ f => simp [reify, T.ref]
  | bucket id its =>
    cases fuel with
    | zero => simp [T.depth] at hf
    | succ f =>
      have hb := h.bucket
      simp [reify, T.ref, hb]
  | node id n l r ihl ihr =>
    cases fuel with
    | zero => simp [T.depth] at hf
    | succ f =>
      have hr := h.root
      simp only [T.depth] at hf
      have hl : l.depth ≤ f := by omega
      have hrr : r.depth ≤ f := by omega
      show reify c s (f + 1) (NodeId.mkTree id) = _
      simp [reify, hr, ihl h.left f hl, ihr h.right f hrr]

/-- conversely, what `reify` returns is held by the store and has the requested root reference -/
theorem holds_of_reify (c : Cfg) (s : Store) (fuel : Nat) (ref : NodeId) (t : T)
    (h : reify c s fuel ref = some t) : Holds c s t ∧ t.ref = ref := by
  induction fuel generalizing ref t with
  | zero => simp [reify] at h
  | succ f ih =>
    unfold reify at h
    split at h
    · rename_i hi
      cases h
      refine ⟨by intro cell hc; simp [T.cells] at hc, ?_⟩
      simp only [NodeId.isItem, beq_iff_eq] at hi
      cases ref; simp_all [T.ref, NodeId.mkItem]
    · split at h
      · rename_i hni ht
        simp only [NodeId.isTree, beq_iff_eq] at ht
        split at h
        · rename_i ids hg
          cases h
          refine ⟨?_, ?_⟩
          · intro cell hc
            simp only [T.cells, List.mem_singleton] at hc
            subst hc; exact hg
          · cases ref; simp_all [T.ref, NodeId.mkTree]
        · rename_i l r n hg
          split at h
          · rename_i tl tr hl hr
            cases h
            obtain ⟨hl1, hl2⟩ := ih l tl hl
            obtain ⟨hr1, hr2⟩ := ih r tr hr
            refine ⟨?_, ?_⟩
            · intro cell hc
              simp only [T.cells, List.mem_cons, List.mem_append] at hc
              rcases hc with rfl | hc | hc
              · simp only; rw [hl2, hr2]; exact hg
              · exact hl1 cell hc
              · exact hr1 cell hc
            · cases ref; simp_all [T.ref, NodeId.mkTree]
          · simp at h
        · simp at h
      · simp at h

end Arroy
