import ArroyProofs.Exact
/-! A concrete index used for the non-vacuity examples of C02 / C03: three Euclidean items of dimension 2,
one tree whose root is a split node with a bucket `{0, 1}` on the left and the single item `2` on the right. -/
namespace Arroy
namespace ForestExample
open Reader

def c : Cfg := { index := 0, metric := .euclidean, dims := 2 }

/-- (0,0), (1,0), (0,2) -/
def s : Store :=
  Store.put (Store.put (Store.put (Store.put (Store.put []
      (c.itemKey 0) (.leaf [F32.zero] [F32.zero, F32.zero]))
      (c.itemKey 1) (.leaf [F32.zero] [F32.one, F32.zero]))
      (c.itemKey 2) (.leaf [F32.zero] [F32.zero, F32.two]))
      (c.treeKey 1) (.desc [0, 1]))
      (c.treeKey 0) (.split (NodeId.mkTree 1) (NodeId.mkItem 2) [F32.zero, F32.one])

def rd : ReaderState := { roots := [0], dims := 2, items := [0, 1, 2] }

def tree : T := .node 0 [F32.zero, F32.one] (.bucket 1 [0, 1]) (.leaf 2)

theorem s_eq : s =
    [(⟨0, 2, 0⟩, .split ⟨2, 1⟩ ⟨3, 2⟩ [0, 0x3f800000]), (⟨0, 2, 1⟩, .desc [0, 1]),
     (⟨0, 3, 0⟩, .leaf [0] [0, 0]), (⟨0, 3, 1⟩, .leaf [0] [0x3f800000, 0]), (⟨0, 3, 2⟩, .leaf [0] [0, 0x40000000])] := by
  decide

theorem forestWith : ForestWith c s rd [tree] where
  refs := by decide
  holds := by
    intro t ht
    simp only [List.mem_singleton] at ht
    subst ht
    intro cell hc
    simp only [tree, T.cells, T.ref, List.mem_cons, List.append_nil, List.not_mem_nil, or_false] at hc
    rcases hc with rfl | rfl <;> decide
  reach := by
    intro t ht x
    simp only [List.mem_singleton] at ht
    subst ht
    exact Iff.rfl
  items_nodup := by
    intro t ht
    simp only [List.mem_singleton] at ht
    subst ht
    decide
  ids_nodup := by decide
  sorted := by decide
  stored := by
    intro x hx
    simp only [rd, List.mem_cons, List.not_mem_nil, or_false] at hx
    rcases hx with rfl | rfl | rfl
    · exact ⟨[F32.zero], [F32.zero, F32.zero], by decide⟩
    · exact ⟨[F32.zero], [F32.one, F32.zero], by decide⟩
    · exact ⟨[F32.zero], [F32.zero, F32.two], by decide⟩
  roots_ne := by intro _; decide

theorem forestOK : ForestOK c s rd := ⟨[tree], forestWith⟩

theorem descSorted : DescSorted c s := by
  intro id ids h
  rw [s_eq] at h
  simp only [Store.get, Cfg.treeKey, Key.mkTree, c, Generated.modeTree, Key.mk.injEq] at h
  repeat' split at h
  all_goals first | (simp only [Option.some.injEq, Val.desc.injEq] at h; subst h; decide) | simp at h

end ForestExample
end Arroy
