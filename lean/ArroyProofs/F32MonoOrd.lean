import ArroyProofs.F32Mono
import ArroyProofs.OrdLemmas
import ArroyProofs.F32DivRange
/-! The float order `F32.le` on canonical result patterns and on unpacked operands (core Lean only):
`Out p v` says that `p` is a non-NaN result pattern (sign bit plus a pattern up to `+inf`) whose signed
pattern is the integer `v`; `F32.le` on such patterns is `≤` on the integers (`le_of_out`).
`leV` is `F32.le` on unpacked operands; `lift_mono` lifts a monotone function of the scaled signed
magnitude to a monotone operation. -/
namespace Arroy
namespace F32M
open SF F32L

/-! ### result patterns -/

/-- a pattern `P` up to `+inf` with the sign bit `neg` -/
def sp (neg : Bool) (P : Nat) : Nat := if neg then P + 2 ^ 31 else P
/-- its position in the order: the signed pattern -/
def sv (neg : Bool) (P : Nat) : Int := if neg then -(P : Int) else (P : Int)

/-- `p` is a non-NaN result pattern at position `v` of the order -/
def Out (p : Nat) (v : Int) : Prop := ∃ s P, p = sp s P ∧ P ≤ 0x7f800000 ∧ sv s P = v

theorem Out.bound {p : Nat} {v : Int} (h : Out p v) : -0x7f800000 ≤ v ∧ v ≤ 0x7f800000 := by
  obtain ⟨s, P, -, hP, rfl⟩ := h
  cases s <;> simp [sv] <;> omega

theorem out_infBits (a : Bool) : Out (infBits f32 a) (sv a 0x7f800000) := by
  refine ⟨a, 0x7f800000, ?_, Nat.le_refl _, rfl⟩
  cases a <;> decide

theorem out_zero (s : Bool) : Out (packBits f32 s 0 0) 0 := by
  refine ⟨s, 0, ?_, by omega, by cases s <;> rfl⟩
  cases s
  · rfl
  · show 2 ^ (f32.width - 1) + 0 * 2 ^ (f32.p - 1) + 0 = 0 + 2 ^ 31
    have : f32.width = 32 := rfl
    rw [this]
    simp only [Nat.zero_mul, Nat.add_zero, Nat.zero_add]

theorem out_roundPack (s : Bool) (m : Nat) (e : Int) (st : Bool) :
    Out (roundPack f32 s m e st) (sv s (RP m e st)) := by
  refine ⟨s, RP m e st, ?_, RP_le_inf m e st, rfl⟩
  cases s
  · simp only [sp, Bool.false_eq_true, if_false, RP]
  · simp only [sp, if_true]; exact roundPack_true m e st

/-! ### keys of result patterns -/

theorem key_nonneg {x : Nat} (hx : x ≤ 0x7f800000) : 0 ≤ (SF.key f32 x).1 ∧ 0 ≤ (SF.key f32 x).2 := by
  unfold SF.key
  rcases Nat.lt_or_eq_of_le hx with h | h
  · have := unpack_pos x h
    have e : unpack f32 x = unpack F32.fmt x := rfl
    rw [e, this]
    split
    · exact ⟨Int.le_refl _, by simp only [V.mag, Bool.false_eq_true, if_false]; exact Int.natCast_nonneg _⟩
    · exact ⟨Int.le_refl _, by simp only [V.mag, Bool.false_eq_true, if_false]; exact Int.natCast_nonneg _⟩
  · subst h
    have : unpack f32 0x7f800000 = .inf false := unpack_inf
    rw [this]; simp [V.cls, V.mag]

theorem cls_negV {v : V} (h : v.notNaN) : (negV v).cls = -v.cls := by
  cases v with
  | nan => exact absurd h id
  | inf a => cases a <;> simp [negV, V.cls]
  | fin n m e => simp [negV, V.cls]

theorem mag_negV (q : Int) (v : V) : (negV v).mag q = -v.mag q := by
  cases v with
  | nan => simp [negV, V.mag]
  | inf a => simp [negV, V.mag]
  | fin n m e => cases n <;> simp [negV, V.mag]

theorem notNaN_negV {v : V} : (negV v).notNaN ↔ v.notNaN := by
  cases v <;> simp [negV, V.notNaN]

theorem le_iff_key (a b : Nat) :
    F32.le a b = true ↔ (isNaN f32 a = false ∧ isNaN f32 b = false ∧ ¬ SF.klt (SF.key f32 b) (SF.key f32 a)) := by
  unfold F32.le SF.le
  constructor
  · intro h
    simp only [Bool.and_eq_true, Bool.not_eq_true'] at h
    obtain ⟨⟨h1, h2⟩, h3⟩ := h
    refine ⟨h1, h2, ?_⟩
    rw [← lt_iff_of_notNaN f32 b a h2 h1]
    simp [h3]
  · intro ⟨h1, h2, h3⟩
    rw [← lt_iff_of_notNaN f32 b a h2 h1] at h3
    have e1 : isNaN F32.fmt a = false := h1
    have e2 : isNaN F32.fmt b = false := h2
    have e3 : lt F32.fmt b a = false := by simpa using h3
    simp [e1, e2, e3]

theorem isNaN_sp (s : Bool) {P : Nat} (hP : P ≤ 0x7f800000) : isNaN f32 (sp s P) = false := by
  have h0 : isNaN f32 P = false := isNaN_false_of_le hP
  cases s
  · exact h0
  · rw [isNaN_false_iff] at h0 ⊢
    show (unpack f32 (P + 2 ^ 31)).notNaN
    have := unpack_add_sign P
    rw [show unpack f32 (P + 2 ^ 31) = unpack F32.fmt (P + 2 ^ 31) from rfl, this]
    exact notNaN_negV.2 h0

theorem key_sp_true {P : Nat} (hP : P ≤ 0x7f800000) :
    SF.key f32 (sp true P) = (-(SF.key f32 P).1, -(SF.key f32 P).2) := by
  have h0 : isNaN f32 P = false := isNaN_false_of_le hP
  rw [isNaN_false_iff] at h0
  unfold SF.key
  show ((unpack f32 (P + 2 ^ 31)).cls, (unpack f32 (P + 2 ^ 31)).mag f32.qmin) = _
  have := unpack_add_sign P
  rw [show unpack f32 (P + 2 ^ 31) = unpack F32.fmt (P + 2 ^ 31) from rfl, this]
  rw [cls_negV h0, mag_negV]

/-- **the float order on result patterns** is the order of the signed patterns -/
theorem le_of_out {p1 p2 : Nat} {v1 v2 : Int} (h1 : Out p1 v1) (h2 : Out p2 v2) (h : v1 ≤ v2) :
    F32.le p1 p2 = true := by
  obtain ⟨s1, P1, rfl, hP1, rfl⟩ := h1
  obtain ⟨s2, P2, rfl, hP2, rfl⟩ := h2
  obtain ⟨a1, a2⟩ := key_nonneg hP1
  obtain ⟨b1, b2⟩ := key_nonneg hP2
  have n1 : isNaN f32 P1 = false := isNaN_false_of_le hP1
  have n2 : isNaN f32 P2 = false := isNaN_false_of_le hP2
  cases s1 <;> cases s2
  · -- both non-negative
    have hle : P1 ≤ P2 := by simpa [sv] using h
    exact le_of_bits_le hle hP2
  · -- `P1 ≤ -P2`: both zero
    have : P1 = 0 ∧ P2 = 0 := by simp [sv] at h; omega
    obtain ⟨rfl, rfl⟩ := this
    rfl
  · rw [le_iff_key]
    refine ⟨isNaN_sp true hP1, isNaN_sp false hP2, ?_⟩
    rw [key_sp_true hP1]
    show ¬ SF.klt (SF.key f32 P2) _
    unfold SF.klt; simp only; omega
  · rw [le_iff_key]
    refine ⟨isNaN_sp true hP1, isNaN_sp true hP2, ?_⟩
    rw [key_sp_true hP1, key_sp_true hP2]
    have hle : P2 ≤ P1 := by simp [sv] at h; omega
    have := lt_false_of_bits_le hle hP1
    have e : lt f32 P1 P2 = false := this
    have hk : ¬ SF.klt (SF.key f32 P1) (SF.key f32 P2) := by
      rw [← lt_iff_of_notNaN f32 P1 P2 n1 n2]; simp [e]
    unfold SF.klt at hk ⊢; simp only at hk ⊢; omega

/-! ### the order on unpacked operands -/

/-- `F32.le` on unpacked values -/
def leV (x y : V) : Prop := x.notNaN ∧ y.notNaN ∧ ltV y x = false

theorem le_iff_leV (a b : Nat) : F32.le a b = true ↔ leV (unpack f32 a) (unpack f32 b) := by
  have e : F32.le a b = (!(isNaN f32 a) && !(isNaN f32 b) && !(ltV (unpack f32 b) (unpack f32 a))) := rfl
  rw [e]
  unfold leV
  rw [← isNaN_false_iff, ← isNaN_false_iff]
  simp only [Bool.and_eq_true, Bool.not_eq_true']
  constructor
  · intro h; exact ⟨h.1.1, h.1.2, h.2⟩
  · intro h; exact ⟨⟨h.1, h.2.1⟩, h.2.2⟩

theorem ltV_negV (x y : V) (hx : x.notNaN) (hy : y.notNaN) : ltV (negV x) (negV y) = ltV y x := by
  rw [Bool.eq_iff_iff]
  -- a common exponent below all exponents involved
  have key : ∀ q, x.okExp q → y.okExp q → (ltV (negV x) (negV y) = true ↔ ltV y x = true) := by
    intro q ox oy
    have ox' : (negV x).okExp q := by cases x <;> simp_all [negV, V.okExp]
    have oy' : (negV y).okExp q := by cases y <;> simp_all [negV, V.okExp]
    rw [ltV_iff q _ _ ox' oy' (notNaN_negV.2 hx) (notNaN_negV.2 hy), ltV_iff q _ _ oy ox hy hx,
      cls_negV hx, cls_negV hy, mag_negV, mag_negV]
    omega
  cases x with
  | nan => exact absurd hx id
  | inf a =>
    cases y with
    | nan => exact absurd hy id
    | inf b => exact key 0 trivial trivial
    | fin n m e => exact key e trivial (by simp [V.okExp])
  | fin n1 m1 e1 =>
    cases y with
    | nan => exact absurd hy id
    | inf b => exact key e1 (by simp [V.okExp]) trivial
    | fin n2 m2 e2 =>
      exact key (Min.min e1 e2) (by simp [V.okExp]; omega) (by simp [V.okExp]; omega)

theorem leV_negV {x y : V} (h : leV x y) : leV (negV y) (negV x) := by
  obtain ⟨h1, h2, h3⟩ := h
  refine ⟨notNaN_negV.2 h2, notNaN_negV.2 h1, ?_⟩
  rw [ltV_negV x y h1 h2]; exact h3

theorem leV_fin {n1 n2 : Bool} {m1 m2 : Nat} {e1 e2 : Int} (h : leV (.fin n1 m1 e1) (.fin n2 m2 e2))
    (q : Int) (h1 : q ≤ e1) (h2 : q ≤ e2) :
    V.mag q (.fin n1 m1 e1) ≤ V.mag q (.fin n2 m2 e2) := by
  have := ltV_fin q n2 m2 e2 n1 m1 e1 h2 h1
  rw [h.2.2] at this
  have : ¬ (V.mag q (.fin n2 m2 e2) < V.mag q (.fin n1 m1 e1)) := fun hh => by
    have := this.2 hh; cases this
  omega

/-- rescaling the signed magnitude -/
theorem mag_scale (q q' : Int) (n : Bool) (m : Nat) (e : Int) (h1 : q ≤ q') (h2 : q' ≤ e) :
    V.mag q (.fin n m e) = V.mag q' (.fin n m e) * ((2 ^ ((q' - q).toNat) : Nat) : Int) := by
  have ha : m * 2 ^ ((e - q).toNat) = (m * 2 ^ ((e - q').toNat)) * 2 ^ ((q' - q).toNat) := by
    rw [Nat.mul_assoc, ← Nat.pow_add]; congr 2; omega
  simp only [V.mag]
  rw [ha]
  cases n <;> simp [Int.neg_mul]

/-! ### odd extensions -/

/-- the odd extension of a function on magnitudes to signed magnitudes -/
def ext (g : Nat → Nat) (z : Int) : Int := if z < 0 then -(g z.natAbs : Int) else (g z.natAbs : Int)

theorem ext_mono (g : Nat → Nat) (hg : ∀ a b, a ≤ b → g a ≤ g b) {z1 z2 : Int} (h : z1 ≤ z2) :
    ext g z1 ≤ ext g z2 := by
  unfold ext
  by_cases h1 : z1 < 0
  · by_cases h2 : z2 < 0
    · rw [if_pos h1, if_pos h2]
      have := hg z2.natAbs z1.natAbs (by omega); omega
    · rw [if_pos h1, if_neg h2]; omega
  · have h2 : ¬ z2 < 0 := by omega
    rw [if_neg h1, if_neg h2]
    have := hg z1.natAbs z2.natAbs (by omega); omega

/-- the signed pattern of a result computed from the magnitude is the odd extension at the signed
magnitude (a zero magnitude must give the pattern `0`) -/
theorem sv_eq_ext (g : Nat → Nat) (h0 : g 0 = 0) (q : Int) (n : Bool) (m : Nat) (e : Int) :
    sv n (g (m * 2 ^ ((e - q).toNat))) = ext g (V.mag q (.fin n m e)) := by
  unfold sv ext
  cases n
  · simp only [V.mag, Bool.false_eq_true, if_false]
    generalize m * 2 ^ ((e - q).toNat) = M
    have : ¬ ((M : Int) < 0) := by omega
    rw [if_neg this, Int.natAbs_natCast]
  · simp only [V.mag, if_true]
    generalize m * 2 ^ ((e - q).toNat) = M
    rcases Nat.eq_zero_or_pos M with h | h
    · subst h; simp [h0]
    · have : (-(M : Int) < 0) := by omega
      rw [if_pos this, Int.natAbs_neg, Int.natAbs_natCast]

/-! ### lifting -/

/-- an operation on unpacked values that passes infinities through and is, on finite values, a
monotone function `G E` of the signed magnitude at any common exponent `E ≤ E0`, is monotone -/
theorem lift_mono (op : V → Nat) (E0 : Int) (G : Int → Int → Int)
    (hinf : ∀ a, op (.inf a) = infBits f32 a)
    (hfin : ∀ n m e E, E ≤ e → E ≤ E0 → Out (op (.fin n m e)) (G E (V.mag E (.fin n m e))))
    (hG : ∀ E z1 z2, z1 ≤ z2 → G E z1 ≤ G E z2)
    {x y : V} (h : leV x y) : F32.le (op x) (op y) = true := by
  cases x with
  | nan => exact absurd h.1 id
  | inf a =>
    rw [hinf]
    cases y with
    | nan => exact absurd h.2.1 id
    | inf b =>
      rw [hinf]
      apply le_of_out (out_infBits a) (out_infBits b)
      have := h.2.2
      cases a <;> cases b <;> simp [ltV, sv] at this ⊢
    | fin n m e =>
      have ho := hfin n m e (Min.min e E0) (by omega) (by omega)
      apply le_of_out (out_infBits a) ho
      have := h.2.2
      cases a
      · simp [ltV] at this
      · have := ho.bound; simp [sv]; omega
  | fin n1 m1 e1 =>
    cases y with
    | nan => exact absurd h.2.1 id
    | inf b =>
      rw [hinf]
      have ho := hfin n1 m1 e1 (Min.min e1 E0) (by omega) (by omega)
      apply le_of_out ho (out_infBits b)
      have := h.2.2
      cases b
      · have := ho.bound; simp [sv]; omega
      · simp [ltV] at this
    | fin n2 m2 e2 =>
      have hE1 : Min.min (Min.min e1 e2) E0 ≤ e1 := by omega
      have hE2 : Min.min (Min.min e1 e2) E0 ≤ e2 := by omega
      have hE0 : Min.min (Min.min e1 e2) E0 ≤ E0 := by omega
      generalize Min.min (Min.min e1 e2) E0 = E at *
      exact le_of_out (hfin n1 m1 e1 E hE1 hE0) (hfin n2 m2 e2 E hE2 hE0) (hG E _ _ (leV_fin h E hE1 hE2))

end F32M
end Arroy
