import ArroyModel.Check
import ArroyProofs.Exact
import ArroyProofs.KeyLemmas
import ArroyProofs.StoreLemmas
/-! `Check.bruteForce` (the oracle the harness compares search results with) is the sorted scored item
list, when the item keys of the store are exactly the metadata items. -/
namespace Arroy
open Generated Reader

theorem encodeKey_eq (k : Key) :
    encodeKey k = be 2 k.index ++ (be 1 k.mode ++ (be 4 k.item ++ be 1 0)) := by
  simp [encodeKey, keyFields, keyFieldBytes, encInt, keyPadding]

/-- a well-formed key is under the prefix `(idx, m)` iff its index and mode are `idx` and `m` -/
theorem isPrefix_mode_iff (idx m : Nat) (k : Key) (hk : k.wf) (hi : idx < 256 ^ 2) (hm : m < 256 ^ 1) :
    isPrefixOf (encodePrefix idx (some m)) (encodeKey k) = true ↔ (k.index = idx ∧ k.mode = m) := by
  unfold isPrefixOf
  rw [List.isPrefixOf_iff_prefix, encodeKey_eq]
  simp only [encodePrefix]
  constructor
  · rintro ⟨t, ht⟩
    rw [List.append_assoc] at ht
    have h1 := List.append_inj ht (by simp [be_length])
    have h2 := List.append_inj h1.2 (by simp [be_length])
    exact ⟨(be_inj 2 _ _ hi hk.1 h1.1).symm, (be_inj 1 _ _ hm hk.2.1 h2.1).symm⟩
  · rintro ⟨rfl, rfl⟩
    rw [← List.append_assoc]
    exact List.prefix_append _ _

namespace Store

theorem get_of_mem_nodup {s : Store} (hnd : (s.map (·.1)).Nodup) {k : Key} {v : Val} (h : (k, v) ∈ s) :
    Store.get s k = some v := by
  induction s with
  | nil => cases h
  | cons kv rest ih =>
    obtain ⟨k', v'⟩ := kv
    simp only [List.map_cons, List.nodup_cons] at hnd
    simp only [Store.get]
    rcases List.mem_cons.1 h with h | h
    · cases h; simp
    · have : k' ≠ k := by
        intro e; subst e
        exact hnd.1 (List.mem_map.2 ⟨(k', v), h, rfl⟩)
      simp [this, ih hnd.2 h]

end Store

theorem filterMap_eq_map {α β : Type} (f : α → Option β) (g : α → β) (l : List α)
    (h : ∀ a ∈ l, f a = some (g a)) : l.filterMap f = l.map g := by
  induction l with
  | nil => rfl
  | cons a l ih =>
    simp only [List.filterMap_cons, h a List.mem_cons_self, List.map_cons]
    rw [ih (fun b hb => h b (List.mem_cons_of_mem _ hb))]

namespace Reader

/-- every entry under the item prefix is the stored value of its item id -/
theorem prefixIter_item_get (c : Cfg) (s : Store) (items : List Nat) (hwf : ∀ kv ∈ s, kv.1.wf)
    (hidx : c.index < 256 ^ 2) (hkeys : s.keysOf c.index modeItem = items) (hnd : items.Nodup) :
    ∀ kv ∈ s.prefixIter c.index (some modeItem),
      kv.1 = c.itemKey kv.1.item ∧ Store.get s (c.itemKey kv.1.item) = some kv.2 := by
  intro kv hkv
  have hP : ∀ kv ∈ s.prefixIter c.index (some modeItem), kv.1 = c.itemKey kv.1.item := by
    intro kv hkv
    have h := List.mem_filter.1 hkv
    have := (isPrefix_mode_iff c.index modeItem kv.1 (hwf kv h.1) hidx (by decide)).1 h.2
    obtain ⟨⟨i, m, it⟩, v⟩ := kv
    simp only at this
    simp [Cfg.itemKey, Key.mkItem, this.1, this.2]
  refine ⟨hP kv hkv, ?_⟩
  have hfil : Store.get s (c.itemKey kv.1.item) =
      Store.get (s.prefixIter c.index (some modeItem)) (c.itemKey kv.1.item) := by
    unfold Store.prefixIter
    rw [Store.get_filter]
    intro v
    simp only
    rw [encodeKey_eq]
    simp only [encodePrefix, Cfg.itemKey, Key.mkItem]
    unfold isPrefixOf
    rw [List.isPrefixOf_iff_prefix, ← List.append_assoc]
    exact List.prefix_append _ _
  rw [hfil, ← hP kv hkv]
  apply Store.get_of_mem_nodup _ (by exact hkv)
  have hmap : (s.prefixIter c.index (some modeItem)).map (·.1) =
      ((s.prefixIter c.index (some modeItem)).map (·.1.item)).map c.itemKey := by
    rw [List.map_map]
    apply List.map_congr_left
    intro kv hkv
    exact hP kv hkv
  rw [hmap]
  have : (s.prefixIter c.index (some modeItem)).map (·.1.item) = items := hkeys
  rw [this]
  exact List.Pairwise.map c.itemKey (fun a b hab h => hab (c.itemKey_inj h)) hnd

/-- **`bruteForce` is the sorted scored item list** -/
theorem bruteForce_eq (c : Cfg) (s : Store) (qh qv : List Nat) (items : List Nat) (hwf : ∀ kv ∈ s, kv.1.wf)
    (hidx : c.index < 256 ^ 2) (hkeys : s.keysOf c.index modeItem = items) (hnd : items.Nodup)
    (hleaf : ∀ x ∈ items, IsLeaf c s x) :
    Check.bruteForce c s qh qv none = sortedScored c s qh qv items := by
  unfold Check.bruteForce sortedScored
  have hg := prefixIter_item_get c s items hwf hidx hkeys hnd
  simp only []
  rw [filterMap_eq_map _ (fun kv => (kv.1.item,
      (match kv.2 with | .leaf h _ => h | _ => []), (match kv.2 with | .leaf _ v => v | _ => [])))]
  · rw [List.map_map, ← hkeys]
    unfold scored Store.keysOf
    rw [List.map_map]
    congr 1
    apply List.map_congr_left
    intro kv hkv
    obtain ⟨_, h2⟩ := hg kv hkv
    have hx : kv.1.item ∈ items := by rw [← hkeys]; exact List.mem_map.2 ⟨kv, hkv, rfl⟩
    obtain ⟨h, v, hl⟩ := hleaf _ hx
    rw [hl] at h2
    obtain ⟨k, val⟩ := kv
    simp only [Option.some.injEq] at h2
    subst h2
    simp only [Function.comp, scoreOf, hl]
  · intro kv hkv
    obtain ⟨_, h2⟩ := hg kv hkv
    have hx : kv.1.item ∈ items := by rw [← hkeys]; exact List.mem_map.2 ⟨kv, hkv, rfl⟩
    obtain ⟨h, v, hl⟩ := hleaf _ hx
    rw [hl] at h2
    obtain ⟨k, val⟩ := kv
    simp only [Option.some.injEq] at h2
    subst h2
    rfl

end Reader
end Arroy
