import ArroyModel.InPlace
/-! Equivalence of the in-place mirrors (`ArroyModel/InPlace.lean`: polls where the Rust code polls)
with the pure tree-level routines of `ArroyModel/Tree.lean` charged afterwards (`pollN r.polls`).

`After n x` = "`n` polls, then the pure outcome `x`".  Every in-place routine IS `After n x` for
`x` the outcome of the pure routine and `n` its poll count (on success) / the number of polls the
Rust routine makes before raising the error (on failure). -/
namespace Arroy
open BuildM Generated
namespace InPlace

/-! ## monad laws of `BuildM` (as equalities of functions) -/

theorem bind'_assoc (m : BuildM α) (f : α → BuildM β) (g : β → BuildM γ) :
    bind' (bind' m f) g = bind' m (fun a => bind' (f a) g) := by
  funext st
  unfold bind'
  cases m st with
  | error e => rfl
  | ok r => rfl

theorem pure'_bind' (a : α) (f : α → BuildM β) : bind' (pure' a) f = f a := rfl

theorem bind'_pure' (m : BuildM α) : bind' m pure' = m := by
  funext st
  unfold bind'
  cases m st with
  | error e => rfl
  | ok r => rfl

theorem fail_bind' (e : Err) (f : α → BuildM β) : bind' (fail e) f = fail e := rfl

theorem bind_eq (m : BuildM α) (f : α → BuildM β) : (m >>= f) = bind' m f := rfl
theorem pure_eq (a : α) : (pure a : BuildM α) = pure' a := rfl

theorem bind'_ok {m : BuildM α} {f : α → BuildM β} {st st1 : BState} {a : α} (h : m st = .ok (a, st1)) :
    bind' m f st = f a st1 := by
  simp [bind', h]

theorem bind'_err {m : BuildM α} {f : α → BuildM β} {st : BState} {e : Err} (h : m st = .error e) :
    bind' m f st = .error e := by
  simp [bind', h]

/-! ## `pollN` -/

theorem pollN_zero : pollN 0 = pure' () := rfl
theorem pollN_succ (k : Nat) : pollN (k+1) = bind' poll (fun _ => pollN k) := rfl

theorem pollN_zero_bind (f : Unit → BuildM β) : bind' (pollN 0) f = f () := rfl

theorem pollN_succ_bind (k : Nat) (f : Unit → BuildM β) :
    bind' (pollN (k+1)) f = bind' poll (fun _ => bind' (pollN k) f) := by
  rw [pollN_succ, bind'_assoc]

theorem pollN_one_bind (f : Unit → BuildM β) : bind' (pollN 1) f = bind' poll f := by
  rw [pollN_succ_bind]; rfl

/-- `pollN (a + b) = pollN a >>= fun _ => pollN b`, in continuation form -/
theorem pollN_add_bind (a b : Nat) (f : Unit → BuildM β) :
    bind' (pollN (a + b)) f = bind' (pollN a) (fun _ => bind' (pollN b) f) := by
  induction a with
  | zero => rw [Nat.zero_add]; rfl
  | succ a ih =>
    rw [Nat.add_right_comm, pollN_succ_bind, pollN_succ_bind, ih]

theorem pollN_add (a b : Nat) : pollN (a + b) = bind' (pollN a) (fun _ => pollN b) := by
  have := pollN_add_bind a b pure'
  rw [bind'_pure'] at this
  rw [this]
  congr 1
  funext u
  rw [bind'_pure']

theorem poll_none {st : BState} (h : st.cancelAt = none) :
    poll st = .ok ((), { st with polls := st.polls + 1 }) := by
  simp [poll, h]

/-- a failing `poll` fails with `cancelled`, under a schedule -/
theorem poll_err {st : BState} {e : Err} (h : poll st = .error e) :
    (∃ k, e = .cancelled k) ∧ st.cancelAt ≠ none := by
  unfold poll at h
  split at h
  · split at h
    · cases h; exact ⟨⟨_, rfl⟩, by simp_all⟩
    · cases h
  · cases h

theorem poll_ok {st st' : BState} {u : Unit} (h : poll st = .ok (u, st')) :
    st' = { st with polls := st.polls + 1 } := by
  unfold poll at h
  split at h
  · split at h
    · cases h
    · cases h; rfl
  · cases h; rfl

theorem pollN_none (k : Nat) {st : BState} (h : st.cancelAt = none) :
    pollN k st = .ok ((), { st with polls := st.polls + k }) := by
  induction k generalizing st with
  | zero => rfl
  | succ k ih =>
    rw [pollN_succ, bind'_ok (poll_none h), ih (by exact h)]
    simp only [Nat.add_assoc, Nat.add_comm 1 k]

theorem pollN_ok (k : Nat) {st st' : BState} {u : Unit} (h : pollN k st = .ok (u, st')) :
    st' = { st with polls := st.polls + k } := by
  induction k generalizing st with
  | zero => cases h; rfl
  | succ k ih =>
    rw [pollN_succ] at h
    cases hp : poll st with
    | error e => rw [bind'_err hp] at h; cases h
    | ok r =>
      obtain ⟨⟨⟩, s1⟩ := r
      rw [bind'_ok hp] at h
      rw [ih h, poll_ok hp]
      simp only [Nat.add_assoc, Nat.add_comm 1 k]

theorem pollN_err (k : Nat) {st : BState} {e : Err} (h : pollN k st = .error e) :
    (∃ j, e = .cancelled j) ∧ st.cancelAt ≠ none := by
  induction k generalizing st with
  | zero => cases h
  | succ k ih =>
    rw [pollN_succ] at h
    cases hp : poll st with
    | error e' => rw [bind'_err hp] at h; cases h; exact poll_err hp
    | ok r =>
      obtain ⟨⟨⟩, s1⟩ := r
      rw [bind'_ok hp] at h
      have := ih h
      rw [poll_ok hp] at this
      exact this

/-! ## `After` -/

/-- `n` polls, then the pure outcome `x` -/
def After (n : Nat) (x : Except Err α) : BuildM α := bind' (pollN n) (fun _ => liftExcept x)

theorem liftExcept_ok (a : α) : liftExcept (.ok a) = pure' a := rfl
theorem liftExcept_error (e : Err) : (liftExcept (.error e) : BuildM α) = fail e := rfl

theorem After_zero (x : Except Err α) : After 0 x = liftExcept x := rfl

theorem poll_After (n : Nat) (x : Except Err α) :
    bind' poll (fun _ => After n x) = After (n + 1) x := by
  unfold After; rw [pollN_succ_bind]

theorem pollN_After (k n : Nat) (x : Except Err α) :
    bind' (pollN k) (fun _ => After n x) = After (k + n) x := by
  unfold After; rw [pollN_add_bind]

theorem After_ok_bind (n : Nat) (a : α) (f : α → BuildM β) :
    bind' (After n (.ok a)) f = bind' (pollN n) (fun _ => f a) := by
  unfold After; rw [bind'_assoc]; rfl

theorem After_error_bind (n : Nat) (e : Err) (f : α → BuildM β) :
    bind' (After n (.error e : Except Err α)) f = After n (.error e) := by
  unfold After; rw [bind'_assoc]; rfl

theorem After_ok (n : Nat) (a : α) : After n (.ok a) = bind' (pollN n) (fun _ => pure' a) := rfl

/-- the run of `After n (.error e)`: a cancellation can only pre-empt the error -/
theorem After_error_run (n : Nat) (e : Err) (st : BState) :
    ∃ e', (After n (.error e) : BuildM α) st = .error e' ∧
      (e' = e ∨ ((∃ k, e' = .cancelled k) ∧ st.cancelAt ≠ none)) := by
  unfold After
  cases hp : pollN n st with
  | error e' => exact ⟨e', bind'_err hp, Or.inr (pollN_err n hp)⟩
  | ok r =>
    obtain ⟨⟨⟩, s1⟩ := r
    exact ⟨e, by rw [bind'_ok hp]; rfl, Or.inl rfl⟩

theorem After_error_none (n : Nat) (e : Err) {st : BState} (h : st.cancelAt = none) :
    (After n (.error e) : BuildM α) st = .error e := by
  unfold After
  rw [bind'_ok (pollN_none n h)]; rfl

/-! ## `delete_items_in_file` -/

theorem delT_node (cap : Nat) (D : List Nat) (id : Nat) (n : List Nat) (l r : T) :
    delT cap D (.node id n l r) = delNode cap id n l r (delT cap D l) (delT cap D r) := rfl

theorem delNode_polls (cap id n l r) (a b : DelRes) :
    (delNode cap id n l r a b).polls = 1 + a.polls + b.polls := by
  unfold delNode
  dsimp only
  split
  · rfl
  · split
    · rfl
    · split <;> rfl

/-- `delM` is `delT` charged afterwards, as an equality of `BuildM` computations -/
theorem delM_eq_fun (cap : Nat) (D : List Nat) (t : T) :
    delM cap D t = bind' (pollN (delT cap D t).polls) (fun _ => pure' (delT cap D t)) := by
  induction t with
  | leaf i => rfl
  | bucket id s =>
    show bind' poll (fun _ => pure' _) = bind' (pollN 1) (fun _ => pure' _)
    rw [pollN_one_bind]
    rfl
  | node id n l r ihl ihr =>
    show bind' poll (fun _ => bind' (delM cap D l) (fun a => bind' (delM cap D r) (fun b =>
      pure' (delNode cap id n l r a b)))) = _
    rw [ihl, ihr, delT_node, delNode_polls]
    simp only [bind'_assoc, pure'_bind']
    rw [Nat.add_assoc, Nat.add_comm 1, pollN_succ_bind, pollN_add_bind]

/-- literal equality of the runs, from every state: same value and state on success,
    `cancelled k` with the same call number on cancellation -/
theorem delM_eq (cap : Nat) (D : List Nat) (t : T) (st : BState) :
    delM cap D t st =
      (BuildM.bind' (BuildM.pollN (delT cap D t).polls) (fun _ => BuildM.pure' (delT cap D t))) st := by
  rw [delM_eq_fun]

/-! ## `insert_items_in_file` -/

theorem insertT_node (cx : TreeCtx) (id : Nat) (n : List Nat) (l r : T) (ins : List Nat) (g : IdGen)
    (rs : List Bool) :
    insertT cx (.node id n l r) ins g rs =
      (match insParts cx n ins rs with
       | .error e => .error e
       | .ok (left, right, rs1) =>
         match insertT cx l left g rs1 with
         | .error e => .error e
         | .ok a =>
           match insertT cx r right a.gen a.rands with
           | .error e => .error e
           | .ok b => .ok (insNode id n l r a b)) := rfl

theorem insertM_node (cx : TreeCtx) (id : Nat) (n : List Nat) (l r : T) (ins : List Nat) (g : IdGen)
    (rs : List Bool) :
    insertM cx (.node id n l r) ins g rs =
      bind' poll (fun _ =>
        match insParts cx n ins rs with
        | .error e => fail e
        | .ok (left, right, rs1) =>
          bind' (insertM cx l left g rs1) (fun a => bind' (insertM cx r right a.gen a.rands) (fun b =>
            pure' (insNode id n l r a b)))) := rfl

/-- `insertM` is: some polls, then the outcome of `insertT`; on success the number of polls is the
    one `insertT` reports -/
theorem insertM_after (cx : TreeCtx) (t : T) (ins : List Nat) (g : IdGen) (rs : List Bool) :
    ∃ n, insertM cx t ins g rs = After n (insertT cx t ins g rs) ∧
      ∀ r, insertT cx t ins g rs = .ok r → r.polls = n := by
  induction t generalizing ins g rs with
  | leaf i =>
    refine ⟨1, ?_, ?_⟩
    · show bind' poll (fun _ => _) = After (0 + 1) _
      rw [← poll_After, After_zero]
      congr 1
      funext _
      unfold insertT
      dsimp only
      split
      · cases g.next with
        | error e => rfl
        | ok p => rfl
      · rfl
    · intro r h
      unfold insertT at h
      dsimp only at h
      split at h
      · cases hg : g.next with
        | error e => rw [hg] at h; cases h
        | ok p => rw [hg] at h; cases h; rfl
      · cases h; rfl
  | bucket id s =>
    refine ⟨1, ?_, ?_⟩
    · show bind' poll (fun _ => _) = After (0 + 1) _
      rw [← poll_After, After_zero]
      congr 1
      funext _
      unfold insertT
      dsimp only
      split <;> rfl
    · intro r h
      unfold insertT at h
      dsimp only at h
      split at h <;> (cases h; rfl)
  | node id n l r ihl ihr =>
    rw [insertM_node, insertT_node]
    cases hp : insParts cx n ins rs with
    | error e => exact ⟨1, poll_After 0 (Except.error e), fun r h => by cases h⟩
    | ok p =>
      obtain ⟨left, right, rs1⟩ := p
      dsimp only
      obtain ⟨n1, e1, p1⟩ := ihl left g rs1
      rw [e1]
      cases ha : insertT cx l left g rs1 with
      | error e =>
        refine ⟨n1 + 1, ?_, fun r h => by cases h⟩
        dsimp only
        rw [After_error_bind, poll_After]
      | ok a =>
        dsimp only
        obtain ⟨n2, e2, p2⟩ := ihr right a.gen a.rands
        have hn1 := p1 a ha
        rw [After_ok_bind, e2]
        cases hb : insertT cx r right a.gen a.rands with
        | error e =>
          refine ⟨n1 + n2 + 1, ?_, fun r h => by cases h⟩
          dsimp only
          rw [After_error_bind, pollN_After, poll_After]
        | ok b =>
          have hn2 := p2 b hb
          refine ⟨n1 + n2 + 1, ?_, ?_⟩
          · dsimp only
            rw [After_ok_bind]
            simp only [After_ok, pollN_add_bind, pollN_succ_bind]
          · intro r' h
            cases h
            show 1 + a.polls + b.polls = _
            omega

/-- success: `insertM` is `insertT` charged afterwards (same value, same state, same `cancelled k`).
    The random bits are an explicit argument and part of the result on both sides. -/
theorem insertM_ok (cx : TreeCtx) (t : T) (ins : List Nat) (g : IdGen) (rs : List Bool) (r : InsRes)
    (h : insertT cx t ins g rs = .ok r) (st : BState) :
    insertM cx t ins g rs st = (BuildM.pollN r.polls >>= fun _ => pure r) st := by
  obtain ⟨n, e, p⟩ := insertM_after cx t ins g rs
  rw [e, h, p r h]
  rfl

/-- failure: `insertM` fails too, with the same error or — under a schedule — with a cancellation
    that pre-empts it -/
theorem insertM_err (cx : TreeCtx) (t : T) (ins : List Nat) (g : IdGen) (rs : List Bool) (e : Err)
    (h : insertT cx t ins g rs = .error e) (st : BState) :
    ∃ e', insertM cx t ins g rs st = .error e' ∧ (e' = e ∨ ∃ k, e' = .cancelled k) ∧
      (st.cancelAt = none → e' = e) := by
  obtain ⟨n, eq, _⟩ := insertM_after cx t ins g rs
  rw [eq, h]
  obtain ⟨e', h1, h2⟩ := After_error_run (α := InsRes) n e st
  refine ⟨e', h1, ?_, ?_⟩
  · rcases h2 with h2 | ⟨h2, _⟩
    · exact Or.inl h2
    · exact Or.inr h2
  · intro hc
    rcases h2 with h2 | ⟨_, h2⟩
    · exact h2
    · exact absurd hc h2

/-! ## `make_tree_in_file` -/

/-- the split loop: `chooseSplitM` is some polls, then the outcome of `chooseSplit`; on success the
    counter returned has grown by that number of polls -/
theorem chooseSplitM_after (cx : TreeCtx) (items : List Nat) (attempts : Nat) (normals : List (List Nat))
    (rs : List Bool) (p : Nat) :
    ∃ n, chooseSplitM cx items attempts normals rs p = After n (chooseSplit cx items attempts normals rs p) ∧
      ∀ res, chooseSplit cx items attempts normals rs p = .ok res → res.2.2.2.2.2 = p + n := by
  induction attempts generalizing normals rs p with
  | zero =>
    unfold chooseSplitM chooseSplit
    show ∃ n, bind' poll (fun _ => _) = _ ∧ _
    cases normals with
    | nil => exact ⟨1, poll_After 0 (Except.error _), fun r h => by cases h⟩
    | cons nm normals' =>
      dsimp only
      cases hs : sideSplit cx nm items rs with
      | error e => exact ⟨1, poll_After 0 (Except.error e), fun r h => by cases h⟩
      | ok q =>
        obtain ⟨l, r, rs'⟩ := q
        dsimp only
        split
        · exact ⟨1, poll_After 0 (Except.ok _), fun r h => by cases h; rfl⟩
        · exact ⟨1, poll_After 0 (Except.ok _), fun r h => by cases h; rfl⟩
  | succ a ih =>
    unfold chooseSplitM chooseSplit
    show ∃ n, bind' poll (fun _ => _) = _ ∧ _
    cases normals with
    | nil => exact ⟨1, poll_After 0 (Except.error _), fun r h => by cases h⟩
    | cons nm normals' =>
      dsimp only
      cases hs : sideSplit cx nm items rs with
      | error e => exact ⟨1, poll_After 0 (Except.error e), fun r h => by cases h⟩
      | ok q =>
        obtain ⟨l, r, rs'⟩ := q
        dsimp only
        split
        · exact ⟨1, poll_After 0 (Except.ok _), fun r h => by cases h; rfl⟩
        · obtain ⟨n, e, hk⟩ := ih normals' rs' (p + 1)
          refine ⟨n + 1, ?_, ?_⟩
          · rw [e, poll_After]
          · intro res h
            rw [hk res h]; omega

/-- `makeT` after the single-item test -/
def makeRestT (cx : TreeCtx) (fuel : Nat) (items : List Nat) (g : IdGen) (normals : List (List Nat))
    (rs : List Bool) : Except Err MakeRes :=
  if fits cx.cap items.length then
    match g.next with
    | .error e => .error e
    | .ok (id, g') => .ok ⟨.bucket id items, [(id, .desc items)], g', normals, rs, 1, 1⟩
  else
    match chooseSplit cx items splitAttempts normals rs 0 with
    | .error e => .error e
    | .ok (n, l, r, normals1, rs1, k) =>
      match makeDecide items n l r rs1 with
      | .error e => .error e
      | .ok (n, l, r, rs2) =>
        match makeT cx fuel l g normals1 rs2 with
        | .error e => .error e
        | .ok a =>
          match makeT cx fuel r a.gen a.normals a.rands with
          | .error e => .error e
          | .ok b =>
            match b.gen.next with
            | .error e => .error e
            | .ok (id, g') =>
              .ok ⟨.node id n a.tree b.tree, a.puts ++ b.puts ++ [(id, .split a.tree.ref b.tree.ref n)],
                   g', b.normals, b.rands, 1 + k + a.polls + b.polls, a.nNew + b.nNew + 1⟩

theorem makeT_succ (cx : TreeCtx) (fuel : Nat) (items : List Nat) (g : IdGen) (normals : List (List Nat))
    (rs : List Bool) :
    makeT cx (fuel+1) items g normals rs =
      (match items with
       | [x] => .ok ⟨.leaf x, [], g, normals, rs, 1, 0⟩
       | _ => makeRestT cx fuel items g normals rs) := rfl

/-- `makeM` after the first poll and the single-item test -/
def makeRestM (cx : TreeCtx) (fuel : Nat) (items : List Nat) (g : IdGen) (normals : List (List Nat))
    (rs : List Bool) : BuildM MakeRes :=
  if fits cx.cap items.length then
    match g.next with
    | .error e => fail e
    | .ok (id, g') => pure' ⟨.bucket id items, [(id, .desc items)], g', normals, rs, 1, 1⟩
  else
    bind' (chooseSplitM cx items splitAttempts normals rs 0) (fun
      | (n, l, r, normals1, rs1, k) =>
        match makeDecide items n l r rs1 with
        | .error e => fail e
        | .ok (n, l, r, rs2) =>
          bind' (makeM cx fuel l g normals1 rs2) (fun a =>
          bind' (makeM cx fuel r a.gen a.normals a.rands) (fun b =>
          match b.gen.next with
          | .error e => fail e
          | .ok (id, g') =>
            pure' ⟨.node id n a.tree b.tree, a.puts ++ b.puts ++ [(id, .split a.tree.ref b.tree.ref n)],
                  g', b.normals, b.rands, 1 + k + a.polls + b.polls, a.nNew + b.nNew + 1⟩)))

theorem makeM_succ (cx : TreeCtx) (fuel : Nat) (items : List Nat) (g : IdGen) (normals : List (List Nat))
    (rs : List Bool) :
    makeM cx (fuel+1) items g normals rs =
      bind' poll (fun _ =>
        match items with
        | [x] => pure' ⟨.leaf x, [], g, normals, rs, 1, 0⟩
        | _ => makeRestM cx fuel items g normals rs) := rfl

/-- what the induction hypothesis on `fuel` says -/
def MakeAfter (cx : TreeCtx) (fuel : Nat) : Prop :=
  ∀ items g normals rs, ∃ n, makeM cx fuel items g normals rs = After n (makeT cx fuel items g normals rs) ∧
    ∀ r, makeT cx fuel items g normals rs = .ok r → r.polls = n

theorem makeRest_after (cx : TreeCtx) (fuel : Nat) (ih : MakeAfter cx fuel) (items : List Nat) (g : IdGen)
    (normals : List (List Nat)) (rs : List Bool) :
    ∃ n, makeRestM cx fuel items g normals rs = After n (makeRestT cx fuel items g normals rs) ∧
      ∀ r, makeRestT cx fuel items g normals rs = .ok r → r.polls = n + 1 := by
  unfold makeRestM makeRestT
  split
  · cases g.next with
    | error e => exact ⟨0, rfl, fun r h => by cases h⟩
    | ok q => exact ⟨0, rfl, fun r h => by cases h; rfl⟩
  · obtain ⟨nc, ec, hk⟩ := chooseSplitM_after cx items splitAttempts normals rs 0
    rw [ec]
    cases hc : chooseSplit cx items splitAttempts normals rs 0 with
    | error e =>
      refine ⟨nc, ?_, fun r h => by cases h⟩
      dsimp only
      rw [After_error_bind]
    | ok q =>
      obtain ⟨n, l, r, normals1, rs1, k⟩ := q
      have hk' : k = nc := by have := hk _ hc; simpa using this
      subst hk'
      rw [After_ok_bind]
      dsimp only
      cases hd : makeDecide items n l r rs1 with
      | error e =>
        refine ⟨k, ?_, fun r h => by cases h⟩
        dsimp only
        rfl
      | ok d =>
        obtain ⟨n', l', r', rs2⟩ := d
        dsimp only
        obtain ⟨n1, e1, p1⟩ := ih l' g normals1 rs2
        rw [e1]
        cases ha : makeT cx fuel l' g normals1 rs2 with
        | error e =>
          refine ⟨k + n1, ?_, fun r h => by cases h⟩
          dsimp only
          rw [After_error_bind, pollN_After]
        | ok a =>
          dsimp only
          have hn1 := p1 a ha
          obtain ⟨n2, e2, p2⟩ := ih r' a.gen a.normals a.rands
          rw [After_ok_bind, e2]
          cases hb : makeT cx fuel r' a.gen a.normals a.rands with
          | error e =>
            refine ⟨k + (n1 + n2), ?_, fun r h => by cases h⟩
            dsimp only
            rw [After_error_bind, pollN_After, pollN_After]
          | ok b =>
            dsimp only
            have hn2 := p2 b hb
            rw [After_ok_bind]
            cases hg : b.gen.next with
            | error e =>
              refine ⟨k + (n1 + n2), ?_, fun r h => by cases h⟩
              dsimp only
              rw [← liftExcept_error, ← After_zero (Except.error e), pollN_After, pollN_After, pollN_After]
              rfl
            | ok q =>
              obtain ⟨id, g'⟩ := q
              refine ⟨k + (n1 + n2), ?_, ?_⟩
              · dsimp only
                rw [← liftExcept_ok, ← After_zero (Except.ok _), pollN_After, pollN_After, pollN_After]
                rfl
              · intro r h
                cases h
                show 1 + k + a.polls + b.polls = _
                omega

/-- `makeM` is: some polls, then the outcome of `makeT`; on success the number of polls is the one
    `makeT` reports -/
theorem makeM_after (cx : TreeCtx) (fuel : Nat) : MakeAfter cx fuel := by
  induction fuel with
  | zero => intro items g normals rs; exact ⟨0, rfl, fun r h => by cases h⟩
  | succ fuel ih =>
    intro items g normals rs
    rw [makeM_succ, makeT_succ]
    have leafCase : ∀ x, ∃ n, bind' poll (fun _ => pure' (⟨.leaf x, [], g, normals, rs, 1, 0⟩ : MakeRes)) =
        After n (.ok ⟨.leaf x, [], g, normals, rs, 1, 0⟩) ∧
        ∀ r, (Except.ok ⟨.leaf x, [], g, normals, rs, 1, 0⟩ : Except Err MakeRes) = .ok r → r.polls = n :=
      fun x => ⟨1, poll_After 0 (Except.ok _), fun r h => by cases h; rfl⟩
    have restCase : ∀ its, ∃ n, bind' poll (fun _ => makeRestM cx fuel its g normals rs) =
        After n (makeRestT cx fuel its g normals rs) ∧
        ∀ r, makeRestT cx fuel its g normals rs = .ok r → r.polls = n := by
      intro its
      obtain ⟨n, e, p⟩ := makeRest_after cx fuel ih its g normals rs
      exact ⟨n + 1, by rw [e, poll_After], p⟩
    rcases items with _ | ⟨x, _ | ⟨y, zs⟩⟩
    · exact restCase _
    · exact leafCase x
    · exact restCase _

theorem makeM_ok (cx : TreeCtx) (fuel : Nat) (items : List Nat) (g : IdGen) (normals : List (List Nat))
    (rs : List Bool) (r : MakeRes) (h : makeT cx fuel items g normals rs = .ok r) (st : BState) :
    makeM cx fuel items g normals rs st = (BuildM.pollN r.polls >>= fun _ => pure r) st := by
  obtain ⟨n, e, p⟩ := makeM_after cx fuel items g normals rs
  rw [e, h, p r h]
  rfl

theorem makeM_err (cx : TreeCtx) (fuel : Nat) (items : List Nat) (g : IdGen) (normals : List (List Nat))
    (rs : List Bool) (e : Err) (h : makeT cx fuel items g normals rs = .error e) (st : BState) :
    ∃ e', makeM cx fuel items g normals rs st = .error e' ∧ (e' = e ∨ ∃ k, e' = .cancelled k) ∧
      (st.cancelAt = none → e' = e) := by
  obtain ⟨n, eq, _⟩ := makeM_after cx fuel items g normals rs
  rw [eq, h]
  obtain ⟨e', h1, h2⟩ := After_error_run (α := MakeRes) n e st
  refine ⟨e', h1, ?_, ?_⟩
  · rcases h2 with h2 | ⟨h2, _⟩
    · exact Or.inl h2
    · exact Or.inr h2
  · intro hc
    rcases h2 with h2 | ⟨_, h2⟩
    · exact h2
    · exact absurd hc h2

end InPlace
end Arroy
