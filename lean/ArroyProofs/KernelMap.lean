import ArroyProofs.KernelLemmas
/-! Naturality of the kernel schemas (core Lean only): a homomorphism `h : β → α` of arithmetics commutes
with every kernel, `K A (x.map h) (y.map h) = h (K B x y)`. Used with `h = Prod.fst` to read off the
plain run from the instrumented ("checked") run of `KernelRoundChk`. -/
namespace Arroy

/-- `h` commutes with all operations -/
structure ArithHom {β α : Type} (h : β → α) (B : Arith β) (A : Arith α) : Prop where
  zero : h B.zero = A.zero
  sumInit : h B.sumInit = A.sumInit
  add : ∀ x y, h (B.add x y) = A.add (h x) (h y)
  sub : ∀ x y, h (B.sub x y) = A.sub (h x) (h y)
  mul : ∀ x y, h (B.mul x y) = A.mul (h x) (h y)
  fma : ∀ x y z, h (B.fma x y z) = A.fma (h x) (h y) (h z)

namespace Kernel
variable {β α : Type}

theorem chunks_zero (l : List α) : chunks 0 l = [] := by
  rw [chunks]; simp

theorem chunks_map (h : β → α) (k : Nat) : ∀ (n : Nat) (l : List β), l.length ≤ n →
    chunks k (l.map h) = (chunks k l).map (List.map h) := by
  intro n
  induction n with
  | zero =>
    intro l hl
    have : l = [] := List.length_eq_zero_iff.mp (by omega)
    subst this; simp [chunks_nil]
  | succ n ih =>
    intro l hl
    by_cases hk : k = 0
    · subst hk; simp [chunks_zero]
    · have hk' : 0 < k := Nat.pos_of_ne_zero hk
      by_cases hne : l = []
      · subst hne; simp [chunks_nil]
      · have hne' : l.map h ≠ [] := by simpa using hne
        rw [chunks_cons hk' hne, chunks_cons hk' hne']
        have hlen : (l.drop k).length ≤ n := by
          have : 0 < l.length := List.length_pos_iff.mpr hne
          rw [List.length_drop]; omega
        simp only [List.map_cons, List.map_take]
        rw [← ih (l.drop k) hlen, List.map_drop]

theorem zipWith3_map (h : β → α) (s : β → β → β → β) (s' : α → α → α → α)
    (hs : ∀ a b c, h (s a b c) = s' (h a) (h b) (h c)) :
    ∀ (xs ys acc : List β),
      zipWith3 s' (xs.map h) (ys.map h) (acc.map h) = (zipWith3 s xs ys acc).map h := by
  intro xs
  induction xs with
  | nil => intro ys acc; simp [zipWith3]
  | cons x xs ih =>
    intro ys acc
    cases ys with
    | nil => simp [zipWith3]
    | cons y ys =>
      cases acc with
      | nil => simp [zipWith3]
      | cons c cs => simp only [List.map_cons, zipWith3, hs, ih]

theorem blockStep_map (h : β → α) (lanes : Nat) (s : β → β → β → β) (s' : α → α → α → α)
    (hs : ∀ a b c, h (s a b c) = s' (h a) (h b) (h c)) (accs : List (List β)) (bu bv : List β) :
    blockStep lanes s' (accs.map (List.map h)) (bu.map h) (bv.map h)
      = (blockStep lanes s accs bu bv).map (List.map h) := by
  unfold blockStep
  rw [List.zip_map_right, List.map_map, List.map_map]
  apply List.map_congr_left
  rintro ⟨j, acc⟩ _
  simp only [Function.comp, Prod.map, id]
  rw [← zipWith3_map h s s' hs, List.map_take, List.map_take, List.map_drop, List.map_drop]

theorem mainLoop_map (h : β → α) (lanes : Nat) (s : β → β → β → β) (s' : α → α → α → α)
    (hs : ∀ a b c, h (s a b c) = s' (h a) (h b) (h c)) :
    ∀ (us vs accs : List (List β)),
      mainLoop lanes s' (accs.map (List.map h)) (us.map (List.map h)) (vs.map (List.map h))
        = (mainLoop lanes s accs us vs).map (List.map h) := by
  intro us
  induction us with
  | nil => intro vs accs; simp [mainLoop]
  | cons bu us ih =>
    intro vs accs
    cases vs with
    | nil => simp [mainLoop]
    | cons bv vs =>
      simp only [List.map_cons, mainLoop]
      rw [blockStep_map h lanes s s' hs, ih]

theorem foldl_zip_map (h : β → α) (t : β → β → β → β) (t' : α → α → α → α)
    (ht : ∀ r a b, h (t r a b) = t' (h r) (h a) (h b)) :
    ∀ (xs ys : List β) (r : β),
      (List.zip (xs.map h) (ys.map h)).foldl (fun r (p : α × α) => t' r p.1 p.2) (h r)
        = h ((List.zip xs ys).foldl (fun r (p : β × β) => t r p.1 p.2) r) := by
  intro xs
  induction xs with
  | nil => intro ys r; simp
  | cons x xs ih =>
    intro ys r
    cases ys with
    | nil => simp
    | cons y ys =>
      simp only [List.map_cons, List.zip_cons_cons, List.foldl_cons]
      rw [← ht, ih]

/-- naturality of the SSE/AVX shape -/
theorem simd_map {B : Arith β} {A : Arith α} (h : β → α) (hh : ArithHom h B A) (lanes : Nat)
    (s : β → β → β → β) (s' : α → α → α → α) (hs : ∀ a b c, h (s a b c) = s' (h a) (h b) (h c))
    (hsum : List β → β) (hsum' : List α → α) (hhs : ∀ l, hsum' (l.map h) = h (hsum l))
    (t : β → β → β → β) (t' : α → α → α → α) (ht : ∀ r a b, h (t r a b) = t' (h r) (h a) (h b))
    (x y : List β) :
    simd A lanes s' hsum' t' (x.map h) (y.map h) = h (simd B lanes s hsum t x y) := by
  unfold simd
  simp only [List.length_map]
  rw [← List.map_take, ← List.map_take, ← List.map_drop, ← List.map_drop,
    chunks_map h _ _ _ (Nat.le_refl _), chunks_map h _ _ _ (Nat.le_refl _)]
  have hrep : List.replicate 4 (List.replicate lanes A.zero)
      = (List.replicate 4 (List.replicate lanes B.zero)).map (List.map h) := by
    simp [List.map_replicate, hh.zero]
  rw [hrep, mainLoop_map h lanes s s' hs, List.map_map]
  have hm : (List.map (hsum' ∘ List.map h)
      (mainLoop lanes s (List.replicate 4 (List.replicate lanes B.zero))
        (chunks (4 * lanes) (List.take (x.length - x.length % (4 * lanes)) x))
        (chunks (4 * lanes) (List.take (x.length - x.length % (4 * lanes)) y))))
      = (List.map hsum (mainLoop lanes s (List.replicate 4 (List.replicate lanes B.zero))
        (chunks (4 * lanes) (List.take (x.length - x.length % (4 * lanes)) x))
        (chunks (4 * lanes) (List.take (x.length - x.length % (4 * lanes)) y)))).map h := by
    rw [List.map_map]
    apply List.map_congr_left
    intro l _
    simp only [Function.comp, hhs]
  rw [hm]
  generalize List.map hsum (mainLoop lanes s (List.replicate 4 (List.replicate lanes B.zero))
        (chunks (4 * lanes) (List.take (x.length - x.length % (4 * lanes)) x))
        (chunks (4 * lanes) (List.take (x.length - x.length % (4 * lanes)) y))) = L
  rcases L with _ | ⟨a, _ | ⟨b, _ | ⟨c, _ | ⟨d, _ | ⟨e, tl⟩⟩⟩⟩⟩ <;>
    simp only [List.map_cons, List.map_nil] <;>
    (first | rw [← hh.zero] | simp only [← hh.add]) <;>
    exact foldl_zip_map h t t' ht _ _ _

theorem hsum128_map {B : Arith β} {A : Arith α} (h : β → α) (hh : ArithHom h B A) (l : List β) :
    hsum128 A (l.map h) = h (hsum128 B l) := by
  rcases l with _ | ⟨a, _ | ⟨b, _ | ⟨c, _ | ⟨d, _ | ⟨e, t⟩⟩⟩⟩⟩ <;> simp [hsum128, hh.add, hh.zero]

theorem hsum256_map {B : Arith β} {A : Arith α} (h : β → α) (hh : ArithHom h B A) (l : List β) :
    hsum256 A (l.map h) = h (hsum256 B l) := by
  rcases l with _ | ⟨a0, _ | ⟨a1, _ | ⟨a2, _ | ⟨a3, _ | ⟨a4, _ | ⟨a5, _ | ⟨a6, _ | ⟨a7, _ | ⟨a8, t⟩⟩⟩⟩⟩⟩⟩⟩⟩ <;>
    simp [hsum256, hsum128, hh.add, hh.zero]

theorem scalar_map {B : Arith β} {A : Arith α} (h : β → α) (hh : ArithHom h B A)
    (tm : β → β → β) (tm' : α → α → α) (htm : ∀ a b, h (tm a b) = tm' (h a) (h b)) (x y : List β) :
    (List.zipWith tm' (x.map h) (y.map h)).foldl A.add A.sumInit
      = h ((List.zipWith tm x y).foldl B.add B.sumInit) := by
  have key : ∀ (x y : List β) (r : β),
      (List.zipWith tm' (x.map h) (y.map h)).foldl A.add (h r) = h ((List.zipWith tm x y).foldl B.add r) := by
    intro x
    induction x with
    | nil => intro y r; simp
    | cons a x ih =>
      intro y r
      cases y with
      | nil => simp
      | cons b y =>
        simp only [List.map_cons, List.zipWith_cons_cons, List.foldl_cons]
        rw [← htm, ← hh.add, ih]
  rw [← hh.sumInit]
  exact key x y _

theorem dotScalar_map {B : Arith β} {A : Arith α} (h : β → α) (hh : ArithHom h B A) (x y : List β) :
    dotScalar A (x.map h) (y.map h) = h (dotScalar B x y) :=
  scalar_map h hh B.mul A.mul hh.mul x y

theorem euclidScalar_map {B : Arith β} {A : Arith α} (h : β → α) (hh : ArithHom h B A) (x y : List β) :
    euclidScalar A (x.map h) (y.map h) = h (euclidScalar B x y) :=
  scalar_map h hh (fun a b => B.mul (B.sub a b) (B.sub a b)) (fun a b => A.mul (A.sub a b) (A.sub a b))
    (fun a b => by simp only [hh.mul, hh.sub]) x y

theorem manhattanWith_map {B : Arith β} {A : Arith α} (h : β → α) (hh : ArithHom h B A)
    (absB : β → β) (absA : α → α) (ha : ∀ t, h (absB t) = absA (h t)) (x y : List β) :
    manhattanWith A absA (x.map h) (y.map h) = h (manhattanWith B absB x y) :=
  scalar_map h hh (fun a b => absB (B.sub a b)) (fun a b => absA (A.sub a b))
    (fun a b => by simp only [ha, hh.sub]) x y

theorem dotSse_map {B : Arith β} {A : Arith α} (h : β → α) (hh : ArithHom h B A) (x y : List β) :
    dotSse A (x.map h) (y.map h) = h (dotSse B x y) :=
  simd_map h hh 4 _ _ (fun a b c => by simp only [hh.add, hh.mul]) _ _ (hsum128_map h hh) _ _
    (fun r a b => by simp only [hh.add, hh.mul]) x y

theorem euclidSse_map {B : Arith β} {A : Arith α} (h : β → α) (hh : ArithHom h B A) (x y : List β) :
    euclidSse A (x.map h) (y.map h) = h (euclidSse B x y) :=
  simd_map h hh 4 _ _ (fun a b c => by simp only [hh.add, hh.mul, hh.sub]) _ _ (hsum128_map h hh) _ _
    (fun r a b => by simp only [hh.add, hh.mul, hh.sub]) x y

theorem dotAvx_map {B : Arith β} {A : Arith α} (h : β → α) (hh : ArithHom h B A) (x y : List β) :
    dotAvx A (x.map h) (y.map h) = h (dotAvx B x y) :=
  simd_map h hh 8 _ _ (fun a b c => by simp only [hh.fma]) _ _ (hsum256_map h hh) _ _
    (fun r a b => by simp only [hh.add, hh.mul]) x y

theorem euclidAvx_map {B : Arith β} {A : Arith α} (h : β → α) (hh : ArithHom h B A) (x y : List β) :
    euclidAvx A (x.map h) (y.map h) = h (euclidAvx B x y) :=
  simd_map h hh 8 _ _ (fun a b c => by simp only [hh.fma, hh.sub]) _ _ (hsum256_map h hh) _ _
    (fun r a b => by simp only [hh.add, hh.mul, hh.sub]) x y

end Kernel
end Arroy
