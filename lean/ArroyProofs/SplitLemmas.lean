import ArroyModel.Tree
import ArroyProofs.SetLemmasIns
/-! `randomSplit` / `sideSplit` partition their input into two sublists; `sideSplit` sends every
item with a decisive margin to the side of its margin. -/
namespace Arroy
open IdSet

theorem randomSplit_spec {xs : List Nat} {rs : List Bool} {l r : List Nat} {rs' : List Bool}
    (h : randomSplit xs rs = some (l, r, rs')) :
    (l ++ r).Perm xs ∧ l.Sublist xs ∧ r.Sublist xs := by
  induction xs generalizing rs l r rs' with
  | nil =>
    simp only [randomSplit, Option.some.injEq, Prod.mk.injEq] at h
    obtain ⟨rfl, rfl, _⟩ := h
    simp
  | cons x xs ih =>
    cases rs with
    | nil => simp [randomSplit] at h
    | cons b rs =>
      simp only [randomSplit] at h
      split at h
      · rename_i l0 r0 rs0 h0
        obtain ⟨p, sl, sr⟩ := ih h0
        split at h
        · simp only [Option.some.injEq, Prod.mk.injEq] at h
          obtain ⟨rfl, rfl, _⟩ := h
          exact ⟨by simpa using p, sl.cons_cons x, sr.cons x⟩
        · simp only [Option.some.injEq, Prod.mk.injEq] at h
          obtain ⟨rfl, rfl, _⟩ := h
          refine ⟨?_, sl.cons x, sr.cons_cons x⟩
          exact List.perm_middle.trans (List.Perm.cons x p)
      · cases h

theorem sideSplit_spec {cx : TreeCtx} {n : List Nat} {xs : List Nat} {rs : List Bool}
    {l r : List Nat} {rs' : List Bool} (h : sideSplit cx n xs rs = .ok (l, r, rs')) :
    (l ++ r).Perm xs ∧ l.Sublist xs ∧ r.Sublist xs ∧
    (∀ x ∈ l, cx.side n x ≠ some (some true)) ∧ (∀ x ∈ r, cx.side n x ≠ some (some false)) := by
  induction xs generalizing rs l r rs' with
  | nil =>
    simp only [sideSplit, Except.ok.injEq, Prod.mk.injEq] at h
    obtain ⟨rfl, rfl, _⟩ := h
    simp
  | cons x xs ih =>
    simp only [sideSplit] at h
    split at h
    · cases h
    · rename_i right hside
      split at h
      · rename_i l0 r0 rs0 h0
        obtain ⟨p, sl, sr, dl, dr⟩ := ih h0
        split at h
        · rename_i hr
          subst hr
          simp only [Except.ok.injEq, Prod.mk.injEq] at h
          obtain ⟨rfl, rfl, _⟩ := h
          refine ⟨List.perm_middle.trans (List.Perm.cons x p), sl.cons x, sr.cons_cons x, dl, ?_⟩
          intro y hy
          rcases List.mem_cons.1 hy with rfl | hy
          · rw [hside]; simp
          · exact dr y hy
        · rename_i hr
          have hr' : right = false := by simpa using hr
          subst hr'
          simp only [Except.ok.injEq, Prod.mk.injEq] at h
          obtain ⟨rfl, rfl, _⟩ := h
          refine ⟨by simpa using p, sl.cons_cons x, sr.cons x, ?_, dr⟩
          intro y hy
          rcases List.mem_cons.1 hy with rfl | hy
          · rw [hside]; simp
          · exact dl y hy
      · cases h
    · rename_i hside
      split at h
      · cases h
      · rename_i b rs1
        split at h
        · rename_i l0 r0 rs0 h0
          obtain ⟨p, sl, sr, dl, dr⟩ := ih h0
          split at h
          · simp only [Except.ok.injEq, Prod.mk.injEq] at h
            obtain ⟨rfl, rfl, _⟩ := h
            refine ⟨by simpa using p, sl.cons_cons x, sr.cons x, ?_, dr⟩
            intro y hy
            rcases List.mem_cons.1 hy with rfl | hy
            · rw [hside]; simp
            · exact dl y hy
          · simp only [Except.ok.injEq, Prod.mk.injEq] at h
            obtain ⟨rfl, rfl, _⟩ := h
            refine ⟨List.perm_middle.trans (List.Perm.cons x p), sl.cons x, sr.cons_cons x, dl, ?_⟩
            intro y hy
            rcases List.mem_cons.1 hy with rfl | hy
            · rw [hside]; simp
            · exact dr y hy
        · cases h

/-- the split step of `insert_items_in_file` on a split node with normal `n` -/
def Split (cx : TreeCtx) (n : List Nat) (ins : List Nat) (rs : List Bool)
    (left right : List Nat) (rs1 : List Bool) : Prop :=
  if cx.isZero n then randomSplit ins rs = some (left, right, rs1)
  else sideSplit cx n ins rs = .ok (left, right, rs1)

/-- what a partition into two sublists gives -/
structure Partition (ins left right : List Nat) : Prop where
  perm : (left ++ right).Perm ins
  subl : left.Sublist ins
  subr : right.Sublist ins

theorem Partition.mem {ins left right : List Nat} (p : Partition ins left right) (x : Nat) :
    x ∈ ins ↔ x ∈ left ∨ x ∈ right := by
  rw [← p.perm.mem_iff, List.mem_append]

theorem Partition.sortedl {ins left right : List Nat} (p : Partition ins left right) (h : Sorted ins) :
    Sorted left := h.sublist p.subl

theorem Partition.sortedr {ins left right : List Nat} (p : Partition ins left right) (h : Sorted ins) :
    Sorted right := h.sublist p.subr

theorem Partition.disjoint {ins left right : List Nat} (p : Partition ins left right) (h : ins.Nodup) :
    ∀ x ∈ left, x ∉ right := by
  have := (p.perm.nodup_iff).2 h
  rw [List.nodup_append] at this
  intro x hl hr
  exact this.2.2 x hl x hr rfl

theorem Partition.length {ins left right : List Nat} (p : Partition ins left right) :
    left.length + right.length = ins.length := by
  rw [← p.perm.length_eq, List.length_append]

/-- `split_partition`: both ways of splitting partition the input: `left ++ right` is a permutation
    of it and both parts are sublists (hence Sorted when the input is) -/
theorem split_partition {cx : TreeCtx} {n ins : List Nat} {rs : List Bool} {left right : List Nat}
    {rs1 : List Bool} (h : Split cx n ins rs left right rs1) : Partition ins left right := by
  unfold Split at h
  split at h
  · obtain ⟨a, b, c⟩ := randomSplit_spec h; exact ⟨a, b, c⟩
  · obtain ⟨a, b, c, _⟩ := sideSplit_spec h; exact ⟨a, b, c⟩

theorem split_routed {cx : TreeCtx} {n ins : List Nat} {rs : List Bool} {left right : List Nat}
    {rs1 : List Bool} (h : Split cx n ins rs left right rs1) (hz : cx.isZero n = false) :
    (∀ x ∈ left, cx.side n x ≠ some (some true)) ∧ (∀ x ∈ right, cx.side n x ≠ some (some false)) := by
  unfold Split at h
  rw [if_neg (by simp [hz])] at h
  obtain ⟨_, _, _, d⟩ := sideSplit_spec h; exact d

end Arroy
