import ArroyProofs.ForestUnique
/-! What an operation other than a build of index `c` does to index `c`: the forest and the metadata
stay, and every item whose presence or vector changes gets an updated mark. -/
namespace Arroy
open Generated IdSet Transp

structure Mutates (c : Cfg) (s s' : Store) : Prop where
  tree : ∀ i, Store.get s' (c.treeKey i) = Store.get s (c.treeKey i)
  meta_eq : Store.get s' c.metaKey = Store.get s c.metaKey
  marks : ∀ id, (Store.get s' (c.updatedKey id)).isNone → (Store.get s (c.updatedKey id)).isNone ∧
    Store.get s' (c.itemKey id) = Store.get s (c.itemKey id)

theorem Mutates.refl (c : Cfg) (s : Store) : Mutates c s s := ⟨fun _ => rfl, rfl, fun _ h => ⟨h, rfl⟩⟩

/-- the store agrees on every key of index `c` -/
theorem Mutates.of_same {c : Cfg} {s s' : Store} (h : ∀ k : Key, k.index = c.index → Store.get s' k = Store.get s k) :
    Mutates c s s' :=
  ⟨fun _ => h _ rfl, h _ rfl, fun id hn => ⟨by rw [h _ rfl] at hn; exact hn, h _ rfl⟩⟩

theorem Mutates.add {c c' : Cfg} {s s' : Store} {id : Nat} {vec : List Nat}
    (h : Writer.addItem c' s id vec = .ok s') : Mutates c s s' := by
  have hg := Writer.get_addItem h
  refine ⟨?_, ?_, ?_⟩
  · intro i
    rw [hg, if_neg (c.treeKey_ne_updatedKey c' i id), if_neg (c.treeKey_ne_itemKey2 c' i id)]
  · rw [hg, if_neg (Cfg.metaKey_ne_updatedKey c' c id), if_neg (Cfg.metaKey_ne_itemKey c' c id)]
  · intro id' hnone
    rw [hg] at hnone
    by_cases he : c.updatedKey id' = c'.updatedKey id
    · rw [if_pos he] at hnone; simp at hnone
    · have h1 : c.updatedKey id' ≠ c'.itemKey id := fun e => Cfg.itemKey_ne_updatedKey c c' id' id e.symm
      have h2 : c.itemKey id' ≠ c'.updatedKey id := Cfg.itemKey_ne_updatedKey c' c id id'
      have h3 : c.itemKey id' ≠ c'.itemKey id := by
        intro e
        apply he
        rw [Cfg.itemKey_eq_iff] at e
        exact (Cfg.updatedKey_eq_iff c' c id id').2 e
      rw [if_neg he, if_neg h1] at hnone
      rw [hg (c.itemKey id'), if_neg h2, if_neg h3]
      exact ⟨hnone, rfl⟩

theorem Mutates.del (c c' : Cfg) (s : Store) (id : Nat) : Mutates c s (Writer.delItem c' s id).1 := by
  have hg := Writer.get_delItem c' s id
  refine ⟨?_, ?_, ?_⟩
  · intro i
    rw [hg, if_neg (fun e => c.treeKey_ne_updatedKey c' i id e.1), if_neg (c.treeKey_ne_itemKey2 c' i id)]
  · rw [hg, if_neg (fun e => Cfg.metaKey_ne_updatedKey c' c id e.1), if_neg (Cfg.metaKey_ne_itemKey c' c id)]
  · intro id' hnone
    rw [hg] at hnone
    have h1 : c.updatedKey id' ≠ c'.itemKey id := fun e => Cfg.itemKey_ne_updatedKey c c' id' id e.symm
    have h2 : c.itemKey id' ≠ c'.updatedKey id := Cfg.itemKey_ne_updatedKey c' c id id'
    by_cases hp : (Store.get s (c'.itemKey id)).isSome = true
    · by_cases he : c.updatedKey id' = c'.updatedKey id
      · rw [if_pos ⟨he, hp⟩] at hnone; simp at hnone
      · have h3 : c.itemKey id' ≠ c'.itemKey id := by
          intro e
          apply he
          rw [Cfg.itemKey_eq_iff] at e
          exact (Cfg.updatedKey_eq_iff c' c id id').2 e
        rw [if_neg (fun e => he e.1), if_neg h1] at hnone
        rw [hg (c.itemKey id'), if_neg (fun e => h2 e.1), if_neg h3]
        exact ⟨hnone, rfl⟩
    · rw [if_neg (fun e => hp e.2), if_neg h1] at hnone
      refine ⟨hnone, ?_⟩
      rw [hg (c.itemKey id'), if_neg (fun e => h2 e.1)]
      by_cases h3 : c.itemKey id' = c'.itemKey id
      · rw [if_pos h3, h3]
        simp only [Bool.not_eq_true, Option.isSome_eq_false_iff, Option.isNone_iff_eq_none] at hp
        rw [hp]
      · rw [if_neg h3]

theorem Mutates.clear_other {c c' : Cfg} {s : Store} (hw : Store.WF s) (hi' : c'.index < 65536)
    (hne : c.index ≠ c'.index) : Mutates c s (Writer.clear c' s) :=
  Mutates.of_same (fun k hk => get_clear_other' c' s hw hi' k (by rw [hk]; exact hne))

theorem Mutates.build_other {c c' : Cfg} {o : BuildOpts} {s s' : Store} {roots0 roots' : List Nat} {ts0 ts' : List T}
    (b : BuildOut c' o s s' roots0 ts0 roots' ts') (hne : c.index ≠ c'.index) : Mutates c s s' :=
  Mutates.of_same (fun k hk => b.other k (by rw [hk]; exact hne))

theorem Old.mutate {c : Cfg} {s s' : Store} {roots items : List Nat} {ts : List T} (old : Old c s roots items ts)
    (m : Mutates c s s') : Old c s' roots items ts := by
  refine ⟨old.forest.frame m.tree, by rw [rootsOf_congr m.meta_eq, old.roots_eq], ?_⟩
  intro id hnone
  obtain ⟨h1, h2⟩ := m.marks id hnone
  rw [old.marks id h1, h2]

/-- the trees of index `c` are untouched -/
theorem Check.trees_mutate {c : Cfg} {s s' : Store} (hinv : IndexInvW c s) (hi : c.index < 65536)
    (m : Mutates c s s') : Check.trees c s' = Check.trees c s := by
  obtain ⟨roots, items, ts, old⟩ := Old.of_inv hinv hi
  rw [Check.trees_of_old old, Check.trees_of_old (old.mutate m)]

/-- the trees of an index only depend on its number -/
theorem Check.trees_congr_index {c c' : Cfg} (h : c'.index = c.index) (s : Store) :
    Check.trees c' s = Check.trees c s := by
  have hm : c'.metaKey = c.metaKey := by simp [Cfg.metaKey, h]
  have hr : ∀ fuel ref, reify c' s fuel ref = reify c s fuel ref := by
    intro fuel
    induction fuel with
    | zero => intro ref; rfl
    | succ f ih =>
      intro ref
      have hk : c'.treeKey ref.item = c.treeKey ref.item := by simp [Cfg.treeKey, h]
      simp only [reify, hk, ih]
  simp only [Check.trees, hm, hr]

end Arroy
