import ArroyProofs.Resplit
import ArroyProofs.BuildPrefix
/-! The shortcut of `build` for an index that fits in one bucket
(`clear_db_and_create_a_single_leaf`). -/
namespace Arroy
open BuildM Generated IdSet

theorem Store.get_filter_of_none (s : Store) (p : Key × Val → Bool) (k : Key) (h : Store.get s k = none) :
    Store.get (s.filter p) k = none := by
  rw [Store.get_eq_none_iff] at h ⊢
  intro v hv
  exact h v (List.mem_filter.1 hv).1

theorem Store.get_none_of_not_wf {s : Store} (hw : Store.WF s) {k : Key} (hk : ¬ k.wf) : Store.get s k = none := by
  rw [Store.get_eq_none_iff]
  intro v hv
  exact hk (hw _ hv)

/-- `delete_range` over all tree keys of the index -/
theorem get_deleteRange_tree (c : Cfg) (s : Store) (hw : Store.WF s) (hi : c.index < 65536) (k : Key) :
    Store.get (s.deleteRange (c.treeKey 0) (c.treeKey IdGen.u32Max)) k =
      if k.index = c.index ∧ k.mode = modeTree then none else Store.get s k := by
  by_cases hk : k.wf
  · rw [Store.get_deleteRange s _ _ k (c.treeKey_wf 0 hi (by decide)) (c.treeKey_wf _ hi (by decide)) hk]
    have hiff : ((c.treeKey 0).le k && k.le (c.treeKey IdGen.u32Max)) = true ↔
        (k.index = c.index ∧ k.mode = modeTree) := by
      obtain ⟨ki, km, kt⟩ := k
      simp only [Key.wf] at hk
      simp only [Bool.and_eq_true, Key.le_iff, Key.lt_iff, Cfg.treeKey, Key.mkTree, modeTree, IdGen.u32Max,
        Key.mk.injEq]
      omega
    by_cases hex : k.index = c.index ∧ k.mode = modeTree
    · rw [if_pos (hiff.2 hex), if_pos hex]
    · rw [if_neg (fun h => hex (hiff.1 h)), if_neg hex]
  · have h1 := Store.get_none_of_not_wf hw hk
    unfold Store.deleteRange
    rw [Store.get_filter_of_none _ _ _ h1, h1]
    split <;> rfl

theorem get_deleteRange_treeKey (c : Cfg) (s : Store) (hw : Store.WF s) (hi : c.index < 65536) (id : Nat) :
    Store.get (s.deleteRange (c.treeKey 0) (c.treeKey IdGen.u32Max)) (c.treeKey id) = none := by
  rw [get_deleteRange_tree c s hw hi, if_pos ⟨rfl, rfl⟩]

theorem get_deleteRange_other (c : Cfg) (s : Store) (hw : Store.WF s) (hi : c.index < 65536) (k : Key)
    (hk : ∀ i, k ≠ c.treeKey i) :
    Store.get (s.deleteRange (c.treeKey 0) (c.treeKey IdGen.u32Max)) k = Store.get s k := by
  rw [get_deleteRange_tree c s hw hi, if_neg]
  rintro ⟨h1, h2⟩
  exact hk k.item (Key.eq_of_fields h1 h2 rfl)

theorem singleLeaf_eq (c : Cfg) (items : List Nat) : Build.singleLeaf c items =
    (modifyStore (fun st => st.deleteRange (c.treeKey 0) (c.treeKey IdGen.u32Max)) >>= fun _ =>
      (if !items.isEmpty then modifyStore (fun st => st.put (c.treeKey 0) (.desc items)) else pure ()) >>= fun _ =>
      poll >>= fun _ =>
      Build.writeMetadata c items (if items.isEmpty then [] else [0]) >>= fun _ =>
      modifyStore (fun st => st.put c.versionKey (.version crateVersion.1 crateVersion.2.1 crateVersion.2.2))) := by
  unfold Build.singleLeaf
  cases items.isEmpty <;> rfl

theorem Cfg.versionKey_wf (c : Cfg) (hi : c.index < 65536) : c.versionKey.wf := by
  simp only [Cfg.versionKey, Key.mkVersion, Key.wf, versionKeyMode, versionKeyItem, modeMetadata]
  omega

theorem Cfg.versionKey_mode (c : Cfg) : c.versionKey.mode ≠ modeItem := by
  simp [Cfg.versionKey, Key.mkVersion, versionKeyMode, modeMetadata, modeItem]

theorem Cfg.versionKey_ne_metaKey (c : Cfg) : c.versionKey ≠ c.metaKey := by
  intro e
  have := congrArg Key.item e
  simp [Cfg.versionKey, Cfg.metaKey, Key.mkVersion, Key.mkMetadata, versionKeyItem, metadataKeyItem] at this

theorem Cfg.versionKey_ne_itemKey (c : Cfg) (id : Nat) : c.versionKey ≠ c.itemKey id := by
  intro e
  have := congrArg Key.mode e
  simp [Cfg.versionKey, Cfg.itemKey, Key.mkVersion, Key.mkItem, versionKeyMode, modeMetadata, modeItem] at this

theorem Cfg.versionKey_ne_updatedKey (c : Cfg) (id : Nat) : c.versionKey ≠ c.updatedKey id := by
  intro e
  have := congrArg Key.mode e
  simp [Cfg.versionKey, Cfg.updatedKey, Key.mkVersion, Key.mkUpdated, versionKeyMode, modeMetadata, modeUpdated] at this

theorem writeMetadata_ok {c : Cfg} {items roots : List Nat} {st st' : BState} {u : Unit}
    (h : Build.writeMetadata c items roots st = .ok (u, st')) :
    st'.store = st.store.put c.metaKey (.metadata c.metric.nameBytes c.dims items roots) := by
  unfold Build.writeMetadata at h
  rw [← modifyStore_ok' h]

/-- what the shortcut leaves in the store -/
theorem singleLeaf_spec (c : Cfg) (items : List Nat) {st st' : BState} (hw : Store.WF st.store)
    (hi : c.index < 65536) (hs : Sorted items)
    (h : Build.singleLeaf c items st = .ok ((), st')) :
    StoreStep c st.store st'.store ∧
    Store.get st'.store c.metaKey =
      some (.metadata c.metric.nameBytes c.dims items (if items.isEmpty then [] else [0])) ∧
    (∀ k, (∀ i, k ≠ c.treeKey i) → k ≠ c.metaKey → k ≠ c.versionKey → Store.get st'.store k = Store.get st.store k) ∧
    Forest c st'.store (if items.isEmpty then [] else [0]) items (if items.isEmpty then [] else [.bucket 0 items]) := by
  rw [singleLeaf_eq] at h
  obtain ⟨u1, st1, h1, k1⟩ := bind_ok_inv h
  clear h
  have e1 := modifyStore_ok' h1
  obtain ⟨u2, st2, h2, k2⟩ := bind_ok_inv k1
  clear k1
  obtain ⟨u3, st3, h3, k3⟩ := bind_ok_inv k2
  clear k2
  have e3 := poll_store' h3
  obtain ⟨u4, st4, h4, k4⟩ := bind_ok_inv k3
  clear k3
  have e4 := writeMetadata_ok h4
  have e5 := modifyStore_ok' k4
  subst e1
  -- the store after the optional put of the single bucket
  have hst2 : st2.store = if items.isEmpty then st.store.deleteRange (c.treeKey 0) (c.treeKey IdGen.u32Max)
      else (st.store.deleteRange (c.treeKey 0) (c.treeKey IdGen.u32Max)).put (c.treeKey 0) (.desc items) := by
    split at h2
    · rename_i hne
      have := modifyStore_ok' h2
      rw [← this]
      simp only [Bool.not_eq_eq_eq_not, Bool.not_true] at hne
      simp [hne]
    · rename_i hne
      obtain ⟨_, e⟩ := pure_ok' h2
      rw [← e]
      simp only [Bool.not_eq_eq_eq_not, Bool.not_true, Bool.not_eq_false] at hne
      simp [hne]
  have hfinal : st'.store = (st2.store.put c.metaKey (.metadata c.metric.nameBytes c.dims items
      (if items.isEmpty then [] else [0]))).put c.versionKey
        (.version crateVersion.1 crateVersion.2.1 crateVersion.2.2) := by
    rw [← e5, e4, e3]
  have hstep2 : StoreStep c st.store st2.store := by
    rw [hst2]
    split
    · exact (StoreStep.refl _).deleteRange _ _
    · exact ((StoreStep.refl _).deleteRange _ _).put_tree _ _ (c.treeKey_wf 0 hi (by decide)) (c.treeKey_mode 0)
  have htree : ∀ id, Store.get st'.store (c.treeKey id) =
      if items.isEmpty = false ∧ id = 0 then some (.desc items) else none := by
    intro id
    rw [hfinal, Store.get_put_other _ _ _ _ (Ne.symm (c.versionKey_ne_treeKey id)),
      Store.get_put_other _ _ _ _ (Ne.symm (c.metaKey_ne_treeKey id)), hst2]
    cases hemp : items.isEmpty
    · simp only [Bool.false_eq_true, ↓reduceIte, true_and]
      rw [Store.get_put]
      by_cases hid : id = 0
      · subst hid; simp
      · have : c.treeKey id ≠ c.treeKey 0 := fun e => hid (Cfg.treeKey_inj.1 e)
        simp only [this, ↓reduceIte, hid]
        rw [get_deleteRange_treeKey c _ hw hi]
    · simp only [↓reduceIte, Bool.true_eq_false, false_and]
      rw [get_deleteRange_treeKey c _ hw hi]
  refine ⟨?_, ?_, ?_, ?_⟩
  · rw [hfinal]
    exact ((hstep2.put_tree _ _ (c.metaKey_wf hi) c.metaKey_mode).put_tree _ _ (c.versionKey_wf hi) c.versionKey_mode)
  · rw [hfinal, Store.get_put_other _ _ _ _ (Ne.symm c.versionKey_ne_metaKey), Store.get_put_same]
  · intro k hk1 hk2 hk3
    rw [hfinal, Store.get_put_other _ _ _ _ hk3, Store.get_put_other _ _ _ _ hk2, hst2]
    split
    · rw [get_deleteRange_other c _ hw hi _ hk1]
    · rw [Store.get_put_other _ _ _ _ (hk1 0), get_deleteRange_other c _ hw hi _ hk1]
  · cases hemp : items.isEmpty
    · simp only [Bool.false_eq_true, ↓reduceIte]
      have htree' : ∀ id, Store.get st'.store (c.treeKey id) = if id = 0 then some (.desc items) else none := by
        intro id; rw [htree id, hemp]; simp
      refine ⟨rfl, ?_, by simp [T.ids], ?_, ?_, ?_, ?_⟩
      · intro t ht
        simp only [List.mem_singleton] at ht
        subst ht
        intro cell hc
        simp only [T.cells, List.mem_singleton] at hc
        subst hc
        rw [htree' 0]; rfl
      · intro id
        rw [htree' id]
        by_cases hid : id = 0 <;> simp [hid, T.ids]
      · intro t ht
        simp only [List.mem_singleton] at ht
        subst ht
        exact hs
      · intro t ht
        simp only [List.mem_singleton] at ht
        subst ht
        exact hs.nodup
      · intro t ht x
        simp only [List.mem_singleton] at ht
        subst ht
        rfl
    · simp only [↓reduceIte]
      apply Forest.nil
      intro id
      rw [htree id, hemp]
      simp

end Arroy
