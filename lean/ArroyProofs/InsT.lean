import ArroyProofs.SplitLemmas
import ArroyProofs.FreshGen
import ArroyProofs.StagedIns
/-! Specification of `insertT` (the tree-level mirror of `insert_items_in_file`). -/
namespace Arroy
open IdSet

/-- every bucket is a strictly increasing list -/
def WF : T → Prop
  | .leaf _ => True
  | .bucket _ s => Sorted s
  | .node _ _ l r => WF l ∧ WF r

/-- C04, first sentence, on one tree: below every non-degenerate plane no item with a decisive
    margin is on the wrong side -/
def RoutedT (cx : TreeCtx) : T → Prop
  | .leaf _ => True
  | .bucket _ _ => True
  | .node _ n l r =>
    (cx.isZero n = false →
      (∀ x ∈ l.items, cx.side n x ≠ some (some true)) ∧ (∀ x ∈ r.items, cx.side n x ≠ some (some false))) ∧
    RoutedT cx l ∧ RoutedT cx r

instance decWF : (t : T) → Decidable (WF t)
  | .leaf _ => isTrue trivial
  | .bucket _ s => inferInstanceAs (Decidable (Sorted s))
  | .node _ _ l r =>
    have := decWF l
    have := decWF r
    inferInstanceAs (Decidable (WF l ∧ WF r))

instance decRoutedT (cx : TreeCtx) : (t : T) → Decidable (RoutedT cx t)
  | .leaf _ => isTrue trivial
  | .bucket _ _ => isTrue trivial
  | .node _ n l r =>
    have := decRoutedT cx l
    have := decRoutedT cx r
    inferInstanceAs (Decidable ((cx.isZero n = false →
      (∀ x ∈ l.items, cx.side n x ≠ some (some true)) ∧ (∀ x ∈ r.items, cx.side n x ≠ some (some false))) ∧
      RoutedT cx l ∧ RoutedT cx r))

/-! ## inversion of the three equations -/

theorem insertT_leaf_ok {cx : TreeCtx} {i : Nat} {ins : List Nat} {g : IdGen} {rs : List Bool} {res : InsRes}
    (h : insertT cx (.leaf i) ins g rs = .ok res) :
    ((union [i] ins).length > 1 ∧ ∃ id g', g.next = .ok (id, g') ∧
        res = ⟨.bucket id (union [i] ins), [(id, .desc (union [i] ins))],
                if fits cx.cap (union [i] ins).length then [] else [id], g', rs, 1⟩) ∨
    (¬ (union [i] ins).length > 1 ∧ res = ⟨.leaf i, [], [], g, rs, 1⟩) := by
  simp only [insertT] at h
  split at h
  · rename_i hlen
    left
    refine ⟨hlen, ?_⟩
    split at h
    · cases h
    · rename_i id g' hn
      cases h
      exact ⟨id, g', hn, rfl⟩
  · rename_i hlen
    right
    cases h
    exact ⟨hlen, rfl⟩

theorem insertT_bucket_ok {cx : TreeCtx} {id : Nat} {s ins : List Nat} {g : IdGen} {rs : List Bool} {res : InsRes}
    (h : insertT cx (.bucket id s) ins g rs = .ok res) :
    (s.length ≠ (union s ins).length ∧
      res = ⟨.bucket id (union s ins), [(id, .desc (union s ins))],
              if fits cx.cap (union s ins).length then [] else [id], g, rs, 1⟩) ∨
    (s.length = (union s ins).length ∧
      res = ⟨.bucket id s, [], if fits cx.cap (union s ins).length then [] else [id], g, rs, 1⟩) := by
  simp only [insertT] at h
  split at h
  · rename_i hne
    cases h
    exact Or.inl ⟨by simpa using hne, rfl⟩
  · rename_i hne
    cases h
    exact Or.inr ⟨by simpa using hne, rfl⟩

theorem insertT_node_ok {cx : TreeCtx} {id : Nat} {n : List Nat} {l r : T} {ins : List Nat} {g : IdGen}
    {rs : List Bool} {res : InsRes} (h : insertT cx (.node id n l r) ins g rs = .ok res) :
    ∃ left right rs1 a b, Split cx n ins rs left right rs1 ∧
      insertT cx l left g rs1 = .ok a ∧ insertT cx r right a.gen a.rands = .ok b ∧
      res = ⟨.node id n a.tree b.tree,
        a.puts ++ b.puts ++
          (if a.tree.ref ≠ l.ref ∨ b.tree.ref ≠ r.ref then [(id, .split a.tree.ref b.tree.ref n)] else []),
        union a.large b.large, b.gen, b.rands, 1 + a.polls + b.polls⟩ := by
  simp only [insertT] at h
  split at h
  · cases h
  · rename_i left right rs1 hparts
    split at h
    · cases h
    · rename_i a ha
      split at h
      · cases h
      · rename_i b hb
        cases h
        refine ⟨left, right, rs1, a, b, ?_, ha, hb, rfl⟩
        unfold Split
        split
        · rename_i hz
          rw [if_pos hz] at hparts
          split at hparts
          · rename_i x hx
            cases hparts
            exact hx
          · cases hparts
        · rename_i hz
          rw [if_neg hz] at hparts
          exact hparts

/-! ## items -/

/-- `insertT_items`: the items of the result are those of `t` and those inserted; buckets stay
    Sorted; no duplicates appear if the inserted items are new. -/
theorem insertT_items (cx : TreeCtx) (t : T) (ins : List Nat) (g : IdGen) (rs : List Bool) (res : InsRes)
    (h : insertT cx t ins g rs = .ok res) :
    (∀ x, x ∈ res.tree.items ↔ x ∈ t.items ∨ x ∈ ins) ∧
    (WF t → Sorted ins → WF res.tree) ∧
    (WF t → Sorted ins → t.items.Nodup → (∀ x ∈ ins, x ∉ t.items) → res.tree.items.Nodup) := by
  induction t generalizing ins g rs res with
  | leaf i =>
    rcases insertT_leaf_ok h with ⟨_, id, g', _, rfl⟩ | ⟨hlen, rfl⟩
    · refine ⟨fun x => ?_, fun _ hs => ?_, fun _ hs _ _ => ?_⟩
      · simp only [T.items]; exact mem_union
      · exact sorted_union (sorted_singleton i) hs
      · exact (sorted_union (sorted_singleton i) hs).nodup
    · have hle := length_le_union [i] ins
      have hsub := subset_of_length_union_eq [i] ins (by simp only [List.length_cons, List.length_nil] at hle ⊢; omega)
      refine ⟨fun x => ?_, fun _ _ => trivial, fun _ _ hnd _ => hnd⟩
      simp only [T.items]
      constructor
      · exact Or.inl
      · rintro (hx | hx)
        · exact hx
        · exact hsub x hx
  | bucket id s =>
    rcases insertT_bucket_ok h with ⟨_, rfl⟩ | ⟨hlen, rfl⟩
    · refine ⟨fun x => ?_, fun hw hs => ?_, fun hw hs _ _ => ?_⟩
      · simp only [T.items]; exact mem_union
      · exact sorted_union hw hs
      · exact (sorted_union hw hs).nodup
    · have hsub := subset_of_length_union_eq s ins hlen.symm
      refine ⟨fun x => ?_, fun hw _ => hw, fun _ _ hnd _ => hnd⟩
      simp only [T.items]
      constructor
      · exact Or.inl
      · rintro (hx | hx)
        · exact hx
        · exact hsub x hx
  | node id n l r ihl ihr =>
    obtain ⟨left, right, rs1, a, b, hsp, ha, hb, rfl⟩ := insertT_node_ok h
    have P := split_partition hsp
    obtain ⟨La, Lw, Ln⟩ := ihl _ _ _ _ ha
    obtain ⟨Ra, Rw, Rn⟩ := ihr _ _ _ _ hb
    refine ⟨fun x => ?_, fun hw hs => ?_, fun hw hs hnd hdis => ?_⟩
    · simp only [T.items, List.mem_append, La, Ra, P.mem x]
      grind
    · exact ⟨Lw hw.1 (P.sortedl hs), Rw hw.2 (P.sortedr hs)⟩
    · simp only [T.items, List.nodup_append] at hnd ⊢
      obtain ⟨hl, hr, hd⟩ := hnd
      have hdl : ∀ x ∈ left, x ∉ l.items := fun x hx hm =>
        hdis x ((P.mem x).2 (Or.inl hx)) (by simp [T.items, hm])
      have hdr : ∀ x ∈ right, x ∉ r.items := fun x hx hm =>
        hdis x ((P.mem x).2 (Or.inr hx)) (by simp [T.items, hm])
      refine ⟨Ln hw.1 (P.sortedl hs) hl hdl, Rn hw.2 (P.sortedr hs) hr hdr, ?_⟩
      intro x hxa y hyb hxy
      subst hxy
      rcases (La x).1 hxa with h1 | h1 <;> rcases (Ra x).1 hyb with h2 | h2
      · exact hd x h1 x h2 rfl
      · exact hdis x ((P.mem x).2 (Or.inr h2)) (by simp [T.items, h1])
      · exact hdis x ((P.mem x).2 (Or.inl h1)) (by simp [T.items, h2])
      · exact P.disjoint hs.nodup x h1 h2

/-! ## ids -/

/-- `insertT_ids` -/
theorem insertT_ids (cx : TreeCtx) (t : T) (ins : List Nat) (g : IdGen) (rs : List Bool) (res : InsRes)
    (inUse : List Nat) (h : insertT cx t ins g rs = .ok res)
    (hnd : t.ids.Nodup) (hin : ∀ i ∈ t.ids, i ∈ inUse) (hg : FreshGen inUse g) :
    res.tree.ids.Nodup ∧
    (∀ i ∈ res.tree.ids, i ∈ t.ids ∨ i ∉ inUse) ∧
    (∀ i ∈ t.ids, i ∈ res.tree.ids) ∧
    (res.tree.ref = t.ref ∨ ∃ i id s, t = .leaf i ∧ res.tree = .bucket id s ∧ id ∉ inUse) ∧
    FreshGen (res.tree.ids ++ inUse) res.gen := by
  induction t generalizing ins g rs res inUse with
  | leaf i =>
    rcases insertT_leaf_ok h with ⟨_, id, g', hn, rfl⟩ | ⟨hlen, rfl⟩
    · obtain ⟨hf, hg'⟩ := hg.step hn
      refine ⟨by simp [T.ids], ?_, by simp [T.ids], Or.inr ⟨i, id, _, rfl, rfl, hf⟩, ?_⟩
      · intro j hj
        simp only [T.ids, List.mem_singleton] at hj
        subst hj
        exact Or.inr hf
      · simpa [T.ids] using hg'
    · exact ⟨by simp [T.ids], by simp [T.ids], by simp [T.ids], Or.inl rfl, by simpa [T.ids] using hg⟩
  | bucket id s =>
    have hid : id ∈ inUse := hin id (by simp [T.ids])
    have hg' : FreshGen ([id] ++ inUse) g := hg.mono (by
      intro i hi
      rcases List.mem_append.1 hi with hi | hi
      · simp only [List.mem_singleton] at hi; subst hi; exact hid
      · exact hi)
    rcases insertT_bucket_ok h with ⟨_, rfl⟩ | ⟨_, rfl⟩
    · exact ⟨by simp [T.ids], by simp [T.ids], by simp [T.ids], Or.inl rfl, hg'⟩
    · exact ⟨by simp [T.ids], by simp [T.ids], by simp [T.ids], Or.inl rfl, hg'⟩
  | node id n l r ihl ihr =>
    obtain ⟨left, right, rs1, a, b, hsp, ha, hb, rfl⟩ := insertT_node_ok h
    simp only [T.ids, List.nodup_cons, List.mem_append, List.nodup_append, not_or] at hnd
    obtain ⟨⟨hidl, hidr⟩, hl, hr, hdisj⟩ := hnd
    have hinl : ∀ i ∈ l.ids, i ∈ inUse := fun i hi => hin i (by simp [T.ids, hi])
    have hinr : ∀ i ∈ r.ids, i ∈ inUse := fun i hi => hin i (by simp [T.ids, hi])
    have hid : id ∈ inUse := hin id (by simp [T.ids])
    obtain ⟨L1, L2, L3, _, L5⟩ := ihl _ _ _ _ inUse ha hl hinl hg
    have hinr' : ∀ i ∈ r.ids, i ∈ a.tree.ids ++ inUse := fun i hi =>
      List.mem_append.2 (Or.inr (hinr i hi))
    obtain ⟨R1, R2, R3, _, R5⟩ := ihr _ _ _ _ (a.tree.ids ++ inUse) hb hr hinr' L5
    refine ⟨?_, ?_, ?_, Or.inl rfl, ?_⟩
    · simp only [T.ids, List.nodup_cons, List.mem_append, List.nodup_append, not_or]
      refine ⟨⟨?_, ?_⟩, L1, R1, ?_⟩
      · intro hm
        rcases L2 id hm with h1 | h1
        · exact hidl h1
        · exact h1 hid
      · intro hm
        rcases R2 id hm with h1 | h1
        · exact hidr h1
        · exact h1 (List.mem_append.2 (Or.inr hid))
      · intro x hxa y hyb hxy
        subst hxy
        rcases R2 x hyb with h2 | h2
        · rcases L2 x hxa with h1 | h1
          · exact hdisj x h1 x h2 rfl
          · exact h1 (hinr x h2)
        · exact h2 (List.mem_append.2 (Or.inl hxa))
    · intro i hi
      simp only [T.ids, List.mem_cons, List.mem_append] at hi ⊢
      rcases hi with rfl | hi | hi
      · exact Or.inl (Or.inl rfl)
      · rcases L2 i hi with h1 | h1
        · exact Or.inl (Or.inr (Or.inl h1))
        · exact Or.inr h1
      · rcases R2 i hi with h1 | h1
        · exact Or.inl (Or.inr (Or.inr h1))
        · exact Or.inr (fun hm => h1 (List.mem_append.2 (Or.inr hm)))
    · intro i hi
      simp only [T.ids, List.mem_cons, List.mem_append] at hi ⊢
      rcases hi with rfl | hi | hi
      · exact Or.inl rfl
      · exact Or.inr (Or.inl (L3 i hi))
      · exact Or.inr (Or.inr (R3 i hi))
    · refine R5.mono ?_
      intro i hi
      simp only [T.ids, List.mem_cons, List.mem_append] at hi ⊢
      rcases hi with (rfl | hi | hi) | hi
      · exact Or.inr (Or.inr hid)
      · exact Or.inr (Or.inl hi)
      · exact Or.inl hi
      · exact Or.inr (Or.inr hi)

/-! ## puts and adequacy -/

/-- `insertT_puts` (strong form): every put is a cell of the resulting tree -/
theorem insertT_puts_cells (cx : TreeCtx) (t : T) (ins : List Nat) (g : IdGen) (rs : List Bool) (res : InsRes)
    (h : insertT cx t ins g rs = .ok res) : ∀ p ∈ res.puts, p ∈ res.tree.cells := by
  induction t generalizing ins g rs res with
  | leaf i =>
    rcases insertT_leaf_ok h with ⟨_, id, g', _, rfl⟩ | ⟨_, rfl⟩ <;> simp [T.cells]
  | bucket id s =>
    rcases insertT_bucket_ok h with ⟨_, rfl⟩ | ⟨_, rfl⟩ <;> simp [T.cells]
  | node id n l r ihl ihr =>
    obtain ⟨left, right, rs1, a, b, _, ha, hb, rfl⟩ := insertT_node_ok h
    intro p hp
    simp only [T.cells, List.mem_cons, List.mem_append] at hp ⊢
    rcases hp with (hp | hp) | hp
    · exact Or.inr (Or.inl (ihl _ _ _ _ ha p hp))
    · exact Or.inr (Or.inr (ihr _ _ _ _ hb p hp))
    · split at hp
      · simp only [List.mem_singleton] at hp; exact Or.inl hp
      · cases hp

/-- `insertT_puts`: every put is at an id of the resulting tree -/
theorem insertT_puts (cx : TreeCtx) (t : T) (ins : List Nat) (g : IdGen) (rs : List Bool) (res : InsRes)
    (h : insertT cx t ins g rs = .ok res) : ∀ p ∈ res.puts, p.1 ∈ res.tree.ids :=
  fun p hp => mem_ids_of_mem_cells (insertT_puts_cells cx t ins g rs res h p hp)

/-- a cell of the result that is not put is a cell of the old tree, unchanged -/
theorem insertT_unput_cells (cx : TreeCtx) (t : T) (ins : List Nat) (g : IdGen) (rs : List Bool) (res : InsRes)
    (h : insertT cx t ins g rs = .ok res) :
    ∀ cell ∈ res.tree.cells, cell.1 ∉ res.puts.map (·.1) → cell ∈ t.cells := by
  induction t generalizing ins g rs res with
  | leaf i =>
    rcases insertT_leaf_ok h with ⟨_, id, g', _, rfl⟩ | ⟨_, rfl⟩ <;> simp [T.cells]
  | bucket id s =>
    rcases insertT_bucket_ok h with ⟨_, rfl⟩ | ⟨_, rfl⟩ <;> simp [T.cells]
  | node id n l r ihl ihr =>
    obtain ⟨left, right, rs1, a, b, _, ha, hb, rfl⟩ := insertT_node_ok h
    intro cell hc hnp
    simp only [List.map_append, List.mem_append, not_or] at hnp
    obtain ⟨⟨hnpa, hnpb⟩, hnpr⟩ := hnp
    simp only [T.cells, List.mem_cons, List.mem_append] at hc ⊢
    rcases hc with rfl | hc | hc
    · left
      split at hnpr
      · simp at hnpr
      · rename_i hne
        simp only [not_or, Decidable.not_not] at hne
        rw [hne.1, hne.2]
    · exact Or.inr (Or.inl (ihl _ _ _ _ ha cell hc hnpa))
    · exact Or.inr (Or.inr (ihr _ _ _ _ hb cell hc hnpb))

/-- `insertT_adequate`: the staged puts of `insertT` are adequate for its result. (No hypothesis
    on what `s` has at fresh ids is needed: every cell at a fresh id is put.) -/
theorem insertT_adequate (c : Cfg) (s : Store) (cx : TreeCtx) (t : T) (ins : List Nat) (g : IdGen)
    (rs : List Bool) (res : InsRes) (inUse : List Nat) (h : insertT cx t ins g rs = .ok res)
    (hh : Holds c s t) (hnd : t.ids.Nodup) (hin : ∀ i ∈ t.ids, i ∈ inUse) (hg : FreshGen inUse g) :
    Adequate c [] res.puts s res.tree := by
  refine adequate_of_cells (insertT_ids cx t ins g rs res inUse h hnd hin hg).1
    (insertT_puts_cells cx t ins g rs res h) ?_
  intro cell hc hnp
  exact hh cell (insertT_unput_cells cx t ins g rs res h cell hc hnp)

/-! ## large buckets, polls -/

theorem large_single (cap id : Nat) (s : List Nat) (n : Nat) (hn : n = s.length) :
    Sorted (if fits cap n then [] else [id]) ∧
    ∀ j, j ∈ (if fits cap n then [] else [id]) ↔ ∃ s', (j, s') ∈ [(id, s)] ∧ ¬ fits cap s'.length := by
  subst hn
  split <;> rename_i hf
  · refine ⟨sorted_nil, fun j => ?_⟩
    simp only [List.not_mem_nil, List.mem_singleton, Prod.mk.injEq, false_iff, not_exists, not_and]
    rintro s' ⟨_, rfl⟩ h; exact h hf
  · refine ⟨sorted_singleton _, fun j => ?_⟩
    simp only [List.mem_singleton, Prod.mk.injEq]
    exact ⟨fun e => ⟨s, ⟨e, rfl⟩, hf⟩, fun ⟨_, ⟨e, _⟩, _⟩ => e⟩

/-- `insertT_large`: the returned set is exactly the set of buckets of the result that do not fit -/
theorem insertT_large (cx : TreeCtx) (t : T) (ins : List Nat) (g : IdGen) (rs : List Bool) (res : InsRes)
    (h : insertT cx t ins g rs = .ok res) :
    Sorted res.large ∧
    ∀ id, id ∈ res.large ↔ ∃ s, (id, s) ∈ res.tree.buckets ∧ ¬ fits cx.cap s.length := by
  induction t generalizing ins g rs res with
  | leaf i =>
    rcases insertT_leaf_ok h with ⟨_, id, g', _, rfl⟩ | ⟨_, rfl⟩
    · exact large_single cx.cap id _ _ rfl
    · exact ⟨sorted_nil, by simp [T.buckets]⟩
  | bucket id s =>
    rcases insertT_bucket_ok h with ⟨_, rfl⟩ | ⟨hlen, rfl⟩
    · exact large_single cx.cap id _ _ rfl
    · exact large_single cx.cap id _ _ hlen.symm
  | node id n l r ihl ihr =>
    obtain ⟨left, right, rs1, a, b, _, ha, hb, rfl⟩ := insertT_node_ok h
    obtain ⟨L1, L2⟩ := ihl _ _ _ _ ha
    obtain ⟨R1, R2⟩ := ihr _ _ _ _ hb
    refine ⟨sorted_union L1 R1, fun j => ?_⟩
    simp only [mem_union, L2, R2, T.buckets, List.mem_append]
    constructor
    · rintro (⟨s, h1, h2⟩ | ⟨s, h1, h2⟩)
      · exact ⟨s, Or.inl h1, h2⟩
      · exact ⟨s, Or.inr h1, h2⟩
    · rintro ⟨s, h1 | h1, h2⟩
      · exact Or.inl ⟨s, h1, h2⟩
      · exact Or.inr ⟨s, h1, h2⟩

/-- `insertT_polls`: one poll per call, one call per node and per item child -/
theorem insertT_polls (cx : TreeCtx) (t : T) (ins : List Nat) (g : IdGen) (rs : List Bool) (res : InsRes)
    (h : insertT cx t ins g rs = .ok res) : res.polls = t.size := by
  induction t generalizing ins g rs res with
  | leaf i =>
    rcases insertT_leaf_ok h with ⟨_, id, g', _, rfl⟩ | ⟨_, rfl⟩ <;> rfl
  | bucket id s =>
    rcases insertT_bucket_ok h with ⟨_, rfl⟩ | ⟨_, rfl⟩ <;> rfl
  | node id n l r ihl ihr =>
    obtain ⟨left, right, rs1, a, b, _, ha, hb, rfl⟩ := insertT_node_ok h
    simp only [T.size, ihl _ _ _ _ ha, ihr _ _ _ _ hb]

/-! ## routing -/

/-- `insertT_routed`: inserting keeps every item with a decisive margin on the side of its margin -/
theorem insertT_routed (cx : TreeCtx) (t : T) (ins : List Nat) (g : IdGen) (rs : List Bool) (res : InsRes)
    (h : insertT cx t ins g rs = .ok res) (hr : RoutedT cx t) : RoutedT cx res.tree := by
  induction t generalizing ins g rs res with
  | leaf i =>
    rcases insertT_leaf_ok h with ⟨_, id, g', _, rfl⟩ | ⟨_, rfl⟩ <;> trivial
  | bucket id s =>
    rcases insertT_bucket_ok h with ⟨_, rfl⟩ | ⟨_, rfl⟩ <;> trivial
  | node id n l r ihl ihr =>
    obtain ⟨left, right, rs1, a, b, hsp, ha, hb, rfl⟩ := insertT_node_ok h
    obtain ⟨h0, hl, hr'⟩ := hr
    refine ⟨fun hz => ?_, ihl _ _ _ _ ha hl, ihr _ _ _ _ hb hr'⟩
    obtain ⟨o1, o2⟩ := h0 hz
    obtain ⟨s1, s2⟩ := split_routed hsp hz
    constructor
    · intro x hx
      rcases ((insertT_items cx l left g rs1 a ha).1 x).1 hx with hx | hx
      · exact o1 x hx
      · exact s1 x hx
    · intro x hx
      rcases ((insertT_items cx r right a.gen a.rands b hb).1 x).1 hx with hx | hx
      · exact o2 x hx
      · exact s2 x hx

/-! ## non-vacuity: a concrete run (`FreshGen` for concrete generators is `FreshGen_new`, proved elsewhere) -/
namespace InsTExample
def cx : TreeCtx :=
  { cap := 2
    side := fun n x =>
      if x = 9 then none else if n = [7] then (if x = 1 then some none else some (some (x % 2 == 0))) else some none
    isZero := fun n => n.all (· == 0) }
def t : T := .node 0 [7] (.bucket 1 [3, 5]) (.leaf 4)
def g : IdGen := { available := [], sel := 0, look := false, current := 2, used := 2 }

example : (insertT cx t [1, 2, 7] g [true]).toOption.map (fun r => (r.tree, r.puts, r.large, r.polls)) =
    some (.node 0 [7] (.bucket 1 [1, 3, 5, 7]) (.bucket 2 [2, 4]),
          [(1, .desc [1, 3, 5, 7]), (2, .desc [2, 4]), (0, .split (NodeId.mkTree 1) (NodeId.mkTree 2) [7])],
          [1], 3) := by
  decide +kernel

example : t.ids.Nodup ∧ WF t ∧ Sorted [1, 2, 7] ∧ t.items.Nodup ∧ (∀ x ∈ [1, 2, 7], x ∉ t.items) ∧ RoutedT cx t := by
  decide
end InsTExample

end Arroy
