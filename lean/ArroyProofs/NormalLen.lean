import ArroyProofs.BuildM
import ArroyProofs.StoreLaws
import ArroyProofs.SelfLookup
/-! The split normals of the trees of an index all have the length of the normals the oracle supplied.

`SplitLen c d s`: every value stored under a tree key of index `c` that is a split node has a normal of
`d` words. A build started on such a store with an oracle all of whose normals have `d` words ends on
such a store: the normals it writes are normals it read (`delT`, `insertT`), normals taken from the
oracle, or `List.replicate n.length 0` of such a normal (`makeT`). -/
namespace Arroy
open Generated BuildM

/-- a split value carries a normal of `d` words (anything else passes) -/
def Val.NLen (d : Nat) : Val → Prop
  | .split _ _ n => n.length = d
  | _ => True

@[simp] theorem Val.nlen_split (d : Nat) (l r : NodeId) (n : List Nat) : Val.NLen d (.split l r n) ↔ n.length = d := Iff.rfl
@[simp] theorem Val.nlen_desc (d : Nat) (s : List Nat) : Val.NLen d (.desc s) ↔ True := Iff.rfl
@[simp] theorem Val.nlen_leaf (d : Nat) (h v : List Nat) : Val.NLen d (.leaf h v) ↔ True := Iff.rfl
@[simp] theorem Val.nlen_metadata (d : Nat) (a : Bytes) (b : Nat) (e f : List Nat) : Val.NLen d (.metadata a b e f) ↔ True := Iff.rfl
@[simp] theorem Val.nlen_version (d a b e : Nat) : Val.NLen d (.version a b e) ↔ True := Iff.rfl

/-- every split node stored under a tree key of the index has a normal of `d` words -/
def SplitLen (c : Cfg) (d : Nat) (s : Store) : Prop :=
  ∀ id v, Store.get s (c.treeKey id) = some v → Val.NLen d v

/-- every normal of the tree has `d` words -/
def TLen (d : Nat) (t : T) : Prop := ∀ n ∈ t.normals, n.length = d

/-- every staged split node has a normal of `d` words -/
def PutsLen (d : Nat) (puts : List (Nat × Val)) : Prop := ∀ p ∈ puts, Val.NLen d p.2

@[simp] theorem tlen_leaf (d i : Nat) : TLen d (.leaf i) ↔ True := by simp [TLen, T.normals]
@[simp] theorem tlen_bucket (d id : Nat) (s : List Nat) : TLen d (.bucket id s) ↔ True := by simp [TLen, T.normals]
@[simp] theorem tlen_node (d id : Nat) (n : List Nat) (l r : T) :
    TLen d (.node id n l r) ↔ n.length = d ∧ TLen d l ∧ TLen d r := by
  simp only [TLen, T.normals, List.mem_cons, List.mem_append]
  constructor
  · intro h
    exact ⟨h n (Or.inl rfl), fun x hx => h x (Or.inr (Or.inl hx)), fun x hx => h x (Or.inr (Or.inr hx))⟩
  · rintro ⟨h1, h2, h3⟩ x (rfl | hx | hx)
    · exact h1
    · exact h2 x hx
    · exact h3 x hx

@[simp] theorem putsLen_nil (d : Nat) : PutsLen d [] ↔ True := by simp [PutsLen]
@[simp] theorem putsLen_cons (d : Nat) (p : Nat × Val) (ps : List (Nat × Val)) :
    PutsLen d (p :: ps) ↔ Val.NLen d p.2 ∧ PutsLen d ps := by simp [PutsLen]
@[simp] theorem putsLen_append (d : Nat) (a b : List (Nat × Val)) :
    PutsLen d (a ++ b) ↔ PutsLen d a ∧ PutsLen d b := by
  simp only [PutsLen, List.mem_append]
  constructor
  · intro h; exact ⟨fun p hp => h p (Or.inl hp), fun p hp => h p (Or.inr hp)⟩
  · rintro ⟨h1, h2⟩ p (hp | hp)
    · exact h1 p hp
    · exact h2 p hp
theorem putsLen_ite (d : Nat) (p : Prop) [Decidable p] (x : Nat × Val) (hx : Val.NLen d x.2) :
    PutsLen d (if p then [x] else []) := by
  split <;> simp [hx]

/-! ## the store -/

theorem SplitLen.nil (c : Cfg) (d : Nat) : SplitLen c d [] := by
  intro id v h; simp [Store.get] at h

theorem SplitLen.put {c : Cfg} {d : Nat} {s : Store} (h : SplitLen c d s) (k : Key) (v : Val) (hv : Val.NLen d v) :
    SplitLen c d (Store.put s k v) := by
  intro id v' hg
  rw [Store.get_put] at hg
  split at hg
  · cases hg; exact hv
  · exact h id v' hg

theorem SplitLen.filter {c : Cfg} {d : Nat} {s : Store} (h : SplitLen c d s) (p : Key → Bool) :
    SplitLen c d (s.filter (fun kv => p kv.1)) := by
  intro id v hg
  rw [Store.get_filter_key] at hg
  split at hg
  · exact h id v hg
  · cases hg

theorem SplitLen.erase {c : Cfg} {d : Nat} {s : Store} (h : SplitLen c d s) (k : Key) :
    SplitLen c d (Store.erase s k) := by
  intro id v hg
  rw [Store.get_erase] at hg
  split at hg
  · cases hg
  · exact h id v hg

theorem SplitLen.deleteRange {c : Cfg} {d : Nat} {s : Store} (h : SplitLen c d s) (lo hi : Key) :
    SplitLen c d (Store.deleteRange s lo hi) := by
  intro id v hg
  rw [Store.get_deleteRange_bytes] at hg
  split at hg
  · exact h id v hg
  · cases hg

theorem SplitLen.congr_index {c c' : Cfg} {d : Nat} {s : Store} (he : c'.index = c.index) :
    SplitLen c' d s ↔ SplitLen c d s := by
  simp only [SplitLen, Cfg.treeKey, he]

theorem SplitLen.foldl {c : Cfg} {d : Nat} {β : Type} (f : Store → β → Store)
    (hf : ∀ s x, SplitLen c d s → SplitLen c d (f s x)) (l : List β) :
    ∀ s, SplitLen c d s → SplitLen c d (l.foldl f s) := by
  induction l with
  | nil => intro s h; exact h
  | cons x xs ih => intro s h; exact ih _ (hf s x h)

/-! ## the tree-level routines -/

/-- a tree read out of a store has the normals of the store -/
theorem reify_tlen {c : Cfg} {d : Nat} {s : Store} (hs : SplitLen c d s) :
    ∀ (fuel : Nat) (ref : NodeId) (t : T), reify c s fuel ref = some t → TLen d t := by
  intro fuel
  induction fuel with
  | zero => intro ref t h; simp [reify] at h
  | succ fuel ih =>
    intro ref t h
    unfold reify at h
    split at h
    · cases h; simp
    · split at h
      · split at h
        · cases h; simp
        · rename_i l r n hg
          split at h
          · rename_i tl tr hl hr
            cases h
            rw [tlen_node]
            exact ⟨hs _ _ hg, ih _ _ hl, ih _ _ hr⟩
          · cases h
        · cases h
      · cases h

/-- `delT_normals`: the normals of the pruned tree, and of the split nodes it stages, are normals of the tree -/
theorem delT_normals {d : Nat} (cap : Nat) (D : List Nat) (t : T) (ht : TLen d t) :
    TLen d (delT cap D t).tree ∧ PutsLen d (delT cap D t).puts := by
  induction t with
  | leaf i => simp [delT]
  | bucket id s =>
    simp only [delT, tlen_bucket, true_and]
    split <;> simp
  | node id n l r ihl ihr =>
    rw [tlen_node] at ht
    obtain ⟨hn, hl, hr⟩ := ht
    obtain ⟨a1, a2⟩ := ihl hl
    obtain ⟨b1, b2⟩ := ihr hr
    simp only [delT]
    split
    · simp [a2, b2]
    · split
      · simp [a2, b2, b1]
      · split
        · simp [a2, b2, a1]
        · simp only [tlen_node, putsLen_append]
          exact ⟨⟨hn, a1, b1⟩, ⟨a2, b2⟩, putsLen_ite _ _ _ hn⟩

/-- `insertT_normals`: the same for `insert_items_in_file` -/
theorem insertT_normals {d : Nat} (cx : TreeCtx) (t : T) (ins : List Nat) (g : IdGen) (rs : List Bool) (res : InsRes)
    (h : insertT cx t ins g rs = .ok res) (ht : TLen d t) : TLen d res.tree ∧ PutsLen d res.puts := by
  induction t generalizing ins g rs res with
  | leaf i =>
    rcases insertT_leaf_ok h with ⟨_, id, g', _, rfl⟩ | ⟨_, rfl⟩ <;> simp
  | bucket id s =>
    rcases insertT_bucket_ok h with ⟨_, rfl⟩ | ⟨_, rfl⟩ <;> simp
  | node id n l r ihl ihr =>
    rw [tlen_node] at ht
    obtain ⟨hn, hl, hr⟩ := ht
    obtain ⟨left, right, rs1, a, b, _, ha, hb, rfl⟩ := insertT_node_ok h
    obtain ⟨a1, a2⟩ := ihl _ _ _ _ ha hl
    obtain ⟨b1, b2⟩ := ihr _ _ _ _ hb hr
    simp only [tlen_node, putsLen_append]
    exact ⟨⟨hn, a1, b1⟩, ⟨a2, b2⟩, putsLen_ite _ _ _ hn⟩

/-- the normal `make_tree_in_file` settles on is one of the oracle's, and what is left of the oracle is
    a part of it -/
theorem chooseSplit_normals_mem {cx : TreeCtx} {items : List Nat} {attempts : Nat} {normals : List (List Nat)}
    {rs : List Bool} {polls : Nat} {n l r : List Nat} {normals' : List (List Nat)} {rs' : List Bool} {k : Nat}
    (h : chooseSplit cx items attempts normals rs polls = .ok (n, l, r, normals', rs', k)) :
    n ∈ normals ∧ ∀ x ∈ normals', x ∈ normals := by
  induction attempts generalizing normals rs polls with
  | zero =>
    unfold chooseSplit at h
    split at h
    · cases h
    · split at h
      · cases h
      · split at h
        · cases h; exact ⟨by simp, fun x hx => List.mem_cons_of_mem _ hx⟩
        · cases h; exact ⟨by simp, fun x hx => List.mem_cons_of_mem _ hx⟩
  | succ a ih =>
    unfold chooseSplit at h
    split at h
    · cases h
    · split at h
      · cases h
      · split at h
        · cases h; exact ⟨by simp, fun x hx => List.mem_cons_of_mem _ hx⟩
        · obtain ⟨h1, h2⟩ := ih h
          exact ⟨List.mem_cons_of_mem _ h1, fun x hx => List.mem_cons_of_mem _ (h2 x hx)⟩

/-- `makeT_normals_length`: with an oracle whose normals all have `d` words, every normal of the tree
    made (an oracle normal, or `List.replicate n.length 0` of one after a random split), every staged
    split node and what is left of the oracle have `d` words -/
theorem makeT_normals_length {d : Nat} (cx : TreeCtx) (fuel : Nat) (items : List Nat) (g : IdGen)
    (normals : List (List Nat)) (rs : List Bool) (res : MakeRes)
    (h : makeT cx fuel items g normals rs = .ok res) (hN : ∀ n ∈ normals, n.length = d) :
    TLen d res.tree ∧ PutsLen d res.puts ∧ ∀ n ∈ res.normals, n.length = d := by
  induction fuel generalizing items g normals rs res with
  | zero => simp [makeT] at h
  | succ fuel ih =>
    simp only [makeT] at h
    split at h
    · cases h; simp; exact hN
    · split at h
      · split at h
        · cases h
        · cases h; simp; exact hN
      · split at h
        · cases h
        · rename_i n l r normals1 rs1 k hcs
          obtain ⟨hn, hsub⟩ := chooseSplit_normals_mem hcs
          have hN1 : ∀ x ∈ normals1, x.length = d := fun x hx => hN x (hsub x hx)
          have hnd : n.length = d := hN n hn
          split at h
          · cases h
          · rename_i n' l' r' rs2 hdec
            have hn' : n'.length = d := by
              split at hdec
              · split at hdec
                · cases hdec; simp [hnd]
                · cases hdec
              · cases hdec; exact hnd
            split at h
            · cases h
            · rename_i a ha
              obtain ⟨a1, a2, a3⟩ := ih _ _ _ _ _ ha hN1
              split at h
              · cases h
              · rename_i b hb
                obtain ⟨b1, b2, b3⟩ := ih _ _ _ _ _ hb a3
                split at h
                · cases h
                · cases h
                  simp only [tlen_node, putsLen_append, putsLen_cons, putsLen_nil, Val.nlen_split]
                  exact ⟨⟨hn', a1, b1⟩, ⟨⟨a2, b2⟩, hn', trivial⟩, b3⟩

end Arroy
