import Mathlib.Analysis.Real.Sqrt
import Mathlib.Tactic.Linarith
import Mathlib.Tactic.Ring
import Mathlib.Tactic.Positivity
import Mathlib.Tactic.NormNum
/-! Real-number analysis behind the rounding-error bounds of the REPORTED Euclidean and cosine distances
(`Properties/C11Reported.lean`): perturbation of a square root, Cauchy–Schwarz on lists, the error
propagation through `(1 − clamp(pq / (‖p‖·‖q‖), −1, 1)) / 2`.  No floating point in this file. -/
namespace Arroy
namespace ReportedReal

/-! ### powers of `1 + u` -/

/-- `(1+u)^k · (1 − k·u) ≤ 1` -/
theorem pow_mul_le_one {u : ℝ} (hu : 0 ≤ u) : ∀ k : Nat, (1 + u) ^ k * (1 - k * u) ≤ 1 := by
  intro k
  induction k with
  | zero => simp
  | succ k ih =>
    have hp : 0 ≤ (1 + u) ^ k := by positivity
    have e : (1 + u) ^ (k + 1) * (1 - ((k + 1 : Nat) : ℝ) * u)
        = (1 + u) ^ k * (1 - k * u) - (1 + u) ^ k * ((k + 1) * u * u) := by
      push_cast; ring
    have : 0 ≤ (1 + u) ^ k * (((k : ℝ) + 1) * u * u) := by positivity
    rw [e]; linarith

/-- `(1+u)^k − 1 ≤ c·k·u` as soon as `c·(1 − k·u) ≥ 1` -/
theorem pow_sub_one_le {u c : ℝ} (hu : 0 ≤ u) (k : Nat) (hk : 0 < 1 - (k : ℝ) * u)
    (hc : 1 ≤ c * (1 - k * u)) : (1 + u) ^ k - 1 ≤ c * (k * u) := by
  have h1 := pow_mul_le_one hu k
  have hp : 0 ≤ (1 + u) ^ k := by positivity
  have hku : 0 ≤ (k : ℝ) * u := by positivity
  have hc0 : 0 ≤ c := by
    by_contra hcon
    have : c * (1 - k * u) < 0 := mul_neg_of_neg_of_pos (not_le.mp hcon) hk
    linarith
  -- (1+u)^k ≤ 1/(1−ku) ≤ 1 + c·k·u
  have h2 : (1 + u) ^ k * (1 - k * u) ≤ (1 + c * (k * u)) * (1 - k * u) := by
    have : (1 + c * (k * u)) * (1 - k * u) = 1 + (k * u) * (c * (1 - k * u) - 1) := by ring
    rw [this]
    have : 0 ≤ (k * u) * (c * (1 - k * u) - 1) := mul_nonneg hku (by linarith)
    linarith
  have := le_of_mul_le_mul_right h2 hk
  linarith

/-! ### square roots -/

/-- `f ≤ W²·S` gives `√f ≤ W·√S` -/
theorem sqrt_le_mul {S f W : ℝ} (hW : 0 ≤ W) (h : f ≤ W * W * S) : √f ≤ W * √S := by
  calc √f ≤ √(W * W * S) := Real.sqrt_le_sqrt h
    _ = W * √S := by rw [Real.sqrt_mul (mul_self_nonneg W), Real.sqrt_mul_self hW]

/-- `W²·S ≤ f` gives `W·√S ≤ √f` -/
theorem mul_le_sqrt {S f W : ℝ} (hW : 0 ≤ W) (h : W * W * S ≤ f) : W * √S ≤ √f := by
  calc W * √S = √(W * W * S) := by rw [Real.sqrt_mul (mul_self_nonneg W), Real.sqrt_mul_self hW]
    _ ≤ √f := Real.sqrt_le_sqrt h

/-- relative error `a ≤ 1` of a non-negative quantity gives relative error `a` of its square root -/
theorem sqrt_rel {S f a : ℝ} (hS : 0 ≤ S) (ha0 : 0 ≤ a) (ha1 : a ≤ 1) (h : |f - S| ≤ a * S) :
    (1 - a) * √S ≤ √f ∧ √f ≤ (1 + a) * √S := by
  obtain ⟨h1, h2⟩ := abs_le.mp h
  have haS : 0 ≤ a * S := mul_nonneg ha0 hS
  constructor
  · apply mul_le_sqrt (by linarith)
    have : (1 - a) * (1 - a) * S = (1 - a) * S - a * ((1 - a) * S) := by ring
    have : 0 ≤ a * ((1 - a) * S) := mul_nonneg ha0 (mul_nonneg (by linarith) hS)
    nlinarith
  · apply sqrt_le_mul (by linarith)
    have : (1 + a) * (1 + a) * S = (1 + a) * S + a * ((1 + a) * S) := by ring
    have : 0 ≤ a * ((1 + a) * S) := mul_nonneg ha0 (mul_nonneg (by linarith) hS)
    nlinarith

/-- **the reported Euclidean distance, real-number core** (any `a ≥ 0`): if `f ≥ 0` is within `a·S` of
`S ≥ 0` and `r = √f·(1+δ)`, `|δ| ≤ u ≤ 1`, then `|r − √S| ≤ ((1+a)(1+u) − 1)·√S`. -/
theorem sqrt_round {S f r a u δ : ℝ} (hS : 0 ≤ S) (ha0 : 0 ≤ a) (hu0 : 0 ≤ u) (hu1 : u ≤ 1)
    (h : |f - S| ≤ a * S) (hδ : |δ| ≤ u) (hr : r = √f * (1 + δ)) :
    |r - √S| ≤ ((1 + a) * (1 + u) - 1) * √S := by
  obtain ⟨h1, h2⟩ := abs_le.mp h
  obtain ⟨d1, d2⟩ := abs_le.mp hδ
  have hs : 0 ≤ √S := Real.sqrt_nonneg S
  have hf : 0 ≤ √f := Real.sqrt_nonneg f
  have haS : 0 ≤ a * S := mul_nonneg ha0 hS
  have hup : √f ≤ (1 + a) * √S := by
    apply sqrt_le_mul (by linarith)
    have : 0 ≤ a * ((1 + a) * S) := mul_nonneg ha0 (mul_nonneg (by linarith) hS)
    nlinarith
  have hr0 : 0 ≤ r := by rw [hr]; exact mul_nonneg hf (by linarith)
  rw [abs_le]
  constructor
  · by_cases ha1 : a ≤ 1
    · have hlo := (sqrt_rel hS ha0 ha1 h).1
      have k1 : (1 - a) * √S * (1 - u) ≤ √f * (1 + δ) :=
        mul_le_mul hlo (by linarith) (by linarith) hf
      have k2 : 0 ≤ a * u * √S := mul_nonneg (mul_nonneg ha0 hu0) hs
      rw [hr]; nlinarith
    · have : 1 < a := not_le.mp ha1
      have k2 : 0 ≤ (a - 1) * √S := mul_nonneg (by linarith) hs
      have k3 : 0 ≤ (1 + a) * u * √S := mul_nonneg (mul_nonneg (by linarith) hu0) hs
      nlinarith
  · have k1 : √f * (1 + δ) ≤ (1 + a) * √S * (1 + u) :=
      mul_le_mul hup (by linarith) (by linarith) (mul_nonneg (by linarith) hs)
    rw [hr]; nlinarith

/-- **sharper form**: with `1 + a ≤ W²`, `W = 1 + x`, `2x² ≤ u` (and `x ≤ 1/4`) the error is within
`(W·(1+u)² − 1)·√S`, and the upper side alone within `(W·(1+u) − 1)·√S` without any smallness. -/
theorem sqrt_round_half {S f r a u δ W : ℝ} (hS : 0 ≤ S) (hu0 : 0 ≤ u) (hu1 : u ≤ 1)
    (hW1 : 1 ≤ W) (hWa : 1 + a ≤ W * W)
    (h : |f - S| ≤ a * S) (hδ : |δ| ≤ u) (hr : r = √f * (1 + δ)) :
    r - √S ≤ (W * (1 + u) - 1) * √S ∧
    (W - 1 ≤ 1 / 4 → 2 * ((W - 1) * (W - 1)) ≤ u → |r - √S| ≤ (W * ((1 + u) * (1 + u)) - 1) * √S) := by
  obtain ⟨h1, h2⟩ := abs_le.mp h
  obtain ⟨d1, d2⟩ := abs_le.mp hδ
  have hs : 0 ≤ √S := Real.sqrt_nonneg S
  have hf : 0 ≤ √f := Real.sqrt_nonneg f
  have hup : √f ≤ W * √S := by
    apply sqrt_le_mul (by linarith)
    have : (1 + a) * S ≤ W * W * S := mul_le_mul_of_nonneg_right hWa hS
    linarith
  have k1 : √f * (1 + δ) ≤ W * √S * (1 + u) :=
    mul_le_mul hup (by linarith) (by linarith) (mul_nonneg (by linarith) hs)
  have hupper : r - √S ≤ (W * (1 + u) - 1) * √S := by rw [hr]; nlinarith
  refine ⟨hupper, ?_⟩
  intro hx4 hx
  rw [abs_le]
  constructor
  · -- lower side: √f ≥ (1 − x − 2x²)·√S
    set x := W - 1 with hxdef
    have hx0 : 0 ≤ x := by linarith
    have hW : W = 1 + x := by rw [hxdef]; ring
    have hL0 : 0 ≤ 1 - x - 2 * (x * x) := by nlinarith
    have hlo : (1 - x - 2 * (x * x)) * √S ≤ √f := by
      apply mul_le_sqrt hL0
      -- (1 − x − 2x²)² ≤ 2 − W² ≤ 1 − a
      have e1 : (1 - x - 2 * (x * x)) * (1 - x - 2 * (x * x))
          = (2 - (1 + x) * (1 + x)) - (x * x) * (2 - 4 * x - 4 * (x * x)) := by ring
      have e2 : 0 ≤ (x * x) * (2 - 4 * x - 4 * (x * x)) :=
        mul_nonneg (mul_nonneg hx0 hx0) (by nlinarith)
      have e3 : (1 - x - 2 * (x * x)) * (1 - x - 2 * (x * x)) ≤ 1 - a := by
        rw [e1]; rw [hW] at hWa; linarith
      have e4 : (1 - x - 2 * (x * x)) * (1 - x - 2 * (x * x)) * S ≤ (1 - a) * S :=
        mul_le_mul_of_nonneg_right e3 hS
      linarith
    have k2 : (1 - x - 2 * (x * x)) * √S * (1 - u) ≤ √f * (1 + δ) :=
      mul_le_mul hlo (by linarith) (by linarith) hf
    -- (1 − x − 2x²)(1 − u) ≥ 2 − (1+x)(1+u)²
    have k3 : 2 - (1 + x) * ((1 + u) * (1 + u)) ≤ (1 - x - 2 * (x * x)) * (1 - u) := by
      have : (1 - x - 2 * (x * x)) * (1 - u) - (2 - (1 + x) * ((1 + u) * (1 + u)))
          = (u - 2 * (x * x)) + 3 * u * x + 2 * u * (x * x) + u * u + u * u * x := by ring
      have p1 : 0 ≤ 3 * u * x := by positivity
      have p2 : 0 ≤ 2 * u * (x * x) := by positivity
      have p3 : 0 ≤ u * u + u * u * x := by positivity
      linarith
    have k4 : (2 - (1 + x) * ((1 + u) * (1 + u))) * √S ≤ (1 - x - 2 * (x * x)) * (1 - u) * √S :=
      mul_le_mul_of_nonneg_right k3 hs
    rw [hr, hW]; nlinarith
  · have : (W * (1 + u) - 1) * √S ≤ (W * ((1 + u) * (1 + u)) - 1) * √S := by
      apply mul_le_mul_of_nonneg_right _ hs
      have : 0 ≤ W * (1 + u) * u := by positivity
      nlinarith
    linarith

/-! ### lists -/

theorem abs_sum_le : ∀ (l : List ℝ), |l.sum| ≤ (l.map (fun z => |z|)).sum := by
  intro l
  induction l with
  | nil => simp
  | cons a l ih =>
    simp only [List.sum_cons, List.map_cons]
    exact le_trans (abs_add_le _ _) (by linarith)

theorem map_abs_of_nonneg : ∀ (l : List ℝ), (∀ z ∈ l, 0 ≤ z) → l.map (fun z => |z|) = l := by
  intro l
  induction l with
  | nil => intro _; rfl
  | cons a l ih =>
    intro h
    rw [List.map_cons, abs_of_nonneg (h a (by simp)), ih (fun z hz => h z (by simp [hz]))]

/-! ### Cauchy–Schwarz on lists -/

/-- `Σ|aᵢ·bᵢ| ≤ √(Σ aᵢ²)·√(Σ bᵢ²)` -/
theorem cauchy_schwarz_list : ∀ (x y : List ℝ),
    ((List.zipWith (fun a b => a * b) x y).map (fun z => |z|)).sum
      ≤ √((x.map (fun a => a * a)).sum) * √((y.map (fun b => b * b)).sum) := by
  intro x
  induction x with
  | nil => intro y; simp
  | cons a x ih =>
    intro y
    cases y with
    | nil =>
      simp only [List.zipWith_nil_right, List.map_nil, List.sum_nil, Real.sqrt_zero, mul_zero]
      exact le_refl _
    | cons b y =>
      have hA : 0 ≤ (x.map (fun a => a * a)).sum :=
        List.sum_nonneg (by intro z hz; obtain ⟨w, _, rfl⟩ := List.mem_map.mp hz; exact mul_self_nonneg w)
      have hB : 0 ≤ (y.map (fun b => b * b)).sum :=
        List.sum_nonneg (by intro z hz; obtain ⟨w, _, rfl⟩ := List.mem_map.mp hz; exact mul_self_nonneg w)
      have h := ih y
      have hTn : 0 ≤ ((List.zipWith (fun a b => a * b) x y).map (fun z => |z|)).sum :=
        List.sum_nonneg (by intro z hz; obtain ⟨w, _, rfl⟩ := List.mem_map.mp hz; exact abs_nonneg w)
      simp only [List.zipWith_cons_cons, List.map_cons, List.sum_cons]
      generalize (x.map (fun a => a * a)).sum = A at *
      generalize (y.map (fun b => b * b)).sum = B at *
      generalize ((List.zipWith (fun a b => a * b) x y).map (fun z => |z|)).sum = T at *
      have hs := Real.sqrt_nonneg A
      have ht := Real.sqrt_nonneg B
      have hss : √A * √A = A := Real.mul_self_sqrt hA
      have htt : √B * √B = B := Real.mul_self_sqrt hB
      rw [← Real.sqrt_mul (add_nonneg (mul_self_nonneg a) hA)]
      apply Real.le_sqrt_of_sq_le
      have hab : |a * b| = |a| * |b| := abs_mul a b
      have haa : a * a = |a| * |a| := (abs_mul_abs_self a).symm
      have hbb : b * b = |b| * |b| := (abs_mul_abs_self b).symm
      have h0 : 0 ≤ |a| * |b| := by positivity
      have hT : |a| * |b| + T ≤ |a| * |b| + √A * √B := by linarith
      have hT0 : 0 ≤ |a| * |b| + T := by linarith
      rw [hab, haa, hbb]
      have sq1 : (|a| * |b| + T) ^ 2 ≤ (|a| * |b| + √A * √B) ^ 2 := by
        apply pow_le_pow_left₀ hT0 hT
      have sq2 : (|a| * |b| + √A * √B) ^ 2 ≤ (|a| * |a| + A) * (|b| * |b| + B) := by
        generalize √A = s at *
        generalize √B = t at *
        subst hss htt
        nlinarith [sq_nonneg (|a| * t - |b| * s)]
      linarith

/-! ### the cosine formula -/

/-- clamping to `[-1, 1]` does not increase the distance to a point of `[-1, 1]` -/
theorem clamp_dist {c t : ℝ} (h1 : -1 ≤ c) (h2 : c ≤ 1) : |max (-1) (min 1 t) - c| ≤ |t - c| := by
  rcases le_total t 1 with ht | ht
  · rw [min_eq_right ht]
    rcases le_total (-1) t with ht' | ht'
    · rw [max_eq_right ht']
    · rw [max_eq_left ht', abs_of_nonpos (by linarith), abs_of_nonpos (by linarith)]
      linarith
  · rw [min_eq_left ht, max_eq_right (by norm_num), abs_of_nonneg (by linarith), abs_of_nonneg (by linarith)]
    linarith

theorem clamp_mem (t : ℝ) : -1 ≤ max (-1) (min 1 t) ∧ max (-1) (min 1 t) ≤ 1 :=
  ⟨le_max_left _ _, max_le (by norm_num) (min_le_left _ _)⟩

/-- sharper than `sqrt_rel` for `a ≤ 1/100`: the square root has relative error about `a/2` -/
theorem sqrt_rel_half {S f a : ℝ} (hS : 0 ≤ S) (ha0 : 0 ≤ a) (ha1 : a ≤ 1 / 100) (h : |f - S| ≤ a * S) :
    (1 - 51 / 100 * a) * √S ≤ √f ∧ √f ≤ (1 + a / 2) * √S := by
  obtain ⟨h1, h2⟩ := abs_le.mp h
  have q1 : a * a ≤ 1 / 100 * a := mul_le_mul_of_nonneg_right ha1 ha0
  constructor
  · apply mul_le_sqrt (by linarith)
    have e : (1 - 51 / 100 * a) * (1 - 51 / 100 * a) ≤ 1 - a := by linarith
    have := mul_le_mul_of_nonneg_right e hS
    linarith
  · apply sqrt_le_mul (by linarith)
    have e : 1 + a ≤ (1 + a / 2) * (1 + a / 2) := by linarith [mul_self_nonneg a]
    have := mul_le_mul_of_nonneg_right e hS
    linarith

theorem poly_lo {a u : ℝ} (ha0 : 0 ≤ a) (ha1 : a ≤ 1 / 100) (hu0 : 0 ≤ u) (hu1 : u ≤ 1 / 1000) :
    1 - 51 / 50 * a - 3 * u
      ≤ (1 - 51 / 100 * a) * (1 - 51 / 100 * a) * ((1 - u) * (1 - u) * (1 - u)) := by
  have L1 : 1 - 51 / 50 * a ≤ (1 - 51 / 100 * a) * (1 - 51 / 100 * a) := by linarith [mul_self_nonneg a]
  have L2 : 1 - 3 * u ≤ (1 - u) * (1 - u) * (1 - u) := by
    have : (1 - u) * (1 - u) * (1 - u) = 1 - 3 * u + u * u * (3 - u) := by ring
    have : 0 ≤ u * u * (3 - u) := mul_nonneg (mul_nonneg hu0 hu0) (by linarith)
    linarith
  have h' : (1 - 51 / 50 * a) * (1 - 3 * u)
      ≤ (1 - 51 / 100 * a) * (1 - 51 / 100 * a) * ((1 - u) * (1 - u) * (1 - u)) :=
    mul_le_mul L1 L2 (by linarith) (mul_nonneg (by linarith) (by linarith))
  have : 0 ≤ a * u := mul_nonneg ha0 hu0
  linarith

theorem poly_hi {a u : ℝ} (ha0 : 0 ≤ a) (ha1 : a ≤ 1 / 100) (hu0 : 0 ≤ u) (hu1 : u ≤ 1 / 1000) :
    (1 + a / 2) * (1 + a / 2) * ((1 + u) * (1 + u) * (1 + u)) ≤ 1 + 101 / 100 * a + 31 / 10 * u := by
  have q1 : a * a ≤ 1 / 100 * a := mul_le_mul_of_nonneg_right ha1 ha0
  have H1 : (1 + a / 2) * (1 + a / 2) ≤ 1 + 401 / 400 * a := by linarith
  have H2 : (1 + u) * (1 + u) * (1 + u) ≤ 1 + 301 / 100 * u := by
    have e : (1 + u) * (1 + u) * (1 + u) = 1 + 3 * u + u * (u * (3 + u)) := by ring
    have h3 : u * (3 + u) ≤ 1 / 1000 * 4 := mul_le_mul hu1 (by linarith) (by linarith) (by norm_num)
    have : u * (u * (3 + u)) ≤ u * (1 / 1000 * 4) := mul_le_mul_of_nonneg_left h3 hu0
    linarith
  have h' : (1 + a / 2) * (1 + a / 2) * ((1 + u) * (1 + u) * (1 + u))
      ≤ (1 + 401 / 400 * a) * (1 + 301 / 100 * u) :=
    mul_le_mul H1 H2 (by positivity) (by positivity)
  have q2 : a * u ≤ 1 / 100 * u := mul_le_mul_of_nonneg_right ha1 hu0
  linarith

theorem poly_k_hi {a u : ℝ} (ha0 : 0 ≤ a) (ha1 : a ≤ 1 / 100) (hu0 : 0 ≤ u) (hu1 : u ≤ 1 / 1000) :
    1 + u ≤ (1 + (21 / 20 * a + 21 / 5 * u)) * (1 - 51 / 50 * a - 3 * u) := by
  have q1 : a * a ≤ 1 / 100 * a := mul_le_mul_of_nonneg_right ha1 ha0
  have q2 : a * u ≤ 1 / 100 * u := mul_le_mul_of_nonneg_right ha1 hu0
  have q3 : u * u ≤ 1 / 1000 * u := mul_le_mul_of_nonneg_right hu1 hu0
  linarith

theorem poly_k_lo {a u : ℝ} (ha0 : 0 ≤ a) (hu0 : 0 ≤ u) :
    (1 - (21 / 20 * a + 21 / 5 * u)) * (1 + 101 / 100 * a + 31 / 10 * u) ≤ 1 - u := by
  have := mul_nonneg ha0 ha0
  have := mul_nonneg ha0 hu0
  have := mul_nonneg hu0 hu0
  linarith

theorem poly_final {a u : ℝ} (ha0 : 0 ≤ a) (ha1 : a ≤ 1 / 100) (hu0 : 0 ≤ u) (hu1 : u ≤ 1 / 1000) :
    2 * (2 * u + u * u) / 2 + ((1 + a) * (21 / 20 * a + 21 / 5 * u) + a) / 2
      ≤ 26 / 25 * a + 83 / 20 * u := by
  have q1 : a * a ≤ 1 / 100 * a := mul_le_mul_of_nonneg_right ha1 ha0
  have q2 : a * u ≤ 1 / 100 * u := mul_le_mul_of_nonneg_right ha1 hu0
  have q3 : u * u ≤ 1 / 1000 * u := mul_le_mul_of_nonneg_right hu1 hu0
  linarith

/-- the product of the two computed norms against the product of the exact ones -/
theorem norm_product_bounds {A B fpp fqq pn qn pnqn a u δ1 δ2 δ3 : ℝ}
    (hA : 0 ≤ A) (hB : 0 ≤ B) (ha0 : 0 ≤ a) (ha1 : a ≤ 1 / 100) (hu0 : 0 ≤ u) (hu1 : u ≤ 1 / 1000)
    (hpp : |fpp - A| ≤ a * A) (hqq : |fqq - B| ≤ a * B)
    (h1 : |δ1| ≤ u) (h2 : |δ2| ≤ u) (h3 : |δ3| ≤ u)
    (epn : pn = √fpp * (1 + δ1)) (eqn : qn = √fqq * (1 + δ2)) (epq : pnqn = pn * qn * (1 + δ3)) :
    (1 - 51 / 50 * a - 3 * u) * (√A * √B) ≤ pnqn ∧
    pnqn ≤ (1 + 101 / 100 * a + 31 / 10 * u) * (√A * √B) := by
  obtain ⟨d1l, d1u⟩ := abs_le.mp h1
  obtain ⟨d2l, d2u⟩ := abs_le.mp h2
  obtain ⟨d3l, d3u⟩ := abs_le.mp h3
  obtain ⟨l1, u1⟩ := sqrt_rel_half hA ha0 ha1 hpp
  obtain ⟨l2, u2⟩ := sqrt_rel_half hB ha0 ha1 hqq
  have hsA : 0 ≤ √A := Real.sqrt_nonneg A
  have hsB : 0 ≤ √B := Real.sqrt_nonneg B
  have hx1 : 0 ≤ √fpp := Real.sqrt_nonneg fpp
  have hx2 : 0 ≤ √fqq := Real.sqrt_nonneg fqq
  generalize √A = sA at *
  generalize √B = sB at *
  generalize √fpp = x1 at *
  generalize √fqq = x2 at *
  have ham : 0 ≤ 1 - 51 / 100 * a := by linarith
  have hum : 0 ≤ 1 - u := by linarith
  have hN0 : 0 ≤ sA * sB := mul_nonneg hsA hsB
  have pn_lo : (1 - 51 / 100 * a) * sA * (1 - u) ≤ pn := by
    rw [epn]; exact mul_le_mul l1 (by linarith) hum hx1
  have pn_hi : pn ≤ (1 + a / 2) * sA * (1 + u) := by
    rw [epn]; exact mul_le_mul u1 (by linarith) (by linarith) (mul_nonneg (by linarith) hsA)
  have qn_lo : (1 - 51 / 100 * a) * sB * (1 - u) ≤ qn := by
    rw [eqn]; exact mul_le_mul l2 (by linarith) hum hx2
  have qn_hi : qn ≤ (1 + a / 2) * sB * (1 + u) := by
    rw [eqn]; exact mul_le_mul u2 (by linarith) (by linarith) (mul_nonneg (by linarith) hsB)
  have pl0 : 0 ≤ (1 - 51 / 100 * a) * sA * (1 - u) := mul_nonneg (mul_nonneg ham hsA) hum
  have ql0 : 0 ≤ (1 - 51 / 100 * a) * sB * (1 - u) := mul_nonneg (mul_nonneg ham hsB) hum
  have pn0 : 0 ≤ pn := le_trans pl0 pn_lo
  have qn0 : 0 ≤ qn := le_trans ql0 qn_lo
  have pq_lo : (1 - 51 / 100 * a) * sA * (1 - u) * ((1 - 51 / 100 * a) * sB * (1 - u)) ≤ pn * qn :=
    mul_le_mul pn_lo qn_lo ql0 pn0
  have pq_hi : pn * qn ≤ (1 + a / 2) * sA * (1 + u) * ((1 + a / 2) * sB * (1 + u)) :=
    mul_le_mul pn_hi qn_hi qn0 (le_trans pn0 pn_hi)
  have pnqn_lo : (1 - 51 / 100 * a) * sA * (1 - u) * ((1 - 51 / 100 * a) * sB * (1 - u)) * (1 - u) ≤ pnqn := by
    rw [epq]; exact mul_le_mul pq_lo (by linarith) hum (mul_nonneg pn0 qn0)
  have pnqn_hi : pnqn ≤ (1 + a / 2) * sA * (1 + u) * ((1 + a / 2) * sB * (1 + u)) * (1 + u) := by
    rw [epq]; exact mul_le_mul pq_hi (by linarith) (by linarith) (le_trans (mul_nonneg pn0 qn0) pq_hi)
  have L3 := poly_lo ha0 ha1 hu0 hu1
  have H3 := poly_hi ha0 ha1 hu0 hu1
  constructor
  · have : (1 - 51 / 50 * a - 3 * u) * (sA * sB)
        ≤ (1 - 51 / 100 * a) * (1 - 51 / 100 * a) * ((1 - u) * (1 - u) * (1 - u)) * (sA * sB) :=
      mul_le_mul_of_nonneg_right L3 hN0
    have e : (1 - 51 / 100 * a) * sA * (1 - u) * ((1 - 51 / 100 * a) * sB * (1 - u)) * (1 - u)
        = (1 - 51 / 100 * a) * (1 - 51 / 100 * a) * ((1 - u) * (1 - u) * (1 - u)) * (sA * sB) := by ring
    rw [e] at pnqn_lo
    exact le_trans this pnqn_lo
  · have : (1 + a / 2) * (1 + a / 2) * ((1 + u) * (1 + u) * (1 + u)) * (sA * sB)
        ≤ (1 + 101 / 100 * a + 31 / 10 * u) * (sA * sB) :=
      mul_le_mul_of_nonneg_right H3 hN0
    have e : (1 + a / 2) * sA * (1 + u) * ((1 + a / 2) * sB * (1 + u)) * (1 + u)
        = (1 + a / 2) * (1 + a / 2) * ((1 + u) * (1 + u) * (1 + u)) * (sA * sB) := by ring
    rw [e] at pnqn_hi
    exact le_trans pnqn_hi this

/-- the factor `κ = N·(1+δ)/pnqn` is within `β = 1.05·a + 4.2·u` of `1` -/
theorem kappa_bounds {N pnqn a u δ4 : ℝ}
    (ha0 : 0 ≤ a) (ha1 : a ≤ 1 / 100) (hu0 : 0 ≤ u) (hu1 : u ≤ 1 / 1000) (h4 : |δ4| ≤ u)
    (hN : 0 < N) (hpos : 0 < pnqn)
    (lo' : (1 - 51 / 50 * a - 3 * u) * N ≤ pnqn) (hi' : pnqn ≤ (1 + 101 / 100 * a + 31 / 10 * u) * N) :
    |N * (1 + δ4) / pnqn - 1| ≤ 21 / 20 * a + 21 / 5 * u := by
  obtain ⟨d4l, d4u⟩ := abs_le.mp h4
  have hκ_hi : N * (1 + δ4) / pnqn ≤ 1 + (21 / 20 * a + 21 / 5 * u) := by
    rw [div_le_iff₀ hpos]
    have k1 : N * (1 + δ4) ≤ N * (1 + u) := mul_le_mul_of_nonneg_left (by linarith) hN.le
    have k2 := poly_k_hi ha0 ha1 hu0 hu1
    have k3 : N * (1 + u) ≤ N * ((1 + (21 / 20 * a + 21 / 5 * u)) * (1 - 51 / 50 * a - 3 * u)) :=
      mul_le_mul_of_nonneg_left k2 hN.le
    have k4 : (1 + (21 / 20 * a + 21 / 5 * u)) * ((1 - 51 / 50 * a - 3 * u) * N)
        ≤ (1 + (21 / 20 * a + 21 / 5 * u)) * pnqn :=
      mul_le_mul_of_nonneg_left lo' (by linarith)
    have e : N * ((1 + (21 / 20 * a + 21 / 5 * u)) * (1 - 51 / 50 * a - 3 * u))
        = (1 + (21 / 20 * a + 21 / 5 * u)) * ((1 - 51 / 50 * a - 3 * u) * N) := by ring
    rw [e] at k3
    exact le_trans k1 (le_trans k3 k4)
  have hκ_lo : 1 - (21 / 20 * a + 21 / 5 * u) ≤ N * (1 + δ4) / pnqn := by
    rw [le_div_iff₀ hpos]
    have k1 : N * (1 - u) ≤ N * (1 + δ4) := mul_le_mul_of_nonneg_left (by linarith) hN.le
    have k2 := poly_k_lo ha0 hu0
    have k3 : (1 - (21 / 20 * a + 21 / 5 * u)) * (1 + 101 / 100 * a + 31 / 10 * u) * N ≤ (1 - u) * N :=
      mul_le_mul_of_nonneg_right k2 hN.le
    have k4 : (1 - (21 / 20 * a + 21 / 5 * u)) * pnqn
        ≤ (1 - (21 / 20 * a + 21 / 5 * u)) * ((1 + 101 / 100 * a + 31 / 10 * u) * N) :=
      mul_le_mul_of_nonneg_left hi' (by linarith)
    have e : (1 - (21 / 20 * a + 21 / 5 * u)) * ((1 + 101 / 100 * a + 31 / 10 * u) * N)
        = (1 - (21 / 20 * a + 21 / 5 * u)) * (1 + 101 / 100 * a + 31 / 10 * u) * N := by ring
    rw [e] at k4
    have e2 : (1 - u) * N = N * (1 - u) := by ring
    rw [e2] at k3
    exact le_trans k4 (le_trans k3 k1)
  rw [abs_le]; constructor <;> linarith

/-- from the computed cosine `y·κ` to the result `((1 − clamp)·(1+δ5))/2·(1+δ6)` -/
theorem cosine_tail {y κ cs ct c' s r a u β δ5 δ6 : ℝ}
    (ha0 : 0 ≤ a) (hu0 : 0 ≤ u)
    (h5 : |δ5| ≤ u) (h6 : |δ6| ≤ u)
    (hcos : |cs| ≤ 1) (hy : |y - cs| ≤ a) (hκ : |κ - 1| ≤ β)
    (ect : ct = y * κ) (ec' : c' = max (-1) (min 1 ct))
    (es : s = (1 - c') * (1 + δ5)) (er : r = s / 2 * (1 + δ6)) :
    |r - (1 - cs) / 2| ≤ 2 * (2 * u + u * u) / 2 + ((1 + a) * β + a) / 2 := by
  obtain ⟨c1, c2⟩ := abs_le.mp hcos
  obtain ⟨y1, y2⟩ := abs_le.mp hy
  have hct : |ct - cs| ≤ (1 + a) * β + a := by
    have e : ct - cs = y * (κ - 1) + (y - cs) := by rw [ect]; ring
    have hyabs : |y| ≤ 1 + a := by rw [abs_le]; constructor <;> linarith
    rw [e]
    calc |y * (κ - 1) + (y - cs)| ≤ |y * (κ - 1)| + |y - cs| := abs_add_le _ _
      _ = |y| * |κ - 1| + |y - cs| := by rw [abs_mul]
      _ ≤ (1 + a) * β + a :=
        add_le_add (mul_le_mul hyabs hκ (abs_nonneg _) (by linarith)) hy
  have hc' : |c' - cs| ≤ (1 + a) * β + a := by
    rw [ec']; exact le_trans (clamp_dist c1 c2) hct
  obtain ⟨m1, m2⟩ := clamp_mem ct
  rw [← ec'] at m1 m2
  have er' : r - (1 - cs) / 2 = (1 - c') * ((1 + δ5) * (1 + δ6) - 1) / 2 + (cs - c') / 2 := by
    rw [er, es]; ring
  have hdd : |(1 + δ5) * (1 + δ6) - 1| ≤ 2 * u + u * u := by
    have e : (1 + δ5) * (1 + δ6) - 1 = δ5 + δ6 + δ5 * δ6 := by ring
    rw [e]
    have h56 : |δ5 * δ6| ≤ u * u := by rw [abs_mul]; exact mul_le_mul h5 h6 (abs_nonneg _) hu0
    have t := abs_add_le (δ5 + δ6) (δ5 * δ6)
    have t' := abs_add_le δ5 δ6
    linarith
  have h1c : |1 - c'| ≤ 2 := by rw [abs_le]; constructor <;> linarith
  have hcc : |cs - c'| ≤ (1 + a) * β + a := by rw [abs_sub_comm]; exact hc'
  rw [er']
  have t1 : |(1 - c') * ((1 + δ5) * (1 + δ6) - 1) / 2| ≤ 2 * (2 * u + u * u) / 2 := by
    rw [abs_div, abs_mul, abs_of_pos (show (0:ℝ) < 2 by norm_num)]
    apply div_le_div_of_nonneg_right _ (by norm_num)
    exact mul_le_mul h1c hdd (abs_nonneg _) (by norm_num)
  have t2 : |(cs - c') / 2| ≤ ((1 + a) * β + a) / 2 := by
    rw [abs_div, abs_of_pos (show (0:ℝ) < 2 by norm_num)]
    exact div_le_div_of_nonneg_right hcc (by norm_num)
  exact le_trans (abs_add_le _ _) (add_le_add t1 t2)

/-- **the cosine distance, real-number core.**  `A = Σaᵢ²`, `B = Σbᵢ²`, `D = Σaᵢbᵢ`, `T = Σ|aᵢbᵢ|`;
the three computed dot products are within `a·A`, `a·B`, `a·T` of them (`a ≤ 1/100`), every further
operation (`sqrt`, `sqrt`, `·`, `/`, `1 − ·`, `/2`) has relative error at most `u ≤ 1/1000`; the product
of the computed norms is positive.  Then the result is within `1.04·a + 4.15·u` of `(1 − D/(√A·√B))/2`. -/
theorem cosine_core
    {A B D T fpp fqq fpq pn qn pnqn ct c' s r a u δ1 δ2 δ3 δ4 δ5 δ6 : ℝ}
    (hA : 0 ≤ A) (hB : 0 ≤ B) (ha0 : 0 ≤ a) (ha1 : a ≤ 1 / 100) (hu0 : 0 ≤ u) (hu1 : u ≤ 1 / 1000)
    (hDT : |D| ≤ T) (hT : T ≤ √A * √B)
    (hpp : |fpp - A| ≤ a * A) (hqq : |fqq - B| ≤ a * B) (hpq : |fpq - D| ≤ a * T)
    (h1 : |δ1| ≤ u) (h2 : |δ2| ≤ u) (h3 : |δ3| ≤ u) (h4 : |δ4| ≤ u) (h5 : |δ5| ≤ u) (h6 : |δ6| ≤ u)
    (epn : pn = √fpp * (1 + δ1)) (eqn : qn = √fqq * (1 + δ2)) (epq : pnqn = pn * qn * (1 + δ3))
    (hpos : 0 < pnqn) (ect : ct = fpq / pnqn * (1 + δ4)) (ec' : c' = max (-1) (min 1 ct))
    (es : s = (1 - c') * (1 + δ5)) (er : r = s / 2 * (1 + δ6)) :
    0 < √A * √B ∧ |r - (1 - D / (√A * √B)) / 2| ≤ 26 / 25 * a + 83 / 20 * u := by
  obtain ⟨lo', hi'⟩ := norm_product_bounds hA hB ha0 ha1 hu0 hu1 hpp hqq h1 h2 h3 epn eqn epq
  have hN0 : 0 ≤ √A * √B := mul_nonneg (Real.sqrt_nonneg A) (Real.sqrt_nonneg B)
  generalize √A * √B = N at *
  have hN : 0 < N := by
    rcases hN0.lt_or_eq with h | h
    · exact h
    · rw [← h] at hi'; linarith
  refine ⟨hN, ?_⟩
  have hcos : |D / N| ≤ 1 := by
    rw [abs_div, abs_of_pos hN, div_le_one hN]; linarith
  have hy : |fpq / N - D / N| ≤ a := by
    rw [← sub_div, abs_div, abs_of_pos hN, div_le_iff₀ hN]
    have : a * T ≤ a * N := mul_le_mul_of_nonneg_left hT ha0
    linarith
  have hκ := kappa_bounds ha0 ha1 hu0 hu1 h4 hN hpos lo' hi'
  have ect' : ct = fpq / N * (N * (1 + δ4) / pnqn) := by
    rw [ect]; field_simp
  have t := cosine_tail ha0 hu0 h5 h6 hcos hy hκ ect' ec' es er
  have t4 := poly_final ha0 ha1 hu0 hu1
  exact le_trans t t4

end ReportedReal
end Arroy
