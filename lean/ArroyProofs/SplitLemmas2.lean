import ArroyModel.Split
import ArroyProofs.BQLemmas
/-! Value-free facts about the split search (`ArroyModel/Split.lean`): the two-means loop keeps the
length of its two centroids, `createSplit` is total on two or more draws and reads at most
`2 + twoMeansIterations` of them. Nothing here looks at a float value: NaN, infinities and zeros are
just bit patterns. -/
namespace Arroy
namespace Split
open Generated

/-! ## lengths through the two-means loop -/

theorem normalize_vec_length (w : Work) (h : Host) (l : MLeaf) :
    (normalize w h l).vec.length = l.vec.length := by
  unfold normalize
  simp only
  split
  · simp
  · rfl

theorem init_vec (w : Work) (h : Host) (l : MLeaf) : (init w h l).vec = l.vec := by
  cases w <;> rfl

theorem updateMean_vec_length (mean k : MLeaf) (nrm c : Nat) :
    (updateMean mean k nrm c).vec.length = min mean.vec.length k.vec.length := by
  simp [updateMean]

theorem step_length {d : Nat} (w : Work) (h : Host) (cosine : Bool) (s : TM) (k : MLeaf)
    (hp : s.p.vec.length = d) (hq : s.q.vec.length = d) (hk : k.vec.length = d) :
    (step w h cosine s k).p.vec.length = d ∧ (step w h cosine s k).q.vec.length = d := by
  unfold step
  simp only
  generalize (if cosine = true then norm w h k else F32.one) = nrm
  split
  · exact ⟨hp, hq⟩
  · split
    · refine ⟨?_, hq⟩
      show (init w h (updateMean s.p k nrm s.ic)).vec.length = d
      rw [init_vec, updateMean_vec_length, hp, hk, Nat.min_self]
    · split
      · refine ⟨hp, ?_⟩
        show (init w h (updateMean s.q k nrm s.jc)).vec.length = d
        rw [init_vec, updateMean_vec_length, hq, hk, Nat.min_self]
      · exact ⟨hp, hq⟩

theorem foldl_step_length {d : Nat} (w : Work) (h : Host) (cosine : Bool) (ks : List MLeaf) :
    ∀ (s : TM), s.p.vec.length = d → s.q.vec.length = d → (∀ k ∈ ks, k.vec.length = d) →
      (ks.foldl (step w h cosine) s).p.vec.length = d ∧ (ks.foldl (step w h cosine) s).q.vec.length = d := by
  induction ks with
  | nil => intro s hp hq _; exact ⟨hp, hq⟩
  | cons k ks ih =>
    intro s hp hq hk
    simp only [List.foldl_cons]
    obtain ⟨h1, h2⟩ := step_length w h cosine s k hp hq (hk k (by simp))
    exact ih _ h1 h2 (fun k' hk' => hk k' (List.mem_cons_of_mem _ hk'))

/-- the two centroids `two_means` returns have the length of the drawn vectors -/
theorem twoMeans_length {d : Nat} (w : Work) (h : Host) (cosine : Bool) (p q : MLeaf) (ks : List MLeaf)
    (hp : p.vec.length = d) (hq : q.vec.length = d) (hk : ∀ k ∈ ks, k.vec.length = d) :
    (twoMeans w h cosine p q ks).1.vec.length = d ∧ (twoMeans w h cosine p q ks).2.vec.length = d := by
  unfold twoMeans
  simp only
  apply foldl_step_length
  · simp only [init_vec]; split
    · rw [normalize_vec_length, hp]
    · exact hp
  · simp only [init_vec]; split
    · rw [normalize_vec_length, hq]
    · exact hq
  · intro k hk'
    exact hk k (List.mem_of_mem_take hk')

/-- the search looks at no more than `twoMeansIterations` draws after the first two -/
theorem twoMeans_take (w : Work) (h : Host) (cosine : Bool) (p q : MLeaf) (ks : List MLeaf) :
    twoMeans w h cosine p q (ks.take twoMeansIterations) = twoMeans w h cosine p q ks := by
  unfold twoMeans
  simp only [List.take_take, Nat.min_self]

/-! ## `createSplit` on two or more draws -/

/-- the vector `create_split` returns from the two centroids -/
def finish (m : Metric) (h : Host) (pq : MLeaf × MLeaf) : List Nat :=
  let v := List.zipWith F32.sub pq.1.vec pq.2.vec
  if m.isBq then
    let b := BQ.pack v
    let n := bqNorm m b
    if F32.gt n F32.zero then BQ.pack ((BQ.unpack b).map (fun x => F32.div x n)) else b
  else
    (normalize m.work h { vec := v, extra := F32.sub pq.1.extra pq.2.extra }).vec

theorem createSplit_cons2 (m : Metric) (h : Host) (a b : List Nat × List Nat) (rest : List (List Nat × List Nat)) :
    createSplit m h (a :: b :: rest) =
      some (finish m h (twoMeans m.work h m.cosineFlag (ofStored m h a.1 a.2) (ofStored m h b.1 b.2)
        (rest.map fun hv => ofStored m h hv.1 hv.2))) := by
  unfold createSplit finish
  simp only [List.map_cons]
  split <;> rfl

theorem createSplit_nil (m : Metric) (h : Host) : createSplit m h [] = none := rfl
theorem createSplit_one (m : Metric) (h : Host) (a : List Nat × List Nat) : createSplit m h [a] = none := rfl

theorem createSplit_isSome (m : Metric) (h : Host) (drawn : List (List Nat × List Nat)) (h2 : 2 ≤ drawn.length) :
    (createSplit m h drawn).isSome = true := by
  match drawn, h2 with
  | a :: b :: rest, _ => rw [createSplit_cons2]; rfl

theorem createSplit_take (m : Metric) (h : Host) (drawn : List (List Nat × List Nat)) :
    createSplit m h drawn = createSplit m h (drawn.take (2 + twoMeansIterations)) := by
  match drawn with
  | [] => rfl
  | [a] => rfl
  | a :: b :: rest =>
    have : (a :: b :: rest).take (2 + twoMeansIterations) = a :: b :: rest.take twoMeansIterations := by
      simp [twoMeansIterations]
    rw [this, createSplit_cons2, createSplit_cons2, List.map_take, twoMeans_take]

/-! ## the length of the normal -/

theorem ofStored_vec_f32 (m : Metric) (h : Host) (hdr vec : List Nat) (hm : m.isBq = false) :
    (ofStored m h hdr vec).vec = vec := by
  simp [ofStored, hm]

theorem ofStored_vec_bq (m : Metric) (h : Host) (hdr vec : List Nat) (hm : m.isBq = true) :
    (ofStored m h hdr vec).vec = BQ.unpack vec := by
  simp [ofStored, hm]

theorem unpack_length (ws : List Nat) : (BQ.unpack ws).length = quantizedWordBits * ws.length := by
  induction ws with
  | nil => rfl
  | cons w ws ih =>
    rw [BQL.unpack_cons, List.length_append, BQL.unpackWord_length, ih, List.length_cons]
    simp only [quantizedWordBits]; omega

theorem pack_length_words (xs : List Nat) (w : Nat) (hx : xs.length = quantizedWordBits * w) :
    (BQ.pack xs).length = w := by
  rw [BQL.pack_length, hx]
  simp only [quantizedWordBits]; omega

theorem finish_length_f32 {d : Nat} (m : Metric) (h : Host) (pq : MLeaf × MLeaf) (hm : m.isBq = false)
    (hp : pq.1.vec.length = d) (hq : pq.2.vec.length = d) : (finish m h pq).length = d := by
  unfold finish
  simp only [hm, Bool.false_eq_true, if_false]
  rw [normalize_vec_length]
  simp [hp, hq]

theorem finish_length_bq {w : Nat} (m : Metric) (h : Host) (pq : MLeaf × MLeaf) (hm : m.isBq = true)
    (hp : pq.1.vec.length = quantizedWordBits * w) (hq : pq.2.vec.length = quantizedWordBits * w) :
    (finish m h pq).length = w := by
  unfold finish
  simp only [hm, if_true]
  have hb : (BQ.pack (List.zipWith F32.sub pq.1.vec pq.2.vec)).length = w :=
    pack_length_words _ w (by simp [hp, hq])
  split
  · apply pack_length_words
    rw [List.length_map, unpack_length, hb]
  · exact hb

/-- f32 metrics: the normal has the length of the drawn vectors -/
theorem createSplit_length_f32 {d : Nat} (m : Metric) (h : Host) (drawn : List (List Nat × List Nat))
    (hm : m.isBq = false) (hd : ∀ hv ∈ drawn, hv.2.length = d) (n : List Nat)
    (hn : createSplit m h drawn = some n) : n.length = d := by
  match drawn, hd, hn with
  | [], _, hn => cases hn
  | [a], _, hn => cases hn
  | a :: b :: rest, hd, hn =>
    rw [createSplit_cons2] at hn
    cases hn
    obtain ⟨h1, h2⟩ := twoMeans_length (d := d) m.work h m.cosineFlag (ofStored m h a.1 a.2) (ofStored m h b.1 b.2)
      (rest.map fun hv => ofStored m h hv.1 hv.2)
      (by rw [ofStored_vec_f32 _ _ _ _ hm]; exact hd a (by simp))
      (by rw [ofStored_vec_f32 _ _ _ _ hm]; exact hd b (by simp))
      (by
        intro k hk
        obtain ⟨hv, hmem, rfl⟩ := List.mem_map.1 hk
        rw [ofStored_vec_f32 _ _ _ _ hm]; exact hd hv (by simp [hmem]))
    exact finish_length_f32 m h _ hm h1 h2

/-- quantised metrics: the normal has as many 64-bit words as the drawn vectors (any `w`, also 0) -/
theorem createSplit_length_bq {w : Nat} (m : Metric) (h : Host) (drawn : List (List Nat × List Nat))
    (hm : m.isBq = true) (hd : ∀ hv ∈ drawn, hv.2.length = w) (n : List Nat)
    (hn : createSplit m h drawn = some n) : n.length = w := by
  match drawn, hd, hn with
  | [], _, hn => cases hn
  | [a], _, hn => cases hn
  | a :: b :: rest, hd, hn =>
    rw [createSplit_cons2] at hn
    cases hn
    obtain ⟨h1, h2⟩ := twoMeans_length (d := quantizedWordBits * w) m.work h m.cosineFlag
      (ofStored m h a.1 a.2) (ofStored m h b.1 b.2)
      (rest.map fun hv => ofStored m h hv.1 hv.2)
      (by rw [ofStored_vec_bq _ _ _ _ hm, unpack_length, hd a (by simp)])
      (by rw [ofStored_vec_bq _ _ _ _ hm, unpack_length, hd b (by simp)])
      (by
        intro k hk
        obtain ⟨hv, hmem, rfl⟩ := List.mem_map.1 hk
        rw [ofStored_vec_bq _ _ _ _ hm, unpack_length, hd hv (by simp [hmem])])
    exact finish_length_bq m h _ hm h1 h2

end Split
end Arroy
