import ArroyProofs.SoftFloatRange
import ArroyModel.Distance
/-! Width of the soft-float binary32 results: every operation of the model returns a 32-bit pattern,
for arbitrary natural-number inputs (the inputs need not be 32-bit patterns themselves). -/
namespace Arroy.SF

theorem packBits_f32 (neg : Bool) (ex frac : Nat) :
    packBits f32 neg ex frac = (if neg then 2^31 else 0) + ex * 2^23 + frac := rfl

theorem packBits_lt (neg : Bool) (ex frac : Nat) (hex : ex ≤ 255) (hfrac : frac < 2^23) :
    packBits f32 neg ex frac < 2^32 := by
  rw [packBits_f32]
  have := Nat.mul_le_mul_right (2^23) hex
  split <;> omega

theorem qnan_lt : qnan f32 < 2^32 := by decide
theorem infBits_lt (neg : Bool) : infBits f32 neg < 2^32 := by cases neg <;> decide

theorem finish_lt (neg : Bool) (mant : Nat) (q : Int) (hm : mant < 2^24) : finish f32 neg mant q < 2^32 := by
  unfold finish
  obtain ⟨h1, h2, h3, h4, h5⟩ := f32_consts
  simp only [h1, h2, h3]
  split
  · exact packBits_lt _ _ _ (by omega) (by omega)
  · split
    · exact infBits_lt neg
    · exact packBits_lt _ _ _ (by omega) (by omega)

theorem lt_pow_bitLen (m : Nat) : m < 2^(bitLen m) := by
  by_cases h : m = 0
  · subst h; decide
  · exact (bitLen_bounds (by omega)).2.2

theorem roundPack_lt (neg : Bool) (m : Nat) (e : Int) (sticky : Bool) : roundPack f32 neg m e sticky < 2^32 := by
  rw [roundPack_eq']
  unfold roundPack'
  split
  · exact packBits_lt _ _ _ (by omega) (by decide)
  · obtain ⟨c1, c2, c3, c4, c5⟩ := f32_consts
    have hn2 := lt_pow_bitLen m
    have hq : qOf f32 m e = Max.max (e + (bitLen m : Int) - 24) (-149) := by
      unfold qOf; rw [c1, c4]; rfl
    have hqn : e + (bitLen m : Int) - 24 ≤ qOf f32 m e := by rw [hq]; omega
    generalize qOf f32 m e = q at *
    apply finish_lt
    show (if q - e ≤ 0 then (m * 2^((q - e).natAbs), q)
      else if roundMant m (q - e).toNat sticky == 2^f32.p then (2^(f32.p - 1), q + 1)
      else (roundMant m (q - e).toNat sticky, q)).1 < 2^24
    split
    · have ht : (q - e).natAbs = (e - q).toNat := by omega
      rw [ht]
      show m * 2^(e - q).toNat < 2^24
      calc m * 2^(e - q).toNat < 2^(bitLen m) * 2^(e - q).toNat :=
            Nat.mul_lt_mul_of_lt_of_le hn2 (Nat.le_refl _) (Nat.two_pow_pos _)
        _ = 2^(bitLen m + (e - q).toNat) := (Nat.pow_add _ _ _).symm
        _ ≤ 2^24 := Nat.pow_le_pow_right (by decide) (by omega)
    · have hr2 := roundMant_le_succ m (q - e).toNat sticky
      have hdiv : m / 2^(q - e).toNat < 2^24 := by
        rw [Nat.div_lt_iff_lt_mul (Nat.two_pow_pos _), ← Nat.pow_add]
        exact Nat.lt_of_lt_of_le hn2 (Nat.pow_le_pow_right (by decide) (by omega))
      generalize roundMant m (q - e).toNat sticky = rm at *
      rw [c1]
      split
      · show 2^(24 - 1) < 2^24
        decide
      · rename_i hcarry
        have hrm : rm ≠ 2^24 := by simpa using hcarry
        show rm < 2^24
        omega

theorem packBits_zero_lt (neg : Bool) : packBits f32 neg 0 0 < 2^32 :=
  packBits_lt _ _ _ (by omega) (by decide)

theorem addV_lt (x y : V) : addV f32 x y < 2^32 := by
  unfold addV
  split
  · exact qnan_lt
  · exact qnan_lt
  · split
    · exact infBits_lt _
    · exact qnan_lt
  · exact infBits_lt _
  · exact infBits_lt _
  · simp only
    split
    · exact packBits_zero_lt _
    · exact roundPack_lt _ _ _ _

theorem add_lt (a b : Nat) : add f32 a b < 2^32 := addV_lt _ _
theorem sub_lt (a b : Nat) : sub f32 a b < 2^32 := addV_lt _ _

theorem mul_lt (a b : Nat) : mul f32 a b < 2^32 := by
  unfold mul
  split
  · exact qnan_lt
  · exact qnan_lt
  · exact infBits_lt _
  · split
    · exact qnan_lt
    · exact infBits_lt _
  · split
    · exact qnan_lt
    · exact infBits_lt _
  · exact roundPack_lt _ _ _ _

theorem div_lt (a b : Nat) : div f32 a b < 2^32 := by
  unfold div
  split
  · exact qnan_lt
  · exact qnan_lt
  · exact qnan_lt
  · exact infBits_lt _
  · exact packBits_zero_lt _
  · split
    · split
      · exact qnan_lt
      · exact infBits_lt _
    · split
      · exact packBits_zero_lt _
      · exact roundPack_lt _ _ _ _

theorem fma_lt (a b c : Nat) : fma f32 a b c < 2^32 := by
  unfold fma
  split
  · exact qnan_lt
  · exact qnan_lt
  · exact qnan_lt
  · simp only
    split
    · exact packBits_zero_lt _
    · exact roundPack_lt _ _ _ _
  · simp only
    split
    · exact qnan_lt
    · split
      · exact infBits_lt _
      · exact qnan_lt
    · exact infBits_lt _
    · exact infBits_lt _
    · exact qnan_lt

theorem sqrt_lt (a : Nat) : sqrt f32 a < 2^32 := by
  unfold sqrt
  split
  · exact qnan_lt
  · split
    · exact qnan_lt
    · exact infBits_lt _
  · split
    · exact packBits_zero_lt _
    · split
      · exact qnan_lt
      · exact roundPack_lt _ _ _ _

end Arroy.SF

namespace Arroy.F32
theorem add_lt (a b : Nat) : F32.add a b < 2^32 := SF.add_lt a b
theorem sub_lt (a b : Nat) : F32.sub a b < 2^32 := SF.sub_lt a b
theorem mul_lt (a b : Nat) : F32.mul a b < 2^32 := SF.mul_lt a b
theorem div_lt (a b : Nat) : F32.div a b < 2^32 := SF.div_lt a b
theorem fma_lt (a b c : Nat) : F32.fma a b c < 2^32 := SF.fma_lt a b c
theorem sqrt_lt (a : Nat) : F32.sqrt a < 2^32 := SF.sqrt_lt a
theorem zero_lt : F32.zero < 2^32 := by decide
theorem one_lt : F32.one < 2^32 := by decide
theorem negOne_lt : F32.negOne < 2^32 := by decide
end Arroy.F32

namespace Arroy

theorem Metric.normNoHeader_lt (m : Metric) (h : Host) (v : List Nat) : m.normNoHeader h v < 2^32 := by
  unfold Metric.normNoHeader
  split <;> exact F32.sqrt_lt _

/-- there is one header word per header field -/
theorem Metric.newHeader_length (m : Metric) (h : Host) (v : List Nat) :
    (m.newHeader h v).length = m.header.length := by
  unfold Metric.newHeader
  exact List.length_map _

/-- every word of a header made by `new_header` is a 32-bit pattern -/
theorem Metric.newHeader_lt (m : Metric) (h : Host) (v : List Nat) : ∀ x ∈ m.newHeader h v, x < 2^32 := by
  intro x hx
  unfold Metric.newHeader at hx
  obtain ⟨fld, _, rfl⟩ := List.mem_map.mp hx
  cases fld
  all_goals first
    | exact F32.zero_lt
    | (show (if m = .dot then F32.zero else m.normNoHeader h v) < 2^32
       split
       · exact F32.zero_lt
       · exact Metric.normNoHeader_lt m h v)

end Arroy
