import ArroyModel.Build
/-! A small Hoare-style library for `BuildM`: what a computation may do to the store.

`StorePres R m` : every successful run of `m` relates the store before and after by `R`.
`NoWrite m`     : every successful run of `m` leaves the store as it is.
`R` is always a preorder (`StoreRel R`). -/
namespace Arroy
open BuildM

/-- a reflexive and transitive relation on stores -/
structure StoreRel (R : Store → Store → Prop) : Prop where
  refl : ∀ s, R s s
  trans : ∀ {a b c}, R a b → R b c → R a c

def StorePres (R : Store → Store → Prop) (m : BuildM α) : Prop :=
  ∀ st a st', m st = .ok (a, st') → R st.store st'.store

def NoWrite (m : BuildM α) : Prop :=
  ∀ st a st', m st = .ok (a, st') → st'.store = st.store

namespace BuildM

theorem bind_eq (m : BuildM α) (f : α → BuildM β) : (m >>= f) = bind' m f := rfl
theorem pure_eq (a : α) : (pure a : BuildM α) = pure' a := rfl

theorem bind'_ok {m : BuildM α} {f : α → BuildM β} {st : BState} {b : β} {st' : BState} :
    bind' m f st = .ok (b, st') ↔ ∃ a st1, m st = .ok (a, st1) ∧ f a st1 = .ok (b, st') := by
  unfold bind'
  cases h : m st with
  | error e => simp
  | ok r =>
    obtain ⟨a, st1⟩ := r
    simp only [Except.ok.injEq, Prod.mk.injEq]
    constructor
    · intro e; exact ⟨a, st1, ⟨rfl, rfl⟩, e⟩
    · rintro ⟨a', st1', ⟨rfl, rfl⟩, e⟩; exact e

theorem bind_ok {m : BuildM α} {f : α → BuildM β} {st : BState} {b : β} {st' : BState} :
    (m >>= f) st = .ok (b, st') ↔ ∃ a st1, m st = .ok (a, st1) ∧ f a st1 = .ok (b, st') := bind'_ok

theorem pure_ok {a b : α} {st st' : BState} : (pure a : BuildM α) st = .ok (b, st') ↔ a = b ∧ st = st' := by
  show Except.ok (a, st) = .ok (b, st') ↔ _
  simp

end BuildM

/-! ## `NoWrite` -/
namespace NoWrite

theorem pure (a : α) : NoWrite (pure a : BuildM α) := by
  intro st b st' h
  rw [BuildM.pure_ok] at h
  rw [h.2]

theorem pure' (a : α) : NoWrite (BuildM.pure' a) := NoWrite.pure a

theorem fail (e : Err) : NoWrite (BuildM.fail e : BuildM α) := by
  intro st b st' h; simp [BuildM.fail] at h

theorem bind' {m : BuildM α} {f : α → BuildM β} (hm : NoWrite m) (hf : ∀ a, NoWrite (f a)) :
    NoWrite (BuildM.bind' m f) := by
  intro st b st' h
  obtain ⟨a, st1, h1, h2⟩ := BuildM.bind'_ok.1 h
  rw [hf a _ _ _ h2, hm _ _ _ h1]

theorem bind {m : BuildM α} {f : α → BuildM β} (hm : NoWrite m) (hf : ∀ a, NoWrite (f a)) :
    NoWrite (m >>= f) := NoWrite.bind' hm hf

theorem getStore : NoWrite BuildM.getStore := by
  intro st b st' h; simp only [BuildM.getStore, Except.ok.injEq, Prod.mk.injEq] at h; rw [h.2]

theorem liftExcept (x : Except Err α) : NoWrite (BuildM.liftExcept x) := by
  intro st b st' h
  cases x with
  | error e => simp [BuildM.liftExcept] at h
  | ok a => simp only [BuildM.liftExcept, Except.ok.injEq, Prod.mk.injEq] at h; rw [h.2]

theorem poll : NoWrite BuildM.poll := by
  intro st b st' h
  unfold BuildM.poll at h
  split at h
  · split at h
    · simp at h
    · simp only [Except.ok.injEq, Prod.mk.injEq] at h; rw [← h.2]
  · simp only [Except.ok.injEq, Prod.mk.injEq] at h; rw [← h.2]

theorem pollN (k : Nat) : NoWrite (BuildM.pollN k) := by
  induction k with
  | zero => exact NoWrite.pure ()
  | succ k ih => exact NoWrite.bind' NoWrite.poll (fun _ => ih)

theorem nextBatch : NoWrite BuildM.nextBatch := by
  intro st b st' h
  unfold BuildM.nextBatch at h
  split at h
  · simp at h
  · simp only [Except.ok.injEq, Prod.mk.injEq] at h; rw [← h.2]

/-- the state-peeking lambda `fun s => .ok (s, s)` -/
theorem peek : NoWrite (fun s => .ok (s, s) : BuildM BState) := by
  intro st b st' h; simp only [Except.ok.injEq, Prod.mk.injEq] at h; rw [h.2]

theorem setRands (r : List Bool) : NoWrite (fun s => .ok ((), { s with rands := r }) : BuildM Unit) := by
  intro st b st' h; simp only [Except.ok.injEq, Prod.mk.injEq] at h; rw [← h.2]

theorem setNormalsRands (n : List (List Nat)) (r : List Bool) :
    NoWrite (fun s => .ok ((), { s with normals := n, rands := r }) : BuildM Unit) := by
  intro st b st' h; simp only [Except.ok.injEq, Prod.mk.injEq] at h; rw [← h.2]

theorem forEach (l : List α) (f : α → BuildM Unit) (hf : ∀ a, NoWrite (f a)) : NoWrite (BuildM.forEach l f) := by
  induction l with
  | nil => exact NoWrite.pure ()
  | cons x xs ih => exact NoWrite.bind' (hf x) (fun _ => ih)

theorem usedTreeNode (c : Cfg) : NoWrite (Build.usedTreeNode c) := by
  intro st b st' h
  unfold Build.usedTreeNode at h
  dsimp only at h
  split at h
  · split at h <;> (simp only [Except.ok.injEq, Prod.mk.injEq] at h; rw [← h.2])
  · simp only [Except.ok.injEq, Prod.mk.injEq] at h; rw [← h.2]

theorem reifyRoot (c : Cfg) (s : Store) (root : Nat) : NoWrite (Build.reifyRoot c s root) := by
  unfold Build.reifyRoot
  split
  · exact NoWrite.pure _
  · exact NoWrite.fail _

theorem ite {p : Prop} [Decidable p] {a b : BuildM α} (ha : NoWrite a) (hb : NoWrite b) :
    NoWrite (if p then a else b) := by
  split <;> assumption

end NoWrite

/-! ## `StorePres` -/
namespace StorePres
variable {R : Store → Store → Prop}

theorem of_noWrite (hR : StoreRel R) {m : BuildM α} (h : NoWrite m) : StorePres R m := by
  intro st a st' e
  rw [h st a st' e]
  exact hR.refl _

theorem mono {R' : Store → Store → Prop} (hRR : ∀ s s', R s s' → R' s s') {m : BuildM α} (h : StorePres R m) :
    StorePres R' m := fun st a st' e => hRR _ _ (h st a st' e)

theorem pure (hR : StoreRel R) (a : α) : StorePres R (pure a : BuildM α) := of_noWrite hR (NoWrite.pure a)
theorem pure' (hR : StoreRel R) (a : α) : StorePres R (BuildM.pure' a) := of_noWrite hR (NoWrite.pure a)
theorem fail (e : Err) : StorePres R (BuildM.fail e : BuildM α) := by
  intro st b st' h; simp [BuildM.fail] at h

theorem bind' (hR : StoreRel R) {m : BuildM α} {f : α → BuildM β} (hm : StorePres R m)
    (hf : ∀ a, StorePres R (f a)) : StorePres R (BuildM.bind' m f) := by
  intro st b st' h
  obtain ⟨a, st1, h1, h2⟩ := BuildM.bind'_ok.1 h
  exact hR.trans (hm _ _ _ h1) (hf a _ _ _ h2)

theorem bind (hR : StoreRel R) {m : BuildM α} {f : α → BuildM β} (hm : StorePres R m)
    (hf : ∀ a, StorePres R (f a)) : StorePres R (m >>= f) := bind' hR hm hf

theorem getStore (hR : StoreRel R) : StorePres R BuildM.getStore := of_noWrite hR NoWrite.getStore
theorem liftExcept (hR : StoreRel R) (x : Except Err α) : StorePres R (BuildM.liftExcept x) :=
  of_noWrite hR (NoWrite.liftExcept x)
theorem poll (hR : StoreRel R) : StorePres R BuildM.poll := of_noWrite hR NoWrite.poll
theorem pollN (hR : StoreRel R) (k : Nat) : StorePres R (BuildM.pollN k) := of_noWrite hR (NoWrite.pollN k)
theorem nextBatch (hR : StoreRel R) : StorePres R BuildM.nextBatch := of_noWrite hR NoWrite.nextBatch
theorem peek (hR : StoreRel R) : StorePres R (fun s => .ok (s, s) : BuildM BState) := of_noWrite hR NoWrite.peek
theorem setRands (hR : StoreRel R) (r : List Bool) :
    StorePres R (fun s => .ok ((), { s with rands := r }) : BuildM Unit) := of_noWrite hR (NoWrite.setRands r)
theorem setNormalsRands (hR : StoreRel R) (n : List (List Nat)) (r : List Bool) :
    StorePres R (fun s => .ok ((), { s with normals := n, rands := r }) : BuildM Unit) :=
  of_noWrite hR (NoWrite.setNormalsRands n r)
theorem usedTreeNode (hR : StoreRel R) (c : Cfg) : StorePres R (Build.usedTreeNode c) :=
  of_noWrite hR (NoWrite.usedTreeNode c)
theorem reifyRoot (hR : StoreRel R) (c : Cfg) (s : Store) (root : Nat) : StorePres R (Build.reifyRoot c s root) :=
  of_noWrite hR (NoWrite.reifyRoot c s root)

theorem modifyStore (f : Store → Store) (h : ∀ s, R s (f s)) : StorePres R (BuildM.modifyStore f) := by
  intro st a st' e
  simp only [BuildM.modifyStore, Except.ok.injEq, Prod.mk.injEq] at e
  rw [← e.2]; exact h _

/-- `setStore` after reading the store: the written store must be related to the one read -/
theorem getStore_bind {β : Type} {f : Store → BuildM β} (h : ∀ s, ∀ st a st', st.store = s → f s st = .ok (a, st') → R s st'.store) :
    StorePres R (BuildM.getStore >>= f) := by
  intro st a st' e
  obtain ⟨s, st1, h1, h2⟩ := BuildM.bind_ok.1 e
  simp only [BuildM.getStore, Except.ok.injEq, Prod.mk.injEq] at h1
  obtain ⟨rfl, rfl⟩ := h1
  exact h _ _ _ _ rfl h2

/-- the pattern `let s ← getStore; let s' ← liftExcept (x s); setStore s'; rest` -/
theorem getStore_lift_set (hR : StoreRel R) {x : Store → Except Err Store} {rest : Store → Store → BuildM β}
    (hx : ∀ s s', x s = .ok s' → R s s') (hrest : ∀ s s', StorePres R (rest s s')) :
    StorePres R (BuildM.getStore >>= fun s => BuildM.liftExcept (x s) >>= fun s' =>
      BuildM.setStore s' >>= fun _ => rest s s') := by
  apply getStore_bind
  intro s st a st' hs e
  obtain ⟨s', st1, h1, h2⟩ := BuildM.bind_ok.1 e
  obtain ⟨u, st2, h3, h4⟩ := BuildM.bind_ok.1 h2
  cases hxs : x s with
  | error err => simp [BuildM.liftExcept, hxs] at h1
  | ok s'' =>
    simp only [BuildM.liftExcept, hxs, Except.ok.injEq, Prod.mk.injEq] at h1
    obtain ⟨rfl, rfl⟩ := h1
    simp only [BuildM.setStore, Except.ok.injEq, Prod.mk.injEq] at h3
    have := hrest s s'' _ _ _ h4
    rw [← h3.2] at this
    exact hR.trans (hx _ _ hxs) this

theorem forEach (hR : StoreRel R) (l : List α) (f : α → BuildM Unit) (hf : ∀ a, StorePres R (f a)) :
    StorePres R (BuildM.forEach l f) := by
  induction l with
  | nil => exact pure hR ()
  | cons x xs ih => exact bind' hR (hf x) (fun _ => ih)

theorem ite {p : Prop} [Decidable p] {a b : BuildM α} (ha : StorePres R a) (hb : StorePres R b) :
    StorePres R (if p then a else b) := by
  split <;> assumption

end StorePres

/-- `StorePres` under a precondition on the initial store -/
def StorePresFrom (P : Store → Prop) (R : Store → Store → Prop) (m : BuildM α) : Prop :=
  ∀ st a st', P st.store → m st = .ok (a, st') → R st.store st'.store

namespace StorePresFrom
variable {R : Store → Store → Prop} {P : Store → Prop}

theorem of_pres {m : BuildM α} (h : StorePres R m) : StorePresFrom P R m := fun st a st' _ e => h st a st' e

theorem toPres {m : BuildM α} (h : StorePresFrom (fun _ => True) R m) : StorePres R m :=
  fun st a st' e => h st a st' trivial e

/-- the precondition is only needed by the first computation -/
theorem bind (hR : StoreRel R) {m : BuildM α} {f : α → BuildM β} (hm : StorePresFrom P R m)
    (hf : ∀ a, StorePres R (f a)) : StorePresFrom P R (m >>= f) := by
  intro st b st' hP h
  obtain ⟨a, st1, h1, h2⟩ := BuildM.bind_ok.1 h
  exact hR.trans (hm _ _ _ hP h1) (hf a _ _ _ h2)

end StorePresFrom

end Arroy
