import ArroyProofs.F32OfNat
/-! Helper lemmas for C12: non-negative binary32 bit patterns are ordered like their values
(`F32.le` / `F32.lt`), consequences for `F32.ofNat`, `f32::max(0.0)`, commutativity of `F32.mul`. -/
namespace Arroy
namespace F32L
open SF

theorem unpack_inf : SF.unpack F32.fmt 0x7f800000 = .inf false := by rfl

theorem unpack_pos (x : Nat) (hx : x < 0x7f800000) :
    SF.unpack F32.fmt x =
      if x / 2 ^ 23 = 0 then .fin false (x % 2 ^ 23) (-149)
      else .fin false (x % 2 ^ 23 + 2 ^ 23) (((x / 2 ^ 23 : Nat) : Int) - 150) := by
  unfold SF.unpack
  simp only [fmt_p, fmt_width, fmt_emax, fmt_qmin, fmt_bias]
  have h1 : x / 2 ^ (32 - 1) % 2 = 0 := by omega
  have h2 : x / 2 ^ (24 - 1) % 2 ^ F32.fmt.ebits = x / 2 ^ 23 := by
    show x / 2 ^ (24 - 1) % 2 ^ 8 = x / 2 ^ 23
    omega
  have h3 : x / 2 ^ 23 < 255 := by omega
  simp only [h1, h2]
  have h4 : (x / 2 ^ 23 == 255) = false := by
    rw [beq_eq_false_iff_ne]; omega
  have h5 : ((0 : Nat) == 1) = false := by decide
  have h6 : ((x / 2 ^ 23 : Nat) : Int) - ((127 : Nat) : Int) - (((24 : Nat) : Int) - 1)
      = ((x / 2 ^ 23 : Nat) : Int) - 150 := by omega
  simp only [h4, h5, h6, Bool.false_eq_true, if_false, beq_iff_eq]

/-- the value order of two finite non-negative patterns, in the form `ltV`/`exactAdd` use it -/
theorem scaled_le {x y : Nat} (hxy : x ≤ y) (hy : y < 0x7f800000) :
    ∀ mx ex my ey, SF.unpack F32.fmt x = .fin false mx ex → SF.unpack F32.fmt y = .fin false my ey →
      mx * 2 ^ ((ex - min ex ey).toNat) ≤ my * 2 ^ ((ey - min ex ey).toNat)
      ∧ (x < y → mx * 2 ^ ((ex - min ex ey).toNat) < my * 2 ^ ((ey - min ex ey).toNat)) := by
  intro mx ex my ey hux huy
  rw [unpack_pos x (by omega)] at hux
  rw [unpack_pos y hy] at huy
  have hdx := Nat.div_add_mod x (2 ^ 23)
  have hdy := Nat.div_add_mod y (2 ^ 23)
  have hq : x / 2 ^ 23 ≤ y / 2 ^ 23 := Nat.div_le_div_right hxy
  have hrx : x % 2 ^ 23 < 2 ^ 23 := Nat.mod_lt _ (by decide)
  have hry : y % 2 ^ 23 < 2 ^ 23 := Nat.mod_lt _ (by decide)
  generalize x / 2 ^ 23 = qx at *
  generalize y / 2 ^ 23 = qy at *
  generalize x % 2 ^ 23 = rx at *
  generalize y % 2 ^ 23 = ry at *
  by_cases hx0 : qx = 0
  · rw [if_pos hx0] at hux
    obtain ⟨-, rfl, rfl⟩ := V.fin.inj hux
    by_cases hy0 : qy = 0
    · rw [if_pos hy0] at huy
      obtain ⟨-, rfl, rfl⟩ := V.fin.inj huy
      have e0 : ((-149 : Int) - min (-149) (-149)).toNat = 0 := by omega
      rw [e0]; omega
    · rw [if_neg hy0] at huy
      obtain ⟨-, rfl, rfl⟩ := V.fin.inj huy
      have e0 : ((-149 : Int) - min (-149) ((qy : Int) - 150)).toNat = 0 := by omega
      have e1 : (((qy : Int) - 150) - min (-149) ((qy : Int) - 150)).toNat = qy - 1 := by omega
      rw [e0, e1]
      have := Nat.le_mul_of_pos_right (ry + 2 ^ 23) (Nat.two_pow_pos (qy - 1))
      omega
  · rw [if_neg hx0] at hux
    obtain ⟨-, rfl, rfl⟩ := V.fin.inj hux
    have hy0 : qy ≠ 0 := by omega
    rw [if_neg hy0] at huy
    obtain ⟨-, rfl, rfl⟩ := V.fin.inj huy
    have e0 : (((qx : Int) - 150) - min ((qx : Int) - 150) ((qy : Int) - 150)).toNat = 0 := by omega
    have e1 : (((qy : Int) - 150) - min ((qx : Int) - 150) ((qy : Int) - 150)).toNat = qy - qx := by omega
    rw [e0, e1]
    rcases Nat.lt_or_eq_of_le hq with hlt | heq
    · have h2 : 2 ^ 1 ≤ 2 ^ (qy - qx) := Nat.pow_le_pow_right (by decide) (by omega)
      have := Nat.mul_le_mul_left (ry + 2 ^ 23) h2
      omega
    · subst heq
      rw [Nat.sub_self]; omega

theorem isNaN_false_of_le {x : Nat} (hx : x ≤ 0x7f800000) : F32.isNaN x = false := by
  unfold F32.isNaN SF.isNaN
  rcases Nat.lt_or_eq_of_le hx with h | h
  · rw [unpack_pos x h]
    by_cases hq : x / 2 ^ 23 = 0
    · rw [if_pos hq]
    · rw [if_neg hq]
  · subst h; rfl

/-- non-negative bit patterns up to `+inf` are ordered like their values -/
theorem lt_false_of_bits_le {x y : Nat} (hxy : x ≤ y) (hy : y ≤ 0x7f800000) : F32.lt y x = false := by
  unfold F32.lt SF.lt
  rcases Nat.lt_or_eq_of_le hy with h | h
  · have ux := unpack_pos x (by omega)
    have uy := unpack_pos y h
    have hx' : ∃ mx ex, SF.unpack F32.fmt x = .fin false mx ex := by
      rw [ux]; split <;> exact ⟨_, _, rfl⟩
    have hy' : ∃ my ey, SF.unpack F32.fmt y = .fin false my ey := by
      rw [uy]; split <;> exact ⟨_, _, rfl⟩
    obtain ⟨mx, ex, hx'⟩ := hx'
    obtain ⟨my, ey, hy'⟩ := hy'
    have := (scaled_le hxy h mx ex my ey hx' hy').1
    rw [hx', hy']
    simp only [SF.ltV, SF.exactAdd, Bool.not_false, Bool.false_eq_true, if_false, if_true]
    rw [Int.min_comm] 
    generalize mx * 2 ^ ((ex - min ex ey).toNat) = a at *
    generalize my * 2 ^ ((ey - min ex ey).toNat) = b at *
    have : ¬ ((b : Int) + -(a : Int) < 0) := by omega
    simp [this]
  · subst h
    rw [unpack_inf]
    cases SF.unpack F32.fmt x <;> simp [SF.ltV]

theorem le_of_bits_le {x y : Nat} (hxy : x ≤ y) (hy : y ≤ 0x7f800000) : F32.le x y = true := by
  unfold F32.le SF.le
  have h1 := isNaN_false_of_le (x := x) (by omega)
  have h2 := isNaN_false_of_le hy
  have h3 := lt_false_of_bits_le hxy hy
  unfold F32.isNaN at h1 h2
  unfold F32.lt at h3
  simp [h1, h2, h3]

theorem lt_true_of_bits_lt {x y : Nat} (hxy : x < y) (hy : y ≤ 0x7f800000) : F32.lt x y = true := by
  unfold F32.lt SF.lt
  have ux := unpack_pos x (by omega)
  have hx' : ∃ mx ex, SF.unpack F32.fmt x = .fin false mx ex := by
    rw [ux]; by_cases hq : x / 2 ^ 23 = 0
    · rw [if_pos hq]; exact ⟨_, _, rfl⟩
    · rw [if_neg hq]; exact ⟨_, _, rfl⟩
  obtain ⟨mx, ex, hx'⟩ := hx'
  rcases Nat.lt_or_eq_of_le hy with h | h
  · have uy := unpack_pos y h
    have hy' : ∃ my ey, SF.unpack F32.fmt y = .fin false my ey := by
      rw [uy]; by_cases hq : y / 2 ^ 23 = 0
      · rw [if_pos hq]; exact ⟨_, _, rfl⟩
      · rw [if_neg hq]; exact ⟨_, _, rfl⟩
    obtain ⟨my, ey, hy'⟩ := hy'
    have := (scaled_le (Nat.le_of_lt hxy) h mx ex my ey hx' hy').2 hxy
    rw [hx', hy']
    simp only [SF.ltV, SF.exactAdd, Bool.not_false, Bool.false_eq_true, if_false, if_true]
    generalize mx * 2 ^ ((ex - min ex ey).toNat) = a at *
    generalize my * 2 ^ ((ey - min ex ey).toNat) = b at *
    have h1 : ((a : Int) + -(b : Int) < 0) := by omega
    have h2 : ((a : Int) + -(b : Int)).natAbs ≠ 0 := by omega
    simp [h1, h2]
  · subst h
    rw [unpack_inf, hx']
    simp [SF.ltV]

theorem ofNat_le {a b : Nat} (hab : a ≤ b) : F32.le (F32.ofNat a) (F32.ofNat b) = true :=
  le_of_bits_le (ofNat_mono hab) (ofNat_le_inf b)

theorem ofNat_lt {a b : Nat} (hab : a < b) (hb : b < 2 ^ 24) :
    F32.lt (F32.ofNat a) (F32.ofNat b) = true :=
  lt_true_of_bits_lt (ofNat_strict_mono hab hb) (ofNat_le_inf b)

theorem ofNat_not_nan (n : Nat) : F32.isNaN (F32.ofNat n) = false :=
  isNaN_false_of_le (ofNat_le_inf n)

/-- `(n as f32).max(0.0)` is `n as f32` -/
theorem max_ofNat_zero (n : Nat) : F32.max (F32.ofNat n) F32.zero = F32.ofNat n := by
  have h1 := ofNat_not_nan n
  have h2 : F32.isNaN F32.zero = false := by decide
  have h3 : F32.lt (F32.ofNat n) F32.zero = false :=
    lt_false_of_bits_le (x := F32.zero) (Nat.zero_le _) (ofNat_le_inf n)
  unfold F32.isNaN at h1 h2
  unfold F32.lt at h3
  unfold F32.max SF.max
  simp [h1, h2, h3]

theorem bne_comm' (s t : Bool) : (s != t) = (t != s) := by cases s <;> cases t <;> rfl

theorem mul_comm (a b : Nat) : F32.mul a b = F32.mul b a := by
  unfold F32.mul SF.mul
  cases SF.unpack F32.fmt a <;> cases SF.unpack F32.fmt b <;>
    simp only [bne_comm', Nat.mul_comm, Int.add_comm]

end F32L
end Arroy
