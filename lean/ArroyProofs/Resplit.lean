import ArroyProofs.ResplitRound
/-! The loop `incremental_index_large_descendants`: it keeps the forest, its routing, and ends with
no over-full bucket if every over-full bucket was queued. -/
namespace Arroy
open BuildM Generated IdSet

theorem resplit_spec (c : Cfg) (o : BuildOpts) (roots items : List Nat) (hi : c.index < 65536)
    (hcap : 1 ≤ Build.cap c o) (fuel : Nat) :
    ∀ (large : List Nat) (ts : List T) (g : IdGen) (inUse : List Nat) (st st' : BState),
    Forest c st.store roots items ts →
    (∀ i ∈ ts.flatMap T.ids, i ∈ inUse) → GenOK inUse g → Store.WF st.store →
    Build.incrementalIndexLargeDescendants c o fuel large g st = .ok ((), st') →
    ∃ ts' : List T, Forest c st'.store roots items ts' ∧
      StoreStep c st.store st'.store ∧ TreeFrame c st.store st'.store ∧
      ((∀ t ∈ ts, RoutedT (Build.treeCtx c o st.store) t) → ∀ t ∈ ts', RoutedT (Build.treeCtx c o st.store) t) ∧
      ((∀ t ∈ ts, ∀ bk ∈ t.buckets, ¬ fits (Build.cap c o) bk.2.length → bk.1 ∈ large) →
        ∀ t ∈ ts', ∀ bk ∈ t.buckets, bk.2.length ≤ Build.cap c o) := by
  induction fuel with
  | zero =>
    intro large ts g inUse st st' f _ _ _ h
    simp only [Build.incrementalIndexLargeDescendants] at h
    split at h
    · rename_i hemp
      obtain ⟨_, rfl⟩ := pure_ok' h
      have hl : large = [] := by simpa [List.isEmpty_iff] using hemp
      subst hl
      refine ⟨ts, f, .refl _, TreeFrame.refl _ _, fun h => h, ?_⟩
      intro hq t ht bk hbk
      by_cases hf : fits (Build.cap c o) bk.2.length = true
      · simpa [fits] using hf
      · exact absurd (hq t ht bk hbk hf) (by simp)
    · exact (fail_ok h).elim
  | succ fuel ih =>
    intro large ts g inUse st st' f hin hg hw h
    cases large with
    | nil =>
      simp only [Build.incrementalIndexLargeDescendants] at h
      obtain ⟨_, rfl⟩ := pure_ok' h
      refine ⟨ts, f, .refl _, TreeFrame.refl _ _, fun h => h, ?_⟩
      intro hq t ht bk hbk
      by_cases hf : fits (Build.cap c o) bk.2.length = true
      · simpa [fits] using hf
      · exact absurd (hq t ht bk hbk hf) (by simp)
    | cons b large1 =>
      simp only [Build.incrementalIndexLargeDescendants] at h
      obtain ⟨u1, st1, h1, k1⟩ := bind_ok_inv h
      clear h
      have e1 := poll_store' h1
      obtain ⟨s, st2, h2, k2⟩ := bind_ok_inv k1
      clear k1
      obtain ⟨e2a, e2b⟩ := getStore_ok' h2
      have hs : s = st.store := by rw [← e2a, e1]
      subst hs
      generalize hget : Store.get st.store (c.treeKey b) = gv at k2
      cases gv with
      | none => exact (fail_ok k2).elim
      | some v =>
      cases v with
      | desc ids =>
        obtain ⟨k, st3, h3, k3⟩ := bind_ok_inv k2
        clear k2
        have e3 := nextBatch_ok' h3
        split at k3
        · exact (fail_ok k3).elim
        · obtain ⟨sp, st4, h4, k4⟩ := bind_ok_inv k3
          clear k3
          obtain ⟨e4a, e4b⟩ := peek_ok' h4
          obtain ⟨r, st5, h5, k5⟩ := bind_ok_inv k4
          clear k4
          obtain ⟨hm, e5⟩ := liftExcept_ok' h5
          obtain ⟨u6, st6, h6, k6⟩ := bind_ok_inv k5
          clear k5
          have e6 : st6.store = st5.store := by cases h6; rfl
          obtain ⟨u7, st7, h7, k7⟩ := bind_ok_inv k6
          clear k6
          have e7 := pollN_store' h7
          obtain ⟨u8, st8, h8, k8⟩ := bind_ok_inv k7
          clear k7
          obtain ⟨x, st9, h9, k9⟩ := bind_ok_inv k8
          clear k8
          obtain ⟨large2, g2⟩ := x
          simp only at k9
          have hst7 : st7.store = st.store := by
            rw [e7, e6, ← e5, ← e4b, e3, ← e2b, e1]
          obtain ⟨u', inUse', fnew, hat, r3, r4, r5, r6, r7, r8, r9, r10⟩ :=
            resplit_round c o roots items ts st.store b ids k g g2 inUse _ _ _ _ r st7 st8 st9 large2
              f hget hin hg hw hi hcap hm hst7 h8 h9
          have hcx : Build.treeCtx c o st9.store = Build.treeCtx c o st.store := r7.treeCtx o
          obtain ⟨ts', f', q1, q2, q3, q4⟩ :=
            ih (IdSet.union large1 large2) (ts.map (fun t => t.subst b u')) g2 inUse' st9 st' fnew
              (by
                intro i hi'
                rw [List.flatMap_map] at hi'
                obtain ⟨t, ht, hit⟩ := List.mem_flatMap.1 hi'
                rcases (T.mem_ids_subst (f.tree_nodup ht) (hat t ht) i).1 hit with ⟨h', _⟩ | ⟨_, h'⟩
                · exact r4 i (hin i (List.mem_flatMap.2 ⟨t, ht, h'⟩))
                · exact r5 i h')
              r3 (r6.wf hw) k9
          rw [hcx] at q3
          refine ⟨ts', f', r6.trans q1, r7.trans q2, ?_, ?_⟩
          · intro hr
            apply q3
            intro t' ht'
            obtain ⟨t, ht, rfl⟩ := List.mem_map.1 ht'
            exact T.routed_subst (f.tree_nodup ht) (hat t ht) r9 r8 (hr t ht)
          · intro hq
            apply q4
            intro t' ht' bk hbk hnf
            obtain ⟨t, ht, rfl⟩ := List.mem_map.1 ht'
            apply mem_union.2
            rcases T.buckets_subst bk hbk with h' | ⟨h', hne⟩
            · exact Or.inr (r10 bk h' hnf)
            · have := hq t ht bk h' hnf
              rcases List.mem_cons.1 this with h'' | h''
              · exact absurd h'' hne
              · exact Or.inl h''
      | _ => exact (fail_ok k2).elim

end Arroy
