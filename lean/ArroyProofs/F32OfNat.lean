import ArroyModel.Distance
/-! Helper lemmas for C12: `F32.ofNat` (`u32 as f32`) as a closed formula on bit patterns,
its monotonicity (round-to-nearest-even is monotone), comparison of non-negative bit patterns,
commutativity of `F32.mul`. -/
namespace Arroy
namespace F32L
open SF

theorem fmt_qmin : F32.fmt.qmin = -149 := by decide
theorem fmt_p : F32.fmt.p = 24 := rfl
theorem fmt_bias : F32.fmt.bias = 127 := by decide
theorem fmt_emax : F32.fmt.emaxField = 255 := by decide
theorem fmt_width : F32.fmt.width = 32 := by decide

theorem bitLen_spec {n : Nat} (h : 0 < n) : 0 < bitLen n ∧ 2 ^ (bitLen n - 1) ≤ n ∧ n < 2 ^ bitLen n := by
  have h0 : n ≠ 0 := by omega
  simp only [bitLen, h0, if_false]
  refine ⟨by omega, ?_, Nat.lt_log2_self⟩
  simpa using Nat.log2_self_le h0

theorem ofNat_small (n : Nat) (h0 : 0 < n) (hL : bitLen n ≤ 24) :
    F32.ofNat n = (bitLen n + 126) * 2 ^ 23 + (n * 2 ^ (24 - bitLen n) - 2 ^ 23) := by
  obtain ⟨hLp, hlo, hhi⟩ := bitLen_spec h0
  unfold F32.ofNat SF.ofNat SF.roundPack
  simp only [fmt_qmin, fmt_p, fmt_bias, fmt_emax]
  generalize bitLen n = L at *
  have hq : max (0 + (L : Int) - ((24 : Nat) : Int)) (-149) = (L : Int) - 24 := by omega
  simp only [hq]
  have hle : (L : Int) - 24 - 0 ≤ 0 := by omega
  have hna : ((L : Int) - 24 - 0).natAbs = 24 - L := by omega
  simp only [if_pos hle, hna]
  have hn0 : (n == 0 && !false) = false := by
    have : n ≠ 0 := by omega
    simp [this]
  simp only [hn0]
  -- mantissa range
  have hm : 2 ^ 23 ≤ n * 2 ^ (24 - L) ∧ n * 2 ^ (24 - L) < 2 ^ 24 := by
    have e1 : 2 ^ (L - 1) * 2 ^ (24 - L) = 2 ^ 23 := by
      rw [← Nat.pow_add]; congr 1; omega
    have e2 : 2 ^ L * 2 ^ (24 - L) = 2 ^ 24 := by
      rw [← Nat.pow_add]; congr 1; omega
    constructor
    · rw [← e1]; exact Nat.mul_le_mul_right _ hlo
    · rw [← e2]; exact Nat.mul_lt_mul_of_pos_right hhi (Nat.two_pow_pos _)
  generalize n * 2 ^ (24 - L) = m at *
  have hex : ((L : Int) - 24 + ((127 : Nat) : Int) + (((24 : Nat) : Int) - 1)).toNat = L + 126 := by omega
  have hge : ¬ ((L : Int) - 24 + ((127 : Nat) : Int) + (((24 : Nat) : Int) - 1) ≥ ((255 : Nat) : Int)) := by omega
  have hlt : ¬ (m < 2 ^ (24 - 1)) := by omega
  simp only [Bool.false_eq_true, if_false]
  simp only [if_neg hlt]
  simp only [if_neg hge]
  simp only [hex, packBits, fmt_p]
  simp only [Bool.false_eq_true, if_false]
  omega

/-- round to nearest, ties to even, of `a / P` where `half = P / 2` -/
def rne (P half a : Nat) : Nat :=
  if (decide (a % P > half) || (a % P == half && a / P % 2 == 1)) then a / P + 1 else a / P

theorem ofNat_big (n : Nat) (hL : 24 < bitLen n) :
    F32.ofNat n =
      (let r := rne (2 ^ (bitLen n - 24)) (2 ^ (bitLen n - 24 - 1)) n
       if bitLen n + 126 + (if r = 2 ^ 24 then 1 else 0) ≥ 255 then 0x7f800000
       else (bitLen n + 126) * 2 ^ 23 + (r - 2 ^ 23)) := by
  unfold rne
  have h0 : 0 < n := by
    rcases Nat.eq_zero_or_pos n with h | h
    · subst h; simp [bitLen] at hL
    · exact h
  obtain ⟨hLp, hlo, hhi⟩ := bitLen_spec h0
  unfold F32.ofNat SF.ofNat SF.roundPack
  simp only [fmt_qmin, fmt_p, fmt_bias, fmt_emax]
  generalize bitLen n = L at *
  have hq : max (0 + (L : Int) - ((24 : Nat) : Int)) (-149) = (L : Int) - 24 := by omega
  simp only [hq]
  have hle : ¬ ((L : Int) - 24 - 0 ≤ 0) := by omega
  have hna : ((L : Int) - 24 - 0).toNat = L - 24 := by omega
  simp only [if_neg hle, hna]
  have hn0 : (n == 0 && !false) = false := by
    have : n ≠ 0 := by omega
    simp [this]
  simp only [hn0]
  have hm : 2 ^ 23 ≤ n / 2 ^ (L - 24) ∧ n / 2 ^ (L - 24) < 2 ^ 24 := by
    have e1 : 2 ^ 23 * 2 ^ (L - 24) = 2 ^ (L - 1) := by
      rw [← Nat.pow_add]; congr 1; omega
    have e2 : 2 ^ 24 * 2 ^ (L - 24) = 2 ^ L := by
      rw [← Nat.pow_add]; congr 1; omega
    constructor
    · rw [Nat.le_div_iff_mul_le (Nat.two_pow_pos _), e1]; exact hlo
    · rw [Nat.div_lt_iff_lt_mul (Nat.two_pow_pos _), e2]; exact hhi
  generalize n / 2 ^ (L - 24) = hi at *
  simp only [Bool.false_or]
  generalize (decide (n % 2 ^ (L - 24) > 2 ^ (L - 24 - 1)) || (n % 2 ^ (L - 24) == 2 ^ (L - 24 - 1) && hi % 2 == 1)) = B
  have hr : 2 ^ 23 ≤ (if B = true then hi + 1 else hi) ∧ (if B = true then hi + 1 else hi) ≤ 2 ^ 24 := by
    split <;> omega
  generalize (if B = true then hi + 1 else hi) = r at *
  simp only [Bool.false_eq_true, if_false, packBits, infBits, fmt_p, fmt_emax, beq_iff_eq]
  by_cases hc : r = 2 ^ 24
  · simp only [if_pos hc]
    have hlt : ¬ ((2:Nat) ^ (24 - 1) < 2 ^ (24 - 1)) := by omega
    simp only [if_neg hlt]
    by_cases hinf : L + 126 + 1 ≥ 255
    · have : (L : Int) - 24 + 1 + ((127 : Nat) : Int) + (((24 : Nat) : Int) - 1) ≥ ((255 : Nat) : Int) := by omega
      simp only [if_pos this, if_pos hinf]
    · have : ¬ ((L : Int) - 24 + 1 + ((127 : Nat) : Int) + (((24 : Nat) : Int) - 1) ≥ ((255 : Nat) : Int)) := by omega
      have hex : ((L : Int) - 24 + 1 + ((127 : Nat) : Int) + (((24 : Nat) : Int) - 1)).toNat = L + 127 := by omega
      simp only [if_neg this, if_neg hinf, hex]; omega
  · simp only [if_neg hc]
    have hlt : ¬ (r < 2 ^ (24 - 1)) := by omega
    simp only [if_neg hlt]
    by_cases hinf : L + 126 + 0 ≥ 255
    · have : (L : Int) - 24 + ((127 : Nat) : Int) + (((24 : Nat) : Int) - 1) ≥ ((255 : Nat) : Int) := by omega
      simp only [if_pos this, if_pos hinf]
    · have : ¬ ((L : Int) - 24 + ((127 : Nat) : Int) + (((24 : Nat) : Int) - 1) ≥ ((255 : Nat) : Int)) := by omega
      have hex : ((L : Int) - 24 + ((127 : Nat) : Int) + (((24 : Nat) : Int) - 1)).toNat = L + 126 := by omega
      simp only [if_neg this, if_neg hinf, hex]; omega

/-- the rounded 24-bit significand of `n > 0` (in `[2^23, 2^24]`; `2^24` = carry into the exponent) -/
def sig (n : Nat) : Nat :=
  if bitLen n ≤ 24 then n * 2 ^ (24 - bitLen n)
  else rne (2 ^ (bitLen n - 24)) (2 ^ (bitLen n - 24 - 1)) n

/-- exponent field and fraction laid out as a number; exceeds the pattern of `+inf` on overflow -/
def enc (n : Nat) : Nat := (bitLen n + 126) * 2 ^ 23 + (sig n - 2 ^ 23)

theorem rne_bounds (P half a : Nat) : a / P ≤ rne P half a ∧ rne P half a ≤ a / P + 1 := by
  unfold rne; split <;> omega

theorem sig_bounds {n : Nat} (h0 : 0 < n) : 2 ^ 23 ≤ sig n ∧ sig n ≤ 2 ^ 24 := by
  obtain ⟨hLp, hlo, hhi⟩ := bitLen_spec h0
  unfold sig
  generalize bitLen n = L at *
  split
  · have e1 : 2 ^ (L - 1) * 2 ^ (24 - L) = 2 ^ 23 := by
      rw [← Nat.pow_add]; congr 1; omega
    have e2 : 2 ^ L * 2 ^ (24 - L) = 2 ^ 24 := by
      rw [← Nat.pow_add]; congr 1; omega
    constructor
    · rw [← e1]; exact Nat.mul_le_mul_right _ hlo
    · rw [← e2]; exact Nat.le_of_lt (Nat.mul_lt_mul_of_pos_right hhi (Nat.two_pow_pos _))
  · have hm : 2 ^ 23 ≤ n / 2 ^ (L - 24) ∧ n / 2 ^ (L - 24) < 2 ^ 24 := by
      have e1 : 2 ^ 23 * 2 ^ (L - 24) = 2 ^ (L - 1) := by
        rw [← Nat.pow_add]; congr 1; omega
      have e2 : 2 ^ 24 * 2 ^ (L - 24) = 2 ^ L := by
        rw [← Nat.pow_add]; congr 1; omega
      constructor
      · rw [Nat.le_div_iff_mul_le (Nat.two_pow_pos _), e1]; exact hlo
      · rw [Nat.div_lt_iff_lt_mul (Nat.two_pow_pos _), e2]; exact hhi
    have := rne_bounds (2 ^ (L - 24)) (2 ^ (L - 24 - 1)) n
    omega

theorem ofNat_zero : F32.ofNat 0 = 0 := by decide

/-- `n as f32`, as a bit pattern -/
theorem ofNat_eq_min {n : Nat} (h0 : 0 < n) : F32.ofNat n = min (enc n) 0x7f800000 := by
  have hb := sig_bounds h0
  by_cases hL : bitLen n ≤ 24
  · rw [ofNat_small n h0 hL]
    unfold enc
    have hs : sig n = n * 2 ^ (24 - bitLen n) := by simp [sig, hL]
    rw [← hs]
    omega
  · rw [ofNat_big n (by omega)]
    have hs : sig n = rne (2 ^ (bitLen n - 24)) (2 ^ (bitLen n - 24 - 1)) n := by simp [sig, hL]
    simp only [← hs]
    unfold enc
    generalize sig n = r at *
    split <;> split at * <;> omega

theorem ofNat_le_inf (n : Nat) : F32.ofNat n ≤ 0x7f800000 := by
  rcases Nat.eq_zero_or_pos n with h | h
  · subst h; rw [ofNat_zero]; omega
  · rw [ofNat_eq_min h]; omega

theorem bitLen_mono {a b : Nat} (ha : 0 < a) (hab : a ≤ b) : bitLen a ≤ bitLen b := by
  obtain ⟨h1, h2, _⟩ := bitLen_spec ha
  obtain ⟨_, _, h3⟩ := bitLen_spec (Nat.lt_of_lt_of_le ha hab)
  have : 2 ^ (bitLen a - 1) < 2 ^ bitLen b := by omega
  have := (Nat.pow_lt_pow_iff_right (by decide : 1 < 2)).mp this
  omega

theorem rne_mono (P half a b : Nat) (hP : P = 2 * half) (hh : 0 < half) (hab : a ≤ b) :
    rne P half a ≤ rne P half b := by
  have hq : a / P ≤ b / P := Nat.div_le_div_right hab
  have ha := Nat.div_add_mod a P
  have hb := Nat.div_add_mod b P
  have hP0 : 0 < P := by omega
  have ra := Nat.mod_lt a hP0
  have rb := Nat.mod_lt b hP0
  rcases Nat.lt_or_eq_of_le hq with hlt | heq
  · have := rne_bounds P half a
    have := rne_bounds P half b
    omega
  · unfold rne
    rw [← heq] at hb ⊢
    have hr : a % P ≤ b % P := by omega
    generalize a / P = q at *
    generalize a % P = x at *
    generalize b % P = y at *
    by_cases c1 : (decide (x > half) || (x == half && q % 2 == 1)) = true
    · have c2 : (decide (y > half) || (y == half && q % 2 == 1)) = true := by
        simp only [Bool.or_eq_true, Bool.and_eq_true, decide_eq_true_eq, beq_iff_eq] at c1 ⊢
        omega
      simp only [c1, c2, if_true]; omega
    · rw [if_neg c1]; split <;> omega

theorem enc_mono {a b : Nat} (ha : 0 < a) (hab : a ≤ b) : enc a ≤ enc b := by
  have hb : 0 < b := Nat.lt_of_lt_of_le ha hab
  have hL := bitLen_mono ha hab
  have sa := sig_bounds ha
  have sb := sig_bounds hb
  unfold enc
  rcases Nat.lt_or_eq_of_le hL with hlt | heq
  · omega
  · have : sig a ≤ sig b := by
      unfold sig
      rw [← heq]
      split
      · exact Nat.mul_le_mul_right _ hab
      · apply rne_mono _ _ _ _ _ (Nat.two_pow_pos _) hab
        have : bitLen a - 24 = (bitLen a - 24 - 1) + 1 := by omega
        rw (occs := .pos [1]) [this]
        rw [Nat.pow_succ]; omega
    omega

/-- conversion of naturals to binary32 is monotone, as bit patterns -/
theorem ofNat_mono {a b : Nat} (hab : a ≤ b) : F32.ofNat a ≤ F32.ofNat b := by
  rcases Nat.eq_zero_or_pos a with h | h
  · subst h; rw [ofNat_zero]; omega
  · have hb : 0 < b := Nat.lt_of_lt_of_le h hab
    rw [ofNat_eq_min h, ofNat_eq_min hb]
    have := enc_mono h hab
    omega

/-- in the exact range the conversion is strictly monotone -/
theorem ofNat_strict_mono {a b : Nat} (hab : a < b) (hb : b < 2 ^ 24) : F32.ofNat a < F32.ofNat b := by
  have hb0 : 0 < b := by omega
  have hLb : bitLen b ≤ 24 := by
    obtain ⟨h1, h2, _⟩ := bitLen_spec hb0
    have : 2 ^ (bitLen b - 1) < 2 ^ 24 := by omega
    have := (Nat.pow_lt_pow_iff_right (by decide : 1 < 2)).mp this
    omega
  have sb := sig_bounds hb0
  rw [ofNat_small b hb0 hLb]
  have hsb : sig b = b * 2 ^ (24 - bitLen b) := by simp [sig, hLb]
  rw [← hsb]
  rcases Nat.eq_zero_or_pos a with h | h
  · subst h; rw [ofNat_zero]; omega
  · have hL := bitLen_mono h (Nat.le_of_lt hab)
    have sa := sig_bounds h
    rw [ofNat_small a h (by omega)]
    have hsa : sig a = a * 2 ^ (24 - bitLen a) := by simp [sig, show bitLen a ≤ 24 by omega]
    rw [← hsa]
    rcases Nat.lt_or_eq_of_le hL with hlt | heq
    · have : sig a < 2 ^ 24 := by
        rw [hsa]
        obtain ⟨_, _, h3⟩ := bitLen_spec h
        have e2 : 2 ^ bitLen a * 2 ^ (24 - bitLen a) = 2 ^ 24 := by
          rw [← Nat.pow_add]; congr 1; omega
        rw [← e2]; exact Nat.mul_lt_mul_of_pos_right h3 (Nat.two_pow_pos _)
      omega
    · have : sig a < sig b := by
        rw [hsa, hsb, heq]
        exact Nat.mul_lt_mul_of_pos_right hab (Nat.two_pow_pos _)
      omega

end F32L
end Arroy
