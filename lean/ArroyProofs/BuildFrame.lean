import ArroyProofs.BuildM
/-! What `Writer::build` may touch, compositionally: every helper of `Build.lean` preserves any
store preorder `R` that is closed under the primitive writes the build performs (`OpsClosed`). -/
namespace Arroy
open Generated BuildM

/-- `R` is a preorder closed under the store writes of a build on `c` (all but the DotProduct
    preprocessing, which is handled apart):
    puts under tree / metadata keys of the index, deletions of non-item keys of the index, and the
    tree range deletion of the single-bucket shortcut. -/
structure OpsClosed (c : Cfg) (R : Store → Store → Prop) : Prop extends StoreRel R where
  put : ∀ s m id v, (m = modeTree ∨ m = modeMetadata) → R s (Store.put s ⟨c.index, m, id⟩ v)
  erase : ∀ s m id, m ≠ modeItem → R s (Store.erase s ⟨c.index, m, id⟩)
  delRange : ∀ s, R s (Store.deleteRange s (c.treeKey 0) (c.treeKey IdGen.u32Max))

namespace OpsClosed
variable {c : Cfg} {R : Store → Store → Prop}

theorem putTree (h : OpsClosed c R) (s : Store) (id : Nat) (v : Val) : R s (Store.put s (c.treeKey id) v) :=
  h.put s modeTree id v (Or.inl rfl)
theorem putMeta (h : OpsClosed c R) (s : Store) (v : Val) : R s (Store.put s c.metaKey v) :=
  h.put s modeMetadata _ v (Or.inr rfl)
theorem putVersion (h : OpsClosed c R) (s : Store) (v : Val) : R s (Store.put s c.versionKey v) :=
  h.put s modeMetadata _ v (Or.inr rfl)
theorem eraseTree (h : OpsClosed c R) (s : Store) (id : Nat) : R s (Store.erase s (c.treeKey id)) :=
  h.erase s modeTree id (by decide)
theorem eraseUpdated (h : OpsClosed c R) (s : Store) (id : Nat) : R s (Store.erase s (c.updatedKey id)) :=
  h.erase s modeUpdated id (by decide)

theorem mono {R' : Store → Store → Prop} (h : OpsClosed c R) (hR' : StoreRel R')
    (himp : ∀ s s', R s s' → R' s s') : OpsClosed c R' where
  toStoreRel := hR'
  put := fun s m id v hm => himp _ _ (h.put s m id v hm)
  erase := fun s m id hm => himp _ _ (h.erase s m id hm)
  delRange := fun s => himp _ _ (h.delRange s)
end OpsClosed

namespace Build
variable {c : Cfg} {R : Store → Store → Prop}

theorem itemIndices_noWrite (c : Cfg) : NoWrite (itemIndices c) := by
  unfold itemIndices
  exact NoWrite.bind NoWrite.getStore (fun _ => NoWrite.bind (NoWrite.pollN _) (fun _ => NoWrite.pure _))

theorem itemIndices_pres (hR : StoreRel R) (c : Cfg) : StorePres R (itemIndices c) :=
  StorePres.of_noWrite hR (itemIndices_noWrite c)

theorem resetUpdated_pres (h : OpsClosed c R) : StorePres R (resetUpdated c) := by
  have hR := h.toStoreRel
  unfold resetUpdated
  apply StorePres.bind hR (StorePres.getStore hR); intro s
  apply StorePres.bind hR
  · apply StorePres.forEach hR; intro id
    apply StorePres.bind hR (StorePres.poll hR); intro _
    exact StorePres.modifyStore _ (fun s => h.eraseUpdated s _)
  · intro _; exact StorePres.pure hR _

theorem writeMetadata_pres (h : OpsClosed c R) (items roots : List Nat) : StorePres R (writeMetadata c items roots) :=
  StorePres.modifyStore _ (fun s => h.putMeta s _)

theorem singleLeaf_pres (h : OpsClosed c R) (items : List Nat) : StorePres R (singleLeaf c items) := by
  have hR := h.toStoreRel
  have hm := writeMetadata_pres h items
  unfold singleLeaf
  apply StorePres.bind hR (StorePres.modifyStore _ h.delRange)
  intro _
  dsimp only
  have hjp : ∀ u : Unit, StorePres R ((fun (_ : Unit) => (do
      poll
      writeMetadata c items (if items.isEmpty = true then [] else [0])
      modifyStore fun st => Store.put st c.versionKey
        (.version crateVersion.1 crateVersion.2.1 crateVersion.2.2) : BuildM Unit)) u) := by
    intro u
    apply StorePres.bind hR (StorePres.poll hR); intro _
    apply StorePres.bind hR (hm _); intro _
    exact StorePres.modifyStore _ (fun s => h.putVersion s _)
  apply StorePres.ite
  · apply StorePres.bind hR (StorePres.modifyStore _ (fun s => h.putTree s _ _))
    intro u; exact hjp u
  · exact hjp ()

theorem deleteTree_rel (h : OpsClosed c R) : ∀ (fuel : Nat) (ref : NodeId) (s s' : Store),
    deleteTree c fuel ref s = .ok s' → R s s' := by
  intro fuel
  induction fuel with
  | zero => intro ref s s' e; simp [deleteTree] at e
  | succ fuel ih =>
    intro ref s s' e
    unfold deleteTree at e
    split at e
    · simp only [Except.ok.injEq] at e; subst e; exact h.refl _
    · rename_i hitem
      have hm : ref.mode ≠ modeItem := by
        intro e'; apply hitem; simp [NodeId.isItem, e']
      split at e
      · simp at e
      · split at e
        · simp at e
        · rename_i s1 h1
          split at e
          · simp at e
          · rename_i s2 h2
            simp only [Except.ok.injEq] at e; subst e
            exact h.trans (h.trans (ih _ _ _ h1) (ih _ _ _ h2)) (h.erase _ _ _ hm)
      · simp only [Except.ok.injEq] at e; subst e
        exact h.erase _ _ _ hm
      · simp only [Except.ok.injEq] at e; subst e; exact h.refl _

theorem deleteExtraTrees_pres (h : OpsClosed c R) : ∀ (k : Nat) (roots : List Nat),
    StorePres R (deleteExtraTrees c k roots) := by
  have hR := h.toStoreRel
  intro k
  induction k with
  | zero => intro roots; unfold deleteExtraTrees; exact StorePres.pure hR _
  | succ k ih =>
    intro roots
    unfold deleteExtraTrees
    apply StorePres.bind hR (StorePres.poll hR); intro _
    split
    · exact StorePres.pure hR _
    · rename_i root rest
      exact StorePres.getStore_lift_set hR
        (x := fun s => deleteTree c (s.length + 1) (NodeId.mkTree root) s)
        (rest := fun _ _ => deleteExtraTrees c k (swapRemove0 (root :: rest)))
        (fun s s' e => deleteTree_rel h _ _ _ _ e) (fun _ _ => ih _)

theorem writeBack_pres (h : OpsClosed c R) (removed : List Nat) (puts : List (Nat × Val)) (remap : Nat → Nat) :
    StorePres R (writeBack c removed puts remap) := by
  have hR := h.toStoreRel
  unfold writeBack
  apply StorePres.bind hR
  · apply StorePres.forEach hR; intro id
    apply StorePres.bind hR (StorePres.poll hR); intro _
    exact StorePres.modifyStore _ (fun s => h.eraseTree s _)
  · intro _
    apply StorePres.forEach hR; intro p
    apply StorePres.bind hR (StorePres.poll hR); intro _
    exact StorePres.modifyStore _ (fun s => h.putTree s _ _)

theorem deleteLoop_noWrite (c : Cfg) (o : BuildOpts) (D : List Nat) (s : Store) :
    ∀ roots, NoWrite (deleteLoop c o D s roots) := by
  intro roots
  induction roots with
  | nil => unfold deleteLoop; exact NoWrite.pure _
  | cons root rest ih =>
    unfold deleteLoop
    refine NoWrite.bind NoWrite.poll (fun _ => ?_)
    refine NoWrite.bind (NoWrite.reifyRoot _ _ _) (fun t => ?_)
    refine NoWrite.bind (NoWrite.pollN _) (fun _ => ?_)
    refine NoWrite.bind ih (fun x => ?_)
    obtain ⟨a, b, d⟩ := x
    exact NoWrite.pure _

theorem deleteLoop_pres (hR : StoreRel R) (c : Cfg) (o : BuildOpts) (D : List Nat) (s : Store) (roots : List Nat) :
    StorePres R (deleteLoop c o D s roots) := StorePres.of_noWrite hR (deleteLoop_noWrite c o D s roots)

theorem deleteItemsFromTrees_pres (h : OpsClosed c R) (o : BuildOpts) (roots D : List Nat) :
    StorePres R (deleteItemsFromTrees c o roots D) := by
  have hR := h.toStoreRel
  unfold deleteItemsFromTrees
  apply StorePres.bind hR (StorePres.getStore hR); intro s
  apply StorePres.bind hR (deleteLoop_pres hR c o D s roots); intro x
  obtain ⟨a, b, d⟩ := x
  apply StorePres.bind hR (writeBack_pres h _ _ _); intro _
  exact StorePres.pure hR _

theorem insertRoots_noWrite (c : Cfg) (o : BuildOpts) (snapshot : Store) (batch : List Nat) :
    ∀ roots g, NoWrite (insertRoots c o snapshot batch roots g) := by
  intro roots
  induction roots with
  | nil => intro g; unfold insertRoots; exact NoWrite.pure _
  | cons root rest ih =>
    intro g
    unfold insertRoots
    refine NoWrite.bind NoWrite.poll (fun _ => ?_)
    refine NoWrite.bind (NoWrite.reifyRoot _ _ _) (fun t => ?_)
    refine NoWrite.bind NoWrite.peek (fun st => ?_)
    refine NoWrite.bind (NoWrite.liftExcept _) (fun r => ?_)
    refine NoWrite.bind (NoWrite.setRands _) (fun _ => ?_)
    refine NoWrite.bind (NoWrite.pollN _) (fun _ => ?_)
    refine NoWrite.bind (ih _) (fun x => ?_)
    obtain ⟨a, b, d⟩ := x
    exact NoWrite.pure _

theorem insertRoots_pres (hR : StoreRel R) (c : Cfg) (o : BuildOpts) (snapshot : Store) (batch roots : List Nat)
    (g : IdGen) : StorePres R (insertRoots c o snapshot batch roots g) :=
  StorePres.of_noWrite hR (insertRoots_noWrite c o snapshot batch roots g)

theorem insertItemsInCurrentTrees_pres (h : OpsClosed c R) (o : BuildOpts) (roots : List Nat) :
    ∀ (fuel : Nat) (toInsert : List Nat) (g : IdGen),
      StorePres R (insertItemsInCurrentTrees c o roots fuel toInsert g) := by
  have hR := h.toStoreRel
  intro fuel
  induction fuel with
  | zero => intro toInsert g; unfold insertItemsInCurrentTrees; exact StorePres.fail _
  | succ fuel ih =>
    intro toInsert g
    unfold insertItemsInCurrentTrees
    apply StorePres.ite (StorePres.pure hR _)
    apply StorePres.bind hR (StorePres.poll hR); intro _
    apply StorePres.bind hR (StorePres.getStore hR); intro snapshot
    apply StorePres.bind hR (StorePres.nextBatch hR); intro k
    refine StorePres.ite (StorePres.fail _) ?_
    apply StorePres.bind hR (insertRoots_pres hR _ _ _ _ _ _); intro x
    obtain ⟨putss, large, g'⟩ := x
    apply StorePres.bind hR
    · apply StorePres.forEach hR; intro puts; exact writeBack_pres h _ _ _
    intro _
    apply StorePres.bind hR (ih _ _); intro y
    obtain ⟨large', g''⟩ := y
    exact StorePres.pure hR _

theorem newTrees_pres (h : OpsClosed c R) (items : List Nat) : ∀ (k : Nat) (roots large : List Nat) (g : IdGen),
    StorePres R (newTrees c items k roots large g) := by
  have hR := h.toStoreRel
  intro k
  induction k with
  | zero => intro roots large g; unfold newTrees; exact StorePres.pure hR _
  | succ k ih =>
    intro roots large g
    unfold newTrees
    apply StorePres.bind hR (StorePres.liftExcept hR _); intro x
    obtain ⟨id, g'⟩ := x
    apply StorePres.bind hR (StorePres.modifyStore _ (fun s => h.putTree s _ _)); intro _
    exact ih _ _ _

theorem incrementalIndexLargeDescendants_pres (h : OpsClosed c R) (o : BuildOpts) :
    ∀ (fuel : Nat) (large : List Nat) (g : IdGen),
      StorePres R (incrementalIndexLargeDescendants c o fuel large g) := by
  have hR := h.toStoreRel
  intro fuel
  induction fuel with
  | zero =>
    intro large g; unfold incrementalIndexLargeDescendants
    exact StorePres.ite (StorePres.pure hR _) (StorePres.fail _)
  | succ fuel ih =>
    intro large g
    unfold incrementalIndexLargeDescendants
    split
    · exact StorePres.pure hR _
    · rename_i b large'
      apply StorePres.bind hR (StorePres.poll hR); intro _
      apply StorePres.bind hR (StorePres.getStore hR); intro s
      split
      · rename_i ids hget
        apply StorePres.bind hR (StorePres.nextBatch hR); intro k
        refine StorePres.ite (StorePres.fail _) ?_
        apply StorePres.bind hR (StorePres.peek hR); intro st
        apply StorePres.bind hR (StorePres.liftExcept hR _); intro r
        apply StorePres.bind hR (StorePres.setNormalsRands hR _ _); intro _
        apply StorePres.bind hR (StorePres.pollN hR _); intro _
        apply StorePres.bind hR (writeBack_pres h _ _ _); intro _
        apply StorePres.bind hR (insertItemsInCurrentTrees_pres h o _ _ _ _); intro x
        obtain ⟨large'', g'⟩ := x
        exact ih _ _
      · exact StorePres.fail _

/-- the whole `build`, given what the preprocessing does (possibly under a precondition `P` on the
    initial store, e.g. sortedness) -/
theorem build_presFrom {P : Store → Prop} (h : OpsClosed c R) (hpre : StorePresFrom P R (preProcessItems c))
    (o : BuildOpts) (fuel : Nat) : StorePresFrom P R (build c o fuel) := by
  have hR := h.toStoreRel
  unfold build
  apply StorePresFrom.bind hR hpre; intro _
  apply StorePres.bind hR (itemIndices_pres hR c); intro items
  apply StorePres.bind hR (resetUpdated_pres h); intro updated
  apply StorePres.ite (singleLeaf_pres h _)
  dsimp only
  apply StorePres.bind hR (StorePres.getStore hR); intro s
  apply StorePres.bind hR (StorePres.usedTreeNode hR c); intro used
  apply StorePres.bind hR (deleteExtraTrees_pres h _ _); intro roots
  apply StorePres.bind hR (deleteItemsFromTrees_pres h o _ _); intro roots'
  apply StorePres.bind hR (insertItemsInCurrentTrees_pres h o _ _ _ _); intro x
  obtain ⟨large, g⟩ := x
  apply StorePres.bind hR (newTrees_pres h _ _ _ _ _); intro y
  obtain ⟨roots'', large', g'⟩ := y
  apply StorePres.bind hR (incrementalIndexLargeDescendants_pres h o _ _ _); intro _
  exact writeMetadata_pres h _ _

theorem build_pres (h : OpsClosed c R) (hpre : StorePres R (preProcessItems c)) (o : BuildOpts) (fuel : Nat) :
    StorePres R (build c o fuel) :=
  StorePresFrom.toPres (build_presFrom h (StorePresFrom.of_pres hpre) o fuel)

/-- `pre_process_items` for every metric but DotProduct writes nothing -/
theorem preProcessItems_noWrite (hm : c.metric ≠ .dot) : NoWrite (preProcessItems c) := by
  unfold preProcessItems
  refine NoWrite.bind NoWrite.poll (fun _ => ?_)
  rw [if_neg hm]
  exact NoWrite.pure _

/-- `pre_process_items`: it is enough that `R` relates a store to its DotProduct preprocessing -/
theorem preProcessItems_pres (hR : StoreRel R) (hdot : c.metric = .dot → ∀ s, R s (preprocessDot c s)) :
    StorePres R (preProcessItems c) := by
  unfold preProcessItems
  apply StorePres.bind hR (StorePres.poll hR); intro _
  split
  · rename_i hm; exact StorePres.modifyStore _ (hdot hm)
  · exact StorePres.pure hR _

end Build
end Arroy
