import ArroyProofs.KernelRound
/-! The standard model of floating-point arithmetic as a CONDITIONAL property of an arbitrary carrier
(`StdModelOn`): the arithmetic works on `α` (e.g. bit patterns), `val : α → ℝ` gives the real value,
`ok` marks the values the model speaks about (finite ones) and `P` the exact results it covers (zero or
in the normal range). The scalar-loop error bounds of `KernelRound` are re-proved relative to it; the
hypotheses become explicit conditions on the intermediate exact results of the run. -/
namespace Arroy

/-- every operation on `ok` operands whose exact result satisfies `P` returns an `ok` value equal to the
exact result times `(1 + δ)`, `|δ| ≤ u` -/
structure StdModelOn {α : Type} (A : Arith α) (val : α → ℝ) (ok : α → Prop) (P : ℝ → Prop) (u : ℝ) : Prop where
  u_nonneg : 0 ≤ u
  sumInit : ok A.sumInit ∧ val A.sumInit = 0
  zero : ok A.zero ∧ val A.zero = 0
  add : ∀ x y, ok x → ok y → P (val x + val y) →
    ok (A.add x y) ∧ ∃ δ : ℝ, |δ| ≤ u ∧ val (A.add x y) = (val x + val y) * (1 + δ)
  sub : ∀ x y, ok x → ok y → P (val x - val y) →
    ok (A.sub x y) ∧ ∃ δ : ℝ, |δ| ≤ u ∧ val (A.sub x y) = (val x - val y) * (1 + δ)
  mul : ∀ x y, ok x → ok y → P (val x * val y) →
    ok (A.mul x y) ∧ ∃ δ : ℝ, |δ| ≤ u ∧ val (A.mul x y) = (val x * val y) * (1 + δ)
  fma : ∀ x y z, ok x → ok y → ok z → P (val x * val y + val z) →
    ok (A.fma x y z) ∧ ∃ δ : ℝ, |δ| ≤ u ∧ val (A.fma x y z) = (val x * val y + val z) * (1 + δ)

/-- the unconditional model is the instance `val = id`, no side conditions -/
theorem StdModel.toOn {A : Arith ℝ} {u : ℝ} (h : StdModel A u) :
    StdModelOn A id (fun _ => True) (fun _ => True) u where
  u_nonneg := h.u_nonneg
  sumInit := ⟨trivial, h.sumInit⟩
  zero := ⟨trivial, h.zero⟩
  add := fun x y _ _ _ => ⟨trivial, h.add x y⟩
  sub := fun x y _ _ _ => ⟨trivial, h.sub x y⟩
  mul := fun x y _ _ _ => ⟨trivial, h.mul x y⟩
  fma := fun x y z _ _ _ _ => ⟨trivial, h.fma x y z⟩

namespace KernelRound
variable {α : Type}

/-- every exact partial sum `fl(a + l₀ + … + l_{k-1}) + l_k` of the recursive summation of `l`
starting from `a` satisfies `P` -/
def PartialSumsOK (A : Arith α) (val : α → ℝ) (P : ℝ → Prop) : α → List α → Prop
  | _, [] => True
  | a, x :: xs => P (val a + val x) ∧ PartialSumsOK A val P (A.add a x) xs

/-- recursive summation, conditional model:
`|fl(a + Σ l) − (a + Σ l)| ≤ ((1+u)^|l| − 1)·(|a| + Σ|lᵢ|)` -/
theorem foldl_err_on {A : Arith α} {val : α → ℝ} {ok : α → Prop} {P : ℝ → Prop} {u : ℝ}
    (hA : StdModelOn A val ok P u) :
    ∀ (l : List α) (a : α), ok a → (∀ x ∈ l, ok x) → PartialSumsOK A val P a l →
      ok (l.foldl A.add a) ∧
      |val (l.foldl A.add a) - (val a + (l.map val).sum)|
        ≤ E u l.length * (|val a| + ((l.map val).map (fun x => |x|)).sum) := by
  intro l
  induction l with
  | nil => intro a ha _ _; simpa [E] using ha
  | cons x xs ih =>
    intro a ha hl hP
    have hu := hA.u_nonneg
    have hx : ok x := hl x (List.mem_cons_self ..)
    obtain ⟨hP1, hP2⟩ := hP
    obtain ⟨hok, δ, hδ, hadd⟩ := hA.add a x ha hx hP1
    have h1 : |val (A.add a x) - (val a + val x)| ≤ u * |val a + val x| := err_of_delta hδ hadd
    obtain ⟨ihok, ih'⟩ := ih (A.add a x) hok (fun z hz => hl z (List.mem_cons_of_mem _ hz)) hP2
    refine ⟨ihok, ?_⟩
    simp only [List.foldl_cons, List.sum_cons, List.map_cons, List.length_cons]
    set F := val (xs.foldl A.add (A.add a x))
    set S := (xs.map val).sum
    set B := ((xs.map val).map (fun x => |x|)).sum
    set a' := val (A.add a x)
    set a0 := val a
    set x0 := val x
    have hB : 0 ≤ B := sum_abs_nonneg _
    have hE := E_nonneg hu xs.length
    have t1 : |F - (a0 + (x0 + S))| ≤ |F - (a' + S)| + |a' - (a0 + x0)| := by
      have : F - (a0 + (x0 + S)) = (F - (a' + S)) + (a' - (a0 + x0)) := by ring
      rw [this]; exact abs_add_le _ _
    have t2 : |a'| ≤ |a0 + x0| + u * |a0 + x0| := by
      have : a' = (a' - (a0 + x0)) + (a0 + x0) := by ring
      calc |a'| = |(a' - (a0 + x0)) + (a0 + x0)| := by rw [← this]
        _ ≤ |a' - (a0 + x0)| + |a0 + x0| := abs_add_le _ _
        _ ≤ |a0 + x0| + u * |a0 + x0| := by linarith
    have t3 : |a0 + x0| ≤ |a0| + |x0| := abs_add_le _ _
    have hc : 0 ≤ |a0 + x0| := abs_nonneg _
    rw [E_succ]
    have s1 : E u xs.length * (|a'| + B) ≤ E u xs.length * ((|a0 + x0| + u * |a0 + x0|) + B) :=
      mul_le_mul_of_nonneg_left (by linarith) hE
    have h0 : 0 ≤ E u xs.length * (1 + u) + u := by
      have := mul_nonneg hE (by linarith : (0:ℝ) ≤ 1 + u); linarith
    have s2 : (E u xs.length * (1 + u) + u) * |a0 + x0| ≤ (E u xs.length * (1 + u) + u) * (|a0| + |x0|) :=
      mul_le_mul_of_nonneg_left t3 h0
    have s3 : E u xs.length * B ≤ (E u xs.length * (1 + u) + u) * B := by
      apply mul_le_mul_of_nonneg_right _ hB
      have := mul_nonneg hE hu; linarith
    have e1 : E u xs.length * (|a0 + x0| + u * |a0 + x0| + B) + u * |a0 + x0|
        = (E u xs.length * (1 + u) + u) * |a0 + x0| + E u xs.length * B := by ring
    have e2 : (E u xs.length * (1 + u) + u) * (|a0| + (|x0| + B))
        = (E u xs.length * (1 + u) + u) * (|a0| + |x0|) + (E u xs.length * (1 + u) + u) * B := by ring
    rw [e2]
    linarith

theorem forall₂_length {β γ : Type} {R : β → γ → Prop} {l₁ : List β} {l₂ : List γ}
    (h : List.Forall₂ R l₁ l₂) : l₁.length = l₂.length := by
  induction h with
  | nil => rfl
  | cons _ _ ih => simp only [List.length_cons, ih]

/-- per-term errors, list form: computed terms within relative error `ε` of the exact ones -/
theorem terms_err_list {ε : ℝ} :
    ∀ (fl ex : List ℝ), List.Forall₂ (fun f e => |f - e| ≤ ε * |e|) fl ex →
      |fl.sum - ex.sum| ≤ ε * (ex.map (fun t => |t|)).sum ∧
      (fl.map (fun t => |t|)).sum ≤ (1 + ε) * (ex.map (fun t => |t|)).sum := by
  intro fl ex h
  induction h with
  | nil => simp
  | @cons f e fl ex hab _ ih =>
    obtain ⟨i1, i2⟩ := ih
    simp only [List.sum_cons, List.map_cons]
    constructor
    · have : f + fl.sum - (e + ex.sum) = (f - e) + (fl.sum - ex.sum) := by ring
      rw [this]
      have := abs_add_le (f - e) (fl.sum - ex.sum)
      rw [mul_add]; linarith
    · have : |f| ≤ |f - e| + |e| := by
        have := abs_add_le (f - e) e
        rwa [sub_add_cancel] at this
      rw [mul_add]; linarith

/-- the scalar loop shape, conditional model: `ok` terms within relative error `ε` of the exact terms
`es`, then recursive summation from `sumInit` with all partial sums covered by the model -/
theorem scalar_err_on {A : Arith α} {val : α → ℝ} {ok : α → Prop} {P : ℝ → Prop} {u : ℝ}
    (hA : StdModelOn A val ok P u) {ε : ℝ} (ts : List α) (es : List ℝ)
    (hok : ∀ t ∈ ts, ok t)
    (h : List.Forall₂ (fun f e => |f - e| ≤ ε * |e|) (ts.map val) es)
    (hS : PartialSumsOK A val P A.sumInit ts) :
    ok (ts.foldl A.add A.sumInit) ∧
    |val (ts.foldl A.add A.sumInit) - es.sum|
      ≤ (E u es.length * (1 + ε) + ε) * (es.map (fun t => |t|)).sum := by
  obtain ⟨i1, i2⟩ := terms_err_list _ _ h
  obtain ⟨fok, f⟩ := foldl_err_on hA ts A.sumInit hA.sumInit.1 hok hS
  refine ⟨fok, ?_⟩
  rw [hA.sumInit.2, abs_zero, zero_add, zero_add] at f
  have hl : ts.length = es.length := by
    have := forall₂_length h
    rwa [List.length_map] at this
  rw [hl] at f
  set n := es.length
  set T := (ts.map val).sum
  set Pe := es.sum
  set BT := ((ts.map val).map (fun t => |t|)).sum
  set BP := (es.map (fun t => |t|)).sum
  set F := val (ts.foldl A.add A.sumInit)
  have hE := E_nonneg hA.u_nonneg n
  have t1 : |F - Pe| ≤ |F - T| + |T - Pe| := by
    have : F - Pe = (F - T) + (T - Pe) := by ring
    rw [this]; exact abs_add_le _ _
  have s1 : E u n * BT ≤ E u n * ((1 + ε) * BP) := mul_le_mul_of_nonneg_left i2 hE
  have e : (E u n * (1 + ε) + ε) * BP = E u n * ((1 + ε) * BP) + ε * BP := by ring
  rw [e]; linarith

/-- the terms of a scalar loop: a term function `tm` that is within relative error `ε` of the exact
`ex` whenever the side condition `C` (the model covers every exact intermediate result of the term)
holds for the pair -/
theorem terms_on {val : α → ℝ} {ok : α → Prop} {ε : ℝ} (tm : α → α → α) (ex : ℝ → ℝ → ℝ)
    (C : α → α → Prop)
    (htm : ∀ a b, ok a → ok b → C a b →
      ok (tm a b) ∧ |val (tm a b) - ex (val a) (val b)| ≤ ε * |ex (val a) (val b)|) :
    ∀ (x y : List α), (∀ a ∈ x, ok a) → (∀ b ∈ y, ok b) →
      (∀ p ∈ List.zip x y, C p.1 p.2) →
      (∀ t ∈ List.zipWith tm x y, ok t) ∧
      List.Forall₂ (fun f e => |f - e| ≤ ε * |e|) ((List.zipWith tm x y).map val)
        (List.zipWith (fun a b => ex (val a) (val b)) x y) := by
  intro x
  induction x with
  | nil => intro y _ _ _; simp
  | cons a x ih =>
    intro y hx hy hp
    cases y with
    | nil => simp
    | cons b y =>
      have ha := hx a (List.mem_cons_self ..)
      have hb := hy b (List.mem_cons_self ..)
      obtain ⟨mok, hm⟩ := htm a b ha hb (hp (a, b) (by simp))
      obtain ⟨i1, i2⟩ := ih y (fun z hz => hx z (List.mem_cons_of_mem _ hz))
        (fun z hz => hy z (List.mem_cons_of_mem _ hz))
        (fun p hp' => hp p (by simp only [List.zip_cons_cons, List.mem_cons]; exact Or.inr hp'))
      simp only [List.zipWith_cons_cons, List.map_cons, List.mem_cons]
      refine ⟨?_, List.Forall₂.cons hm i2⟩
      rintro t (rfl | ht)
      · exact mok
      · exact i1 t ht

/-- a scalar kernel `Σ tm(xᵢ, yᵢ)`: terms by `terms_on`, then recursive summation -/
theorem scalar_kernel_on {A : Arith α} {val : α → ℝ} {ok : α → Prop} {P : ℝ → Prop} {u ε : ℝ}
    (hA : StdModelOn A val ok P u) (tm : α → α → α) (ex : ℝ → ℝ → ℝ) (C : α → α → Prop)
    (htm : ∀ a b, ok a → ok b → C a b →
      ok (tm a b) ∧ |val (tm a b) - ex (val a) (val b)| ≤ ε * |ex (val a) (val b)|)
    (x y : List α) (n : Nat) (hx : x.length = n) (hy : y.length = n)
    (okx : ∀ a ∈ x, ok a) (oky : ∀ b ∈ y, ok b)
    (hterm : ∀ p ∈ List.zip x y, C p.1 p.2)
    (hsum : PartialSumsOK A val P A.sumInit (List.zipWith tm x y)) :
    ok ((List.zipWith tm x y).foldl A.add A.sumInit) ∧
    |val ((List.zipWith tm x y).foldl A.add A.sumInit)
        - (List.zipWith (fun a b => ex (val a) (val b)) x y).sum|
      ≤ (E u n * (1 + ε) + ε)
        * ((List.zipWith (fun a b => ex (val a) (val b)) x y).map (fun t => |t|)).sum := by
  obtain ⟨tok, tf⟩ := terms_on tm ex C htm x y okx oky hterm
  have h := scalar_err_on hA (List.zipWith tm x y) _ tok tf hsum
  have hl : (List.zipWith (fun a b => ex (val a) (val b)) x y).length = n := by
    rw [List.length_zipWith, hx, hy, Nat.min_self]
  rw [hl] at h
  exact h

/-- scalar dot product, conditional model:
`|fl(Σ xᵢyᵢ) − Σ xᵢyᵢ| ≤ ((1+u)^(n+1) − 1) · Σ|xᵢyᵢ|` when every exact product and every exact
partial sum of the run is covered by the model -/
theorem dotScalar_round_on {A : Arith α} {val : α → ℝ} {ok : α → Prop} {P : ℝ → Prop} {u : ℝ}
    (hA : StdModelOn A val ok P u) (x y : List α) (n : Nat)
    (hx : x.length = n) (hy : y.length = n)
    (okx : ∀ a ∈ x, ok a) (oky : ∀ b ∈ y, ok b)
    (hprod : ∀ p ∈ List.zip x y, P (val p.1 * val p.2))
    (hsum : PartialSumsOK A val P A.sumInit (List.zipWith A.mul x y)) :
    ok (Kernel.dotScalar A x y) ∧
    |val (Kernel.dotScalar A x y) - (List.zipWith (fun a b => val a * val b) x y).sum|
      ≤ ((1 + u)^(n + 1) - 1) * ((List.zipWith (fun a b => val a * val b) x y).map (fun t => |t|)).sum := by
  have h := scalar_kernel_on hA A.mul (fun a b => a * b) (fun a b => P (val a * val b))
    (fun a b ha hb hc => by
      obtain ⟨mok, δ, hδ, hm⟩ := hA.mul a b ha hb hc
      exact ⟨mok, err_of_delta hδ hm⟩)
    x y n hx hy okx oky hprod hsum
  rw [← E_succ] at h
  exact h

/-- `|fl((a−b)·(a−b)) − (a−b)²| ≤ ((1+u)³ − 1)·(a−b)²`, conditional model -/
theorem sq_term_err_on {A : Arith α} {val : α → ℝ} {ok : α → Prop} {P : ℝ → Prop} {u : ℝ}
    (hA : StdModelOn A val ok P u) (a b : α) (ha : ok a) (hb : ok b)
    (hc : P (val a - val b) ∧ P (val (A.sub a b) * val (A.sub a b))) :
    ok (A.mul (A.sub a b) (A.sub a b)) ∧
    |val (A.mul (A.sub a b) (A.sub a b)) - (val a - val b) * (val a - val b)|
      ≤ E u 3 * |(val a - val b) * (val a - val b)| := by
  have hu := hA.u_nonneg
  obtain ⟨sok, δ1, hδ1, h1⟩ := hA.sub a b ha hb hc.1
  obtain ⟨mok, δ2, hδ2, h2⟩ := hA.mul (A.sub a b) (A.sub a b) sok sok hc.2
  refine ⟨mok, ?_⟩
  have e : val (A.mul (A.sub a b) (A.sub a b)) - (val a - val b) * (val a - val b)
      = ((val a - val b) * (val a - val b)) * ((1 * (1 + δ1) * (1 + δ1)) * (1 + δ2) - 1) := by
    rw [h2, h1]; ring
  have r0 : |(1:ℝ) - 1| ≤ E u 0 := by simp [E]
  have r1 := relerr_step hu r0 hδ1
  have r2 := relerr_step hu r1 hδ1
  have r3 := relerr_step hu r2 hδ2
  rw [e, abs_mul, mul_comm]
  exact mul_le_mul_of_nonneg_right r3 (abs_nonneg _)

/-- scalar squared Euclidean distance, conditional model: relative error `(1+u)^(n+3) − 1` -/
theorem euclidScalar_round_on {A : Arith α} {val : α → ℝ} {ok : α → Prop} {P : ℝ → Prop} {u : ℝ}
    (hA : StdModelOn A val ok P u) (x y : List α) (n : Nat)
    (hx : x.length = n) (hy : y.length = n)
    (okx : ∀ a ∈ x, ok a) (oky : ∀ b ∈ y, ok b)
    (hterm : ∀ p ∈ List.zip x y,
      P (val p.1 - val p.2) ∧ P (val (A.sub p.1 p.2) * val (A.sub p.1 p.2)))
    (hsum : PartialSumsOK A val P A.sumInit
      (List.zipWith (fun a b => A.mul (A.sub a b) (A.sub a b)) x y)) :
    ok (Kernel.euclidScalar A x y) ∧
    |val (Kernel.euclidScalar A x y)
        - (List.zipWith (fun a b => (val a - val b) * (val a - val b)) x y).sum|
      ≤ ((1 + u)^(n + 3) - 1)
        * ((List.zipWith (fun a b => (val a - val b) * (val a - val b)) x y).map (fun t => |t|)).sum := by
  have h := scalar_kernel_on hA (fun a b => A.mul (A.sub a b) (A.sub a b))
    (fun a b => (a - b) * (a - b))
    (fun a b => P (val a - val b) ∧ P (val (A.sub a b) * val (A.sub a b)))
    (fun a b ha hb hc => sq_term_err_on hA a b ha hb hc)
    x y n hx hy okx oky hterm hsum
  rw [E_combine] at h
  exact h

/-- scalar Manhattan distance with an exact `abs`, conditional model: relative error `(1+u)^(n+1) − 1` -/
theorem manhattan_round_on {A : Arith α} {val : α → ℝ} {ok : α → Prop} {P : ℝ → Prop} {u : ℝ}
    (hA : StdModelOn A val ok P u) (absf : α → α)
    (habs : ∀ t, ok t → ok (absf t) ∧ val (absf t) = |val t|)
    (x y : List α) (n : Nat)
    (hx : x.length = n) (hy : y.length = n)
    (okx : ∀ a ∈ x, ok a) (oky : ∀ b ∈ y, ok b)
    (hterm : ∀ p ∈ List.zip x y, P (val p.1 - val p.2))
    (hsum : PartialSumsOK A val P A.sumInit (List.zipWith (fun a b => absf (A.sub a b)) x y)) :
    ok (Kernel.manhattanWith A absf x y) ∧
    |val (Kernel.manhattanWith A absf x y) - (List.zipWith (fun a b => |val a - val b|) x y).sum|
      ≤ ((1 + u)^(n + 1) - 1)
        * ((List.zipWith (fun a b => |val a - val b|) x y).map (fun t => |t|)).sum := by
  have h := scalar_kernel_on hA (fun a b => absf (A.sub a b)) (fun a b => |a - b|)
    (fun a b => P (val a - val b))
    (fun a b ha hb hc => by
      obtain ⟨sok, δ, hδ, hs⟩ := hA.sub a b ha hb hc
      obtain ⟨aok, av⟩ := habs _ sok
      refine ⟨aok, ?_⟩
      have := err_of_delta hδ hs
      rw [av, abs_abs]
      exact (abs_abs_sub_abs_le_abs_sub _ _).trans this)
    x y n hx hy okx oky hterm hsum
  rw [← E_succ] at h
  exact h

end KernelRound
end Arroy
