import ArroyProofs.FreshGen
import ArroyProofs.Properties.C13
import ArroyProofs.SetLemmas
/-! Bridge: the id generator created by a build is a fresh supply (`FreshGen`), by theorem C13. -/
namespace Arroy

theorem nextN_eq (k : Nat) (g : IdGen) : Arroy.Ids.nextN k g = Arroy.nextN k g := by
  induction k generalizing g with
  | zero => rfl
  | succ k ih =>
    simp only [Arroy.Ids.nextN, Arroy.nextN]
    cases g.next with
    | error e => rfl
    | ok p => obtain ⟨id, g1⟩ := p; simp only [ih]; rfl

/-- the generator a build creates from the tree keys in use hands out only fresh, distinct ids -/
theorem freshGen_new (used : List Nat) (hs : IdSet.Sorted used) (hu : ∀ x ∈ used, x < 4294967296) :
    FreshGen used (IdGen.new used) := by
  intro k ids g' e
  have hp : used.Pairwise (· < ·) := (IdSet.sorted_iff_pairwise).1 hs
  rw [← nextN_eq] at e
  exact C13.C13_fresh_gen used hp hu k ids g' e

end Arroy
