import ArroyProofs.Nns
/-! Budget monotonicity of `nnsByLeaf`: the traversal does not depend on the query options other than the
filter; the exact answer over a subset of ids is, rank by rank, no better than over a superset. -/
namespace Arroy
namespace Reader

/-- the traversal reads only the filter of the query options -/
theorem traverse_congr_q (c : Cfg) (s : Store) (qv : List Nat) (q₁ q₂ : QueryOpts)
    (hc : q₁.candidates = q₂.candidates) (k fuel : Nat) (queue : List (Nat × NodeId)) (nns : List Nat) :
    traverse c s qv q₁ k fuel queue nns = traverse c s qv q₂ k fuel queue nns := by
  induction fuel generalizing queue nns with
  | zero => rfl
  | succ n ih =>
    rw [traverse, traverse]
    simp only [inCandidates, hc, ih]
    rfl

/-- a sublist of a sorted list is, rank by rank, no smaller -/
theorem sublist_rank {α : Type} (le : α → α → Prop) (refl : ∀ a, le a a) :
    ∀ {A B : List α}, A.Sublist B → B.Pairwise le →
      ∀ (j k : Nat) (a b : α), j ≤ k → A[k]? = some a → B[j]? = some b → le b a := by
  intro A B h
  induction h with
  | slnil => intro _ j k a b _ ha; simp at ha
  | @cons A B' b' h ih =>
    intro hp j k a b hjk ha hb
    rw [List.pairwise_cons] at hp
    cases j with
    | zero =>
      simp only [List.getElem?_cons_zero, Option.some.injEq] at hb
      subst hb
      exact hp.1 a (h.subset (List.mem_of_getElem? ha))
    | succ j =>
      simp only [List.getElem?_cons_succ] at hb
      exact ih hp.2 j k a b (by omega) ha hb
  | @cons_cons A' B' x h ih =>
    intro hp j k a b hjk ha hb
    rw [List.pairwise_cons] at hp
    cases j with
    | zero =>
      simp only [List.getElem?_cons_zero, Option.some.injEq] at hb
      subst hb
      cases k with
      | zero =>
        simp only [List.getElem?_cons_zero, Option.some.injEq] at ha
        subst ha; exact refl _
      | succ k =>
        simp only [List.getElem?_cons_succ] at ha
        exact hp.1 a (h.subset (List.mem_of_getElem? ha))
    | succ j =>
      cases k with
      | zero => omega
      | succ k =>
        simp only [List.getElem?_cons_succ] at ha hb
        exact ih hp.2 j k a b (by omega) ha hb

theorem scored_nodup (c : Cfg) (s : Store) (qh qv : List Nat) (ids : List Nat) (h : ids.Nodup) :
    (scored c s qh qv ids).Nodup :=
  List.Pairwise.map _ (fun a b hab e => hab (by simpa using congrArg Prod.snd e)) h

/-- the sorted scored list over a subset of ids is the sorted scored list over the superset, filtered -/
theorem sortedScored_subset (c : Cfg) (s : Store) (qh qv : List Nat) (ids₁ ids₂ : List Nat)
    (h₁ : ids₁.Nodup) (h₂ : ids₂.Nodup) (hsub : ∀ x ∈ ids₁, x ∈ ids₂) :
    sortedScored c s qh qv ids₁ = (sortedScored c s qh qv ids₂).filter (fun p => decide (p.2 ∈ ids₁)) := by
  symm
  apply sortedScored_unique
  · apply (List.perm_ext_iff_of_nodup ?_ (scored_nodup c s qh qv ids₁ h₁)).2
    · intro p
      rw [List.mem_filter, (sortedScored_perm c s qh qv ids₂).mem_iff]
      simp only [scored, List.mem_map, decide_eq_true_eq]
      constructor
      · rintro ⟨⟨id, _, rfl⟩, h⟩; exact ⟨id, h, rfl⟩
      · rintro ⟨id, h, rfl⟩; exact ⟨⟨id, hsub id h, rfl⟩, h⟩
    · exact List.Nodup.sublist List.filter_sublist
        ((sortedScored_perm c s qh qv ids₂).nodup_iff.2 (scored_nodup c s qh qv ids₂ h₂))
  · exact (sortedScored_pairwise c s qh qv ids₂).sublist List.filter_sublist

theorem sortedScored_sublist (c : Cfg) (s : Store) (qh qv : List Nat) (ids₁ ids₂ : List Nat)
    (h₁ : ids₁.Nodup) (h₂ : ids₂.Nodup) (hsub : ∀ x ∈ ids₁, x ∈ ids₂) :
    (sortedScored c s qh qv ids₁).Sublist (sortedScored c s qh qv ids₂) := by
  rw [sortedScored_subset c s qh qv ids₁ ids₂ h₁ h₂ hsub]; exact List.filter_sublist

/-- **monotonicity of the exact answer in the candidate set**: over a superset of candidates the answer is
no shorter, and at every rank the returned item is at least as near -/
theorem exactOver_mono (c : Cfg) (s : Store) (dims : Nat) (qh qv : List Nat) (count : Nat) (ids₁ ids₂ : List Nat)
    (h₁ : ids₁.Nodup) (h₂ : ids₂.Nodup) (hsub : ∀ x ∈ ids₁, x ∈ ids₂) :
    (exactOver c s dims qh qv count ids₁).length ≤ (exactOver c s dims qh qv count ids₂).length ∧
    ∀ (j : Nat) (a₁ a₂ : Nat × Nat), (exactOver c s dims qh qv count ids₁)[j]? = some a₁ →
      (exactOver c s dims qh qv count ids₂)[j]? = some a₂ →
      scoreLe (scoreOf c s qh qv a₂.1, a₂.1) (scoreOf c s qh qv a₁.1, a₁.1) = true := by
  constructor
  · rw [exactOver_length, exactOver_length]
    have := length_le_of_nodup_subset ids₂ ids₁ h₁ hsub
    omega
  · intro j a₁ a₂ e₁ e₂
    have r₁ := exactOver_rescored c s dims qh qv count ids₁
    have r₂ := exactOver_rescored c s dims qh qv count ids₂
    have g₁ : ((sortedScored c s qh qv ids₁).take count)[j]? = some (scoreOf c s qh qv a₁.1, a₁.1) := by
      rw [← r₁, List.getElem?_map, e₁]; rfl
    have g₂ : ((sortedScored c s qh qv ids₂).take count)[j]? = some (scoreOf c s qh qv a₂.1, a₂.1) := by
      rw [← r₂, List.getElem?_map, e₂]; rfl
    rw [List.getElem?_take] at g₁ g₂
    by_cases hj : j < count
    · simp only [hj, if_true] at g₁ g₂
      exact sublist_rank (fun a b => scoreLe a b = true) scoreLe_refl
        (sortedScored_sublist c s qh qv ids₁ ids₂ h₁ h₂ hsub) (sortedScored_pairwise c s qh qv ids₂)
        j j _ _ (Nat.le_refl _) g₁ g₂
    · simp [hj] at g₁

end Reader
end Arroy
