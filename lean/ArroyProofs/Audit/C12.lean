import ArroyProofs.AuditCmd
import ArroyProofs.Properties.C12
import ArroyProofs.Properties.C12Mono
#audit Arroy.C12
