import ArroyProofs.AuditCmd
import ArroyProofs.Properties.C12
#audit Arroy.C12
