import ArroyProofs.AuditCmd
import ArroyProofs.Properties.C08
#audit Arroy.C08
