import ArroyProofs.AuditCmd
import ArroyProofs.Properties.C08
import ArroyProofs.Properties.Reachable
#audit Arroy.C08
