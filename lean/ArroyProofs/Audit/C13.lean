import ArroyProofs.AuditCmd
import ArroyProofs.Properties.C13
import ArroyProofs.Properties.C13Build
#audit Arroy.C13
