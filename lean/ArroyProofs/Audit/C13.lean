import ArroyProofs.AuditCmd
import ArroyProofs.Properties.C13
#audit Arroy.C13
