import ArroyProofs.AuditCmd
import ArroyProofs.DeleteForest
#audit Arroy
