import ArroyProofs.AuditCmd
import ArroyProofs.Properties.C02
import ArroyProofs.Properties.Reachable
import ArroyProofs.Properties.C02History
#audit Arroy.C02
