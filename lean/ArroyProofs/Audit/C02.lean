import ArroyProofs.AuditCmd
import ArroyProofs.Properties.C02
#audit Arroy.C02
