import ArroyProofs.AuditCmd
import ArroyProofs.Properties.C02
import ArroyProofs.Properties.Reachable
#audit Arroy.C02
