import ArroyProofs.AuditCmd
import ArroyProofs.Properties.C01
import ArroyProofs.Properties.C01Checker
import ArroyProofs.Properties.C01Examples
import ArroyProofs.Properties.Unconditional
import ArroyProofs.Properties.Reachable
#audit Arroy.C01
