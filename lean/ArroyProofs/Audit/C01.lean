import ArroyProofs.AuditCmd
import ArroyProofs.Properties.C01
import ArroyProofs.Properties.C01Checker
import ArroyProofs.Properties.C01Examples
import ArroyProofs.Properties.Unconditional
#audit Arroy.C01
