import ArroyProofs.AuditCmd
import ArroyProofs.Properties.C07
import ArroyProofs.Properties.C07Nns
#audit Arroy.C07
