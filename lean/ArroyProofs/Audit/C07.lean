import ArroyProofs.AuditCmd
import ArroyProofs.Properties.C07
import ArroyProofs.Properties.C07Nns
import ArroyProofs.Properties.C07History
import ArroyProofs.Properties.C07BuildLocal
#audit Arroy.C07
