import ArroyProofs.AuditCmd
import ArroyProofs.Properties.C07
#audit Arroy.C07
