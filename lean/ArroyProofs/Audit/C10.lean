import ArroyProofs.AuditCmd
import ArroyProofs.Properties.C10
import ArroyProofs.Properties.C10Reach
import ArroyProofs.Properties.Unconditional
#audit Arroy.C10
