import ArroyProofs.AuditCmd
import ArroyProofs.Properties.C10
#audit Arroy.C10
