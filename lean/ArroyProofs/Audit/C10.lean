import ArroyProofs.AuditCmd
import ArroyProofs.Properties.C10
import ArroyProofs.Properties.C10Reach
import ArroyProofs.Properties.Unconditional
import ArroyProofs.Properties.C10InPlace
#audit Arroy.C10
