import ArroyProofs.AuditCmd
import ArroyProofs.Properties.C05
import ArroyProofs.Properties.C05Build
import ArroyProofs.Properties.Reachable
import ArroyProofs.Properties.C05History
#audit Arroy.C05
