import ArroyProofs.AuditCmd
import ArroyProofs.Properties.C05
import ArroyProofs.Properties.C05Build
import ArroyProofs.Properties.Reachable
#audit Arroy.C05
