import ArroyProofs.AuditCmd
import ArroyProofs.Properties.C05
import ArroyProofs.Properties.C05Build
#audit Arroy.C05
