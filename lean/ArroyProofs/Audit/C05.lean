import ArroyProofs.AuditCmd
import ArroyProofs.Properties.C05
#audit Arroy.C05
