import ArroyProofs.AuditCmd
import ArroyProofs.Properties.C16
#audit Arroy.C16
