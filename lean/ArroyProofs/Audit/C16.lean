import ArroyProofs.AuditCmd
import ArroyProofs.Properties.C16
import ArroyProofs.Properties.C16Codec
#audit Arroy.C16
