import ArroyProofs.AuditCmd
import ArroyProofs.Properties.C16
import ArroyProofs.Properties.C16Codec
import ArroyProofs.Properties.C16Reachable
#audit Arroy.C16
