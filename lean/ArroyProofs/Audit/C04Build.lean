import ArroyProofs.AuditCmd
import ArroyProofs.Properties.C04Build
#audit Arroy.C04
