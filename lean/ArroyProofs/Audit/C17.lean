import ArroyProofs.AuditCmd
import ArroyProofs.Properties.C17
import ArroyProofs.Properties.C17Reachable
#audit Arroy.C17
