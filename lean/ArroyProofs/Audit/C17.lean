import ArroyProofs.AuditCmd
import ArroyProofs.Properties.C17
#audit Arroy.C17
