import ArroyProofs.AuditCmd
import ArroyProofs.Properties.C10
import ArroyProofs.Properties.C10Reach
#audit Arroy.C10
