import ArroyProofs.AuditCmd
import ArroyProofs.Properties.C18
import ArroyProofs.Properties.C18Build
#audit Arroy.C18
