import ArroyProofs.AuditCmd
import ArroyProofs.Properties.C18
#audit Arroy.C18
