import ArroyProofs.AuditCmd
import ArroyProofs.Properties.C20
#audit Arroy.C20
