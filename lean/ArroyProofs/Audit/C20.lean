import ArroyProofs.AuditCmd
import ArroyProofs.Properties.C20
import ArroyProofs.Properties.Unconditional
import ArroyProofs.Properties.Reachable
import ArroyProofs.Properties.C04Split
#audit Arroy.C20
