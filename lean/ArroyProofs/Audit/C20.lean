import ArroyProofs.AuditCmd
import ArroyProofs.Properties.C20
import ArroyProofs.Properties.Unconditional
import ArroyProofs.Properties.Reachable
#audit Arroy.C20
