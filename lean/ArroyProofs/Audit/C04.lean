import ArroyProofs.AuditCmd
import ArroyProofs.Properties.C04
#audit Arroy.C04
