import ArroyProofs.AuditCmd
import ArroyProofs.Properties.C04
import ArroyProofs.Properties.C04Build
import ArroyProofs.Properties.Unconditional
import ArroyProofs.Properties.Reachable
import ArroyProofs.Properties.C04Split
#audit Arroy.C04
