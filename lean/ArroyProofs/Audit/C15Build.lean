import ArroyProofs.AuditCmd
import ArroyProofs.Properties.C15
import ArroyProofs.Properties.C15Build
#audit Arroy.C15
