import ArroyProofs.AuditCmd
import ArroyProofs.Properties.C06
import ArroyProofs.Properties.C06Build
import ArroyProofs.Properties.C06History
#audit Arroy.C06
