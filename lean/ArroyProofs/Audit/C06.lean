import ArroyProofs.AuditCmd
import ArroyProofs.Properties.C06
#audit Arroy.C06
