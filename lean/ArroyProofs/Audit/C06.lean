import ArroyProofs.AuditCmd
import ArroyProofs.Properties.C06
import ArroyProofs.Properties.C06Build
#audit Arroy.C06
