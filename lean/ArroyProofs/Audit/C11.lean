import ArroyProofs.AuditCmd
import ArroyProofs.Properties.C11
#audit Arroy.C11
