import ArroyProofs.AuditCmd
import ArroyProofs.Properties.C11
import ArroyProofs.Properties.C11Real
import ArroyProofs.Properties.C11Reported
import ArroyProofs.Properties.C11Reported2
import ArroyProofs.Properties.C11Oracle
import ArroyProofs.Properties.C11OracleCosine
#audit Arroy.C11
