import ArroyProofs.AuditCmd
import ArroyProofs.Properties.C11
import ArroyProofs.Properties.C11Real
#audit Arroy.C11
