import ArroyProofs.AuditCmd
import ArroyProofs.Properties.C15
#audit Arroy.C15
