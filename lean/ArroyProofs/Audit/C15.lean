import ArroyProofs.AuditCmd
import ArroyProofs.Properties.C15
import ArroyProofs.Properties.C15Build
import ArroyProofs.Properties.Unconditional
import ArroyProofs.Properties.C15History
#audit Arroy.C15
