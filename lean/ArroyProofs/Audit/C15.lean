import ArroyProofs.AuditCmd
import ArroyProofs.Properties.C15
import ArroyProofs.Properties.C15Build
import ArroyProofs.Properties.Unconditional
#audit Arroy.C15
