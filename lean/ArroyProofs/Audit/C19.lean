import ArroyProofs.AuditCmd
import ArroyProofs.Properties.C19
#audit Arroy.C19
