import ArroyProofs.AuditCmd
import ArroyProofs.Properties.C19
import ArroyProofs.Properties.C19History
#audit Arroy.C19
