import ArroyProofs.AuditCmd
import ArroyProofs.Properties.C09
import ArroyProofs.Properties.Reachable
#audit Arroy.C09
