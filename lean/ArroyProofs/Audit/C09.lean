import ArroyProofs.AuditCmd
import ArroyProofs.Properties.C09
#audit Arroy.C09
