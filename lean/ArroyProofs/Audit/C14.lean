import ArroyProofs.AuditCmd
import ArroyProofs.Properties.C14
import ArroyProofs.Properties.Unconditional
import ArroyProofs.Properties.Reachable
#audit Arroy.C14
