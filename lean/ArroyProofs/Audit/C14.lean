import ArroyProofs.AuditCmd
import ArroyProofs.Properties.C14
import ArroyProofs.Properties.Unconditional
import ArroyProofs.Properties.Reachable
import ArroyProofs.Properties.C14Fair
import ArroyProofs.Properties.C14FairBuild
import ArroyProofs.Properties.C14Bound
#audit Arroy.C14
