import ArroyProofs.AuditCmd
import ArroyProofs.Properties.C14
#audit Arroy.C14
