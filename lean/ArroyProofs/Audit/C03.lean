import ArroyProofs.AuditCmd
import ArroyProofs.Properties.C03
#audit Arroy.C03
