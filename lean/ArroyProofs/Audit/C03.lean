import ArroyProofs.AuditCmd
import ArroyProofs.Properties.C03
import ArroyProofs.Properties.Reachable
import ArroyProofs.Properties.C03Bq
#audit Arroy.C03
