import ArroyProofs.AuditCmd
import ArroyProofs.Properties.C03
import ArroyProofs.Properties.Reachable
#audit Arroy.C03
