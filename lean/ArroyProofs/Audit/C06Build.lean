import ArroyProofs.AuditCmd
import ArroyProofs.Properties.C06Build
#audit Arroy.C06
