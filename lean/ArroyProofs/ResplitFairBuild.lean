import ArroyProofs.ResplitFairLoop
import ArroyProofs.BuildCore
import ArroyProofs.NoFuelBuild
/-! `Build.build` as a prefix (everything before the re-split loop) followed by the loop and the metadata
write; the prefix establishes the hypotheses of the termination theorem of the loop (`loop_aboveCap_noFuel`):
a forest, ids in use, a fresh generator, and a queue made of ids in use. -/
namespace Arroy
open BuildM Generated IdSet Transp

/-! ## the queue is made of ids in use -/

theorem insertItems_forest_large (c : Cfg) (o : BuildOpts) (roots items items' ins : List Nat) (ts : List T)
    (g g' : IdGen) (inUse : List Nat) (st st' : BState) (large : List Nat) (fuel : Nat)
    (f : Forest c st.store roots items ts)
    (hin : ∀ i ∈ ts.flatMap T.ids, i ∈ inUse) (hg : GenOK inUse g)
    (hw : Store.WF st.store) (hi : c.index < 65536) (hs : Sorted ins)
    (hdisj : ∀ x ∈ ins, x ∉ items) (hitems : ∀ x, x ∈ items' ↔ x ∈ items ∨ x ∈ ins)
    (h : Build.insertItemsInCurrentTrees c o roots fuel ins g st = .ok ((large, g'), st')) :
    ∃ (ts' : List T) (inUse' : List Nat),
      Forest c st'.store roots items' ts' ∧
      GenOK inUse' g' ∧ (∀ i ∈ inUse, i ∈ inUse') ∧ (∀ i ∈ ts'.flatMap T.ids, i ∈ inUse') ∧
      StoreStep c st.store st'.store ∧ (∀ i ∈ large, i ∈ inUse') := by
  obtain ⟨ts', inUse', c1, c2, c3, c4, c5, c6, c7, c8, c9, c10, c11, c12, c13, c14, c15, c16⟩ :=
    insertAll_grow c o roots hi fuel ins ts g g' inUse st st' large f.refs f.holds f.ids_nodup hin hg hw hs h
  refine ⟨ts', inUse', ⟨c1, c2, c3, ?_, ?_, ?_, ?_⟩, c6, c7, c8, c10, ?_⟩
  · intro id
    constructor
    · intro hsome
      by_cases hm : id ∈ ts'.flatMap T.ids
      · exact hm
      · rw [c9 _ (fun i hi' e => hm (by rw [Cfg.treeKey_inj.1 e]; exact hi'))] at hsome
        exact c5 id ((f.cover id).1 hsome)
    · intro hm
      obtain ⟨t, ht, hit⟩ := List.mem_flatMap.1 hm
      exact (c2 t ht).isSome hit
  · intro t' ht'
    obtain ⟨t, ht, hr⟩ := c11.mem_right t' ht'
    exact hr.wf hs (f.wf t ht)
  · intro t' ht'
    obtain ⟨t, ht, hr⟩ := c11.mem_right t' ht'
    exact hr.nodup hs (f.wf t ht) (f.items_nodup t ht) (fun x hx hxt => hdisj x hx ((f.reach t ht x).1 hxt))
  · intro t' ht' x
    obtain ⟨t, ht, hr⟩ := c11.mem_right t' ht'
    rw [hr.items, f.reach t ht x, hitems]
  · intro i hi'
    obtain ⟨t, ht, s0, hs0, _⟩ := c15 i hi'
    exact c8 i (List.mem_flatMap.2 ⟨t, ht, T.buckets_ids hs0⟩)

/-- `newTrees` queues its new roots, and nothing else -/
theorem newTrees_large (c : Cfg) (items : List Nat) (k : Nat) :
    ∀ (roots large roots' large' : List Nat) (g g' : IdGen) (st st' : BState),
    Build.newTrees c items k roots large g st = .ok ((roots', large', g'), st') →
    (∀ r ∈ roots, r ∈ roots') ∧ (∀ i ∈ large', i ∈ large ∨ i ∈ roots') := by
  induction k with
  | zero =>
    intro roots large roots' large' g g' st st' h
    simp only [Build.newTrees] at h
    obtain ⟨e1, rfl⟩ := pure_ok' h
    simp only [Prod.mk.injEq] at e1
    obtain ⟨rfl, rfl, rfl⟩ := e1
    exact ⟨fun _ h => h, fun _ h => Or.inl h⟩
  | succ k ih =>
    intro roots large roots' large' g g' st st' h
    simp only [Build.newTrees] at h
    obtain ⟨x, st1, h1, k1⟩ := bind_ok_inv h
    clear h
    obtain ⟨id, g1⟩ := x
    simp only at k1
    obtain ⟨u2, st2, h2, k2⟩ := bind_ok_inv k1
    clear k1
    obtain ⟨a1, a2⟩ := ih _ _ _ _ _ _ _ _ k2
    refine ⟨fun r hr => a1 r (List.mem_append_left _ hr), ?_⟩
    intro i hi
    rcases a2 i hi with h' | h'
    · rcases mem_insert.1 h' with rfl | h''
      · exact Or.inr (a1 _ (by simp))
      · exact Or.inl h''
    · exact Or.inr h'

/-! ## `afterUsed` up to the loop -/

/-- `Transp.afterUsed` up to the re-split loop: the roots, the queue and the id generator the loop starts with -/
def afterUsedPrefix (c : Cfg) (o : BuildOpts) (items updated roots used : List Nat) :
    BuildM (List Nat × List Nat × IdGen) := do
  let toDelete := updated
  let toInsert := IdSet.inter items updated
  let g := IdGen.new used
  let target := Build.targetNTrees o c.dims items.length roots.length
  let roots ← Build.deleteExtraTrees c (roots.length - target) roots
  let roots ← Build.deleteItemsFromTrees c o roots toDelete
  let (large, g) ← Build.insertItemsInCurrentTrees c o roots (toInsert.length + 1) toInsert g
  Build.newTrees c items (target - roots.length) roots large g

theorem afterUsed_eq_prefix (c : Cfg) (o : BuildOpts) (fuel : Nat) (items updated roots used : List Nat) :
    afterUsed c o fuel items updated roots used =
      bind' (afterUsedPrefix c o items updated roots used) (fun x =>
        bind' (Build.incrementalIndexLargeDescendants c o fuel x.2.1 x.2.2) (fun _ => Build.writeMetadata c items x.1)) := by
  simp only [afterUsed, afterUsedPrefix, bind_eq, bind'_assoc]

theorem afterUsedPrefix_spec (c : Cfg) (o : BuildOpts) (items updated roots used items0 : List Nat)
    (ts0 : List T) (st st' : BState) (roots' large : List Nat) (g : IdGen) (hi : c.index < 65536)
    (hcap : 1 ≤ Build.cap c o) (hw : Store.WF st.store)
    (f0 : Forest c st.store roots items0 ts0)
    (hitems : Sorted items) (hupd : Sorted updated)
    (hrel : ∀ x, x ∉ updated → (x ∈ items0 ↔ x ∈ items))
    (hused : ∀ i, (Store.get st.store (c.treeKey i)).isSome = true → i ∈ used)
    (hg : GenOK used (IdGen.new used))
    (h : afterUsedPrefix c o items updated roots used st = .ok ((roots', large, g), st')) :
    ∃ (ts' : List T) (inUse : List Nat),
      Forest c st'.store roots' items ts' ∧ (∀ i ∈ ts'.flatMap T.ids, i ∈ inUse) ∧ GenOK inUse g ∧
      Store.WF st'.store ∧ (∀ i ∈ large, i ∈ inUse) := by
  unfold afterUsedPrefix at h
  -- 1. delete the extra trees
  obtain ⟨roots1, st1, h1, k1⟩ := bind_ok_inv h
  clear h
  obtain ⟨ts1, f1, sub1, step1, frame1, len1⟩ := deleteExtraTrees_spec c items0 _ roots ts0 st st1 roots1 f0 h1
  have hw1 := step1.wf hw
  have hin1 : ∀ i ∈ ts1.flatMap T.ids, i ∈ used := by
    intro i hi'
    obtain ⟨t, ht, hit⟩ := List.mem_flatMap.1 hi'
    exact hused i ((f0.holds t (sub1 t ht)).isSome hit)
  -- 2. delete the updated items
  obtain ⟨roots2, st2, h2, k2⟩ := bind_ok_inv k1
  clear k1
  obtain ⟨ts2, f2, sub2, step2, frame2, len2, some2⟩ :=
    deleteItemsFromTrees_forest c o roots1 items0 (IdSet.diff items updated) updated ts1 f1 hcap hupd
      (by
        intro x
        rw [mem_diff hitems hupd]
        constructor
        · rintro ⟨h1', h2'⟩; exact ⟨(hrel x h2').2 h1', h2'⟩
        · rintro ⟨h1', h2'⟩; exact ⟨(hrel x h2').1 h1', h2'⟩)
      hw1 hi h2
  have hw2 := step2.wf hw1
  have hin2 : ∀ i ∈ ts2.flatMap T.ids, i ∈ used := by
    intro i hi'
    exact hin1 i ((f1.cover i).1 (some2 i ((f2.cover i).2 hi')))
  -- 3. insert the updated items that are still stored
  obtain ⟨x3, st3, h3, k3⟩ := bind_ok_inv k2
  clear k2
  obtain ⟨large3, g3⟩ := x3
  simp only at k3
  obtain ⟨ts3, inUse3, f3, hg3, sup3, in3, step3, lin3⟩ :=
    insertItems_forest_large c o roots2 (IdSet.diff items updated) items (IdSet.inter items updated) ts2
      (IdGen.new used) g3 used st2 st3 large3 _ f2 hin2 hg hw2 hi (sorted_inter updated hitems)
      (by
        intro x hx hx'
        exact ((mem_diff hitems hupd).1 hx').2 ((mem_inter hitems hupd).1 hx).2)
      (by
        intro x
        rw [mem_diff hitems hupd, mem_inter hitems hupd]
        constructor
        · intro hx
          by_cases hu : x ∈ updated
          · exact Or.inr ⟨hx, hu⟩
          · exact Or.inl ⟨hx, hu⟩
        · rintro (⟨hx, _⟩ | ⟨hx, _⟩) <;> exact hx)
      h3
  have hw3 := step3.wf hw2
  -- 4. create the missing trees
  obtain ⟨ts4, inUse4, f4, len4, hg4, sup4, in4, step4, frame4, new4, lsub4⟩ :=
    newTrees_spec c items hi hitems _ roots2 large3 roots' large ts3 g3 g inUse3 st3 st' f3 in3 hg3 k3
  obtain ⟨_, nl⟩ := newTrees_large c items _ roots2 large3 roots' large g3 g st3 st' k3
  refine ⟨ts4, inUse4, f4, in4, hg4, step4.wf hw3, ?_⟩
  intro i hi'
  rcases nl i hi' with h' | h'
  · exact sup4 i (lin3 i h')
  · rw [f4.roots_eq] at h'
    obtain ⟨t, ht, rfl⟩ := List.mem_map.1 h'
    exact in4 _ (f4.mem_ids_of_root ht)

/-! ## `build` up to the loop -/

/-- `Build.build` up to the re-split loop: `none` on the single-leaf path (no loop), otherwise the items, the
    roots, the queue and the id generator the loop starts with.  It does not depend on the loop budget. -/
def buildPrefix (c : Cfg) (o : BuildOpts) : BuildM (Option (List Nat × List Nat × List Nat × IdGen)) :=
  bind' (Build.preProcessItems c) (fun _ => bind' (Build.itemIndices c) (fun items =>
    bind' (Build.resetUpdated c) (fun updated =>
      if fits (Build.cap c o) items.length then bind' (Build.singleLeaf c items) (fun _ => pure' none) else
      bind' getStore (fun s => bind' (Build.usedTreeNode c) (fun used =>
        bind' (afterUsedPrefix c o items updated (rootsOf c s) used) (fun x => pure' (some (items, x))))))))

/-- what `build` does after the prefix: the loop, then the metadata -/
def buildSuffix (c : Cfg) (o : BuildOpts) (loopFuel : Nat) :
    Option (List Nat × List Nat × List Nat × IdGen) → BuildM Unit
  | none => pure' ()
  | some (items, roots, large, g) =>
    bind' (Build.incrementalIndexLargeDescendants c o loopFuel large g) (fun _ => Build.writeMetadata c items roots)

theorem bind'_pure_unit (m : BuildM Unit) : bind' m (fun _ => pure' ()) = m := by
  funext st
  simp only [bind']
  cases m st with
  | error e => rfl
  | ok r => rfl

theorem bind'_pure'_left {α β : Type} (a : α) (h : α → BuildM β) : bind' (pure' a) h = h a := rfl

theorem build_eq_prefix (c : Cfg) (o : BuildOpts) (loopFuel : Nat) :
    Build.build c o loopFuel = bind' (buildPrefix c o) (buildSuffix c o loopFuel) := by
  rw [build_eq]
  simp only [buildPrefix, bind'_assoc]
  refine congrArg (bind' _) (funext fun _ => congrArg (bind' _) (funext fun items => congrArg (bind' _)
    (funext fun updated => ?_)))
  rw [bind'_ite]
  split
  · simp only [bind'_assoc, bind'_pure'_left, buildSuffix, bind'_pure_unit]
  · simp only [bind'_assoc, bind'_pure'_left, buildSuffix]
    refine congrArg (bind' getStore) (funext fun s => congrArg (bind' _) (funext fun used => ?_))
    rw [afterUsed_eq_prefix]

/-- the only fuel the prefix can report exhausted is `delete_tree`'s -/
theorem buildPrefix_fuelOnly (c : Cfg) (o : BuildOpts) : FuelOnly (fun w => w = "delete_tree") (buildPrefix c o) := by
  unfold buildPrefix
  refine FuelOnly.bind' ((preProcessItems_noFuel c).fuelOnly _) (fun _ => ?_)
  refine FuelOnly.bind' ((itemIndices_noFuel c).fuelOnly _) (fun items => ?_)
  refine FuelOnly.bind' ((resetUpdated_noFuel c).fuelOnly _) (fun updated => ?_)
  split
  · exact FuelOnly.bind' ((singleLeaf_noFuel c items).fuelOnly _) (fun _ => (NoFuelErr.pure' _).fuelOnly _)
  · refine FuelOnly.bind' (NoFuelErr.getStore.fuelOnly _) (fun s => ?_)
    refine FuelOnly.bind' ((NoFuelErr.usedTreeNode c).fuelOnly _) (fun used => ?_)
    refine FuelOnly.bind' ?_ (fun x => (NoFuelErr.pure' _).fuelOnly _)
    unfold afterUsedPrefix
    dsimp only
    refine FuelOnly.bind (deleteExtraTrees_fuelOnly _ _ _) (fun roots1 => ?_)
    refine FuelOnly.bind ((deleteItemsFromTrees_noFuel _ _ _ _).fuelOnly _) (fun roots2 => ?_)
    refine FuelOnly.bind ((insertItemsInCurrentTrees_noFuel _ _ _ _ _ _ (Nat.lt_succ_self _)).fuelOnly _) (fun x => ?_)
    exact (newTrees_noFuel _ _ _ _ _ _).fuelOnly _

/-- at the start of the loop the hypotheses of its termination theorem hold -/
theorem buildPrefix_spec (c : Cfg) (o : BuildOpts) (st st1 : BState) (roots0 items0 : List Nat) (ts0 : List T)
    (items roots large : List Nat) (g : IdGen)
    (hi : c.index < 65536) (hcap : 1 ≤ Build.cap c o)
    (hs : Store.Sorted st.store) (hw : Store.WF st.store)
    (old : Old c st.store roots0 items0 ts0) (hnone : st.cancelAt = none) (hfresh : FreshSupply)
    (h : buildPrefix c o st = .ok (some (items, roots, large, g), st1)) :
    ∃ (ts : List T) (inUse : List Nat),
      Forest c st1.store roots items ts ∧ (∀ i ∈ ts.flatMap T.ids, i ∈ inUse) ∧ GenOK inUse g ∧
      Store.WF st1.store ∧ (∀ i ∈ large, i ∈ inUse) := by
  unfold buildPrefix at h
  obtain ⟨u1, st1', h1, k1⟩ := bind'_ok_inv h
  clear h
  obtain ⟨kept1, c1⟩ := preProcessItems_spec c h1 hs hw hi
  have hs1 := kept1.step.sorted hs
  have hw1 := kept1.step.wf hw
  obtain ⟨items', st2, h2, k2⟩ := bind'_ok_inv k1
  clear k1
  obtain ⟨e2a, e2b, c2⟩ := itemIndices_spec c h2
  obtain ⟨updated, st3, h3, k3⟩ := bind'_ok_inv k2
  clear k2
  obtain ⟨e3a, e3b, c3⟩ := resetUpdated_spec c h3
  rw [e2b] at e3a e3b
  have hitems : items' = st.store.keysOf c.index modeItem := by rw [e2a, kept1.keysOf_item hs hw hi]
  have hupdated : updated = st.store.keysOf c.index modeUpdated := by rw [e3a, kept1.keysOf_updated hs hw hi]
  have hmarks := eraseMarks_all c st1'.store hw1 hi
  rw [← e3a, ← e3b] at hmarks
  obtain ⟨marks_none, marks_other⟩ := hmarks
  have step03 : StoreStep c st.store st3.store := by
    rw [e3b]; exact eraseMarks_step c kept1.step _
  have hw3 := step03.wf hw
  have htree3 : ∀ i, Store.get st3.store (c.treeKey i) = Store.get st.store (c.treeKey i) := by
    intro i
    rw [marks_other _ (fun id => Ne.symm (c.updatedKey_ne_treeKey id i)), kept1.tree]
  have hmeta3 : Store.get st3.store c.metaKey = Store.get st.store c.metaKey := by
    rw [marks_other _ (fun id => c.metaKey_ne_updatedKey c id), kept1.meta]
  have hsitems : Sorted items' := by rw [hitems]; exact Store.keysOf_sorted hs hw _ _ hi (by decide)
  have hsupd : Sorted updated := by rw [hupdated]; exact Store.keysOf_sorted hs hw _ _ hi (by decide)
  have hcancel3 : st3.cancelAt = none := by rw [c3, c2, c1, hnone]
  split at k3
  · -- the single-leaf path returns `none`
    obtain ⟨u4, st4, h4, k4⟩ := bind'_ok_inv k3
    cases k4
  · obtain ⟨s, st4, h4, k4⟩ := bind'_ok_inv k3
    clear k3
    obtain ⟨rfl, rfl⟩ := getStore_ok' h4
    obtain ⟨used, st5, h5, k5⟩ := bind'_ok_inv k4
    clear k4
    have hns : ¬ Swallows c st3 := by
      rintro ⟨n, hn, _⟩
      rw [hcancel3] at hn; cases hn
    rw [usedTreeNode_noswallow c hns] at h5
    simp only [Except.ok.injEq, Prod.mk.injEq] at h5
    obtain ⟨hused_eq, hst5⟩ := h5
    have hst5s : st5.store = st3.store := by rw [← hst5]
    subst hused_eq
    have hroots : rootsOf c st3.store = roots0 := by rw [rootsOf_congr hmeta3, old.roots_eq]
    rw [hroots] at k5
    have hused_lt : ∀ i ∈ st3.store.keysOf c.index modeTree, i < 4294967296 := by
      intro i hi'
      rw [Store.mem_keysOf_iff hw3 _ _ _ hi (by decide)] at hi'
      exact lt_of_isSome_tree hw3 hi'
    obtain ⟨x, st6, h6, k6⟩ := bind'_ok_inv k5
    clear k5
    obtain ⟨roots6, large6, g6⟩ := x
    have e6 : (some (items', roots6, large6, g6), st6) = (some (items, roots, large, g), st1) := by
      cases k6; rfl
    simp only [Prod.mk.injEq, Option.some.injEq] at e6
    obtain ⟨⟨rfl, rfl, rfl, rfl⟩, rfl⟩ := e6
    exact afterUsedPrefix_spec c o _ updated roots0 _ items0 ts0 st5 st6 _ _ _ hi hcap (by rw [hst5s]; exact hw3)
      (by rw [hst5s]; exact old.forest.frame htree3) hsitems hsupd
      (by
        intro x hx
        rw [hupdated, Store.mem_keysOf_iff hw _ _ _ hi (by decide)] at hx
        have := old.marks x (by
          simp only [Cfg.updatedKey, Key.mkUpdated]
          cases hg' : Store.get st.store ⟨c.index, modeUpdated, x⟩ with
          | none => rfl
          | some v => rw [hg'] at hx; simp at hx)
        rw [this, hitems, Store.mem_keysOf_iff hw _ _ _ hi (by decide)]
        rfl)
      (by
        intro i hi'
        rw [hst5s] at hi'
        exact (Store.mem_keysOf_iff hw3 _ _ _ hi (by decide)).2 hi')
      (hfresh _ (Store.keysOf_sorted (step03.sorted hs) hw3 _ _ hi (by decide)) hused_lt)
      h6

/-! ## the loop of a build: its trace and the measure of its queue -/

/-- the facts of the rounds of the re-split loop of `Build.build c o loopFuel` started in `st`
    (empty if the build does not reach the loop) -/
def buildTrace (c : Cfg) (o : BuildOpts) (loopFuel : Nat) (st : BState) : List RoundFact :=
  match buildPrefix c o st with
  | .ok (some (_, _, large, g), st1) => (loopTraced c o loopFuel large g st1).1
  | _ => []

/-- the measure `Σ (size - 1)` of the queue the loop of the build starts with (0 if the build does not reach
    the loop); it does not depend on the loop budget -/
def buildLoopMeasure (c : Cfg) (o : BuildOpts) (st : BState) : Nat :=
  match buildPrefix c o st with
  | .ok (some (_, _, large, _), st1) => loopMeasure c st1.store large
  | _ => 0

/-- a build whose loop has more fuel than the measure of its queue and only rounds with a batch above the
    capacity does not exhaust the loop budget -/
theorem build_aboveCap_noLoopFuel (c : Cfg) (o : BuildOpts) (loopFuel : Nat) (st : BState) (roots0 items0 : List Nat)
    (ts0 : List T) (hi : c.index < 65536) (hcap : 1 ≤ Build.cap c o)
    (hs : Store.Sorted st.store) (hw : Store.WF st.store)
    (old : Old c st.store roots0 items0 ts0) (hnone : st.cancelAt = none) (hfresh : FreshSupply)
    (hfuel : buildLoopMeasure c o st < loopFuel)
    (hbatch : ∀ f ∈ buildTrace c o loopFuel st, Build.cap c o < f.batch) :
    Build.build c o loopFuel st ≠ .error (.fuel "incremental_index_large_descendants") := by
  intro h
  rw [build_eq_prefix] at h
  cases hp : buildPrefix c o st with
  | error e =>
    rw [Transp.bind'_err hp] at h
    injection h with h
    subst h
    have := buildPrefix_fuelOnly c o st _ hp
    revert this
    decide
  | ok x =>
    obtain ⟨x, st1⟩ := x
    rw [Transp.bind'_ok hp] at h
    cases x with
    | none => cases h
    | some y =>
      obtain ⟨items, roots, large, g⟩ := y
      simp only [buildTrace, hp] at hbatch
      simp only [buildLoopMeasure, hp] at hfuel
      obtain ⟨ts, inUse, f, hin, hg, hw1, hl⟩ :=
        buildPrefix_spec c o st st1 roots0 items0 ts0 items roots large g hi hcap hs hw old hnone hfresh hp
      simp only [buildSuffix] at h
      cases hloop : Build.incrementalIndexLargeDescendants c o loopFuel large g st1 with
      | error e =>
        rw [Transp.bind'_err hloop] at h
        injection h with h
        subst h
        exact loop_aboveCap_noFuel c o roots items hi hcap loopFuel large ts g inUse st1 f hin hg hw1 hl hfuel
          hbatch _ hloop
      | ok r =>
        obtain ⟨u, st2⟩ := r
        rw [Transp.bind'_ok hloop] at h
        exact writeMetadata_noFuel c items roots st2 _ h

end Arroy

