import ArroyProofs.BuildInv
import ArroyProofs.DeleteForest
import ArroyProofs.MakeT
import ArroyProofs.TreeView
/-! The forest invariant of a built index (`Forest`), the index invariant that histories
preserve (`IndexInv`), the id-generator hypothesis (`GenOK`) and their basic laws. -/
namespace Arroy
open Generated IdSet

/-- the store holds the trees `ts` rooted at `roots`, they are node-disjoint, cover every tree key
    of the index, and each reaches exactly `items`, each item once -/
structure Forest (c : Cfg) (s : Store) (roots items : List Nat) (ts : List T) : Prop where
  refs : ts.map T.ref = roots.map NodeId.mkTree
  holds : ∀ t ∈ ts, Holds c s t
  /-- no node shared between trees or reachable twice -/
  ids_nodup : (ts.flatMap T.ids).Nodup
  /-- no unreferenced tree node left behind -/
  cover : ∀ id, (Store.get s (c.treeKey id)).isSome ↔ id ∈ ts.flatMap T.ids
  wf : ∀ t ∈ ts, WF t
  /-- each item once per tree -/
  items_nodup : ∀ t ∈ ts, t.items.Nodup
  /-- every tree reaches exactly the items -/
  reach : ∀ t ∈ ts, ∀ x, x ∈ t.items ↔ x ∈ items

/-- the marks are complete: an id without an updated mark is in `items` iff it is stored
    (for every id: an id that does not fit in 32 bits is neither marked nor stored) -/
def MarksComplete (c : Cfg) (s : Store) (items : List Nat) : Prop :=
  ∀ id, (Store.get s (c.updatedKey id)).isNone → (id ∈ items ↔ (Store.get s (c.itemKey id)).isSome)

/-- the part of `IndexInv` about a built index -/
def Built (c : Cfg) (s : Store) : Prop :=
  ∃ name dims items roots, Store.get s c.metaKey = some (.metadata name dims items roots) ∧
    IdSet.Sorted items ∧ (∃ ts, Forest c s roots items ts) ∧ MarksComplete c s items

/-- the index was never built (or was cleared): no metadata and no tree node -/
def Unbuilt (c : Cfg) (s : Store) : Prop :=
  Store.get s c.metaKey = none ∧ ∀ id, Store.get s (c.treeKey id) = none

/-- the invariant of an index, without the clause on the number of roots -/
def IndexInvW (c : Cfg) (s : Store) : Prop :=
  Store.Sorted s ∧ Store.WF s ∧ C05.ItemsAreLeaves c s ∧ (Unbuilt c s ∨ Built c s)

/-- a non-empty built index has a tree -/
def RootsNonempty (c : Cfg) (s : Store) : Prop :=
  ∀ name dims items roots, Store.get s c.metaKey = some (.metadata name dims items roots) → items ≠ [] → roots ≠ []

/-- the index invariant preserved by `(add | append | del | clear)* build` histories -/
def IndexInv (c : Cfg) (s : Store) : Prop := IndexInvW c s ∧ RootsNonempty c s

theorem IndexInv.weak {c : Cfg} {s : Store} (h : IndexInv c s) : IndexInvW c s := h.1

/-! ## trees -/

theorem TWF_iff (t : T) : T.WF t ↔ Arroy.WF t := by
  induction t with
  | leaf i => simp [T.WF, WF]
  | bucket id s => simp [T.WF, WF]
  | node id n l r ihl ihr => simp [T.WF, WF, ihl, ihr]

theorem Holds.isSome {c : Cfg} {s : Store} {t : T} (h : Holds c s t) {i : Nat} (hi : i ∈ t.ids) :
    (Store.get s (c.treeKey i)).isSome = true := by
  rw [← cells_ids] at hi
  obtain ⟨cell, hc, rfl⟩ := List.mem_map.1 hi
  rw [h cell hc]; rfl

/-- `Holds` only looks at the tree keys of the ids of the tree -/
theorem Holds.congr {c : Cfg} {s s' : Store} {t : T} (hh : Holds c s t)
    (agree : ∀ i ∈ t.ids, Store.get s' (c.treeKey i) = Store.get s (c.treeKey i)) : Holds c s' t :=
  hh.frame agree

theorem T.ref_item_of_ref {t : T} {r : Nat} (h : t.ref = NodeId.mkTree r) : t.ref.item = r := by
  rw [h]; rfl

theorem mkTree_inj {a b : Nat} (h : NodeId.mkTree a = NodeId.mkTree b) : a = b := by
  simpa [NodeId.mkTree] using h

theorem roots_of_refs {ts : List T} {roots : List Nat} (h : ts.map T.ref = roots.map NodeId.mkTree) :
    roots = ts.map (fun t => t.ref.item) := by
  induction ts generalizing roots with
  | nil => cases roots with
    | nil => rfl
    | cons r rs => simp at h
  | cons t ts ih =>
    cases roots with
    | nil => simp at h
    | cons r rs =>
      simp only [List.map_cons, List.cons.injEq] at h ⊢
      exact ⟨(T.ref_item_of_ref h.1).symm, ih h.2⟩

theorem refs_of_not_leaf {ts : List T} (h : ∀ t ∈ ts, ∀ i, t ≠ .leaf i) :
    ts.map T.ref = (ts.map (fun t => t.ref.item)).map NodeId.mkTree := by
  induction ts with
  | nil => rfl
  | cons t ts ih =>
    simp only [List.map_cons, List.cons.injEq]
    exact ⟨(T.ref_eq_mkTree_of_not_leaf (h t (by simp))).1, ih (fun t' ht' => h t' (List.mem_cons_of_mem _ ht'))⟩

theorem not_leaf_of_refs {ts : List T} {roots : List Nat} (h : ts.map T.ref = roots.map NodeId.mkTree) :
    ∀ t ∈ ts, ∀ i, t ≠ .leaf i := by
  intro t ht
  have : t.ref ∈ roots.map NodeId.mkTree := h ▸ List.mem_map_of_mem ht
  obtain ⟨r, _, hr⟩ := List.mem_map.1 this
  exact T.not_leaf_of_ref hr.symm

theorem refs_length {ts : List T} {roots : List Nat} (h : ts.map T.ref = roots.map NodeId.mkTree) :
    ts.length = roots.length := by
  have := congrArg List.length h
  simpa using this

/-! ## forests -/

namespace Forest
variable {c : Cfg} {s s' : Store} {roots items : List Nat} {ts : List T}

theorem length (f : Forest c s roots items ts) : ts.length = roots.length := refs_length f.refs

/-- unchanged tree keys: still a forest -/
theorem frame (f : Forest c s roots items ts) (h : ∀ i, Store.get s' (c.treeKey i) = Store.get s (c.treeKey i)) :
    Forest c s' roots items ts where
  refs := f.refs
  holds := fun t ht => (f.holds t ht).frame (fun i _ => h i)
  ids_nodup := f.ids_nodup
  cover := fun id => by rw [h]; exact f.cover id
  wf := f.wf
  items_nodup := f.items_nodup
  reach := f.reach

/-- only the membership of `items` matters -/
theorem items_congr {items' : List Nat} (f : Forest c s roots items ts) (h : ∀ x, x ∈ items' ↔ x ∈ items) :
    Forest c s roots items' ts :=
  { f with reach := fun t ht x => by rw [f.reach t ht x, h] }

theorem nil (h : ∀ id, Store.get s (c.treeKey id) = none) (items : List Nat) : Forest c s [] items [] where
  refs := rfl
  holds := by intro t ht; cases ht
  ids_nodup := by simp
  cover := by intro id; simp [h id]
  wf := by intro t ht; cases ht
  items_nodup := by intro t ht; cases ht
  reach := by intro t ht; cases ht

theorem roots_eq (f : Forest c s roots items ts) : roots = ts.map (fun t => t.ref.item) := roots_of_refs f.refs

theorem mem_ids_of_root (f : Forest c s roots items ts) {t : T} (ht : t ∈ ts) : t.ref.item ∈ ts.flatMap T.ids :=
  List.mem_flatMap.2 ⟨t, ht, (T.ref_eq_mkTree_of_not_leaf (not_leaf_of_refs f.refs t ht)).2⟩

theorem tree_nodup (f : Forest c s roots items ts) {t : T} (ht : t ∈ ts) : t.ids.Nodup := by
  have := f.ids_nodup
  rw [List.Nodup, List.pairwise_flatMap] at this
  exact this.1 t ht

theorem roots_nodup (f : Forest c s roots items ts) : roots.Nodup := by
  rw [f.roots_eq]
  have hnl := not_leaf_of_refs f.refs
  have hnd := f.ids_nodup
  clear f
  induction ts with
  | nil => simp
  | cons t ts ih =>
    simp only [List.flatMap_cons, List.nodup_append] at hnd
    simp only [List.map_cons, List.nodup_cons]
    refine ⟨?_, ih (fun t' ht' => hnl t' (List.mem_cons_of_mem _ ht')) hnd.2.1⟩
    intro hm
    obtain ⟨t', ht', he⟩ := List.mem_map.1 hm
    have h1 := (T.ref_eq_mkTree_of_not_leaf (hnl t (by simp))).2
    have h2 := (T.ref_eq_mkTree_of_not_leaf (hnl t' (List.mem_cons_of_mem _ ht'))).2
    exact hnd.2.2 _ h1 _ (List.mem_flatMap.2 ⟨t', ht', h2⟩) he.symm

/-- the forest can be listed in any order -/
theorem perm {ts' : List T} (f : Forest c s roots items ts) (hp : ts'.Perm ts) :
    Forest c s (ts'.map (fun t => t.ref.item)) items ts' where
  refs := refs_of_not_leaf (fun t ht => not_leaf_of_refs f.refs t (hp.mem_iff.1 ht))
  holds := fun t ht => f.holds t (hp.mem_iff.1 ht)
  ids_nodup := ((hp.flatMap_right T.ids).nodup_iff).2 f.ids_nodup
  cover := fun id => by rw [f.cover id]; exact ((hp.flatMap_right T.ids).mem_iff).symm
  wf := fun t ht => f.wf t (hp.mem_iff.1 ht)
  items_nodup := fun t ht => f.items_nodup t (hp.mem_iff.1 ht)
  reach := fun t ht => f.reach t (hp.mem_iff.1 ht)

/-- the tree keys of the index are in the forest -/
theorem rootsPresent (f : Forest c s roots items ts) (hm : ∃ name dims its, Store.get s c.metaKey =
    some (.metadata name dims its roots)) (hw : Store.WF s) (hi : c.index < 65536) : Transp.RootsPresent c s := by
  intro hne
  obtain ⟨name, dims, its, hm⟩ := hm
  simp only [Transp.rootsOf, hm]
  intro hr
  subst hr
  have hts : ts = [] := by
    have := f.length; simpa using this
  subst hts
  apply hne
  cases hk : Store.keysOf s c.index modeTree with
  | nil => rfl
  | cons id rest =>
    have hmem : id ∈ Store.keysOf s c.index modeTree := by rw [hk]; simp
    rw [Store.mem_keysOf_iff hw _ _ _ hi (by decide)] at hmem
    have := (f.cover id).1 hmem
    simp at this

end Forest

/-! ## the id generator -/

/-- every id the generator hands out fits in 32 bits -/
def GenBounded (g : IdGen) : Prop :=
  ∀ (k : Nat) (ids : List Nat) (g' : IdGen), nextN k g = .ok (ids, g') → ∀ i ∈ ids, i < 4294967296

/-- fresh (w.r.t. `inUse`) and 32-bit ids only -/
def GenOK (inUse : List Nat) (g : IdGen) : Prop := FreshGen inUse g ∧ GenBounded g

theorem GenOK.big {inUse : List Nat} {g : IdGen} (h : GenOK inUse g) {N : Nat} (hN : 4294967296 ≤ N) :
    FreshGen (N :: inUse) g := by
  intro k ids g' hk
  obtain ⟨h1, h2⟩ := h.1 k ids g' hk
  refine ⟨h1, ?_⟩
  intro i hi hm
  rcases List.mem_cons.1 hm with rfl | hm
  · have := h.2 k ids g' hk i hi; omega
  · exact h2 i hi hm

theorem GenOK.of_big {inUse : List Nat} {g : IdGen} (h : ∀ N, 4294967296 ≤ N → FreshGen (N :: inUse) g) :
    GenOK inUse g := by
  refine ⟨(h 4294967296 (Nat.le_refl _)).mono (fun i hi => List.mem_cons_of_mem _ hi), ?_⟩
  intro k ids g' hk i hi
  by_cases hlt : i < 4294967296
  · exact hlt
  · exact absurd (List.mem_cons_self) ((h i (by omega) k ids g' hk).2 i hi)

theorem GenOK.mono {inUse inUse' : List Nat} {g : IdGen} (h : GenOK inUse g) (hs : ∀ i ∈ inUse', i ∈ inUse) :
    GenOK inUse' g := ⟨h.1.mono hs, h.2⟩

theorem GenOK.step {inUse : List Nat} {g g' : IdGen} {id : Nat} (h : GenOK inUse g) (hn : g.next = .ok (id, g')) :
    id ∉ inUse ∧ id < 4294967296 ∧ GenOK (id :: inUse) g' := by
  have hs := h.1.step hn
  refine ⟨hs.1, ?_, ?_⟩
  · by_cases hlt : id < 4294967296
    · exact hlt
    · exact absurd (List.mem_cons_self) ((h.big (N := id) (by omega)).step hn).1
  · apply GenOK.of_big
    intro N hN
    exact ((h.big hN).step hn).2.mono (by
      intro i hi
      rcases List.mem_cons.1 hi with rfl | hi
      · exact List.mem_cons_of_mem _ List.mem_cons_self
      · rcases List.mem_cons.1 hi with rfl | hi
        · exact List.mem_cons_self
        · exact List.mem_cons_of_mem _ (List.mem_cons_of_mem _ hi))

/-! ## the side function only reads item vectors -/

theorem treeCtx_congr (c : Cfg) (o : BuildOpts) {s s' : Store}
    (h : ∀ id, Store.get s' (c.itemKey id) = Store.get s (c.itemKey id)) :
    Build.treeCtx c o s' = Build.treeCtx c o s := by
  have : Build.sideOf c s' = Build.sideOf c s := by
    funext n x
    simp only [Build.sideOf, Writer.itemLeaf, h]
  simp only [Build.treeCtx, this]

/-- the item vectors of index `c` (headers may differ) -/
def vecOf (c : Cfg) (s : Store) (id : Nat) : Option (List Nat) :=
  match Store.get s (c.itemKey id) with
  | some (.leaf _ v) => some v
  | _ => none

/-- `sideOf_stable`: the side function depends on the item vectors only, not on their headers -/
theorem sideOf_stable (c : Cfg) {s s' : Store} (h : ∀ id, vecOf c s' id = vecOf c s id) :
    Build.sideOf c s' = Build.sideOf c s := by
  funext n x
  have hx := h x
  simp only [vecOf] at hx
  simp only [Build.sideOf, Writer.itemLeaf]
  split at hx <;> split at hx <;> simp_all

theorem treeCtx_stable (c : Cfg) (o : BuildOpts) {s s' : Store} (h : ∀ id, vecOf c s' id = vecOf c s id) :
    Build.treeCtx c o s' = Build.treeCtx c o s := by
  simp only [Build.treeCtx, sideOf_stable c h]

end Arroy
