import ArroyProofs.StoreLemmas
import ArroyProofs.PrefixLemmas
import ArroyProofs.BuildFrame
/-! The store relations of the isolation / "what a build may touch" theorems, and the proof that each
is closed under the primitive writes of a build (`OpsClosed`). -/
namespace Arroy
open Generated

/-! ## list-level facts about the store operations (no sortedness needed) -/
namespace Frame

/-- the keys of a store -/
def keys (s : Store) : List Key := s.map (·.1)

theorem filter_put (q : Key → Bool) (s : Store) (k : Key) (v : Val) (hq : q k = false) :
    (Store.put s k v).filter (fun kv => q kv.1) = s.filter (fun kv => q kv.1) := by
  induction s with
  | nil => simp [Store.put, hq]
  | cons kv rest ih =>
    obtain ⟨k', v'⟩ := kv
    simp only [Store.put]
    split
    · simp [List.filter, hq]
    · split
      · rename_i h1 h2; subst h2; simp [List.filter, hq]
      · simp only [List.filter, ih]

theorem filter_erase (q : Key → Bool) (s : Store) (k : Key) (hq : q k = false) :
    (Store.erase s k).filter (fun kv => q kv.1) = s.filter (fun kv => q kv.1) := by
  unfold Store.erase
  rw [List.filter_filter]
  apply List.filter_congr
  intro kv _
  by_cases e : kv.1 = k
  · rw [e, hq]; simp
  · simp [e]

theorem filter_filter_of_imp (q : Key → Bool) (p : Key × Val → Bool) (s : Store)
    (h : ∀ kv, q kv.1 = true → p kv = true) :
    (s.filter p).filter (fun kv => q kv.1) = s.filter (fun kv => q kv.1) := by
  rw [List.filter_filter]
  apply List.filter_congr
  intro kv _
  cases hq : q kv.1
  · simp
  · simp [h kv hq]

theorem mem_keys_put {s : Store} {k k' : Key} {v : Val} (h : k' ∈ keys (Store.put s k v)) : k' = k ∨ k' ∈ keys s := by
  induction s with
  | nil => simp [Store.put, keys] at h; exact Or.inl h
  | cons kv rest ih =>
    obtain ⟨k0, v0⟩ := kv
    simp only [Store.put] at h
    split at h
    · simp only [keys, List.map_cons, List.mem_cons] at h ⊢
      rcases h with h | h | h
      · exact Or.inl h
      · exact Or.inr (Or.inl h)
      · exact Or.inr (Or.inr h)
    · split at h
      · rename_i h1 h2
        simp only [keys, List.map_cons, List.mem_cons] at h ⊢
        rcases h with h | h
        · exact Or.inl h
        · exact Or.inr (Or.inr h)
      · simp only [keys, List.map_cons, List.mem_cons] at h ⊢
        rcases h with h | h
        · exact Or.inr (Or.inl h)
        · rcases ih h with h | h
          · exact Or.inl h
          · exact Or.inr (Or.inr h)

theorem mem_keys_filter {s : Store} {p : Key × Val → Bool} {k : Key} (h : k ∈ keys (s.filter p)) : k ∈ keys s := by
  simp only [keys, List.mem_map, List.mem_filter] at h ⊢
  obtain ⟨kv, ⟨h1, _⟩, h2⟩ := h
  exact ⟨kv, h1, h2⟩

theorem mem_keys_erase {s : Store} {k k' : Key} (h : k' ∈ keys (Store.erase s k)) : k' ∈ keys s ∧ k' ≠ k := by
  simp only [Store.erase, keys, List.mem_map, List.mem_filter] at h ⊢
  obtain ⟨kv, ⟨h1, h3⟩, h2⟩ := h
  refine ⟨⟨kv, h1, h2⟩, ?_⟩
  rw [← h2]; simpa using h3

theorem get_eq_none_of_not_mem {s : Store} {k : Key} (h : k ∉ keys s) : Store.get s k = none := by
  induction s with
  | nil => rfl
  | cons kv rest ih =>
    obtain ⟨k0, v0⟩ := kv
    simp only [keys, List.map_cons, List.mem_cons, not_or] at h
    simp only [Store.get]
    rw [if_neg (fun e => h.1 e.symm)]
    exact ih h.2

theorem mem_keys_of_get {s : Store} {k : Key} {v : Val} (h : Store.get s k = some v) : k ∈ keys s := by
  apply Classical.byContradiction
  intro hn
  rw [get_eq_none_of_not_mem hn] at h
  cases h

theorem get_append_other (s : Store) (k k' : Key) (v : Val) (h : k' ≠ k) :
    Store.get (s ++ [(k, v)]) k' = Store.get s k' := by
  induction s with
  | nil => simp [Store.get, Ne.symm h]
  | cons a r ih => obtain ⟨k0, v0⟩ := a; simp only [List.cons_append, Store.get, ih]

/-- `get` through a filter on the key -/
theorem get_filter_key (s : Store) (p : Key → Bool) (k : Key) :
    Store.get (s.filter (fun kv => p kv.1)) k = if p k then Store.get s k else none := by
  cases h : p k
  · rw [Store.get_filter_none s _ k (fun _ => h)]; simp
  · rw [Store.get_filter s _ k (fun _ => h)]; simp

end Frame

/-! ## the relations -/

/-- **Frame** (isolation, `get` form): no well-formed key of another index changes. -/
def Untouched (i : Nat) (s s' : Store) : Prop :=
  ∀ k : Key, k.wf → k.index ≠ i → Store.get s' k = Store.get s k

/-- **Frame** (isolation, dump form): the sub-list of the entries that do not belong to index `i`
    (as the encoder sees their keys) is the same list. No assumption on the store. -/
def OtherSame (i : Nat) (s s' : Store) : Prop :=
  s'.filter (fun kv => kv.1.index % 65536 != i) = s.filter (fun kv => kv.1.index % 65536 != i)

/-- Every well-formed key that is of another index **or** an item key keeps its value. -/
def FrameNI (i : Nat) (s s' : Store) : Prop :=
  ∀ k : Key, k.wf → (k.index ≠ i ∨ k.mode = modeItem) → Store.get s' k = Store.get s k

/-- two optional values that differ at most by the header of a leaf -/
def SameUpToHeader (a b : Option Val) : Prop :=
  a = b ∨ ∃ h h' v, a = some (.leaf h v) ∧ b = some (.leaf h' v)

/-- the vector words of a stored leaf -/
def leafVec : Option Val → Option (List Nat)
  | some (.leaf _ v) => some v
  | _ => none

/-- **What a build may touch.** Outside the non-item keys of index `i` (its tree nodes, updated marks,
    metadata and version records), a key that is not an item key keeps its value, and an item key keeps
    its presence and its value up to the leaf header (the DotProduct preprocessing rewrites it). -/
def OnlyTreeMarksMeta (i : Nat) (s s' : Store) : Prop :=
  ∀ k : Key, k.wf → ¬ (k.index = i ∧ k.mode ≠ modeItem) →
    (k.mode = modeItem → SameUpToHeader (Store.get s k) (Store.get s' k)) ∧
    (k.mode ≠ modeItem → Store.get s' k = Store.get s k)

/-- no key under the `(i, Updated)` prefix appears -/
def NoNewUpdated (i : Nat) (s s' : Store) : Prop :=
  ∀ k : Key, isPrefixOf (encodePrefix i (some modeUpdated)) (encodeKey k) = true →
    k ∈ Frame.keys s' → k ∈ Frame.keys s

namespace SameUpToHeader
theorem refl (a : Option Val) : SameUpToHeader a a := Or.inl rfl
theorem trans {a b c : Option Val} (h1 : SameUpToHeader a b) (h2 : SameUpToHeader b c) : SameUpToHeader a c := by
  rcases h1 with rfl | ⟨h, h', v, rfl, rfl⟩
  · exact h2
  · rcases h2 with rfl | ⟨g, g', w, e1, rfl⟩
    · exact Or.inr ⟨h, h', v, rfl, rfl⟩
    · simp only [Option.some.injEq, Val.leaf.injEq] at e1
      obtain ⟨_, rfl⟩ := e1
      exact Or.inr ⟨h, g', _, rfl, rfl⟩
theorem leafVec_eq {a b : Option Val} (h : SameUpToHeader a b) : leafVec a = leafVec b := by
  rcases h with rfl | ⟨h, h', v, rfl, rfl⟩ <;> rfl
theorem isSome_eq {a b : Option Val} (h : SameUpToHeader a b) : a.isSome = b.isSome := by
  rcases h with rfl | ⟨h, h', v, rfl, rfl⟩ <;> rfl
end SameUpToHeader

theorem Untouched.storeRel (i : Nat) : StoreRel (Untouched i) :=
  ⟨fun _ _ _ _ => rfl, fun h1 h2 k hk hi => (h2 k hk hi).trans (h1 k hk hi)⟩
theorem OtherSame.storeRel (i : Nat) : StoreRel (OtherSame i) :=
  ⟨fun _ => rfl, fun h1 h2 => Eq.trans h2 h1⟩
theorem FrameNI.storeRel (i : Nat) : StoreRel (FrameNI i) :=
  ⟨fun _ _ _ _ => rfl, fun h1 h2 k hk hi => (h2 k hk hi).trans (h1 k hk hi)⟩
theorem NoNewUpdated.storeRel (i : Nat) : StoreRel (NoNewUpdated i) :=
  ⟨fun _ _ _ h => h, fun h1 h2 k hk hm => h1 k hk (h2 k hk hm)⟩
theorem OnlyTreeMarksMeta.storeRel (i : Nat) : StoreRel (OnlyTreeMarksMeta i) :=
  ⟨fun _ _ _ _ => ⟨fun _ => SameUpToHeader.refl _, fun _ => rfl⟩,
   fun h1 h2 k hk hn =>
    ⟨fun hm => ((h1 k hk hn).1 hm).trans ((h2 k hk hn).1 hm),
     fun hm => ((h2 k hk hn).2 hm).trans ((h1 k hk hn).2 hm)⟩⟩

theorem FrameNI.untouched {i : Nat} {s s' : Store} (h : FrameNI i s s') : Untouched i s s' :=
  fun k hk hi => h k hk (Or.inl hi)

theorem FrameNI.onlyTreeMarksMeta {i : Nat} {s s' : Store} (h : FrameNI i s s') : OnlyTreeMarksMeta i s s' := by
  intro k hk hn
  have e : Store.get s' k = Store.get s k := by
    apply h k hk
    by_cases hi : k.index = i
    · right
      apply Classical.byContradiction
      intro hm; exact hn ⟨hi, hm⟩
    · exact Or.inl hi
  exact ⟨fun _ => Or.inl e.symm, fun _ => e⟩

/-- The formulation by kinds: for a key of one of the four kinds the decoder accepts, outside the tree
    nodes, updated marks and metadata/version records of index `i`: an item key keeps its presence and
    its vector words, any other key keeps its value.
    (For a key of index `i` whose kind byte is none of the four discriminants the statement would be
    false in the model: `delete_tree` follows the child ids of a split node whatever their kind, see the
    `example` in `BuildTouch.lean`; the real decoder rejects such ids.) -/
theorem OnlyTreeMarksMeta.by_kind {i : Nat} {s s' : Store} (h : OnlyTreeMarksMeta i s s') (k : Key) (hk : k.wf)
    (hv : k.mode = modeMetadata ∨ k.mode = modeUpdated ∨ k.mode = modeTree ∨ k.mode = modeItem)
    (hn : ¬ (k.index = i ∧ (k.mode = modeTree ∨ k.mode = modeUpdated ∨ k.mode = modeMetadata))) :
    (k.mode = modeItem → leafVec (Store.get s' k) = leafVec (Store.get s k) ∧
      (Store.get s' k).isSome = (Store.get s k).isSome) ∧
    (k.mode ≠ modeItem → Store.get s' k = Store.get s k) := by
  have hn' : ¬ (k.index = i ∧ k.mode ≠ modeItem) := by
    rintro ⟨e1, e2⟩
    apply hn
    refine ⟨e1, ?_⟩
    rcases hv with e | e | e | e
    · exact Or.inr (Or.inr e)
    · exact Or.inr (Or.inl e)
    · exact Or.inl e
    · exact absurd e e2
  obtain ⟨h1, h2⟩ := h k hk hn'
  exact ⟨fun hm => ⟨(h1 hm).leafVec_eq.symm, (h1 hm).isSome_eq.symm⟩, h2⟩

theorem OnlyTreeMarksMeta.untouched {i : Nat} {s s' : Store} (h : OnlyTreeMarksMeta i s s') :
    ∀ k : Key, k.wf → k.index ≠ i → k.mode ≠ modeItem → Store.get s' k = Store.get s k :=
  fun k hk hi hm => (h k hk (fun e => hi e.1)).2 hm

/-- the dump form of isolation implies the `get` form -/
theorem OtherSame.untouched {i : Nat} {s s' : Store} (h : OtherSame i s s') : Untouched i s s' := by
  intro k hk hi
  have e1 := Frame.get_filter_key s' (fun k => k.index % 65536 != i) k
  have e2 := Frame.get_filter_key s (fun k => k.index % 65536 != i) k
  have : (k.index % 65536 != i) = true := by
    rw [Nat.mod_eq_of_lt hk.1]; simpa using hi
  simp only [this, if_true] at e1 e2
  rw [← e1, ← e2]
  exact congrArg (fun l => Store.get l k) h

/-- the dump form of isolation gives the same prefix scans of every other index -/
theorem OtherSame.prefixIter_eq {i : Nat} {s s' : Store} (h : OtherSame i s s') (j : Nat) (m : Option Nat)
    (hj : j % 65536 ≠ i) : Store.prefixIter s' j m = Store.prefixIter s j m := by
  have key : ∀ t : Store, Store.prefixIter t j m =
      (t.filter (fun kv => kv.1.index % 65536 != i)).filter
        (fun kv => isPrefixOf (encodePrefix j m) (encodeKey kv.1)) := by
    intro t
    rw [List.filter_filter]
    unfold Store.prefixIter
    apply List.filter_congr
    intro kv _
    cases hp : isPrefixOf (encodePrefix j m) (encodeKey kv.1)
    · simp
    · have : kv.1.index % 65536 = j % 65536 := by
        cases m with
        | none => exact (isPrefixOf_index_all j kv.1).1 hp
        | some m => exact ((isPrefixOf_kind_all j m kv.1).1 hp).1
      simp [this, hj]
  rw [key s', key s, h]

/-! ## closure under the writes of a build -/

theorem OtherSame.opsClosed (c : Cfg) (hi : c.index < 65536) : OpsClosed c (OtherSame c.index) where
  toStoreRel := OtherSame.storeRel _
  put := fun s m id v _ => Frame.filter_put (fun k => k.index % 65536 != c.index) s _ v (by
    simp [Nat.mod_eq_of_lt hi])
  erase := fun s m id _ => Frame.filter_erase (fun k => k.index % 65536 != c.index) s _ (by
    simp [Nat.mod_eq_of_lt hi])
  delRange := fun s => by
    unfold OtherSame Store.deleteRange
    apply Frame.filter_filter_of_imp (fun k => k.index % 65536 != c.index)
    intro kv hq
    apply (treeRange_keeps_all c.index kv.1 hi).2
    intro e
    simp [e.1] at hq

theorem FrameNI.opsClosed (c : Cfg) (hi : c.index < 65536) : OpsClosed c (FrameNI c.index) where
  toStoreRel := FrameNI.storeRel _
  put := fun s m id v hm k _ hk => Store.get_put_other s _ k v (by
    intro e; subst e
    rcases hk with hk | hk
    · exact hk rfl
    · rcases hm with rfl | rfl <;> simp [modeTree, modeMetadata, modeItem] at hk)
  erase := fun s m id hm k _ hk => Store.get_erase_other s _ k (by
    intro e; subst e
    rcases hk with hk | hk
    · exact hk rfl
    · exact hm hk)
  delRange := fun s k hwf hk => by
    unfold Store.deleteRange
    apply Store.get_filter
    intro v
    apply (treeRange_keeps c.index k hwf hi).2
    intro e
    rcases hk with hk | hk
    · exact hk e.1
    · rw [e.2] at hk; simp [modeTree, modeItem] at hk

theorem NoNewUpdated.opsClosed (c : Cfg) : OpsClosed c (NoNewUpdated c.index) where
  toStoreRel := NoNewUpdated.storeRel _
  put := fun s m id v hm k hp hk => by
    rcases Frame.mem_keys_put hk with e | e
    · subst e
      have := ((isPrefixOf_kind_all c.index modeUpdated _).1 hp).2
      rcases hm with rfl | rfl <;> simp [modeTree, modeMetadata, modeUpdated] at this
    · exact e
  erase := fun s m id _ k _ hk => (Frame.mem_keys_erase hk).1
  delRange := fun s k _ hk => Frame.mem_keys_filter hk

end Arroy
