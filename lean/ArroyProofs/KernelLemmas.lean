import ArroyModel.Distance
/-! Structure lemmas about the kernel schemas of `ArroyModel/Distance.lean` that hold for every
arithmetic (core Lean only): `chunks` on multiples of the block size, the main loop as an iteration
over `take`/`drop`, argument swap, and the "all accumulators stay at a fixed point" lemma. -/
namespace Arroy
namespace Kernel

theorem chunks_nil {α : Type} (k : Nat) : chunks k ([] : List α) = [] := by
  rw [chunks]; simp

theorem chunks_cons {α : Type} {k : Nat} (hk : 0 < k) {l : List α} (hl : l ≠ []) :
    chunks k l = l.take k :: chunks k (l.drop k) := by
  rw [chunks]
  have : ¬ (k = 0 ∨ l = []) := by
    intro h; cases h with
    | inl h => omega
    | inr h => exact hl h
  simp [this]

/-- `chunks k l` for `l.length = q * k` : `q` blocks of length `k` whose concatenation is `l`. -/
theorem chunks_mul {α : Type} {k : Nat} (hk : 0 < k) :
    ∀ (q : Nat) (l : List α), l.length = q * k →
      (chunks k l).length = q ∧ (∀ b ∈ chunks k l, b.length = k) ∧ (chunks k l).flatten = l := by
  intro q
  induction q with
  | zero =>
    intro l hl
    have : l = [] := List.length_eq_zero_iff.mp (by simpa using hl)
    subst this; simp [chunks_nil]
  | succ q ih =>
    intro l hl
    have hne : l ≠ [] := by
      intro h; subst h
      simp only [List.length_nil] at hl
      have : 0 < (q + 1) * k := Nat.mul_pos (Nat.succ_pos q) hk
      omega
    have hlen : (l.drop k).length = q * k := by
      rw [List.length_drop, hl, Nat.succ_mul]; omega
    obtain ⟨h1, h2, h3⟩ := ih (l.drop k) hlen
    rw [chunks_cons hk hne]
    refine ⟨by simp [h1], ?_, ?_⟩
    · intro b hb
      rcases List.mem_cons.mp hb with hb | hb
      · subst hb
        rw [List.length_take, hl, Nat.succ_mul]; omega
      · exact h2 b hb
    · simp [h3]

variable {α : Type}

/-- the main loop as `q` iterations over `take k` / `drop k` -/
def mainLoopQ (lanes : Nat) (step : α → α → α → α) (k : Nat) :
    Nat → List (List α) → List α → List α → List (List α)
  | 0, accs, _, _ => accs
  | q+1, accs, u, v =>
    mainLoopQ lanes step k q (blockStep lanes step accs (u.take k) (v.take k)) (u.drop k) (v.drop k)

theorem mainLoop_nil_left (lanes : Nat) (step : α → α → α → α) (accs vs : List (List α)) :
    mainLoop lanes step accs [] vs = accs := by
  simp [mainLoop]

theorem mainLoop_chunks (lanes : Nat) (step : α → α → α → α) {k : Nat} (hk : 0 < k) :
    ∀ (q : Nat) (accs : List (List α)) (u v : List α), u.length = q * k → v.length = q * k →
      mainLoop lanes step accs (chunks k u) (chunks k v) = mainLoopQ lanes step k q accs u v := by
  intro q
  induction q with
  | zero =>
    intro accs u v hu hv
    have : u = [] := List.length_eq_zero_iff.mp (by simpa using hu)
    subst this
    simp [chunks_nil, mainLoop_nil_left, mainLoopQ]
  | succ q ih =>
    intro accs u v hu hv
    have hpos : 0 < (q + 1) * k := Nat.mul_pos (Nat.succ_pos q) hk
    have hune : u ≠ [] := by intro h; subst h; simp only [List.length_nil] at hu; omega
    have hvne : v ≠ [] := by intro h; subst h; simp only [List.length_nil] at hv; omega
    have hul : (u.drop k).length = q * k := by rw [List.length_drop, hu, Nat.succ_mul]; omega
    have hvl : (v.drop k).length = q * k := by rw [List.length_drop, hv, Nat.succ_mul]; omega
    rw [chunks_cons hk hune, chunks_cons hk hvne, mainLoop, mainLoopQ, ih _ _ _ hul hvl]

/-- the prefix processed by the main loop is a whole number of blocks -/
theorem prefix_len (n k : Nat) : n - n % k = (n / k) * k := by
  have := Nat.div_add_mod n k
  rw [Nat.mul_comm] at this
  omega

theorem le_succ_mul (q k : Nat) : k ≤ (q + 1) * k := by rw [Nat.succ_mul]; omega
theorem succ_mul_sub (q k : Nat) : (q + 1) * k - k = q * k := by rw [Nat.succ_mul]; omega

theorem range4 : List.range 4 = [0, 1, 2, 3] := by decide

theorem blockStep_four (lanes : Nat) (step : α → α → α → α) (a0 a1 a2 a3 bu bv : List α) :
    blockStep lanes step [a0, a1, a2, a3] bu bv =
      [ zipWith3 step (bu.take lanes) (bv.take lanes) a0,
        zipWith3 step ((bu.drop lanes).take lanes) ((bv.drop lanes).take lanes) a1,
        zipWith3 step ((bu.drop (2 * lanes)).take lanes) ((bv.drop (2 * lanes)).take lanes) a2,
        zipWith3 step ((bu.drop (3 * lanes)).take lanes) ((bv.drop (3 * lanes)).take lanes) a3 ] := by
  simp [blockStep, range4]

/-! ### argument swap -/

theorem zipWith_swap {β : Type} (g : α → α → β) (hg : ∀ a b, g a b = g b a) :
    ∀ (xs ys : List α), List.zipWith g xs ys = List.zipWith g ys xs := by
  intro xs
  induction xs with
  | nil => intro ys; cases ys <;> rfl
  | cons x xs ih =>
    intro ys
    cases ys with
    | nil => rfl
    | cons y ys => simp only [List.zipWith_cons_cons, hg x y, ih ys]

theorem zipWith_self {β : Type} (g : α → α → β) :
    ∀ (xs : List α), List.zipWith g xs xs = xs.map (fun a => g a a) := by
  intro xs
  induction xs with
  | nil => rfl
  | cons x xs ih => simp only [List.zipWith_cons_cons, List.map_cons, ih]

theorem zipWith3_swap (step : α → α → α → α) (hs : ∀ a b c, step a b c = step b a c) :
    ∀ (xs ys acc : List α), zipWith3 step xs ys acc = zipWith3 step ys xs acc := by
  intro xs
  induction xs with
  | nil => intro ys acc; cases ys <;> simp [zipWith3]
  | cons x xs ih =>
    intro ys acc
    cases ys with
    | nil => simp [zipWith3]
    | cons y ys =>
      cases acc with
      | nil => simp [zipWith3]
      | cons c cs => simp [zipWith3, hs x y c, ih ys cs]

theorem blockStep_swap (lanes : Nat) (step : α → α → α → α) (hs : ∀ a b c, step a b c = step b a c)
    (accs : List (List α)) (bu bv : List α) :
    blockStep lanes step accs bu bv = blockStep lanes step accs bv bu := by
  unfold blockStep
  apply List.map_congr_left
  intro ⟨j, acc⟩ _
  exact zipWith3_swap step hs _ _ _

theorem mainLoop_swap (lanes : Nat) (step : α → α → α → α) (hs : ∀ a b c, step a b c = step b a c) :
    ∀ (us vs accs : List (List α)), mainLoop lanes step accs us vs = mainLoop lanes step accs vs us := by
  intro us
  induction us with
  | nil => intro vs accs; cases vs <;> simp [mainLoop]
  | cons bu us ih =>
    intro vs accs
    cases vs with
    | nil => simp [mainLoop]
    | cons bv vs => simp only [mainLoop]; rw [blockStep_swap lanes step hs, ih]

theorem foldl_zip_swap (tail : α → α → α → α) (ht : ∀ r a b, tail r a b = tail r b a) :
    ∀ (xs ys : List α) (r : α),
      (List.zip xs ys).foldl (fun r (p : α × α) => tail r p.1 p.2) r =
      (List.zip ys xs).foldl (fun r (p : α × α) => tail r p.1 p.2) r := by
  intro xs
  induction xs with
  | nil => intro ys r; cases ys <;> simp
  | cons x xs ih =>
    intro ys r
    cases ys with
    | nil => simp
    | cons y ys => simp only [List.zip_cons_cons, List.foldl_cons]; rw [ht r x y, ih]

/-- a kernel of the SSE/AVX shape is symmetric in its two arguments as soon as the lane step and the
remainder step are -/
theorem simd_swap (A : Arith α) (lanes : Nat) (step : α → α → α → α) (hsum : List α → α)
    (tail : α → α → α → α) (hs : ∀ a b c, step a b c = step b a c) (ht : ∀ r a b, tail r a b = tail r b a)
    (u v : List α) (hlen : u.length = v.length) :
    simd A lanes step hsum tail u v = simd A lanes step hsum tail v u := by
  unfold simd
  simp only [hlen]
  rw [mainLoop_swap lanes step hs]
  exact foldl_zip_swap tail ht _ _ _

/-! ### accumulators at a fixed point (used for the self distance) -/

theorem zipWith3_fix (step : α → α → α → α) (z : α) :
    ∀ (xs : List α), (∀ a ∈ xs, step a a z = z) →
      zipWith3 step xs xs (List.replicate xs.length z) = List.replicate xs.length z := by
  intro xs
  induction xs with
  | nil => intro _; simp [zipWith3]
  | cons x xs ih =>
    intro h
    simp only [List.length_cons, List.replicate_succ, zipWith3]
    rw [h x (by simp), ih (fun a ha => h a (by simp [ha]))]

theorem blockStep_fix (lanes : Nat) (step : α → α → α → α) (z : α) (bu : List α)
    (hlen : bu.length = 4 * lanes) (h : ∀ a ∈ bu, step a a z = z) :
    blockStep lanes step (List.replicate 4 (List.replicate lanes z)) bu bu =
      List.replicate 4 (List.replicate lanes z) := by
  have hrep : List.replicate 4 (List.replicate lanes z) =
      [List.replicate lanes z, List.replicate lanes z, List.replicate lanes z, List.replicate lanes z] := rfl
  rw [hrep, blockStep_four]
  have key : ∀ xs : List α, xs.length = lanes → (∀ a ∈ xs, a ∈ bu) →
      zipWith3 step xs xs (List.replicate lanes z) = List.replicate lanes z := by
    intro xs hx hm
    have := zipWith3_fix step z xs (fun a ha => h a (hm a ha))
    rwa [hx] at this
  rw [key _ (by rw [List.length_take]; omega) (fun a ha => List.mem_of_mem_take ha),
      key _ (by rw [List.length_take, List.length_drop]; omega)
        (fun a ha => List.mem_of_mem_drop (List.mem_of_mem_take ha)),
      key _ (by rw [List.length_take, List.length_drop]; omega)
        (fun a ha => List.mem_of_mem_drop (List.mem_of_mem_take ha)),
      key _ (by rw [List.length_take, List.length_drop]; omega)
        (fun a ha => List.mem_of_mem_drop (List.mem_of_mem_take ha))]

theorem mainLoopQ_fix (lanes : Nat) (step : α → α → α → α) (z : α) :
    ∀ (q : Nat) (u : List α), u.length = q * (4 * lanes) → (∀ a ∈ u, step a a z = z) →
      mainLoopQ lanes step (4 * lanes) q (List.replicate 4 (List.replicate lanes z)) u u =
        List.replicate 4 (List.replicate lanes z) := by
  intro q
  induction q with
  | zero => intro u _ _; rfl
  | succ q ih =>
    intro u hu h
    rw [mainLoopQ, blockStep_fix lanes step z (u.take (4 * lanes))
      (by rw [List.length_take, hu]; exact Nat.min_eq_left (le_succ_mul q _))
      (fun a ha => h a (List.mem_of_mem_take ha))]
    exact ih (u.drop (4 * lanes)) (by rw [List.length_drop, hu]; exact succ_mul_sub q _)
      (fun a ha => h a (List.mem_of_mem_drop ha))

theorem foldl_zip_fix (tail : α → α → α → α) (z : α) :
    ∀ (xs : List α), (∀ a ∈ xs, tail z a a = z) →
      (List.zip xs xs).foldl (fun r (p : α × α) => tail r p.1 p.2) z = z := by
  intro xs
  induction xs with
  | nil => intro _; rfl
  | cons x xs ih =>
    intro h
    simp only [List.zip_cons_cons, List.foldl_cons]
    rw [h x (by simp)]
    exact ih (fun a ha => h a (by simp [ha]))

/-- if `z = A.zero` is a fixed point of the lane step on equal arguments, of the horizontal sums and of
the remainder step, the kernel applied to `(u, u)` returns `z` — for every length -/
theorem simd_fix (A : Arith α) (lanes : Nat) (hl : 0 < lanes) (step : α → α → α → α) (hsum : List α → α)
    (tail : α → α → α → α) (u : List α)
    (hstep : ∀ a ∈ u, step a a A.zero = A.zero)
    (hh : hsum (List.replicate lanes A.zero) = A.zero)
    (hadd : A.add A.zero A.zero = A.zero)
    (htail : ∀ a ∈ u, tail A.zero a a = A.zero) :
    simd A lanes step hsum tail u u = A.zero := by
  unfold simd
  simp only
  have hk : 0 < 4 * lanes := by omega
  have hm : (u.take (u.length - u.length % (4 * lanes))).length = (u.length / (4 * lanes)) * (4 * lanes) := by
    rw [List.length_take, ← prefix_len]; omega
  rw [mainLoop_chunks lanes step hk _ _ _ _ hm hm,
      mainLoopQ_fix lanes step A.zero _ _ hm (fun a ha => hstep a (List.mem_of_mem_take ha))]
  have hrep : List.replicate 4 (List.replicate lanes A.zero) =
      [List.replicate lanes A.zero, List.replicate lanes A.zero, List.replicate lanes A.zero,
       List.replicate lanes A.zero] := rfl
  rw [hrep]
  simp only [List.map_cons, List.map_nil, hh, hadd]
  exact foldl_zip_fix tail A.zero _ (fun a ha => htail a (List.mem_of_mem_drop ha))

end Kernel
end Arroy
