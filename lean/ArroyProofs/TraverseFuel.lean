import ArroyProofs.Nns
/-! Fuel irrelevance and locality of the reader: `traverse` returns the same `.ok` for every larger
fuel; `traverse`, `scoreAll` and `nnsByLeaf` read the store only through `Store.get` on keys of the
queried index; a valid forest transfers between stores that agree on these keys. -/
namespace Arroy
open Generated
namespace Reader

/-- the two stores answer `get` identically on every key whose index field is `c.index` -/
def SameIndex (c : Cfg) (s s' : Store) : Prop :=
  ∀ m id, Store.get s' ⟨c.index, m, id⟩ = Store.get s ⟨c.index, m, id⟩

theorem SameIndex.symm {c : Cfg} {s s' : Store} (h : SameIndex c s s') : SameIndex c s' s :=
  fun m id => (h m id).symm

theorem SameIndex.item {c : Cfg} {s s' : Store} (h : SameIndex c s s') (id : Nat) :
    Store.get s' (c.itemKey id) = Store.get s (c.itemKey id) := h _ _

theorem SameIndex.tree {c : Cfg} {s s' : Store} (h : SameIndex c s s') (id : Nat) :
    Store.get s' (c.treeKey id) = Store.get s (c.treeKey id) := h _ _

/-- **fuel monotonicity**: a successful traversal is not changed by more fuel -/
theorem traverse_fuel_mono (c : Cfg) (s : Store) (qv : List Nat) (q : QueryOpts) (searchK : Nat) :
    ∀ (fuel : Nat) (queue : List (Nat × NodeId)) (nns out : List Nat),
      traverse c s qv q searchK fuel queue nns = .ok out →
      ∀ fuel', fuel ≤ fuel' → traverse c s qv q searchK fuel' queue nns = .ok out := by
  intro fuel
  induction fuel with
  | zero => intro queue nns out h; simp [traverse] at h
  | succ n ih =>
    intro queue nns out h fuel' hf
    obtain ⟨m, rfl⟩ : ∃ m, fuel' = m + 1 := ⟨fuel' - 1, by omega⟩
    have hm : n ≤ m := by omega
    rw [traverse] at h ⊢
    split
    · rename_i hs; rw [if_pos hs] at h; exact h
    · rename_i hs
      rw [if_neg hs] at h
      split at h
      · exact h
      · split at h
        · exact h
        · exact ih _ _ _ h m hm
        · exact ih _ _ _ h m hm
        · exact ih _ _ _ h m hm
        · exact h

/-- two successful traversals from the same state agree, whatever their fuels -/
theorem traverse_fuel_irrelevant (c : Cfg) (s : Store) (qv : List Nat) (q : QueryOpts) (searchK : Nat)
    (f₁ f₂ : Nat) (queue : List (Nat × NodeId)) (nns out₁ out₂ : List Nat)
    (h₁ : traverse c s qv q searchK f₁ queue nns = .ok out₁)
    (h₂ : traverse c s qv q searchK f₂ queue nns = .ok out₂) : out₁ = out₂ := by
  rcases Nat.le_total f₁ f₂ with hle | hle
  · have := traverse_fuel_mono c s qv q searchK f₁ queue nns out₁ h₁ f₂ hle
    rw [this] at h₂; cases h₂; rfl
  · have := traverse_fuel_mono c s qv q searchK f₂ queue nns out₂ h₂ f₁ hle
    rw [this] at h₁; cases h₁; rfl

/-- **locality of the traversal**: it reads only keys of index `c.index` -/
theorem traverse_congr (c : Cfg) {s s' : Store} (hs : SameIndex c s s') (qv : List Nat) (q : QueryOpts)
    (searchK : Nat) : ∀ (fuel : Nat) (queue : List (Nat × NodeId)) (nns : List Nat),
      traverse c s' qv q searchK fuel queue nns = traverse c s qv q searchK fuel queue nns := by
  intro fuel
  induction fuel with
  | zero => intro queue nns; simp [traverse]
  | succ n ih =>
    intro queue nns
    rw [traverse, traverse]
    split
    · rfl
    · split
      · rfl
      · rename_i dist node queue' hp
        rw [hs node.mode node.item]
        split
        · rfl
        · exact ih _ _
        · exact ih _ _
        · exact ih _ _
        · rfl

/-- **locality of the scoring pass** -/
theorem scoreAll_congr (c : Cfg) {s s' : Store} (hs : SameIndex c s s') (qh qv : List Nat) (ids : List Nat) :
    scoreAll c s' qh qv ids = scoreAll c s qh qv ids := by
  induction ids with
  | nil => rfl
  | cons id rest ih =>
    rw [scoreAll, scoreAll, hs.item id, ih]

end Reader
open Reader

/-- a valid forest only mentions keys of its own index -/
theorem ForestWith.congr {c : Cfg} {s s' : Store} {rd : ReaderState} {ts : List T}
    (F : ForestWith c s rd ts) (hs : SameIndex c s s') : ForestWith c s' rd ts where
  refs := F.refs
  holds := fun t ht => (F.holds t ht).frame (fun i _ => hs.tree i)
  reach := F.reach
  items_nodup := F.items_nodup
  ids_nodup := F.ids_nodup
  sorted := F.sorted
  stored := fun x hx => by
    obtain ⟨h, v, hg⟩ := F.stored x hx
    exact ⟨h, v, by rw [hs.item x]; exact hg⟩
  roots_ne := F.roots_ne

theorem ForestOK.congr {c : Cfg} {s s' : Store} {rd : ReaderState} (F : ForestOK c s rd)
    (hs : SameIndex c s s') : ForestOK c s' rd := by
  obtain ⟨ts, F⟩ := F
  exact ⟨ts, F.congr hs⟩

namespace Reader

/-- `nnsByLeaf` is determined by the outcome of its traversal and by the `get`s of its index -/
theorem nnsByLeaf_congr_of_traverse (c : Cfg) {s s' : Store} (hs : SameIndex c s s') (rd : ReaderState)
    (qh qv : List Nat) (q : QueryOpts)
    (ht : traverse c s' qv q (budget c.metric rd.roots.length q) (2 * s'.length + rd.roots.length + 2)
        (rd.roots.map fun r => (F32.inf, NodeId.mkTree r)) [] =
      traverse c s qv q (budget c.metric rd.roots.length q) (2 * s.length + rd.roots.length + 2)
        (rd.roots.map fun r => (F32.inf, NodeId.mkTree r)) []) :
    nnsByLeaf c s' rd qh qv q = nnsByLeaf c s rd qh qv q := by
  unfold nnsByLeaf
  simp only [ht, scoreAll_congr c hs]

/-- **the answer on a valid forest does not depend on the rest of the store**: if `s'` agrees with `s`
on the keys of index `c.index` (it may have any number of other entries, so the fuel
`2 * s.length + …` differs), every query gives the same answer -/
theorem nnsByLeaf_congr_of_forest (c : Cfg) {s s' : Store} (hs : SameIndex c s s') (rd : ReaderState)
    (F : ForestOK c s rd) (qh qv : List Nat) (q : QueryOpts) :
    nnsByLeaf c s' rd qh qv q = nnsByLeaf c s rd qh qv q := by
  apply nnsByLeaf_congr_of_traverse c hs
  obtain ⟨ts, F⟩ := F
  obtain ⟨nns, hn, _⟩ := traverse_total F qv q (budget c.metric rd.roots.length q)
  obtain ⟨nns', hn', _⟩ := traverse_total (F.congr hs) qv q (budget c.metric rd.roots.length q)
  rw [traverse_congr c hs] at hn'
  have := traverse_fuel_irrelevant c s qv q _ _ _ _ _ _ _ hn hn'
  subst this
  rw [traverse_congr c hs, hn, hn']

/-- without any hypothesis on the forest: an answer obtained on `s` is obtained on every `s'` that
agrees on the keys of the index and has at least as many entries -/
theorem nnsByLeaf_congr_of_ok (c : Cfg) {s s' : Store} (hs : SameIndex c s s') (hlen : s.length ≤ s'.length)
    (rd : ReaderState) (qh qv : List Nat) (q : QueryOpts) (ans : List (Nat × Nat))
    (h : nnsByLeaf c s rd qh qv q = .ok ans) : nnsByLeaf c s' rd qh qv q = .ok ans := by
  rcases nnsByLeaf_ok_inv c s rd qh qv q ans h with ⟨he, rfl⟩ | ⟨nns, _, ht, _, _⟩
  · simp [nnsByLeaf, he]
  · rw [← h]
    apply nnsByLeaf_congr_of_traverse c hs
    rw [traverse_congr c hs, ht]
    exact traverse_fuel_mono c s qv q _ _ _ _ _ ht _ (by omega)

end Reader
end Arroy
