import ArroyProofs.Properties.Reachable
/-! The invariant "every stored item leaf of the index was made by `Cfg.mkLeaf`" and its preservation
by every step of a history (`add`, `append`, `del`, `clear`, `build`, `prepare` — of any index; a metric
change of the index itself moves the invariant from the old configuration to the new one:
`leavesMade_prepare`, `leavesMade_foldl` for the histories after it). -/
namespace Arroy
open Generated

/-- every stored item leaf of index `c` is `c.mkLeaf xs` for some `xs` of the declared dimension: its
    words are `from_slice xs` and its header is `new_header` of these words. For the dot-product metric
    only the words are constrained (the preprocessing of a build rewrites the header; the query
    functions of that metric do not read it). -/
def LeavesMade (c : Cfg) (s : Store) : Prop :=
  ∀ id hd v, Store.get s (c.itemKey id) = some (.leaf hd v) →
    ∃ xs, xs.length = c.dims ∧ v = c.metric.fromSlice xs ∧
      (c.metric ≠ .dot → hd = c.metric.newHeader c.host v)

/-- for every metric but dot-product the stored value is literally `c.mkLeaf xs` -/
theorem LeavesMade.mkLeaf {c : Cfg} {s : Store} (h : LeavesMade c s) (hm : c.metric ≠ .dot)
    {id : Nat} {hd v : List Nat} (hg : Store.get s (c.itemKey id) = some (.leaf hd v)) :
    ∃ xs, xs.length = c.dims ∧ Val.leaf hd v = c.mkLeaf xs := by
  obtain ⟨xs, hl, hv, hh⟩ := h id hd v hg
  refine ⟨xs, hl, ?_⟩
  unfold Cfg.mkLeaf
  rw [hh hm, hv]

theorem LeavesMade.nil (c : Cfg) : LeavesMade c [] := by
  intro id hd v hg; simp [Store.get] at hg

namespace C01

/-- the operations of the history that write or rewrite item leaves of index `c` do so under the
    configuration `c`: items of the index are added by `c` itself (same metric, dimension, host), and
    a build on the index by a dot-product configuration (whose preprocessing rewrites headers) happens
    only if `c` is dot-product too; a `prepare` on the index does not change the metric (a real metric
    change re-encodes every leaf for the new configuration: see `leavesMade_prepare`, which carries the
    invariant from the old configuration to the new one) -/
def madeBy (c : Cfg) : Op → Prop
  | .add c' _ _ => c'.index = c.index → c' = c
  | .append c' _ _ => c'.index = c.index → c' = c
  | .build c' _ _ _ => c'.index = c.index → c'.metric = .dot → c.metric = .dot
  | .prepare c' m' => c'.index = c.index → m' = c'.metric
  | _ => True

theorem leavesMade_add {c c' : Cfg} {s s' : Store} {id : Nat} {vec : List Nat}
    (hc : c'.index = c.index → c' = c)
    (h : Writer.addItem c' s id vec = .ok s') (hP : LeavesMade c s) : LeavesMade c s' := by
  intro id0 hd v hg
  rw [Writer.get_addItem h, if_neg (Cfg.itemKey_ne_updatedKey c' c id id0)] at hg
  by_cases he : c.itemKey id0 = c'.itemKey id
  · rw [if_pos he] at hg
    have hcc := hc ((Cfg.itemKey_eq_iff c' c id id0).1 he).1.symm
    subst hcc
    simp only [Cfg.mkLeaf, Option.some.injEq, Val.leaf.injEq] at hg
    exact ⟨vec, (Writer.addItem_ok h).1, hg.2.symm, fun _ => by rw [← hg.1, ← hg.2]⟩
  · rw [if_neg he] at hg
    exact hP id0 hd v hg

theorem leavesMade_step (s : Store) (op : Op) (hop : op.wf) (c : Cfg) (hi : c.index < 65536)
    (hq : madeBy c op) (hinv : ∀ c : Cfg, c.index < 65536 → IndexInv c s) (hP : LeavesMade c s) :
    LeavesMade c (step s op) := by
  cases op with
  | add c' id vec =>
    simp only [step]
    cases h : Writer.addItem c' s id vec with
    | ok s' => exact leavesMade_add hq h hP
    | error e => exact hP
  | append c' id vec =>
    simp only [step]
    cases h : Writer.appendItem c' s id vec with
    | ok s' => exact leavesMade_add hq (Writer.appendItem_ok_eq_addItem (hinv c hi).1.1 h) hP
    | error e => exact hP
  | del c' id =>
    intro id0 hd v hg
    simp only [step] at hg
    rw [Writer.get_delItem] at hg
    split at hg
    · cases hg
    · split at hg
      · cases hg
      · exact hP id0 hd v hg
  | clear c' =>
    intro id0 hd v hg
    simp only [step] at hg
    by_cases he : c.index = c'.index
    · rw [Writer.get_clear_same c' s _ he] at hg; cases hg
    · rw [get_clear_other' c' s (hinv c hi).1.2.1 hop _ he] at hg
      exact hP id0 hd v hg
  | build c' o fuel env =>
    simp only [step]
    cases h : Build.build c' o fuel { env with store := s } with
    | error e => exact hP
    | ok r =>
      obtain ⟨u, st'⟩ := r
      intro id0 hd v hg
      simp only at hg
      by_cases hk : (c.itemKey id0).wf
      · by_cases hdot : c.metric = .dot
        · -- only the words are constrained: a build keeps them
          rcases C05.C05_build_item_keys c' hop.1 o fuel { env with store := s } st' (hinv c hi).1.1 h
            (c.itemKey id0) hk rfl with e | ⟨h0, h', v', e1, e2⟩
          · exact hP id0 hd v (by rw [e]; exact hg)
          · rw [hg] at e2
            cases e2
            obtain ⟨xs, hl, hv, _⟩ := hP id0 h0 v e1
            exact ⟨xs, hl, hv, fun hn => absurd hdot hn⟩
        · -- the value is unchanged: the build is on another index, or is not a dot-product build
          have hsame : Store.get st'.store (c.itemKey id0) = Store.get s (c.itemKey id0) := by
            by_cases he : c'.index = c.index
            · have hm' : c'.metric ≠ .dot := fun e => hdot (hq he e)
              exact Build.build_frameNI c' hop.1 hm' o fuel { env with store := s } u st' h
                (c.itemKey id0) hk (Or.inr rfl)
            · exact Build.build_untouched c' hop.1 o fuel { env with store := s } u st' h
                (c.itemKey id0) hk (fun e => he e.symm)
          exact hP id0 hd v (by rw [← hsame]; exact hg)
      · have hw' : Store.WF st'.store := by
          have := C01_inv_step freshSupply s (.build c' o fuel env) hop hinv c hi
          simp only [step, h] at this
          exact this.1.2.1
        rw [Store.get_none_of_not_wf hw' hk] at hg
        cases hg
  | prepare c' m' =>
    simp only [step]
    cases h : Writer.prepareChangingDistance c' m' s with
    | error e => exact hP
    | ok s' =>
      by_cases he : c'.index = c.index
      · have hm := hq he
        subst hm
        rw [C18.C18_same] at h
        cases h; exact hP
      · intro id0 hd v hg
        simp only at hg
        have hinv' := hinv c' hop
        rw [prepare_other hinv'.1.2.1 hinv'.1.1 hop hinv'.1.2.2.1 h (c.itemKey id0) (fun e => he e.symm)] at hg
        exact hP id0 hd v hg

/-- the words of a leaf made for `c` unpack to at least `c.dims` components -/
theorem toVec_fromSlice_length (m : Metric) (xs : List Nat) : xs.length ≤ (m.toVec (m.fromSlice xs)).length := by
  unfold Metric.toVec Metric.fromSlice
  cases hb : m.isBq with
  | false => simp
  | true =>
    simp only [if_true]
    rw [Writer.bqUnpack_length, BQL.pack_length]
    have : quantizedWordBits = 64 := rfl
    rw [this]; omega

/-- **a real metric change carries the invariant to the new configuration**: if every leaf of the index was
    made for `c` (the configuration the index is opened with), after `prepare_changing_distance` towards `m'`
    every leaf is made for `{ c with metric := m' }` — from the first `c.dims` components of the f32 view -/
theorem leavesMade_prepare {c : Cfg} {m' : Metric} {s s' : Store} (hi : c.index < 65536)
    (hinv : IndexInv c s) (h : Writer.prepareChangingDistance c m' s = .ok s') (hP : LeavesMade c s) :
    LeavesMade { c with metric := m' } s' := by
  by_cases hne : m' = c.metric
  · subst hne
    rw [C18.C18_same] at h
    cases h; exact hP
  · obtain ⟨s'', h', _, hsome, hleaf, _⟩ := C18.C18_change c m' s hne hinv.1.2.1 hinv.1.1 hi hinv.1.2.2.1
    rw [h] at h'
    cases h'
    intro id0 hd v hg
    have hk : ({ c with metric := m' } : Cfg).itemKey id0 = c.itemKey id0 := rfl
    rw [hk] at hg
    have hx : (Store.get s (c.itemKey id0)).isSome = true := by rw [← hsome, hg]; rfl
    obtain ⟨hd0, v0, hg0⟩ := hinv.1.2.2.1.leaf_of_isSome hx
    obtain ⟨xs0, hl0, hv0, _⟩ := hP id0 hd0 v0 hg0
    rw [hleaf id0 hd0 v0 hg0] at hg
    simp only [Cfg.mkLeaf, Option.some.injEq, Val.leaf.injEq] at hg
    refine ⟨(c.metric.toVec v0).take c.dims, ?_, hg.2.symm, fun _ => by rw [← hg.1, ← hg.2]⟩
    rw [List.length_take]
    have := toVec_fromSlice_length c.metric xs0
    rw [← hv0, hl0] at this
    show min c.dims _ = c.dims
    omega

/-- the invariant along a history started in any state satisfying the index invariants -/
theorem leavesMade_foldl (c : Cfg) (hi : c.index < 65536) (ops : List Op)
    (hops : ∀ op ∈ ops, op.wf) (hq : ∀ op ∈ ops, madeBy c op) :
    ∀ s : Store, (∀ c : Cfg, c.index < 65536 → IndexInv c s) → LeavesMade c s →
      LeavesMade c (ops.foldl step s) := by
  induction ops with
  | nil => intro s _ h; exact h
  | cons op ops ih =>
    intro s hinv hP
    simp only [List.foldl_cons]
    have hop := hops op (by simp)
    exact ih (fun op' h' => hops op' (List.mem_cons_of_mem _ h')) (fun op' h' => hq op' (List.mem_cons_of_mem _ h'))
      _ (C01_inv_step freshSupply s op hop hinv) (leavesMade_step s op hop c hi (hq op (by simp)) hinv hP)

/-- **the invariant over histories**: if the items of index `c` are always added under the
    configuration `c` and no dot-product build touches a non-dot-product index `c`, every stored leaf of
    the index is a `c.mkLeaf` value in every reachable state -/
theorem leavesMade_run (c : Cfg) (hi : c.index < 65536) (ops : List Op)
    (hops : ∀ op ∈ ops, op.wf) (hq : ∀ op ∈ ops, madeBy c op) : LeavesMade c (run ops) := by
  unfold run
  suffices ∀ s : Store, (∀ c : Cfg, c.index < 65536 → IndexInv c s) → LeavesMade c s →
      LeavesMade c (ops.foldl step s) from
    this [] (fun c _ => C01_inv_empty c) (LeavesMade.nil c)
  induction ops with
  | nil => intro s _ h; exact h
  | cons op ops ih =>
    intro s hinv hP
    simp only [List.foldl_cons]
    have hop := hops op (by simp)
    exact ih (fun op' h' => hops op' (List.mem_cons_of_mem _ h')) (fun op' h' => hq op' (List.mem_cons_of_mem _ h'))
      _ (C01_inv_step freshSupply s op hop hinv) (leavesMade_step s op hop c hi (hq op (by simp)) hinv hP)

end C01
end Arroy
