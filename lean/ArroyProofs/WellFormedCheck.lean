import ArroyModel.Check
import ArroyProofs.Nns
/-! The executable predicate `Check.wellFormed` (run by the harness on the implementation's answers) reports
no violation on any answer that satisfies the four clauses of `C03_wellformed`. -/
namespace Arroy
namespace Reader

theorem check_nodup_of_nodup (l : List Nat) (h : l.Nodup) : Check.nodup l = true := by
  unfold Check.nodup
  have : (IdSet.ofList l).Perm l :=
    (List.perm_ext_iff_of_nodup (IdSet.ofList_nodup l) h).2 (IdSet.mem_ofListR l)
  simp [this.length_eq]

theorem ordered_nil_of_pairwise (f : Nat → Nat) : ∀ (l : List (Nat × Nat)),
    (l.map fun p => (f p.1, p.1)).Pairwise (fun a b => scoreLe a b = true) →
    Check.wellFormed.ordered (l.map fun p => (p.1, p.2, f p.1)) = []
  | [] => fun _ => by simp [Check.wellFormed.ordered]
  | [p] => fun _ => by simp [Check.wellFormed.ordered]
  | p₁ :: p₂ :: rest => fun h => by
    have ih := ordered_nil_of_pairwise f (p₂ :: rest) (List.pairwise_cons.1 h).2
    simp only [List.map_cons] at ih h ⊢
    have h12 := (List.pairwise_cons.1 h).1 _ List.mem_cons_self
    simp only [Check.wellFormed.ordered, h12, if_true, List.nil_append]
    exact ih

theorem wellFormed_nil (c : Cfg) (s : Store) (dims : Nat) (qh qv : List Nat) (q : QueryOpts) (ans : List (Nat × Nat))
    (h1 : ans.length ≤ q.count) (h2 : (ans.map (·.1)).Nodup)
    (h3 : ∀ p ∈ ans, IsLeaf c s p.1 ∧ inCandidates q p.1 = true ∧
      p.2 = c.metric.normalizedDistance (scoreOf c s qh qv p.1) dims)
    (h4 : (ans.map fun p => (scoreOf c s qh qv p.1, p.1)).Pairwise (fun a b => scoreLe a b = true)) :
    Check.wellFormed c s dims qh qv q ans = [] := by
  unfold Check.wellFormed
  simp only []
  generalize hL : (List.map _ ans : List (Nat × Nat × Nat)) = L
  have hsc : L = ans.map fun p => (p.1, p.2, scoreOf c s qh qv p.1) := by
    rw [← hL]
    apply List.map_congr_left
    rintro ⟨id, d⟩ _
    simp only [scoreOf]
    split <;> simp_all
  rw [hsc, ordered_nil_of_pairwise (scoreOf c s qh qv) ans h4, List.append_nil]
  rw [if_pos h1, if_pos (check_nodup_of_nodup _ h2), List.nil_append, List.nil_append, List.append_eq_nil_iff]
  constructor
  · rw [List.filterMap_eq_nil_iff]
    intro id hid
    obtain ⟨p, hp, rfl⟩ := List.mem_map.1 hid
    obtain ⟨⟨h, v, hl⟩, hc, _⟩ := h3 p hp
    simp [Store.contains, hl, hc]
  · rw [List.filterMap_eq_nil_iff]
    intro x hx
    obtain ⟨p, hp, rfl⟩ := List.mem_map.1 hx
    obtain ⟨_, _, hd⟩ := h3 p hp
    simp [← hd]

end Reader
end Arroy
