import ArroyProofs.StoreOkBuild
import ArroyProofs.F32Width
import ArroyProofs.Properties.C16Codec
import ArroyProofs.Properties.C17Reachable
import ArroyProofs.Properties.C05History
import ArroyProofs.Properties.C19History
/-! Helper lemmas for `Properties/C16Reachable.lean`: every entry of a reachable store meets the hypotheses of
the codec theorems of `Properties/C16.lean` / `C16Codec.lean`.

* `EntryOk m k v`: the part of `C16.ValOk` that is NOT a consequence of the index invariant (`IndexInv`): the
  shape and word range of a leaf stored under an item key, the word range of a split normal stored under a tree
  key, the name and dimension of a metadata record, the fields of a version record.
* `QAt i m`: `EntryOk m` for the entries of index `i`; `StoreOk (QAt i m) s` is preserved by every step of a
  history under the decidable side condition `opCodec i m` (`step_storeOk`), the metric `m` following the
  `prepare`s of the index (`C05.metricStep`); builds go through `Build.build_storeOk` (`ArroyProofs/StoreOkBuild.lean`).
* `tree_entry_ok`, `meta_entry_ok`: what `IndexInv` gives of tree nodes (bucket id sets strictly increasing
  `u32`s, child pointers valid `u32` node ids) and of the metadata record (item set, roots). -/
namespace Arroy.C16
open Arroy Generated IdSet C01

/-! ## the entry predicate -/

/-- a stored leaf fits the codec of metric `m`: one `u32` word per header field, vector words of the word size -/
def LeafOk (m : Metric) (h w : List Nat) : Prop :=
  h.length = m.header.length ∧ (∀ x ∈ h, x < 2 ^ 32) ∧ VecOk m w

/-- what the index invariant does not say of an entry (see the header of the file) -/
def EntryOk (m : Metric) (k : Key) : Val → Prop
  | .leaf h w => k.mode = modeItem → LeafOk m h w
  | .split _ _ n => k.mode = modeTree → VecOk m n
  | .metadata nm d _ _ => k.mode = metadataKeyMode → (∀ b ∈ nm, b ≠ 0) ∧ d < 2 ^ 32
  | .version a b c => k.mode = versionKeyMode → a < 2 ^ 32 ∧ b < 2 ^ 32 ∧ c < 2 ^ 32
  | _ => True

/-- `EntryOk m` for the entries of index `i` (the index of an ill-formed key is read modulo `2^16`, as the key
    codec does: this makes the predicate independent of the well-formedness of the store) -/
def QAt (i : Nat) (m : Metric) (k : Key) (v : Val) : Prop := k.index % 65536 = i → EntryOk m k v

/-- only leaves under item keys and split nodes under tree keys depend on the metric -/
theorem EntryOk.of_mode {m m' : Metric} {k : Key} {v : Val} (h1 : k.mode ≠ modeItem) (h2 : k.mode ≠ modeTree)
    (h : EntryOk m k v) : EntryOk m' k v := by
  cases v with
  | leaf hd w => exact fun e => absurd e h1
  | split l r n => exact fun e => absurd e h2
  | _ => exact h

theorem EntryOk.of_item_not_leaf {m m' : Metric} {k : Key} {v : Val} (h1 : k.mode = modeItem)
    (hv : ∀ hd w, v ≠ .leaf hd w) (h : EntryOk m k v) : EntryOk m' k v := by
  cases v with
  | leaf hd w => exact absurd rfl (hv hd w)
  | split l r n => exact fun e => absurd (h1.symm.trans e) (by decide)
  | _ => exact h

theorem EntryOk.unit (m : Metric) (k : Key) : EntryOk m k .unit := trivial
theorem EntryOk.desc (m : Metric) (k : Key) (ids : List Nat) : EntryOk m k (.desc ids) := trivial

theorem QAt.of_index {i : Nat} {m : Metric} {k : Key} {v : Val} (h : k.index % 65536 ≠ i) : QAt i m k v :=
  fun e => absurd e h

/-! ## word sizes -/

theorem pow_wordBytes_bq {m : Metric} (h : m.isBq = true) : 256 ^ m.wordBytes = 2 ^ 64 := by
  unfold Metric.wordBytes; rw [h]; decide

theorem pow_wordBytes_f32 {m : Metric} (h : m.isBq = false) : 256 ^ m.wordBytes = 2 ^ 32 := by
  unfold Metric.wordBytes; rw [h]; decide

theorem vecOk_of_f32 {m : Metric} (h : m.isBq = false) {v : List Nat} (hv : ∀ x ∈ v, x < 2 ^ 32) : VecOk m v := by
  intro x hx; rw [pow_wordBytes_f32 h]; exact hv x hx

theorem vecOk_f32 {m : Metric} (h : m.isBq = false) {v : List Nat} (hv : VecOk m v) : ∀ x ∈ v, x < 2 ^ 32 := by
  intro x hx; have := hv x hx; rwa [pow_wordBytes_f32 h] at this

theorem vecOk_replicate_zero (m : Metric) (k : Nat) : VecOk m (List.replicate k 0) := by
  intro x hx
  rw [(List.mem_replicate.1 hx).2]
  exact Nat.pow_pos (by decide)

/-- `from_slice` always produces words of the word size (`f32` metrics: given 32-bit components) -/
theorem vecOk_fromSlice (m : Metric) (xs : List Nat) (hx : m.isBq = false → ∀ x ∈ xs, x < 2 ^ 32) :
    VecOk m (m.fromSlice xs) := by
  unfold Metric.fromSlice
  cases hb : m.isBq with
  | false => simp only [Bool.false_eq_true, if_false]; exact vecOk_of_f32 hb (hx hb)
  | true =>
    simp only [if_true]
    intro x hxm; rw [pow_wordBytes_bq hb]; exact BQL.pack_lt xs x hxm

theorem unpackWord_lt (n w : Nat) : ∀ x ∈ BQ.unpackWord n w, x < 2 ^ 32 := by
  induction n generalizing w with
  | zero => intro x hx; simp [BQ.unpackWord] at hx
  | succ n ih =>
    intro x hx
    simp only [BQ.unpackWord, List.mem_cons] at hx
    rcases hx with rfl | hx
    · split
      · exact F32.one_lt
      · exact F32.negOne_lt
    · exact ih _ x hx

/-- the `f32` view of stored words: 32-bit components (`f32` metrics: given 32-bit words) -/
theorem toVec_lt (m : Metric) (ws : List Nat) (hw : VecOk m ws) : ∀ x ∈ m.toVec ws, x < 2 ^ 32 := by
  unfold Metric.toVec
  cases hb : m.isBq with
  | false => simp only [Bool.false_eq_true, if_false]; exact vecOk_f32 hb hw
  | true =>
    simp only [if_true]
    intro x hx
    obtain ⟨w, _, hxw⟩ := List.mem_flatMap.1 hx
    exact unpackWord_lt _ _ x hxw

/-- **a leaf made by `Cfg.mkLeaf` fits the codec of its metric** -/
theorem leafOk_mkLeaf (c : Cfg) (xs : List Nat) (hx : c.metric.isBq = false → ∀ x ∈ xs, x < 2 ^ 32) :
    EntryOk c.metric (c.itemKey 0) (c.mkLeaf xs) ∧
    ∀ k, EntryOk c.metric k (c.mkLeaf xs) := by
  have : ∀ k, EntryOk c.metric k (c.mkLeaf xs) := fun k _ =>
    ⟨Metric.newHeader_length _ _ _, Metric.newHeader_lt _ _ _, vecOk_fromSlice _ _ hx⟩
  exact ⟨this _, this⟩

/-- the header the dot-product preprocessing writes: one 32-bit word per header field -/
theorem leafOk_dotVal (c : Cfg) (s : Store) (k : Key) (w : List Nat) :
    ∃ hdr, dotVal c s (k, w) = .leaf hdr w ∧ hdr.length = c.metric.header.length ∧ ∀ x ∈ hdr, x < 2 ^ 32 := by
  refine ⟨_, rfl, ?_, ?_⟩
  · rw [List.length_map]
  · intro x hx
    obtain ⟨f, _, rfl⟩ := List.mem_map.1 hx
    cases f
    · exact F32.zero_lt
    · exact F32.mul_lt _ _
    · exact F32.sqrt_lt _
    · exact F32.zero_lt

/-! ## what a build needs of the predicates (`BuildQ`) -/

theorem name_no_nul (m : Metric) : ∀ b ∈ m.nameBytes, b ≠ 0 := by
  cases m <;> decide

/-- a build of the index itself, by a writer of the metric of the index -/
theorem buildQ_same (c : Cfg) (hi : c.index < 65536) (hd : c.dims < 2 ^ 32) :
    BuildQ c (VecOk c.metric) (QAt c.index c.metric) where
  zero := fun n _ => vecOk_replicate_zero _ _
  tree := by
    intro id v hv _
    cases v with
    | split l r n => exact fun _ => hv
    | leaf h w => exact fun e => absurd (show modeTree = modeItem from e) (by decide)
    | metadata nm d it r => exact fun e => absurd (show modeTree = metadataKeyMode from e) (by decide)
    | version a b e => exact fun e => absurd (show modeTree = versionKeyMode from e) (by decide)
    | _ => trivial
  ofTree := by
    intro id l r n h
    exact h (Nat.mod_eq_of_lt hi) rfl
  metadata := fun it r _ _ => ⟨name_no_nul _, hd⟩
  version := fun _ _ => by decide
  dot := by
    intro _ k h w s _ hq hidx
    have hq' : k.mode = modeItem → LeafOk c.metric h w := hq hidx
    show EntryOk c.metric k (dotVal c s (k, w))
    obtain ⟨hdr, e, hlen, hlt⟩ := leafOk_dotVal c s k w
    rw [e]
    exact fun hmode => ⟨hlen, hlt, (hq' hmode).2.2⟩

/-- a build of another index -/
theorem buildQ_other (c : Cfg) (hi : c.index < 65536) (i : Nat) (hne : c.index ≠ i) (m : Metric) :
    BuildQ c (fun _ => True) (QAt i m) where
  zero := fun _ _ => trivial
  tree := fun id v _ => QAt.of_index (by rw [show (c.treeKey id).index = c.index from rfl, Nat.mod_eq_of_lt hi]; exact hne)
  ofTree := fun _ _ _ _ _ => trivial
  metadata := fun _ _ => QAt.of_index (by rw [show c.metaKey.index = c.index from rfl, Nat.mod_eq_of_lt hi]; exact hne)
  version := QAt.of_index (by rw [show c.versionKey.index = c.index from rfl, Nat.mod_eq_of_lt hi]; exact hne)
  dot := by
    intro _ k h w s hp _
    apply QAt.of_index
    rw [((isPrefixOf_kind_all c.index modeItem k).1 hp).1, Nat.mod_eq_of_lt hi]
    exact hne

/-! ## the side condition on histories, and the invariant along a history -/

/-- **the side condition on one operation**, for index `i` whose current metric is `m`: the writers that add to
    the index, change its metric or build it are writers of metric `m`; the components of the vectors added under
    an `f32` metric are 32-bit patterns; the declared dimension of a build fits the `u32` of the metadata record;
    the words of the normals the oracle supplies to a build of the index fit the word size of the metric.
    (Rejected `add`s — wrong length — are not constrained; the other indexes are not constrained.) -/
def opCodec (i : Nat) (m : Metric) : Op → Prop
  | .add c _ v => c.index = i → v.length = c.dims → c.metric = m ∧ (m.isBq = false → ∀ x ∈ v, x < 2 ^ 32)
  | .append c _ v => c.index = i → v.length = c.dims → c.metric = m ∧ (m.isBq = false → ∀ x ∈ v, x < 2 ^ 32)
  | .prepare c _ => c.index = i → c.metric = m
  | .build c _ _ env => c.index = i → c.metric = m ∧ c.dims < 2 ^ 32 ∧ ∀ n ∈ env.normals, VecOk m n
  | _ => True

instance (i : Nat) (m : Metric) (op : Op) : Decidable (opCodec i m op) := by
  cases op <;> unfold opCodec <;> infer_instance

/-- **the side condition on a history**, for index `i` starting with metric `m`: every operation meets `opCodec`
    for the metric the index has at that point (`C05.metricStep`: the target of the last `prepare` of the index) -/
def CodecTyped (i : Nat) : Metric → List Op → Prop
  | _, [] => True
  | m, op :: ops => opCodec i m op ∧ CodecTyped i (C05.metricStep i m op) ops

instance decCodecTyped (i : Nat) : (m : Metric) → (ops : List Op) → Decidable (CodecTyped i m ops)
  | _, [] => isTrue trivial
  | m, op :: ops =>
    have := decCodecTyped i (C05.metricStep i m op) ops
    by unfold CodecTyped; infer_instance

theorem codecTyped_append (i : Nat) (ops : List Op) (op : Op) : ∀ m,
    CodecTyped i m (ops ++ [op]) ↔ CodecTyped i m ops ∧ opCodec i (C05.metricOf i m ops) op := by
  induction ops with
  | nil => intro m; simp [CodecTyped, C05.metricOf]
  | cons a ops ih =>
    intro m
    simp only [List.cons_append, CodecTyped, ih, C05.metricOf, List.foldl_cons, and_assoc]

theorem mem_clearTreeNodes_not_tree {c : Cfg} {s : Store} {x : Key × Val} (h : x ∈ Writer.clearTreeNodes c s) :
    isPrefixOf (encodePrefix c.index (some modeTree)) (encodeKey x.1) = false := by
  unfold Writer.clearTreeNodes Store.deletePrefix at h
  have := (List.mem_filter.1 h).2
  simpa using this

/-- **one step of a history keeps the invariant** (the metric following a `prepare` of the index) -/
theorem step_storeOk (i : Nat) (hi : i < 65536) (m : Metric) (s : Store) (op : Op) (hop : op.wf)
    (ht : opCodec i m op) (hinv : ∀ c : Cfg, c.index < 65536 → IndexInv c s) (hQ : StoreOk (QAt i m) s) :
    StoreOk (QAt i (C05.metricStep i m op)) (step s op) := by
  have hadd : ∀ (c : Cfg) (id : Nat) (vec : List Nat) (s' : Store), c.index < 65536 →
      (c.index = i → vec.length = c.dims → c.metric = m ∧ (m.isBq = false → ∀ x ∈ vec, x < 2 ^ 32)) →
      Writer.addItem c s id vec = .ok s' → StoreOk (QAt i m) s' := by
    intro c id vec s' hc ht h
    obtain ⟨hl, rfl⟩ := Writer.addItem_ok h
    refine (hQ.put _ _ ?_).put _ _ (fun _ => trivial)
    intro hidx
    have hci : c.index = i := by
      rw [show (c.itemKey id).index = c.index from rfl, Nat.mod_eq_of_lt hc] at hidx; exact hidx
    obtain ⟨hm, hx⟩ := ht hci hl
    subst hm
    exact (leafOk_mkLeaf c vec hx).2 _
  cases op with
  | add c id vec =>
    show StoreOk (QAt i m) _
    simp only [step]
    cases h : Writer.addItem c s id vec with
    | error e => exact hQ
    | ok s' => exact hadd c id vec s' hop.1 ht h
  | append c id vec =>
    show StoreOk (QAt i m) _
    simp only [step]
    cases h : Writer.appendItem c s id vec with
    | error e => exact hQ
    | ok s' => exact hadd c id vec s' hop.1 ht (Writer.appendItem_ok_eq_addItem (hinv c hop.1).1.1 h)
  | del c id =>
    show StoreOk (QAt i m) _
    show StoreOk (QAt i m) (Writer.delItem c s id).1
    unfold Writer.delItem Store.delete
    dsimp only
    cases Store.contains s (c.itemKey id)
    · exact hQ.erase _
    · exact (hQ.erase _).put _ _ (fun _ => trivial)
  | clear c =>
    show StoreOk (QAt i m) _
    exact hQ.deletePrefix _ _
  | build c o fuel env =>
    show StoreOk (QAt i m) _
    simp only [step]
    cases h : Build.build c o fuel { env with store := s } with
    | error e => exact hQ
    | ok r =>
      obtain ⟨u, st'⟩ := r
      by_cases hci : c.index = i
      · obtain ⟨hm, hd, hN⟩ := ht hci
        subst hci; subst hm
        exact Build.build_storeOk (buildQ_same c hop.1 hd) o fuel _ st' h hQ hN
      · exact Build.build_storeOk (buildQ_other c hop.1 i hci m) o fuel _ st' h hQ (fun _ _ => trivial)
  | prepare c m' =>
    simp only [step]
    have hc : c.index < 65536 := hop
    by_cases hne : m' = c.metric
    · subst hne
      rw [C18.C18_same]
      have : C05.metricStep i m (.prepare c c.metric) = m := by
        show (if c.index = i then c.metric else m) = m
        split
        · rename_i hci; exact ht hci
        · rfl
      rw [this]; exact hQ
    · have hinvc := hinv c hc
      rw [Writer.prepare_ok c m' s hne hinvc.1.2.1 hc hinvc.1.2.2.1]
      intro kv' hkv'
      obtain ⟨kv, hkv, rfl⟩ := List.mem_map.1 hkv'
      have hmem : kv ∈ s := Writer.mem_clearTreeNodes hkv
      have hk : kv.1.wf := hinvc.1.2.1 kv hmem
      have hold := hQ kv hmem
      intro hidx
      have hidx' : kv.1.index = i := by rwa [Nat.mod_eq_of_lt hk.1] at hidx
      show EntryOk (if c.index = i then m' else m) kv.1 (Writer.reencAt c m' kv.1 kv.2)
      unfold Writer.reencAt
      by_cases hu : Writer.underItems c kv.1 = true
      · obtain ⟨h1, h2⟩ := (Writer.underItems_iff c kv.1 hk hc).1 hu
        have hci : c.index = i := h1.symm.trans hidx'
        have hm : c.metric = m := ht hci
        rw [if_pos hu, if_pos hci]
        cases hv : kv.2 with
        | leaf hd vec =>
          have hvec : VecOk c.metric vec := by
            have := hold hidx
            rw [hv] at this
            rw [hm]
            exact (this h2).2.2
          exact (leafOk_mkLeaf ({ c with metric := m' } : Cfg) ((c.metric.toVec vec).take c.dims)
            (fun _ x hx => toVec_lt c.metric vec hvec x (List.mem_of_mem_take hx))).2 _
        | _ =>
          have := hold hidx
          rw [hv] at this
          exact EntryOk.of_item_not_leaf h2 (fun _ _ e => by cases e) this
      · rw [if_neg hu]
        by_cases hci : c.index = i
        · rw [if_pos hci]
          have hnI : kv.1.mode ≠ modeItem := fun e =>
            hu ((Writer.underItems_iff c kv.1 hk hc).2 ⟨hidx'.trans hci.symm, e⟩)
          have hnT : kv.1.mode ≠ modeTree := by
            intro e
            have := mem_clearTreeNodes_not_tree hkv
            rw [(Store.isPrefix_index_mode_iff c.index modeTree kv.1 hk hc (by decide)).2 ⟨hidx'.trans hci.symm, e⟩] at this
            cases this
          exact EntryOk.of_mode hnI hnT (hold hidx)
        · rw [if_neg hci]; exact hold hidx

/-- the invariant along a history started in any state satisfying the index invariants -/
theorem foldl_storeOk (i : Nat) (hi : i < 65536) (ops : List Op) (hops : ∀ op ∈ ops, op.wf) :
    ∀ (m : Metric) (s : Store), CodecTyped i m ops → (∀ c : Cfg, c.index < 65536 → IndexInv c s) →
      StoreOk (QAt i m) s → StoreOk (QAt i (C05.metricOf i m ops)) (ops.foldl step s) := by
  induction ops with
  | nil => intro m s _ _ h; exact h
  | cons op ops ih =>
    intro m s ht hinv hQ
    simp only [List.foldl_cons, C05.metricOf]
    have hop := hops op (by simp)
    exact ih (fun op' h' => hops op' (List.mem_cons_of_mem _ h')) _ _ ht.2
      (C01_inv_step freshSupply s op hop hinv) (step_storeOk i hi m s op hop ht.1 hinv hQ)

/-- **the invariant over histories**: in the store reached by a well-formed history meeting the side condition for
    index `i`, every entry of index `i` satisfies `EntryOk` for the metric the index has at the end -/
theorem run_storeOk (i : Nat) (hi : i < 65536) (m0 : Metric) (ops : List Op) (hops : ∀ op ∈ ops, op.wf)
    (ht : CodecTyped i m0 ops) : StoreOk (QAt i (C05.metricOf i m0 ops)) (run ops) :=
  foldl_storeOk i hi ops hops m0 [] ht (fun c _ => C01_inv_empty c) (StoreOk.nil _)

/-! ## what the index invariant gives: tree nodes and the metadata record -/

/-- a child pointer into tree `t`: an item of the tree, or a node of the tree -/
def RefIn (t : T) (x : NodeId) : Prop :=
  (x.mode = modeItem ∧ x.item ∈ t.items) ∨ (x.mode = modeTree ∧ x.item ∈ t.ids)

theorem RefIn.mono {t t' : T} {x : NodeId} (h1 : ∀ y ∈ t.items, y ∈ t'.items) (h2 : ∀ y ∈ t.ids, y ∈ t'.ids)
    (h : RefIn t x) : RefIn t' x := by
  rcases h with ⟨a, b⟩ | ⟨a, b⟩
  · exact Or.inl ⟨a, h1 _ b⟩
  · exact Or.inr ⟨a, h2 _ b⟩

theorem refIn_ref (t : T) : RefIn t t.ref := by
  cases t with
  | leaf i => exact Or.inl ⟨rfl, by simp [T.ref, T.items, NodeId.mkItem]⟩
  | bucket id s => exact Or.inr ⟨rfl, by simp [T.ref, T.ids, NodeId.mkTree]⟩
  | node id n l r => exact Or.inr ⟨rfl, by simp [T.ref, T.ids, NodeId.mkTree]⟩

/-- the cells of a well-formed tree: buckets hold strictly increasing lists of items of the tree, split nodes
    point to items and nodes of the tree -/
theorem cells_ok (t : T) (hw : Arroy.WF t) : ∀ cell ∈ t.cells,
    (∃ its, cell.2 = .desc its ∧ Sorted its ∧ ∀ x ∈ its, x ∈ t.items) ∨
    (∃ l r n, cell.2 = .split l r n ∧ RefIn t l ∧ RefIn t r) := by
  induction t with
  | leaf i => intro cell hc; simp [T.cells] at hc
  | bucket id s =>
    intro cell hc
    simp only [T.cells, List.mem_singleton] at hc
    subst hc
    exact Or.inl ⟨s, rfl, hw, fun x hx => hx⟩
  | node id n l r ihl ihr =>
    intro cell hc
    have hl1 : ∀ y ∈ l.items, y ∈ (T.node id n l r).items := fun y hy => by simp [T.items, hy]
    have hl2 : ∀ y ∈ l.ids, y ∈ (T.node id n l r).ids := fun y hy => by simp [T.ids, hy]
    have hr1 : ∀ y ∈ r.items, y ∈ (T.node id n l r).items := fun y hy => by simp [T.items, hy]
    have hr2 : ∀ y ∈ r.ids, y ∈ (T.node id n l r).ids := fun y hy => by simp [T.ids, hy]
    simp only [T.cells, List.mem_cons, List.mem_append] at hc
    rcases hc with rfl | hc | hc
    · exact Or.inr ⟨_, _, _, rfl, (refIn_ref l).mono hl1 hl2, (refIn_ref r).mono hr1 hr2⟩
    · rcases ihl hw.1 cell hc with ⟨its, e, hs, hm⟩ | ⟨a, b, nn, e, ha, hb⟩
      · exact Or.inl ⟨its, e, hs, fun x hx => hl1 x (hm x hx)⟩
      · exact Or.inr ⟨a, b, nn, e, ha.mono hl1 hl2, hb.mono hl1 hl2⟩
    · rcases ihr hw.2 cell hc with ⟨its, e, hs, hm⟩ | ⟨a, b, nn, e, ha, hb⟩
      · exact Or.inl ⟨its, e, hs, fun x hx => hr1 x (hm x hx)⟩
      · exact Or.inr ⟨a, b, nn, e, ha.mono hr1 hr2, hb.mono hr1 hr2⟩

theorem pow_256_4 : (256 : Nat) ^ 4 = 2 ^ 32 := by decide

/-- the id of a stored key is a `u32` -/
theorem item_lt_of_isSome {s : Store} (hw : Store.WF s) {k : Key} (h : (Store.get s k).isSome = true) :
    k.item < 2 ^ 32 := by
  cases hg : Store.get s k with
  | none => rw [hg] at h; cases h
  | some v =>
    have := (hw _ (Store.mem_of_get hg)).2.2
    rwa [pow_256_4] at this

/-- the items the metadata lists are `u32`s -/
theorem items_lt {c : Cfg} {s : Store} {items : List Nat} (hw : Store.WF s) (hm : MarksComplete c s items) :
    ∀ x ∈ items, x < 2 ^ 32 := by
  intro x hx
  have hu : (Store.get s (c.updatedKey x)).isNone = true ∨ x < 2 ^ 32 := by
    cases hg : Store.get s (c.updatedKey x) with
    | none => exact Or.inl rfl
    | some v => exact Or.inr (item_lt_of_isSome (k := c.updatedKey x) hw (by rw [hg]; rfl))
  rcases hu with hu | hu
  · exact item_lt_of_isSome (k := c.itemKey x) hw ((hm x hu).1 hx)
  · exact hu

/-- **a tree node of a reachable store**: a bucket holding a strictly increasing list of `u32`s, or a split node
    whose two children are valid `u32` node ids -/
theorem tree_entry_ok {c : Cfg} {s : Store} (hinv : IndexInv c s) {id : Nat} {v : Val}
    (hg : Store.get s (c.treeKey id) = some v) :
    (∃ its, v = .desc its ∧ IdsOk its) ∨ (∃ l r n, v = .split l r n ∧ NodeIdOk l ∧ NodeIdOk r) := by
  have hw : Store.WF s := hinv.1.2.1
  rcases hinv.1.2.2.2 with hu | ⟨name, dims, items, roots, _, _, ⟨ts, f⟩, hmarks⟩
  · rw [hu.2 id] at hg; cases hg
  · have hid : id ∈ ts.flatMap T.ids := (f.cover id).1 (by rw [hg]; rfl)
    obtain ⟨t, ht, hidt⟩ := List.mem_flatMap.1 hid
    rw [← cells_ids] at hidt
    obtain ⟨cell, hc, rfl⟩ := List.mem_map.1 hidt
    have hv : v = cell.2 := by
      have := f.holds t ht cell hc
      rw [hg] at this
      exact Option.some.inj this
    have hitems : ∀ x ∈ t.items, x < 2 ^ 32 := fun x hx => items_lt hw hmarks x ((f.reach t ht x).1 hx)
    have hids : ∀ x ∈ t.ids, x < 2 ^ 32 := fun x hx =>
      item_lt_of_isSome (k := c.treeKey x) hw ((f.cover x).2 (List.mem_flatMap.2 ⟨t, ht, hx⟩))
    have href : ∀ x, RefIn t x → NodeIdOk x := by
      rintro x (⟨a, b⟩ | ⟨a, b⟩)
      · exact ⟨Or.inr (Or.inr (Or.inr a)), hitems _ b⟩
      · exact ⟨Or.inr (Or.inr (Or.inl a)), hids _ b⟩
    rcases cells_ok t (f.wf t ht) cell hc with ⟨its, e, hs, hm⟩ | ⟨a, b, nn, e, ha, hb⟩
    · exact Or.inl ⟨its, hv.trans e, hs, fun x hx => hitems x (hm x hx)⟩
    · exact Or.inr ⟨a, b, nn, hv.trans e, href a ha, href b hb⟩

/-- **the metadata record of a reachable store**: a strictly increasing list of `u32` item ids, `u32` roots -/
theorem meta_entry_ok {c : Cfg} {s : Store} (hinv : IndexInv c s) {nm : Bytes} {d : Nat} {its roots : List Nat}
    (hg : Store.get s c.metaKey = some (.metadata nm d its roots)) : IdsOk its ∧ ∀ r ∈ roots, r < 2 ^ 32 := by
  have hw : Store.WF s := hinv.1.2.1
  rcases hinv.1.2.2.2 with hu | ⟨name, dims, items, roots', hmeta, hsorted, ⟨ts, f⟩, hmarks⟩
  · rw [hu.1] at hg; cases hg
  · rw [hg] at hmeta
    simp only [Option.some.injEq, Val.metadata.injEq] at hmeta
    obtain ⟨_, _, rfl, rfl⟩ := hmeta
    refine ⟨⟨hsorted, items_lt hw hmarks⟩, ?_⟩
    intro r hr
    rw [f.roots_eq] at hr
    obtain ⟨t, ht, rfl⟩ := List.mem_map.1 hr
    exact item_lt_of_isSome (k := c.treeKey t.ref.item) hw ((f.cover _).2 (f.mem_ids_of_root ht))

/-! ## every entry of a reachable store meets the hypotheses of the codec theorems -/

/-- **the entries of index `i` of a reachable store are well-formed values of the kind their key announces**, for
    the metric the index has at the end of the history -/
theorem reachable_valOk (ops : List Op) (hops : ∀ op ∈ ops, op.wf) (i : Nat) (m0 : Metric)
    (ht : CodecTyped i m0 ops) (k : Key) (v : Val) (hmem : (k, v) ∈ run ops) (hidx : k.index = i) :
    Holds k v ∧ ValOk (C05.metricOf i m0 ops) v := by
  have hs : Store.Sorted (run ops) := C19.run_sorted ops hops
  have hg : Store.get (run ops) k = some v := (Store.get_eq_some_iff hs k v).2 hmem
  have hinv0 := C01_invariant ops hops { index := 0, metric := m0, dims := 0 } (show 0 < 65536 by decide)
  have hk : k.wf := hinv0.1.2.1 _ hmem
  have hi : i < 65536 := by rw [← hidx]; exact hk.1
  generalize hm : C05.metricOf i m0 ops = m
  have hE : EntryOk m k v := by
    have := run_storeOk i hi m0 ops hops ht (k, v) hmem (by show k.index % 65536 = i; rw [Nat.mod_eq_of_lt hk.1, hidx])
    rwa [hm] at this
  let c0 : Cfg := { index := k.index, metric := m, dims := 0 }
  have hinv : IndexInv c0 (run ops) := C01_invariant ops hops c0 hk.1
  rcases C17.C17_reachable_entries ops hops k v hg with hmode | hmode | ⟨hmode, rfl⟩ | ⟨hk', nm, d, it, r, rfl⟩ |
      ⟨hk', a, b, c', rfl⟩
  · -- an item key: a leaf
    obtain ⟨hd, w, rfl⟩ := (C05.isLeaf_iff v).1 (hinv.1.2.2.1 (k, v) hmem rfl hmode)
    exact ⟨Or.inl hmode, hE hmode⟩
  · -- a tree key: a bucket or a split node
    have hkey : c0.treeKey k.item = k := by
      cases k; simp only [Cfg.treeKey, Key.mkTree, c0] at hmode ⊢; rw [hmode]
    rw [← hkey] at hg
    rcases tree_entry_ok hinv hg with ⟨its, rfl, hok⟩ | ⟨l, r, n, rfl, hl, hr⟩
    · exact ⟨Or.inr hmode, hok⟩
    · exact ⟨Or.inr hmode, hl, hr, hE hmode⟩
  · exact ⟨hmode, trivial⟩
  · have h1 : k.mode = metadataKeyMode := congrArg Key.mode hk'
    have h2 : k.item = metadataKeyItem := congrArg Key.item hk'
    have hkey : c0.metaKey = k := hk'.symm
    rw [← hkey] at hg
    obtain ⟨hit, hr⟩ := meta_entry_ok hinv hg
    obtain ⟨hn, hd⟩ := hE h1
    exact ⟨⟨h1, h2⟩, hn, hd, hit, hr⟩
  · have h1 : k.mode = versionKeyMode := congrArg Key.mode hk'
    have h2 : k.item = versionKeyItem := congrArg Key.item hk'
    exact ⟨⟨h1, h2⟩, hE h1⟩

/-! ## the side condition for all indexes at once -/

/-- the index an operation is about -/
def opIndex : Op → Nat
  | .add c _ _ => c.index
  | .append c _ _ => c.index
  | .del c _ => c.index
  | .clear c => c.index
  | .build c _ _ _ => c.index
  | .prepare c _ => c.index

/-- an index the history never mentions meets the side condition trivially -/
theorem codecTyped_of_not_mem (i : Nat) (ops : List Op) (h : ∀ op ∈ ops, opIndex op ≠ i) :
    ∀ m, CodecTyped i m ops := by
  induction ops with
  | nil => intro m; trivial
  | cons op ops ih =>
    intro m
    refine ⟨?_, ih (fun op' h' => h op' (List.mem_cons_of_mem _ h')) _⟩
    have hne := h op (by simp)
    cases op <;> first | trivial | exact fun e => absurd e hne

/-- **the side condition for every index** (decidable): it is enough to check the indexes the history mentions;
    `M0 i` is the metric index `i` starts with -/
def CodecTypedAll (M0 : Nat → Metric) (ops : List Op) : Prop :=
  ∀ i ∈ ops.map opIndex, CodecTyped i (M0 i) ops

instance (M0 : Nat → Metric) (ops : List Op) : Decidable (CodecTypedAll M0 ops) := by
  unfold CodecTypedAll; infer_instance

theorem CodecTypedAll.at {M0 : Nat → Metric} {ops : List Op} (h : CodecTypedAll M0 ops) (i : Nat) :
    CodecTyped i (M0 i) ops := by
  by_cases hi : i ∈ ops.map opIndex
  · exact h i hi
  · apply codecTyped_of_not_mem
    intro op hop e
    exact hi (List.mem_map.2 ⟨op, hop, e⟩)

end Arroy.C16
