import ArroyProofs.KernelRoundSimd
import ArroyProofs.KernelRoundOn
import ArroyProofs.KernelMap
/-! The rounding-error bounds of `KernelRound` / `KernelRoundSimd` for an arithmetic that satisfies the
standard model only where a DECIDABLE check says so. The kernel is run on the instrumented arithmetic
`chkArith A C` over `α × Bool`: the first component is the plain run (`Kernel.*_map` with `Prod.fst`), the
second the conjunction of the checks of all operations executed so far. If the flag of the result is
`true`, the result is within the standard-model bound of the exact real-number value. -/
namespace Arroy

/-- Boolean side conditions of the four operations -/
structure Checks (α : Type) where
  add : α → α → Bool
  sub : α → α → Bool
  mul : α → α → Bool
  fma : α → α → α → Bool

/-- the instrumented arithmetic: value and "all checks so far passed" -/
def chkArith {α : Type} (A : Arith α) (C : Checks α) : Arith (α × Bool) where
  zero := (A.zero, true)
  sumInit := (A.sumInit, true)
  add := fun x y => (A.add x.1 y.1, x.2 && y.2 && C.add x.1 y.1)
  sub := fun x y => (A.sub x.1 y.1, x.2 && y.2 && C.sub x.1 y.1)
  mul := fun x y => (A.mul x.1 y.1, x.2 && y.2 && C.mul x.1 y.1)
  fma := fun x y z => (A.fma x.1 y.1 z.1, x.2 && y.2 && z.2 && C.fma x.1 y.1 z.1)

/-- the plain run is the first component of the instrumented run -/
theorem chk_fst_hom {α : Type} (A : Arith α) (C : Checks α) : ArithHom Prod.fst (chkArith A C) A where
  zero := rfl
  sumInit := rfl
  add := fun _ _ => rfl
  sub := fun _ _ => rfl
  mul := fun _ _ => rfl
  fma := fun _ _ _ => rfl

/-- inputs of the instrumented run -/
def chkIn {α : Type} (x : List α) : List (α × Bool) := x.map (fun a => (a, true))

theorem chkIn_fst {α : Type} (x : List α) : (chkIn x).map Prod.fst = x := by
  simp [chkIn, List.map_map, Function.comp_def]

theorem chkIn_val {α : Type} (val : α → ℝ) (x : List α) :
    (chkIn x).map (fun c => val c.1) = x.map val := by
  simp [chkIn, List.map_map, Function.comp_def]

theorem chkIn_length {α : Type} (x : List α) : (chkIn x).length = x.length := by simp [chkIn]

/-- where the check passes, the operation satisfies the standard-model equation -/
structure ChkModel {α : Type} (A : Arith α) (val : α → ℝ) (C : Checks α) (u : ℝ) : Prop where
  u_nonneg : 0 ≤ u
  sumInit : val A.sumInit = 0
  zero : val A.zero = 0
  add : ∀ x y, C.add x y = true → ∃ δ : ℝ, |δ| ≤ u ∧ val (A.add x y) = (val x + val y) * (1 + δ)
  sub : ∀ x y, C.sub x y = true → ∃ δ : ℝ, |δ| ≤ u ∧ val (A.sub x y) = (val x - val y) * (1 + δ)
  mul : ∀ x y, C.mul x y = true → ∃ δ : ℝ, |δ| ≤ u ∧ val (A.mul x y) = (val x * val y) * (1 + δ)
  fma : ∀ x y z, C.fma x y z = true →
    ∃ δ : ℝ, |δ| ≤ u ∧ val (A.fma x y z) = (val x * val y + val z) * (1 + δ)

/-- from the conditional model, for checks that imply its side conditions -/
theorem ChkModel.of_on {α : Type} {A : Arith α} {val : α → ℝ} {ok : α → Prop} {P : ℝ → Prop} {u : ℝ}
    (hA : StdModelOn A val ok P u) (C : Checks α)
    (hadd : ∀ x y, C.add x y = true → ok x ∧ ok y ∧ P (val x + val y))
    (hsub : ∀ x y, C.sub x y = true → ok x ∧ ok y ∧ P (val x - val y))
    (hmul : ∀ x y, C.mul x y = true → ok x ∧ ok y ∧ P (val x * val y))
    (hfma : ∀ x y z, C.fma x y z = true → ok x ∧ ok y ∧ ok z ∧ P (val x * val y + val z)) :
    ChkModel A val C u where
  u_nonneg := hA.u_nonneg
  sumInit := hA.sumInit.2
  zero := hA.zero.2
  add := fun x y h => by obtain ⟨a, b, c⟩ := hadd x y h; exact (hA.add x y a b c).2
  sub := fun x y h => by obtain ⟨a, b, c⟩ := hsub x y h; exact (hA.sub x y a b c).2
  mul := fun x y h => by obtain ⟨a, b, c⟩ := hmul x y h; exact (hA.mul x y a b c).2
  fma := fun x y z h => by obtain ⟨a, b, c, d⟩ := hfma x y z h; exact (hA.fma x y z a b c d).2

namespace KernelRound
open Kernel
variable {α : Type}

/-- the graded relation for an instrumented value: if its flag is set, its value approximates the exact
`e` with `k` accumulated roundings relative to `b`; `|e| ≤ b` in any case -/
def CRel (val : α → ℝ) (u : ℝ) (k : Nat) (c : α × Bool) (e b : ℝ) : Prop :=
  (c.2 = true → |val c.1 - e| ≤ E u k * b) ∧ |e| ≤ b

theorem CRel.b_nonneg {val : α → ℝ} {u : ℝ} {k : Nat} {c : α × Bool} {e b : ℝ}
    (h : CRel val u k c e b) : 0 ≤ b := (abs_nonneg e).trans h.2

theorem CRel.mono {val : α → ℝ} {u : ℝ} (hu : 0 ≤ u) {k k' : Nat} (hk : k ≤ k') {c : α × Bool} {e b : ℝ}
    (h : CRel val u k c e b) : CRel val u k' c e b :=
  ⟨fun hc => (h.1 hc).trans (mul_le_mul_of_nonneg_right (E_mono hu hk) h.b_nonneg), h.2⟩

theorem CRel.rel {val : α → ℝ} {u : ℝ} {k : Nat} {c : α × Bool} {e b : ℝ}
    (h : CRel val u k c e b) (hc : c.2 = true) : Rel u k (val c.1) e b := ⟨h.1 hc, h.2⟩

theorem CRel.of_rel {val : α → ℝ} {u : ℝ} {k : Nat} {c : α × Bool} {e b : ℝ}
    (hb : |e| ≤ b) (h : c.2 = true → Rel u k (val c.1) e b) : CRel val u k c e b :=
  ⟨fun hc => (h hc).1, hb⟩

theorem CRel.zero {val : α → ℝ} (u : ℝ) (k : Nat) (z : α) (hz : val z = 0) :
    CRel val u k (z, true) 0 0 := by
  constructor
  · intro _; simp [hz]
  · simp

section model
variable {A : Arith α} {val : α → ℝ} {C : Checks α} {u : ℝ}

theorem and3_true {a b c : Bool} (h : (a && b && c) = true) : a = true ∧ b = true ∧ c = true := by
  cases a <;> cases b <;> cases c <;> simp at h ⊢

theorem and4_true {a b c d : Bool} (h : (a && b && c && d) = true) :
    a = true ∧ b = true ∧ c = true ∧ d = true := by
  cases a <;> cases b <;> cases c <;> cases d <;> simp at h ⊢

/-- one checked addition of two related values -/
theorem CRel.add (hA : ChkModel A val C u) {k : Nat} {c1 c2 : α × Bool} {e1 b1 e2 b2 : ℝ}
    (h1 : CRel val u k c1 e1 b1) (h2 : CRel val u k c2 e2 b2) :
    CRel val u (k + 1) ((chkArith A C).add c1 c2) (e1 + e2) (b1 + b2) := by
  refine CRel.of_rel ((abs_add_le _ _).trans (add_le_add h1.2 h2.2)) ?_
  intro hc
  obtain ⟨f1, f2, f3⟩ := and3_true hc
  obtain ⟨δ, hδ, h⟩ := hA.add c1.1 c2.1 f3
  exact Rel.addlike hA.u_nonneg (h1.rel f1) (h2.rel f2) hδ h

/-- a checked product, relative to the exact product of the operands' values -/
theorem mul_crel (hA : ChkModel A val C u) {k : Nat} (hk : 1 ≤ k) (a b : α × Bool) :
    CRel val u k ((chkArith A C).mul a b) (val a.1 * val b.1) |val a.1 * val b.1| := by
  refine CRel.of_rel (le_refl _) ?_
  intro hc
  obtain ⟨_, _, f3⟩ := and3_true hc
  obtain ⟨δ, hδ, h⟩ := hA.mul a.1 b.1 f3
  have := err_of_delta hδ h
  rw [← E_one u] at this
  exact (Rel.term this).mono hA.u_nonneg hk

/-- a checked difference -/
theorem sub_crel (hA : ChkModel A val C u) {k : Nat} (hk : 1 ≤ k) (a b : α × Bool) :
    CRel val u k ((chkArith A C).sub a b) (val a.1 - val b.1) |val a.1 - val b.1| := by
  refine CRel.of_rel (le_refl _) ?_
  intro hc
  obtain ⟨_, _, f3⟩ := and3_true hc
  obtain ⟨δ, hδ, h⟩ := hA.sub a.1 b.1 f3
  have := err_of_delta hδ h
  rw [← E_one u] at this
  exact (Rel.term this).mono hA.u_nonneg hk

/-- the exact square of a checked difference, relative to `(a−b)²` -/
theorem dd_crel (hA : ChkModel A val C u) {k : Nat} (hk : 2 ≤ k) (a b : α × Bool)
    (hc : ((chkArith A C).sub a b).2 = true) :
    Rel u k (val (A.sub a.1 b.1) * val (A.sub a.1 b.1))
      ((val a.1 - val b.1) * (val a.1 - val b.1)) |(val a.1 - val b.1) * (val a.1 - val b.1)| := by
  have hu := hA.u_nonneg
  obtain ⟨_, _, f3⟩ := and3_true hc
  obtain ⟨δ1, hδ1, h1⟩ := hA.sub a.1 b.1 f3
  have e : val (A.sub a.1 b.1) * val (A.sub a.1 b.1) - (val a.1 - val b.1) * (val a.1 - val b.1)
      = ((val a.1 - val b.1) * (val a.1 - val b.1)) * ((1 * (1 + δ1)) * (1 + δ1) - 1) := by
    rw [h1]; ring
  have r0 : |(1:ℝ) - 1| ≤ E u 0 := by simp [E]
  have r1 := relerr_step hu r0 hδ1
  have r2 := relerr_step hu r1 hδ1
  have : |val (A.sub a.1 b.1) * val (A.sub a.1 b.1) - (val a.1 - val b.1) * (val a.1 - val b.1)|
      ≤ E u 2 * |(val a.1 - val b.1) * (val a.1 - val b.1)| := by
    rw [e, abs_mul, mul_comm]
    exact mul_le_mul_of_nonneg_right r2 (abs_nonneg _)
  exact (Rel.term this).mono hu hk

/-- a checked `(a−b)·(a−b)` -/
theorem sq_crel (hA : ChkModel A val C u) {k : Nat} (hk : 3 ≤ k) (a b : α × Bool) :
    CRel val u k ((chkArith A C).mul ((chkArith A C).sub a b) ((chkArith A C).sub a b))
      ((val a.1 - val b.1) * (val a.1 - val b.1)) |(val a.1 - val b.1) * (val a.1 - val b.1)| := by
  refine CRel.of_rel (le_refl _) ?_
  intro hc
  obtain ⟨fs, _, f3⟩ := and3_true hc
  have hu := hA.u_nonneg
  obtain ⟨_, _, g3⟩ := and3_true fs
  obtain ⟨δ1, hδ1, h1⟩ := hA.sub a.1 b.1 g3
  obtain ⟨δ2, hδ2, h2⟩ := hA.mul _ _ f3
  have e : val (A.mul (A.sub a.1 b.1) (A.sub a.1 b.1)) - (val a.1 - val b.1) * (val a.1 - val b.1)
      = ((val a.1 - val b.1) * (val a.1 - val b.1)) * ((1 * (1 + δ1) * (1 + δ1)) * (1 + δ2) - 1) := by
    have h2' : val (A.mul (A.sub a.1 b.1) (A.sub a.1 b.1))
        = val (A.sub a.1 b.1) * val (A.sub a.1 b.1) * (1 + δ2) := h2
    rw [h2', h1]; ring
  have r0 : |(1:ℝ) - 1| ≤ E u 0 := by simp [E]
  have r1 := relerr_step hu r0 hδ1
  have r2 := relerr_step hu r1 hδ1
  have r3 := relerr_step hu r2 hδ2
  have : |val (A.mul (A.sub a.1 b.1) (A.sub a.1 b.1)) - (val a.1 - val b.1) * (val a.1 - val b.1)|
      ≤ E u 3 * |(val a.1 - val b.1) * (val a.1 - val b.1)| := by
    rw [e, abs_mul, mul_comm]
    exact mul_le_mul_of_nonneg_right r3 (abs_nonneg _)
  exact (Rel.term this).mono hu hk

/-- a checked `fma(a, b, c)`: the exact product `val a · val b` approximates `pe` -/
theorem fma_crel (hA : ChkModel A val C u) {k : Nat} {pe e bb : ℝ} (a b c : α × Bool)
    (h1 : a.2 = true → b.2 = true → Rel u k (val a.1 * val b.1) pe |pe|)
    (h2 : CRel val u k c e bb) :
    CRel val u (k + 1) ((chkArith A C).fma a b c) (pe + e) (|pe| + bb) := by
  refine CRel.of_rel ((abs_add_le _ _).trans (add_le_add (le_refl _) h2.2)) ?_
  intro hc
  obtain ⟨f1, f2, f3, f4⟩ := and4_true hc
  obtain ⟨δ, hδ, h⟩ := hA.fma a.1 b.1 c.1 f4
  exact Rel.addlike hA.u_nonneg (h1 f1 f2) (h2.rel f3) hδ h

end model

/-! ### three parallel runs: instrumented, exact, absolute values -/

inductive All3' {β : Type} (P : β → ℝ → ℝ → Prop) : List β → List ℝ → List ℝ → Prop
  | nil : All3' P [] [] []
  | cons {a : β} {b c : ℝ} {as : List β} {bs cs : List ℝ} :
      P a b c → All3' P as bs cs → All3' P (a :: as) (b :: bs) (c :: cs)

section struct
variable {β : Type}

theorem All3'.mono {P Q : β → ℝ → ℝ → Prop} (h : ∀ a b c, P a b c → Q a b c) :
    ∀ {as bs cs}, All3' P as bs cs → All3' Q as bs cs := by
  intro as bs cs H
  induction H with
  | nil => exact All3'.nil
  | cons p _ ih => exact All3'.cons (h _ _ _ p) ih

theorem All3'.replicate {P : β → ℝ → ℝ → Prop} {a : β} {b c : ℝ} (h : P a b c) :
    ∀ n, All3' P (List.replicate n a) (List.replicate n b) (List.replicate n c) := by
  intro n
  induction n with
  | zero => exact All3'.nil
  | succ n ih => exact All3'.cons h ih

theorem All3'.cons_inv {P : β → ℝ → ℝ → Prop} {x : β} {xs : List β} {e b : List ℝ}
    (h : All3' P (x :: xs) e b) :
    ∃ y ys z zs, e = y :: ys ∧ b = z :: zs ∧ P x y z ∧ All3' P xs ys zs := by
  cases h with
  | cons p t => exact ⟨_, _, _, _, rfl, rfl, p, t⟩

theorem All3'.nil_inv {P : β → ℝ → ℝ → Prop} {e b : List ℝ} (h : All3' P [] e b) : e = [] ∧ b = [] := by
  cases h; exact ⟨rfl, rfl⟩

theorem All3'.length {P : β → ℝ → ℝ → Prop} : ∀ {as bs cs}, All3' P as bs cs →
    bs.length = as.length ∧ cs.length = as.length := by
  intro as bs cs H
  induction H with
  | nil => exact ⟨rfl, rfl⟩
  | cons _ _ ih => simp [ih.1, ih.2]

theorem zipWith3_rel' {P Q : β → ℝ → ℝ → Prop} (v : β → ℝ) (s : β → β → β → β) (sE sB : ℝ → ℝ → ℝ → ℝ)
    (h : ∀ a b c e bb, P c e bb → Q (s a b c) (sE (v a) (v b) e) (sB (v a) (v b) bb)) :
    ∀ {acc eacc bacc}, All3' P acc eacc bacc → ∀ (xs ys : List β),
      All3' Q (zipWith3 s xs ys acc) (zipWith3 sE (xs.map v) (ys.map v) eacc)
        (zipWith3 sB (xs.map v) (ys.map v) bacc) := by
  intro acc eacc bacc H
  induction H with
  | nil => intro xs ys; cases xs <;> cases ys <;> simp [zipWith3] <;> exact All3'.nil
  | cons p _ ih =>
    intro xs ys
    cases xs with
    | nil => simp only [List.map_nil, zipWith3]; exact All3'.nil
    | cons x xs =>
      cases ys with
      | nil => simp only [List.map_nil, List.map_cons, zipWith3]; exact All3'.nil
      | cons y ys => simp only [List.map_cons, zipWith3]; exact All3'.cons (h _ _ _ _ _ p) (ih xs ys)

/-- the three accumulator states, four accumulators each, related lane by lane -/
def Acc4' (P : β → ℝ → ℝ → Prop) (accs : List (List β)) (eaccs baccs : List (List ℝ)) : Prop :=
  ∃ (a0 a1 a2 a3 : List β) (e0 e1 e2 e3 b0 b1 b2 b3 : List ℝ),
    accs = [a0, a1, a2, a3] ∧ eaccs = [e0, e1, e2, e3] ∧ baccs = [b0, b1, b2, b3] ∧
    All3' P a0 e0 b0 ∧ All3' P a1 e1 b1 ∧ All3' P a2 e2 b2 ∧ All3' P a3 e3 b3

theorem Acc4'.mono {P Q : β → ℝ → ℝ → Prop} (h : ∀ a b c, P a b c → Q a b c) {accs eaccs baccs}
    (H : Acc4' P accs eaccs baccs) : Acc4' Q accs eaccs baccs := by
  obtain ⟨a0, a1, a2, a3, e0, e1, e2, e3, b0, b1, b2, b3, r1, r2, r3, h0, h1, h2, h3⟩ := H
  exact ⟨a0, a1, a2, a3, e0, e1, e2, e3, b0, b1, b2, b3, r1, r2, r3,
    h0.mono h, h1.mono h, h2.mono h, h3.mono h⟩

theorem blockStep_rel' {P Q : β → ℝ → ℝ → Prop} (v : β → ℝ) (lanes : Nat) (s : β → β → β → β)
    (sE sB : ℝ → ℝ → ℝ → ℝ)
    (h : ∀ a b c e bb, P c e bb → Q (s a b c) (sE (v a) (v b) e) (sB (v a) (v b) bb))
    {accs eaccs baccs} (H : Acc4' P accs eaccs baccs) (bu bv : List β) :
    Acc4' Q (blockStep lanes s accs bu bv) (blockStep lanes sE eaccs (bu.map v) (bv.map v))
      (blockStep lanes sB baccs (bu.map v) (bv.map v)) := by
  obtain ⟨a0, a1, a2, a3, e0, e1, e2, e3, b0, b1, b2, b3, rfl, rfl, rfl, h0, h1, h2, h3⟩ := H
  simp only [blockStep_four, ← List.map_drop, ← List.map_take]
  exact ⟨_, _, _, _, _, _, _, _, _, _, _, _, rfl, rfl, rfl,
    zipWith3_rel' v s sE sB h h0 _ _, zipWith3_rel' v s sE sB h h1 _ _,
    zipWith3_rel' v s sE sB h h2 _ _, zipWith3_rel' v s sE sB h h3 _ _⟩

end struct

section loops
variable {val : α → ℝ} {u : ℝ}

theorem mainLoop_rel' (hu : 0 ≤ u) (lanes : Nat) (s : α × Bool → α × Bool → α × Bool → α × Bool)
    (sE sB : ℝ → ℝ → ℝ → ℝ) (k0 : Nat)
    (h : ∀ k, k0 ≤ k → ∀ a b c e bb, CRel val u k c e bb →
      CRel val u (k + 1) (s a b c) (sE (val a.1) (val b.1) e) (sB (val a.1) (val b.1) bb)) :
    ∀ (us vs : List (List (α × Bool))) (k : Nat), k0 ≤ k → ∀ {accs eaccs baccs},
      Acc4' (CRel val u k) accs eaccs baccs →
      Acc4' (CRel val u (k + us.length)) (mainLoop lanes s accs us vs)
        (mainLoop lanes sE eaccs (us.map (List.map (fun c => val c.1))) (vs.map (List.map (fun c => val c.1))))
        (mainLoop lanes sB baccs (us.map (List.map (fun c => val c.1))) (vs.map (List.map (fun c => val c.1)))) := by
  intro us
  induction us with
  | nil => intro vs k _ accs eaccs baccs H; simpa [mainLoop] using H
  | cons bu us ih =>
    intro vs k hk accs eaccs baccs H
    cases vs with
    | nil =>
      simp only [List.map_cons, List.map_nil, mainLoop]
      exact H.mono (fun _ _ _ r => r.mono hu (by omega))
    | cons bv vs =>
      simp only [List.map_cons, mainLoop, List.length_cons]
      have := ih vs (k + 1) (by omega)
        (blockStep_rel' (fun c : α × Bool => val c.1) lanes s sE sB (h k hk) H bu bv)
      rwa [show k + 1 + us.length = k + (us.length + 1) by omega] at this

theorem foldl_rel' (t : α × Bool → α × Bool → α × Bool → α × Bool) (tE tB : ℝ → ℝ → ℝ → ℝ) (k0 : Nat)
    (h : ∀ k, k0 ≤ k → ∀ a b c e bb, CRel val u k c e bb →
      CRel val u (k + 1) (t c a b) (tE e (val a.1) (val b.1)) (tB bb (val a.1) (val b.1))) :
    ∀ (xs ys : List (α × Bool)) (k : Nat), k0 ≤ k → ∀ c e bb, CRel val u k c e bb →
      CRel val u (k + (List.zip xs ys).length)
        ((List.zip xs ys).foldl (fun r (p : (α × Bool) × (α × Bool)) => t r p.1 p.2) c)
        ((List.zip (xs.map (fun c => val c.1)) (ys.map (fun c => val c.1))).foldl
          (fun r (p : ℝ × ℝ) => tE r p.1 p.2) e)
        ((List.zip (xs.map (fun c => val c.1)) (ys.map (fun c => val c.1))).foldl
          (fun r (p : ℝ × ℝ) => tB r p.1 p.2) bb) := by
  intro xs
  induction xs with
  | nil => intro ys k _ c e bb H; simpa using H
  | cons x xs ih =>
    intro ys k hk c e bb H
    cases ys with
    | nil => simpa using H
    | cons y ys =>
      simp only [List.map_cons, List.zip_cons_cons, List.foldl_cons, List.length_cons]
      have := ih ys (k + 1) (by omega) _ _ _ (h k hk x y _ _ _ H)
      rwa [show k + 1 + (List.zip xs ys).length = k + ((List.zip xs ys).length + 1) by omega] at this

/-- the graded relation between the instrumented run, the exact run and the run on absolute values of a
kernel of the SSE/AVX shape -/
theorem simd_rel' {A : Arith α} {C : Checks α} (hA : ChkModel A val C u) (lanes : Nat) (hl : 0 < lanes)
    (s : α × Bool → α × Bool → α × Bool → α × Bool) (sE sB : ℝ → ℝ → ℝ → ℝ)
    (hs : List (α × Bool) → α × Bool) (hsE : List ℝ → ℝ)
    (t : α × Bool → α × Bool → α × Bool → α × Bool) (tE tB : ℝ → ℝ → ℝ → ℝ) (k0 hk : Nat)
    (hstep : ∀ k, k0 ≤ k → ∀ a b c e bb, CRel val u k c e bb →
      CRel val u (k + 1) (s a b c) (sE (val a.1) (val b.1) e) (sB (val a.1) (val b.1) bb))
    (hhsum : ∀ k a e b, All3' (CRel val u k) a e b → CRel val u (k + hk) (hs a) (hsE e) (hsE b))
    (htail : ∀ k, k0 ≤ k → ∀ a b c e bb, CRel val u k c e bb →
      CRel val u (k + 1) (t c a b) (tE e (val a.1) (val b.1)) (tB bb (val a.1) (val b.1)))
    (x y : List (α × Bool)) :
    CRel val u (k0 + x.length / (4 * lanes) + hk + 3 + x.length % (4 * lanes))
      (simd (chkArith A C) lanes s hs t x y)
      (simd (ringArith ℝ) lanes sE hsE tE (x.map (fun c => val c.1)) (y.map (fun c => val c.1)))
      (simd (ringArith ℝ) lanes sB hsE tB (x.map (fun c => val c.1)) (y.map (fun c => val c.1))) := by
  have hu := hA.u_nonneg
  unfold simd
  simp only [List.length_map]
  have hk4 : 0 < 4 * lanes := by omega
  have hm : (x.take (x.length - x.length % (4 * lanes))).length
      = (x.length / (4 * lanes)) * (4 * lanes) := by
    rw [List.length_take, ← prefix_len]; omega
  have hq : (chunks (4 * lanes) (x.take (x.length - x.length % (4 * lanes)))).length
      = x.length / (4 * lanes) := (chunks_mul hk4 _ _ hm).1
  have hz : (ringArith ℝ).zero = 0 := rfl
  have hzc : (chkArith A C).zero = (A.zero, true) := rfl
  have init : Acc4' (CRel val u k0) (List.replicate 4 (List.replicate lanes ((A.zero, true) : α × Bool)))
      (List.replicate 4 (List.replicate lanes (0 : ℝ))) (List.replicate 4 (List.replicate lanes (0 : ℝ))) := by
    exact ⟨_, _, _, _, _, _, _, _, _, _, _, _, rfl, rfl, rfl,
      All3'.replicate (CRel.zero u k0 _ hA.zero) _, All3'.replicate (CRel.zero u k0 _ hA.zero) _,
      All3'.replicate (CRel.zero u k0 _ hA.zero) _, All3'.replicate (CRel.zero u k0 _ hA.zero) _⟩
  have main := mainLoop_rel' hu lanes s sE sB k0 hstep
    (chunks (4 * lanes) (x.take (x.length - x.length % (4 * lanes))))
    (chunks (4 * lanes) (y.take (x.length - x.length % (4 * lanes)))) k0 (le_refl _) init
  rw [hq] at main
  rw [hz, hzc, ← List.map_take, ← List.map_take, ← List.map_drop, ← List.map_drop,
    chunks_map _ _ _ _ (Nat.le_refl _), chunks_map _ _ _ _ (Nat.le_refl _)]
  obtain ⟨a0, a1, a2, a3, e0, e1, e2, e3, b0, b1, b2, b3, r1, r2, r3, h0, h1, h2, h3⟩ := main
  rw [r1, r2, r3]
  simp only [List.map_cons, List.map_nil]
  set k1 := k0 + x.length / (4 * lanes)
  have g0 := hhsum k1 _ _ _ h0
  have g1 := hhsum k1 _ _ _ h1
  have g2 := hhsum k1 _ _ _ h2
  have g3 := hhsum k1 _ _ _ h3
  have s1 := CRel.add hA g0 g1
  have s2 := CRel.add hA s1 (g2.mono hu (Nat.le_succ _))
  have s3 := CRel.add hA s2 (g3.mono hu (by omega : k1 + hk ≤ k1 + hk + 1 + 1))
  have fin := foldl_rel' t tE tB k0 htail
    (x.drop (x.length - x.length % (4 * lanes))) (y.drop (x.length - x.length % (4 * lanes)))
    (k1 + hk + 1 + 1 + 1) (by omega) _ _ _ s3
  refine CRel.mono hu ?_ fin
  have : (List.zip (x.drop (x.length - x.length % (4 * lanes)))
      (y.drop (x.length - x.length % (4 * lanes)))).length ≤ x.length % (4 * lanes) := by
    rw [List.length_zip, List.length_drop]
    have := Nat.mod_le x.length (4 * lanes)
    omega
  omega

/-! ### horizontal sums -/

theorem hsum128_rel' {A : Arith α} {C : Checks α} (hA : ChkModel A val C u) (k : Nat)
    (a : List (α × Bool)) (e b : List ℝ) (H : All3' (CRel val u k) a e b) :
    CRel val u (k + 2) (hsum128 (chkArith A C) a) (hsum128 (ringArith ℝ) e) (hsum128 (ringArith ℝ) b) := by
  by_cases hl : a.length = 4
  · match a, hl with
    | [x0, x1, x2, x3], _ =>
      obtain ⟨y0, e', z0, b', rfl, rfl, p0, H⟩ := H.cons_inv
      obtain ⟨y1, e', z1, b', rfl, rfl, p1, H⟩ := H.cons_inv
      obtain ⟨y2, e', z2, b', rfl, rfl, p2, H⟩ := H.cons_inv
      obtain ⟨y3, e', z3, b', rfl, rfl, p3, H⟩ := H.cons_inv
      obtain ⟨rfl, rfl⟩ := H.nil_inv
      exact CRel.add hA (CRel.add hA p0 p2) (CRel.add hA p1 p3)
  · have he : e.length ≠ 4 := by rw [H.length.1]; exact hl
    have hb : b.length ≠ 4 := by rw [H.length.2]; exact hl
    rw [hsum128_ne _ a hl, hsum128_ne _ e he, hsum128_ne _ b hb]
    exact CRel.zero u _ _ hA.zero

theorem hsum256_rel' {A : Arith α} {C : Checks α} (hA : ChkModel A val C u) (k : Nat)
    (a : List (α × Bool)) (e b : List ℝ) (H : All3' (CRel val u k) a e b) :
    CRel val u (k + 3) (hsum256 (chkArith A C) a) (hsum256 (ringArith ℝ) e) (hsum256 (ringArith ℝ) b) := by
  by_cases hl : a.length = 8
  · match a, hl with
    | [x0, x1, x2, x3, x4, x5, x6, x7], _ =>
      obtain ⟨y0, e', z0, b', rfl, rfl, p0, H⟩ := H.cons_inv
      obtain ⟨y1, e', z1, b', rfl, rfl, p1, H⟩ := H.cons_inv
      obtain ⟨y2, e', z2, b', rfl, rfl, p2, H⟩ := H.cons_inv
      obtain ⟨y3, e', z3, b', rfl, rfl, p3, H⟩ := H.cons_inv
      obtain ⟨y4, e', z4, b', rfl, rfl, p4, H⟩ := H.cons_inv
      obtain ⟨y5, e', z5, b', rfl, rfl, p5, H⟩ := H.cons_inv
      obtain ⟨y6, e', z6, b', rfl, rfl, p6, H⟩ := H.cons_inv
      obtain ⟨y7, e', z7, b', rfl, rfl, p7, H⟩ := H.cons_inv
      obtain ⟨rfl, rfl⟩ := H.nil_inv
      exact hsum128_rel' hA (k + 1) _ _ _
        (All3'.cons (CRel.add hA p4 p0) (All3'.cons (CRel.add hA p5 p1) (All3'.cons (CRel.add hA p6 p2)
          (All3'.cons (CRel.add hA p7 p3) All3'.nil))))
  · have he : e.length ≠ 8 := by rw [H.length.1]; exact hl
    have hb : b.length ≠ 8 := by rw [H.length.2]; exact hl
    rw [hsum256_ne _ a hl, hsum256_ne _ e he, hsum256_ne _ b hb]
    exact CRel.zero u _ _ hA.zero

end loops

end KernelRound
end Arroy
