import ArroyProofs.Properties.Reachable
import ArroyProofs.Properties.C17
import ArroyProofs.BuildPost
/-! Helper lemmas for `Properties/C17Reachable.lean`:
* what a successful build leaves under the keys that are neither items, tree nodes nor updated marks of its
  index (`build_misc`): only the metadata record and the version record are written;
* the invariant `MiscG` of histories about the entries that `IndexInv` does not describe (updated marks hold
  the unit value, keys of the metadata kind are the metadata record — named by a metric a build used — or the
  version record, no other kind of key exists);
* frame lemmas: two sorted well-formed stores that agree outside the version records (`AgreeNV`) satisfy the
  same `IndexInv`, open alike, and have the same prefix scans outside the metadata kind. -/
namespace Arroy
open Generated BuildM IdSet Transp

/-! ## what a build writes outside items, tree nodes and marks -/

/-- the single-bucket shortcut ends by writing the version record -/
theorem singleLeaf_version (c : Cfg) (items : List Nat) :
    Post (fun s => Store.get s c.versionKey =
      some (.version crateVersion.1 crateVersion.2.1 crateVersion.2.2)) (Build.singleLeaf c items) := by
  rw [singleLeaf_eq]
  apply Post.bind_right; intro _
  apply Post.bind_right; intro _
  apply Post.bind_right; intro _
  apply Post.bind_right; intro _
  exact Post.modifyStore _ (fun s => Store.get_put_same s _ _)

/-- **what a successful build leaves under the other keys**: a key that is no tree node, no updated mark and no
    item of the index, and neither its metadata nor its version record, keeps its value; the version record is
    kept or becomes the crate version -/
theorem build_misc (c : Cfg) (o : BuildOpts) (fuel : Nat) (st st' : BState) (roots0 items0 : List Nat) (ts0 : List T)
    (hi : c.index < 65536) (hcap : 1 ≤ Build.cap c o)
    (hs : Store.Sorted st.store) (hw : Store.WF st.store)
    (old : Old c st.store roots0 items0 ts0) (hnone : st.cancelAt = none) (hfresh : FreshSupply)
    (h : Build.build c o fuel st = .ok ((), st')) :
    (∀ k : Key, (∀ i, k ≠ c.treeKey i) → (∀ i, k ≠ c.updatedKey i) → (k.index ≠ c.index ∨ k.mode ≠ modeItem) →
      k ≠ c.metaKey → k ≠ c.versionKey → Store.get st'.store k = Store.get st.store k) ∧
    (Store.get st'.store c.versionKey = Store.get st.store c.versionKey ∨
      Store.get st'.store c.versionKey = some (.version crateVersion.1 crateVersion.2.1 crateVersion.2.2)) := by
  rw [build_eq] at h
  obtain ⟨u1, st1, h1, k1⟩ := bind'_ok_inv h
  clear h
  obtain ⟨kept1, c1⟩ := preProcessItems_spec c h1 hs hw hi
  have hs1 := kept1.step.sorted hs
  have hw1 := kept1.step.wf hw
  obtain ⟨items, st2, h2, k2⟩ := bind'_ok_inv k1
  clear k1
  obtain ⟨e2a, e2b, c2⟩ := itemIndices_spec c h2
  obtain ⟨updated, st3, h3, k3⟩ := bind'_ok_inv k2
  clear k2
  obtain ⟨e3a, e3b, c3⟩ := resetUpdated_spec c h3
  rw [e2b] at e3a e3b
  have hitems : items = st.store.keysOf c.index modeItem := by rw [e2a, kept1.keysOf_item hs hw hi]
  have hupdated : updated = st.store.keysOf c.index modeUpdated := by rw [e3a, kept1.keysOf_updated hs hw hi]
  have hmarks := eraseMarks_all c st1.store hw1 hi
  rw [← e3a, ← e3b] at hmarks
  obtain ⟨marks_none, marks_other⟩ := hmarks
  have step03 : StoreStep c st.store st3.store := by
    rw [e3b]; exact eraseMarks_step c kept1.step _
  have hw3 := step03.wf hw
  have htree3 : ∀ i, Store.get st3.store (c.treeKey i) = Store.get st.store (c.treeKey i) := by
    intro i
    rw [marks_other _ (fun id => Ne.symm (c.updatedKey_ne_treeKey id i)), kept1.tree]
  have hmeta3 : Store.get st3.store c.metaKey = Store.get st.store c.metaKey := by
    rw [marks_other _ (fun id => c.metaKey_ne_updatedKey c id), kept1.meta]
  -- the keys of the statement are untouched by the first three phases
  have hk3 : ∀ k : Key, (∀ i, k ≠ c.updatedKey i) → (k.index ≠ c.index ∨ k.mode ≠ modeItem) →
      Store.get st3.store k = Store.get st.store k := by
    intro k hu hm
    rw [marks_other k hu, kept1.other k hm]
  have hver3 : Store.get st3.store c.versionKey = Store.get st.store c.versionKey :=
    hk3 _ (fun i => c.versionKey_ne_updatedKey i) (Or.inr c.versionKey_mode)
  have hsitems : Sorted items := by rw [hitems]; exact Store.keysOf_sorted hs hw _ _ hi (by decide)
  have hsupd : Sorted updated := by rw [hupdated]; exact Store.keysOf_sorted hs hw _ _ hi (by decide)
  have hcancel3 : st3.cancelAt = none := by rw [c3, c2, c1, hnone]
  subst hitems
  split at k3
  · -- the index fits in one bucket
    obtain ⟨_, _, sother, _⟩ := singleLeaf_spec c _ hw3 hi hsitems k3
    refine ⟨fun k ht hu hm hme hv => ?_, Or.inr (singleLeaf_version c _ _ _ _ k3)⟩
    rw [sother k ht hme hv]
    exact hk3 k hu hm
  · -- the main path
    obtain ⟨s, st4, h4, k4⟩ := bind'_ok_inv k3
    clear k3
    obtain ⟨rfl, rfl⟩ := getStore_ok' h4
    obtain ⟨used, st5, h5, k5⟩ := bind'_ok_inv k4
    clear k4
    have hns : ¬ Swallows c st3 := by
      rintro ⟨n, hn, _⟩
      rw [hcancel3] at hn; cases hn
    rw [usedTreeNode_noswallow c hns] at h5
    simp only [Except.ok.injEq, Prod.mk.injEq] at h5
    obtain ⟨hused_eq, hst5⟩ := h5
    have hst5s : st5.store = st3.store := by rw [← hst5]
    subst hused_eq
    have hroots : rootsOf c st3.store = roots0 := by rw [rootsOf_congr hmeta3, old.roots_eq]
    rw [hroots] at k5
    have hused_lt : ∀ i ∈ st3.store.keysOf c.index modeTree, i < 4294967296 := by
      intro i hi'
      rw [Store.mem_keysOf_iff hw3 _ _ _ hi (by decide)] at hi'
      exact lt_of_isSome_tree hw3 hi'
    obtain ⟨roots', ts', _, _, _, a4, _⟩ :=
      afterUsed_spec c o fuel _ updated roots0 _ items0 ts0 st5 st' hi hcap (by rw [hst5s]; exact hw3)
        (by rw [hst5s]; exact old.forest.frame htree3) hsitems hsupd
        (by
          intro x hx
          rw [hupdated, Store.mem_keysOf_iff hw _ _ _ hi (by decide)] at hx
          have := old.marks x (by
            simp only [Cfg.updatedKey, Key.mkUpdated]
            cases hg' : Store.get st.store ⟨c.index, modeUpdated, x⟩ with
            | none => rfl
            | some v => rw [hg'] at hx; simp at hx)
          rw [this, Store.mem_keysOf_iff hw _ _ _ hi (by decide)]
          rfl)
        (by
          intro i hi'
          rw [hst5s] at hi'
          exact (Store.mem_keysOf_iff hw3 _ _ _ hi (by decide)).2 hi')
        (hfresh _ (Store.keysOf_sorted (step03.sorted hs) hw3 _ _ hi (by decide)) hused_lt)
        k5
    rw [hst5s] at a4
    refine ⟨fun k ht hu hm hme _ => ?_, Or.inl ?_⟩
    · rw [a4 k ht hme]; exact hk3 k hu hm
    · rw [a4 _ (fun i => c.versionKey_ne_treeKey i) c.versionKey_ne_metaKey]; exact hver3

/-! ## the entries `IndexInv` does not describe -/
namespace C17
open Store Upgrade C01

/-- an entry is an item, a tree node, an updated mark holding the unit value, the metadata record (named by a
    name satisfying `N`) or the version record: there is no other kind of key, and no other id of the
    metadata kind -/
def miscOk (N : Bytes → Prop) (k : Key) (v : Val) : Prop :=
  k.mode = modeItem ∨ k.mode = modeTree ∨ (k.mode = modeUpdated ∧ v = .unit) ∨
  (k = Key.mkMetadata k.index ∧ ∃ nm d i r, v = .metadata nm d i r ∧ N nm) ∨
  (k = Key.mkVersion k.index ∧ ∃ a b c, v = .version a b c)

def MiscG (N : Bytes → Prop) (s : Store) : Prop := ∀ k v, Store.get s k = some v → miscOk N k v

/-- the metadata record is only written by builds: the metric names of the builds of the history satisfy `N` -/
def namedBuild (N : Bytes → Prop) : Op → Prop
  | .build c _ _ _ => N c.metric.nameBytes
  | _ => True

theorem miscG_nil (N : Bytes → Prop) : MiscG N [] := by
  intro k v h; cases h

theorem miscG_step (N : Bytes → Prop) (s : Store) (op : Op) (hop : op.wf) (hN : namedBuild N op)
    (hinv : ∀ c : Cfg, c.index < 65536 → IndexInv c s) (hP : MiscG N s) : MiscG N (step s op) := by
  cases op with
  | add c' id vec =>
    simp only [step]
    cases h : Writer.addItem c' s id vec with
    | error e => exact hP
    | ok s' =>
      intro k v hg
      rw [Writer.get_addItem h] at hg
      split at hg
      · rename_i e
        cases hg; subst e
        exact Or.inr (Or.inr (Or.inl ⟨rfl, rfl⟩))
      · split at hg
        · rename_i e; subst e; exact Or.inl rfl
        · exact hP k v hg
  | append c' id vec =>
    simp only [step]
    cases h : Writer.appendItem c' s id vec with
    | error e => exact hP
    | ok s' =>
      have h := Writer.appendItem_ok_eq_addItem (hinv c' hop.1).1.1 h
      intro k v hg
      rw [Writer.get_addItem h] at hg
      split at hg
      · rename_i e
        cases hg; subst e
        exact Or.inr (Or.inr (Or.inl ⟨rfl, rfl⟩))
      · split at hg
        · rename_i e; subst e; exact Or.inl rfl
        · exact hP k v hg
  | del c' id =>
    intro k v hg
    simp only [step] at hg
    rw [Writer.get_delItem] at hg
    split at hg
    · rename_i e
      cases hg; rw [e.1]
      exact Or.inr (Or.inr (Or.inl ⟨rfl, rfl⟩))
    · split at hg
      · cases hg
      · exact hP k v hg
  | clear c' =>
    intro k v hg
    simp only [step] at hg
    unfold Writer.clear at hg
    rw [Store.get_deletePrefix] at hg
    split at hg
    · cases hg
    · exact hP k v hg
  | build c' o fuel env =>
    simp only [step]
    cases h : Build.build c' o fuel { env with store := s } with
    | error e => exact hP
    | ok r =>
      obtain ⟨u, st'⟩ := r
      obtain ⟨hi', hcap, hn⟩ := hop
      have hinv' := hinv c' hi'
      obtain ⟨roots0, items0, ts0, old⟩ := Old.of_inv hinv'.1 hi'
      obtain ⟨roots', ts', b⟩ := C01_build_out c' o fuel { env with store := s } st' roots0 items0 ts0 hi' hcap
        freshSupply hinv'.1.1 hinv'.1.2.1 old h
      have hrp : RootsPresent c' s := old.rootsPresent hinv'.1.2.1 hi'
      have h' := C10.C10_transparent_ok c' o fuel { env with store := s } st' hrp h
      obtain ⟨m1, m2⟩ := build_misc c' o fuel (erase { env with store := s }) (erase st') roots0 items0 ts0 hi' hcap
        hinv'.1.1 hinv'.1.2.1 old rfl freshSupply h'
      simp only [erase_store] at m1 m2
      intro k v hg
      simp only at hg
      by_cases hmi : k.mode = modeItem
      · exact Or.inl hmi
      by_cases hmt : k.mode = modeTree
      · exact Or.inr (Or.inl hmt)
      by_cases hidx : k.index = c'.index
      · by_cases hme : k = c'.metaKey
        · subst hme
          rw [b.metadata] at hg
          cases hg
          exact Or.inr (Or.inr (Or.inr (Or.inl ⟨rfl, _, _, _, _, rfl, hN⟩)))
        by_cases hv : k = c'.versionKey
        · subst hv
          rcases m2 with m2 | m2
          · rw [m2] at hg; exact hP _ v hg
          · rw [m2] at hg
            cases hg
            exact Or.inr (Or.inr (Or.inr (Or.inr ⟨rfl, _, _, _, rfl⟩)))
        by_cases hu : ∃ i, k = c'.updatedKey i
        · obtain ⟨i, rfl⟩ := hu
          rw [b.no_marks i] at hg; cases hg
        · rw [m1 k (fun i e => hmt (by rw [e]; rfl)) (fun i e => hu ⟨i, e⟩) (Or.inr hmi) hme hv] at hg
          exact hP k v hg
      · rw [b.other k hidx] at hg
        exact hP k v hg
  | prepare c' m' =>
    simp only [step]
    cases h : Writer.prepareChangingDistance c' m' s with
    | error e => exact hP
    | ok s' =>
      by_cases hne : m' = c'.metric
      · subst hne
        rw [C18.C18_same] at h
        cases h; exact hP
      · have hinv' := hinv c' hop
        rw [Writer.prepare_ok c' m' s hne hinv'.1.2.1 hop hinv'.1.2.2.1] at h
        cases h
        intro k v hg
        rw [Writer.get_changed_full c' m' s hinv'.1.2.1 hop k] at hg
        split at hg
        · cases hg
        · split at hg
          · cases hg
          · split at hg
            · rename_i e; exact Or.inl e.2
            · exact hP k v hg

/-- the invariant over histories -/
theorem miscG_run (N : Bytes → Prop) (ops : List Op) (hops : ∀ op ∈ ops, op.wf)
    (hN : ∀ op ∈ ops, namedBuild N op) : MiscG N (run ops) := by
  unfold run
  suffices ∀ s : Store, (∀ c : Cfg, c.index < 65536 → IndexInv c s) → MiscG N s → MiscG N (ops.foldl step s) from
    this [] (fun c _ => C01_inv_empty c) (miscG_nil N)
  induction ops with
  | nil => intro s _ h; exact h
  | cons op ops ih =>
    intro s hinv hP
    simp only [List.foldl_cons]
    have hop := hops op (by simp)
    exact ih (fun op' h' => hops op' (List.mem_cons_of_mem _ h')) (fun op' h' => hN op' (List.mem_cons_of_mem _ h'))
      _ (C01_inv_step freshSupply s op hop hinv) (miscG_step N s op hop (hN op (by simp)) hinv hP)

/-! ## well-formedness from the invariants -/

theorem T.ref_mode (t : T) : t.ref.mode = modeTree ∨ t.ref.mode = modeItem := by
  cases t with
  | leaf i => exact Or.inr rfl
  | bucket id s => exact Or.inl rfl
  | node id n l r => exact Or.inl rfl

/-- the cells of a tree are descendants nodes, or split nodes whose children are tree nodes or items -/
theorem cell_shape (t : T) : ∀ cell ∈ t.cells, (∃ ids, cell.2 = .desc ids) ∨
    ∃ l r n, cell.2 = .split l r n ∧ (l.mode = modeTree ∨ l.mode = modeItem) ∧
      (r.mode = modeTree ∨ r.mode = modeItem) := by
  induction t with
  | leaf i => intro cell h; cases h
  | bucket id s =>
    intro cell h
    simp only [T.cells, List.mem_singleton] at h
    subst h; exact Or.inl ⟨s, rfl⟩
  | node id n l r ihl ihr =>
    intro cell h
    simp only [T.cells, List.mem_cons, List.mem_append] at h
    rcases h with rfl | h | h
    · exact Or.inr ⟨_, _, _, rfl, T.ref_mode l, T.ref_mode r⟩
    · exact ihl cell h
    · exact ihr cell h

/-- a store satisfying the invariant of every index and `MiscG` with the cosine name is a well-formed
    current-layout cosine database -/
theorem wellFormed_of_inv (s : Store) (hinv : ∀ c : Cfg, c.index < 65536 → IndexInv c s)
    (hm : MiscG (fun nm => nm = cosineName) s) : WellFormedDB s := by
  have hs : Store.Sorted s := (hinv ⟨0, .cosine, 0, {}⟩ (by decide)).1.1
  have hw : Store.WF s := (hinv ⟨0, .cosine, 0, {}⟩ (by decide)).1.2.1
  rw [wellFormedDB_iff]
  refine ⟨hs, ?_⟩
  rintro ⟨k, v⟩ hkv
  have hg : Store.get s k = some v := Frame.get_of_mem_sorted hs hkv
  have hwf : k.wf := hw (k, v) hkv
  have hic : k.index < 65536 := hwf.1
  have hinvc := hinv ⟨k.index, .cosine, 0, {}⟩ hic
  refine ⟨hwf, ?_⟩
  rcases hm k v hg with hmi | hmt | ⟨hmu, hv⟩ | ⟨hk, nm, d, i, r, hv, hnm⟩ | ⟨hk, hv⟩
  · exact Or.inl ⟨hmi, (C05.isLeaf_iff v).1 (hinvc.1.2.2.1 (k, v) hkv rfl hmi)⟩
  · refine Or.inr (Or.inl ⟨hmt, ?_⟩)
    have hkk : k = (⟨k.index, .cosine, 0, {}⟩ : Cfg).treeKey k.item := Key.eq_of_fields rfl hmt rfl
    rw [hkk] at hg
    rcases hinvc.1.2.2.2 with ⟨_, hnone⟩ | ⟨name, dims, items, roots, _, _, ⟨ts, f⟩, _⟩
    · rw [hnone k.item] at hg; cases hg
    · have hmem := (f.cover k.item).1 (by rw [hg]; rfl)
      obtain ⟨t, ht, hid⟩ := List.mem_flatMap.1 hmem
      exact cell_shape t _ ((f.holds t ht).cell_of_get hid hg)
  · exact Or.inr (Or.inr (Or.inl ⟨hmu, hv⟩))
  · subst hnm
    exact Or.inr (Or.inr (Or.inr (Or.inl ⟨hk, d, i, r, hv⟩)))
  · exact Or.inr (Or.inr (Or.inr (Or.inr ⟨hk, hv⟩)))

/-! ## stores that agree outside the version records -/

/-- `s'` and `s` hold the same value under every key that is not a version record -/
def AgreeNV (s s' : Store) : Prop :=
  ∀ k : Key, ¬ (k.mode = versionKeyMode ∧ k.item = versionKeyItem) → Store.get s' k = Store.get s k

theorem filter_eq_of_agree {s s' : Store} (hs : Store.Sorted s) (hs' : Store.Sorted s') (q : Key → Bool)
    (h : ∀ k, q k = true → Store.get s' k = Store.get s k) :
    s'.filter (fun kv => q kv.1) = s.filter (fun kv => q kv.1) := by
  apply ext_of_sorted (filter_sorted hs' _) (filter_sorted hs _)
  intro k
  rw [Store.get_filter_key, Store.get_filter_key]
  split
  · rename_i hq; exact h k hq
  · rfl

/-- the prefix scans of a kind other than the metadata kind are the same lists -/
theorem AgreeNV.prefixIter_eq {s s' : Store} (ha : AgreeNV s s') (hs : Store.Sorted s) (hs' : Store.Sorted s')
    (hw : Store.WF s) (hw' : Store.WF s') (i m : Nat) (hi : i < 65536) (hm : m < 256) (hne : m ≠ versionKeyMode) :
    s'.prefixIter i (some m) = s.prefixIter i (some m) := by
  unfold Store.prefixIter
  apply filter_eq_of_agree hs hs' (fun k => isPrefixOf (encodePrefix i (some m)) (encodeKey k))
  intro k hq
  by_cases hk : k.wf
  · apply ha
    rintro ⟨e, _⟩
    exact hne (((isPrefix_index_mode_iff i m k hk hi hm).1 hq).2.symm.trans e)
  · rw [Store.get_none_of_not_wf hw' hk, Store.get_none_of_not_wf hw hk]

theorem AgreeNV.keysOf_eq {s s' : Store} (ha : AgreeNV s s') (hs : Store.Sorted s) (hs' : Store.Sorted s')
    (hw : Store.WF s) (hw' : Store.WF s') (i m : Nat) (hi : i < 65536) (hm : m < 256) (hne : m ≠ versionKeyMode) :
    s'.keysOf i m = s.keysOf i m := by
  unfold Store.keysOf
  rw [ha.prefixIter_eq hs hs' hw hw' i m hi hm hne]

/-- `Reader::open` and `Writer::need_build` do not look at the version records -/
theorem AgreeNV.open_eq {s s' : Store} (ha : AgreeNV s s') (hs : Store.Sorted s) (hs' : Store.Sorted s')
    (hw : Store.WF s) (hw' : Store.WF s') (c : Cfg) (hi : c.index < 65536) :
    Reader.open c s' = Reader.open c s ∧ Writer.needBuild c s' = Writer.needBuild c s := by
  have hm := ha.prefixIter_eq hs hs' hw hw' c.index modeUpdated hi (by decide) (by decide)
  have hg : Store.get s' c.metaKey = Store.get s c.metaKey :=
    ha _ (fun e => absurd (show metadataKeyItem = versionKeyItem from e.2) (by decide))
  exact ⟨Writer.open_congr hm hg, Writer.needBuild_congr hm hg⟩

/-- the index invariant does not look at the version records -/
theorem AgreeNV.indexInv {s s' : Store} (ha : AgreeNV s s') (hs' : Store.Sorted s') (hw' : Store.WF s')
    {c : Cfg} (hinv : IndexInv c s) : IndexInv c s' := by
  obtain ⟨⟨hs, hw, hl, hb⟩, hr⟩ := hinv
  have hmeta : Store.get s' c.metaKey = Store.get s c.metaKey := ha _ (fun e => absurd (show metadataKeyItem = versionKeyItem from e.2) (by decide))
  have htree : ∀ i, Store.get s' (c.treeKey i) = Store.get s (c.treeKey i) :=
    fun i => ha _ (fun e => absurd (show modeTree = versionKeyMode from e.1) (by decide))
  have hupd : ∀ i, Store.get s' (c.updatedKey i) = Store.get s (c.updatedKey i) :=
    fun i => ha _ (fun e => absurd (show modeUpdated = versionKeyMode from e.1) (by decide))
  have hitem : ∀ i, Store.get s' (c.itemKey i) = Store.get s (c.itemKey i) :=
    fun i => ha _ (fun e => absurd (show modeItem = versionKeyMode from e.1) (by decide))
  refine ⟨⟨hs', hw', ?_, ?_⟩, ?_⟩
  · rintro ⟨k, v⟩ hkv hi hmi
    have hg : Store.get s' k = some v := Frame.get_of_mem_sorted hs' hkv
    rw [ha k (fun e => by
      have e1 : k.mode = versionKeyMode := e.1
      have e2 : k.mode = modeItem := hmi
      rw [e2] at e1; revert e1; decide)] at hg
    exact hl (k, v) (Store.mem_of_get hg) hi hmi
  · rcases hb with ⟨hn, ht⟩ | ⟨name, dims, items, roots, hm, hsi, ⟨ts, f⟩, hmk⟩
    · exact Or.inl ⟨by rw [hmeta]; exact hn, fun i => by rw [htree]; exact ht i⟩
    · refine Or.inr ⟨name, dims, items, roots, by rw [hmeta]; exact hm, hsi, ⟨ts, f.frame htree⟩, ?_⟩
      intro id hnone
      rw [hupd] at hnone
      rw [hitem]
      exact hmk id hnone
  · intro name dims items roots hm
    rw [hmeta] at hm
    exact hr name dims items roots hm

/-! ## the two upgrade steps, on the current-layout side -/

/-- `s` without its version records (what `up04to05 (down s)` is, `C17_up_down_eq`) -/
def noVer (s : Store) : Store :=
  s.filter (fun kv => !(kv.1.mode == versionKeyMode && kv.1.item == versionKeyItem))

/-- … then stamped in place by `from_0_5_to_0_6` -/
def stamped (s : Store) : Store := stamp05to06 (noVer s) (noVer s)

theorem get_noVer (s : Store) (k : Key) :
    Store.get (noVer s) k = if notVersion k = true then Store.get s k else none :=
  Store.get_filter_key s notVersion k

theorem noVer_sorted {s : Store} (hs : Store.Sorted s) : Store.Sorted (noVer s) := filter_sorted hs _
theorem noVer_wf {s : Store} (hw : Store.WF s) : Store.WF (noVer s) := filter_wf hw _

theorem stamped_sorted {s : Store} (hs : Store.Sorted s) : Store.Sorted (stamped s) :=
  C17_stamp_sorted _ (noVer_sorted hs)

theorem stamped_wf {s : Store} (hw : Store.WF s) : Store.WF (stamped s) := by
  unfold stamped
  rw [stamp_eq]
  apply putAll_wf (noVer_wf hw)
  intro w hmem
  obtain ⟨v, hv, he⟩ := mem_stampWrites hmem
  have hk : (Key.mkMetadata w.1.index).wf := noVer_wf hw _ hv
  have h1 : w.1 = Key.mkVersion w.1.index := congrArg Prod.fst he
  rw [h1]
  exact ⟨hk.1, show versionKeyMode < 256 ^ 1 by decide, show versionKeyItem < 256 ^ 4 by decide⟩

theorem notVersion_iff (k : Key) : notVersion k = true ↔ ¬ (k.mode = versionKeyMode ∧ k.item = versionKeyItem) := by
  unfold notVersion
  rw [Bool.not_eq_true', Bool.and_eq_false_iff, beq_eq_false_iff_ne, beq_eq_false_iff_ne]
  constructor
  · rintro (h | h) ⟨e1, e2⟩
    · exact h e1
    · exact h e2
  · intro h
    by_cases e1 : k.mode = versionKeyMode
    · exact Or.inr (fun e2 => h ⟨e1, e2⟩)
    · exact Or.inl e1

/-- the upgraded and stamped database agrees with `s` outside the version records -/
theorem stamped_agree (s : Store) : AgreeNV s (stamped s) := by
  intro k hk
  unfold stamped
  rw [(C17_stamp (noVer s)).1 k hk, get_noVer, if_pos ((notVersion_iff k).2 hk)]

/-- its version records: the crate version exactly for the indexes that have a metadata record -/
theorem stamped_version (s : Store) (i : Nat) :
    Store.get (stamped s) (Key.mkVersion i) =
      if (Store.get s (Key.mkMetadata i)).isSome = true
      then some (.version crateVersion.1 crateVersion.2.1 crateVersion.2.2) else none := by
  unfold stamped
  rw [(C17_stamp (noVer s)).2 i, get_noVer, get_noVer, if_pos (show notVersion (Key.mkMetadata i) = true from rfl),
    if_neg (show ¬ notVersion (Key.mkVersion i) = true from fun h => Bool.noConfusion h)]

end C17
end Arroy
