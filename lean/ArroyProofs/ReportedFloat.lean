import ArroyProofs.F32RealOrder
import ArroyProofs.F32KernelRound
import ArroyProofs.KernelMap
import ArroyProofs.F32Nonneg
import ArroyProofs.ReportedReal
import ArroyProofs.Properties.C11Real
import Mathlib.Analysis.Real.Sqrt
/-! Binary32 facts behind the rounding-error bounds of the REPORTED distances (`Properties/C11Reported.lean`):
the real value of a finite pattern is zero or in `[2^-149, 2^128)`; a square root of a finite non-negative
value never leaves the normal range; a finite square root comes from a finite non-negative radicand; a
decidable range check for division; `clamp(-1, 1)` in real numbers; `1 − c` for `c ∈ [-1, 1]` is zero or
at least `2^-24`; dot products of vectors of zeros are zeros; a raised flag of the instrumented run certifies a finite result;
the list identities and the combined flag `cosineChk` used in the statements. -/
namespace Arroy
namespace SFR
open SF

theorem unpack_fin_bounds {x : Nat} {n : Bool} {m : Nat} {e : Int} (h : unpack f32 x = .fin n m e) :
    m < 2 ^ 24 ∧ -149 ≤ e ∧ e ≤ 104 := by
  obtain ⟨c1, c2, c3, c4, c5⟩ := f32_consts
  have c6 : f32.ebits = 8 := rfl
  unfold unpack at h
  simp only [c1, c2, c3, c4, c5, c6, Nat.reduceSub, Nat.reducePow] at h
  have hf : x % 8388608 < 8388608 := Nat.mod_lt _ (by decide)
  have h3 : x / 8388608 % 256 < 256 := Nat.mod_lt _ (by decide)
  by_cases d1 : (x / 8388608 % 256 == 255) = true
  · rw [if_pos d1] at h
    by_cases d2 : (x % 8388608 == 0) = true
    · rw [if_pos d2] at h; cases h
    · rw [if_neg d2] at h; cases h
  · rw [if_neg d1] at h
    by_cases d2 : (x / 8388608 % 256 == 0) = true
    · rw [if_pos d2] at h
      cases h
      exact ⟨by omega, by omega, by omega⟩
    · rw [if_neg d2] at h
      cases h
      simp only [beq_iff_eq] at d1 d2
      exact ⟨by omega, by omega, by omega⟩



/-- the value of a finite pattern is zero or between `2^-149` and `2^128` in absolute value -/
theorem toReal_range {x : Nat} (hf : Finite x) :
    toReal x = 0 ∨ ((2 : ℝ) ^ (-149 : ℤ) ≤ |toReal x| ∧ |toReal x| < (2 : ℝ) ^ (128 : ℤ)) := by
  obtain ⟨n, m, e, hu⟩ := (finite_iff x).1 hf
  obtain ⟨b1, b2, b3⟩ := unpack_fin_bounds hu
  rw [toReal_of_unpack hu]
  by_cases h0 : m = 0
  · left; rw [h0]; simp
  · right
    have hm1 : (1 : ℝ) ≤ m := by exact_mod_cast Nat.pos_of_ne_zero h0
    have hm2 : (m : ℝ) < (2 : ℝ) ^ (24 : ℕ) := by exact_mod_cast b1
    have hE := two_zpow_pos e
    rw [mul_assoc, abs_mul, abs_sgn, one_mul, abs_of_pos (mul_pos (by linarith) hE)]
    have e1 : (2 : ℝ) ^ (-149 : ℤ) ≤ (2 : ℝ) ^ e := zpow_le_zpow_right₀ (by norm_num) b2
    have e2 : (2 : ℝ) ^ e ≤ (2 : ℝ) ^ (104 : ℤ) := zpow_le_zpow_right₀ (by norm_num) b3
    constructor
    · have := mul_le_mul_of_nonneg_right hm1 hE.le
      linarith
    · have e3 : (2 : ℝ) ^ (128 : ℤ) = (2 : ℝ) ^ (24 : ℕ) * (2 : ℝ) ^ (104 : ℤ) := by
        rw [← zpow_natCast, ← zpow_add₀ two_ne_zero]; norm_num
      rw [e3]
      calc (m : ℝ) * (2 : ℝ) ^ e < (2 : ℝ) ^ (24 : ℕ) * (2 : ℝ) ^ e := mul_lt_mul_of_pos_right hm2 hE
        _ ≤ (2 : ℝ) ^ (24 : ℕ) * (2 : ℝ) ^ (104 : ℤ) := mul_le_mul_of_nonneg_left e2 (by positivity)

/-- the square root of a finite non-negative value never leaves the normal range -/
theorem sqrt_normalOrZero {a : Nat} (ha : Finite a) (h0 : 0 ≤ toReal a) : NormalOrZero (√(toReal a)) := by
  rcases toReal_range ha with hz | ⟨r1, r2⟩
  · left; rw [hz, Real.sqrt_zero]
  · right
    rw [abs_of_nonneg h0] at r1 r2
    unfold NormalRange
    rw [abs_of_nonneg (Real.sqrt_nonneg _)]
    constructor
    · apply Real.le_sqrt_of_sq_le
      have : ((2 : ℝ) ^ (-126 : ℤ)) ^ 2 = (2 : ℝ) ^ (-252 : ℤ) := by
        rw [← zpow_natCast, ← zpow_mul]; norm_num
      rw [this]
      have : (2 : ℝ) ^ (-252 : ℤ) ≤ (2 : ℝ) ^ (-149 : ℤ) := zpow_le_zpow_right₀ (by norm_num) (by norm_num)
      linarith
    · have h64 : √(toReal a) < (2 : ℝ) ^ (64 : ℤ) := by
        rw [Real.sqrt_lt' (by positivity)]
        have : ((2 : ℝ) ^ (64 : ℤ)) ^ 2 = (2 : ℝ) ^ (128 : ℤ) := by
          rw [← zpow_natCast, ← zpow_mul]; norm_num
        rw [this]; exact r2
      have : (2 : ℝ) ^ (64 : ℤ) ≤ (2 : ℝ) ^ (128 : ℤ) * (1 - (2 : ℝ) ^ (-25 : ℤ)) := by norm_num
      linarith

theorem not_finite_qnan : ¬ Finite (qnan f32) := by decide
theorem not_finite_inf (s : Bool) : ¬ Finite (infBits f32 s) := by cases s <;> decide

/-- a finite square root comes from a finite non-negative radicand -/
theorem finite_of_sqrt {a : Nat} (h : Finite (F32.sqrt a)) : Finite a ∧ 0 ≤ toReal a := by
  have hs : F32.sqrt a = (match unpack f32 a with
      | .nan => qnan f32
      | .inf s => if s then qnan f32 else infBits f32 false
      | .fin s m e => if m == 0 then packBits f32 s 0 0 else if s then qnan f32 else F32.sqrt a) := by
    cases hu : unpack f32 a with
    | nan => simp only []; unfold F32.sqrt SF.sqrt; show (match unpack f32 a with
        | .nan => qnan f32 | .inf s => _ | .fin s m e => _) = _; rw [hu]
    | inf s => simp only []; unfold F32.sqrt SF.sqrt; show (match unpack f32 a with
        | .nan => qnan f32 | .inf s => if s then qnan f32 else infBits f32 false | .fin s m e => _) = _; rw [hu]
    | fin s m e =>
      simp only []
      by_cases hm : (m == 0) = true
      · rw [if_pos hm]
        unfold F32.sqrt SF.sqrt
        show (match unpack f32 a with
          | .nan => qnan f32 | .inf s => _ | .fin s m e => _) = _
        rw [hu]; simp only [hm, if_true]
      · rw [if_neg hm]
        by_cases hs : s = true
        · rw [if_pos hs]
          unfold F32.sqrt SF.sqrt
          show (match unpack f32 a with
            | .nan => qnan f32 | .inf s => _ | .fin s m e => _) = _
          rw [hu]; simp only [hm, hs, if_true, Bool.false_eq_true, if_false]
        · rw [if_neg hs]
  cases hu : unpack f32 a with
  | nan => rw [hu] at hs; rw [hs] at h; exact absurd h not_finite_qnan
  | inf s =>
    rw [hu] at hs; rw [hs] at h
    cases s
    · exact absurd h (not_finite_inf false)
    · exact absurd h not_finite_qnan
  | fin s m e =>
    refine ⟨finite_of_unpack hu, ?_⟩
    rw [toReal_of_unpack hu]
    by_cases hm : m = 0
    · rw [hm]; simp
    · have hmb : (m == 0) = false := by simpa using hm
      rw [hu] at hs
      simp only [hmb, Bool.false_eq_true, if_false] at hs
      cases s
      · have := two_zpow_pos e
        simp only [sgn, Bool.false_eq_true, if_false, one_mul]
        positivity
      · simp only [if_true] at hs
        rw [hs] at h; exact absurd h not_finite_qnan



/-- `2^(bitLen m − 1 + e) ≤ m·2^e < 2^(bitLen m + e)` -/
theorem mant_bounds {m : Nat} (hm : 0 < m) (e : Int) :
    (2 : ℝ) ^ (e + ((bitLen m : ℤ) - 1)) ≤ (m : ℝ) * (2 : ℝ) ^ e ∧
    (m : ℝ) * (2 : ℝ) ^ e < (2 : ℝ) ^ (e + (bitLen m : ℤ)) := by
  obtain ⟨hn0, hn1, hn2⟩ := bitLen_bounds hm
  have hE := two_zpow_pos e
  have c1 : (m : ℝ) < (2 : ℝ) ^ (bitLen m) := by exact_mod_cast hn2
  have c2 : (2 : ℝ) ^ (bitLen m - 1) ≤ (m : ℝ) := by exact_mod_cast hn1
  constructor
  · have : e + ((bitLen m : ℤ) - 1) = e + ((bitLen m - 1 : ℕ) : ℤ) := by omega
    rw [this, zpow_add_nat, _root_.mul_comm]
    exact mul_le_mul_of_nonneg_right c2 hE.le
  · rw [zpow_add_nat, _root_.mul_comm ((2:ℝ) ^ e)]
    exact mul_lt_mul_of_pos_right c1 hE

/-- decidable sufficient condition for "the exact quotient is zero or in the normal range": finite
operands, non-zero divisor, and the quotient of the leading bits between `2^-125` and `2^126` -/
def divRange (a b : Nat) : Bool :=
  match unpack f32 a, unpack f32 b with
  | .fin _ m1 e1, .fin _ m2 e2 =>
    m2 != 0 && (m1 == 0 ||
      (decide (-125 ≤ e1 + (bitLen m1 : Int) - e2 - (bitLen m2 : Int)) &&
       decide (e1 + (bitLen m1 : Int) - e2 - (bitLen m2 : Int) ≤ 126)))
  | _, _ => false

theorem divRange_sound {a b : Nat} (h : divRange a b = true) :
    Finite a ∧ Finite b ∧ toReal b ≠ 0 ∧ NormalOrZero (toReal a / toReal b) := by
  unfold divRange at h
  cases hua : unpack f32 a with
  | nan => simp [hua] at h
  | inf s => simp [hua] at h
  | fin s m1 e1 =>
    cases hub : unpack f32 b with
    | nan => simp [hua, hub] at h
    | inf s => simp [hua, hub] at h
    | fin t m2 e2 =>
      simp only [hua, hub, Bool.and_eq_true, bne_iff_ne, ne_eq, Bool.or_eq_true, beq_iff_eq,
        decide_eq_true_eq] at h
      obtain ⟨hm2, h⟩ := h
      have hm2' : 0 < m2 := Nat.pos_of_ne_zero hm2
      have hm2r : (0 : ℝ) < m2 := by exact_mod_cast hm2'
      have hE2 := two_zpow_pos e2
      have hb0 : toReal b ≠ 0 := by
        rw [toReal_of_unpack hub]
        have := sgn_ne_zero t
        positivity
      refine ⟨finite_of_unpack hua, finite_of_unpack hub, hb0, ?_⟩
      rcases h with h0 | ⟨h1, h2⟩
      · left; rw [toReal_of_unpack hua, h0]; simp
      · by_cases hm1 : m1 = 0
        · left; rw [toReal_of_unpack hua, hm1]; simp
        right
        have hm1' : 0 < m1 := Nat.pos_of_ne_zero hm1
        have hm1r : (0 : ℝ) < m1 := by exact_mod_cast hm1'
        have hE1 := two_zpow_pos e1
        obtain ⟨x1, x2⟩ := mant_bounds hm1' e1
        obtain ⟨y1, y2⟩ := mant_bounds hm2' e2
        have hX : 0 < (m1 : ℝ) * (2 : ℝ) ^ e1 := mul_pos hm1r hE1
        have hY : 0 < (m2 : ℝ) * (2 : ℝ) ^ e2 := mul_pos hm2r hE2
        have habs : |toReal a / toReal b| = ((m1 : ℝ) * (2 : ℝ) ^ e1) / ((m2 : ℝ) * (2 : ℝ) ^ e2) := by
          have ea : |toReal a| = (m1 : ℝ) * (2 : ℝ) ^ e1 := by
            rw [toReal_of_unpack hua, mul_assoc, abs_mul, abs_sgn, one_mul, abs_of_pos hX]
          have eb : |toReal b| = (m2 : ℝ) * (2 : ℝ) ^ e2 := by
            rw [toReal_of_unpack hub, mul_assoc, abs_mul, abs_sgn, one_mul, abs_of_pos hY]
          rw [abs_div, ea, eb]
        unfold NormalRange
        rw [habs]
        constructor
        · rw [le_div_iff₀ hY]
          have k1 : (2 : ℝ) ^ (-126 : ℤ) * ((m2 : ℝ) * (2 : ℝ) ^ e2)
              ≤ (2 : ℝ) ^ (-126 : ℤ) * (2 : ℝ) ^ (e2 + (bitLen m2 : ℤ)) :=
            mul_le_mul_of_nonneg_left y2.le (by positivity)
          rw [← zpow_add₀ two_ne_zero] at k1
          have k2 : (2 : ℝ) ^ (-126 + (e2 + (bitLen m2 : ℤ))) ≤ (2 : ℝ) ^ (e1 + ((bitLen m1 : ℤ) - 1)) :=
            zpow_le_zpow_right₀ (by norm_num) (by omega)
          linarith
        · rw [div_lt_iff₀ hY]
          have k0 : (2 : ℝ) ^ (127 : ℤ) ≤ (2 : ℝ) ^ (128 : ℤ) * (1 - (2 : ℝ) ^ (-25 : ℤ)) := by norm_num
          have k1 : (2 : ℝ) ^ (127 : ℤ) * (2 : ℝ) ^ (e2 + ((bitLen m2 : ℤ) - 1))
              ≤ (2 : ℝ) ^ (127 : ℤ) * ((m2 : ℝ) * (2 : ℝ) ^ e2) :=
            mul_le_mul_of_nonneg_left y1 (by positivity)
          rw [← zpow_add₀ two_ne_zero] at k1
          have k2 : (2 : ℝ) ^ (e1 + (bitLen m1 : ℤ)) ≤ (2 : ℝ) ^ (127 + (e2 + ((bitLen m2 : ℤ) - 1))) :=
            zpow_le_zpow_right₀ (by norm_num) (by omega)
          have k3 : (2 : ℝ) ^ (127 : ℤ) * ((m2 : ℝ) * (2 : ℝ) ^ e2)
              ≤ (2 : ℝ) ^ (128 : ℤ) * (1 - (2 : ℝ) ^ (-25 : ℤ)) * ((m2 : ℝ) * (2 : ℝ) ^ e2) :=
            mul_le_mul_of_nonneg_right k0 hY.le
          linarith

theorem toReal_negOne : Finite F32.negOne ∧ toReal F32.negOne = -1 := by
  refine ⟨finite_of_unpack unpack_negOne, ?_⟩
  rw [toReal_of_unpack unpack_negOne]
  simp only [sgn, if_true]
  rw [show ((-23 : Int)) = -((23 : Nat) : Int) from rfl, zpow_neg, zpow_natCast]
  norm_num

/-- `clamp(x, -1, 1)` on a finite value is the real clamp -/
theorem clamp_real {x : Nat} (hx : Finite x) :
    Finite (F32.clamp x F32.negOne F32.one) ∧
    toReal (F32.clamp x F32.negOne F32.one) = max (-1) (min 1 (toReal x)) := by
  obtain ⟨f1, r1⟩ := toReal_one
  obtain ⟨fm, rm⟩ := toReal_negOne
  have e : F32.clamp x F32.negOne F32.one
      = if F32.lt x F32.negOne then F32.negOne else if F32.lt F32.one x then F32.one else x := rfl
  rw [e]
  by_cases c1 : F32.lt x F32.negOne = true
  · rw [if_pos c1]
    have := (lt_iff_toReal _ _ hx fm).1 c1
    rw [rm] at this ⊢
    refine ⟨fm, ?_⟩
    rw [min_eq_right (by linarith), max_eq_left (by linarith)]
  · rw [if_neg c1]
    have h1 : ¬ toReal x < -1 := by rw [← rm]; exact fun h => c1 ((lt_iff_toReal _ _ hx fm).2 h)
    by_cases c2 : F32.lt F32.one x = true
    · rw [if_pos c2]
      have := (lt_iff_toReal _ _ f1 hx).1 c2
      rw [r1] at this ⊢
      refine ⟨f1, ?_⟩
      rw [min_eq_left (by linarith), max_eq_right (by norm_num)]
    · rw [if_neg c2]
      have h2 : ¬ 1 < toReal x := by rw [← r1]; exact fun h => c2 ((lt_iff_toReal _ _ f1 hx).2 h)
      refine ⟨hx, ?_⟩
      rw [min_eq_right (by linarith), max_eq_right (by linarith)]



/-- a binary32 value in `[-1, 1]` is `1` or at least `2^-24` below it -/
theorem one_sub_range {c : Nat} (hf : Finite c) (h2 : toReal c ≤ 1) :
    1 - toReal c = 0 ∨ (1 : ℝ) / 16777216 ≤ 1 - toReal c := by
  obtain ⟨n, m, e, hu⟩ := (finite_iff c).1 hf
  obtain ⟨b1, b2, -⟩ := unpack_fin_bounds hu
  rw [toReal_of_unpack hu] at *
  have hE := two_zpow_pos e
  have hm0 : (0 : ℝ) ≤ m := Nat.cast_nonneg m
  cases n
  · simp only [sgn, Bool.false_eq_true, if_false, one_mul] at *
    by_cases hm : m = 0
    · right; rw [hm]; norm_num
    have hm1 : (1 : ℝ) ≤ m := by exact_mod_cast Nat.pos_of_ne_zero hm
    have hm2 : (m : ℝ) < 16777216 := by exact_mod_cast b1
    by_cases he : e ≤ -25
    · right
      have e1 : (2 : ℝ) ^ e ≤ (2 : ℝ) ^ (-25 : ℤ) := zpow_le_zpow_right₀ (by norm_num) he
      have e2 : (2 : ℝ) ^ (-25 : ℤ) = 1 / 33554432 := by norm_num
      have : (m : ℝ) * (2 : ℝ) ^ e ≤ 16777216 * (1 / 33554432) := by
        rw [e2] at e1
        exact mul_le_mul hm2.le e1 hE.le (by norm_num)
      linarith
    · by_cases he1 : 1 ≤ e
      · exfalso
        have e1 : (2 : ℝ) ^ (1 : ℤ) ≤ (2 : ℝ) ^ e := zpow_le_zpow_right₀ (by norm_num) he1
        have : (1 : ℝ) * (2 : ℝ) ^ (1 : ℤ) ≤ (m : ℝ) * (2 : ℝ) ^ e := mul_le_mul hm1 e1 (by positivity) hm0
        norm_num at this
        linarith
      · obtain ⟨j, hj⟩ : ∃ j : Nat, e = -(j : Int) := ⟨(-e).toNat, by omega⟩
        have hj24 : j ≤ 24 := by omega
        subst hj
        rw [zpow_neg, zpow_natCast] at *
        have hP : (0 : ℝ) < (2 : ℝ) ^ j := by positivity
        have hmle : (m : ℝ) ≤ (2 : ℝ) ^ j := by
          rw [← div_eq_mul_inv, div_le_one hP] at h2; exact h2
        have hmle' : m ≤ 2 ^ j := by exact_mod_cast hmle
        have e24 : (2 : ℝ) ^ j ≤ (2 : ℝ) ^ 24 := pow_le_pow_right₀ (by norm_num) hj24
        rcases Nat.lt_or_ge m (2 ^ j) with hlt | hge
        · right
          have h3 : (m : ℝ) + 1 ≤ (2 : ℝ) ^ j := by exact_mod_cast hlt
          rw [← div_eq_mul_inv]
          have : 1 - (m : ℝ) / (2 : ℝ) ^ j = ((2 : ℝ) ^ j - m) / (2 : ℝ) ^ j := by field_simp
          rw [this, div_le_div_iff₀ (by norm_num) hP]
          have : (1 : ℝ) * (2 : ℝ) ^ j ≤ ((2 : ℝ) ^ j - m) * (2 : ℝ) ^ 24 :=
            mul_le_mul (by linarith) e24 hP.le (by linarith)
          norm_num at this ⊢
          linarith
        · left
          have : m = 2 ^ j := by omega
          rw [this]; push_cast
          field_simp
          ring
  · right
    simp only [sgn, if_true] at *
    have : 0 ≤ (m : ℝ) * (2 : ℝ) ^ e := mul_nonneg hm0 hE.le
    norm_num
    linarith


open Kernel

/-! ### vectors of zeros -/

/-- `+0.0` or `-0.0` -/
def IsZ (x : Nat) : Prop := x = F32.zero ∨ x = F32.negZero

instance (x : Nat) : Decidable (IsZ x) := by unfold IsZ; infer_instance

theorem isz_add {x y : Nat} (hx : IsZ x) (hy : IsZ y) : IsZ (F32.add x y) := by
  rcases hx with rfl | rfl <;> rcases hy with rfl | rfl <;> decide
theorem isz_sub {x y : Nat} (hx : IsZ x) (hy : IsZ y) : IsZ (F32.sub x y) := by
  rcases hx with rfl | rfl <;> rcases hy with rfl | rfl <;> decide
theorem isz_mul {x y : Nat} (hx : IsZ x) (hy : IsZ y) : IsZ (F32.mul x y) := by
  rcases hx with rfl | rfl <;> rcases hy with rfl | rfl <;> decide
theorem isz_fma {x y z : Nat} (hx : IsZ x) (hy : IsZ y) (hz : IsZ z) : IsZ (F32.fma x y z) := by
  rcases hx with rfl | rfl <;> rcases hy with rfl | rfl <;> rcases hz with rfl | rfl <;> decide
theorem isz_sqrt {x : Nat} (hx : IsZ x) : IsZ (F32.sqrt x) := by
  rcases hx with rfl | rfl <;> decide

/-- the binary32 arithmetic restricted to the two zeros -/
def zArith : Arith {x : Nat // IsZ x} where
  zero := ⟨F32.zero, Or.inl rfl⟩
  sumInit := ⟨F32.negZero, Or.inr rfl⟩
  add := fun x y => ⟨F32.add x.1 y.1, isz_add x.2 y.2⟩
  sub := fun x y => ⟨F32.sub x.1 y.1, isz_sub x.2 y.2⟩
  mul := fun x y => ⟨F32.mul x.1 y.1, isz_mul x.2 y.2⟩
  fma := fun x y z => ⟨F32.fma x.1 y.1 z.1, isz_fma x.2 y.2 z.2⟩

theorem zArith_hom : ArithHom Subtype.val zArith f32Arith where
  zero := rfl
  sumInit := rfl
  add := fun _ _ => rfl
  sub := fun _ _ => rfl
  mul := fun _ _ => rfl
  fma := fun _ _ _ => rfl

theorem lift_isz : ∀ (p : List Nat), (∀ x ∈ p, IsZ x) → ∃ p' : List {x : Nat // IsZ x}, p'.map Subtype.val = p := by
  intro p
  induction p with
  | nil => intro _; exact ⟨[], rfl⟩
  | cons a p ih =>
    intro h
    obtain ⟨p', hp'⟩ := ih (fun x hx => h x (by simp [hx]))
    exact ⟨⟨a, h a (by simp)⟩ :: p', by simp [hp']⟩

/-- the dot product of two vectors of zeros is a zero, whatever kernel the host selects -/
theorem dotProduct_isz (h : Host) (p q : List Nat) (hp : ∀ x ∈ p, IsZ x) (hq : ∀ x ∈ q, IsZ x) :
    IsZ (dotProduct h p q) := by
  obtain ⟨p', rfl⟩ := lift_isz p hp
  obtain ⟨q', rfl⟩ := lift_isz q hq
  unfold dotProduct
  rw [dotAvx_map Subtype.val zArith_hom, dotSse_map Subtype.val zArith_hom,
    dotScalar_map Subtype.val zArith_hom]
  split
  · exact (dotAvx zArith p' q').2
  · split
    · exact (dotSse zArith p' q').2
    · exact (dotScalar zArith p' q').2

/-- the product of a zero with anything is a zero or NaN, hence not above `f32::EPSILON` -/
theorem gt_mul_zero_left {z : Nat} (hz : IsZ z) (y : Nat) : F32.gt (F32.mul z y) F32.epsilon = false := by
  have hu : ∃ s, unpack f32 z = .fin s 0 (-149) := by
    rcases hz with rfl | rfl
    · exact ⟨false, unpack_zero⟩
    · exact ⟨true, unpack_negZero⟩
  obtain ⟨s, hu⟩ := hu
  have hm : F32.mul z y = qnan f32 ∨ F32.mul z y = packBits f32 false 0 0 ∨ F32.mul z y = packBits f32 true 0 0 := by
    unfold F32.mul SF.mul
    show (match unpack f32 z, unpack f32 y with
      | .nan, _ | _, .nan => qnan f32
      | .inf s, .inf t => infBits f32 (s != t)
      | .inf s, .fin t m _ => if m == 0 then qnan f32 else infBits f32 (s != t)
      | .fin s m _, .inf t => if m == 0 then qnan f32 else infBits f32 (s != t)
      | .fin s m1 e1, .fin t m2 e2 => roundPack f32 (s != t) (m1 * m2) (e1 + e2)) = _ ∨ _
    rw [hu]
    cases unpack f32 y with
    | nan => left; rfl
    | inf t => left; rfl
    | fin t m2 e2 =>
      right
      simp only [Nat.zero_mul, roundPack_zero]
      cases (s != t)
      · left; rfl
      · right; rfl
  rcases hm with h | h | h <;> rw [h] <;> decide

theorem gt_mul_zero_right {z : Nat} (hz : IsZ z) (y : Nat) : F32.gt (F32.mul y z) F32.epsilon = false := by
  rw [F32L.mul_comm]; exact gt_mul_zero_left hz y

/-! ### `F32.le` in real numbers -/

theorem le_toReal {a b : Nat} (h : F32.le a b = true) (fa : Finite a) (fb : Finite b) :
    toReal a ≤ toReal b := by
  have e : F32.le a b = (!(F32.isNaN a) && !(F32.isNaN b) && !(F32.lt b a)) := rfl
  rw [e] at h
  simp only [Bool.and_eq_true, Bool.not_eq_true'] at h
  by_contra hcon
  have := (lt_iff_toReal b a fb fa).2 (not_le.mp hcon)
  rw [h.2] at this; cases this

/-- a value between `0` and `1` (in the sense of `F32.le`) is finite -/
theorem finite_of_le_le {r : Nat} (h0 : F32.le F32.zero r = true) (h1 : F32.le r F32.one = true) : Finite r := by
  have e0 : F32.le F32.zero r = (!(F32.isNaN F32.zero) && !(F32.isNaN r) && !(ltV (unpack f32 r) (unpack f32 0))) := rfl
  have e1 : F32.le r F32.one = (!(F32.isNaN r) && !(F32.isNaN F32.one) && !(ltV (unpack f32 F32.one) (unpack f32 r))) := rfl
  have en : F32.isNaN r = (match unpack f32 r with | .nan => true | _ => false) := rfl
  rw [e0] at h0
  rw [e1] at h1
  rw [unpack_zero] at h0
  rw [unpack_one] at h1
  cases hu : unpack f32 r with
  | nan => rw [en, hu] at h0; simp at h0
  | inf s =>
    rw [hu] at h0 h1
    cases s <;> simp [ltV] at h0 h1
  | fin s m e => exact finite_of_unpack hu


open KernelRound ReportedReal

/-! ### a raised flag certifies a finite result -/

/-- "if no check failed so far, the value is finite" -/
def FinOK (c : Nat × Bool) : Prop := c.2 = true → Finite c.1

theorem finok_zero : FinOK f32Chk.zero := fun _ => by decide
theorem finok_sumInit : FinOK f32Chk.sumInit := fun _ => by decide

theorem finok_add (x y : Nat × Bool) : FinOK (f32Chk.add x y) := by
  intro hf
  have hf' : (x.2 && y.2 && f32Checks.add x.1 y.1) = true := hf
  obtain ⟨-, -, hc⟩ := and3_true hf'
  obtain ⟨fa, fb, hN⟩ := chk_add_sound _ _ hc
  exact (add_std _ _ fa fb hN).1

theorem finok_mul (x y : Nat × Bool) : FinOK (f32Chk.mul x y) := by
  intro hf
  have hf' : (x.2 && y.2 && f32Checks.mul x.1 y.1) = true := hf
  obtain ⟨-, -, hc⟩ := and3_true hf'
  obtain ⟨fa, fb, hN⟩ := chk_mul_sound _ _ hc
  exact (mul_std _ _ fa fb hN).1

theorem finok_fma (x y z : Nat × Bool) : FinOK (f32Chk.fma x y z) := by
  intro hf
  have hf' : (x.2 && y.2 && z.2 && f32Checks.fma x.1 y.1 z.1) = true := hf
  obtain ⟨-, -, -, hc⟩ := and4_true hf'
  obtain ⟨fa, fb, fc, hN⟩ := chk_fma_sound _ _ _ hc
  exact (fma_std _ _ _ fa fb fc hN).1

/-- whenever the instrumented run of the squared Euclidean distance raises no flag, its value is finite -/
theorem euclideanDistanceG_finok (h : Host) (u v : List (Nat × Bool)) : FinOK (euclideanDistanceG f32Chk h u v) := by
  unfold euclideanDistanceG
  split
  · apply simd_pred f32Chk FinOK 8 _ _ _ finok_zero (fun x y _ _ => finok_add x y)
    · intro a b c _; exact finok_fma _ _ _
    · intro l hl; exact hsum256_pred f32Chk FinOK finok_zero (fun x y _ _ => finok_add x y) l hl
    · intro r a b _; exact finok_add _ _
  · split
    · apply simd_pred f32Chk FinOK 4 _ _ _ finok_zero (fun x y _ _ => finok_add x y)
      · intro a b c _; exact finok_add _ _
      · intro l hl; exact hsum128_pred f32Chk FinOK finok_zero (fun x y _ _ => finok_add x y) l hl
      · intro r a b _; exact finok_add _ _
    · unfold euclidScalar
      exact foldl_pred FinOK _ (fun _ => True) (fun x y _ _ => finok_add x y) _ _ finok_sumInit (fun _ _ => trivial)

theorem dotProductG_finok (h : Host) (u v : List (Nat × Bool)) : FinOK (dotProductG f32Chk h u v) := by
  unfold dotProductG
  split
  · apply simd_pred f32Chk FinOK 8 _ _ _ finok_zero (fun x y _ _ => finok_add x y)
    · intro a b c _; exact finok_fma _ _ _
    · intro l hl; exact hsum256_pred f32Chk FinOK finok_zero (fun x y _ _ => finok_add x y) l hl
    · intro r a b _; exact finok_add _ _
  · split
    · apply simd_pred f32Chk FinOK 4 _ _ _ finok_zero (fun x y _ _ => finok_add x y)
      · intro a b c _; exact finok_add _ _
      · intro l hl; exact hsum128_pred f32Chk FinOK finok_zero (fun x y _ _ => finok_add x y) l hl
      · intro r a b _; exact finok_add _ _
    · unfold dotScalar
      exact foldl_pred FinOK _ (fun _ => True) (fun x y _ _ => finok_add x y) _ _ finok_sumInit (fun _ _ => trivial)

/-- the flag of `C11_round_f32_euclidean_distance` implies that the squared distance is finite and non-negative -/
theorem euclideanDistance_finite (h : Host) (x y : List Nat)
    (hrun : (euclideanDistanceG f32Chk h (chkIn x) (chkIn y)).2 = true) :
    Finite (euclideanDistance h x y) ∧ 0 ≤ toReal (euclideanDistance h x y) := by
  have hf := euclideanDistanceG_finok h (chkIn x) (chkIn y) hrun
  rw [(C11.C11_f32_chk_fst h x y).2] at hf
  refine ⟨hf, ?_⟩
  rcases F32M.euclideanDistance_nn h x y with hn | hle
  · exfalso
    have hu := F32M.unpack_of_isNaN hn
    obtain ⟨n, m, e, hu'⟩ := (finite_iff _).1 hf
    rw [hu] at hu'; cases hu'
  · have := le_toReal hle finite_zero hf
    rw [show toReal F32.zero = 0 from toReal_zero] at this
    exact this

theorem dotProduct_finite (h : Host) (x y : List Nat)
    (hrun : (dotProductG f32Chk h (chkIn x) (chkIn y)).2 = true) : Finite (dotProduct h x y) := by
  have hf := dotProductG_finok h (chkIn x) (chkIn y) hrun
  rw [(C11.C11_f32_chk_fst h x y).1] at hf
  exact hf

/-! ### the sums in the statements -/

/-- the terms `(aᵢ−bᵢ)²` are their own absolute values -/
theorem sq_terms_abs (x y : List Nat) :
    (List.zipWith (fun a b => (toReal a - toReal b) * (toReal a - toReal b)) x y).map (fun z => |z|)
      = List.zipWith (fun a b => (toReal a - toReal b) * (toReal a - toReal b)) x y := by
  apply map_abs_of_nonneg
  intro z hz
  obtain ⟨a, b, rfl⟩ := F32M.exists_of_mem_zipWith _ x y z hz
  exact mul_self_nonneg _

theorem sq_terms_sum_nonneg (x y : List Nat) :
    0 ≤ (List.zipWith (fun a b => (toReal a - toReal b) * (toReal a - toReal b)) x y).sum := by
  apply List.sum_nonneg
  intro z hz
  obtain ⟨a, b, rfl⟩ := F32M.exists_of_mem_zipWith _ x y z hz
  exact mul_self_nonneg _

theorem unpack_epsilon : unpack f32 F32.epsilon = .fin false 8388608 (-46) := by
  simp [unpack, F32.epsilon, f32, Fmt.width, Fmt.emaxField, Fmt.bias]

theorem self_terms (p : List Nat) :
    ((List.zipWith (fun a b => toReal a * toReal b) p p).map (fun z => |z|))
      = p.map (fun a => toReal a * toReal a) ∧
    List.zipWith (fun a b => toReal a * toReal b) p p = p.map (fun a => toReal a * toReal a) := by
  rw [List.zipWith_self]
  refine ⟨?_, rfl⟩
  apply map_abs_of_nonneg
  intro z hz
  obtain ⟨w, _, rfl⟩ := List.mem_map.mp hz
  exact mul_self_nonneg _

theorem cauchy_schwarz_f32 (p q : List Nat) :
    ((List.zipWith (fun a b => toReal a * toReal b) p q).map (fun z => |z|)).sum
      ≤ √((p.map (fun a => toReal a * toReal a)).sum) * √((q.map (fun b => toReal b * toReal b)).sum) := by
  have := cauchy_schwarz_list (p.map toReal) (q.map toReal)
  rw [List.zipWith_map, List.map_map, List.map_map] at this
  exact this

/-! ### the combined flag -/

/-- all the flags of `C11_round_f32_cosine` as one Boolean (evaluated by `decide +kernel` in the examples) -/
def cosineChk (h : Host) (p q : List Nat) : Bool :=
  decide (p.length = q.length) && decide (dotDepth h p.length ≤ 65536) &&
  (dotProductG f32Chk h (chkIn p) (chkIn p)).2 && (dotProductG f32Chk h (chkIn q) (chkIn q)).2 &&
  (dotProductG f32Chk h (chkIn p) (chkIn q)).2 &&
  f32Checks.mul (F32.sqrt (dotProduct h p p)) (F32.sqrt (dotProduct h q q)) &&
  F32.gt (F32.mul (F32.sqrt (dotProduct h p p)) (F32.sqrt (dotProduct h q q))) F32.epsilon &&
  divRange (dotProduct h p q) (F32.mul (F32.sqrt (dotProduct h p p)) (F32.sqrt (dotProduct h q q)))


end SFR
end Arroy
