import ArroyProofs.SoftFloatSymm
import ArroyProofs.SoftFloatRange
/-! Decoding the result of `SF.roundPack` (binary32, core Lean only): for a significand `m > 0` whose
exact value `m·2^e` lies in the normal range, the result is the finite value with the sign handed in,
the rounded 24-bit significand and the exponent `e + bitLen m - 24`. Used by `SoftFloatReal`. -/
namespace Arroy.SF

theorem f32_ebits : f32.ebits = 8 := rfl

/-- decoding a normal pattern assembled from its fields -/
theorem unpack_packBits (neg : Bool) (ex frac : Nat) (h1 : 1 ≤ ex) (h2 : ex ≤ 254) (hf : frac < 2^23) :
    unpack f32 (packBits f32 neg ex frac) = .fin neg (frac + 2^23) ((ex : Int) - 150) := by
  obtain ⟨c1, c2, c3, c4, c5⟩ := f32_consts
  unfold unpack packBits
  simp only [c1, c2, c3, c4, c5, f32_ebits, Nat.reduceSub, Nat.reducePow] at hf ⊢
  cases neg
  · have a1 : (0 + ex * 8388608 + frac) % 8388608 = frac := by omega
    have a2 : (0 + ex * 8388608 + frac) / 8388608 % 256 = ex := by omega
    have a3 : (0 + ex * 8388608 + frac) / 2147483648 % 2 = 0 := by omega
    have b1 : (ex == 255) = false := by rw [beq_eq_false_iff_ne]; omega
    have b2 : (ex == 0) = false := by rw [beq_eq_false_iff_ne]; omega
    have b3 : ((0 : Nat) == 1) = false := by decide
    have b4 : (ex : Int) - ((127 : Nat) : Int) - (((24 : Nat) : Int) - 1) = (ex : Int) - 150 := by omega
    simp only [Bool.false_eq_true, if_false, a1, a2, a3, b1, b2, b3, b4]
  · have a1 : (2147483648 + ex * 8388608 + frac) % 8388608 = frac := by omega
    have a2 : (2147483648 + ex * 8388608 + frac) / 8388608 % 256 = ex := by omega
    have a3 : (2147483648 + ex * 8388608 + frac) / 2147483648 % 2 = 1 := by omega
    have b1 : (ex == 255) = false := by rw [beq_eq_false_iff_ne]; omega
    have b2 : (ex == 0) = false := by rw [beq_eq_false_iff_ne]; omega
    have b3 : ((1 : Nat) == 1) = true := by decide
    have b4 : (ex : Int) - ((127 : Nat) : Int) - (((24 : Nat) : Int) - 1) = (ex : Int) - 150 := by omega
    simp only [if_true, Bool.false_eq_true, if_false, a1, a2, a3, b1, b2, b3, b4]

/-- decoding a signed zero -/
theorem unpack_packBits_zero (neg : Bool) : unpack f32 (packBits f32 neg 0 0) = .fin neg 0 (-149) := by
  cases neg <;> simp [unpack, packBits, f32, Fmt.width, Fmt.emaxField, Fmt.qmin, Fmt.bias]

/-- the last step of `roundPack` on a normalised significand and an exponent in range -/
theorem unpack_finish (neg : Bool) (mant : Nat) (q : Int) (hm1 : 2^23 ≤ mant) (hm2 : mant < 2^24)
    (hq1 : -149 ≤ q) (hq2 : q ≤ 104) :
    unpack f32 (finish f32 neg mant q) = .fin neg mant q := by
  obtain ⟨c1, c2, c3, c4, c5⟩ := f32_consts
  unfold finish
  simp only [c1, c2, c3]
  have h1 : ¬ (mant < 2 ^ (24 - 1)) := by omega
  have h2 : ¬ (q + ((127 : Nat) : Int) + (((24 : Nat) : Int) - 1) ≥ ((255 : Nat) : Int)) := by omega
  simp only [if_neg h1, if_neg h2]
  rw [unpack_packBits neg _ _ (by omega) (by omega) (by omega)]
  have e1 : mant - 2 ^ (24 - 1) + 2 ^ 23 = mant := by omega
  have e2 : (((q + ((127 : Nat) : Int) + (((24 : Nat) : Int) - 1)).toNat : Nat) : Int) - 150 = q := by omega
  rw [e1, e2]

/-- round to nearest: the rounded significand is within half a unit of the exact one; a set sticky
bit (the exact value is strictly above `m`) never sits exactly on the upper end -/
theorem roundMant_err (m s : Nat) (st : Bool) (hs : 0 < s) :
    roundMant m s st * 2 ^ s ≤ m + 2 ^ (s - 1) ∧ m ≤ roundMant m s st * 2 ^ s + 2 ^ (s - 1) ∧
    (st = true → m + 1 ≤ roundMant m s st * 2 ^ s + 2 ^ (s - 1)) := by
  have hp : 2 ^ s = 2 * 2 ^ (s - 1) := by
    have : s = (s - 1) + 1 := by omega
    rw (occs := .pos [1]) [this]; rw [Nat.pow_succ]; omega
  have hd := Nat.div_add_mod m (2 ^ s)
  have hr := Nat.mod_lt m (Nat.two_pow_pos s)
  have hmul : (m / 2 ^ s + 1) * 2 ^ s = 2 ^ s * (m / 2 ^ s) + 2 ^ s := by
    rw [Nat.add_mul, Nat.mul_comm]; omega
  have hmul' : (m / 2 ^ s) * 2 ^ s = 2 ^ s * (m / 2 ^ s) := Nat.mul_comm _ _
  unfold roundMant
  by_cases c : (decide (m % 2 ^ s > 2 ^ (s - 1)) || (m % 2 ^ s == 2 ^ (s - 1) && (st || m / 2 ^ s % 2 == 1))) = true
  · rw [if_pos c, hmul]
    simp only [Bool.or_eq_true, Bool.and_eq_true, decide_eq_true_eq, beq_iff_eq] at c
    refine ⟨by omega, by omega, fun _ => by omega⟩
  · rw [if_neg c, hmul']
    simp only [Bool.or_eq_true, Bool.and_eq_true, decide_eq_true_eq, beq_iff_eq, not_or, not_and] at c
    refine ⟨by omega, by omega, fun h => ?_⟩
    subst h
    have c2 : m % 2 ^ s ≠ 2 ^ (s - 1) := fun h => (c.2 h).1 rfl
    omega

/-- the rounded significand of a `(24+s)`-bit number has 24 bits, or is `2^24` (carry) -/
theorem roundMant_range (m s : Nat) (st : Bool) (h1 : 2 ^ (23 + s) ≤ m) (h2 : m < 2 ^ (24 + s)) :
    2 ^ 23 ≤ roundMant m s st ∧ roundMant m s st ≤ 2 ^ 24 := by
  have hm : 2 ^ 23 ≤ m / 2 ^ s ∧ m / 2 ^ s < 2 ^ 24 := by
    constructor
    · rw [Nat.le_div_iff_mul_le (Nat.two_pow_pos _), ← Nat.pow_add]; exact h1
    · rw [Nat.div_lt_iff_lt_mul (Nat.two_pow_pos _), ← Nat.pow_add]; exact h2
  unfold roundMant; split <;> omega

theorem qOf_f32 (m : Nat) (e : Int) : qOf f32 m e = Max.max (e + (bitLen m : Int) - 24) (-149) := by
  obtain ⟨c1, c2, c3, c4, c5⟩ := f32_consts
  unfold qOf; rw [c1, c4]; rfl

/-- no rounding needed: at most 24 significant bits -/
theorem roundPack_exact (neg : Bool) (m : Nat) (e : Int) (st : Bool) (hm : 0 < m)
    (hn : bitLen m ≤ 24) (h1 : -125 ≤ e + bitLen m) (h2 : e + bitLen m ≤ 128) :
    unpack f32 (roundPack f32 neg m e st) =
      .fin neg (m * 2 ^ (24 - bitLen m)) (e + bitLen m - 24) := by
  obtain ⟨hn0, hn1, hn2⟩ := bitLen_bounds hm
  have hm0 : (m == 0 && !st) = false := by
    have : m ≠ 0 := by omega
    simp [this]
  rw [roundPack_eq f32 neg m e st hm0, qOf_f32]
  have hq : Max.max (e + (bitLen m : Int) - 24) (-149) = e + (bitLen m : Int) - 24 := by omega
  rw [hq]
  have hsh : e + (bitLen m : Int) - 24 - e ≤ 0 := by omega
  have hna : (e + (bitLen m : Int) - 24 - e).natAbs = 24 - bitLen m := by omega
  rw [if_pos hsh, hna]
  apply unpack_finish
  · calc 2 ^ 23 = 2 ^ (bitLen m - 1) * 2 ^ (24 - bitLen m) := by
          rw [← Nat.pow_add]; congr 1; omega
      _ ≤ m * 2 ^ (24 - bitLen m) := Nat.mul_le_mul_right _ hn1
  · calc m * 2 ^ (24 - bitLen m) < 2 ^ bitLen m * 2 ^ (24 - bitLen m) :=
          Nat.mul_lt_mul_of_pos_right hn2 (Nat.two_pow_pos _)
      _ = 2 ^ 24 := by rw [← Nat.pow_add]; congr 1; omega
  · omega
  · omega

/-- rounding by `bitLen m - 24 > 0` bits, no carry out of the significand -/
theorem roundPack_round (neg : Bool) (m : Nat) (e : Int) (st : Bool) (hm : 0 < m)
    (hn : 24 < bitLen m) (h1 : -125 ≤ e + bitLen m) (h2 : e + bitLen m ≤ 128)
    (hc : roundMant m (bitLen m - 24) st ≠ 2 ^ 24) :
    unpack f32 (roundPack f32 neg m e st) =
      .fin neg (roundMant m (bitLen m - 24) st) (e + bitLen m - 24) := by
  obtain ⟨hn0, hn1, hn2⟩ := bitLen_bounds hm
  obtain ⟨c1, c2, c3, c4, c5⟩ := f32_consts
  have hm0 : (m == 0 && !st) = false := by
    have : m ≠ 0 := by omega
    simp [this]
  rw [roundPack_eq f32 neg m e st hm0, qOf_f32]
  have hq : Max.max (e + (bitLen m : Int) - 24) (-149) = e + (bitLen m : Int) - 24 := by omega
  rw [hq]
  have hsh : ¬ (e + (bitLen m : Int) - 24 - e ≤ 0) := by omega
  have hna : (e + (bitLen m : Int) - 24 - e).toNat = bitLen m - 24 := by omega
  rw [if_neg hsh, hna, c1]
  have hr := roundMant_range m (bitLen m - 24) st
    (by have : 23 + (bitLen m - 24) = bitLen m - 1 := by omega
        rw [this]; exact hn1)
    (by have : 24 + (bitLen m - 24) = bitLen m := by omega
        rw [this]; exact hn2)
  have hb : (roundMant m (bitLen m - 24) st == 2 ^ 24) = false := by
    rw [beq_eq_false_iff_ne]; exact hc
  simp only [hb, Bool.false_eq_true, if_false]
  exact unpack_finish neg _ _ hr.1 (by omega) (by omega) (by omega)

/-- rounding by `bitLen m - 24 > 0` bits with a carry: the result is the next power of two -/
theorem roundPack_carry (neg : Bool) (m : Nat) (e : Int) (st : Bool) (hm : 0 < m)
    (hn : 24 < bitLen m) (h1 : -125 ≤ e + bitLen m) (h2 : e + bitLen m ≤ 127)
    (hc : roundMant m (bitLen m - 24) st = 2 ^ 24) :
    unpack f32 (roundPack f32 neg m e st) = .fin neg (2 ^ 23) (e + bitLen m - 24 + 1) := by
  obtain ⟨c1, c2, c3, c4, c5⟩ := f32_consts
  have hm0 : (m == 0 && !st) = false := by
    have : m ≠ 0 := by omega
    simp [this]
  rw [roundPack_eq f32 neg m e st hm0, qOf_f32]
  have hq : Max.max (e + (bitLen m : Int) - 24) (-149) = e + (bitLen m : Int) - 24 := by omega
  rw [hq]
  have hsh : ¬ (e + (bitLen m : Int) - 24 - e ≤ 0) := by omega
  have hna : (e + (bitLen m : Int) - 24 - e).toNat = bitLen m - 24 := by omega
  rw [if_neg hsh, hna, c1]
  have hb : (roundMant m (bitLen m - 24) st == 2 ^ 24) = true := by
    rw [beq_iff_eq]; exact hc
  simp only [hb, if_true]
  exact unpack_finish neg _ _ (by omega) (by omega) (by omega) (by omega)

/-- a carry at the top of the exponent range means the exact value is at least `2^128·(1 - 2^-25)` -/
theorem carry_large (m s : Nat) (st : Bool) (hs : 0 < s) (hc : roundMant m s st = 2 ^ 24) :
    2 ^ (24 + s) ≤ m + 2 ^ (s - 1) := by
  have := (roundMant_err m s st hs).1
  rw [hc, ← Nat.pow_add] at this
  exact this

end Arroy.SF
