import ArroyProofs.KernelLemmas
import Mathlib.Tactic.Ring
/-! Cover theorems (C11): over any commutative ring the scalar, SSE-shaped and AVX-shaped kernel
schemas compute `Σ uᵢ·vᵢ` resp. `Σ (uᵢ−vᵢ)²` — every index contributes exactly once, for every length
(every remainder modulo the 16- / 32-component unrolling). -/
namespace Arroy

/-- the exact arithmetic of a commutative ring as an `Arith` -/
def ringArith (R : Type) [CommRing R] : Arith R where
  zero := 0
  sumInit := 0
  add := (· + ·)
  sub := (· - ·)
  mul := (· * ·)
  fma := fun a b c => a * b + c

namespace KernelCover
open Kernel
variable {R : Type} [CommRing R]

theorem foldl_add_sum (l : List R) (a : R) : l.foldl (· + ·) a = a + l.sum := by
  induction l generalizing a with
  | nil => simp
  | cons x xs ih => simp only [List.foldl_cons, List.sum_cons, ih]; ring

theorem sum_append' (l1 l2 : List R) : (l1 ++ l2).sum = l1.sum + l2.sum := by
  induction l1 with
  | nil => simp
  | cons x xs ih => simp only [List.cons_append, List.sum_cons, ih]; ring

theorem sum_take_drop (n : Nat) (l : List R) : l.sum = (l.take n).sum + (l.drop n).sum := by
  rw [← sum_append', List.take_append_drop]

/-- sum of all lanes of all accumulators -/
def tot (accs : List (List R)) : R := (accs.map List.sum).sum

/-- four accumulators of `lanes` lanes each -/
def Shape (lanes : Nat) (accs : List (List R)) : Prop :=
  ∃ a0 a1 a2 a3 : List R, accs = [a0, a1, a2, a3] ∧
    a0.length = lanes ∧ a1.length = lanes ∧ a2.length = lanes ∧ a3.length = lanes

theorem zipWith3_sum (step : R → R → R → R) (t : R → R → R) (hstep : ∀ a b c, step a b c = t a b + c) :
    ∀ (xs ys acc : List R), xs.length = acc.length → ys.length = acc.length →
      (zipWith3 step xs ys acc).length = acc.length ∧
      (zipWith3 step xs ys acc).sum = (List.zipWith t xs ys).sum + acc.sum := by
  intro xs
  induction xs with
  | nil =>
    intro ys acc hx hy
    have : acc = [] := List.length_eq_zero_iff.mp (by simpa using hx.symm)
    subst this
    simp [zipWith3]
  | cons x xs ih =>
    intro ys acc hx hy
    cases acc with
    | nil => simp at hx
    | cons c cs =>
      cases ys with
      | nil => simp at hy
      | cons y ys =>
        simp only [List.length_cons, Nat.add_right_cancel_iff] at hx hy
        obtain ⟨h1, h2⟩ := ih ys cs hx hy
        simp only [zipWith3, List.length_cons, List.zipWith_cons_cons, List.sum_cons, h1, h2, hstep]
        exact ⟨trivial, by ring⟩

theorem blockStep_sum (lanes : Nat) (step : R → R → R → R) (t : R → R → R)
    (hstep : ∀ a b c, step a b c = t a b + c) (accs : List (List R)) (bu bv : List R)
    (hs : Shape lanes accs) (hu : bu.length = 4 * lanes) (hv : bv.length = 4 * lanes) :
    Shape lanes (blockStep lanes step accs bu bv) ∧
    tot (blockStep lanes step accs bu bv) = tot accs + (List.zipWith t bu bv).sum := by
  obtain ⟨a0, a1, a2, a3, rfl, h0, h1, h2, h3⟩ := hs
  rw [blockStep_four]
  have k0 := zipWith3_sum step t hstep (bu.take lanes) (bv.take lanes) a0
    (by rw [List.length_take]; omega) (by rw [List.length_take]; omega)
  have k1 := zipWith3_sum step t hstep ((bu.drop lanes).take lanes) ((bv.drop lanes).take lanes) a1
    (by rw [List.length_take, List.length_drop]; omega) (by rw [List.length_take, List.length_drop]; omega)
  have k2 := zipWith3_sum step t hstep ((bu.drop (2 * lanes)).take lanes) ((bv.drop (2 * lanes)).take lanes) a2
    (by rw [List.length_take, List.length_drop]; omega) (by rw [List.length_take, List.length_drop]; omega)
  have k3 := zipWith3_sum step t hstep ((bu.drop (3 * lanes)).take lanes) ((bv.drop (3 * lanes)).take lanes) a3
    (by rw [List.length_take, List.length_drop]; omega) (by rw [List.length_take, List.length_drop]; omega)
  refine ⟨⟨_, _, _, _, rfl, by rw [k0.1, h0], by rw [k1.1, h1], by rw [k2.1, h2], by rw [k3.1, h3]⟩, ?_⟩
  simp only [tot, List.map_cons, List.map_nil, List.sum_cons, List.sum_nil, k0.2, k1.2, k2.2, k3.2]
  -- the four slices of `zipWith t bu bv`
  have z : ∀ d, List.zipWith t ((bu.drop d).take lanes) ((bv.drop d).take lanes)
      = ((List.zipWith t bu bv).drop d).take lanes := by
    intro d; rw [List.drop_zipWith, List.take_zipWith]
  have z0 : List.zipWith t (bu.take lanes) (bv.take lanes) = (List.zipWith t bu bv).take lanes := by
    rw [List.take_zipWith]
  rw [z0, z, z, z]
  generalize hZ : List.zipWith t bu bv = Z
  have hZl : Z.length = 4 * lanes := by rw [← hZ, List.length_zipWith]; omega
  have e1 := sum_take_drop lanes Z
  have e2 := sum_take_drop lanes (Z.drop lanes)
  have e3 := sum_take_drop lanes (Z.drop (2 * lanes))
  have d2 : (Z.drop lanes).drop lanes = Z.drop (2 * lanes) := by rw [List.drop_drop]; congr 1; omega
  have d3 : (Z.drop (2 * lanes)).drop lanes = Z.drop (3 * lanes) := by rw [List.drop_drop]; congr 1; omega
  have d4 : (Z.drop (3 * lanes)).take lanes = Z.drop (3 * lanes) :=
    List.take_of_length_le (by rw [List.length_drop]; omega)
  rw [d2] at e2
  rw [d3] at e3
  rw [d4, e1, e2, e3]
  ring

theorem mainLoopQ_sum (lanes : Nat) (step : R → R → R → R) (t : R → R → R)
    (hstep : ∀ a b c, step a b c = t a b + c) :
    ∀ (q : Nat) (accs : List (List R)) (u v : List R), Shape lanes accs →
      u.length = q * (4 * lanes) → v.length = q * (4 * lanes) →
      Shape lanes (mainLoopQ lanes step (4 * lanes) q accs u v) ∧
      tot (mainLoopQ lanes step (4 * lanes) q accs u v) = tot accs + (List.zipWith t u v).sum := by
  intro q
  induction q with
  | zero =>
    intro accs u v hs hu hv
    have : u = [] := List.length_eq_zero_iff.mp (by simpa using hu)
    subst this
    simp [mainLoopQ, hs]
  | succ q ih =>
    intro accs u v hs hu hv
    have b := blockStep_sum lanes step t hstep accs (u.take (4 * lanes)) (v.take (4 * lanes)) hs
      (by rw [List.length_take, hu]; exact Nat.min_eq_left (le_succ_mul q _))
      (by rw [List.length_take, hv]; exact Nat.min_eq_left (le_succ_mul q _))
    have r := ih _ (u.drop (4 * lanes)) (v.drop (4 * lanes)) b.1
      (by rw [List.length_drop, hu]; exact succ_mul_sub q _)
      (by rw [List.length_drop, hv]; exact succ_mul_sub q _)
    rw [mainLoopQ]
    refine ⟨r.1, ?_⟩
    rw [r.2, b.2, sum_take_drop (4 * lanes) (List.zipWith t u v), List.take_zipWith, List.drop_zipWith]
    ring

theorem shape_init (lanes : Nat) : Shape lanes (List.replicate 4 (List.replicate lanes (0 : R))) :=
  ⟨_, _, _, _, rfl, by simp, by simp, by simp, by simp⟩

theorem sum_replicate_zero (n : Nat) : (List.replicate n (0 : R)).sum = 0 := by
  induction n with
  | zero => rfl
  | succ n ih => rw [List.replicate_succ, List.sum_cons, ih]; ring

theorem tot_init (lanes : Nat) : tot (List.replicate 4 (List.replicate lanes (0 : R))) = 0 := by
  have : List.replicate 4 (List.replicate lanes (0 : R)) =
      [List.replicate lanes 0, List.replicate lanes 0, List.replicate lanes 0, List.replicate lanes 0] := rfl
  rw [this]
  simp only [tot, List.map_cons, List.map_nil, List.sum_cons, List.sum_nil, sum_replicate_zero]
  ring

theorem foldl_tail_sum (t : R → R → R) (tail : R → R → R → R) (htail : ∀ r a b, tail r a b = r + t a b) :
    ∀ (xs ys : List R) (r : R),
      (List.zip xs ys).foldl (fun r (p : R × R) => tail r p.1 p.2) r = r + (List.zipWith t xs ys).sum := by
  intro xs
  induction xs with
  | nil => intro ys r; simp
  | cons x xs ih =>
    intro ys r
    cases ys with
    | nil => simp
    | cons y ys =>
      simp only [List.zip_cons_cons, List.foldl_cons, List.zipWith_cons_cons, List.sum_cons]
      rw [ih, htail]
      ring

/-- the generic cover lemma for the SSE/AVX shape: with a lane step `acc + t a b`, a remainder step
`r + t a b` and a horizontal sum that adds up its lanes, the result is `Σ t uᵢ vᵢ` for every length -/
theorem simd_sum (lanes : Nat) (hl : 0 < lanes) (step : R → R → R → R) (hsum : List R → R)
    (tail : R → R → R → R) (t : R → R → R)
    (hstep : ∀ a b c, step a b c = t a b + c)
    (hh : ∀ a : List R, a.length = lanes → hsum a = a.sum)
    (htail : ∀ r a b, tail r a b = r + t a b)
    (u v : List R) (hlen : u.length = v.length) :
    simd (ringArith R) lanes step hsum tail u v = (List.zipWith t u v).sum := by
  unfold simd
  simp only
  have hk : 0 < 4 * lanes := by omega
  have hmu : (u.take (u.length - u.length % (4 * lanes))).length
      = (u.length / (4 * lanes)) * (4 * lanes) := by
    rw [List.length_take, ← prefix_len]; omega
  have hmv : (v.take (u.length - u.length % (4 * lanes))).length
      = (u.length / (4 * lanes)) * (4 * lanes) := by
    rw [List.length_take, ← prefix_len, ← hlen]; omega
  rw [mainLoop_chunks lanes step hk _ _ _ _ hmu hmv]
  obtain ⟨⟨a0, a1, a2, a3, e, h0, h1, h2, h3⟩, hT⟩ :=
    mainLoopQ_sum lanes step t hstep (u.length / (4 * lanes)) (List.replicate 4 (List.replicate lanes (0 : R)))
      _ _ (shape_init lanes) hmu hmv
  have hz : (ringArith R).zero = 0 := rfl
  rw [hz, e]
  rw [e, tot_init] at hT
  simp only [tot, List.map_cons, List.map_nil, List.sum_cons, List.sum_nil] at hT
  simp only [List.map_cons, List.map_nil, hh _ h0, hh _ h1, hh _ h2, hh _ h3]
  rw [foldl_tail_sum t tail htail,
      sum_take_drop (u.length - u.length % (4 * lanes)) (List.zipWith t u v),
      List.take_zipWith, List.drop_zipWith]
  simp only [ringArith]
  rw [show a0.sum + a1.sum + a2.sum + a3.sum = a0.sum + (a1.sum + (a2.sum + (a3.sum + 0))) by ring, hT]
  ring

/-! ### the horizontal sums -/

theorem hsum128_sum (a : List R) (h : a.length = 4) : hsum128 (ringArith R) a = a.sum := by
  match a, h with
  | [x0, x1, x2, x3], _ =>
    simp only [hsum128, ringArith, List.sum_cons, List.sum_nil]; ring

theorem hsum256_sum (a : List R) (h : a.length = 8) : hsum256 (ringArith R) a = a.sum := by
  match a, h with
  | [x0, x1, x2, x3, x4, x5, x6, x7], _ =>
    simp only [hsum256, hsum128, ringArith, List.sum_cons, List.sum_nil]; ring

/-! ### the six kernels -/

theorem dotScalar_eq (u v : List R) :
    dotScalar (ringArith R) u v = (List.zipWith (· * ·) u v).sum := by
  unfold dotScalar
  show List.foldl (· + ·) 0 _ = _
  rw [foldl_add_sum]; show 0 + (List.zipWith (· * ·) u v).sum = _; ring

theorem euclidScalar_eq (u v : List R) :
    euclidScalar (ringArith R) u v = (List.zipWith (fun a b => (a - b) * (a - b)) u v).sum := by
  unfold euclidScalar
  show List.foldl (· + ·) 0 _ = _
  rw [foldl_add_sum]; show 0 + (List.zipWith (fun a b => (a - b) * (a - b)) u v).sum = _; ring

theorem dotSse_eq (u v : List R) (h : u.length = v.length) :
    dotSse (ringArith R) u v = (List.zipWith (· * ·) u v).sum :=
  simd_sum 4 (by decide) _ _ _ (· * ·) (fun _ _ _ => rfl) hsum128_sum (fun _ _ _ => rfl) u v h

theorem euclidSse_eq (u v : List R) (h : u.length = v.length) :
    euclidSse (ringArith R) u v = (List.zipWith (fun a b => (a - b) * (a - b)) u v).sum :=
  simd_sum 4 (by decide) _ _ _ (fun a b => (a - b) * (a - b)) (fun _ _ _ => rfl) hsum128_sum
    (fun _ _ _ => rfl) u v h

theorem dotAvx_eq (u v : List R) (h : u.length = v.length) :
    dotAvx (ringArith R) u v = (List.zipWith (· * ·) u v).sum :=
  simd_sum 8 (by decide) _ _ _ (· * ·) (fun _ _ _ => rfl) hsum256_sum (fun _ _ _ => rfl) u v h

theorem euclidAvx_eq (u v : List R) (h : u.length = v.length) :
    euclidAvx (ringArith R) u v = (List.zipWith (fun a b => (a - b) * (a - b)) u v).sum :=
  simd_sum 8 (by decide) _ _ _ (fun a b => (a - b) * (a - b)) (fun _ _ _ => rfl) hsum256_sum
    (fun _ _ _ => rfl) u v h

end KernelCover
end Arroy
