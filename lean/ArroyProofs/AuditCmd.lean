import Lean
/-! `#audit Ns` lists, for every theorem whose name starts with `Ns`, the axioms it depends on. -/
open Lean Elab Command

elab "#audit " pfx:ident : command => do
  let env ← getEnv
  let p := pfx.getId.toString ++ "."
  let mut n : Nat := 0
  for (name, info) in env.constants.toList do
    let s := name.toString
    if s.startsWith p && !name.isInternal && !(s.splitOn "._").length > 1 then
      if let .thmInfo _ := info then
        let axs ← liftCoreM (Lean.collectAxioms name)
        logInfo m!"AUDIT {name} {axs.toList}"
        n := n + 1
  logInfo m!"AUDIT-COUNT {n}"
