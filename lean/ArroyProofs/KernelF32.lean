import ArroyProofs.KernelLemmas
import ArroyProofs.SoftFloatSymm
import ArroyModel.Distance
/-! Facts about the kernels on the soft-float binary32 instance `f32Arith` (core Lean only):
bit-for-bit symmetry of every kernel, and the self distance of finite vectors. -/
namespace Arroy
namespace KernelF32
open Kernel

theorem f32_p : 1 ≤ F32.fmt.p := by decide

theorem dotScalar_symm (u v : List Nat) : dotScalar f32Arith u v = dotScalar f32Arith v u := by
  unfold dotScalar
  rw [zipWith_swap f32Arith.mul (fun a b => SF.mul_comm F32.fmt a b)]

theorem euclidScalar_symm (u v : List Nat) : euclidScalar f32Arith u v = euclidScalar f32Arith v u := by
  unfold euclidScalar
  rw [zipWith_swap (fun a b => f32Arith.mul (f32Arith.sub a b) (f32Arith.sub a b))
    (fun a b => SF.sub_sq_symm F32.fmt f32_p a b)]

theorem dotSse_symm (u v : List Nat) (h : u.length = v.length) :
    dotSse f32Arith u v = dotSse f32Arith v u :=
  simd_swap _ _ _ _ _ (fun a b c => congrArg (fun x => F32.add x c) (SF.mul_comm F32.fmt a b))
    (fun r a b => congrArg (fun x => F32.add r x) (SF.mul_comm F32.fmt a b)) u v h

theorem dotAvx_symm (u v : List Nat) (h : u.length = v.length) :
    dotAvx f32Arith u v = dotAvx f32Arith v u :=
  simd_swap _ _ _ _ _ (fun a b c => SF.fma_comm F32.fmt a b c)
    (fun r a b => congrArg (fun x => F32.add r x) (SF.mul_comm F32.fmt a b)) u v h

theorem euclidSse_symm (u v : List Nat) (h : u.length = v.length) :
    euclidSse f32Arith u v = euclidSse f32Arith v u :=
  simd_swap _ _ _ _ _ (fun a b c => congrArg (fun x => F32.add x c) (SF.sub_sq_symm F32.fmt f32_p a b))
    (fun r a b => congrArg (fun x => F32.add r x) (SF.sub_sq_symm F32.fmt f32_p a b)) u v h

theorem euclidAvx_symm (u v : List Nat) (h : u.length = v.length) :
    euclidAvx f32Arith u v = euclidAvx f32Arith v u :=
  simd_swap _ _ _ _ _ (fun a b c => SF.sub_fma_symm F32.fmt f32_p a b c)
    (fun r a b => congrArg (fun x => F32.add r x) (SF.sub_sq_symm F32.fmt f32_p a b)) u v h

theorem hamming_symm (u v : List Nat) : BQ.hamming u v = BQ.hamming v u := by
  unfold BQ.hamming
  rw [zipWith_swap (fun a b => BQ.popcount Generated.quantizedWordBits (a ^^^ b))
    (fun a b => by rw [Nat.xor_comm])]

theorem bqDot_symm (u v : List Nat) : BQ.dot u v = BQ.dot v u := by
  unfold BQ.dot
  rw [hamming_symm u v, Nat.min_comm]

/-- neither NaN nor infinite (exponent field ≠ 255, see `SF.isFin_iff`) -/
def finite (x : Nat) : Bool := SF.isFin F32.fmt x

theorem sub_self (x : Nat) (hx : finite x = true) : F32.sub x x = 0 := SF.sub_self F32.fmt x hx

theorem sq_self (x : Nat) (hx : finite x = true) : F32.mul (F32.sub x x) (F32.sub x x) = 0 := by
  rw [sub_self x hx]; decide

theorem foldl_add_zeros : ∀ (l : List Nat), (∀ x ∈ l, x = 0) → l.foldl F32.add 0 = 0 := by
  intro l
  induction l with
  | nil => intro _; rfl
  | cons x xs ih =>
    intro h
    rw [List.foldl_cons, h x (by simp), show F32.add 0 0 = 0 by decide]
    exact ih (fun y hy => h y (by simp [hy]))

/-- `Sum for f32` starts from `-0.0`; a non-empty sum of `+0.0` terms is `+0.0` -/
theorem sum_zeros (l : List Nat) (hne : l ≠ []) (h : ∀ x ∈ l, x = 0) : l.foldl F32.add F32.negZero = 0 := by
  cases l with
  | nil => exact absurd rfl hne
  | cons x xs =>
    rw [List.foldl_cons, h x (by simp), show F32.add F32.negZero 0 = 0 by decide]
    exact foldl_add_zeros xs (fun y hy => h y (by simp [hy]))

theorem euclidScalar_self (v : List Nat) (hne : v ≠ []) (hfin : ∀ x ∈ v, finite x = true) :
    euclidScalar f32Arith v v = 0 := by
  unfold euclidScalar
  rw [zipWith_self]
  apply sum_zeros
  · simpa using hne
  · intro x hx
    obtain ⟨a, ha, rfl⟩ := List.mem_map.mp hx
    exact sq_self a (hfin a ha)

theorem euclidSse_self (v : List Nat) (hfin : ∀ x ∈ v, finite x = true) : euclidSse f32Arith v v = 0 := by
  apply simd_fix f32Arith 4 (by decide)
  · intro a ha; show F32.add (F32.mul (F32.sub a a) (F32.sub a a)) 0 = 0
    rw [sq_self a (hfin a ha)]; decide
  · decide
  · decide
  · intro a ha; show F32.add 0 (F32.mul (F32.sub a a) (F32.sub a a)) = 0
    rw [sq_self a (hfin a ha)]; decide

theorem euclidAvx_self (v : List Nat) (hfin : ∀ x ∈ v, finite x = true) : euclidAvx f32Arith v v = 0 := by
  apply simd_fix f32Arith 8 (by decide)
  · intro a ha; show F32.fma (F32.sub a a) (F32.sub a a) 0 = 0
    rw [sub_self a (hfin a ha)]; decide
  · decide
  · decide
  · intro a ha; show F32.add 0 (F32.mul (F32.sub a a) (F32.sub a a)) = 0
    rw [sq_self a (hfin a ha)]; decide


theorem manhattan_self (v : List Nat) (hne : v ≠ []) (hfin : ∀ x ∈ v, finite x = true) :
    manhattanDistance v v = 0 := by
  unfold manhattanDistance manhattanWith
  rw [zipWith_self]
  apply sum_zeros
  · simpa using hne
  · intro x hx
    obtain ⟨a, ha, rfl⟩ := List.mem_map.mp hx
    show F32.abs (F32.sub a a) = 0
    rw [sub_self a (hfin a ha)]; decide

end KernelF32
end Arroy
