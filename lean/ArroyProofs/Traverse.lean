import ArroyProofs.Forest
import ArroyProofs.ReaderSets
/-! The traversal loop of `nns_by_leaf`: what it collects when the budget does not stop it
(`traverse_collects`, `traverse_unlimited`), that everything it collects passes the filter, and that
the candidate list for a smaller budget is a prefix of the one for a larger budget. -/
namespace Arroy
open Generated Reader

namespace Reader

/-- the ids a bucket contributes under the filter of `q` -/
def filt (q : QueryOpts) (ids : List Nat) : List Nat :=
  match q.candidates with | some cs => IdSet.inter ids cs | none => ids

theorem traverse_desc_eq (q : QueryOpts) (ids : List Nat) :
    (match q.candidates with | some cs => IdSet.inter ids cs | none => ids) = filt q ids := rfl

/-- `popMax` on a queue that is the image of a list of richer entries: it pops the image of one of
them and leaves the image of the others -/
theorem popMax_map {α : Type} (f : α → Nat × NodeId) : ∀ (l : List α),
    (l = [] ∧ popMax (l.map f) = none) ∨
    ∃ a l', popMax (l.map f) = some (f a, l'.map f) ∧ l.Perm (a :: l')
  | [] => Or.inl ⟨rfl, rfl⟩
  | x :: xs => by
    right
    rcases popMax_map f xs with ⟨rfl, _⟩ | ⟨a, l', hp, hperm⟩
    · exact ⟨x, [], rfl, List.Perm.refl _⟩
    · simp only [List.map_cons, popMax, hp]
      split
      · exact ⟨x, a :: l', rfl, List.Perm.cons x hperm⟩
      · exact ⟨a, x :: l', rfl, (List.Perm.cons x hperm).trans (List.Perm.swap a x l')⟩

end Reader

/-- what the traversal appends to `nns` for the subtree `t` once all of it has been popped -/
def T.collect (q : QueryOpts) : T → List Nat
  | .leaf i => if inCandidates q i then [i] else []
  | .bucket _ ids => filt q ids
  | .node _ _ l r => l.collect q ++ r.collect q

namespace Reader

theorem filt_length_le (q : QueryOpts) (ids : List Nat) : (filt q ids).length ≤ ids.length := by
  unfold filt; split
  · exact IdSet.length_inter_leR _ _
  · exact Nat.le_refl _

theorem collect_length_le (q : QueryOpts) (t : T) : (t.collect q).length ≤ t.items.length := by
  induction t with
  | leaf i => simp only [T.collect, T.items]; split <;> simp
  | bucket id ids => exact filt_length_le q ids
  | node id n l r ihl ihr => simp only [T.collect, T.items, List.length_append]; omega

/-- everything collected is reachable and passes the filter -/
theorem mem_collect_sub (q : QueryOpts) (t : T) (x : Nat) (h : x ∈ t.collect q) :
    x ∈ t.items ∧ inCandidates q x = true := by
  induction t with
  | leaf i =>
    simp only [T.collect] at h
    split at h
    · simp at h; subst h; simp [T.items, *]
    · simp at h
  | bucket id ids =>
    simp only [T.collect, filt] at h
    unfold inCandidates
    cases hc : q.candidates with
    | some cs =>
      rw [hc] at h
      have := IdSet.mem_inter_sub _ _ _ h
      simp [T.items, this.1, this.2]
    | none =>
      rw [hc] at h
      simp [T.items, h]
  | node id n l r ihl ihr =>
    simp only [T.collect, List.mem_append] at h
    rcases h with h | h
    · have := ihl h; simp [T.items, this.1, this.2]
    · have := ihr h; simp [T.items, this.1, this.2]

/-- buckets of a tree strictly increasing -/
def BucketsSorted (t : T) : Prop := ∀ b ∈ t.buckets, IdSet.Sorted b.2

theorem bucketsSorted_of_descSorted {c : Cfg} {s : Store} (hd : DescSorted c s) (t : T) (h : Holds c s t) :
    BucketsSorted t := by
  induction t with
  | leaf i => intro b hb; simp [T.buckets] at hb
  | bucket id ids =>
    intro b hb
    simp only [T.buckets, List.mem_singleton] at hb
    subst hb
    exact hd id ids h.bucket
  | node id n l r ihl ihr =>
    intro b hb
    simp only [T.buckets, List.mem_append] at hb
    rcases hb with hb | hb
    · exact ihl h.left b hb
    · exact ihr h.right b hb

/-- with sorted buckets and a sorted filter, exactly the reachable items inside the filter are collected -/
theorem mem_collect (q : QueryOpts) (t : T) (hb : BucketsSorted t)
    (hc : ∀ cs, q.candidates = some cs → IdSet.Sorted cs) (x : Nat) :
    x ∈ t.collect q ↔ (x ∈ t.items ∧ inCandidates q x = true) := by
  refine ⟨mem_collect_sub q t x, ?_⟩
  induction t with
  | leaf i =>
    rintro ⟨h1, h2⟩
    simp only [T.items, List.mem_singleton] at h1
    subst h1
    simp [T.collect, h2]
  | bucket id ids =>
    rintro ⟨h1, h2⟩
    simp only [T.items] at h1
    simp only [T.collect, filt]
    unfold inCandidates at h2
    split
    · rename_i cs hcs
      rw [hcs] at h2
      simp only [List.contains_eq_mem, decide_eq_true_eq] at h2
      have hs := hb (id, ids) (by simp [T.buckets])
      exact (IdSet.mem_interR _ _ hs.pairwise (hc cs hcs).pairwise x).2 ⟨h1, h2⟩
    · exact h1
  | node id n l r ihl ihr =>
    rintro ⟨h1, h2⟩
    simp only [T.items, List.mem_append] at h1
    simp only [T.collect, List.mem_append]
    have hbl : BucketsSorted l := fun b hb' => hb b (by simp [T.buckets, hb'])
    have hbr : BucketsSorted r := fun b hb' => hb b (by simp [T.buckets, hb'])
    rcases h1 with h1 | h1
    · exact Or.inl (ihl hbl ⟨h1, h2⟩)
    · exact Or.inr (ihr hbr ⟨h1, h2⟩)

/-- without a filter everything reachable is collected, with no hypothesis -/
theorem collect_none (q : QueryOpts) (hq : q.candidates = none) (t : T) : t.collect q = t.items := by
  induction t with
  | leaf i => simp [T.collect, T.items, inCandidates, hq]
  | bucket id ids => simp [T.collect, T.items, filt, hq]
  | node id n l r ihl ihr => simp [T.collect, T.items, ihl, ihr]

theorem le_sum_map_of_mem {α : Type} (f : α → Nat) {l : List α} {a : α} (h : a ∈ l) : f a ≤ (l.map f).sum := by
  induction l with
  | nil => cases h
  | cons b l ih =>
    simp only [List.map_cons, List.sum_cons]
    rcases List.mem_cons.1 h with rfl | h
    · omega
    · have := ih h; omega

/-- the image of the tree queue `tq` as the model's queue -/
abbrev qOf (tq : List (Nat × T)) : List (Nat × NodeId) := tq.map fun p => (p.1, p.2.ref)

/-- general form of `traverse_collects`: started on a queue of subtrees the store holds (whose items are
stored as leaves) with `fuel` above the total size of the pending subtrees, the loop never fails, whatever
the budget; everything it returns was in `nns` or is contributed by a pending subtree; and if the budget
admits everything the pending subtrees can contribute, all of that is returned. -/
theorem traverse_collects_gen (c : Cfg) (s : Store) (qv : List Nat) (q : QueryOpts) (searchK : Nat) :
    ∀ (fuel : Nat) (tq : List (Nat × T)) (nns : List Nat),
    (∀ p ∈ tq, Holds c s p.2) →
    (∀ p ∈ tq, ∀ x ∈ p.2.items, ∃ h v, s.get (c.itemKey x) = some (.leaf h v)) →
    (tq.map (fun p => p.2.size)).sum < fuel →
    ∃ out, traverse c s qv q searchK fuel (qOf tq) nns = .ok out ∧
      (∀ x, x ∈ out → (x ∈ nns ∨ ∃ p ∈ tq, x ∈ p.2.collect q)) ∧
      (nns.length + (tq.map (fun p => (p.2.collect q).length)).sum ≤ searchK →
        ∀ x, (x ∈ nns ∨ ∃ p ∈ tq, x ∈ p.2.collect q) → x ∈ out) := by
  intro fuel
  induction fuel with
  | zero => intro tq nns _ _ hf; omega
  | succ n ih =>
    intro tq nns hh hl hf
    rw [traverse]
    by_cases hstop : nns.length ≥ searchK
    · refine ⟨nns, by simp [hstop], fun x => Or.inl, ?_⟩
      intro hk x
      rintro (h | ⟨p, hp, hx⟩)
      · exact h
      · have := le_sum_map_of_mem (fun p : Nat × T => (p.2.collect q).length) hp
        have h0 : (p.2.collect q).length = 0 := by omega
        rw [List.length_eq_zero_iff.1 h0] at hx; cases hx
    · simp only [hstop, if_false]
      rcases popMax_map (fun p : Nat × T => (p.1, p.2.ref)) tq with ⟨rfl, hp⟩ | ⟨⟨d, t⟩, tq', hp, hperm⟩
      · refine ⟨nns, by simp [qOf, popMax], fun x => Or.inl, ?_⟩
        intro _ x; simp
      · simp only [qOf, hp]
        have hmem : ∀ p, p ∈ tq ↔ p ∈ (d, t) :: tq' := fun p => hperm.mem_iff
        have hsz : (tq.map (fun p => p.2.size)).sum = t.size + (tq'.map (fun p => p.2.size)).sum := by
          rw [(hperm.map _).sum_nat]; rfl
        have hcl : (tq.map (fun p => (p.2.collect q).length)).sum =
            (t.collect q).length + (tq'.map (fun p => (p.2.collect q).length)).sum := by
          rw [(hperm.map _).sum_nat]; rfl
        have hh' : ∀ p ∈ tq', Holds c s p.2 := fun p hp' => hh p ((hmem p).2 (List.mem_cons_of_mem _ hp'))
        have hl' : ∀ p ∈ tq', ∀ x ∈ p.2.items, ∃ h v, s.get (c.itemKey x) = some (.leaf h v) :=
          fun p hp' => hl p ((hmem p).2 (List.mem_cons_of_mem _ hp'))
        have ht : Holds c s t := hh (d, t) ((hmem _).2 List.mem_cons_self)
        have hlt := hl (d, t) ((hmem _).2 List.mem_cons_self)
        cases t with
        | leaf i =>
          obtain ⟨h, v, hg⟩ := hlt i (by simp [T.items])
          have hg' : s.get ⟨c.index, (T.leaf i).ref.mode, (T.leaf i).ref.item⟩ = some (.leaf h v) := hg
          simp only [hg']
          simp only [T.size] at hsz
          simp only [T.collect] at hcl
          obtain ⟨out, ho, hm1, hm2⟩ := ih tq' (if inCandidates q i then nns ++ [i] else nns) hh' hl' (by omega)
          have hiff : ∀ x, (x ∈ (if inCandidates q i then nns ++ [i] else nns) ∨ ∃ p ∈ tq', x ∈ p.2.collect q) ↔
              (x ∈ nns ∨ ∃ p ∈ tq, x ∈ p.2.collect q) := by
            intro x
            simp only [hmem, List.mem_cons, exists_eq_or_imp, T.collect]
            split <;> simp [or_assoc]
          refine ⟨out, ho, fun x hx => (hiff x).1 (hm1 x hx), ?_⟩
          intro hk x hx
          exact hm2 (by split <;> simp_all <;> omega) x ((hiff x).2 hx)
        | bucket id ids =>
          have hg : s.get ⟨c.index, (T.bucket id ids).ref.mode, (T.bucket id ids).ref.item⟩ = some (.desc ids) :=
            ht.bucket
          simp only [hg]
          simp only [T.size] at hsz
          simp only [T.collect] at hcl
          obtain ⟨out, ho, hm1, hm2⟩ := ih tq' (nns ++ filt q ids) hh' hl' (by omega)
          have hiff : ∀ x, (x ∈ nns ++ filt q ids ∨ ∃ p ∈ tq', x ∈ p.2.collect q) ↔
              (x ∈ nns ∨ ∃ p ∈ tq, x ∈ p.2.collect q) := by
            intro x
            simp only [hmem, List.mem_cons, exists_eq_or_imp, T.collect, List.mem_append, or_assoc]
          refine ⟨out, ho, fun x hx => (hiff x).1 (hm1 x hx), ?_⟩
          intro hk x hx
          exact hm2 (by simp only [List.length_append]; omega) x ((hiff x).2 hx)
        | node id nrm l r =>
          have hg : s.get ⟨c.index, (T.node id nrm l r).ref.mode, (T.node id nrm l r).ref.item⟩ =
              some (.split l.ref r.ref nrm) := ht.root
          simp only [hg]
          simp only [T.size] at hsz
          simp only [T.collect, List.length_append] at hcl
          -- independent of how the reader computes the margin
          suffices key : ∀ margin : Nat, ∃ out,
              traverse c s qv q searchK n
                ((Metric.pqDistance d margin true, r.ref) :: (Metric.pqDistance d margin false, l.ref) ::
                  tq'.map fun p => (p.1, p.2.ref)) nns = .ok out ∧
              (∀ x, x ∈ out → (x ∈ nns ∨ ∃ p ∈ tq, x ∈ p.2.collect q)) ∧
              (nns.length + (tq.map (fun p => (p.2.collect q).length)).sum ≤ searchK →
                ∀ x, (x ∈ nns ∨ ∃ p ∈ tq, x ∈ p.2.collect q) → x ∈ out) from key _
          intro margin
          have hitems : ∀ x, x ∈ (T.node id nrm l r).items ↔ x ∈ l.items ∨ x ∈ r.items := by
            intro x; simp [T.items]
          obtain ⟨out, ho, hm1, hm2⟩ := ih ((Metric.pqDistance d margin true, r) :: (Metric.pqDistance d margin false, l) :: tq') nns
            (by
              intro p hp'
              rcases List.mem_cons.1 hp' with rfl | hp'
              · exact ht.right
              rcases List.mem_cons.1 hp' with rfl | hp'
              · exact ht.left
              · exact hh' p hp')
            (by
              intro p hp'
              rcases List.mem_cons.1 hp' with rfl | hp'
              · intro x hx; exact hlt x ((hitems x).2 (Or.inr hx))
              rcases List.mem_cons.1 hp' with rfl | hp'
              · intro x hx; exact hlt x ((hitems x).2 (Or.inl hx))
              · exact hl' p hp')
            (by simp only [List.map_cons, List.sum_cons]; omega)
          have hiff : ∀ x, (x ∈ nns ∨ ∃ p ∈ (Metric.pqDistance d margin true, r) ::
                (Metric.pqDistance d margin false, l) :: tq', x ∈ p.2.collect q) ↔
              (x ∈ nns ∨ ∃ p ∈ tq, x ∈ p.2.collect q) := by
            intro x
            simp only [hmem, List.mem_cons, exists_eq_or_imp, T.collect, List.mem_append]
            constructor
            · rintro (h | h | h | h)
              · exact Or.inl h
              · exact Or.inr (Or.inl (Or.inr h))
              · exact Or.inr (Or.inl (Or.inl h))
              · exact Or.inr (Or.inr h)
            · rintro (h | (h | h) | h)
              · exact Or.inl h
              · exact Or.inr (Or.inr (Or.inl h))
              · exact Or.inr (Or.inl h)
              · exact Or.inr (Or.inr (Or.inr h))
          refine ⟨out, ho, fun x hx => (hiff x).1 (hm1 x hx), ?_⟩
          intro hk x hx
          exact hm2 (by simp only [List.map_cons, List.sum_cons]; omega) x ((hiff x).2 hx)

/-- **`traverse_collects`**: started on a queue of subtrees the store holds (whose items are stored as
leaves), with `fuel` above the total size of the pending subtrees and a budget that admits everything
the pending subtrees can contribute, the loop succeeds and returns, as a set, `nns` plus the
contribution of every pending subtree. The order of pops does not matter. -/
theorem traverse_collects (c : Cfg) (s : Store) (qv : List Nat) (q : QueryOpts) (searchK : Nat)
    (fuel : Nat) (tq : List (Nat × T)) (nns : List Nat)
    (hh : ∀ p ∈ tq, Holds c s p.2)
    (hl : ∀ p ∈ tq, ∀ x ∈ p.2.items, ∃ h v, s.get (c.itemKey x) = some (.leaf h v))
    (hf : (tq.map (fun p => p.2.size)).sum < fuel)
    (hk : nns.length + (tq.map (fun p => (p.2.collect q).length)).sum ≤ searchK) :
    ∃ out, traverse c s qv q searchK fuel (qOf tq) nns = .ok out ∧
      ∀ x, x ∈ out ↔ (x ∈ nns ∨ ∃ p ∈ tq, x ∈ p.2.collect q) := by
  obtain ⟨out, ho, h1, h2⟩ := traverse_collects_gen c s qv q searchK fuel tq nns hh hl hf
  exact ⟨out, ho, fun x => ⟨h1 x, h2 hk x⟩⟩

/-- everything the loop returns passes the filter (no hypothesis on the store) -/
theorem traverse_inCandidates (c : Cfg) (s : Store) (qv : List Nat) (q : QueryOpts) (searchK fuel : Nat)
    (queue : List (Nat × NodeId)) (nns out : List Nat)
    (h : traverse c s qv q searchK fuel queue nns = .ok out) (h0 : ∀ x ∈ nns, inCandidates q x = true) :
    ∀ x ∈ out, inCandidates q x = true := by
  fun_induction traverse c s qv q searchK fuel queue nns generalizing out with
  | case1 => cases h
  | case2 => cases h; exact h0
  | case3 => cases h; exact h0
  | case4 => cases h
  | case5 fuel queue nns hs dist node queue' hp hdr vec hg ih =>
    apply ih out h
    intro x hx
    split at hx
    · rcases List.mem_append.1 hx with hx | hx
      · exact h0 x hx
      · simp only [List.mem_singleton] at hx; subst hx; assumption
    · exact h0 x hx
  | case6 fuel queue nns hs dist node queue' hp ids hg ih =>
    apply ih out h
    intro x hx
    rcases List.mem_append.1 hx with hx | hx
    · exact h0 x hx
    · exact (mem_collect_sub q (.bucket 0 ids) x hx).2
  | case7 => rename_i ih; exact ih out h h0
  | case8 => cases h

/-- the loop only appends -/
theorem traverse_extends (c : Cfg) (s : Store) (qv : List Nat) (q : QueryOpts) (searchK fuel : Nat)
    (queue : List (Nat × NodeId)) (nns out : List Nat)
    (h : traverse c s qv q searchK fuel queue nns = .ok out) : nns <+: out := by
  fun_induction traverse c s qv q searchK fuel queue nns generalizing out with
  | case1 => cases h
  | case2 => cases h; exact List.prefix_refl _
  | case3 => cases h; exact List.prefix_refl _
  | case4 => cases h
  | case5 fuel queue nns hs dist node queue' hp hdr vec hg ih =>
    have := ih out h
    split at this
    · exact (List.prefix_append _ _).trans this
    · exact this
  | case6 fuel queue nns hs dist node queue' hp ids hg ih =>
    exact (List.prefix_append _ _).trans (ih out h)
  | case7 => rename_i ih; exact ih out h
  | case8 => cases h

/-- **prefix lemma**: the sequence of pops does not depend on the budget. From the same state and with
the same fuel, if the loop with budget `k₂` succeeds then so does the loop with any `k₁ ≤ k₂`, and the
candidate list collected for `k₁` is a prefix of the one collected for `k₂`. -/
theorem traverse_prefix (c : Cfg) (s : Store) (qv : List Nat) (q : QueryOpts) (k₁ k₂ : Nat) (hk : k₁ ≤ k₂)
    (fuel : Nat) (queue : List (Nat × NodeId)) (nns out₂ : List Nat)
    (h : traverse c s qv q k₂ fuel queue nns = .ok out₂) :
    ∃ out₁, traverse c s qv q k₁ fuel queue nns = .ok out₁ ∧ out₁ <+: out₂ := by
  induction fuel generalizing queue nns with
  | zero => simp [traverse] at h
  | succ n ih =>
    have hext := traverse_extends c s qv q k₂ (n + 1) queue nns out₂ h
    rw [traverse] at h ⊢
    by_cases h1 : nns.length ≥ k₁
    · exact ⟨nns, by simp [h1], hext⟩
    · have h2 : ¬ nns.length ≥ k₂ := by omega
      simp only [h1, h2, if_false] at h ⊢
      split at h
      · exact ⟨nns, rfl, hext⟩
      · split at h
        · cases h
        · exact ih _ _ h
        · exact ih _ _ h
        · exact ih _ _ h
        · cases h

end Reader

namespace Store
theorem mem_keys_of_get {s : Store} {k : Key} {v : Val} (h : Store.get s k = some v) : k ∈ s.map (·.1) := by
  induction s with
  | nil => simp [Store.get] at h
  | cons kv rest ih =>
    obtain ⟨k', v'⟩ := kv
    simp only [Store.get] at h
    split at h
    · rename_i hk; subst hk; simp
    · simp only [List.map_cons, List.mem_cons]; exact Or.inr (ih h)
end Store

namespace Reader

theorem size_le_ids (t : T) : t.size ≤ 2 * t.ids.length + 1 := by
  induction t with
  | leaf i => simp [T.size]
  | bucket id ids => simp [T.size, T.ids]
  | node id n l r ihl ihr => simp only [T.size, T.ids, List.length_cons, List.length_append]; omega

theorem sum_size_le (ts : List T) : (ts.map T.size).sum ≤ 2 * (ts.flatMap T.ids).length + ts.length := by
  induction ts with
  | nil => simp
  | cons t ts ih =>
    have := size_le_ids t
    simp only [List.map_cons, List.sum_cons, List.flatMap_cons, List.length_append, List.length_cons]
    omega

/-- every node id of a held tree is a key of the store -/
theorem holds_ids_mem {c : Cfg} {s : Store} {t : T} (h : Holds c s t) (id : Nat) (hid : id ∈ t.ids) :
    c.treeKey id ∈ s.map (·.1) := by
  rw [← cells_ids] at hid
  obtain ⟨cell, hc, rfl⟩ := List.mem_map.1 hid
  exact Store.mem_keys_of_get (h cell hc)

/-- the forest has at most as many tree nodes as the store has entries -/
theorem forest_ids_le {c : Cfg} {s : Store} {ts : List T} (hh : ∀ t ∈ ts, Holds c s t)
    (hnd : (ts.flatMap T.ids).Nodup) : (ts.flatMap T.ids).length ≤ s.length := by
  have h1 : ((ts.flatMap T.ids).map c.treeKey).Nodup :=
    List.Pairwise.map c.treeKey (fun a b hab h => hab (c.treeKey_inj_of_eq h)) hnd
  have h2 := length_le_of_nodup_subset (s.map (·.1)) _ h1 (by
    intro k hk
    obtain ⟨id, hid, rfl⟩ := List.mem_map.1 hk
    obtain ⟨t, ht, hid'⟩ := List.mem_flatMap.1 hid
    exact holds_ids_mem (hh t ht) id hid')
  simpa using h2

/-- the fuel `nnsByLeaf` passes is enough: every pop consumes a distinct split node, bucket or item child -/
theorem forest_fuel {c : Cfg} {s : Store} {rd : ReaderState} {ts : List T} (F : ForestWith c s rd ts) :
    (ts.map T.size).sum < 2 * s.length + rd.roots.length + 2 := by
  have h1 := sum_size_le ts
  have h2 := forest_ids_le F.holds F.ids_nodup
  have h3 : ts.length = rd.roots.length := by
    have := congrArg List.length F.refs
    simpa using this
  omega

/-- **`traverse_unlimited`**: on a valid forest, with the fuel of the model and a budget that admits
every candidate of every tree, the traversal started by `nnsByLeaf` succeeds and collects exactly
(as a set) what the trees contribute under the filter. -/
theorem traverse_unlimited {c : Cfg} {s : Store} {rd : ReaderState} {ts : List T} (F : ForestWith c s rd ts)
    (qv : List Nat) (q : QueryOpts) (searchK : Nat)
    (hk : (ts.map (fun t => (t.collect q).length)).sum ≤ searchK) :
    ∃ nns, traverse c s qv q searchK (2 * s.length + rd.roots.length + 2)
        (rd.roots.map fun r => (F32.inf, NodeId.mkTree r)) [] = .ok nns ∧
      ∀ x, x ∈ nns ↔ ∃ t ∈ ts, x ∈ t.collect q := by
  have hq : (rd.roots.map fun r => (F32.inf, NodeId.mkTree r)) = qOf (ts.map fun t => (F32.inf, t)) := by
    have : (rd.roots.map fun r => (F32.inf, NodeId.mkTree r)) =
        (rd.roots.map NodeId.mkTree).map (fun n => (F32.inf, n)) := by simp [List.map_map]
    rw [this, ← F.refs]; simp [qOf, List.map_map]
  rw [hq]
  obtain ⟨out, ho, hm⟩ := traverse_collects c s qv q searchK (2 * s.length + rd.roots.length + 2)
    (ts.map fun t => (F32.inf, t)) []
    (by intro p hp; obtain ⟨t, ht, rfl⟩ := List.mem_map.1 hp; exact F.holds t ht)
    (by
      intro p hp x hx
      obtain ⟨t, ht, rfl⟩ := List.mem_map.1 hp
      exact F.stored x ((F.reach t ht x).1 hx))
    (by
      have := forest_fuel F
      simpa [List.map_map, Function.comp_def] using this)
    (by simpa [List.map_map, Function.comp_def] using hk)
  refine ⟨out, ho, ?_⟩
  intro x
  rw [hm x]
  constructor
  · rintro (h | ⟨p, hp, hx⟩)
    · cases h
    · obtain ⟨t, ht, rfl⟩ := List.mem_map.1 hp
      exact ⟨t, ht, hx⟩
  · rintro ⟨t, ht, hx⟩
    exact Or.inr ⟨(F32.inf, t), List.mem_map.2 ⟨t, ht, rfl⟩, hx⟩

/-- on a valid forest the traversal started by `nnsByLeaf` never fails, for any budget and filter, and
only returns reachable items that pass the filter -/
theorem traverse_total {c : Cfg} {s : Store} {rd : ReaderState} {ts : List T} (F : ForestWith c s rd ts)
    (qv : List Nat) (q : QueryOpts) (searchK : Nat) :
    ∃ nns, traverse c s qv q searchK (2 * s.length + rd.roots.length + 2)
        (rd.roots.map fun r => (F32.inf, NodeId.mkTree r)) [] = .ok nns ∧
      ∀ x ∈ nns, x ∈ rd.items ∧ inCandidates q x = true := by
  have hq : (rd.roots.map fun r => (F32.inf, NodeId.mkTree r)) = qOf (ts.map fun t => (F32.inf, t)) := by
    have : (rd.roots.map fun r => (F32.inf, NodeId.mkTree r)) =
        (rd.roots.map NodeId.mkTree).map (fun n => (F32.inf, n)) := by simp [List.map_map]
    rw [this, ← F.refs]; simp [qOf, List.map_map]
  rw [hq]
  obtain ⟨out, ho, hm, _⟩ := traverse_collects_gen c s qv q searchK (2 * s.length + rd.roots.length + 2)
    (ts.map fun t => (F32.inf, t)) []
    (by intro p hp; obtain ⟨t, ht, rfl⟩ := List.mem_map.1 hp; exact F.holds t ht)
    (by
      intro p hp x hx
      obtain ⟨t, ht, rfl⟩ := List.mem_map.1 hp
      exact F.stored x ((F.reach t ht x).1 hx))
    (by
      have := forest_fuel F
      simpa [List.map_map, Function.comp_def] using this)
  refine ⟨out, ho, ?_⟩
  intro x hx
  rcases hm x hx with h | ⟨p, hp, hx⟩
  · cases h
  · obtain ⟨t, ht, rfl⟩ := List.mem_map.1 hp
    have := mem_collect_sub q t x hx
    exact ⟨(F.reach t ht x).1 this.1, this.2⟩

/-- the total number of candidates of a valid forest is at most trees × items -/
theorem forest_candidates_le {c : Cfg} {s : Store} {rd : ReaderState} {ts : List T} (F : ForestWith c s rd ts)
    (q : QueryOpts) : (ts.map (fun t => (t.collect q).length)).sum ≤ rd.roots.length * rd.items.length := by
  have h3 : ts.length = rd.roots.length := by
    have := congrArg List.length F.refs
    simpa using this
  rw [← h3]
  have key : ∀ (l : List T), (∀ t ∈ l, t ∈ ts) →
      (l.map (fun t => (t.collect q).length)).sum ≤ l.length * rd.items.length := by
    intro l
    induction l with
    | nil => simp
    | cons t l ih =>
      intro hsub
      have ht : t ∈ ts := hsub t List.mem_cons_self
      have h1 := collect_length_le q t
      have h2 : t.items.length = rd.items.length :=
        ((List.perm_ext_iff_of_nodup (F.items_nodup t ht) F.sorted.nodup).2 (F.reach t ht)).length_eq
      have := ih (fun t' ht' => hsub t' (List.mem_cons_of_mem _ ht'))
      simp only [List.map_cons, List.sum_cons, List.length_cons, Nat.add_mul, Nat.one_mul]
      omega
  exact key ts (fun _ h => h)

end Reader
end Arroy
