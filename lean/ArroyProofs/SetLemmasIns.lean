import ArroyProofs.SetLemmas
/-! Set lemmas needed by the insert / make-tree proofs: membership and sortedness of
`IdSet.union`, `Sorted → Nodup`, `Sorted` of sublists, length of a union. -/
namespace Arroy
namespace IdSet

theorem length_le_union (a b : List Nat) : a.length ≤ (union a b).length := by
  fun_induction union a b with
  | case1 b => simp
  | case2 a h => simp
  | case3 x xs y ys hlt ih => simp only [List.length_cons]; omega
  | case4 x xs y ys hnlt hlt ih => simp only [List.length_cons] at ih ⊢; omega
  | case5 x xs y ys hnlt hnlt' ih => simp only [List.length_cons]; omega

/-- a union that is not longer than its left operand adds nothing -/
theorem subset_of_length_union_eq (a b : List Nat) (h : (union a b).length = a.length) :
    ∀ x ∈ b, x ∈ a := by
  fun_induction union a b with
  | case1 b =>
    have : b = [] := List.eq_nil_of_length_eq_zero (by simpa using h)
    subst this; simp
  | case2 a h' => simp
  | case3 x xs y ys hlt ih =>
    simp only [List.length_cons, Nat.add_right_cancel_iff] at h
    intro z hz
    exact List.mem_cons_of_mem _ (ih h z hz)
  | case4 x xs y ys hnlt hlt ih =>
    have := length_le_union (x :: xs) ys
    simp only [List.length_cons] at h this
    omega
  | case5 x xs y ys hnlt hnlt' ih =>
    have : x = y := by omega
    subst this
    simp only [List.length_cons, Nat.add_right_cancel_iff] at h
    intro z hz
    rcases List.mem_cons.1 hz with rfl | hz
    · exact List.mem_cons_self
    · exact List.mem_cons_of_mem _ (ih h z hz)

end IdSet
end Arroy
