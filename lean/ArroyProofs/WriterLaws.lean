import ArroyProofs.StoreLaws
import ArroyModel.Writer
/-! Laws of the item-level `Writer` operations in terms of `Store.get`; preservation of `Sorted` / `WF`.
Shared by C05, C06, C19. -/
namespace Arroy
open Generated

namespace Cfg

theorem itemKey_wf (c : Cfg) (id : Nat) (hi : c.index < 65536) (hid : id < 4294967296) : (c.itemKey id).wf := by
  refine ⟨hi, ?_, hid⟩
  show modeItem < 256; decide

theorem updatedKey_wf (c : Cfg) (id : Nat) (hi : c.index < 65536) (hid : id < 4294967296) :
    (c.updatedKey id).wf := by
  refine ⟨hi, ?_, hid⟩
  show modeUpdated < 256; decide

theorem metaKey_wf (c : Cfg) (hi : c.index < 65536) : c.metaKey.wf := by
  refine ⟨hi, ?_, ?_⟩
  · show metadataKeyMode < 256; decide
  · show metadataKeyItem < 256^4; decide

theorem itemKey_eq_iff (c c' : Cfg) (id id' : Nat) :
    c'.itemKey id' = c.itemKey id ↔ c'.index = c.index ∧ id' = id := by
  simp [itemKey, Key.mkItem]

theorem updatedKey_eq_iff (c c' : Cfg) (id id' : Nat) :
    c'.updatedKey id' = c.updatedKey id ↔ c'.index = c.index ∧ id' = id := by
  simp [updatedKey, Key.mkUpdated]

theorem itemKey_ne_updatedKey (c c' : Cfg) (id id' : Nat) : c'.itemKey id' ≠ c.updatedKey id := by
  intro h
  have : modeItem = modeUpdated := congrArg Key.mode h
  exact absurd this (by decide)

theorem metaKey_ne_itemKey (c c' : Cfg) (id : Nat) : c'.metaKey ≠ c.itemKey id := by
  intro h
  have : metadataKeyMode = modeItem := congrArg Key.mode h
  exact absurd this (by decide)

theorem metaKey_ne_updatedKey (c c' : Cfg) (id : Nat) : c'.metaKey ≠ c.updatedKey id := by
  intro h
  have : metadataKeyMode = modeUpdated := congrArg Key.mode h
  exact absurd this (by decide)

end Cfg

namespace Writer

/-! ### `addItem` -/

theorem addItem_ok_iff (c : Cfg) (s : Store) (id : Nat) (vec : List Nat) :
    (∃ s', addItem c s id vec = .ok s') ↔ vec.length = c.dims := by
  unfold addItem
  by_cases h : vec.length = c.dims <;> simp [h]

theorem addItem_ok {c : Cfg} {s s' : Store} {id : Nat} {vec : List Nat} (h : addItem c s id vec = .ok s') :
    vec.length = c.dims ∧ s' = (s.put (c.itemKey id) (c.mkLeaf vec)).put (c.updatedKey id) .unit := by
  unfold addItem at h
  by_cases hl : vec.length = c.dims
  · simp [hl] at h; exact ⟨hl, h.symm⟩
  · simp [hl] at h

theorem addItem_of_len {c : Cfg} (s : Store) (id : Nat) {vec : List Nat} (h : vec.length = c.dims) :
    addItem c s id vec = .ok ((s.put (c.itemKey id) (c.mkLeaf vec)).put (c.updatedKey id) .unit) := by
  unfold addItem; simp [h]

theorem addItem_err {c : Cfg} (s : Store) (id : Nat) {vec : List Nat} (h : vec.length ≠ c.dims) :
    addItem c s id vec = .error (.invalidDim c.dims vec.length) := by
  unfold addItem; simp [h]

theorem get_addItem {c : Cfg} {s s' : Store} {id : Nat} {vec : List Nat} (h : addItem c s id vec = .ok s')
    (k : Key) : Store.get s' k =
      if k = c.updatedKey id then some .unit else if k = c.itemKey id then some (c.mkLeaf vec)
      else Store.get s k := by
  rw [(addItem_ok h).2, Store.get_put, Store.get_put]

theorem mem_addItem {c : Cfg} {s s' : Store} {id : Nat} {vec : List Nat} (h : addItem c s id vec = .ok s')
    {x : Key × Val} (hx : x ∈ s') : x = (c.updatedKey id, .unit) ∨ x = (c.itemKey id, c.mkLeaf vec) ∨ x ∈ s := by
  rw [(addItem_ok h).2] at hx
  rcases Store.mem_put hx with e | hx
  · exact Or.inl e
  · exact Or.inr (Store.mem_put hx)

theorem addItem_sorted {c : Cfg} {s s' : Store} {id : Nat} {vec : List Nat} (h : addItem c s id vec = .ok s')
    (hs : Store.Sorted s) : Store.Sorted s' := by
  rw [(addItem_ok h).2]; exact Store.put_sorted (Store.put_sorted hs _ _) _ _

theorem addItem_wf {c : Cfg} {s s' : Store} {id : Nat} {vec : List Nat} (h : addItem c s id vec = .ok s')
    (hw : Store.WF s) (hi : c.index < 65536) (hid : id < 4294967296) : Store.WF s' := by
  rw [(addItem_ok h).2]
  exact Store.put_wf (Store.put_wf hw (c.itemKey_wf id hi hid) _) (c.updatedKey_wf id hi hid) _

/-! ### `appendItem` -/

theorem appendItem_err_dim {c : Cfg} (s : Store) (id : Nat) {vec : List Nat} (h : vec.length ≠ c.dims) :
    appendItem c s id vec = .error (.invalidDim c.dims vec.length) := by
  unfold appendItem; simp [h]

/-- with the right length, `appendItem` is decided by `putAppend` -/
theorem appendItem_none {c : Cfg} {s : Store} {id : Nat} {vec : List Nat} (h : vec.length = c.dims)
    (hp : s.putAppend (c.itemKey id) (c.mkLeaf vec) = none) :
    appendItem c s id vec = .error .invalidAppend := by
  unfold appendItem; simp [h, hp]

theorem appendItem_some {c : Cfg} {s s1 : Store} {id : Nat} {vec : List Nat} (h : vec.length = c.dims)
    (hp : s.putAppend (c.itemKey id) (c.mkLeaf vec) = some s1) :
    appendItem c s id vec = .ok (s1.put (c.updatedKey id) .unit) := by
  unfold appendItem; simp [h, hp]

/-- a successful append is literally an add -/
theorem appendItem_ok_eq_addItem {c : Cfg} {s s' : Store} {id : Nat} {vec : List Nat}
    (hs : Store.Sorted s) (h : appendItem c s id vec = .ok s') : addItem c s id vec = .ok s' := by
  by_cases hl : vec.length = c.dims
  · rw [addItem_of_len s id hl]
    cases hp : s.putAppend (c.itemKey id) (c.mkLeaf vec) with
    | none => rw [appendItem_none hl hp] at h; cases h
    | some s1 =>
      rw [appendItem_some hl hp] at h
      simp only [Except.ok.injEq] at h
      rw [← h, Store.putAppend_eq_put hs hp]
  · rw [appendItem_err_dim s id hl] at h; cases h

/-! ### `delItem` -/

theorem delItem_present {c : Cfg} {s : Store} {id : Nat} (h : (Store.get s (c.itemKey id)).isSome = true) :
    delItem c s id = ((s.erase (c.itemKey id)).put (c.updatedKey id) .unit, true) := by
  unfold delItem Store.delete Store.contains
  simp [h]

theorem delItem_absent {c : Cfg} {s : Store} {id : Nat} (h : Store.get s (c.itemKey id) = none) :
    delItem c s id = (s, false) := by
  unfold delItem
  rw [Store.delete_absent s _ h]
  simp

theorem delItem_snd (c : Cfg) (s : Store) (id : Nat) :
    (delItem c s id).2 = (Store.get s (c.itemKey id)).isSome := by
  cases h : Store.get s (c.itemKey id) with
  | none => rw [delItem_absent h]; rfl
  | some v => rw [delItem_present (by simp [h])]; rfl

theorem get_delItem (c : Cfg) (s : Store) (id : Nat) (k : Key) :
    Store.get (delItem c s id).1 k =
      if k = c.updatedKey id ∧ (Store.get s (c.itemKey id)).isSome = true then some .unit
      else if k = c.itemKey id then none else Store.get s k := by
  cases h : Store.get s (c.itemKey id) with
  | none =>
    rw [delItem_absent h]
    by_cases hk : k = c.itemKey id
    · subst hk; simp [h]
    · simp [hk]
  | some v =>
    rw [delItem_present (by simp [h])]
    simp only [Store.get_put, Store.get_erase, Option.isSome_some, and_true]

theorem mem_delItem {c : Cfg} {s : Store} {id : Nat} {x : Key × Val} (hx : x ∈ (delItem c s id).1) :
    x = (c.updatedKey id, .unit) ∨ x ∈ s := by
  cases h : Store.get s (c.itemKey id) with
  | none => rw [delItem_absent h] at hx; exact Or.inr hx
  | some v =>
    rw [delItem_present (by simp [h])] at hx
    rcases Store.mem_put hx with e | hx
    · exact Or.inl e
    · exact Or.inr (List.mem_filter.1 hx).1

theorem delItem_sorted {c : Cfg} {s : Store} (id : Nat) (hs : Store.Sorted s) :
    Store.Sorted (delItem c s id).1 := by
  cases h : Store.get s (c.itemKey id) with
  | none => rw [delItem_absent h]; exact hs
  | some v =>
    rw [delItem_present (by simp [h])]
    exact Store.put_sorted (Store.erase_sorted hs _) _ _

theorem delItem_wf {c : Cfg} {s : Store} (id : Nat) (hw : Store.WF s) (hi : c.index < 65536)
    (hid : id < 4294967296) : Store.WF (delItem c s id).1 := by
  cases h : Store.get s (c.itemKey id) with
  | none => rw [delItem_absent h]; exact hw
  | some v =>
    rw [delItem_present (by simp [h])]
    exact Store.put_wf (Store.erase_wf hw _) (c.updatedKey_wf id hi hid) _

/-! ### `clear` -/

theorem get_clear_same (c : Cfg) (s : Store) (k : Key) (h : k.index = c.index) :
    Store.get (clear c s) k = none := by
  unfold clear
  rw [Store.get_deletePrefix, ← h, Store.isPrefix_index_self]; rfl

theorem get_clear_other (c : Cfg) (s : Store) (k : Key) (hk : k.wf) (hi : c.index < 65536)
    (h : k.index ≠ c.index) : Store.get (clear c s) k = Store.get s k := by
  unfold clear
  rw [Store.get_deletePrefix]
  have : ¬ isPrefixOf (encodePrefix c.index none) (encodeKey k) = true := by
    rw [Store.isPrefix_index_iff c.index k hk hi]; exact h
  simp [this]

theorem clear_sorted {c : Cfg} {s : Store} (hs : Store.Sorted s) : Store.Sorted (clear c s) :=
  Store.deletePrefix_sorted hs _ _

theorem clear_wf {c : Cfg} {s : Store} (hw : Store.WF s) : Store.WF (clear c s) :=
  Store.deletePrefix_wf hw _ _

theorem mem_clear {c : Cfg} {s : Store} {x : Key × Val} (hx : x ∈ clear c s) : x ∈ s :=
  (List.mem_filter.1 hx).1

/-! ### `needBuild` -/

/-- one direction needs nothing: a present mark or a missing metadata demands a build -/
theorem needBuild_of_mark {c : Cfg} {s : Store} {id : Nat} (h : (Store.get s (c.updatedKey id)).isSome = true) :
    needBuild c s = true := by
  unfold needBuild
  have := Store.prefixIter_ne_nil_of_get h
  have e : (c.updatedKey id).index = c.index := rfl
  have e2 : (c.updatedKey id).mode = modeUpdated := rfl
  rw [e, e2] at this
  cases hp : Store.prefixIter s c.index (some modeUpdated) with
  | nil => exact absurd hp this
  | cons a r => simp

theorem needBuild_of_noMeta {c : Cfg} {s : Store} (h : Store.get s c.metaKey = none) : needBuild c s = true := by
  unfold needBuild; simp [h]

theorem marks_isEmpty_iff {c : Cfg} {s : Store} (hw : Store.WF s) (hi : c.index < 65536) :
    (s.prefixIter c.index (some modeUpdated)).isEmpty = true ↔ ∀ id, Store.get s (c.updatedKey id) = none := by
  rw [List.isEmpty_iff]
  exact Store.prefixIter_eq_nil_iff hw c.index modeUpdated hi (by decide)

/-- `need_build` and `Reader::open` only look at the metadata entry and the updated marks of their index -/
theorem needBuild_congr {c : Cfg} {s s' : Store}
    (hm : s'.prefixIter c.index (some modeUpdated) = s.prefixIter c.index (some modeUpdated))
    (hg : Store.get s' c.metaKey = Store.get s c.metaKey) : needBuild c s' = needBuild c s := by
  unfold needBuild; rw [hm, hg]

theorem open_congr {c : Cfg} {s s' : Store}
    (hm : s'.prefixIter c.index (some modeUpdated) = s.prefixIter c.index (some modeUpdated))
    (hg : Store.get s' c.metaKey = Store.get s c.metaKey) : Reader.open c s' = Reader.open c s := by
  unfold Reader.open; rw [hm, hg]

/-- a key of another index is not under the marks prefix -/
theorem not_marks_prefix_of_index {c' : Cfg} {k : Key} (hk : k.wf) (hi' : c'.index < 65536)
    (hne : k.index ≠ c'.index) :
    isPrefixOf (encodePrefix c'.index (some modeUpdated)) (encodeKey k) = false := by
  cases h : isPrefixOf (encodePrefix c'.index (some modeUpdated)) (encodeKey k) with
  | false => rfl
  | true => exact absurd ((Store.isPrefix_index_mode_iff _ _ k hk hi' (by decide)).1 h).1 hne

/-- an item key is never under a marks prefix -/
theorem not_marks_prefix_itemKey (c c' : Cfg) (id : Nat) (hi : c.index < 65536) (hid : id < 4294967296)
    (hi' : c'.index < 65536) :
    isPrefixOf (encodePrefix c'.index (some modeUpdated)) (encodeKey (c.itemKey id)) = false := by
  cases h : isPrefixOf (encodePrefix c'.index (some modeUpdated)) (encodeKey (c.itemKey id)) with
  | false => rfl
  | true =>
    have := ((Store.isPrefix_index_mode_iff _ _ _ (c.itemKey_wf id hi hid) hi' (by decide)).1 h).2
    have : modeItem = modeUpdated := this
    exact absurd this (by decide)

/-- the operations of index `c` leave marks and metadata of another index `c'` as they were -/
theorem frame_addItem {c c' : Cfg} {s s' : Store} {id : Nat} {vec : List Nat}
    (h : addItem c s id vec = .ok s') (hi : c.index < 65536) (hid : id < 4294967296) (hi' : c'.index < 65536)
    (hne : c.index ≠ c'.index) :
    s'.prefixIter c'.index (some modeUpdated) = s.prefixIter c'.index (some modeUpdated) ∧
    Store.get s' c'.metaKey = Store.get s c'.metaKey := by
  constructor
  · rw [(addItem_ok h).2,
      Store.prefixIter_put_other _ _ _ _ _ (not_marks_prefix_of_index (c.updatedKey_wf id hi hid) hi' hne),
      Store.prefixIter_put_other _ _ _ _ _ (not_marks_prefix_of_index (c.itemKey_wf id hi hid) hi' hne)]
  · rw [get_addItem h, if_neg (Cfg.metaKey_ne_updatedKey c c' id), if_neg (Cfg.metaKey_ne_itemKey c c' id)]

theorem frame_delItem {c c' : Cfg} (s : Store) (id : Nat)
    (hi : c.index < 65536) (hid : id < 4294967296) (hi' : c'.index < 65536) (hne : c.index ≠ c'.index) :
    (delItem c s id).1.prefixIter c'.index (some modeUpdated) = s.prefixIter c'.index (some modeUpdated) ∧
    Store.get (delItem c s id).1 c'.metaKey = Store.get s c'.metaKey := by
  constructor
  · cases hg : Store.get s (c.itemKey id) with
    | none => rw [delItem_absent hg]
    | some v =>
      rw [delItem_present (by simp [hg]),
        Store.prefixIter_put_other _ _ _ _ _ (not_marks_prefix_of_index (c.updatedKey_wf id hi hid) hi' hne),
        Store.prefixIter_erase_other _ _ _ _ (not_marks_prefix_of_index (c.itemKey_wf id hi hid) hi' hne)]
  · rw [get_delItem, if_neg (fun h => Cfg.metaKey_ne_updatedKey c c' id h.1),
      if_neg (Cfg.metaKey_ne_itemKey c c' id)]

theorem frame_clear {c c' : Cfg} {s : Store} (hw : Store.WF s)
    (hi : c.index < 65536) (hi' : c'.index < 65536) (hne : c.index ≠ c'.index) :
    (clear c s).prefixIter c'.index (some modeUpdated) = s.prefixIter c'.index (some modeUpdated) ∧
    Store.get (clear c s) c'.metaKey = Store.get s c'.metaKey := by
  constructor
  · exact Store.prefixIter_deletePrefix_other hw _ _ _ hi' hi (by decide) (Ne.symm hne)
  · exact get_clear_other c s _ (c'.metaKey_wf hi') hi (Ne.symm hne)

end Writer
end Arroy
