import ArroyProofs.Properties.C03
import ArroyProofs.F32Nonneg
/-! C03 (continued) — the distances REPORTED by a successful search are ordered nearest first, for every
metric. `C03_wellformed` orders the results by their true scores (`built_distance`); the reported value
is `normalized_distance(score)`, a monotone function of the score for each metric because binary32
rounding is monotone (`ArroyProofs/F32Mono*.lean`): `sqrt` (on the non-negative squared Euclidean
distances, `F32M.euclideanDistance_nn`), `max(·, 0)`, division by the dimension, the identity, and the
antitone `neg` for the dot product (larger inner product = nearer). -/
namespace Arroy.C03
open Arroy Reader

/-- `r1` reported before `r2` is consistent with "nearest first": `r1 ≤ r2` in the float order; for the
dot-product metric the reported value is the inner product and larger means nearer: `r2 ≤ r1` -/
def nearer (m : Metric) (r1 r2 : Nat) : Bool :=
  match m with
  | .dot => F32.le r2 r1
  | _ => F32.le r1 r2

/-- what the proof needs to know about a score: squared Euclidean distances are NaN or non-negative,
BQ-Manhattan scores are not NaN (`f32::max` would turn a NaN into `0.0`); both hold for every
`built_distance` (`built_ok`) -/
def okScore (m : Metric) (s : Nat) : Prop :=
  match m with
  | .euclidean => F32M.NN s
  | .bqManhattan => F32.isNaN s = false
  | _ => True

theorem built_ok (m : Metric) (host : Host) (qh qv h v : List Nat) :
    okScore m (m.builtDistance host qh qv h v) := by
  cases m <;> simp only [okScore, Metric.builtDistance]
  · exact F32M.euclideanDistance_nn _ _ _
  · exact F32L.ofNat_not_nan _

theorem zero_ok (m : Metric) : okScore m 0 := by
  cases m <;> simp only [okScore]
  · exact F32M.nn_zero
  · decide

theorem scoreOf_ok (c : Cfg) (s : Store) (qh qv : List Nat) (id : Nat) :
    okScore c.metric (scoreOf c s qh qv id) := by
  unfold scoreOf
  split
  · exact built_ok _ _ _ _ _ _
  · exact zero_ok _

/-- the dimension must be a positive (finite) number where the metric divides by it -/
def dimsOK (m : Metric) (dims : Nat) : Prop :=
  (m = .bqEuclidean ∨ m = .bqManhattan) → 0 < dims ∧ dims < 2 ^ 127

/-- `normalized_distance` is monotone in the score (antitone for the dot product) -/
theorem nd_mono (m : Metric) (s1 s2 dims : Nat) (ok1 : okScore m s1) (hd : dimsOK m dims)
    (h : F32.le s1 s2 = true) :
    nearer m (m.normalizedDistance s1 dims) (m.normalizedDistance s2 dims) = true := by
  obtain ⟨n1, n2, -⟩ := (F32M.le_iff_key s1 s2).1 h
  have e1 : F32.isNaN s1 = false := n1
  have e2 : F32.isNaN s2 = false := n2
  cases m <;> simp only [nearer, Metric.normalizedDistance]
  · -- euclidean
    have h0 : F32.le F32.zero s1 = true := by
      rcases ok1 with h | h
      · rw [e1] at h; cases h
      · exact h
    exact F32M.sqrt_mono h0 h
  · -- manhattan
    simp only [e1, e2, Bool.false_eq_true, if_false]
    exact F32M.max_zero_mono h
  · exact h
  · exact F32M.neg_antitone h
  · obtain ⟨d0, d1⟩ := hd (Or.inl rfl)
    exact F32M.div_ofNat_mono dims d0 d1 h
  · obtain ⟨d0, d1⟩ := hd (Or.inr rfl)
    exact F32M.div_ofNat_mono dims d0 d1 (F32M.max_zero_mono h)
  · exact h

theorem divV_nan (y : SF.V) : F32M.divV .nan y = SF.qnan SF.f32 := by cases y <;> rfl

/-- a NaN score is reported as NaN -/
theorem nd_nan (m : Metric) (s dims : Nat) (ok : okScore m s) (hn : F32.isNaN s = true) :
    F32.isNaN (m.normalizedDistance s dims) = true := by
  have hu := F32M.unpack_of_isNaN hn
  cases m <;> simp only [Metric.normalizedDistance]
  · unfold F32.sqrt SF.sqrt
    rw [show SF.unpack F32.fmt s = SF.unpack SF.f32 s from rfl, hu]
    decide
  · simp only [hn, if_true]
  · exact hn
  · unfold F32.isNaN SF.isNaN
    rw [show SF.unpack F32.fmt (F32.neg s) = SF.unpack SF.f32 (F32.neg s) from rfl, F32M.unpack_neg, hu]
    rfl
  · rw [F32M.div_eq, hu, divV_nan]; decide
  · simp only [okScore] at ok
    rw [hn] at ok; cases ok
  · exact hn

/-- a non-NaN score is reported as a non-NaN value -/
theorem nd_notNaN (m : Metric) (s dims : Nat) (ok : okScore m s) (hd : dimsOK m dims)
    (hn : F32.isNaN s = false) : F32.isNaN (m.normalizedDistance s dims) = false := by
  have := nd_mono m s s dims ok hd (F32M.le_refl hn)
  have key : F32.le (m.normalizedDistance s dims) (m.normalizedDistance s dims) = true := by
    cases m <;> exact this
  exact ((F32M.le_iff_key _ _).1 key).1

/-- what `scoreLe` says about the scores: NaN scores come last, the others are ordered by `F32.le` -/
theorem scoreLe_le (a b : Nat × Nat) (h : scoreLe a b = true) :
    (F32.isNaN a.1 = true → F32.isNaN b.1 = true) ∧
    (F32.isNaN b.1 = false → F32.le a.1 b.1 = true) := by
  unfold scoreLe F32.ordLt F32.ordEq SF.ordLt SF.ordEq at h
  cases ha : SF.isNaN F32.fmt a.1 <;> cases hb : SF.isNaN F32.fmt b.1 <;>
    simp only [ha, hb, Bool.false_eq_true, if_false, if_true, Bool.or_eq_true, Bool.and_eq_true,
      decide_eq_true_eq, false_and, or_false, false_or] at h
  · -- both numbers
    refine ⟨fun h' => (by rw [show F32.isNaN a.1 = SF.isNaN F32.fmt a.1 from rfl, ha] at h'; cases h'), fun _ => ?_⟩
    rcases h with h | ⟨h, -⟩
    · rw [F32M.le_iff_key]
      refine ⟨ha, hb, ?_⟩
      have := (SF.lt_iff_of_notNaN SF.f32 a.1 b.1 ha hb).1 h
      unfold SF.klt at *
      omega
    · unfold SF.eq at h
      simp only [Bool.and_eq_true] at h
      exact h.1
  · exact ⟨fun _ => hb, fun h' => (by rw [show F32.isNaN b.1 = SF.isNaN F32.fmt b.1 from rfl, hb] at h'; cases h')⟩
  · exact ⟨fun _ => hb, fun h' => (by rw [show F32.isNaN b.1 = SF.isNaN F32.fmt b.1 from rfl, hb] at h'; cases h')⟩

/-- **C03 (reported distances are sorted)**, every metric, no hypothesis on the store: in the answer of
a successful `nns_by_leaf` the reported distances are ordered nearest first — any NaN values come last,
and before them each value is `≤` every later one in the float order (`≥` for the dot product, whose
reported value is the inner product). For the two quantised metrics that divide by the dimension, the
dimension must be positive (`x/0` is `inf` or NaN) and below `2^127` (finite as an `f32`). -/
theorem C03_reported_sorted (c : Cfg) (s : Store) (rd : ReaderState) (qh qv : List Nat) (q : QueryOpts)
    (ans : List (Nat × Nat)) (h : nnsByLeaf c s rd qh qv q = .ok ans)
    (hd : (c.metric = .bqEuclidean ∨ c.metric = .bqManhattan) → 0 < rd.dims ∧ rd.dims < 2 ^ 127) :
    (ans.map (·.2)).Pairwise (fun r1 r2 =>
      (F32.isNaN r1 = true → F32.isNaN r2 = true) ∧
      (F32.isNaN r2 = false → nearer c.metric r1 r2 = true)) := by
  obtain ⟨-, -, h3, h4⟩ := C03_wellformed c s rd qh qv q ans h
  rw [List.pairwise_map] at h4 ⊢
  refine h4.imp_of_mem ?_
  intro a b ha hb hab
  obtain ⟨n1, n2⟩ := scoreLe_le _ _ hab
  simp only at n1 n2
  rw [(h3 a ha).2.2, (h3 b hb).2.2]
  have oka := scoreOf_ok c s qh qv a.1
  have okb := scoreOf_ok c s qh qv b.1
  constructor
  · intro hr
    apply nd_nan _ _ _ okb
    apply n1
    cases hs : F32.isNaN (scoreOf c s qh qv a.1)
    · rw [nd_notNaN _ _ _ oka hd hs] at hr; cases hr
    · rfl
  · intro hr
    have hs : F32.isNaN (scoreOf c s qh qv b.1) = false := by
      cases hs : F32.isNaN (scoreOf c s qh qv b.1)
      · rfl
      · rw [nd_nan _ _ _ okb hs] at hr; cases hr
    exact nd_mono _ _ _ _ oka hd (n2 hs)

/-- the same in terms of the scores: each reported value is `normalized_distance` of the true score, and
along the answer NaN scores come last and the reported values of the others are ordered -/
theorem C03_reported_sorted_scores (c : Cfg) (s : Store) (rd : ReaderState) (qh qv : List Nat)
    (q : QueryOpts) (ans : List (Nat × Nat)) (h : nnsByLeaf c s rd qh qv q = .ok ans)
    (hd : (c.metric = .bqEuclidean ∨ c.metric = .bqManhattan) → 0 < rd.dims ∧ rd.dims < 2 ^ 127) :
    ans.Pairwise (fun a b =>
      (F32.isNaN (scoreOf c s qh qv a.1) = true → F32.isNaN (scoreOf c s qh qv b.1) = true) ∧
      (F32.isNaN (scoreOf c s qh qv b.1) = false → nearer c.metric a.2 b.2 = true)) := by
  obtain ⟨-, -, h3, h4⟩ := C03_wellformed c s rd qh qv q ans h
  rw [List.pairwise_map] at h4
  refine h4.imp_of_mem ?_
  intro a b ha hb hab
  obtain ⟨n1, n2⟩ := scoreLe_le _ _ hab
  simp only at n1 n2
  rw [(h3 a ha).2.2, (h3 b hb).2.2]
  exact ⟨n1, fun hs => nd_mono _ _ _ _ (scoreOf_ok c s qh qv a.1) hd (n2 hs)⟩

/-! ### non-vacuity -/

section Examples
open ForestExample

-- a successful answer exists on the example index (Euclidean, dimension 2), and the hypothesis on the
-- dimension is vacuous there; for a quantised metric it is a plain bound on `rd.dims`
example : ∃ ans, nnsByLeaf ForestExample.c ForestExample.s ForestExample.rd [F32.zero] [F32.zero, F32.zero]
    { count := 2 } = .ok ans ∧
    (ans.map (·.2)).Pairwise (fun r1 r2 =>
      (F32.isNaN r1 = true → F32.isNaN r2 = true) ∧
      (F32.isNaN r2 = false → nearer ForestExample.c.metric r1 r2 = true)) := by
  obtain ⟨ans, h, _⟩ := C03_total forestOK [F32.zero] [F32.zero, F32.zero] { count := 2 }
  exact ⟨ans, h, C03_reported_sorted _ _ _ _ _ _ ans h (by decide)⟩

example : ∃ ans, nnsByLeaf ForestExample.c ForestExample.s ForestExample.rd [F32.zero] [F32.zero, F32.zero]
    { count := 2 } = .ok ans ∧
    ans.Pairwise (fun a b =>
      (F32.isNaN (scoreOf ForestExample.c ForestExample.s [F32.zero] [F32.zero, F32.zero] a.1) = true →
        F32.isNaN (scoreOf ForestExample.c ForestExample.s [F32.zero] [F32.zero, F32.zero] b.1) = true) ∧
      (F32.isNaN (scoreOf ForestExample.c ForestExample.s [F32.zero] [F32.zero, F32.zero] b.1) = false →
        nearer ForestExample.c.metric a.2 b.2 = true)) := by
  obtain ⟨ans, h, _⟩ := C03_total forestOK [F32.zero] [F32.zero, F32.zero] { count := 2 }
  exact ⟨ans, h, C03_reported_sorted_scores _ _ _ _ _ _ ans h (by decide)⟩

-- the monotone step for each kind of metric, on concrete scores (1.0 ≤ 4.0; dimension 3)
example : nearer .euclidean (Metric.normalizedDistance .euclidean 0x3f800000 3)
    (Metric.normalizedDistance .euclidean 0x40800000 3) = true :=
  nd_mono .euclidean _ _ 3 (Or.inr (by decide)) (by intro h; rcases h with h | h <;> cases h) (by decide)
example : nearer .bqManhattan (Metric.normalizedDistance .bqManhattan 0x3f800000 3)
    (Metric.normalizedDistance .bqManhattan 0x40800000 3) = true :=
  nd_mono .bqManhattan _ _ 3 (show F32.isNaN _ = false by decide) (fun _ => by decide) (by decide)
example : nearer .dot (Metric.normalizedDistance .dot 0x3f800000 3)
    (Metric.normalizedDistance .dot 0x40800000 3) = true :=
  nd_mono .dot _ _ 3 trivial (by intro h; rcases h with h | h <;> cases h) (by decide)
-- why the dimension must be positive: `0/0` is NaN, and it would come first
example : F32.isNaN (Metric.normalizedDistance .bqEuclidean (F32.ofNat 0) 0) = true
    ∧ Metric.normalizedDistance .bqEuclidean (F32.ofNat 4) 0 = F32.inf := by decide +kernel
-- why BQ-Manhattan scores must not be NaN (they never are): `NaN.max(0.0) = 0.0`
example : Metric.normalizedDistance .bqManhattan 0x7fc00000 3 = 0 := by decide +kernel

end Examples

end Arroy.C03
