import ArroyProofs.NoFuel
import ArroyProofs.NoFuelBuild
import ArroyProofs.ForestExample
import ArroyProofs.Properties.C10
/-! C14 — the memory hint changes how a build proceeds, never what it produces: the termination half.

The model's bounded loops carry fuel.  This file shows that the fuel the model itself passes is never
the reason of a failure (so the loops terminate for every batch schedule the `available_memory` hint may
induce), with one exception which is real: the re-split loop `incremental_index_large_descendants`
terminates only with probability one in the implementation, and its budget `loopFuel` is a parameter of
`Build.build`.  For that loop the deterministic progress facts are proved, and the livelock of the
formula before repair G is kept as a theorem. -/
namespace Arroy.C14
open Arroy BuildM Generated IdSet

/-! ## 1. the bounded loops never run out of the model's own fuel -/

/-- **C14 (tree routines)**: `insert_items_in_file`, `D::side` splitting and the attempt loop of
`make_tree_in_file` are structurally recursive: they never report `.fuel` (`delT`, `randomSplit` are pure) -/
theorem C14_tree_routines_no_fuel (cx : TreeCtx) :
    (∀ t ins g rs, NoFuelE (insertT cx t ins g rs)) ∧
    (∀ n xs rs, NoFuelE (sideSplit cx n xs rs)) ∧
    (∀ items attempts normals rs polls, NoFuelE (chooseSplit cx items attempts normals rs polls)) ∧
    (∀ g : IdGen, NoFuelE g.next) :=
  ⟨insertT_noFuel cx, sideSplit_noFuel cx, chooseSplit_noFuel cx, IdGen.next_noFuel⟩

/-- **C14 (batch loop)**: `insert_items_in_current_trees` never fails with `.fuel` when its fuel exceeds the
number of items to insert, whatever the batch lengths the oracle (the memory hint) dictates: each pass
consumes `k ≥ 1` items (`k = 0` is rejected as an oracle error: `ImmutableLeafs::new` always maps at
least one item). -/
theorem C14_insert_terminates (c : Cfg) (o : BuildOpts) (roots : List Nat) (fuel : Nat) (toInsert : List Nat)
    (g : IdGen) (hf : toInsert.length < fuel) :
    NoFuelErr (Build.insertItemsInCurrentTrees c o roots fuel toInsert g) :=
  insertItemsInCurrentTrees_noFuel c o roots fuel toInsert g hf

/-- the two call sites: `build` passes `toInsert.length + 1`, the re-split loop `rest.length + 1` -/
theorem C14_insert_terminates_callsites (c : Cfg) (o : BuildOpts) (roots toInsert : List Nat) (g : IdGen)
    (st : BState) (w : String) :
    Build.insertItemsInCurrentTrees c o roots (toInsert.length + 1) toInsert g st ≠ .error (.fuel w) :=
  C14_insert_terminates c o roots _ toInsert g (Nat.lt_succ_self _) st w

/-- **C14 (`make_tree_in_file`, oracle accounting)**: every split node of the tree made has consumed at
least one normal of the oracle stream -/
theorem C14_makeT_normals (cx : TreeCtx) (fuel : Nat) (items : List Nat) (g : IdGen) (normals : List (List Nat))
    (rs : List Bool) (r : MakeRes) (h : makeT cx fuel items g normals rs = .ok r) :
    r.normals.length + r.tree.splits ≤ normals.length ∧ r.tree.depth ≤ normals.length + 1 := by
  have h1 := makeT_normals_splits cx fuel items g normals rs r h
  have h2 := T.depth_le_splits r.tree
  exact ⟨h1, by omega⟩

/-- **C14 (`make_tree_in_file`, fuel)**: with a fuel larger than the number of normals left, `makeT` never
reports `.fuel`; in particular not with the fuel `normals.length + 2` the re-split loop passes -/
theorem C14_makeT_fuel (cx : TreeCtx) (items : List Nat) (g : IdGen) (normals : List (List Nat)) (rs : List Bool) :
    (∀ fuel, normals.length < fuel → NoFuelE (makeT cx fuel items g normals rs)) ∧
    NoFuelE (makeT cx (normals.length + 2) items g normals rs) :=
  ⟨fun fuel hf => makeT_noFuel cx fuel items g normals rs hf,
   makeT_noFuel cx _ items g normals rs (by omega)⟩

/-- **C14 (`reify`)**: reading a tree the store holds, with pairwise distinct node ids, with the fuel
`s.length + 1` the model uses, succeeds: neither `.fuel` nor `.panic` -/
theorem C14_reify_total (c : Cfg) (s : Store) (t : T) (root : Nat) (h : Holds c s t) (hnd : t.ids.Nodup)
    (hr : t.ref = NodeId.mkTree root) (st : BState) :
    reify c s (s.length + 1) t.ref = some t ∧ Build.reifyRoot c s root st = .ok (t, st) :=
  ⟨reify_of_holds_nodup c s t h hnd, reifyRoot_ok_of_holds c s t root h hnd hr st⟩

/-- **C14 (`delete_tree`)**: deleting a tree the store holds, with pairwise distinct node ids, with the fuel
`s.length + 1` that `delete_extra_trees` passes, succeeds; it erases the node ids of the tree and nothing
else -/
theorem C14_deleteTree_total (c : Cfg) (s : Store) (t : T) (h : Holds c s t) (hnd : t.ids.Nodup) :
    ∃ s', Build.deleteTree c (s.length + 1) t.ref s = .ok s' ∧
      (∀ i ∈ t.ids, Store.get s' (c.treeKey i) = none) ∧
      (∀ k, (∀ i ∈ t.ids, k ≠ c.treeKey i) → Store.get s' k = Store.get s k) :=
  deleteTree_ok_of_holds_nodup c s t h hnd

/-- **C14 (re-split loop, inner loops)**: whatever `incremental_index_large_descendants` does, the only
fuel it can report exhausted is its own budget: `makeT` (fuel `normals.length + 2`) and the batch loop (fuel
`rest.length + 1`) inside it never are -/
theorem C14_resplit_inner_loops_terminate (c : Cfg) (o : BuildOpts) (fuel : Nat) (large : List Nat) (g : IdGen)
    (st : BState) (w : String)
    (h : Build.incrementalIndexLargeDescendants c o fuel large g st = .error (.fuel w)) :
    w = "incremental_index_large_descendants" :=
  incrementalIndexLargeDescendants_fuelOnly c o fuel large g st w h

/-- **C14 (whole build)**: for every store, options, oracle streams (hence every memory hint) and cancel
schedule, the only loops of `build` that can report exhausted fuel are the re-split loop (budget
`loopFuel`) and `delete_tree` (which cannot on a held tree: `C14_deleteTree_total`) -/
theorem C14_build_fuel_labels (c : Cfg) (o : BuildOpts) (loopFuel : Nat) (st : BState) (w : String)
    (h : Build.build c o loopFuel st = .error (.fuel w)) :
    w = "incremental_index_large_descendants" ∨ w = "delete_tree" :=
  build_fuelOnly c o loopFuel st w h

/-- **C14 (whole build, on a forest)**: if the metadata roots of the store are the roots of trees the store
holds, with pairwise distinct node ids (inside and across trees) — what every committed build leaves — then
`delete_tree` never runs out of its fuel either: the ONLY fuel `build` can report exhausted is the budget
`loopFuel` of the re-split loop, for every option, oracle stream (memory hint) and cancel schedule -/
theorem C14_build_fuel_forest (c : Cfg) (o : BuildOpts) (loopFuel : Nat) (st : BState) (ts : List T)
    (hrefs : ts.map T.ref = (Transp.rootsOf c st.store).map NodeId.mkTree)
    (hholds : ∀ t ∈ ts, Holds c st.store t) (hnd : (ts.flatMap T.ids).Nodup)
    (w : String) (h : Build.build c o loopFuel st = .error (.fuel w)) :
    w = "incremental_index_large_descendants" :=
  build_fuelOnly_of_forest c o loopFuel st (deletableRoots_of_forest c st.store _ ts hrefs hholds hnd) w h

/-! ## 2. the re-split loop: deterministic progress, and the livelock before repair G -/

/-- **C14 (progress)**: in one round on an over-full bucket, a batch of `k > cap` items (repair G guarantees
`k ≥ min(ids.length, max(200, cap + 1))`) makes `makeT` return a split node — never a bucket — whose two
subtrees partition the batch, and every bucket below it fits -/
theorem C14_resplit_makes_node (c : Cfg) (o : BuildOpts) (s : Store) (ids : List Nat) (k : Nat) (g : IdGen)
    (normals : List (List Nat)) (rs : List Bool) (r : MakeRes)
    (hcap : 1 ≤ Build.cap c o) (hk : Build.cap c o < k) (hkl : k ≤ ids.length)
    (h : makeT (Build.treeCtx c o s) (normals.length + 2) (ids.take k) g normals rs = .ok r) :
    ∃ id n l r', r.tree = .node id n l r' ∧
      (l.items ++ r'.items).Perm (ids.take k) ∧
      (∀ b ∈ r.tree.buckets, b.2.length ≤ Build.cap c o) ∧
      r.normals.length < normals.length := by
  have hlen : (ids.take k).length = k := by rw [List.length_take]; omega
  obtain ⟨id, n, l, r', e⟩ := makeT_shape_node _ _ _ _ _ _ r h hcap (by
    show Build.cap c o < (ids.take k).length
    omega)
  refine ⟨id, n, l, r', e, ?_, makeT_capacity _ _ _ _ _ _ r h, ?_⟩
  · have := (makeT_items _ _ _ _ _ _ r h).1
    rw [e] at this
    exact this
  · have := makeT_normals_splits _ _ _ _ _ _ r h
    rw [e] at this
    simp only [T.splits] at this
    omega

/-- **C14 (the livelock that repair G removed)**: with a batch that FITS (`k ≤ cap < ids.length`, `k ≠ 1`),
`makeT` returns one bucket holding the batch; re-inserting the rest into that bucket (remapped onto the id `b`
of the over-full bucket) gives the bucket with all the items again, which is reported `large` again: the
round is a fixed point, whatever the oracle streams -/
theorem C14_livelock_before_fix (cx : TreeCtx) (ids : List Nat) (k b : Nat) (g g' : IdGen) (id : Nat)
    (normals : List (List Nat)) (rs : List Bool)
    (hs : Sorted ids) (hk : k ≤ cx.cap) (hk1 : k ≠ 1) (hcap : cx.cap < ids.length)
    (hn : g.next = .ok (id, g')) :
    makeT cx (normals.length + 2) (ids.take k) g normals rs =
        .ok ⟨.bucket id (ids.take k), [(id, .desc (ids.take k))], g', normals, rs, 1, 1⟩ ∧
    ∀ g2 rs2, insertT cx (.bucket b (ids.take k)) (ids.drop k) g2 rs2 =
        .ok ⟨.bucket b ids, [(b, .desc ids)], [b], g2, rs2, 1⟩ := by
  have hlen : (ids.take k).length = k := by rw [List.length_take]; omega
  constructor
  · have hne : ∀ x, ids.take k ≠ [x] := by
      intro x e
      rw [e] at hlen
      exact hk1 hlen.symm
    have hfit : fits cx.cap (ids.take k).length = true := by simp [fits, hlen, hk]
    exact makeT_fitting cx _ _ g g' id normals rs hne hfit hn
  · intro g2 rs2
    have hnf : fits cx.cap ids.length = false := by simp [fits]; omega
    simp only [insertT, union_take_drop ids k hs, hnf, hlen]
    have : k ≠ ids.length := by omega
    simp [this]

/-- the same fixed point for a batch of one item: `makeT` returns the item itself, nothing is written, and
re-inserting the rest into the untouched over-full bucket reports it `large` again -/
theorem C14_livelock_before_fix_single (cx : TreeCtx) (x : Nat) (rest : List Nat) (b : Nat) (g : IdGen)
    (normals : List (List Nat)) (rs : List Bool) (hs : Sorted (x :: rest)) (hcap : cx.cap < (x :: rest).length) :
    makeT cx (normals.length + 2) ((x :: rest).take 1) g normals rs = .ok ⟨.leaf x, [], g, normals, rs, 1, 0⟩ ∧
    ∀ g2 rs2, insertT cx (.bucket b (x :: rest)) ((x :: rest).drop 1) g2 rs2 =
        .ok ⟨.bucket b (x :: rest), [], [b], g2, rs2, 1⟩ := by
  constructor
  · rfl
  · intro g2 rs2
    have hu : IdSet.union (x :: rest) rest = x :: rest := by
      apply sorted_ext (sorted_union hs hs.tail) hs
      intro y
      rw [mem_union]
      constructor
      · rintro (h | h)
        · exact h
        · exact List.mem_cons_of_mem _ h
      · exact Or.inl
    have hnf : fits cx.cap (x :: rest).length = false := by simp [fits]; simpa using hcap
    simp only [insertT, List.drop_one, List.tail_cons, hu, hnf]
    simp

/-! ## 3. `available_memory` enters the model through the `batches` oracle stream only -/

/-- **C14 (any memory hint)**: `BuildOpts.availableMemory` is never read by `Build.build`: the hint acts only
through the `batches` oracle stream of the state.  Hence every theorem about `Build.build` quantified
over all states `st` covers every value of `available_memory` (0, a few pages, ample, unset). -/
theorem C14_any_memory (c : Cfg) (o : BuildOpts) (m : Option Nat) (fuel : Nat) (st : BState) :
    Build.build c { o with availableMemory := m } fuel st = Build.build c o fuel st := by
  have e : Build.build c { o with availableMemory := m } fuel = Build.build c o fuel := by
    unfold Build.build Build.deleteItemsFromTrees
    simp only [deleteLoop_mem, insertItemsInCurrentTrees_mem, incrementalIndexLargeDescendants_mem]
    rfl
  rw [e]

/-! ## non-vacuity -/
namespace Examples

def isOk {α : Type} : Except Err α → Bool | .ok _ => true | .error _ => false
def isFuel {α : Type} : Except Err α → Bool | .error (.fuel _) => true | _ => false

def c : Cfg := { index := 0, metric := .euclidean, dims := 2 }
def o : BuildOpts := { splitAfter := some 2 }
/-- the index of `ForestExample` — (0,0), (1,0), (0,2) under the tree `0 = split(1 = {0, 1}, item 2)` — with two
more stored items (1,1) and (2,0) which no tree reaches yet -/
def s : Store :=
  Store.put (Store.put ForestExample.s (c.itemKey 3) (.leaf [F32.zero] [F32.one, F32.one]))
    (c.itemKey 4) (.leaf [F32.zero] [F32.two, F32.zero])
def g : IdGen := IdGen.new [0, 1]
/-- the same with bucket `1` over-full (capacity 2): `{0, 1, 3}` -/
def sLarge : Store := Store.put s (c.treeKey 1) (.desc [0, 1, 3])

/-- `C14_insert_terminates`: two items, fuel 3, two batches of one item: the loop succeeds ... -/
example : isOk (Build.insertItemsInCurrentTrees c o [0] 3 [3, 4] g
    { store := s, batches := [1, 1], rands := [true] }) = true := by decide +kernel
/-- ... and the hypothesis `toInsert.length < fuel` is sharp: with fuel 2 the model reports `.fuel` -/
example : isFuel (Build.insertItemsInCurrentTrees c o [0] 2 [3, 4] g
    { store := s, batches := [1, 1], rands := [true] }) = true := by decide +kernel

/-- `C14_makeT_fuel` / `C14_makeT_normals`: the run of `MakeTExample` (two normals, fuel `2 + 2`) succeeds with
two split nodes and depth 3; with fuel 2 the same call reports `.fuel` (three levels are needed) -/
example : (makeT InsTExample.cx ([[7], [8]].length + 2) [1, 2, 3, 4, 5] InsTExample.g [[7], [8]]
      [true, true, false, true]).toOption.map (fun r => (r.tree.splits, r.tree.depth, r.normals.length)) =
    some (2, 3, 0) := by decide +kernel
example : isFuel (makeT InsTExample.cx 2 [1, 2, 3, 4, 5] InsTExample.g [[7], [8]] [true, true, false, true]) = true := by
  decide +kernel

/-- `C14_reify_total`, `C14_deleteTree_total`: the tree of `ForestExample` -/
example : Holds ForestExample.c ForestExample.s ForestExample.tree ∧ ForestExample.tree.ids.Nodup ∧
    ForestExample.tree.ref = NodeId.mkTree 0 :=
  ⟨ForestExample.forestWith.holds _ (by simp), by decide, rfl⟩

/-- `C14_build_fuel_forest`: the built index of the C10 examples (metadata root 0 = the bucket `{0, 1, 2}`) -/
example : [T.bucket 0 [0, 1, 2]].map T.ref = (Transp.rootsOf C10.cEx C10.sBuilt).map NodeId.mkTree ∧
    (∀ t ∈ [T.bucket 0 [0, 1, 2]], Holds C10.cEx C10.sBuilt t) ∧ ([T.bucket 0 [0, 1, 2]].flatMap T.ids).Nodup := by
  refine ⟨by decide, ?_, by decide⟩
  intro t ht
  simp only [List.mem_singleton] at ht
  subst ht
  unfold Holds
  decide

/-- `C14_resplit_makes_node`: capacity 2, the over-full bucket `{0, 1, 3}`, a batch of all 3 items -/
example : 1 ≤ Build.cap c o ∧ Build.cap c o < 3 ∧ 3 ≤ [0, 1, 3].length ∧
    (makeT (Build.treeCtx c o sLarge) ([[F32.one, F32.zero]].length + 2) ([0, 1, 3].take 3) g [[F32.one, F32.zero]]
      [true, false, true, true]).toOption.map (·.tree) =
    some (.node 3 [F32.one, F32.zero] (.leaf 0) (.bucket 2 [1, 3])) := by
  decide +kernel

/-- the whole round on that bucket: it succeeds and empties the `large` list within a budget of 2 rounds -/
example : isOk (Build.incrementalIndexLargeDescendants c o 2 [1] g
    { store := sLarge, batches := [3], rands := [true, false, true, true], normals := [[F32.one, F32.zero]] }) = true := by
  decide +kernel

/-- `C14_livelock_before_fix` at the level of the loop: batches that fit (2 ≤ capacity 2 < 3 items, then the
1 remaining item) reproduce the over-full bucket, round after round, until the budget is exhausted -/
example : isFuel (Build.incrementalIndexLargeDescendants c o 3 [1] g
    { store := sLarge, batches := [2, 1, 2, 1, 2, 1] }) = true := by
  decide +kernel
example : Sorted [0, 1, 3] ∧ 2 ≤ (Build.treeCtx c o sLarge).cap ∧ (2 : Nat) ≠ 1 ∧
    (Build.treeCtx c o sLarge).cap < [0, 1, 3].length ∧ isOk g.next = true := by decide +kernel

/-- `C14_any_memory`: a hint of zero bytes -/
example (fuel : Nat) (st : BState) :
    Build.build c { o with availableMemory := some 0 } fuel st = Build.build c o fuel st :=
  C14_any_memory c o (some 0) fuel st

end Examples

end Arroy.C14
