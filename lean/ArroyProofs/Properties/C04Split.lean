import ArroyProofs.SplitLemmas2
import ArroyProofs.NormalLenBuild
import ArroyProofs.Properties.Reachable
/-! # C04 / C20 — the split search (`two_means`, `create_split`) and the length of the normals

`ArroyModel/Split.lean` models `D::create_split` as a pure function `Split.createSplit` of the leaves the
search drew. The build model takes the normals as an oracle (`BState.normals`), and
`C04_selfLookup_reachable_given_normal_lengths` had a hypothesis on the normals of the FINAL trees. Here:

* `C04_createSplit_length(_bq)`: a normal `createSplit` returns has the length of the drawn vectors;
* `C20_createSplit_total`, `C20_createSplit_bounded`: `createSplit` answers on any two or more draws, whatever
  the bit patterns, and reads at most `2 + 200` of them;
* `C04_normal_lengths_reachable`: over every history, the normals of the trees of an index are as long as
  the normals the oracle supplied to the builds of that index (they are the only source);
* `C04_selfLookup_reachable_split`: the self-lookup theorem with the hypothesis on the final trees replaced
  by "every oracle normal is an output of `createSplit` on leaves of the index's dimension". -/
namespace Arroy

/-! ## C20: `create_split` is total and bounded, for every bit pattern -/
namespace C20
open Generated

/-- **C20 (split search, totality)**: with two or more drawn leaves `create_split` returns a normal, for
    every metric, host, header and vector bit pattern (NaN, infinite or zero norms, any lengths) -/
theorem C20_createSplit_total (m : Metric) (h : Host) (drawn : List (List Nat × List Nat))
    (h2 : 2 ≤ drawn.length) : (Split.createSplit m h drawn).isSome = true :=
  Split.createSplit_isSome m h drawn h2

/-- **C20 (split search, bounded)**: the search reads the two leaves of `choose_two` and at most
    `twoMeansIterations = 200` more, whatever the data: an iteration whose drawn leaf has a zero, NaN or
    negative norm is skipped (`continue`), it does not extend the loop -/
theorem C20_createSplit_bounded (m : Metric) (h : Host) (drawn : List (List Nat × List Nat)) :
    Split.createSplit m h drawn = Split.createSplit m h (drawn.take (2 + twoMeansIterations)) :=
  Split.createSplit_take m h drawn

/-- bit patterns used in the examples: 1.0, NaN, +inf -/
def one : Nat := 1065353216
def nan : Nat := 2143289344
def inf : Nat := 2139095040

/-- non-vacuity, evaluated: three 2-dimensional Euclidean leaves (1,0), (0,1), (1,1) -/
example : 2 ≤ [(([] : List Nat), [one, 0]), ([], [0, one]), ([], [one, one])].length ∧
    Split.createSplit .euclidean {} [([], [one, 0]), ([], [0, one]), ([], [one, one])] =
      some [1060439283, 3207922931] := by decide +kernel

/-- degenerate data: NaN, infinite and zero leaves still give a normal (`C20_createSplit_total` applies) -/
example : (Split.createSplit .cosine {} [([0], [nan, 0]), ([0], [inf, inf]), ([0], [0, 0]), ([nan], [one, nan])]).isSome = true :=
  C20_createSplit_total _ _ _ (by decide)

/-- `C20_createSplit_bounded` on a list longer than 202: the draws after the 202nd are not read -/
example (extra : List (List Nat × List Nat)) :
    Split.createSplit .euclidean {} (List.replicate 202 ([], [one, 0]) ++ extra) =
      Split.createSplit .euclidean {} (List.replicate 202 ([], [one, 0])) := by
  rw [C20_createSplit_bounded .euclidean {} (_ ++ extra)]
  -- `take 202` of the concrete prefix followed by `extra` reduces to the prefix
  congr 1

end C20

namespace C04
open C01 Generated

/-! ## the length of the normal `create_split` returns -/

/-- **C04 (split, f32 metrics)**: if every drawn vector has `d` components, so has the normal. No
    assumption on the float values. -/
theorem C04_createSplit_length (m : Metric) (hm : m.isBq = false) (h : Host) (d : Nat)
    (drawn : List (List Nat × List Nat)) (hd : ∀ hv ∈ drawn, hv.2.length = d) (n : List Nat)
    (hn : Split.createSplit m h drawn = some n) : n.length = d :=
  Split.createSplit_length_f32 m h drawn hm hd n hn

/-- **C04 (split, quantised metrics)**: if every drawn vector has `w` 64-bit words, so has the normal
    (for every `w`, also `w = 0`: the ±1 view has `64·w` components, the difference of the centroids too,
    and it is packed again into `w` words) -/
theorem C04_createSplit_length_bq (m : Metric) (hm : m.isBq = true) (h : Host) (w : Nat)
    (drawn : List (List Nat × List Nat)) (hd : ∀ hv ∈ drawn, hv.2.length = w) (n : List Nat)
    (hn : Split.createSplit m h drawn = some n) : n.length = w :=
  Split.createSplit_length_bq m h drawn hm hd n hn

/-- non-vacuity of `C04_createSplit_length`: the hypotheses hold on three 2-dimensional leaves -/
example : ∃ n, Split.createSplit .euclidean {} [([], [C20.one, 0]), ([], [0, C20.one]), ([], [C20.one, C20.one])] = some n ∧
    n.length = 2 := by
  refine ⟨[1060439283, 3207922931], by decide +kernel, ?_⟩
  exact C04_createSplit_length .euclidean rfl {} 2 [([], [C20.one, 0]), ([], [0, C20.one]), ([], [C20.one, C20.one])]
    (by decide) _ (by decide +kernel)

/-- non-vacuity of `C04_createSplit_length_bq`: three one-word leaves -/
example : ∃ n, Split.createSplit .bqEuclidean {} [([], [5]), ([], [2]), ([], [7])] = some n ∧ n.length = 1 := by
  refine ⟨[18446744073709551613], by decide +kernel, ?_⟩
  exact C04_createSplit_length_bq .bqEuclidean rfl {} 1 [([], [5]), ([], [2]), ([], [7])] (by decide) _ (by decide +kernel)

/-! ## over histories: the normals of the trees are as long as the oracle's -/

/-- every build of index `c` in the history is run with an oracle all of whose normals have `c.dims` words -/
def normalsCfg (c : Cfg) : Op → Prop
  | .build c' _ _ env => c'.index = c.index → ∀ n ∈ env.normals, n.length = c.dims
  | _ => True

/-- the store-level invariant: every split node stored under a tree key of index `c` has a normal of
    `c.dims` words, in every reachable state -/
theorem splitLen_reachable (c : Cfg) (hi : c.index < 65536) (ops : List Op) (hops : ∀ op ∈ ops, op.wf)
    (hN : ∀ op ∈ ops, normalsCfg c op) : SplitLen c c.dims (run ops) := by
  apply C01_history_induction freshSupply c hi (SplitLen c c.dims) (normalsCfg c) _ _ _ _ _ ops hops hN
  · exact SplitLen.nil c c.dims
  · intro s s' _ _ m hP id v hg
    rw [m.tree] at hg
    exact hP id v hg
  · intro s c' _ he _ id v hg
    rw [Writer.get_clear_same c' s _ (show (c.treeKey id).index = c'.index from he.symm)] at hg
    cases hg
  · intro s c' o fuel env st' roots0 items0 ts0 roots' ts' _ he _ hq _ _ hb hP
    exact (SplitLen.congr_index he).1
      (Build.build_splitLen (c := c') (d := c.dims) o fuel { env with store := s } st' hb
        ((SplitLen.congr_index he).2 hP) (hq he))
  · intro s c' m' s' _ _ _ _ _ _ hu _ id v hg
    rw [hu.2 id] at hg
    cases hg

/-- **C04 (normal lengths over histories)**: after any history (item operations and builds on any indexes,
    any oracle streams, options, cancellation schedules) in which every build of index `c.index` is run
    with an oracle all of whose normals have `c.dims` words, every normal of every tree of index `c` has
    `c.dims` words: the normals of the trees are normals of the trees before, normals taken from the
    oracle, or `List.replicate n.length 0` of such a normal (random split). No hypothesis on the index
    number: for `c.index ≥ 65536` no well-formed operation touches the index and there is no tree. -/
theorem C04_normal_lengths_reachable (c : Cfg) (ops : List Op) (hops : ∀ op ∈ ops, op.wf)
    (hN : ∀ op ∈ ops, normalsCfg c op) :
    ∀ t ∈ Check.trees c (run ops), ∀ n ∈ t.normals, n.length = c.dims := by
  by_cases hi : c.index < 65536
  · exact trees_tlen (splitLen_reachable c hi ops hops hN)
  · intro t ht
    have hw : Store.WF (run ops) := (C01_invariant ops hops ⟨0, .euclidean, 0, {}⟩ (by decide)).1.2.1
    have hk : ¬ c.metaKey.wf := fun h => hi h.1
    simp [Check.trees, Store.get_none_of_not_wf hw hk] at ht

/-! ## the end-to-end corollary -/

/-- every normal of the oracle of every build of index `c` is an output of `create_split` (metric and
    host of `c`) on leaves of `c.dims` words -/
def splitCfg (c : Cfg) : Op → Prop
  | .build c' _ _ env => c'.index = c.index → ∀ n ∈ env.normals,
      ∃ drawn : List (List Nat × List Nat), (∀ hv ∈ drawn, hv.2.length = c.dims) ∧
        Split.createSplit c.metric c.host drawn = some n
  | _ => True

theorem normalsCfg_of_splitCfg {c : Cfg} (hm : c.metric.isBq = false) {op : Op} (h : splitCfg c op) :
    normalsCfg c op := by
  cases op with
  | build c' o fuel env =>
    intro he n hn
    obtain ⟨drawn, hd, hs⟩ := h he n hn
    exact C04_createSplit_length c.metric hm c.host c.dims drawn hd n hs
  | _ => trivial

/-- **C04, end to end, f32 metrics, from the split search**: as
    `C04_selfLookup_reachable_given_normal_lengths`, with the hypothesis on the normals of the final trees
    replaced by `hsplit` / `hsplitEnv`: every normal the oracle supplies to a build of the index — in the
    history and in the final build — is what `create_split` returns for SOME leaves of `c.dims` words
    (which leaves were drawn, and their values, are arbitrary). -/
theorem C04_selfLookup_reachable_split (ops : List Op) (hops : ∀ op ∈ ops, op.wf)
    (c : Cfg) (hm : c.metric.isBq = false)
    (hQ : ∀ op ∈ ops, sameCfg c op) (hq : ∀ op ∈ ops, itemsCfg c op)
    (hsplit : ∀ op ∈ ops, splitCfg c op)
    (o : BuildOpts) (fuel : Nat) (env st' : BState) (hwf : (Op.build c o fuel env).wf)
    (hsplitEnv : ∀ n ∈ env.normals, ∃ drawn : List (List Nat × List Nat),
      (∀ hv ∈ drawn, hv.2.length = c.dims) ∧ Split.createSplit c.metric c.host drawn = some n)
    (h : Build.build c o fuel { env with store := run ops } = .ok ((), st'))
    (x : Nat) (hx : (Store.get st'.store (c.itemKey x)).isSome = true)
    (hgood : Check.hasGoodTree c st'.store x = true) :
    ∃ roots,
      Reader.open c st'.store = .ok ⟨roots, c.dims, (run ops).keysOf c.index modeItem⟩ ∧
      ∀ q : QueryOpts, q.candidates = none → 1 ≤ Reader.budget c.metric roots.length q →
        ((run ops).keysOf c.index modeItem).length ≤ q.count →
        ∃ ans, Reader.byItem c st'.store ⟨roots, c.dims, (run ops).keysOf c.index modeItem⟩ x q = .ok (some ans) ∧
          x ∈ ans.map (·.1) := by
  apply C04_selfLookup_reachable_given_normal_lengths ops hops c hQ hq o fuel env st' hwf h x hx hgood
  rw [← (C01_forest ops hops c o fuel env st' hwf h).1]
  apply C04_normal_lengths_reachable c
  · intro op hop
    rcases List.mem_append.1 hop with hop | hop
    · exact hops op hop
    · rw [List.mem_singleton.1 hop]; exact hwf
  · intro op hop
    rcases List.mem_append.1 hop with hop | hop
    · exact normalsCfg_of_splitCfg hm (hsplit op hop)
    · rw [List.mem_singleton.1 hop]
      exact normalsCfg_of_splitCfg (op := .build c o fuel env) hm (fun _ => hsplitEnv)

/-! ## non-vacuity -/
namespace Ex
open C01.Ex

/-- the two-round history of `C01Examples.lean` (Euclidean, dimension 2): both oracles have 2-word normals -/
theorem ops3_normals : ∀ op ∈ ops2 ++ [.build cEx oEx 5 env2], normalsCfg cEx op := by
  intro op hop
  simp only [ops2, ops1, List.mem_append, List.mem_cons, List.not_mem_nil, or_false] at hop
  rcases hop with ((rfl | rfl | rfl | rfl | rfl | rfl) | (rfl | rfl)) | rfl <;>
    first | trivial | (intro _; decide)

theorem ops3_wf : ∀ op ∈ ops2 ++ [.build cEx oEx 5 env2], op.wf := by decide

/-- `C04_normal_lengths_reachable` applies to it, and the forest it speaks of has three split nodes -/
example : (∀ t ∈ Check.trees cEx (run (ops2 ++ [.build cEx oEx 5 env2])), ∀ n ∈ t.normals, n.length = 2) ∧
    ((Check.trees cEx (run (ops2 ++ [.build cEx oEx 5 env2]))).flatMap T.normals).length = 3 := by
  refine ⟨C04_normal_lengths_reachable cEx _ ops3_wf ops3_normals, ?_⟩
  rw [after2_ok]
  rfl

/-- the first round: five items, then a build whose oracle normals (1,0) and (0,1) are outputs of
    `create_split` on 2-dimensional leaves -/
def adds1 : List Op :=
  [.add cEx 0 [fm2, 0], .add cEx 1 [fm1, 0], .add cEx 2 [f1, fm1], .add cEx 3 [f2, f1], .add cEx 4 [f3, f1]]

theorem adds1_wf : ∀ op ∈ adds1, op.wf := by decide
theorem build1_wf : (Op.build cEx oEx 5 env1).wf := by decide

theorem adds1_cfg : ∀ op ∈ adds1, sameCfg cEx op ∧ itemsCfg cEx op ∧ splitCfg cEx op := by
  intro op hop
  simp only [adds1, List.mem_cons, List.not_mem_nil, or_false] at hop
  rcases hop with rfl | rfl | rfl | rfl | rfl <;> exact ⟨trivial, fun _ => ⟨rfl, rfl⟩, trivial⟩

theorem env1_split : ∀ n ∈ env1.normals, ∃ drawn : List (List Nat × List Nat),
    (∀ hv ∈ drawn, hv.2.length = cEx.dims) ∧ Split.createSplit cEx.metric cEx.host drawn = some n := by
  intro n hn
  simp only [env1, List.mem_cons, List.not_mem_nil, or_false] at hn
  rcases hn with rfl | rfl
  · exact ⟨[([], [f1, 0]), ([], [0, 0])], by decide, by decide +kernel⟩
  · exact ⟨[([], [0, f1]), ([], [0, 0])], by decide, by decide +kernel⟩

theorem build1_ok : isOk (Build.build cEx oEx 5 { env1 with store := run adds1 }) = true := by decide +kernel

theorem after1_good : Check.hasGoodTree cEx (run (adds1 ++ [.build cEx oEx 5 env1])) 3 = true ∧
    (Store.get (run (adds1 ++ [.build cEx oEx 5 env1])) (cEx.itemKey 3)).isSome = true ∧
    (run adds1).keysOf cEx.index modeItem = [0, 1, 2, 3, 4] := by
  decide +kernel

/-- `C04_selfLookup_reachable_split` applies: `by_item(3)` with `search_k = 1` finds item 3 -/
example : ∃ st' roots, Build.build cEx oEx 5 { env1 with store := run adds1 } = .ok ((), st') ∧
    Reader.open cEx st'.store = .ok ⟨roots, 2, [0, 1, 2, 3, 4]⟩ ∧
    ∃ ans, Reader.byItem cEx st'.store ⟨roots, 2, [0, 1, 2, 3, 4]⟩ 3 { count := 5, searchK := some 1 } = .ok (some ans) ∧
      3 ∈ ans.map (·.1) := by
  have hok := build1_ok
  cases hb : Build.build cEx oEx 5 { env1 with store := run adds1 } with
  | error e => rw [hb] at hok; cases hok
  | ok r =>
    obtain ⟨u, st'⟩ := r
    have hrun := (C01_forest adds1 adds1_wf cEx oEx 5 env1 st' build1_wf hb).1
    obtain ⟨hg, hx, hk⟩ := after1_good
    rw [hrun] at hg hx
    obtain ⟨roots, h1, h2⟩ := C04_selfLookup_reachable_split adds1 adds1_wf cEx rfl
      (fun op hop => (adds1_cfg op hop).1) (fun op hop => (adds1_cfg op hop).2.1)
      (fun op hop => (adds1_cfg op hop).2.2) oEx 5 env1 st' build1_wf env1_split hb 3 hx hg
    rw [hk] at h1 h2
    refine ⟨st', roots, rfl, h1, h2 _ rfl ?_ (by decide)⟩
    simp only [Reader.budget, Reader.satMul, Option.getD_some, Option.getD_none]
    decide

end Ex
end C04
end Arroy
