import ArroyProofs.CodecReach
import ArroyProofs.Properties.C01Examples
/-! # C16 over reachable states — every entry of a reachable database round-trips through the byte codec

`Properties/C16.lean` and `C16Codec.lean` prove the codec theorems for WELL-FORMED keys and values. Here: every
entry of the store `C01.run ops` reached by a well-formed history meets their hypotheses, so that the bytes the
model writes (and, by the dump comparison of the differential runs, the crate) decode back to the same entry and
sort in key order.

* `C16_reachable_keys` (no side condition): every key of a reachable store is well-formed, of one of the four
  kinds, 8 bytes long, decodes back; the store is sorted and the ENCODED keys are strictly increasing in byte order.
* `C16_reachable_values`: under the decidable side condition `CodecTyped i m0 ops` (index `i` is added to, changed
  and built by writers of the metric it has at that point; `f32` components and oracle normals are 32-bit
  patterns / words of the word size; the dimension of a build fits a `u32`), every entry of index `i` is a
  well-formed value (`ValOk`) of the kind its key announces (`Holds`) and `decodeVal` of its encoding is the entry —
  for the metric the index has at the end of the history (`C05.metricOf`).
* `C16_reachable_dump`: the byte dump of the whole store decodes back entry by entry and is sorted in byte order.

The only part that is a hypothesis on the oracle is the word range of the normals supplied to the builds
(`∀ n ∈ env.normals, VecOk m n` in `opCodec`): the model takes split normals from the oracle stream as they are
(cf. `ArroyProofs/NormalLen.lean` for their length). Everything else is derived: `IndexInv` gives the bucket id
sets, child pointers, item set and roots; `ArroyProofs/StoreOkBuild.lean` carries leaf shapes and normal ranges
through `Writer::build`; `ArroyProofs/F32Width.lean` bounds the header words. (Helper lemmas:
`ArroyProofs/CodecReach.lean`.) -/
namespace Arroy.C16
open Arroy Generated C01

/-! ## 1. keys -/

/-- **the keys of a reachable store**: index `u16`, one of the four kinds, id `u32`; the key codec round-trips on
    them and writes 8 bytes; the store is sorted by `(index, kind, id)` and the encoded keys are strictly increasing
    in LMDB's byte order (`lexLt`) — in particular pairwise distinct. -/
theorem C16_reachable_keys (ops : List Op) (hops : ∀ op ∈ ops, op.wf) :
    (∀ kv ∈ run ops, kv.1.index < 65536 ∧ validMode kv.1.mode ∧ kv.1.item < 2 ^ 32 ∧
      decodeKey (encodeKey kv.1) = some kv.1 ∧ (encodeKey kv.1).length = 8) ∧
    Store.Sorted (run ops) ∧
    ((run ops).map (fun kv => encodeKey kv.1)).Pairwise (fun a b => lexLt a b = true) := by
  have hs : Store.Sorted (run ops) := C19.run_sorted ops hops
  have hw : Store.WF (run ops) :=
    (C01_invariant ops hops { index := 0, metric := .euclidean, dims := 0 } (show 0 < 65536 by decide)).1.2.1
  refine ⟨?_, hs, ?_⟩
  · intro kv hkv
    obtain ⟨k, v⟩ := kv
    have hk : k.wf := hw _ hkv
    have hg : Store.get (run ops) k = some v := (Store.get_eq_some_iff hs k v).2 hkv
    have hm : validMode k.mode := by
      rcases C17.C17_reachable_entries ops hops k v hg with h | h | ⟨h, _⟩ | ⟨h, _⟩ | ⟨h, _⟩
      · exact Or.inr (Or.inr (Or.inr h))
      · exact Or.inr (Or.inr (Or.inl h))
      · exact Or.inr (Or.inl h)
      · exact Or.inl (congrArg Key.mode h)
      · exact Or.inl (congrArg Key.mode h)
    exact ⟨hk.1, hm, by have := hk.2.2; rwa [pow_256_4] at this, C16_key_roundtrip k hk hm, C16_key_len k⟩
  · rw [List.pairwise_map]
    refine List.Pairwise.imp_of_mem ?_ ((Store.sorted_iff_pairwise _).1 hs)
    intro a b ha hb hab
    rw [C16_key_order a.1 b.1 (hw _ ha) (hw _ hb)]
    exact hab

/-! ## 2. values -/

/-- **the values of a reachable store**: for an index `i` meeting the side condition `CodecTyped i m0 ops`, with
    `m` the metric the index has at the end of the history, every entry `(k, v)` of the index is a value of the kind
    its key announces, all its fields are in range (`ValOk m v`: leaf headers of the length of the metric and 32-bit,
    vector and normal words of the word size, bucket and item sets strictly increasing `u32`s, child pointers and
    roots `u32` node ids, a metric name without NUL, a `u32` dimension, `u32` version fields), and decoding under
    `k` the bytes written for `v` gives `v` back (never the `.raw` fallback). -/
theorem C16_reachable_values (ops : List Op) (hops : ∀ op ∈ ops, op.wf) (i : Nat) (m0 : Metric)
    (ht : CodecTyped i m0 ops) :
    ∀ kv ∈ run ops, kv.1.index = i →
      Holds kv.1 kv.2 ∧ ValOk (C05.metricOf i m0 ops) kv.2 ∧
      decodeVal (C05.metricOf i m0 ops) kv.1 (encodeVal (C05.metricOf i m0 ops) kv.2) = kv.2 := by
  intro kv hkv hidx
  obtain ⟨h1, h2⟩ := reachable_valOk ops hops i m0 ht kv.1 kv.2 hkv hidx
  exact ⟨h1, h2, C16_val_roundtrip _ _ _ h1 h2⟩

/-- **buckets and updated marks need no side condition**: in the store reached by ANY well-formed history (writers
    of any metrics on the same index, arbitrary vector words and oracle normals), every updated mark and every
    descendants node sits under a key of its kind, is well-formed, and round-trips under the codec of every metric
    (the mark is the empty value; a bucket is a portable roaring bitmap of a strictly increasing `u32` list). -/
theorem C16_reachable_buckets_marks (ops : List Op) (hops : ∀ op ∈ ops, op.wf) (m : Metric) :
    ∀ kv ∈ run ops, (kv.2 = .unit ∨ ∃ ids, kv.2 = .desc ids) →
      Holds kv.1 kv.2 ∧ ValOk m kv.2 ∧ decodeVal m kv.1 (encodeVal m kv.2) = kv.2 := by
  intro kv hkv hv
  obtain ⟨k, v⟩ := kv
  have hs : Store.Sorted (run ops) := C19.run_sorted ops hops
  have hg : Store.get (run ops) k = some v := (Store.get_eq_some_iff hs k v).2 hkv
  have hk : k.wf :=
    (C01_invariant ops hops { index := 0, metric := m, dims := 0 } (show 0 < 65536 by decide)).1.2.1 _ hkv
  let c0 : Cfg := { index := k.index, metric := m, dims := 0 }
  have hinv : IndexInv c0 (run ops) := C01_invariant ops hops c0 hk.1
  have key : Holds k v ∧ ValOk m v := by
    rcases C17.C17_reachable_entries ops hops k v hg with hmode | hmode | ⟨hmode, rfl⟩ | ⟨_, nm, d, it, r, rfl⟩ |
        ⟨_, a, b, c', rfl⟩
    · obtain ⟨hd, w, rfl⟩ := (C05.isLeaf_iff v).1 (hinv.1.2.2.1 (k, v) hkv rfl hmode)
      rcases hv with h | ⟨_, h⟩ <;> cases h
    · have hkey : c0.treeKey k.item = k := by
        cases k; simp only [Cfg.treeKey, Key.mkTree, c0] at hmode ⊢; rw [hmode]
      rw [← hkey] at hg
      rcases tree_entry_ok hinv hg with ⟨its, rfl, hok⟩ | ⟨l, r, n, rfl, _, _⟩
      · exact ⟨Or.inr hmode, hok⟩
      · rcases hv with h | ⟨_, h⟩ <;> cases h
    · exact ⟨hmode, trivial⟩
    · rcases hv with h | ⟨_, h⟩ <;> cases h
    · rcases hv with h | ⟨_, h⟩ <;> cases h
  exact ⟨key.1, key.2, C16_val_roundtrip _ _ _ key.1 key.2⟩

/-! ## 3. the dump -/

/-- one entry of the byte dump: the key, and the value under the codec of the metric of its index -/
def encodeEntry (mt : Nat → Metric) (kv : Key × Val) : Bytes × Bytes :=
  (encodeKey kv.1, encodeVal (mt kv.1.index) kv.2)

/-- the dump decoder on one entry: the key first, then the value under that key -/
def decodeEntry (mt : Nat → Metric) (e : Bytes × Bytes) : Option (Key × Val) :=
  (decodeKey e.1).map (fun k => (k, decodeVal (mt k.index) k e.2))

/-- **the byte dump of a reachable store decodes back to the store, entry by entry, and is sorted in byte
    order.** `M0 i` is the metric index `i` starts with, `mt i` the one it has at the end (`hmt`; for a history in which
    every index keeps one metric `m`, `mt = fun _ => m`: `C16_reachable_dump_const`). -/
theorem C16_reachable_dump (ops : List Op) (hops : ∀ op ∈ ops, op.wf) (M0 : Nat → Metric)
    (ht : CodecTypedAll M0 ops) (mt : Nat → Metric) (hmt : ∀ i < 65536, mt i = C05.metricOf i (M0 i) ops) :
    ((run ops).map (encodeEntry mt)).map (decodeEntry mt) = (run ops).map some ∧
    (((run ops).map (encodeEntry mt)).map (·.1)).Pairwise (fun a b => lexLt a b = true) := by
  obtain ⟨hkeys, _, hpw⟩ := C16_reachable_keys ops hops
  refine ⟨?_, ?_⟩
  · rw [List.map_map]
    apply List.map_congr_left
    intro kv hkv
    obtain ⟨hi, _, _, hdec, _⟩ := hkeys kv hkv
    have hv := (C16_reachable_values ops hops kv.1.index (M0 kv.1.index) (ht.at _) kv hkv rfl).2.2
    rw [← hmt _ hi] at hv
    show (decodeKey (encodeKey kv.1)).map (fun k => (k, decodeVal (mt k.index) k (encodeVal (mt kv.1.index) kv.2))) = some kv
    rw [hdec]
    show some (kv.1, decodeVal (mt kv.1.index) kv.1 (encodeVal (mt kv.1.index) kv.2)) = some kv
    rw [hv]
  · rw [List.map_map]
    exact hpw

/-- the dump under one metric `m`, for a history all of whose indexes are written under `m` from start to end -/
theorem C16_reachable_dump_const (ops : List Op) (hops : ∀ op ∈ ops, op.wf) (m : Metric)
    (ht : CodecTypedAll (fun _ => m) ops) (hm : ∀ i ∈ ops.map opIndex, C05.metricOf i m ops = m) :
    ((run ops).map (fun kv => (encodeKey kv.1, encodeVal m kv.2))).map
        (fun e => (decodeKey e.1).map (fun k => (k, decodeVal m k e.2))) = (run ops).map some ∧
    (((run ops).map (fun kv => (encodeKey kv.1, encodeVal m kv.2))).map (·.1)).Pairwise
        (fun a b => lexLt a b = true) := by
  have hmt : ∀ i < 65536, (fun _ : Nat => m) i = C05.metricOf i ((fun _ => m) i) ops := by
    intro i _
    by_cases hi : i ∈ ops.map opIndex
    · exact (hm i hi).symm
    · -- an index the history never mentions keeps its metric
      show m = C05.metricOf i m ops
      have : ∀ (l : List Op), (∀ op ∈ l, opIndex op ≠ i) → ∀ m', C05.metricOf i m' l = m' := by
        intro l
        induction l with
        | nil => intro _ m'; rfl
        | cons op l ih =>
          intro hl m'
          have hne := hl op (by simp)
          have hstep : C05.metricStep i m' op = m' := by
            cases op <;> first | rfl | exact if_neg hne
          show C05.metricOf i (C05.metricStep i m' op) l = m'
          rw [hstep]
          exact ih (fun op' h' => hl op' (List.mem_cons_of_mem _ h')) m'
      exact (this ops (fun op hop e => hi (List.mem_map.2 ⟨op, hop, e⟩)) m).symm
  exact C16_reachable_dump ops hops (fun _ => m) ht (fun _ => m) hmt

/-! ## 4. non-vacuity

Concrete histories whose stores are computed by the kernel (`decide +kernel`: the builds really run). The byte
DECODERS go through `chunks` (well-founded recursion, does not reduce in the kernel), so the round trips themselves
are obtained by instantiating the theorems; the hypotheses, the stores and the ENCODED bytes are evaluated. -/
namespace Ex
open C01.Ex C17.Ex

/-- the two-round Euclidean history of `C01Examples.lean` (second build under a cancellation schedule) -/
def opsE : List Op := ops2 ++ [.build cEx oEx 5 env2]

theorem opsE_wf : ∀ op ∈ opsE, op.wf := by decide

/-- `C16_reachable_keys` on it: ten entries (metadata, four tree nodes, five items), whose encoded keys are … -/
example : ((run opsE).map (fun kv => encodeKey kv.1)) =
    [[0, 0, 0, 0, 0, 0, 0, 0],
     [0, 0, 2, 0, 0, 0, 0, 0], [0, 0, 2, 0, 0, 0, 1, 0], [0, 0, 2, 0, 0, 0, 2, 0], [0, 0, 2, 0, 0, 0, 3, 0],
     [0, 0, 2, 0, 0, 0, 4, 0],
     [0, 0, 3, 0, 0, 0, 1, 0], [0, 0, 3, 0, 0, 0, 2, 0], [0, 0, 3, 0, 0, 0, 3, 0], [0, 0, 3, 0, 0, 0, 4, 0],
     [0, 0, 3, 0, 0, 0, 5, 0]] := by decide +kernel

example : ∀ kv ∈ run opsE, decodeKey (encodeKey kv.1) = some kv.1 :=
  fun kv h => ((C16_reachable_keys opsE opsE_wf).1 kv h).2.2.2.1

/-- the side condition holds for it (index 0, Euclidean from start to end; the oracle normals are `f32` patterns) -/
theorem opsE_typed : CodecTypedAll (fun _ => .euclidean) opsE ∧
    ∀ i ∈ opsE.map opIndex, C05.metricOf i .euclidean opsE = .euclidean := by decide +kernel

example : ((run opsE).map (fun kv => (encodeKey kv.1, encodeVal .euclidean kv.2))).map
    (fun e => (decodeKey e.1).map (fun k => (k, decodeVal .euclidean k e.2))) = (run opsE).map some :=
  (C16_reachable_dump_const opsE opsE_wf .euclidean opsE_typed.1 opsE_typed.2).1

/-- the two-index cosine history of `C17Reachable.lean`: every kind of entry occurs (metadata and version records,
    an updated mark, buckets, split nodes with a tree and an item child, leaves with a norm header) -/
def opsK : List Op := opsC ++ [.build cC oEx 5 env2]

theorem opsK_wf : ∀ op ∈ opsK, op.wf := by decide

theorem opsK_typed : CodecTypedAll (fun _ => .cosine) opsK ∧
    ∀ i ∈ opsK.map opIndex, C05.metricOf i .cosine opsK = .cosine := by decide +kernel

/-- `C16_reachable_dump_const` on it (`run opsK` is `C17.Ex.sC`, listed in `C17.Ex.sC_eq`: 17 entries) -/
example : ((sC.map (fun kv => (encodeKey kv.1, encodeVal .cosine kv.2))).map
      (fun e => (decodeKey e.1).map (fun k => (k, decodeVal .cosine k e.2))) = sC.map some) ∧
    sC.length = 17 :=
  ⟨(C16_reachable_dump_const opsK opsK_wf .cosine opsK_typed.1 opsK_typed.2).1, by rw [sC_eq]; rfl⟩

/-- some of the bytes of that dump: the root split node (tag 2, two 5-byte node ids, two little-endian `f32`),
    the version record of index 3 (three big-endian `u32`), the updated mark (empty), a leaf (tag 0, norm, vector) -/
example : Store.get sC ⟨0, 2, 0⟩ = some (.split ⟨2, 1⟩ ⟨2, 3⟩ [f1, 0]) ∧
    encodeVal .cosine (.split ⟨2, 1⟩ ⟨2, 3⟩ [f1, 0]) = [2, 2, 0, 0, 0, 1, 2, 0, 0, 0, 3, 0, 0, 128, 63, 0, 0, 0, 0] ∧
    encodeVal .cosine (.version 0 6 1) = [0, 0, 0, 0, 0, 0, 0, 6, 0, 0, 0, 1] ∧
    encodeVal .cosine .unit = [] ∧
    encodeVal .cosine (.leaf [1065353216] [fm1, 0]) = [0, 0, 0, 128, 63, 0, 0, 128, 191, 0, 0, 0, 0] := by
  refine ⟨by rw [sC_eq]; decide, by decide, by decide, by decide, by decide⟩

/-- `C16_reachable_values` on it: the root split node of index 0 and the version record of index 3 -/
example : decodeVal .cosine ⟨0, 2, 0⟩ (encodeVal .cosine (.split ⟨2, 1⟩ ⟨2, 3⟩ [f1, 0])) = .split ⟨2, 1⟩ ⟨2, 3⟩ [f1, 0] ∧
    decodeVal .cosine ⟨3, 0, 1⟩ (encodeVal .cosine (.version 0 6 1)) = .version 0 6 1 := by
  have h0 := C16_reachable_values opsK opsK_wf 0 .cosine (opsK_typed.1.at 0)
  have h3 := C16_reachable_values opsK opsK_wf 3 .cosine (opsK_typed.1.at 3)
  rw [opsK_typed.2 0 (by decide)] at h0
  rw [opsK_typed.2 3 (by decide)] at h3
  have hs : run opsK = sC := rfl
  rw [hs, sC_eq] at h0 h3
  exact ⟨(h0 (⟨0, 2, 0⟩, .split ⟨2, 1⟩ ⟨2, 3⟩ [f1, 0]) (by decide) rfl).2.2,
    (h3 (⟨3, 0, 1⟩, .version 0 6 1) (by decide) rfl).2.2⟩

/-- `C16_reachable_buckets_marks` on it: the mark of item 8 of index 3 and a bucket of index 0, under any metric -/
example (m : Metric) : decodeVal m ⟨3, 1, 8⟩ (encodeVal m .unit) = .unit ∧
    decodeVal m ⟨0, 2, 4⟩ (encodeVal m (.desc [3, 4])) = .desc [3, 4] := by
  have h := C16_reachable_buckets_marks opsK opsK_wf m
  have hs : run opsK = sC := rfl
  rw [hs, sC_eq] at h
  exact ⟨(h (⟨3, 1, 8⟩, .unit) (by decide) (Or.inl rfl)).2.2,
    (h (⟨0, 2, 4⟩, .desc [3, 4]) (by decide) (Or.inr ⟨_, rfl⟩)).2.2⟩

/-- a history with metric changes (`C05History.lean`): index 0 goes Euclidean → quantised → Euclidean; after the
    change to the quantised metric its leaves hold one 64-bit sign word each, and they round-trip under the
    quantised codec (8 bytes per word) -/
theorem hBq_typed : CodecTyped 0 .euclidean C05.Ex.hBqAdd ∧ C05.metricOf 0 .euclidean C05.Ex.hBqAdd = .bqEuclidean ∧
    (⟨0, 3, 4⟩, Val.leaf [0] [2]) ∈ run C05.Ex.hBqAdd ∧
    CodecTyped 0 .euclidean C05.Ex.hist ∧ C05.metricOf 0 .euclidean C05.Ex.hist = .euclidean ∧
    CodecTyped 1 .cosine C05.Ex.hist := by decide +kernel

example : decodeVal .bqEuclidean ⟨0, 3, 4⟩ (encodeVal .bqEuclidean (.leaf [0] [2])) = .leaf [0] [2] ∧
    encodeVal .bqEuclidean (.leaf [0] [2]) = [0, 0, 0, 0, 0, 2, 0, 0, 0, 0, 0, 0, 0] := by
  have hwf : ∀ op ∈ C05.Ex.hBqAdd, op.wf := by decide
  have h := C16_reachable_values C05.Ex.hBqAdd hwf 0 .euclidean hBq_typed.1 _ hBq_typed.2.2.1 rfl
  rw [hBq_typed.2.1] at h
  exact ⟨h.2.2, by decide⟩

/-! ### the side conditions cannot be dropped

An `f32` component that is not a 32-bit pattern (the model's vectors are lists of naturals), or such a word in a
normal supplied by the oracle, is stored as it is and truncated by the encoder: two different reachable stores
then have the same dump. -/

/-- a vector component `2^32`: the history is well-formed, not `CodecTyped`, the stored leaf is not `ValOk`, and its
    bytes are those of the leaf with component `0` -/
example : (∀ op ∈ [Op.add cEx 0 [2 ^ 32, 0]], op.wf) ∧ ¬ CodecTyped 0 .euclidean [Op.add cEx 0 [2 ^ 32, 0]] ∧
    run [Op.add cEx 0 [2 ^ 32, 0]] = [(⟨0, 1, 0⟩, .unit), (⟨0, 3, 0⟩, .leaf [0] [2 ^ 32, 0])] ∧
    ¬ ValOk .euclidean (.leaf [0] [2 ^ 32, 0]) ∧
    encodeVal .euclidean (.leaf [0] [2 ^ 32, 0]) = encodeVal .euclidean (.leaf [0] [0, 0]) := by decide +kernel

/-- an oracle normal with the word `f1 + 2^32`: the build of `ops1` succeeds as with `f1` (the soft-float reads
    words modulo `2^32`), the root split node stores the word, and its bytes are those of the node with `f1` -/
def envBad : BState := { env1 with normals := [[f1 + 2 ^ 32, 0], [0, f1]] }
def opsBad : List Op :=
  [.add cEx 0 [fm2, 0], .add cEx 1 [fm1, 0], .add cEx 2 [f1, fm1], .add cEx 3 [f2, f1], .add cEx 4 [f3, f1],
   .build cEx oEx 5 envBad]

example : (∀ op ∈ opsBad, op.wf) ∧ ¬ CodecTyped 0 .euclidean opsBad ∧
    Store.get (run opsBad) ⟨0, 2, 0⟩ = some (.split ⟨2, 1⟩ ⟨2, 3⟩ [f1 + 2 ^ 32, 0]) ∧
    Store.get (run ops1) ⟨0, 2, 0⟩ = some (.split ⟨2, 1⟩ ⟨2, 3⟩ [f1, 0]) ∧
    ¬ ValOk .euclidean (.split ⟨2, 1⟩ ⟨2, 3⟩ [f1 + 2 ^ 32, 0]) ∧
    encodeVal .euclidean (.split ⟨2, 1⟩ ⟨2, 3⟩ [f1 + 2 ^ 32, 0]) = encodeVal .euclidean (.split ⟨2, 1⟩ ⟨2, 3⟩ [f1, 0]) := by
  decide +kernel

end Ex

end Arroy.C16
