import ArroyProofs.IndexInvOps
import ArroyProofs.Mutates
import ArroyProofs.IndexInvPrepare
/-! # C01 — every tree of a built index covers exactly the live items, each once

`Forest c s roots items ts` (ArroyProofs/ForestDefs.lean): the store holds the trees `ts` at `roots`;
no node is shared or reachable twice; the trees cover exactly the tree keys of the index; every tree
reaches exactly `items`, each item once. `IndexInv c s` is the invariant of the histories
`((add | append | del | clear)* build)+`.

Hypotheses of the theorems: `c.index < 65536`; `1 ≤ Build.cap c o` (split_after ≥ 1, or the default
dimension ≥ 1); `o.nTrees ≠ some 0` (only for "a non-empty index has a tree"); `FreshSupply` — the id
generator started on the used tree ids hands out fresh 32-bit ids (property C13, proved separately).
The oracle streams (normals, random sides, batch lengths), the loop fuel and the cancellation schedule
are arbitrary: the theorems are about runs that return `.ok`. -/
namespace Arroy.C01
open Arroy Generated Transp

/-- everything the proof establishes about a successful build, relative to the forest `ts0` the index
    held before (`Old`); the other C01/C04/C15 statements are projections of this one -/
theorem C01_build_out (c : Cfg) (o : BuildOpts) (fuel : Nat) (st st' : BState) (roots0 items0 : List Nat) (ts0 : List T)
    (hi : c.index < 65536) (hcap : 1 ≤ Build.cap c o) (hfresh : FreshSupply)
    (hs : Store.Sorted st.store) (hw : Store.WF st.store) (old : Old c st.store roots0 items0 ts0)
    (h : Build.build c o fuel st = .ok ((), st')) :
    ∃ roots' ts', BuildOut c o st.store st'.store roots0 ts0 roots' ts' := by
  have hrp : RootsPresent c st.store := old.rootsPresent hw hi
  have h' := C10.C10_transparent_ok c o fuel st st' hrp h
  exact build_core c o fuel (erase st) (erase st') roots0 items0 ts0 hi hcap hs hw old rfl hfresh h'

/-- C01 for one build, without the clause on the number of trees (any `n_trees`, even 0) -/
theorem C01_build_any (c : Cfg) (o : BuildOpts) (fuel : Nat) (st st' : BState)
    (hi : c.index < 65536) (hcap : 1 ≤ Build.cap c o) (hfresh : FreshSupply)
    (hinv : IndexInvW c st.store) (h : Build.build c o fuel st = .ok ((), st')) :
    ∃ roots ts,
      Store.get st'.store c.metaKey =
        some (.metadata c.metric.nameBytes c.dims (st.store.keysOf c.index modeItem) roots) ∧
      Forest c st'.store roots (st.store.keysOf c.index modeItem) ts ∧
      (∀ id, Store.get st'.store (c.updatedKey id) = none) ∧
      IndexInvW c st'.store := by
  obtain ⟨roots0, items0, ts0, old⟩ := Old.of_inv hinv hi
  obtain ⟨roots', ts', b⟩ := C01_build_out c o fuel st st' roots0 items0 ts0 hi hcap hfresh hinv.1 hinv.2.1 old h
  exact ⟨roots', ts', b.metadata, b.forest, b.no_marks, b.invW hinv.1 hinv.2.1 hinv.2.2.1 hi⟩

/-- **C01, one build**: from a state satisfying the index invariant, a successful build leaves
    metadata listing exactly the stored items, a valid forest over them, at least one tree if there
    is an item, no updated mark, and the invariant again. -/
theorem C01_build (c : Cfg) (o : BuildOpts) (fuel : Nat) (st st' : BState)
    (hi : c.index < 65536) (hcap : 1 ≤ Build.cap c o) (hn : o.nTrees ≠ some 0) (hfresh : FreshSupply)
    (hinv : IndexInv c st.store) (h : Build.build c o fuel st = .ok ((), st')) :
    ∃ roots ts,
      Store.get st'.store c.metaKey =
        some (.metadata c.metric.nameBytes c.dims (st.store.keysOf c.index modeItem) roots) ∧
      Forest c st'.store roots (st.store.keysOf c.index modeItem) ts ∧
      (st.store.keysOf c.index modeItem ≠ [] → roots ≠ []) ∧
      (∀ id, Store.get st'.store (c.updatedKey id) = none) ∧
      IndexInv c st'.store := by
  obtain ⟨roots0, items0, ts0, old⟩ := Old.of_inv hinv.1 hi
  obtain ⟨roots', ts', b⟩ :=
    C01_build_out c o fuel st st' roots0 items0 ts0 hi hcap hfresh hinv.1.1 hinv.1.2.1 old h
  exact ⟨roots', ts', b.metadata, b.forest, b.rootsNonempty hn, b.no_marks,
    b.inv hinv.1.1 hinv.1.2.1 hinv.1.2.2.1 hi hn⟩

/-! ## the item operations preserve the invariant (of every index) -/

theorem C01_inv_empty (c : Cfg) : IndexInv c [] :=
  ⟨⟨Store.sorted_nil, Store.wf_nil, C05.itemsAreLeaves_nil c, Or.inl ⟨rfl, fun _ => rfl⟩⟩,
    fun _ _ _ _ h => by cases h⟩

theorem C01_inv_add {c c' : Cfg} {s s' : Store} {id : Nat} {vec : List Nat} (hinv : IndexInv c s)
    (hi' : c'.index < 65536) (hid : id < 4294967296) (h : Writer.addItem c' s id vec = .ok s') : IndexInv c s' :=
  IndexInv_add hinv hi' hid h

theorem C01_inv_append {c c' : Cfg} {s s' : Store} {id : Nat} {vec : List Nat} (hinv : IndexInv c s)
    (hi' : c'.index < 65536) (hid : id < 4294967296) (h : Writer.appendItem c' s id vec = .ok s') : IndexInv c s' :=
  IndexInv_append hinv hi' hid h

theorem C01_inv_del {c c' : Cfg} {s : Store} {id : Nat} (hinv : IndexInv c s)
    (hi' : c'.index < 65536) (hid : id < 4294967296) : IndexInv c (Writer.delItem c' s id).1 :=
  IndexInv_del hinv hi' hid

theorem C01_inv_clear {c c' : Cfg} {s : Store} (hinv : IndexInv c s) (hi' : c'.index < 65536) :
    IndexInv c (Writer.clear c' s) :=
  IndexInv_clear hinv hi'

/-- the metric change keeps the invariant of every index (`hinv'`: the invariant of the changed index) -/
theorem C01_inv_prepare {c c' : Cfg} {m' : Metric} {s s' : Store} (hinv : IndexInv c s) (hinv' : IndexInv c' s)
    (hi' : c'.index < 65536) (h : Writer.prepareChangingDistance c' m' s = .ok s') : IndexInv c s' :=
  IndexInv_prepare hinv hinv' hi' h

/-! ## histories -/

/-- one step of a history; `build` carries its options, the fuel of the re-split loop and the
    oracle streams / poll counter / cancellation schedule (`env`; its `store` field is ignored);
    `prepare c m'` is `Writer::prepare_changing_distance` on the index opened as `c`, towards metric `m'` -/
inductive Op where
  | add (c : Cfg) (id : Nat) (vec : List Nat)
  | append (c : Cfg) (id : Nat) (vec : List Nat)
  | del (c : Cfg) (id : Nat)
  | clear (c : Cfg)
  | build (c : Cfg) (o : BuildOpts) (fuel : Nat) (env : BState)
  | prepare (c : Cfg) (m' : Metric)

def Op.wf : Op → Prop
  | .add c id _ => c.index < 65536 ∧ id < 4294967296
  | .append c id _ => c.index < 65536 ∧ id < 4294967296
  | .del c id => c.index < 65536 ∧ id < 4294967296
  | .clear c => c.index < 65536
  | .build c o _ _ => c.index < 65536 ∧ 1 ≤ Build.cap c o ∧ o.nTrees ≠ some 0
  | .prepare c _ => c.index < 65536

/-- a failed operation changes nothing (a failed build is followed by an abort) -/
def step (s : Store) : Op → Store
  | .add c id vec => match Writer.addItem c s id vec with
    | .ok s' => s'
    | .error _ => s
  | .append c id vec => match Writer.appendItem c s id vec with
    | .ok s' => s'
    | .error _ => s
  | .del c id => (Writer.delItem c s id).1
  | .clear c => Writer.clear c s
  | .build c o fuel env => match Build.build c o fuel { env with store := s } with
    | .ok (_, st') => st'.store
    | .error _ => s
  | .prepare c m' => match Writer.prepareChangingDistance c m' s with
    | .ok s' => s'
    | .error _ => s

def run (ops : List Op) : Store := ops.foldl step []

theorem C01_inv_step (hfresh : FreshSupply) (s : Store) (op : Op) (hop : op.wf)
    (hinv : ∀ c : Cfg, c.index < 65536 → IndexInv c s) :
    ∀ c : Cfg, c.index < 65536 → IndexInv c (step s op) := by
  intro c hi
  cases op with
  | add c' id vec =>
    simp only [step]
    cases h : Writer.addItem c' s id vec with
    | ok s' => exact IndexInv_add (hinv c hi) hop.1 hop.2 h
    | error e => exact hinv c hi
  | append c' id vec =>
    simp only [step]
    cases h : Writer.appendItem c' s id vec with
    | ok s' => exact IndexInv_append (hinv c hi) hop.1 hop.2 h
    | error e => exact hinv c hi
  | del c' id => exact IndexInv_del (hinv c hi) hop.1 hop.2
  | clear c' => exact IndexInv_clear (hinv c hi) hop
  | build c' o fuel env =>
    simp only [step]
    cases h : Build.build c' o fuel { env with store := s } with
    | error e => exact hinv c hi
    | ok r =>
      obtain ⟨u, st'⟩ := r
      obtain ⟨hi', hcap, hn⟩ := hop
      have hinv' := hinv c' hi'
      obtain ⟨roots0, items0, ts0, old⟩ := Old.of_inv hinv'.1 hi'
      obtain ⟨roots', ts', b⟩ := C01_build_out c' o fuel { env with store := s } st' roots0 items0 ts0 hi' hcap hfresh
        hinv'.1.1 hinv'.1.2.1 old h
      by_cases he : c.index = c'.index
      · exact (b.inv hinv'.1.1 hinv'.1.2.1 hinv'.1.2.2.1 hi' hn).congr_index he
      · exact b.inv_other he (hinv c hi)
  | prepare c' m' =>
    simp only [step]
    cases h : Writer.prepareChangingDistance c' m' s with
    | ok s' => exact IndexInv_prepare (hinv c hi) (hinv c' hop) hop h
    | error e => exact hinv c hi

/-- the invariant of every index holds after every history -/
theorem C01_history_inv (hfresh : FreshSupply) (ops : List Op) (hops : ∀ op ∈ ops, op.wf) :
    ∀ c : Cfg, c.index < 65536 → IndexInv c (run ops) := by
  unfold run
  suffices ∀ (s : Store), (∀ c : Cfg, c.index < 65536 → IndexInv c s) →
      ∀ c : Cfg, c.index < 65536 → IndexInv c (ops.foldl step s) from this [] (fun c _ => C01_inv_empty c)
  induction ops with
  | nil => intro s h; exact h
  | cons op ops ih =>
    intro s h
    simp only [List.foldl_cons]
    exact ih (fun op' h' => hops op' (List.mem_cons_of_mem _ h')) _
      (C01_inv_step hfresh s op (hops op (by simp)) h)

/-- **C01**: after any history of item operations and builds (on any indexes, failed operations
    being no-ops), a successful build of index `c` leaves a valid forest over exactly the stored items
    of `c`, with at least one tree if there is an item, and no updated mark. -/
theorem C01_history (hfresh : FreshSupply) (ops : List Op) (hops : ∀ op ∈ ops, op.wf)
    (c : Cfg) (o : BuildOpts) (fuel : Nat) (env st' : BState) (hwf : (Op.build c o fuel env).wf)
    (h : Build.build c o fuel { env with store := run ops } = .ok ((), st')) :
    run (ops ++ [.build c o fuel env]) = st'.store ∧
    ∃ roots ts,
      Store.get st'.store c.metaKey =
        some (.metadata c.metric.nameBytes c.dims ((run ops).keysOf c.index modeItem) roots) ∧
      Forest c st'.store roots ((run ops).keysOf c.index modeItem) ts ∧
      ((run ops).keysOf c.index modeItem ≠ [] → roots ≠ []) ∧
      (∀ id, Store.get st'.store (c.updatedKey id) = none) := by
  refine ⟨?_, ?_⟩
  · simp only [run, List.foldl_append, List.foldl_cons, List.foldl_nil, step]
    have : Build.build c o fuel { env with store := List.foldl step [] ops } = .ok ((), st') := h
    rw [this]
  · obtain ⟨roots, ts, h1, h2, h3, h4, _⟩ :=
      C01_build c o fuel { env with store := run ops } st' hwf.1 hwf.2.1 hwf.2.2 hfresh
        (C01_history_inv hfresh ops hops c hwf.1) h
    exact ⟨roots, ts, h1, h2, h3, h4⟩

/-- the invariant of every index along a history started in any state satisfying it -/
theorem C01_inv_foldl (hfresh : FreshSupply) (ops : List Op) (hops : ∀ op ∈ ops, op.wf) :
    ∀ s : Store, (∀ c : Cfg, c.index < 65536 → IndexInv c s) →
      ∀ c : Cfg, c.index < 65536 → IndexInv c (ops.foldl step s) := by
  induction ops with
  | nil => intro s h; exact h
  | cons op ops ih =>
    intro s h
    simp only [List.foldl_cons]
    exact ih (fun op' h' => hops op' (List.mem_cons_of_mem _ h')) _
      (C01_inv_step hfresh s op (hops op (by simp)) h)

/-- induction over histories for a property `P` of the store that concerns index `c` only, from any
    starting state `s0` satisfying the invariant of every index (e.g. a reachable state):
    `P` must survive the marked mutations (`Mutates`: item operations on any index, builds, clears and
    metric changes of other indexes), a clear of the index, a metric change of the index to another metric
    (after which the index is `Unbuilt`), and a successful build of the index (given everything
    `C01_build_out` establishes about it). `Q` is a side condition on the operations of the history. -/
theorem C01_history_induction_from (hfresh : FreshSupply) (c : Cfg) (hi : c.index < 65536) (P : Store → Prop)
    (Q : Op → Prop)
    (hmut : ∀ s s', IndexInv c s → IndexInv c s' → Mutates c s s' → P s → P s')
    (hclear : ∀ s c', IndexInv c s → c'.index = c.index → P s → P (Writer.clear c' s))
    (hbuild : ∀ s c' o fuel env st' roots0 items0 ts0 roots' ts', IndexInv c' s → c'.index = c.index →
      (Op.build c' o fuel env).wf → Q (.build c' o fuel env) → Old c' s roots0 items0 ts0 →
      BuildOut c' o s st'.store roots0 ts0 roots' ts' →
      Build.build c' o fuel { env with store := s } = .ok ((), st') → P s → P st'.store)
    (hprepare : ∀ s c' m' s', IndexInv c s → IndexInv c s' → c'.index = c.index → m' ≠ c'.metric →
      Q (.prepare c' m') → Writer.prepareChangingDistance c' m' s = .ok s' → Unbuilt c s' → P s → P s')
    (ops : List Op) (hops : ∀ op ∈ ops, op.wf) (hQ : ∀ op ∈ ops, Q op) :
    ∀ (s0 : Store), (∀ c : Cfg, c.index < 65536 → IndexInv c s0) → P s0 → P (ops.foldl step s0) := by
  induction ops with
  | nil => intro s _ h; exact h
  | cons op ops ih =>
    intro s hinv hP
    simp only [List.foldl_cons]
    have hop := hops op (by simp)
    refine ih (fun op' h' => hops op' (List.mem_cons_of_mem _ h')) (fun op' h' => hQ op' (List.mem_cons_of_mem _ h')) _
      (C01_inv_step hfresh s op hop hinv) ?_
    have hc := hinv c hi
    have hnext := C01_inv_step hfresh s op hop hinv c hi
    cases op with
    | add c' id vec =>
      simp only [step] at hnext ⊢
      cases h : Writer.addItem c' s id vec with
      | ok s' => rw [h] at hnext; exact hmut s s' hc hnext (Mutates.add h) hP
      | error e => exact hP
    | append c' id vec =>
      simp only [step] at hnext ⊢
      cases h : Writer.appendItem c' s id vec with
      | ok s' => rw [h] at hnext; exact hmut s s' hc hnext (Mutates.add (Writer.appendItem_ok_eq_addItem hc.1.1 h)) hP
      | error e => exact hP
    | del c' id => exact hmut s _ hc hnext (Mutates.del c c' s id) hP
    | clear c' =>
      by_cases he : c'.index = c.index
      · exact hclear s c' hc he hP
      · exact hmut s _ hc hnext (Mutates.clear_other hc.1.2.1 hop (fun e => he e.symm)) hP
    | build c' o fuel env =>
      simp only [step] at hnext ⊢
      cases h : Build.build c' o fuel { env with store := s } with
      | error e => exact hP
      | ok r =>
        obtain ⟨u, st'⟩ := r
        rw [h] at hnext
        have hinv' := hinv c' hop.1
        obtain ⟨roots0, items0, ts0, old⟩ := Old.of_inv hinv'.1 hop.1
        obtain ⟨roots', ts', b⟩ := C01_build_out c' o fuel { env with store := s } st' roots0 items0 ts0 hop.1 hop.2.1
          hfresh hinv'.1.1 hinv'.1.2.1 old h
        by_cases he : c'.index = c.index
        · exact hbuild s c' o fuel env st' roots0 items0 ts0 roots' ts' hinv' he hop (hQ _ (by simp)) old b h hP
        · exact hmut s _ hc hnext (Mutates.build_other b (fun e => he e.symm)) hP
    | prepare c' m' =>
      simp only [step] at hnext ⊢
      cases h : Writer.prepareChangingDistance c' m' s with
      | error e => exact hP
      | ok s' =>
        rw [h] at hnext
        have hinv' := hinv c' hop
        by_cases he : c'.index = c.index
        · by_cases hne : m' = c'.metric
          · subst hne
            rw [C18.C18_same] at h
            cases h; exact hP
          · exact hprepare s c' m' s' hc hnext he hne (hQ _ (by simp)) h
              (prepare_unbuilt hne hc.1.2.1 hc.1.1 hop hinv'.1.2.2.1 he.symm h).1 hP
        · exact hmut s s' hc hnext
            (Mutates.prepare_other hc.1.2.1 hc.1.1 hop hinv'.1.2.2.1 h (fun e => he e.symm)) hP

/-- induction over histories for a property `P` of the store that concerns index `c` only:
    `P` must survive the marked mutations (`Mutates`: item operations on any index, builds, clears and
    metric changes of other indexes), a clear of the index, a metric change of the index to another metric
    (after which the index is `Unbuilt`), and a successful build of the index (given everything
    `C01_build_out` establishes about it). `Q` is a side condition on the operations of the history. -/
theorem C01_history_induction (hfresh : FreshSupply) (c : Cfg) (hi : c.index < 65536) (P : Store → Prop)
    (Q : Op → Prop)
    (h0 : P [])
    (hmut : ∀ s s', IndexInv c s → IndexInv c s' → Mutates c s s' → P s → P s')
    (hclear : ∀ s c', IndexInv c s → c'.index = c.index → P s → P (Writer.clear c' s))
    (hbuild : ∀ s c' o fuel env st' roots0 items0 ts0 roots' ts', IndexInv c' s → c'.index = c.index →
      (Op.build c' o fuel env).wf → Q (.build c' o fuel env) → Old c' s roots0 items0 ts0 →
      BuildOut c' o s st'.store roots0 ts0 roots' ts' →
      Build.build c' o fuel { env with store := s } = .ok ((), st') → P s → P st'.store)
    (hprepare : ∀ s c' m' s', IndexInv c s → IndexInv c s' → c'.index = c.index → m' ≠ c'.metric →
      Q (.prepare c' m') → Writer.prepareChangingDistance c' m' s = .ok s' → Unbuilt c s' → P s → P s')
    (ops : List Op) (hops : ∀ op ∈ ops, op.wf) (hQ : ∀ op ∈ ops, Q op) : P (run ops) :=
  C01_history_induction_from hfresh c hi P Q hmut hclear hbuild hprepare ops hops hQ []
    (fun c _ => C01_inv_empty c) h0

end Arroy.C01
