import ArroyProofs.KernelCover
import ArroyProofs.SoftFloatSymm
import ArroyProofs.KernelF32
import ArroyProofs.SoftFloatRange
import ArroyProofs.KernelRound
import ArroyProofs.KernelRoundSimd
import ArroyModel.Distance
/-! # C11 — reported distances equal the metric's definition for every vector shape

* `C11_cover_*` : over any commutative ring the scalar, SSE-shaped and AVX-shaped kernels compute
  `Σ uᵢvᵢ` resp. `Σ (uᵢ−vᵢ)²` for **every** length (every index exactly once).
* `C11_dispatch` : which kernel the run-time dispatch selects.
* `C11_symm_*`, `C11_symm` : on the soft-float instance all distances are bit-identical under swapping
  the two arguments.
* `C11_self_zero_*` : Euclidean and Manhattan self distance of a finite non-empty vector is exactly `+0.0`.
* `C11_cosine_range`, `C11_cosine_nan` : the cosine distance is in `[0, 1]` unless the quotient is NaN
  (then it is the canonical NaN).  Cosine self distance `= 0` is *not* a theorem (it can be `2⁻²⁵`-ish).
* `C11_round`, `C11_round_simd` : in the standard model of floating-point arithmetic the scalar, SSE and
  AVX kernels are within `((1+u)^K − 1)·Σ|termᵢ|` of the exact sum, `K` the depth of the summation.
  That the soft-float instance (and the FPU) satisfies the standard model in the absence of
  overflow/underflow is not proved here (validated differentially).
-/
namespace Arroy.C11
open Arroy Kernel KernelF32

/-! ## cover -/

section cover
variable {R : Type} [CommRing R]

theorem C11_cover_dot_scalar (u v : List R) :
    dotScalar (ringArith R) u v = (List.zipWith (· * ·) u v).sum := KernelCover.dotScalar_eq u v

theorem C11_cover_dot_sse (u v : List R) (h : u.length = v.length) :
    dotSse (ringArith R) u v = (List.zipWith (· * ·) u v).sum := KernelCover.dotSse_eq u v h

theorem C11_cover_dot_avx (u v : List R) (h : u.length = v.length) :
    dotAvx (ringArith R) u v = (List.zipWith (· * ·) u v).sum := KernelCover.dotAvx_eq u v h

theorem C11_cover_euclid_scalar (u v : List R) :
    euclidScalar (ringArith R) u v = (List.zipWith (fun a b => (a - b) * (a - b)) u v).sum :=
  KernelCover.euclidScalar_eq u v

theorem C11_cover_euclid_sse (u v : List R) (h : u.length = v.length) :
    euclidSse (ringArith R) u v = (List.zipWith (fun a b => (a - b) * (a - b)) u v).sum :=
  KernelCover.euclidSse_eq u v h

theorem C11_cover_euclid_avx (u v : List R) (h : u.length = v.length) :
    euclidAvx (ringArith R) u v = (List.zipWith (fun a b => (a - b) * (a - b)) u v).sum :=
  KernelCover.euclidAvx_eq u v h

/-- all three code paths agree, for every length -/
theorem C11_cover_agree (u v : List R) (h : u.length = v.length) :
    dotSse (ringArith R) u v = dotScalar (ringArith R) u v ∧
    dotAvx (ringArith R) u v = dotScalar (ringArith R) u v ∧
    euclidSse (ringArith R) u v = euclidScalar (ringArith R) u v ∧
    euclidAvx (ringArith R) u v = euclidScalar (ringArith R) u v := by
  rw [C11_cover_dot_sse u v h, C11_cover_dot_avx u v h, C11_cover_dot_scalar,
      C11_cover_euclid_sse u v h, C11_cover_euclid_avx u v h, C11_cover_euclid_scalar]
  exact ⟨rfl, rfl, rfl, rfl⟩
end cover

/-! ## dispatch -/

/-- the kernel selected by `dot_product` / `euclidean_distance`: AVX needs `avx ∧ fma` and ≥ 32
components, SSE needs `sse` and ≥ 16 components, otherwise the scalar loop -/
theorem C11_dispatch (h : Host) (u v : List Nat) :
    (h.avx = true ∧ h.fma = true ∧ 32 ≤ u.length →
      dotProduct h u v = dotAvx f32Arith u v ∧ euclideanDistance h u v = euclidAvx f32Arith u v) ∧
    (¬ (h.avx = true ∧ h.fma = true ∧ 32 ≤ u.length) → h.sse = true ∧ 16 ≤ u.length →
      dotProduct h u v = dotSse f32Arith u v ∧ euclideanDistance h u v = euclidSse f32Arith u v) ∧
    (¬ (h.avx = true ∧ h.fma = true ∧ 32 ≤ u.length) → ¬ (h.sse = true ∧ 16 ≤ u.length) →
      dotProduct h u v = dotScalar f32Arith u v ∧
      euclideanDistance h u v = euclidScalar f32Arith u v) := by
  unfold dotProduct euclideanDistance
  simp only [Generated.minDimAvx, Generated.minDimSimd, Bool.and_eq_true, decide_eq_true_eq, ge_iff_le]
  refine ⟨?_, ?_, ?_⟩
  · intro ⟨a, b, c⟩; simp [a, b, c]
  · intro n ⟨a, b⟩
    have n' : ¬ ((h.avx = true ∧ h.fma = true) ∧ 32 ≤ u.length) := fun ⟨⟨x, y⟩, z⟩ => n ⟨x, y, z⟩
    simp [n', a, b]
  · intro n n2
    have n' : ¬ ((h.avx = true ∧ h.fma = true) ∧ 32 ≤ u.length) := fun ⟨⟨x, y⟩, z⟩ => n ⟨x, y, z⟩
    simp [n', n2]

/-! ## symmetry on the soft-float instance -/

/-- `dot_product(u, v) = dot_product(v, u)`, bit for bit, whatever kernel the host selects -/
theorem C11_symm_dot (h : Host) (u v : List Nat) (hl : u.length = v.length) :
    dotProduct h u v = dotProduct h v u := by
  unfold dotProduct
  rw [dotAvx_symm u v hl, dotSse_symm u v hl, dotScalar_symm u v, hl]

theorem C11_symm_euclid (h : Host) (u v : List Nat) (hl : u.length = v.length) :
    euclideanDistance h u v = euclideanDistance h v u := by
  unfold euclideanDistance
  rw [euclidAvx_symm u v hl, euclidSse_symm u v hl, euclidScalar_symm u v, hl]

theorem C11_symm_manhattan (u v : List Nat) : manhattanDistance u v = manhattanDistance v u := by
  unfold manhattanDistance manhattanWith
  rw [zipWith_swap (fun a b => F32.abs (f32Arith.sub a b)) (fun a b => SF.sub_abs_symm F32.fmt a b)]

/-- the distance between two stored leaves does not depend on their order, bit for bit — all metrics -/
theorem C11_symm (m : Metric) (h : Host) (ph pv qh qv : List Nat) (hl : pv.length = qv.length) :
    Metric.builtDistance m h ph pv qh qv = Metric.builtDistance m h qh qv ph pv := by
  cases m <;> simp only [Metric.builtDistance]
  · exact C11_symm_euclid h pv qv hl
  · exact C11_symm_manhattan pv qv
  · rw [C11_symm_dot h pv qv hl, show F32.mul (Metric.hdrNorm .cosine ph) (Metric.hdrNorm .cosine qh)
        = F32.mul (Metric.hdrNorm .cosine qh) (Metric.hdrNorm .cosine ph) from SF.mul_comm _ _ _]
  · rw [C11_symm_dot h pv qv hl]
  · rw [hamming_symm]
  · rw [hamming_symm]
  · -- the norm product of the quantised cosine metric is computed from the two (equal) lengths
    rw [bqDot_symm pv qv, show F32.mul (F32.ofNat (Generated.quantizedWordBits * pv.length))
          (F32.ofNat (Generated.quantizedWordBits * qv.length))
        = F32.mul (F32.ofNat (Generated.quantizedWordBits * qv.length))
          (F32.ofNat (Generated.quantizedWordBits * pv.length)) from SF.mul_comm _ _ _]

/-! ## self distance -/

/-- Euclidean self distance: for every non-empty vector of finite components the squared distance
computed by whichever kernel is selected is exactly `+0.0`, and so is the reported distance
`sqrt` of it.  (For the empty vector the scalar loop returns the `-0.0` the sum starts from.) -/
theorem C11_self_zero_euclid (h : Host) (v ph qh : List Nat) (dims : Nat) (hne : v ≠ [])
    (hfin : ∀ x ∈ v, finite x = true) :
    euclideanDistance h v v = F32.zero ∧
    Metric.builtDistance .euclidean h ph v qh v = F32.zero ∧
    Metric.normalizedDistance .euclidean (Metric.builtDistance .euclidean h ph v qh v) dims = F32.zero := by
  have e : euclideanDistance h v v = 0 := by
    unfold euclideanDistance
    rw [euclidAvx_self v hfin, euclidSse_self v hfin, euclidScalar_self v hne hfin]
    simp
  refine ⟨e, e, ?_⟩
  show F32.sqrt (euclideanDistance h v v) = 0
  rw [e]; decide

/-- Manhattan self distance: exactly `+0.0` for every non-empty vector of finite components -/
theorem C11_self_zero_manhattan (h : Host) (v ph qh : List Nat) (dims : Nat) (hne : v ≠ [])
    (hfin : ∀ x ∈ v, finite x = true) :
    manhattanDistance v v = F32.zero ∧
    Metric.builtDistance .manhattan h ph v qh v = F32.zero ∧
    Metric.normalizedDistance .manhattan (Metric.builtDistance .manhattan h ph v qh v) dims = F32.zero := by
  have e : manhattanDistance v v = 0 := manhattan_self v hne hfin
  refine ⟨e, e, ?_⟩
  show Metric.normalizedDistance .manhattan (manhattanDistance v v) dims = 0
  rw [e]
  show (if F32.isNaN 0 = true then 0 else F32.max 0 F32.zero) = 0
  decide

/-! ## cosine range -/

/-- Cosine distance between two stored leaves: whenever the quotient `p·q / (‖p‖‖q‖)` is not NaN the
result lies in `[0, 1]` (it is `+0` when the product of the norms is not above `f32::EPSILON`).
Self distance is *not* claimed to be `0`: `dot(v,v) / sqrt(dot(v,v))²` can be `1 - 2⁻²⁴`. -/
theorem C11_cosine_range (h : Host) (ph pv qh qv : List Nat)
    (hq : F32.isNaN (F32.div (dotProduct h pv qv)
      (F32.mul (Metric.hdrNorm .cosine ph) (Metric.hdrNorm .cosine qh))) = false) :
    F32.le F32.zero (Metric.builtDistance .cosine h ph pv qh qv) = true ∧
    F32.le (Metric.builtDistance .cosine h ph pv qh qv) F32.one = true := by
  simp only [Metric.builtDistance]
  split
  · exact SF.cosine_formula_range _ hq
  · decide

/-- … and a NaN quotient is reported as the canonical NaN (when the norms pass the threshold) -/
theorem C11_cosine_nan (h : Host) (ph pv qh qv : List Nat)
    (hn : F32.gt (F32.mul (Metric.hdrNorm .cosine ph) (Metric.hdrNorm .cosine qh)) F32.epsilon = true)
    (hq : F32.isNaN (F32.div (dotProduct h pv qv)
      (F32.mul (Metric.hdrNorm .cosine ph) (Metric.hdrNorm .cosine qh))) = true) :
    Metric.builtDistance .cosine h ph pv qh qv = SF.qnan F32.fmt := by
  simp only [Metric.builtDistance, hn, if_true]
  exact SF.cosine_formula_nan _ hq

/-! ## rounding error in the standard model -/

/-- Standard model of floating-point arithmetic (`fl(x∘y) = (x∘y)(1+δ)`, `|δ| ≤ u`): the scalar loops
are within the classical bound `((1+u)^(n+c) − 1)·Σ|termᵢ|` of the exact sums
(`c = 1` for the dot product and Manhattan, `c = 3` for the squared Euclidean distance). -/
theorem C11_round (A : Arith ℝ) (u : ℝ) (hA : StdModel A u) (x y : List ℝ) (n : Nat)
    (hx : x.length = n) (hy : y.length = n) :
    |dotScalar A x y - (List.zipWith (· * ·) x y).sum|
      ≤ ((1 + u)^(n + 1) - 1) * ((List.zipWith (· * ·) x y).map (fun t => |t|)).sum ∧
    |euclidScalar A x y - (List.zipWith (fun a b => (a - b) * (a - b)) x y).sum|
      ≤ ((1 + u)^(n + 3) - 1) * ((List.zipWith (fun a b => (a - b) * (a - b)) x y).map (fun t => |t|)).sum ∧
    |manhattanWith A (fun t => |t|) x y - (List.zipWith (fun a b => |a - b|) x y).sum|
      ≤ ((1 + u)^(n + 1) - 1) * ((List.zipWith (fun a b => |a - b|) x y).map (fun t => |t|)).sum :=
  ⟨KernelRound.dotScalar_round hA x y n hx hy, KernelRound.euclidScalar_round hA x y n hx hy,
   KernelRound.manhattan_round hA x y n hx hy⟩

/-- The same for the vectorised kernels (any summation order they use): the exponent is the depth of
the summation tree, `⌊n/16⌋ + n mod 16 + c` (SSE) resp. `⌊n/32⌋ + n mod 32 + c` (AVX, with FMA),
so the vector kernels are *more* accurate than the plain loop for long vectors. -/
theorem C11_round_simd (A : Arith ℝ) (u : ℝ) (hA : StdModel A u) (x y : List ℝ) (hl : x.length = y.length) :
    |dotSse A x y - (List.zipWith (· * ·) x y).sum|
      ≤ ((1 + u)^(x.length / 16 + x.length % 16 + 6) - 1)
        * ((List.zipWith (· * ·) x y).map (fun t => |t|)).sum ∧
    |dotAvx A x y - (List.zipWith (· * ·) x y).sum|
      ≤ ((1 + u)^(x.length / 32 + x.length % 32 + 7) - 1)
        * ((List.zipWith (· * ·) x y).map (fun t => |t|)).sum ∧
    |euclidSse A x y - (List.zipWith (fun a b => (a - b) * (a - b)) x y).sum|
      ≤ ((1 + u)^(x.length / 16 + x.length % 16 + 8) - 1)
        * ((List.zipWith (fun a b => (a - b) * (a - b)) x y).map (fun t => |t|)).sum ∧
    |euclidAvx A x y - (List.zipWith (fun a b => (a - b) * (a - b)) x y).sum|
      ≤ ((1 + u)^(x.length / 32 + x.length % 32 + 9) - 1)
        * ((List.zipWith (fun a b => (a - b) * (a - b)) x y).map (fun t => |t|)).sum :=
  ⟨KernelRound.dotSse_round hA x y hl, KernelRound.dotAvx_round hA x y hl,
   KernelRound.euclidSse_round hA x y hl, KernelRound.euclidAvx_round hA x y hl⟩

/-! ## non-vacuity -/
section examples

/-- a length with non-zero remainders modulo 16 and 32, above both thresholds -/
def exU : List Int := (List.range 37).map (fun (i : Nat) => (i : Int) - 11)
def exV : List Int := (List.range 37).map (fun (i : Nat) => 3 * (i : Int) + 2)

example : dotAvx (ringArith Int) exU exV = (List.zipWith (· * ·) exU exV).sum :=
  C11_cover_dot_avx exU exV (by simp [exU, exV])
example : euclidSse (ringArith Int) exU exV = (List.zipWith (fun a b => (a - b) * (a - b)) exU exV).sum :=
  C11_cover_euclid_sse exU exV (by simp [exU, exV])
example : exU.length % 32 = 5 ∧ exU.length % 16 = 5 := by simp [exU]

/-- 1.0, π, -2.5, 1e-40 (subnormal), -0.0 -/
def exP : List Nat := [0x3f800000, 0x40490fdb, 0xc0200000, 0x000116c2, 0x80000000]
def exQ : List Nat := [0x3e99999a, 0xbf000000, 0x7f7fffff, 0x00000001, 0x00000000]

example : ∀ x ∈ exP, finite x = true := by decide
example : exP ≠ [] := by decide
example : euclideanDistance {} exP exP = F32.zero := (C11_self_zero_euclid {} exP [] [] 5 (by decide) (by decide)).1
example : manhattanDistance exP exP = F32.zero := (C11_self_zero_manhattan {} exP [] [] 5 (by decide) (by decide)).1
/-- without the finiteness hypothesis the claim is false: `inf - inf = NaN` -/
example : euclideanDistance {} [F32.inf] [F32.inf] ≠ F32.zero := by decide
/-- … and for the empty vector the scalar loop returns the `-0.0` the sum starts from -/
example : euclideanDistance {} [] [] = F32.negZero := by decide

example : Metric.builtDistance .cosine {} [F32.two] exP [F32.one] exQ
    = Metric.builtDistance .cosine {} [F32.one] exQ [F32.two] exP := C11_symm .cosine {} _ _ _ _ (by decide)
/-- the symmetric value is not trivially a constant -/
example : Metric.builtDistance .euclidean {} [] exP [] exQ ≠ F32.zero := by decide

/-- hypotheses of `C11_cosine_range` hold on a concrete pair (norm product `2.0 > ε`) -/
example : F32.isNaN (F32.div (dotProduct {} [F32.one, F32.two] [F32.two, F32.one])
    (F32.mul (Metric.hdrNorm .cosine [F32.two]) (Metric.hdrNorm .cosine [F32.one]))) = false := by decide
example : F32.gt (F32.mul (Metric.hdrNorm .cosine [F32.two]) (Metric.hdrNorm .cosine [F32.one])) F32.epsilon = true := by
  decide

/-- … and of `C11_cosine_nan` (`inf · 0 = NaN`) -/
example : F32.isNaN (F32.div (dotProduct {} [F32.inf] [F32.zero])
    (F32.mul (Metric.hdrNorm .cosine [F32.two]) (Metric.hdrNorm .cosine [F32.one]))) = true := by decide

/-- the three branches of `C11_dispatch` are all reachable -/
example : dotProduct {} (List.replicate 37 F32.one) (List.replicate 37 F32.two)
    = dotAvx f32Arith (List.replicate 37 F32.one) (List.replicate 37 F32.two) :=
  ((C11_dispatch {} _ _).1 ⟨rfl, rfl, by simp⟩).1
example : dotProduct { avx := false } (List.replicate 37 F32.one) (List.replicate 37 F32.two)
    = dotSse f32Arith (List.replicate 37 F32.one) (List.replicate 37 F32.two) :=
  ((C11_dispatch { avx := false } _ _).2.1 (by simp) ⟨rfl, by simp⟩).1
example : dotProduct {} (List.replicate 15 F32.one) (List.replicate 15 F32.two)
    = dotScalar f32Arith (List.replicate 15 F32.one) (List.replicate 15 F32.two) :=
  ((C11_dispatch {} _ _).2.2 (by simp) (by simp)).1

/-- exact real arithmetic is a standard model for every `u ≥ 0` … -/
example (u : ℝ) (hu : 0 ≤ u) : StdModel (ringArith ℝ) u where
  u_nonneg := hu
  sumInit := rfl
  zero := rfl
  add := fun x y => ⟨0, by simpa using hu, by simp [ringArith]⟩
  sub := fun x y => ⟨0, by simpa using hu, by simp [ringArith]⟩
  mul := fun x y => ⟨0, by simpa using hu, by simp [ringArith]⟩
  fma := fun x y z => ⟨0, by simpa using hu, by simp [ringArith]⟩

/-- … and so is an arithmetic that always errs by the full `u` -/
example (u : ℝ) (hu : 0 ≤ u) : StdModel
    { zero := 0, sumInit := 0, add := fun x y => (x + y) * (1 + u), sub := fun x y => (x - y) * (1 - u),
      mul := fun x y => (x * y) * (1 + u), fma := fun x y z => (x * y + z) * (1 - u) } u where
  u_nonneg := hu
  sumInit := rfl
  zero := rfl
  add := fun x y => ⟨u, by rw [abs_of_nonneg hu], rfl⟩
  sub := fun x y => ⟨-u, by rw [abs_neg, abs_of_nonneg hu], by ring⟩
  mul := fun x y => ⟨u, by rw [abs_of_nonneg hu], rfl⟩
  fma := fun x y z => ⟨-u, by rw [abs_neg, abs_of_nonneg hu], by ring⟩

end examples

end Arroy.C11
