import ArroyProofs.Properties.C01
import ArroyProofs.ForestUnique
/-! # C15 — the build honours the tree count and the bucket capacity

Corollaries of `C01.C01_build_out`. `rootsOf c s` are the roots listed in the metadata (what
`Reader::n_trees` reports), `Check.trees c s` the trees read at those roots. -/
namespace Arroy.C15
open Arroy Generated Transp Build

theorem rootsOf_of_out {c : Cfg} {o : BuildOpts} {s s' : Store} {roots0 roots' : List Nat} {ts0 ts' : List T}
    (b : BuildOut c o s s' roots0 ts0 roots' ts') : rootsOf c s' = roots' := by
  simp [rootsOf, b.metadata]

/-- more items than one bucket holds: the new forest has exactly `targetNTrees` trees (the requested
    number, or the automatic one), whatever the old number of trees was; at least one unless 0 trees
    were requested -/
theorem C15_root_count (c : Cfg) (o : BuildOpts) (fuel : Nat) (st st' : BState)
    (hi : c.index < 65536) (hcap : 1 ≤ cap c o) (hfresh : FreshSupply)
    (hinv : IndexInvW c st.store) (h : build c o fuel st = .ok ((), st'))
    (hbig : fits (cap c o) (st.store.keysOf c.index modeItem).length = false) :
    (rootsOf c st'.store).length =
      targetNTrees o c.dims (st.store.keysOf c.index modeItem).length (rootsOf c st.store).length ∧
    (o.nTrees ≠ some 0 → 1 ≤ (rootsOf c st'.store).length) ∧
    (∀ n, o.nTrees = some n → (rootsOf c st'.store).length = n) := by
  obtain ⟨roots0, items0, ts0, old⟩ := Old.of_inv hinv hi
  obtain ⟨roots', ts', b⟩ := C01.C01_build_out c o fuel st st' roots0 items0 ts0 hi hcap hfresh hinv.1 hinv.2.1 old h
  rw [rootsOf_of_out b, old.roots_eq]
  refine ⟨b.count hbig, ?_, ?_⟩
  · intro hn
    have := b.rootsNonempty hn (by
      intro e
      rw [e] at hbig
      simp only [List.length_nil, fits, Nat.zero_le, decide_true] at hbig
      cases hbig)
    cases hr : roots' with
    | nil => exact absurd hr this
    | cons a l => simp
  · intro n hn
    rw [b.count hbig, C15_requested o n _ _ _ hn]

/-- the index fits in one bucket: exactly one tree (the bucket `0`), none if the index is empty -/
theorem C15_single (c : Cfg) (o : BuildOpts) (fuel : Nat) (st st' : BState)
    (hi : c.index < 65536) (hcap : 1 ≤ cap c o) (hfresh : FreshSupply)
    (hinv : IndexInvW c st.store) (h : build c o fuel st = .ok ((), st'))
    (hfit : fits (cap c o) (st.store.keysOf c.index modeItem).length = true) :
    rootsOf c st'.store = (if (st.store.keysOf c.index modeItem).isEmpty then [] else [0]) ∧
    Check.trees c st'.store =
      (if (st.store.keysOf c.index modeItem).isEmpty then [] else [.bucket 0 (st.store.keysOf c.index modeItem)]) := by
  obtain ⟨roots0, items0, ts0, old⟩ := Old.of_inv hinv hi
  obtain ⟨roots', ts', b⟩ := C01.C01_build_out c o fuel st st' roots0 items0 ts0 hi hcap hfresh hinv.1 hinv.2.1 old h
  obtain ⟨hr, ht⟩ := b.single hfit
  exact ⟨by rw [rootsOf_of_out b, hr], by rw [b.trees, ht]⟩

/-- constant capacity: if no bucket of the old forest holds more than `cap` items, no bucket of the
    new forest does (every over-full bucket met or created by the build is queued and re-split, and
    the re-split loop only ends when its queue is empty) -/
theorem C15_capacity (c : Cfg) (o : BuildOpts) (fuel : Nat) (st st' : BState)
    (hi : c.index < 65536) (hcap : 1 ≤ cap c o) (hfresh : FreshSupply)
    (hinv : IndexInvW c st.store) (h : build c o fuel st = .ok ((), st'))
    (hold : ∀ t ∈ Check.trees c st.store, ∀ bk ∈ t.buckets, bk.2.length ≤ cap c o) :
    ∀ t ∈ Check.trees c st'.store, ∀ bk ∈ t.buckets, bk.2.length ≤ cap c o := by
  obtain ⟨roots0, items0, ts0, old⟩ := Old.of_inv hinv hi
  obtain ⟨roots', ts', b⟩ := C01.C01_build_out c o fuel st st' roots0 items0 ts0 hi hcap hfresh hinv.1 hinv.2.1 old h
  rw [b.trees]
  rw [Check.trees_of_old old] at hold
  exact b.capacity hold

theorem capacityOk_nil_iff (c : Cfg) (s : Store) (k : Nat) :
    Check.capacityOk c s k = [] ↔ ∀ t ∈ Check.trees c s, ∀ bk ∈ t.buckets, bk.2.length ≤ k := by
  unfold Check.capacityOk
  simp only [List.flatMap_eq_nil_iff, List.filterMap_eq_nil_iff]
  constructor
  · intro h t ht bk hbk
    have := h t ht bk hbk
    obtain ⟨id, its⟩ := bk
    simp only at this
    split at this
    · assumption
    · cases this
  · intro h t ht bk hbk
    obtain ⟨id, its⟩ := bk
    simp only
    rw [if_pos (h t ht (id, its) hbk)]

/-- the same, as the verdict of the executable checker -/
theorem C15_capacity_checker (c : Cfg) (o : BuildOpts) (fuel : Nat) (st st' : BState)
    (hi : c.index < 65536) (hcap : 1 ≤ cap c o) (hfresh : FreshSupply)
    (hinv : IndexInvW c st.store) (h : build c o fuel st = .ok ((), st'))
    (hold : Check.capacityOk c st.store (cap c o) = []) : Check.capacityOk c st'.store (cap c o) = [] := by
  rw [capacityOk_nil_iff] at hold ⊢
  exact C15_capacity c o fuel st st' hi hcap hfresh hinv h hold

/-- a first build (no metadata yet) yields a forest within capacity, whatever was requested -/
theorem C15_capacity_first (c : Cfg) (o : BuildOpts) (fuel : Nat) (st st' : BState)
    (hi : c.index < 65536) (hcap : 1 ≤ cap c o) (hfresh : FreshSupply)
    (hinv : IndexInvW c st.store) (hm : Store.get st.store c.metaKey = none)
    (h : build c o fuel st = .ok ((), st')) :
    ∀ t ∈ Check.trees c st'.store, ∀ bk ∈ t.buckets, bk.2.length ≤ cap c o := by
  apply C15_capacity c o fuel st st' hi hcap hfresh hinv h
  intro t ht
  simp [Check.trees, hm] at ht

/-! ## constant capacity over a whole history -/

/-- every build of index `c` in the history uses the capacity `K` -/
def capIs (c : Cfg) (K : Nat) : C01.Op → Prop
  | .build c' o _ _ => c'.index = c.index → cap c' o = K
  | _ => True

/-- **C15, capacity**: in every state of a history whose builds of the index all use the bucket
    capacity `K` (≥ 1), no bucket of the forest holds more than `K` items -/
theorem C15_capacity_history (hfresh : FreshSupply) (c : Cfg) (hi : c.index < 65536) (K : Nat)
    (ops : List C01.Op) (hops : ∀ op ∈ ops, op.wf) (hK : ∀ op ∈ ops, capIs c K op) :
    ∀ t ∈ Check.trees c (C01.run ops), ∀ bk ∈ t.buckets, bk.2.length ≤ K := by
  apply C01.C01_history_induction hfresh c hi
    (fun s => ∀ t ∈ Check.trees c s, ∀ bk ∈ t.buckets, bk.2.length ≤ K) (capIs c K) _ _ _ _ _ ops hops hK
  · intro t ht
    simp [Check.trees, Store.get] at ht
  · intro s s' hinv _ m hP
    rw [Check.trees_mutate hinv.1 hi m]
    exact hP
  · intro s c' _ he _ t ht
    have : Store.get (Writer.clear c' s) c.metaKey = none := Writer.get_clear_same c' s _ he.symm
    simp [Check.trees, this] at ht
  · intro s c' o fuel env st' roots0 items0 ts0 roots' ts' _ he hwf hq old b _ hP
    have hcap : cap c' o = K := hq he
    rw [← Check.trees_congr_index he, b.trees]
    rw [← Check.trees_congr_index he, Check.trees_of_old old] at hP
    rw [← hcap] at hP ⊢
    exact b.capacity hP
  · intro s c' m' s' _ _ _ _ _ _ hu _ t ht
    simp [Check.trees, hu.1] at ht

theorem C15_capacity_history_checker (hfresh : FreshSupply) (c : Cfg) (hi : c.index < 65536) (K : Nat)
    (ops : List C01.Op) (hops : ∀ op ∈ ops, op.wf) (hK : ∀ op ∈ ops, capIs c K op) :
    Check.capacityOk c (C01.run ops) K = [] :=
  (capacityOk_nil_iff c _ K).2 (C15_capacity_history hfresh c hi K ops hops hK)

end Arroy.C15
