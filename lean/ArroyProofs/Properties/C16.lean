import ArroyProofs.KeyLemmas
import ArroyModel.Codec
/-! # C16 — the on-disk format stays readable

Key layout theorems for **all** keys, and the obligation tying the layout extracted from the
current sources (`Generated`) to the reference layout of DESIGN.md Appendix A. -/
namespace Arroy.C16
open Arroy Generated

/-- The reference layout (what the pinned reference version writes). -/
structure Layout where
  modes : List Nat
  metadataKey : Nat × Nat
  versionKey : Nat × Nat
  nodeId : Nat × Bool × Bool × Bool
  keyFields : List (KeyField × Bool)
  keyPadding : Nat
  codecsMatch : List Bool
  tags : List Nat
  metadataLayout : List MetaField
  versionLayout : List (VerField × Bool)
  names : List (List Nat)
  headers : List (List HeaderField)
  isBq : List Bool
  wordBits : Nat
  oldModes : List Nat
  deriving DecidableEq

def reference : Layout where
  modes := [0, 1, 2, 3]
  metadataKey := (0, 0)
  versionKey := (0, 1)
  nodeId := (5, true, true, true)
  keyFields := [(.index, true), (.mode, true), (.item, true), (.padding, true)]
  keyPadding := 0
  codecsMatch := [true, true, true, true, true, true, true, true]
  tags := [0, 1, 2]
  metadataLayout := [.name, .nul, .dimsBe32, .itemsSizeBe32, .itemsRoaring, .rootsNative32]
  versionLayout := [(.major, true), (.minor, true), (.patch, true)]
  -- the ASCII bytes of: euclidean, manhattan, cosine, dot-product, binary quantized euclidean,
  -- binary quantized manhattan, binary quantized cosine
  names := [[101, 117, 99, 108, 105, 100, 101, 97, 110],
    [109, 97, 110, 104, 97, 116, 116, 97, 110],
    [99, 111, 115, 105, 110, 101],
    [100, 111, 116, 45, 112, 114, 111, 100, 117, 99, 116],
    [98, 105, 110, 97, 114, 121, 32, 113, 117, 97, 110, 116, 105, 122, 101, 100, 32, 101, 117, 99, 108, 105, 100, 101, 97, 110],
    [98, 105, 110, 97, 114, 121, 32, 113, 117, 97, 110, 116, 105, 122, 101, 100, 32, 109, 97, 110, 104, 97, 116, 116, 97, 110],
    [98, 105, 110, 97, 114, 121, 32, 113, 117, 97, 110, 116, 105, 122, 101, 100, 32, 99, 111, 115, 105, 110, 101]]
  headers := [[.bias], [.bias], [.norm], [.extraDim, .norm], [.bias], [.bias], [.norm]]
  isBq := [false, false, false, false, true, true, true]
  wordBits := 64
  oldModes := [0, 1, 2]

/-- The layout the current sources implement, as extracted on this run. -/
def current : Layout where
  modes := [modeMetadata, modeUpdated, modeTree, modeItem]
  metadataKey := (metadataKeyMode, metadataKeyItem)
  versionKey := (versionKeyMode, versionKeyItem)
  nodeId := (nodeIdLen, nodeIdModeFirst, nodeIdItemBigEndian, nodeIdDecoderMatches)
  keyFields := Generated.keyFields
  keyPadding := Generated.keyPadding
  codecsMatch := [modeDecoderTotal, keyDecoderMatches, prefixCodecMatches, prefixCtorsMatch, keyCtorsMatch,
    nodeIdCtorsMatch, nodeEncoderMatches, nodeDecoderMatches]
  tags := [leafTag, descendantsTag, splitTag]
  metadataLayout := Generated.metadataLayout
  versionLayout := Generated.versionLayout
  names := metricNameBytes
  headers := metricHeaders
  isBq := metricIsBq
  wordBits := quantizedWordBits
  oldModes := [oldModeItem, oldModeTree, oldModeMetadata]

/-- **Obligation**: the sources still implement the reference layout (tags, discriminants,
    field order, endianness, metric names, header shapes, codec structure). A consistent change of
    encoder and decoder breaks this theorem. -/
theorem C16_layout : current = reference := by decide

theorem encodeKey_eq (k : Key) : encodeKey k = be 2 k.index ++ (be 1 k.mode ++ (be 4 k.item ++ [0])) := by
  simp [encodeKey, Generated.keyFields, keyFieldBytes, encInt, Generated.keyPadding, be]

/-- every key is 8 bytes long -/
theorem C16_key_len (k : Key) : (encodeKey k).length = 8 := by
  simp [encodeKey_eq, be_length]

/-- byte order of the encoded keys = (index, kind, id) order, for **all** well-formed keys -/
theorem C16_key_order (a b : Key) (ha : a.wf) (hb : b.wf) :
    lexLt (encodeKey a) (encodeKey b) = a.lt b := by
  obtain ⟨a1, a2, a3⟩ := ha
  obtain ⟨b1, b2, b3⟩ := hb
  rw [encodeKey_eq, encodeKey_eq]
  unfold Key.lt
  rw [lexLt_append (by simp [be_length]), lexLt_append (by simp [be_length]), lexLt_append (by simp [be_length])]
  rw [be_lt 2 _ _ a1 b1, be_lt 1 _ _ a2 b2, be_lt 4 _ _ a3 b3, beq_be 2 _ _ a1 b1, beq_be 1 _ _ a2 b2]
  have : lexLt [0] [0] = false := by decide
  rw [this]
  cases decide (a.index < b.index) <;> cases (a.index == b.index) <;> cases decide (a.mode < b.mode) <;>
    cases (a.mode == b.mode) <;> cases decide (a.item < b.item) <;> cases (be 4 a.item == be 4 b.item) <;> rfl

/-- kinds sort as metadata < updated < tree < item -/
theorem C16_kind_order : modeMetadata < modeUpdated ∧ modeUpdated < modeTree ∧ modeTree < modeItem := by decide

def validMode (m : Nat) : Prop := m = modeMetadata ∨ m = modeUpdated ∨ m = modeTree ∨ m = modeItem

theorem take_append_of_length {α} (a b : List α) (n : Nat) (h : a.length = n) : (a ++ b).take n = a := by
  subst h; simp

theorem drop_append_of_length {α} (a b : List α) (n : Nat) (h : a.length = n) : (a ++ b).drop n = b := by
  subst h; simp

/-- decoding an encoded key gives the key back, for **all** keys -/
theorem C16_key_roundtrip (k : Key) (h : k.wf) (hm : validMode k.mode) : decodeKey (encodeKey k) = some k := by
  obtain ⟨h1, h2, h3⟩ := h
  have hl : (encodeKey k).length = 8 := C16_key_len k
  unfold decodeKey
  rw [encodeKey_eq] at *
  have e1 : (be 2 k.index ++ (be 1 k.mode ++ (be 4 k.item ++ [0]))).take 2 = be 2 k.index :=
    take_append_of_length _ _ 2 (be_length _ _)
  have e2 : (be 2 k.index ++ (be 1 k.mode ++ (be 4 k.item ++ [0]))).getD 2 0 = k.mode := by
    have : be 1 k.mode = [k.mode] := by
      simp only [be, Nat.pow_zero, Nat.div_one, Nat.mod_one]
      rw [Nat.mod_eq_of_lt (by simpa using h2)]
    rw [this]
    have hb : (be 2 k.index).length = 2 := be_length _ _
    match hbe : be 2 k.index, hb with
    | [x, y], _ => simp
  have e3 : ((be 2 k.index ++ (be 1 k.mode ++ (be 4 k.item ++ [0]))).drop 3).take 4 = be 4 k.item := by
    have : (be 2 k.index ++ (be 1 k.mode ++ (be 4 k.item ++ [0]))) = (be 2 k.index ++ be 1 k.mode) ++ (be 4 k.item ++ [0]) := by
      simp
    rw [this, drop_append_of_length _ _ 3 (by simp [be_length]), take_append_of_length _ _ 4 (be_length _ _)]
  simp only [hl, e1, e2, e3]
  rw [ofBe_be 2 _ h1, ofBe_be 4 _ h3]
  have hm' : k.mode = modeMetadata ∨ k.mode = modeUpdated ∨ k.mode = modeTree ∨ k.mode = modeItem := hm
  simp [hm']

/-- the encoding is injective on well-formed keys: distinct keys never collide -/
theorem C16_key_inj (a b : Key) (ha : a.wf) (hb : b.wf) (h : encodeKey a = encodeKey b) : a = b := by
  have h1 := C16_key_order a b ha hb
  have h2 := C16_key_order b a hb ha
  rw [h, lexLt_irrefl] at h1
  rw [← h, lexLt_irrefl] at h2
  unfold Key.lt at h1 h2
  have : a.index = b.index ∧ a.mode = b.mode ∧ a.item = b.item := by
    simp only [Bool.false_eq, Bool.or_eq_false_iff, Bool.and_eq_false_iff, decide_eq_false_iff_not,
      beq_eq_false_iff_ne] at h1 h2
    omega
  cases a; cases b; simp_all

/-- node ids inside split nodes: 5 bytes, kind then big-endian id, and back -/
theorem C16_nodeid_roundtrip (n : NodeId) (h1 : n.mode < 256) (h3 : n.item < 256^4) (hm : validMode n.mode)
    (rest : Bytes) : decodeNodeId (encodeNodeId n ++ rest) = some (n, rest) := by
  unfold decodeNodeId encodeNodeId
  have hb1 : be 1 n.mode = [n.mode] := by
    simp only [be, Nat.pow_zero, Nat.div_one, Nat.mod_one]
    rw [Nat.mod_eq_of_lt h1]
  have hl : (be 1 n.mode ++ be 4 n.item ++ rest).length = 5 + rest.length := by simp [be_length]; omega
  have e3 : ((be 1 n.mode ++ be 4 n.item ++ rest).drop 1).take 4 = be 4 n.item := by
    rw [hb1]; simp only [List.cons_append, List.nil_append, List.drop_succ_cons, List.drop_zero]
    exact take_append_of_length _ _ 4 (be_length _ _)
  have e5 : (be 1 n.mode ++ be 4 n.item ++ rest).drop 5 = rest := by
    have : be 1 n.mode ++ be 4 n.item ++ rest = (be 1 n.mode ++ be 4 n.item) ++ rest := by simp
    rw [this]; exact drop_append_of_length _ _ 5 (by simp [be_length])
  have e0 : (be 1 n.mode ++ be 4 n.item ++ rest).getD 0 0 = n.mode := by rw [hb1]; simp
  simp only [hl, e0, e3, e5, ofBe_be 4 _ h3]
  have hm' : n.mode = modeMetadata ∨ n.mode = modeUpdated ∨ n.mode = modeTree ∨ n.mode = modeItem := hm
  have : ¬ (5 + rest.length < 5) := by omega
  simp [hm', this]

/-- version records: three big-endian u32, and back -/
theorem C16_version_roundtrip (a b c : Nat) (ha : a < 256^4) (hb : b < 256^4) (hc : c < 256^4) :
    decodeVersion (encodeVal .euclidean (.version a b c)) = some (.version a b c) := by
  have e : encodeVal .euclidean (.version a b c) = be 4 a ++ (be 4 b ++ be 4 c) := by
    simp [encodeVal, Generated.versionLayout, verFieldBytes, encInt]
  rw [e]
  unfold decodeVersion
  have hl : (be 4 a ++ (be 4 b ++ be 4 c)).length = 12 := by simp [be_length]
  have e1 : (be 4 a ++ (be 4 b ++ be 4 c)).take 4 = be 4 a := take_append_of_length _ _ 4 (be_length _ _)
  have e2 : ((be 4 a ++ (be 4 b ++ be 4 c)).drop 4).take 4 = be 4 b := by
    rw [drop_append_of_length _ _ 4 (be_length _ _), take_append_of_length _ _ 4 (be_length _ _)]
  have e3 : ((be 4 a ++ (be 4 b ++ be 4 c)).drop 8).take 4 = be 4 c := by
    have : be 4 a ++ (be 4 b ++ be 4 c) = (be 4 a ++ be 4 b) ++ be 4 c := by simp
    rw [this, drop_append_of_length _ _ 8 (by simp [be_length])]
    have := take_append_of_length (be 4 c) [] 4 (be_length _ _)
    simpa using this
  simp [hl, e1, e2, e3, ofBe_be 4 _ ha, ofBe_be 4 _ hb, ofBe_be 4 _ hc]

/-- non-vacuity: a concrete key at the edge of every field meets the hypotheses -/
example : (⟨65535, modeItem, 4294967295⟩ : Key).wf ∧ validMode (⟨65535, modeItem, 4294967295⟩ : Key).mode := by
  refine ⟨by decide, ?_⟩
  right; right; right; rfl

end Arroy.C16
