import ArroyProofs.Imbalance
import ArroyProofs.NoFuel
import ArroyProofs.Properties.C03
import ArroyProofs.Properties.C05
/-! C20 — degenerate data never breaks a build or a search.

"No theorem of this development has a hypothesis on the stored values" is a statement about the
development, not a statement of Lean.  What is proved instead are the concrete totality facts it rests on:
every value-dependent decision of the build (`D::side`, the imbalance tests, `is_zero`) and of the search
(the distance order) is a total function of arbitrary bit patterns — NaN, infinities, zeros, duplicates —
and the storage and search theorems are restated here with their (value-free) hypotheses spelled out.

`Metric.isZero`, `splitImbalance`, `Build.targetNTrees`, `Build.sideOf`, `F32.ordLt` … are Lean functions
into `Bool` / `Nat` / `Option`: they are total by construction (Lean has no partial functions and the model
uses no `partial def`), so "never panics on these inputs" needs no proof for them; what needs one is that
the `Option` / `Except` they return is never `none` / `.error` for a reason that depends on the values. -/
namespace Arroy.C20
open Arroy Generated Reader

/-! ## (a) `D::side` is total on stored leaves -/

/-- **C20 (side)**: for a stored leaf, `Build.sideOf` answers `some _` for EVERY bit pattern of the stored
vector and of the normal (NaN, infinities, zeros, subnormals, wrong lengths); a NaN margin, a zero margin
(either sign) — more generally any margin that is neither `> 0` nor `< 0` — gives `some none`: `Side::random`;
it is `none` (the `unwrap` panic) exactly when the item is not stored as a leaf -/
theorem C20_side_total (c : Cfg) (s : Store) (normal : List Nat) (x : Nat) :
    (∀ h v, Store.get s (c.itemKey x) = some (.leaf h v) →
      ∃ side, Build.sideOf c s normal x = some side ∧
        (F32.isNaN (c.metric.margin c.host v normal) = true → side = none) ∧
        (F32.eq (c.metric.margin c.host v normal) F32.zero = true → side = none) ∧
        (side = none ↔ (F32.gt (c.metric.margin c.host v normal) F32.zero = false ∧
                        F32.lt (c.metric.margin c.host v normal) F32.zero = false))) ∧
    (Build.sideOf c s normal x = none ↔ ¬ ∃ h v, Store.get s (c.itemKey x) = some (.leaf h v)) := by
  constructor
  · intro h v hx
    have hl : Writer.itemLeaf c s x = some (h, v) := by unfold Writer.itemLeaf; rw [hx]
    unfold Build.sideOf
    rw [hl]
    dsimp only
    generalize c.metric.margin c.host v normal = mg
    refine ⟨_, rfl, ?_, ?_, ?_⟩
    · intro hn
      have h1 : F32.gt mg F32.zero = false := F32.lt_nan_right hn
      have h2 : F32.lt mg F32.zero = false := F32.lt_nan_left hn
      simp [h1, h2]
    · intro he
      unfold F32.eq SF.eq SF.le at he
      simp only [Bool.and_eq_true, Bool.not_eq_true'] at he
      have h1 : F32.gt mg F32.zero = false := he.1.2
      have h2 : F32.lt mg F32.zero = false := he.2.2
      simp [h1, h2]
    · cases h1 : F32.gt mg F32.zero <;> cases h2 : F32.lt mg F32.zero <;> simp
  · unfold Build.sideOf Writer.itemLeaf
    constructor
    · intro hn
      rintro ⟨h, v, hx⟩
      rw [hx] at hn
      cases hn
    · intro hn
      split
      · rfl
      · rename_i h v heq
        exfalso
        apply hn
        split at heq
        · rename_i h' v' hg; exact ⟨h', v', hg⟩
        · cases heq

/-- **C20 (splitting)**: splitting any list of stored items against ANY normal never fails, provided the
oracle holds one random bit per item (each undecided item draws one) -/
theorem C20_sideSplit_total (c : Cfg) (o : BuildOpts) (s : Store) (n : List Nat) (xs : List Nat) (rs : List Bool)
    (hst : ∀ x ∈ xs, ∃ h v, Store.get s (c.itemKey x) = some (.leaf h v)) (hrs : xs.length ≤ rs.length) :
    ∃ l r rs', sideSplit (Build.treeCtx c o s) n xs rs = .ok (l, r, rs') ∧ rs.length ≤ rs'.length + xs.length := by
  induction xs generalizing rs with
  | nil => exact ⟨[], [], rs, rfl, by simp⟩
  | cons x xs ih =>
    obtain ⟨h, v, hx⟩ := hst x (by simp)
    obtain ⟨side, hs, _⟩ := (C20_side_total c s n x).1 h v hx
    have hside : (Build.treeCtx c o s).side n x = some side := hs
    have hst' : ∀ y ∈ xs, ∃ h v, Store.get s (c.itemKey y) = some (.leaf h v) :=
      fun y hy => hst y (List.mem_cons_of_mem _ hy)
    simp only [List.length_cons] at hrs
    unfold sideSplit
    rw [hside]
    cases side with
    | some right =>
      obtain ⟨l, r, rs', e, hl⟩ := ih rs hst' (by omega)
      simp only [e]
      cases right
      · exact ⟨_, _, _, rfl, by simp only [List.length_cons]; omega⟩
      · exact ⟨_, _, _, rfl, by simp only [List.length_cons]; omega⟩
    | none =>
      cases rs with
      | nil => simp at hrs
      | cons b rs1 =>
        simp only [List.length_cons] at hrs
        obtain ⟨l, r, rs', e, hl⟩ := ih rs1 hst' (by omega)
        simp only [e]
        cases b
        · exact ⟨_, _, _, rfl, by simp only [List.length_cons]; omega⟩
        · exact ⟨_, _, _, rfl, by simp only [List.length_cons]; omega⟩

/-! ## (b) search: total and well-formed for any query bits -/

/-- **C20 (search is total)**: on a valid forest `nns_by_leaf` never errors, for any query header and vector
bits (NaN, infinities, any length), any stored values, and any options -/
theorem C20_search_total {c : Cfg} {s : Store} {rd : ReaderState} (F : ForestOK c s rd) (qh qv : List Nat)
    (q : QueryOpts) :
    ∃ ans, nnsByLeaf c s rd qh qv q = .ok ans ∧ ∀ p ∈ ans, p.1 ∈ rd.items :=
  C03.C03_total F qh qv q

/-- **C20 (search is well-formed)**: C03 without the distance-accuracy clause, no hypothesis on any value -/
theorem C20_search_wellformed (c : Cfg) (s : Store) (rd : ReaderState) (qh qv : List Nat) (q : QueryOpts)
    (ans : List (Nat × Nat)) (h : nnsByLeaf c s rd qh qv q = .ok ans) :
    ans.length ≤ q.count ∧
    (ans.map (·.1)).Nodup ∧
    (∀ p ∈ ans, IsLeaf c s p.1 ∧ inCandidates q p.1 = true ∧
      p.2 = c.metric.normalizedDistance (scoreOf c s qh qv p.1) rd.dims) ∧
    (ans.map fun p => (scoreOf c s qh qv p.1, p.1)).Pairwise (fun a b => scoreLe a b = true) :=
  C03.C03_wellformed c s rd qh qv q ans h

/-- both together: on a valid forest every query has a well-formed answer -/
theorem C20_search (c : Cfg) (s : Store) (rd : ReaderState) (F : ForestOK c s rd) (qh qv : List Nat) (q : QueryOpts) :
    ∃ ans, nnsByLeaf c s rd qh qv q = .ok ans ∧ ans.length ≤ q.count ∧ (ans.map (·.1)).Nodup ∧
      (∀ p ∈ ans, p.1 ∈ rd.items ∧ inCandidates q p.1 = true) ∧
      (ans.map fun p => (scoreOf c s qh qv p.1, p.1)).Pairwise (fun a b => scoreLe a b = true) := by
  obtain ⟨ans, h, hm⟩ := C20_search_total F qh qv q
  obtain ⟨h1, h2, h3, h4⟩ := C20_search_wellformed c s rd qh qv q ans h
  exact ⟨ans, h, h1, h2, fun p hp => ⟨hm p hp, (h3 p hp).2.1⟩, h4⟩

/-! ## (c) the order used for sorting is total on all bit patterns -/

/-- **C20 (order)**: `OrderedFloat<f32>` as modelled (`F32.ordLt` / `F32.ordEq`) is a strict weak order on ALL
bit patterns: irreflexive, transitive, total up to `ordEq`, `ordEq` an equivalence compatible with `ordLt`; all
NaNs are one class above everything else.  Hence `scoreLe` (score, then id) is reflexive, transitive and total
and `mergeSort scoreLe` sorts NaN-ridden score lists deterministically. -/
theorem C20_order_total :
    F32.OrdAx ∧
    (∀ a b, F32.isNaN a = false → F32.isNaN b = true → F32.ordLt a b = true) ∧
    (∀ a b, F32.isNaN a = true → F32.isNaN b = true → F32.ordEq a b = true) ∧
    (∀ a, scoreLe a a = true) ∧
    (∀ a b c, scoreLe a b = true → scoreLe b c = true → scoreLe a c = true) ∧
    (∀ a b, (scoreLe a b || scoreLe b a) = true) :=
  ⟨F32.ordAx, fun _ _ => F32.ordLt_nan, fun _ _ => F32.ordEq_nan, scoreLe_refl, scoreLe_trans, scoreLe_total⟩

/-! ## (d) the item store does not look at the values -/

/-- **C20 (storage)**: for the `f32` metrics the vector read back after `add_item` is the written one bit for
bit, whatever the bits are (NaN payloads, infinities, signed zeros, subnormals): `C05_readback_f32`, which has
no hypothesis on `vec` beyond the one `add_item` itself checks (its length) -/
theorem C20_readback_any_bits (c : Cfg) (s s' : Store) (id : Nat) (vec : List Nat)
    (hm : c.metric.isBq = false) (h : Writer.addItem c s id vec = .ok s') :
    Writer.itemVector c s' id = some vec :=
  C05.C05_readback_f32 c s s' id vec hm h

/-- `add_item` succeeds for every vector of the right length: no bit pattern is rejected -/
theorem C20_add_any_bits (c : Cfg) (s : Store) (id : Nat) (vec : List Nat) :
    (∃ s', Writer.addItem c s id vec = .ok s') ↔ vec.length = c.dims :=
  C05.C05_add_ok_iff c s id vec

/-! ## (e) the imbalance tests -/

/-- **C20 (imbalance, decidability)**: both tests of `make_tree_in_file` on the imbalance are Boolean
functions of the two counts: whatever `splitImbalance` returns (were it NaN), each test has a definite answer,
and a `false` answer to both keeps the computed split: no input can make the attempt loop diverge (it is
bounded by `splitAttempts`) -/
theorem C20_imbalance_bounds (l r : Nat) :
    (F64.lt (splitImbalance l r) (F64.ofRat imbalanceRetry) = true ∨
      F64.lt (splitImbalance l r) (F64.ofRat imbalanceRetry) = false) ∧
    (F64.gt (splitImbalance l r) (F64.ofRat imbalanceRandom) = true ∨
      F64.gt (splitImbalance l r) (F64.ofRat imbalanceRandom) = false) := by
  constructor
  · cases F64.lt (splitImbalance l r) (F64.ofRat imbalanceRetry) <;> simp
  · cases F64.gt (splitImbalance l r) (F64.ofRat imbalanceRandom) <;> simp

/-- **C20 (an empty side triggers the random split)**: for every `1 ≤ n < 2^53`, the imbalance of a split
`(n, 0)` or `(0, n)` — all items on one side: duplicates, all-zero vectors, NaN margins with one-sided random
bits — is above 0.99 and not below 0.95: `make_tree_in_file` retries, then falls back to
`randomly_split_children` -/
theorem C20_empty_side_random (n : Nat) (h1 : 1 ≤ n) (hn : n < 2^53) :
    F64.gt (splitImbalance n 0) (F64.ofRat imbalanceRandom) = true ∧
    F64.gt (splitImbalance 0 n) (F64.ofRat imbalanceRandom) = true ∧
    F64.lt (splitImbalance n 0) (F64.ofRat imbalanceRetry) = false ∧
    F64.lt (splitImbalance 0 n) (F64.ofRat imbalanceRetry) = false :=
  splitImbalance_empty_side n h1 hn

/-- a table for the other end: balanced and nearly balanced splits are accepted at once (not NaN, `< 0.95`),
the thresholds sit where the code says (19:1 is retried, 99:1 is kept, 100:1 goes random) -/
theorem C20_imbalance_table :
    (∀ p ∈ [(1, 1), (2, 1), (1, 2), (3, 2), (10, 1), (1, 10), (18, 1), (100, 100), (2^32, 2^32), (2^52, 2^52 - 1)],
      F64.lt (splitImbalance p.1 p.2) (F64.ofRat imbalanceRetry) = true) ∧
    F64.lt (splitImbalance 19 1) (F64.ofRat imbalanceRetry) = false ∧
    F64.gt (splitImbalance 19 1) (F64.ofRat imbalanceRandom) = false ∧
    F64.gt (splitImbalance 99 1) (F64.ofRat imbalanceRandom) = false ∧
    F64.gt (splitImbalance 100 1) (F64.ofRat imbalanceRandom) = true ∧
    F64.gt (splitImbalance 1 100) (F64.ofRat imbalanceRandom) = true := by
  decide +kernel

/-- the all-zero normal the random split stores is recognised by `is_zero` for every metric and dimension, and
`is_zero` is a Boolean function of arbitrary words -/
theorem C20_isZero_total (m : Metric) (k : Nat) (ws : List Nat) :
    m.isZero (List.replicate k 0) = true ∧ (m.isZero ws = true ∨ m.isZero ws = false) :=
  ⟨Metric.isZero_replicate_zero m k, by cases m.isZero ws <;> simp⟩

/-! ## the build: no fuel of the model is exhausted because of the values -/

/-- **C20 (bounded loops)**: the termination theorems of C14 have no hypothesis on the store at all: for
degenerate data as for any other, the only loops of `build` that can exhaust their budget are the re-split
loop and `delete_tree` -/
theorem C20_build_fuel (c : Cfg) (o : BuildOpts) (loopFuel : Nat) (st : BState) (w : String)
    (h : Build.build c o loopFuel st = .error (.fuel w)) :
    w = "incremental_index_large_descendants" ∨ w = "delete_tree" :=
  build_fuelOnly c o loopFuel st w h

/-! ## non-vacuity -/
namespace Examples

def c : Cfg := { index := 0, metric := .euclidean, dims := 2 }
def o : BuildOpts := { nTrees := some 1, splitAfter := some 2 }
def nan : Nat := 0x7fc00000
def negInf : Nat := 0xff800000

/-- three copies of the zero vector -/
def sZero : Store :=
  Store.put (Store.put (Store.put [] (c.itemKey 0) (.leaf [0] [0, 0])) (c.itemKey 1) (.leaf [0] [0, 0]))
    (c.itemKey 2) (.leaf [0] [0, 0])
/-- (NaN, 0), (+inf, -inf), (0, 0) -/
def sNaN : Store :=
  Store.put (Store.put (Store.put [] (c.itemKey 0) (.leaf [0] [nan, 0])) (c.itemKey 1) (.leaf [0] [F32.inf, negInf]))
    (c.itemKey 2) (.leaf [0] [0, 0])

def treeCells : Except Err (Unit × BState) → Option (List (Nat × Val))
  | .ok (_, st) => some ((st.store.filter fun kv => kv.1.mode == modeTree || kv.1.mode == 0).map fun kv => (kv.1.item, kv.2))
  | .error _ => none

/-- `C20_side_total`: NaN and infinite components, zero vector: every margin is undecided -/
example : Build.sideOf c sNaN [F32.one, F32.one] 0 = some none ∧ Build.sideOf c sNaN [F32.one, F32.one] 1 = some none ∧
    Build.sideOf c sNaN [F32.one, F32.one] 2 = some none ∧ Build.sideOf c sNaN [nan] 2 = some none ∧
    Build.sideOf c sNaN [F32.one, F32.one] 3 = none := by decide +kernel
example : Build.sideOf ForestExample.c ForestExample.s [F32.one, F32.zero] 1 = some (some true) := by decide +kernel

/-- a build of the three zero vectors and of the NaN / infinity data with capacity 2: every attempt puts all
three items on one side (`C20_empty_side_random`), the fourth attempt is replaced by the random split under
a zero normal, and both builds produce the same metadata and tree cells: the structure does not depend on the
values -/
example : treeCells (Build.build c o 5 { store := sZero, batches := [3], normals := List.replicate 4 [0, 0], rands := List.replicate 12 true ++ [true, false, true] }) =
    some [(0, .metadata Metric.euclidean.nameBytes 2 [0, 1, 2] [0]),
          (0, .split (NodeId.mkTree 1) (NodeId.mkItem 1) [0, 0]), (1, .desc [0, 2])] := by decide +kernel
example : treeCells (Build.build c o 5 { store := sNaN, batches := [3], normals := List.replicate 4 [nan, F32.one], rands := List.replicate 12 true ++ [true, false, true] }) =
    treeCells (Build.build c o 5 { store := sZero, batches := [3], normals := List.replicate 4 [0, 0], rands := List.replicate 12 true ++ [true, false, true] }) := by
  decide +kernel

/-- `C20_search_total` / `C20_search`: a NaN / infinite query on the valid forest of `ForestExample` -/
example (q : QueryOpts) : ∃ ans, nnsByLeaf ForestExample.c ForestExample.s ForestExample.rd [nan] [nan, F32.inf] q = .ok ans ∧
    ∀ p ∈ ans, p.1 ∈ ForestExample.rd.items :=
  C20_search_total ForestExample.forestOK _ _ q
/-- for that query all three true scores are NaN (one class of the order): the answer exists, has three
distinct ids among the items, and is sorted by `scoreLe`, i.e. by id -/
example : ([0, 1, 2].all fun id => F32.isNaN (scoreOf ForestExample.c ForestExample.s [0] [nan, F32.inf] id)) = true := by
  decide +kernel
example : ∃ ans, nnsByLeaf ForestExample.c ForestExample.s ForestExample.rd [0] [nan, F32.inf] { count := 3 } = .ok ans ∧
    ans.length ≤ 3 ∧ (ans.map (·.1)).Nodup ∧ (∀ p ∈ ans, p.1 ∈ ForestExample.rd.items ∧ inCandidates { count := 3 } p.1 = true) ∧
    (ans.map fun p => (scoreOf ForestExample.c ForestExample.s [0] [nan, F32.inf] p.1, p.1)).Pairwise
      (fun a b => scoreLe a b = true) :=
  C20_search _ _ _ ForestExample.forestOK _ _ _

/-- `C20_readback_any_bits`: a vector of NaN and -inf is accepted and read back bit for bit -/
example : Metric.euclidean.isBq = false ∧
    (Writer.addItem c [] 7 [nan, negInf]).toOption.bind (fun s' => Writer.itemVector c s' 7) = some [nan, negInf] := by
  decide +kernel

/-- `C20_sideSplit_total`: the three degenerate items against a NaN normal, three random bits -/
example : (∀ x ∈ [0, 1, 2], ∃ h v, Store.get sNaN (c.itemKey x) = some (.leaf h v)) ∧ [0, 1, 2].length ≤ [true, false, true].length :=
  ⟨by
    intro x hx
    simp only [List.mem_cons, List.not_mem_nil, or_false] at hx
    rcases hx with rfl | rfl | rfl
    · exact ⟨[0], [nan, 0], by decide⟩
    · exact ⟨[0], [F32.inf, negInf], by decide⟩
    · exact ⟨[0], [0, 0], by decide⟩, by decide⟩

end Examples

end Arroy.C20
