import ArroyProofs.BuildAnySupply
import ArroyProofs.OfSeq
import ArroyProofs.FreshSupplyProof
import ArroyProofs.Properties.C13
import ArroyProofs.Properties.C01Checker
import ArroyProofs.Properties.C01Examples
/-! # C13, second sentence — the build yields a valid forest for EVERY fresh id supply

"As a result a build yields a forest satisfying C01 for every thread-pool size, not only for the single
thread the tests use."

The parallel tasks of `Writer::build` read an immutable snapshot, stage their writes privately and share
exactly one thing: `ConcurrentNodeIds::next`. A thread schedule therefore changes only WHICH fresh ids each
task receives. The build model consumes ids in program order, so the outcome of a schedule in which the
tasks received the ids `a₀, a₁, …` (listed in program order) is the sequential model run with a generator that
hands out `a₀, a₁, …`.

* `Build.buildWith mk` (ArroyProofs/BuildAnySupply.lean) is the text of `Build.build` with the generator
  `mk used` in place of `IdGen.new used`; `C13_buildWith_new : buildWith IdGen.new = build`.
* `C13_build_any_supply`: the conclusion of `C01_build` holds of `buildWith mk` for every `mk` that is a fresh
  supply (`GenOK used (mk used)`: the ids drawn are pairwise distinct, not in use, and `u32`s) — the forest theorem
  does not depend on which fresh ids are drawn.
* `IdGen.ofSeq seq next` (ArroyProofs/OfSeq.lean) hands out ANY finite sequence `seq`, then `next, next+1, …`
  (`C13_ofSeq_draws`), and is a fresh supply whenever `seq` is duplicate-free, unused, and `next` lies above
  everything (`C13_ofSeq_fresh`).
* `C13_build_every_supply`: hence the build consuming any such sequence leaves a valid forest;
  `C13_build_every_schedule`: in particular for every arrangement of the ids that `ConcurrentNodeIds` hands out
  under any schedule of any number of threads (`Arroy.Ids`, duplicate-free and unused by `C13_unique`).

What is NOT modelled here: the tasks themselves run sequentially in the model (they share nothing but the id
generator, and their writes are staged per task and applied in task order by the single writer thread — that part is
the sequential model already); the theorem is about the set of outcomes, indexed by the ids received. -/
namespace Arroy.C13
open Arroy Generated Transp

/-- `buildWith` with the generator of the code is `build` -/
theorem C13_buildWith_new : Build.buildWith IdGen.new = Build.build := Build.buildWith_new

/-- everything the C01 proof establishes about a successful build (`BuildOut`: metadata, forest, untouched item
    vectors and other indexes, number of trees, routing, capacity — the source of the C04/C15 build theorems),
    for an arbitrary fresh supply -/
theorem C13_build_out_any_supply (mk : List Nat → IdGen)
    (hmk : ∀ used : List Nat, IdSet.Sorted used → (∀ i ∈ used, i < 4294967296) → GenOK used (mk used))
    (c : Cfg) (o : BuildOpts) (fuel : Nat) (st st' : BState) (roots0 items0 : List Nat) (ts0 : List T)
    (hi : c.index < 65536) (hcap : 1 ≤ Build.cap c o)
    (hs : Store.Sorted st.store) (hw : Store.WF st.store) (old : Old c st.store roots0 items0 ts0)
    (h : Build.buildWith mk c o fuel st = .ok ((), st')) :
    ∃ roots' ts', BuildOut c o st.store st'.store roots0 ts0 roots' ts' :=
  buildWith_out mk c o fuel st st' roots0 items0 ts0 hi hcap hmk hs hw old h

/-- **C01 for every fresh id supply** (the conclusion of `C01_build`): from a state satisfying the index
    invariant, under any options, oracle streams, fuel and cancellation schedule, a successful build that draws its
    node ids from `mk used` leaves metadata listing exactly the stored items, a valid forest over them, at least one
    tree if there is an item, no updated mark, and the invariant again. -/
theorem C13_build_any_supply (mk : List Nat → IdGen)
    (hmk : ∀ used : List Nat, IdSet.Sorted used → (∀ i ∈ used, i < 4294967296) → GenOK used (mk used))
    (c : Cfg) (o : BuildOpts) (fuel : Nat) (st st' : BState)
    (hi : c.index < 65536) (hcap : 1 ≤ Build.cap c o) (hn : o.nTrees ≠ some 0)
    (hinv : IndexInv c st.store) (h : Build.buildWith mk c o fuel st = .ok ((), st')) :
    ∃ roots ts,
      Store.get st'.store c.metaKey =
        some (.metadata c.metric.nameBytes c.dims (st.store.keysOf c.index modeItem) roots) ∧
      Forest c st'.store roots (st.store.keysOf c.index modeItem) ts ∧
      (st.store.keysOf c.index modeItem ≠ [] → roots ≠ []) ∧
      (∀ id, Store.get st'.store (c.updatedKey id) = none) ∧
      IndexInv c st'.store := by
  obtain ⟨roots0, items0, ts0, old⟩ := Old.of_inv hinv.1 hi
  obtain ⟨roots', ts', b⟩ :=
    buildWith_out mk c o fuel st st' roots0 items0 ts0 hi hcap hmk hinv.1.1 hinv.1.2.1 old h
  exact ⟨roots', ts', b.metadata, b.forest, b.rootsNonempty hn, b.no_marks,
    b.inv hinv.1.1 hinv.1.2.1 hinv.1.2.2.1 hi hn⟩

/-- the same without the clause on the number of trees (any `n_trees`, even 0; the conclusion of `C01_build_any`) -/
theorem C13_build_any_supply_any (mk : List Nat → IdGen)
    (hmk : ∀ used : List Nat, IdSet.Sorted used → (∀ i ∈ used, i < 4294967296) → GenOK used (mk used))
    (c : Cfg) (o : BuildOpts) (fuel : Nat) (st st' : BState)
    (hi : c.index < 65536) (hcap : 1 ≤ Build.cap c o)
    (hinv : IndexInvW c st.store) (h : Build.buildWith mk c o fuel st = .ok ((), st')) :
    ∃ roots ts,
      Store.get st'.store c.metaKey =
        some (.metadata c.metric.nameBytes c.dims (st.store.keysOf c.index modeItem) roots) ∧
      Forest c st'.store roots (st.store.keysOf c.index modeItem) ts ∧
      (∀ id, Store.get st'.store (c.updatedKey id) = none) ∧
      IndexInvW c st'.store := by
  obtain ⟨roots0, items0, ts0, old⟩ := Old.of_inv hinv hi
  obtain ⟨roots', ts', b⟩ := buildWith_out mk c o fuel st st' roots0 items0 ts0 hi hcap hmk hinv.1 hinv.2.1 old h
  exact ⟨roots', ts', b.metadata, b.forest, b.no_marks, b.invW hinv.1 hinv.2.1 hinv.2.2.1 hi⟩

/-- the executable checker's verdict (`Check.forestValid`, the one the differential runs use) after a
    successful build with any fresh supply: nothing to report (`C01_checker_build`) -/
theorem C13_checker_any_supply (mk : List Nat → IdGen)
    (hmk : ∀ used : List Nat, IdSet.Sorted used → (∀ i ∈ used, i < 4294967296) → GenOK used (mk used))
    (c : Cfg) (o : BuildOpts) (fuel : Nat) (st st' : BState)
    (hi : c.index < 65536) (hcap : 1 ≤ Build.cap c o)
    (hinv : IndexInvW c st.store) (h : Build.buildWith mk c o fuel st = .ok ((), st')) :
    Check.forestValid c st'.store = [] := by
  obtain ⟨roots0, items0, ts0, old⟩ := Old.of_inv hinv hi
  obtain ⟨roots', ts', b⟩ := buildWith_out mk c o fuel st st' roots0 items0 ts0 hi hcap hmk hinv.1 hinv.2.1 old h
  have hinv' := b.invW hinv.1 hinv.2.1 hinv.2.2.1 hi
  refine C01.C01_checker_sound c st'.store _ _ _ roots' ts' hi hinv'.1 hinv'.2.1 b.metadata b.forest ?_
  apply IdSet.sorted_ext (Store.keysOf_sorted hinv.1 hinv.2.1 _ _ hi (by decide))
    (Store.keysOf_sorted hinv'.1 hinv'.2.1 _ _ hi (by decide))
  intro id
  rw [Store.mem_keysOf_iff hinv.2.1 _ _ _ hi (by decide), Store.mem_keysOf_iff hinv'.2.1 _ _ _ hi (by decide)]
  have := b.present id
  simp only [Cfg.itemKey, Key.mkItem] at this
  rw [this]

/-- `C01_build` is the instance `mk := IdGen.new` (the fresh-supply hypothesis is `freshSupply`, i.e. C13 for
    one thread) -/
theorem C13_build_sequential (c : Cfg) (o : BuildOpts) (fuel : Nat) (st st' : BState)
    (hi : c.index < 65536) (hcap : 1 ≤ Build.cap c o) (hn : o.nTrees ≠ some 0)
    (hinv : IndexInv c st.store) (h : Build.build c o fuel st = .ok ((), st')) :
    ∃ roots ts,
      Store.get st'.store c.metaKey =
        some (.metadata c.metric.nameBytes c.dims (st.store.keysOf c.index modeItem) roots) ∧
      Forest c st'.store roots (st.store.keysOf c.index modeItem) ts ∧
      (st.store.keysOf c.index modeItem ≠ [] → roots ≠ []) ∧
      (∀ id, Store.get st'.store (c.updatedKey id) = none) ∧
      IndexInv c st'.store :=
  C13_build_any_supply IdGen.new freshSupply c o fuel st st' hi hcap hn hinv (by rw [C13_buildWith_new]; exact h)

/-! ## a generator for any sequence of ids -/

/-- **the draws of `IdGen.ofSeq seq next`** (`available := seq`, `sel := 0`, `look := true`, `current := next`,
    `used := next - seq.length`), when `seq` is not longer than `next`: `k` successive `IdGen.next` succeed exactly
    when the request counter stays a `u32`, and they return `seq` in order, then `next, next+1, …`. -/
theorem C13_ofSeq_draws (seq : List Nat) (next : Nat) (hlen : seq.length ≤ next) (k : Nat) :
    ((∃ ids g', nextN k (IdGen.ofSeq seq next) = .ok (ids, g')) ↔
        (k = 0 ∨ next - seq.length + k ≤ 4294967296)) ∧
    ∀ ids g', nextN k (IdGen.ofSeq seq next) = .ok (ids, g') →
      ids = (seq ++ List.range' next (k - seq.length)).take k :=
  ⟨ofSeq_nextN_ok_iff hlen k, fun _ _ h => ofSeq_nextN hlen h⟩

/-- **`IdGen.ofSeq seq next` is a fresh supply**: if `seq` is duplicate-free, disjoint from the ids in use and made
    of `u32`s, and `next` lies above every id in use and every id of `seq`, then whatever number of ids is drawn,
    they are pairwise distinct, not in use, and `u32`s (`GenOK`, the hypothesis of the forest chain); and the ids
    drawn are `seq` in order, then `next, next+1, …`. No bound on `next` is needed: the generator reports
    `DatabaseFull` before the counter leaves the `u32` range. -/
theorem C13_ofSeq_fresh (used seq : List Nat) (next : Nat) (hnd : seq.Nodup) (hdisj : ∀ x ∈ seq, x ∉ used)
    (hu32 : ∀ x ∈ seq, x < 4294967296) (hseq : ∀ x ∈ seq, x < next) (hused : ∀ x ∈ used, x < next) :
    GenOK used (IdGen.ofSeq seq next) ∧
    ∀ k ids g', nextN k (IdGen.ofSeq seq next) = .ok (ids, g') →
      ids = (seq ++ List.range' next (k - seq.length)).take k ∧
      ids.Nodup ∧ ∀ i ∈ ids, i ∉ used ∧ i < 4294967296 := by
  have hg := genOK_ofSeq hnd hdisj hu32 hseq hused
  have hlen : seq.length ≤ next := by
    have := List.Nodup.length_le_of_subset hnd (l₂ := List.range next)
      (fun x hx => List.mem_range.2 (hseq x hx))
    simpa using this
  refine ⟨hg, fun k ids g' e => ⟨ofSeq_nextN hlen e, (hg.1 k ids g' e).1, fun i hi => ⟨(hg.1 k ids g' e).2 i hi, hg.2 k ids g' e i hi⟩⟩⟩

/-- **the build is valid for every supply of fresh ids.** Let the ids the build consumes, in program order, be
    `seqOf used` followed by `nextOf used, nextOf used + 1, …` (`used`: the tree ids in use when the generator is
    created), where `seqOf used` is ANY duplicate-free sequence of unused `u32`s and `nextOf used` lies above every
    id in use and every id of the sequence. Then a successful build leaves a valid forest. -/
theorem C13_build_every_supply (seqOf : List Nat → List Nat) (nextOf : List Nat → Nat)
    (hseq : ∀ used : List Nat, IdSet.Sorted used → (∀ i ∈ used, i < 4294967296) →
      (seqOf used).Nodup ∧ ∀ x ∈ seqOf used, x ∉ used ∧ x < 4294967296)
    (hnext : ∀ used : List Nat, IdSet.Sorted used → (∀ i ∈ used, i < 4294967296) →
      ∀ x, x ∈ used ∨ x ∈ seqOf used → x < nextOf used)
    (c : Cfg) (o : BuildOpts) (fuel : Nat) (st st' : BState)
    (hi : c.index < 65536) (hcap : 1 ≤ Build.cap c o) (hn : o.nTrees ≠ some 0)
    (hinv : IndexInv c st.store)
    (h : Build.buildWith (fun used => IdGen.ofSeq (seqOf used) (nextOf used)) c o fuel st = .ok ((), st')) :
    ∃ roots ts,
      Store.get st'.store c.metaKey =
        some (.metadata c.metric.nameBytes c.dims (st.store.keysOf c.index modeItem) roots) ∧
      Forest c st'.store roots (st.store.keysOf c.index modeItem) ts ∧
      (st.store.keysOf c.index modeItem ≠ [] → roots ≠ []) ∧
      (∀ id, Store.get st'.store (c.updatedKey id) = none) ∧
      IndexInv c st'.store := by
  refine C13_build_any_supply _ ?_ c o fuel st st' hi hcap hn hinv h
  intro used hs hu
  obtain ⟨h1, h2⟩ := hseq used hs hu
  exact genOK_ofSeq h1 (fun x hx => (h2 x hx).1) (fun x hx => (h2 x hx).2)
    (fun x hx => hnext used hs hu x (Or.inr hx)) (fun x hx => hnext used hs hu x (Or.inl hx))

/-- **the build is valid under every thread schedule of the id generator.** Take any number of threads
    (`budgets`, with or without request bounds) and any schedule `sched` of the atomic operations of
    `ConcurrentNodeIds::next` (`Arroy.Ids`), started on the tree ids in use. Let the build consume, in program order,
    ANY duplicate-free arrangement `seqOf used` of (some of) the ids handed out under that schedule — whichever task
    received whichever id —, followed by a counter `nextOf used` above them. Then a successful build leaves a valid
    forest: metadata listing the stored items, `Forest` (C01), at least one tree, no mark, the invariant again. -/
theorem C13_build_every_schedule (budgets : List (Option Nat)) (sched : List Nat)
    (seqOf : List Nat → List Nat) (nextOf : List Nat → Nat)
    (hseq : ∀ used : List Nat, IdSet.Sorted used → (∀ i ∈ used, i < 4294967296) →
      (seqOf used).Nodup ∧ ∀ x ∈ seqOf used, x ∈ (Ids.run (Ids.initWith used budgets) sched).ids)
    (hnext : ∀ used : List Nat, IdSet.Sorted used → (∀ i ∈ used, i < 4294967296) →
      ∀ x, x ∈ used ∨ x ∈ seqOf used → x < nextOf used)
    (c : Cfg) (o : BuildOpts) (fuel : Nat) (st st' : BState)
    (hi : c.index < 65536) (hcap : 1 ≤ Build.cap c o) (hn : o.nTrees ≠ some 0)
    (hinv : IndexInv c st.store)
    (h : Build.buildWith (fun used => IdGen.ofSeq (seqOf used) (nextOf used)) c o fuel st = .ok ((), st')) :
    ∃ roots ts,
      Store.get st'.store c.metaKey =
        some (.metadata c.metric.nameBytes c.dims (st.store.keysOf c.index modeItem) roots) ∧
      Forest c st'.store roots (st.store.keysOf c.index modeItem) ts ∧
      (st.store.keysOf c.index modeItem ≠ [] → roots ≠ []) ∧
      (∀ id, Store.get st'.store (c.updatedKey id) = none) ∧
      IndexInv c st'.store := by
  refine C13_build_every_supply seqOf nextOf ?_ hnext c o fuel st st' hi hcap hn hinv h
  intro used hs hu
  obtain ⟨h1, h2⟩ := hseq used hs hu
  have huniq := C13_unique used ((IdSet.sorted_iff_pairwise).1 hs) hu budgets sched
  exact ⟨h1, fun x hx => huniq.2 x (h2 x hx)⟩

/-- the instance of `C13_build_every_schedule` closest to the code: the build consumes the ids of the schedule in
    the arrangement `arrange` (any function that permutes or thins out a duplicate-free list), and the counter goes
    on right above the largest id seen -/
theorem C13_build_every_schedule_max (budgets : List (Option Nat)) (sched : List Nat)
    (arrange : List Nat → List Nat)
    (harr : ∀ l : List Nat, l.Nodup → (arrange l).Nodup ∧ ∀ x ∈ arrange l, x ∈ l)
    (c : Cfg) (o : BuildOpts) (fuel : Nat) (st st' : BState)
    (hi : c.index < 65536) (hcap : 1 ≤ Build.cap c o) (hn : o.nTrees ≠ some 0)
    (hinv : IndexInv c st.store)
    (h : Build.buildWith (fun used =>
        IdGen.ofSeq (arrange (Ids.run (Ids.initWith used budgets) sched).ids)
          (supNext (used ++ (Ids.run (Ids.initWith used budgets) sched).ids))) c o fuel st = .ok ((), st')) :
    ∃ roots ts,
      Store.get st'.store c.metaKey =
        some (.metadata c.metric.nameBytes c.dims (st.store.keysOf c.index modeItem) roots) ∧
      Forest c st'.store roots (st.store.keysOf c.index modeItem) ts ∧
      (st.store.keysOf c.index modeItem ≠ [] → roots ≠ []) ∧
      (∀ id, Store.get st'.store (c.updatedKey id) = none) ∧
      IndexInv c st'.store := by
  refine C13_build_every_schedule budgets sched _ _ ?_ ?_ c o fuel st st' hi hcap hn hinv h
  · intro used hs hu
    exact harr _ (C13_unique used ((IdSet.sorted_iff_pairwise).1 hs) hu budgets sched).1
  · intro used hs hu x hx
    apply lt_supNext
    rcases hx with hx | hx
    · exact List.mem_append_left _ hx
    · exact List.mem_append_right _
        ((harr _ (C13_unique used ((IdSet.sorted_iff_pairwise).1 hs) hu budgets sched).1).2 x hx)


/-! ## non-vacuity: the second build of `C01Examples` (items 1..5, tree ids 0..3 in use, one bucket re-split: two ids
are drawn — the new bucket, then the root of the new subtree, which is remapped onto the old bucket id) with a
permuted supply -/
namespace Ex
open C01 C01.Ex Ids

/-- a supply that hands out the two ids right above the ids in use in the opposite order (`m+1`, `m`, then the
    counter from `m+2`; the code's own generator where that would leave the `u32` range) -/
def mkSwap (used : List Nat) : IdGen :=
  if supNext used + 2 ≤ 4294967296 then IdGen.ofSeq [supNext used + 1, supNext used] (supNext used + 2)
  else IdGen.new used

/-- it satisfies the hypothesis of `C13_build_any_supply` -/
theorem mkSwap_fresh (used : List Nat) (hs : IdSet.Sorted used) (hu : ∀ i ∈ used, i < 4294967296) :
    GenOK used (mkSwap used) := by
  unfold mkSwap
  split
  · apply genOK_ofSeq
    · simp
    · intro x hx hin
      have := lt_supNext hin
      simp only [List.mem_cons, List.not_mem_nil, or_false] at hx
      omega
    · intro x hx
      simp only [List.mem_cons, List.not_mem_nil, or_false] at hx
      omega
    · intro x hx
      simp only [List.mem_cons, List.not_mem_nil, or_false] at hx
      omega
    · intro x hx
      have := lt_supNext hx
      omega
  · exact freshSupply used hs hu

def treesOf : Except Err (Unit × BState) → List T
  | .ok (_, st') => Check.trees cEx st'.store
  | .error _ => []

def treeKeysOf : Except Err (Unit × BState) → List Nat
  | .ok (_, st') => st'.store.keysOf cEx.index modeTree
  | .error _ => []

/-- the sequential build: the new bucket gets id 4 (the second id, 5, is remapped onto the re-split bucket 2) -/
theorem seq_trees : treesOf (Build.build cEx oEx 5 { env2 with store := C01.run ops2 }) =
      [.node 0 [f1, 0] (.bucket 1 [1]) (.node 3 [0, f1] (.leaf 2) (.node 2 [f1, fm15] (.leaf 5) (.bucket 4 [3, 4])))] ∧
    treeKeysOf (Build.build cEx oEx 5 { env2 with store := C01.run ops2 }) = [0, 1, 2, 3, 4] := by
  decide +kernel

/-- the build with the permuted supply: the new bucket gets id 5, and id 4 stays free -/
theorem swap_trees : treesOf (Build.buildWith mkSwap cEx oEx 5 { env2 with store := C01.run ops2 }) =
      [.node 0 [f1, 0] (.bucket 1 [1]) (.node 3 [0, f1] (.leaf 2) (.node 2 [f1, fm15] (.leaf 5) (.bucket 5 [3, 4])))] ∧
    treeKeysOf (Build.buildWith mkSwap cEx oEx 5 { env2 with store := C01.run ops2 }) = [0, 1, 2, 3, 5] := by
  decide +kernel

/-- thread 0 (the task that comes first in program order) starts its request; thread 1 overtakes it: -/
def sched2 : List Nat :=
  [0,          -- thread 0: used.fetch_add
   1, 1, 1,    -- thread 1: used.fetch_add, load (false: no recycled id), current.fetch_add = 4
   0, 0]       -- thread 0: load (false), current.fetch_add = 5

/-- the supply of `C13_build_every_schedule_max` for two threads under `sched2`, ids in the order of the log -/
def mkSched2 (used : List Nat) : IdGen :=
  IdGen.ofSeq (id (Ids.run (Ids.initWith used [none, none]) sched2).ids)
    (supNext (used ++ (Ids.run (Ids.initWith used [none, none]) sched2).ids))

/-- on the example it is the generator "5, 4, then 6, 7, …" -/
example : mkSched2 [0, 1, 2, 3] = IdGen.ofSeq [5, 4] 6 := by decide +kernel

theorem sched2_trees : treesOf (Build.buildWith mkSched2 cEx oEx 5 { env2 with store := C01.run ops2 }) =
      [.node 0 [f1, 0] (.bucket 1 [1]) (.node 3 [0, f1] (.leaf 2) (.node 2 [f1, fm15] (.leaf 5) (.bucket 5 [3, 4])))] := by
  decide +kernel

-- from here on the concrete history is only used through the facts above
attribute [local irreducible] C01.run

theorem inv2 : IndexInv cEx (C01.run ops2) := C01_history_inv freshSupply ops2 ops2_wf cEx (by decide)

/-- `C13_build_any_supply` (and `_any`, `C13_checker_any_supply`, `C13_build_out_any_supply`) applies: the
    hypotheses hold on an incremental build with deletion, insertion and re-split, run under a cancellation
    schedule, and the forest it certifies is NOT the one of the sequential build. -/
example : ∃ st' roots ts,
    Build.buildWith mkSwap cEx oEx 5 { env2 with store := C01.run ops2 } = .ok ((), st') ∧
    Forest cEx st'.store roots [1, 2, 3, 4, 5] ts ∧ roots ≠ [] ∧ IndexInv cEx st'.store ∧
    Check.forestValid cEx st'.store = [] ∧
    Check.trees cEx st'.store =
      [.node 0 [f1, 0] (.bucket 1 [1]) (.node 3 [0, f1] (.leaf 2) (.node 2 [f1, fm15] (.leaf 5) (.bucket 5 [3, 4])))] ∧
    Check.trees cEx st'.store ≠ treesOf (Build.build cEx oEx 5 { env2 with store := C01.run ops2 }) := by
  have ht := swap_trees.1
  cases hb : Build.buildWith mkSwap cEx oEx 5 { env2 with store := C01.run ops2 } with
  | error e => rw [hb] at ht; cases ht
  | ok r =>
    obtain ⟨⟨⟩, st'⟩ := r
    rw [hb] at ht
    obtain ⟨roots, ts, _, hf, hne, _, hinv'⟩ :=
      C13_build_any_supply mkSwap mkSwap_fresh cEx oEx 5 _ st' (by decide) (by decide) (by decide) inv2 hb
    have hchk := C13_checker_any_supply mkSwap mkSwap_fresh cEx oEx 5 _ st' (by decide) (by decide) inv2.1 hb
    have hitems : (C01.run ops2).keysOf cEx.index modeItem = [1, 2, 3, 4, 5] := before2.1
    simp only [hitems] at hf hne
    refine ⟨st', roots, ts, rfl, hf, hne (by simp), hinv', hchk, ht, ?_⟩
    have ht' : Check.trees cEx st'.store = _ := ht
    rw [ht', seq_trees.1]
    decide

/-- `C13_ofSeq_fresh` / `C13_ofSeq_draws`: ids 0, 2, 5 in use, the supply 4, 1, 3 (the recycled ids in another
    order), then the counter from 6 -/
example : [4, 1, 3].Nodup ∧ (∀ x ∈ [4, 1, 3], x ∉ [0, 2, 5]) ∧ (∀ x ∈ [4, 1, 3], x < 4294967296) ∧
    (∀ x ∈ [4, 1, 3], x < 6) ∧ (∀ x ∈ [0, 2, 5], x < 6) := by decide

example : nextN 5 (IdGen.ofSeq [4, 1, 3] 6) = .ok ([4, 1, 3, 6, 7],
    { available := [4, 1, 3], sel := 4, look := false, current := 8, used := 8 }) := rfl

/-- the sequential generator on the same set hands out 1, 3, 4, 6, 7 (see C13.lean) -/
example : (([4, 1, 3] : List Nat) ++ List.range' 6 (5 - 3)).take 5 = [4, 1, 3, 6, 7] := by decide

/-- `C13_build_every_supply`: its hypotheses hold of the sequence "the two ids above the ids in use, swapped"
    (empty where that would leave the `u32` range), and the build above is of that form -/
example : ∃ (seqOf : List Nat → List Nat) (nextOf : List Nat → Nat),
    (∀ used : List Nat, IdSet.Sorted used → (∀ i ∈ used, i < 4294967296) →
      (seqOf used).Nodup ∧ ∀ x ∈ seqOf used, x ∉ used ∧ x < 4294967296) ∧
    (∀ used : List Nat, IdSet.Sorted used → (∀ i ∈ used, i < 4294967296) →
      ∀ x, x ∈ used ∨ x ∈ seqOf used → x < nextOf used) ∧
    seqOf [0, 1, 2, 3] = [5, 4] ∧ nextOf [0, 1, 2, 3] = 6 := by
  refine ⟨fun used => if supNext used + 2 ≤ 4294967296 then [supNext used + 1, supNext used] else [],
    fun used => supNext used + 2, ?_, ?_, by decide, by decide⟩
  · intro used _ _
    dsimp only
    split
    · refine ⟨by simp, ?_⟩
      intro x hx
      simp only [List.mem_cons, List.not_mem_nil, or_false] at hx
      refine ⟨fun hin => ?_, by omega⟩
      have := lt_supNext hin
      omega
    · exact ⟨List.nodup_nil, fun x hx => by cases hx⟩
  · intro used _ _ x hx
    dsimp only at hx ⊢
    rcases hx with hx | hx
    · have := lt_supNext hx; omega
    · split at hx
      · simp only [List.mem_cons, List.not_mem_nil, or_false] at hx
        omega
      · cases hx

/-! ### a two-thread schedule that produces the permuted supply -/

/-- thread 0 received 5 and thread 1 received 4 -/
example : (Ids.run (Ids.initWith [0, 1, 2, 3] [none, none]) sched2).log = [(0, .id 5), (1, .id 4)] ∧
    (Ids.run (Ids.initWith [0, 1, 2, 3] [none, none]) sched2).ids = [5, 4] := by decide +kernel

/-- the hypotheses of `C13_build_every_schedule` hold for every number of threads and every schedule, e.g. for the
    ids in the order of the log (newest first) or in chronological order, with the counter stopped (`2^32`: the build
    gets the ids of the schedule and no others) -/
example (budgets : List (Option Nat)) (sched : List Nat) (rev : Bool) :
    let seqOf := fun used =>
      if rev then (Ids.run (Ids.initWith used budgets) sched).ids.reverse else (Ids.run (Ids.initWith used budgets) sched).ids
    (∀ used : List Nat, IdSet.Sorted used → (∀ i ∈ used, i < 4294967296) →
      (seqOf used).Nodup ∧ ∀ x ∈ seqOf used, x ∈ (Ids.run (Ids.initWith used budgets) sched).ids) ∧
    (∀ used : List Nat, IdSet.Sorted used → (∀ i ∈ used, i < 4294967296) →
      ∀ x, x ∈ used ∨ x ∈ seqOf used → x < (fun _ => 4294967296) used) := by
  intro seqOf
  have hsub : ∀ used, ∀ x ∈ seqOf used, x ∈ (Ids.run (Ids.initWith used budgets) sched).ids := by
    intro used x hx
    simp only [seqOf] at hx
    split at hx
    · exact List.mem_reverse.1 hx
    · exact hx
  refine ⟨fun used hs hu => ⟨?_, hsub used⟩, fun used hs hu x hx => ?_⟩
  · have := (C13_unique used ((IdSet.sorted_iff_pairwise).1 hs) hu budgets sched).1
    simp only [seqOf]
    split
    · exact List.pairwise_reverse.2 (this.imp Ne.symm)
    · exact this
  · rcases hx with hx | hx
    · exact hu x hx
    · exact ((C13_unique used ((IdSet.sorted_iff_pairwise).1 hs) hu budgets sched).2 x (hsub used x hx)).2

/-- `C13_build_every_schedule_max` (hence `C13_build_every_schedule`) applies to the build that consumes the ids
    of this two-thread schedule, and certifies the forest with bucket 5 -/
example : ∃ st' roots ts,
    Build.buildWith mkSched2 cEx oEx 5 { env2 with store := C01.run ops2 } = .ok ((), st') ∧
    Forest cEx st'.store roots [1, 2, 3, 4, 5] ts ∧ roots ≠ [] ∧ IndexInv cEx st'.store ∧
    Check.trees cEx st'.store =
      [.node 0 [f1, 0] (.bucket 1 [1]) (.node 3 [0, f1] (.leaf 2) (.node 2 [f1, fm15] (.leaf 5) (.bucket 5 [3, 4])))] := by
  have ht := sched2_trees
  cases hb : Build.buildWith mkSched2 cEx oEx 5 { env2 with store := C01.run ops2 } with
  | error e => rw [hb] at ht; cases ht
  | ok r =>
    obtain ⟨⟨⟩, st'⟩ := r
    rw [hb] at ht
    obtain ⟨roots, ts, _, hf, hne, _, hinv'⟩ :=
      C13_build_every_schedule_max [none, none] sched2 id (fun l hl => ⟨hl, fun x hx => hx⟩)
        cEx oEx 5 _ st' (by decide) (by decide) (by decide) inv2 hb
    have hitems : (C01.run ops2).keysOf cEx.index modeItem = [1, 2, 3, 4, 5] := before2.1
    simp only [hitems] at hf hne
    exact ⟨st', roots, ts, rfl, hf, hne (by simp), hinv', ht⟩

end Ex

end Arroy.C13
