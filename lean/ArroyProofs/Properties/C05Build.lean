import ArroyProofs.BuildTouch
/-! # C05 (build part) — building never changes the item store

A successful `build` (any options, oracle streams, poll budget) changes no item's presence and no
item's vector words; for every metric but DotProduct it changes no item value at all (DotProduct
rewrites the *header* of every leaf of its index). This holds for the items of **every** index. -/
namespace Arroy.C05
open Arroy Generated

/-- Item keys of every index keep their value up to the leaf header. The sortedness hypothesis is
    used by the DotProduct preprocessing only (with duplicate keys, rewriting a header through `put`
    could surface a shadowed vector). -/
theorem C05_build_item_keys (c : Cfg) (hi : c.index < 65536) (o : BuildOpts) (fuel : Nat) (st st' : BState)
    (hs : Store.Sorted st.store) (h : Build.build c o fuel st = .ok ((), st'))
    (k : Key) (hk : k.wf) (hm : k.mode = modeItem) :
    SameUpToHeader (Store.get st.store k) (Store.get st'.store k) :=
  (Build.build_onlyTreeMarksMeta c hi o fuel st () st' hs h k hk (fun e => e.2 hm)).1 hm

/-- **Building never changes the item store**: presence, stored vector words and the vector returned
    by `item_vector` are the same before and after, for every item id of the u32 range. -/
theorem C05_build_preserves (c : Cfg) (hi : c.index < 65536) (o : BuildOpts) (fuel : Nat) (st st' : BState)
    (hs : Store.Sorted st.store) (h : Build.build c o fuel st = .ok ((), st')) (id : Nat) (hid : id < 4294967296) :
    Writer.containsItem c st'.store id = Writer.containsItem c st.store id ∧
    (Writer.itemLeaf c st'.store id).map (·.2) = (Writer.itemLeaf c st.store id).map (·.2) ∧
    Writer.itemVector c st'.store id = Writer.itemVector c st.store id := by
  have hk : (c.itemKey id).wf := ⟨hi, by simp [Cfg.itemKey, Key.mkItem, modeItem], hid⟩
  have hsame := C05_build_item_keys c hi o fuel st st' hs h (c.itemKey id) hk rfl
  have hleaf : (Writer.itemLeaf c st'.store id).map (·.2) = (Writer.itemLeaf c st.store id).map (·.2) := by
    unfold Writer.itemLeaf
    rcases hsame with e | ⟨h1, h2, v, e1, e2⟩
    · rw [e]
    · rw [e1, e2]; rfl
  refine ⟨?_, hleaf, ?_⟩
  · unfold Writer.containsItem Store.contains
    exact hsame.isSome_eq.symm
  · unfold Writer.itemVector
    have := congrArg (Option.map fun v => (c.metric.toVec v).take c.dims) hleaf
    simpa [Option.map_map, Function.comp_def] using this

/-- For every metric but DotProduct: no item value changes at all (header included), whatever the
    store (no sortedness needed). -/
theorem C05_build_preserves_exact (c : Cfg) (hi : c.index < 65536) (hm : c.metric ≠ .dot) (o : BuildOpts)
    (fuel : Nat) (st st' : BState) (h : Build.build c o fuel st = .ok ((), st')) (k : Key) (hk : k.wf)
    (hmode : k.mode = modeItem) : Store.get st'.store k = Store.get st.store k :=
  Build.build_frameNI c hi hm o fuel st () st' h k hk (Or.inr hmode)

/-! non-vacuity: a sorted DotProduct index with two items, one pending; the build runs the preprocessing -/
def exStore : Store :=
  [(⟨0, modeUpdated, 7⟩, .unit),
   (⟨0, modeItem, 7⟩, .leaf [0, 0] [1065353216, 0]),
   (⟨0, modeItem, 4294967295⟩, .leaf [0, 0] [1073741824, 1073741824])]
def exCfg : Cfg := ⟨0, .dot, 2, {}⟩
def exSt : BState := { store := exStore }

example : exCfg.index < 65536 ∧ Store.Sorted exStore ∧ (4294967295 : Nat) < 4294967296 :=
  ⟨by decide, ⟨rfl, rfl, trivial⟩, by decide⟩
/-- the build succeeds and does rewrite the headers (`[0, 0]` becomes `[sqrt (8 - 1), 8]` for item 7) -/
example : (Build.build exCfg {} 0 exSt |>.toOption |>.map (·.2.store)) = some (
    [(⟨0, modeMetadata, 0⟩, .metadata Metric.dot.nameBytes 2 [7, 4294967295] [0]),
     (⟨0, modeMetadata, 1⟩, .version 0 6 1),
     (⟨0, modeTree, 0⟩, .desc [7, 4294967295]),
     (⟨0, modeItem, 7⟩, .leaf [1076450301, 1090519039] [1065353216, 0]),
     (⟨0, modeItem, 4294967295⟩, .leaf [0, 1090519039] [1073741824, 1073741824])] : Store) := by
  decide +kernel
example : ∃ st', Build.build { exCfg with metric := .cosine } {} 0 exSt = .ok ((), st') := ⟨_, rfl⟩

end Arroy.C05
