import ArroyModel.Env
/-! # C08 — writers are atomic, readers keep a consistent snapshot

Theorems over the trusted model of the LMDB environment (`ArroyModel/Env.lean`), for every
interleaving of events. The arroy-specific content — every writer operation is a function of the
transaction's own store, every reader answer a function of its snapshot — is built into the
model's types (`Writer.*`, `Build.build`, `Reader.*` take and return a `Store`) and is what the
correspondence runs with real threads validate. -/
namespace Arroy.C08
open Arroy Env

/-- every committed version ever is remembered, in order: history only grows at the front -/
theorem history_suffix (e : Env) (ev : Event) : ∃ pre, (e.step ev).history = pre ++ e.history := by
  cases ev <;> simp only [step]
  all_goals first
    | exact ⟨[], rfl⟩
    | (cases e.writer <;> first | exact ⟨[], rfl⟩ | exact ⟨[_], rfl⟩)

theorem history_suffix_run (e : Env) (evs : List Event) : ∃ pre, (e.run evs).history = pre ++ e.history := by
  induction evs generalizing e with
  | nil => exact ⟨[], rfl⟩
  | cons ev evs ih =>
    obtain ⟨p1, h1⟩ := history_suffix e ev
    obtain ⟨p2, h2⟩ := ih (e.step ev)
    refine ⟨p2 ++ p1, ?_⟩
    simp only [run, List.foldl_cons] at h2 ⊢
    rw [h2, h1, List.append_assoc]

/-- invariant: every open reader holds one of the committed versions -/
def ReadersPinned (e : Env) : Prop := ∀ r ∈ e.readers, r.2 ∈ e.history

theorem committed_mem (e : Env) (h : e.history ≠ []) : e.committed ∈ e.history := by
  unfold committed
  cases hh : e.history with
  | nil => exact absurd hh h
  | cons a l => simp

theorem history_ne_nil_step (e : Env) (ev : Event) (h : e.history ≠ []) : (e.step ev).history ≠ [] := by
  obtain ⟨pre, hp⟩ := history_suffix e ev
  rw [hp]; intro hc
  exact h (List.append_eq_nil_iff.1 hc).2

theorem pinned_step (e : Env) (ev : Event) (hne : e.history ≠ []) (h : ReadersPinned e) :
    ReadersPinned (e.step ev) := by
  obtain ⟨pre, hp⟩ := history_suffix e ev
  intro r hr
  rw [hp]
  apply List.mem_append_right
  cases ev with
  | openR rid =>
    simp only [step, List.mem_cons, List.mem_filter] at hr
    rcases hr with rfl | ⟨hr, _⟩
    · exact committed_mem e hne
    · exact h r hr
  | closeR rid =>
    simp only [step, List.mem_filter] at hr
    exact h r hr.1
  | crash => simp [step] at hr
  | beginW => simp only [step] at hr; cases hw : e.writer <;> simp [hw] at hr <;> exact h r hr
  | write f => exact h r hr
  | commit => simp only [step] at hr; cases hw : e.writer <;> simp [hw] at hr <;> exact h r hr
  | abort => exact h r hr

theorem find_filter_ne (l : List (Nat × Store)) (r rid : Nat) (hne : r ≠ rid) :
    (l.filter (fun x => decide (x.1 ≠ r))).find? (fun x => decide (x.1 = rid)) = l.find? (fun x => decide (x.1 = rid)) := by
  induction l with
  | nil => rfl
  | cons a l ih =>
    rw [List.filter_cons]
    by_cases h1 : a.1 = r
    · have h2 : ¬ a.1 = rid := fun e => hne (h1 ▸ e)
      have hd : decide (a.1 ≠ r) = false := by simp [h1]
      rw [hd]
      simp only [Bool.false_eq_true, ↓reduceIte]
      rw [ih, List.find?_cons]
      simp [h2]
    · have hd : decide (a.1 ≠ r) = true := by simp [h1]
      rw [hd]
      simp only [↓reduceIte]
      rw [List.find?_cons, List.find?_cons, ih]

/-- **C08 (snapshot)**: whatever the interleaving of writer events, other readers' events and
    commits, a reader that stays open keeps observing exactly the version it was opened on, and
    that version is one of the committed ones. -/
theorem C08_snapshot (e : Env) (rid : Nat) (evs : List Event)
    (hopen : ∀ ev ∈ evs, ev ≠ .crash ∧ (∀ r, ev = .openR r → r ≠ rid) ∧ (∀ r, ev = .closeR r → r ≠ rid)) :
    ((e.step (.openR rid)).run evs).view rid = some e.committed := by
  have key : ∀ (e' : Env), e'.view rid = some e.committed →
      ∀ evs : List Event, (∀ ev ∈ evs, ev ≠ .crash ∧ (∀ r, ev = .openR r → r ≠ rid) ∧ (∀ r, ev = .closeR r → r ≠ rid)) →
      (e'.run evs).view rid = some e.committed := by
    intro e' hv evs
    induction evs generalizing e' with
    | nil => intro _; exact hv
    | cons ev evs ih =>
      intro hall
      have hev := hall ev (by simp)
      simp only [run, List.foldl_cons]
      apply ih
      · cases ev with
        | crash => exact absurd rfl hev.1
        | openR r =>
          have hne : r ≠ rid := hev.2.1 r rfl
          simp only [step, view, List.find?_cons]
          have : ¬ (r = rid) := hne
          simp only [this, decide_false]
          simp only [view] at hv
          rw [← hv]; congr 1
          exact find_filter_ne _ r rid hne
        | closeR r =>
          have hne : r ≠ rid := hev.2.2 r rfl
          simp only [step, view]
          simp only [view] at hv
          rw [← hv]; congr 1
          exact find_filter_ne _ r rid hne
        | beginW => simp only [step]; cases e'.writer <;> exact hv
        | write f => exact hv
        | commit => simp only [step]; cases e'.writer <;> exact hv
        | abort => exact hv
      · intro ev' hev'; exact hall ev' (by simp [hev'])
  apply key
  · simp [step, view]
  · exact hopen

/-- **C08 (atomic)**: a reader opened at any moment sees a committed version, never the open
    transaction's private state. -/
theorem C08_reader_sees_committed (e : Env) (evs : List Event) (hne : e.history ≠ []) (h : ReadersPinned e)
    (rid : Nat) (s : Store) (hv : (e.run evs).view rid = some s) : s ∈ (e.run evs).history := by
  have hinv : ∀ (e : Env) (evs : List Event), e.history ≠ [] → ReadersPinned e →
      (e.run evs).history ≠ [] ∧ ReadersPinned (e.run evs) := by
    intro e evs
    induction evs generalizing e with
    | nil => intro a b; exact ⟨a, b⟩
    | cons ev evs ih =>
      intro a b
      simp only [run, List.foldl_cons]
      exact ih _ (history_ne_nil_step e ev a) (pinned_step e ev a b)
  obtain ⟨_, hp⟩ := hinv e evs hne h
  simp only [view] at hv
  cases hf : (e.run evs).readers.find? (·.1 = rid) with
  | none => simp [hf] at hv
  | some r =>
    simp only [hf, Option.map_some, Option.some.injEq] at hv
    subst hv
    exact hp r (List.mem_of_find?_eq_some hf)

/-- **C08 (abort)**: a write transaction that is aborted — after any operations, including a
    successful or failed build — leaves no trace: committed versions and every reader are unchanged. -/
theorem C08_abort (e : Env) (ops : List (Store → Store)) (hw : e.writer = none) :
    let e' := (((e.step .beginW).run (ops.map Event.write)).step .abort)
    e'.history = e.history ∧ e'.readers = e.readers ∧ e'.writer = none := by
  have key : ∀ (e1 : Env) (ops : List (Store → Store)),
      (e1.run (ops.map Event.write)).history = e1.history ∧ (e1.run (ops.map Event.write)).readers = e1.readers := by
    intro e1 ops
    induction ops generalizing e1 with
    | nil => exact ⟨rfl, rfl⟩
    | cons f fs ih =>
      simp only [List.map_cons, run, List.foldl_cons]
      have := ih (e1.step (.write f))
      simpa [run, step] using this
  intro e'
  have hb : (e.step .beginW).history = e.history ∧ (e.step .beginW).readers = e.readers := by
    simp [step, hw]
  obtain ⟨k1, k2⟩ := key (e.step .beginW) ops
  refine ⟨?_, ?_, ?_⟩
  · show (((e.step .beginW).run (ops.map Event.write)).step .abort).history = _
    have : ∀ x : Env, (x.step .abort).history = x.history := fun _ => rfl
    rw [this, k1, hb.1]
  · show (((e.step .beginW).run (ops.map Event.write)).step .abort).readers = _
    have : ∀ x : Env, (x.step .abort).readers = x.readers := fun _ => rfl
    rw [this, k2, hb.2]
  · rfl

/-- **C08 (commit is all-at-once)**: what becomes visible at commit is exactly the transaction's
    final private state — the composition of all its operations on the version it started from. -/
theorem C08_commit (e : Env) (ops : List (Store → Store)) (hw : e.writer = none) :
    (((e.step .beginW).run (ops.map Event.write)).step .commit).committed
      = ops.foldl (fun s f => f s) e.committed := by
  have key : ∀ (e1 : Env) (s : Store) (ops : List (Store → Store)), e1.writer = some s →
      (e1.run (ops.map Event.write)).writer = some (ops.foldl (fun s f => f s) s) := by
    intro e1 s ops
    induction ops generalizing e1 s with
    | nil => intro h; exact h
    | cons f fs ih =>
      intro h
      simp only [List.map_cons, run, List.foldl_cons]
      exact ih (e1.step (.write f)) (f s) (by simp [step, h])
  have hb : (e.step .beginW).writer = some e.committed := by simp [step, hw]
  have hk := key _ _ ops hb
  have hc : ∀ (x : Env) (s : Store), x.writer = some s → (x.step .commit).committed = s := by
    intro x s hx; simp [step, hx, committed]
  exact hc _ _ hk

/-- non-vacuity: a reader opened before a commit keeps the old version while a later one sees the new -/
example :
    let e0 : Env := {}
    let w : Store → Store := fun s => s.put ⟨0, 3, 7⟩ .unit
    let e := e0.run [.openR 1, .beginW, .write w, .commit, .openR 2]
    e.view 1 = some [] ∧ e.view 2 = some [(⟨0, 3, 7⟩, .unit)] := by
  decide

end Arroy.C08
