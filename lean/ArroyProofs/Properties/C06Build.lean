import ArroyProofs.BuildPost
import ArroyModel.Reader
/-! # C06 (build part) — immediately after a successful build the reader opens

A successful `build` consumes every updated mark of its index, nothing it does afterwards writes one,
and it ends by writing the metadata record of its metric: `Reader::open` succeeds and `need_build`
answers `false`. -/
namespace Arroy.C06
open Arroy Generated

/-- Any options, any oracle streams, any poll budget: if `build` returns `.ok`, then no key under the
    `(index, Updated)` prefix remains, the metadata record of the writer's metric and dimension is in
    place, `Reader::open` succeeds and `need_build` is `false`.

    Hypotheses: the index is a `u16`; the keys of the store are well-formed (only those under the
    `(index, Updated)` prefix matter, see `Build.build_noUpdated`). Sortedness is **not** needed. -/
theorem C06_build_clears_marks (c : Cfg) (hi : c.index < 65536) (o : BuildOpts) (fuel : Nat) (st st' : BState)
    (hwf : ∀ kv ∈ st.store, kv.1.wf) (h : Build.build c o fuel st = .ok ((), st')) :
    Store.prefixIter st'.store c.index (some modeUpdated) = [] ∧
    (∀ id, Store.get st'.store (c.updatedKey id) = none) ∧
    (∃ items roots,
      Store.get st'.store c.metaKey = some (.metadata c.metric.nameBytes c.dims items roots) ∧
      Reader.open c st'.store = .ok ⟨roots, c.dims, items⟩) ∧
    Writer.needBuild c st'.store = false := by
  have hwf' : ∀ k ∈ Frame.keys st.store,
      isPrefixOf (encodePrefix c.index (some modeUpdated)) (encodeKey k) = true → k.wf := by
    intro k hk _
    simp only [Frame.keys, List.mem_map] at hk
    obtain ⟨kv, hkv, rfl⟩ := hk
    exact hwf kv hkv
  have hno := Build.build_noUpdated c hi o fuel st st' hwf' h
  have hnil := hno.prefixIter_nil
  obtain ⟨items, roots, hmeta⟩ := Build.build_metaWritten c o fuel st () st' h
  refine ⟨hnil, ?_, ⟨items, roots, hmeta, ?_⟩, ?_⟩
  · intro id
    apply Frame.get_eq_none_of_not_mem
    intro hk
    have := hno _ hk
    rw [(isPrefixOf_kind_all c.index modeUpdated (c.updatedKey id)).2 ⟨rfl, rfl⟩] at this
    cases this
  · unfold Reader.open
    rw [hmeta]
    simp [hnil]
  · unfold Writer.needBuild
    rw [hnil, hmeta]
    rfl

/-! non-vacuity: index 0 has a pending update (so `need_build` is true before), index 65535 is built -/
def exStore : Store :=
  [(⟨0, modeUpdated, 7⟩, .unit),
   (⟨0, modeItem, 7⟩, .leaf [0] [1065353216, 0]),
   (⟨65535, modeMetadata, 0⟩, .metadata Metric.euclidean.nameBytes 2 [4294967295] [0]),
   (⟨65535, modeTree, 0⟩, .desc [4294967295]),
   (⟨65535, modeItem, 4294967295⟩, .leaf [0] [0, 0])]
def exCfg : Cfg := ⟨0, .euclidean, 2, {}⟩
def exSt : BState := { store := exStore, cancelAt := some 100 }

example : exCfg.index < 65536 ∧ (∀ kv ∈ exStore, kv.1.wf) ∧ Writer.needBuild exCfg exStore = true := by
  refine ⟨by decide, ?_, rfl⟩
  intro kv hkv
  simp only [exStore, List.mem_cons, List.not_mem_nil, or_false] at hkv
  rcases hkv with rfl | rfl | rfl | rfl | rfl <;> decide
example : ∃ st', Build.build exCfg {} 0 exSt = .ok ((), st') := ⟨_, rfl⟩

end Arroy.C06
