import ArroyProofs.Properties.C05History
import ArroyProofs.NnsNonempty
/-! # C15 over histories — the tree count, the non-empty answers and the capacity, as the READER reports them

The arithmetic of the tree-count decision is in `C15.lean`, the statements about one build from a state
satisfying the index invariant in `C15Build.lean`. Here they are composed with the history theorems
(`C01_reader_reachable`, `C05_history_presence`, `C15_capacity_all_histories`) so that no invariant is left as a
hypothesis: the statements are about a well-formed history `ops` (`C01.Op`: add / append / del / clear / build /
prepare on any indexes, failed operations being no-ops), a successful last `Build.build`, and what
`Reader.open` / `nnsByLeaf` then return.

`n` is the number of items of the abstract item map `C05.spec c.index ops` (the items added and not since
deleted or cleared — by `C05_history_presence` these are the stored ids, and `Reader.open` reports exactly them),
`cap = Build.cap c o` the bucket capacity of the last build (`split_after`, by default the dimension). -/
namespace Arroy.C15
open Arroy Generated Transp Build Reader

/-- the number of stored items of the index is the size of the abstract item map -/
theorem keysOf_length_eq_spec (ops : List C01.Op) (hops : ∀ op ∈ ops, op.wf) (c : Cfg) (hi : c.index < 65536) :
    ((C01.run ops).keysOf c.index modeItem).length = (C05.spec c.index ops).length := by
  rw [(C05.C05_history_presence ops hops c hi).2.2.2.2.2.1, List.length_map]

/-- **C15 over histories, tree count**: after every well-formed history `ops` and a successful build of index
    `c` (well-formed: index < 65536, capacity ≥ 1, `n_trees ≠ Some(0)`; any oracle streams, fuel, cancellation
    schedule), `Reader::open` succeeds with the declared dimension, exactly the ids of the abstract item map,
    and the roots of the metadata, whose number is:
    * `0` for an empty index;
    * `1` for an index that fits in one bucket (`0 < n ≤ cap`);
    * `Build.targetNTrees o c.dims n (number of roots before)` for a bigger one — that is the requested number
      `t` when `n_trees = Some(t)`, whatever the number of trees before (growing or shrinking), and at least one
      when the choice is left to arroy. -/
theorem C15_history (ops : List C01.Op) (hops : ∀ op ∈ ops, op.wf)
    (c : Cfg) (o : BuildOpts) (fuel : Nat) (env st' : BState) (hwf : (C01.Op.build c o fuel env).wf)
    (h : Build.build c o fuel { env with store := C01.run ops } = .ok ((), st')) :
    ∃ roots,
      Reader.open c st'.store = .ok ⟨roots, c.dims, (C05.spec c.index ops).map (·.1)⟩ ∧
      roots = rootsOf c st'.store ∧
      ((C05.spec c.index ops).length = 0 → roots = []) ∧
      (0 < (C05.spec c.index ops).length → (C05.spec c.index ops).length ≤ cap c o → roots.length = 1) ∧
      (cap c o < (C05.spec c.index ops).length →
        roots.length =
          targetNTrees o c.dims (C05.spec c.index ops).length (rootsOf c (C01.run ops)).length) ∧
      (cap c o < (C05.spec c.index ops).length → ∀ t, o.nTrees = some t → roots.length = t) ∧
      (cap c o < (C05.spec c.index ops).length → o.nTrees = none → 1 ≤ roots.length) := by
  obtain ⟨hi, hcap, hn⟩ := hwf
  have hwf' : (C01.Op.build c o fuel env).wf := ⟨hi, hcap, hn⟩
  have hinv : IndexInvW c (C01.run ops) := (C01.C01_invariant ops hops c hi).1
  have hkeys := (C05.C05_history_presence ops hops c hi).2.2.2.2.2.1
  have hlen := keysOf_length_eq_spec ops hops c hi
  obtain ⟨roots, hopen, _⟩ := C01.C01_reader_reachable ops hops c o fuel env st' hwf' h
  have hroots : roots = rootsOf c st'.store := open_roots hopen
  rw [hkeys] at hopen
  -- the two paths of `build`, on the state `{ env with store := run ops }`
  have hsingle := C15_single c o fuel { env with store := C01.run ops } st' hi hcap freshSupply hinv h
  have hcount := C15_root_count c o fuel { env with store := C01.run ops } st' hi hcap freshSupply hinv h
  simp only [hlen] at hsingle hcount
  have hempty : ((C01.run ops).keysOf c.index modeItem).isEmpty = true ↔ (C05.spec c.index ops).length = 0 := by
    rw [← hlen, List.isEmpty_iff, List.length_eq_zero_iff]
  refine ⟨roots, hopen, hroots, ?_, ?_, ?_, ?_, ?_⟩
  · intro h0
    have hr := (hsingle (by simp [fits, h0])).1
    rw [if_pos (hempty.2 h0)] at hr
    rw [hroots, hr]
  · intro hpos hle
    have hr := (hsingle (by simp [fits, hle])).1
    rw [if_neg (fun e => by have := hempty.1 e; omega)] at hr
    rw [hroots, hr]; rfl
  · intro hbig
    rw [hroots]
    exact (hcount (by simp [fits]; omega)).1
  · intro hbig t ht
    rw [hroots]
    exact (hcount (by simp [fits]; omega)).2.2 t ht
  · intro hbig hnone
    rw [hroots]
    exact (hcount (by simp [fits]; omega)).2.1 hn

/-- the automatic choice, spelled out: either the number of trees the index had, or the fresh estimate
    `max (n / (n / dims + 1)) 1` (`C15_auto_cases`) — in both cases at least one -/
theorem C15_history_auto (ops : List C01.Op) (hops : ∀ op ∈ ops, op.wf)
    (c : Cfg) (o : BuildOpts) (fuel : Nat) (env st' : BState) (hwf : (C01.Op.build c o fuel env).wf)
    (h : Build.build c o fuel { env with store := C01.run ops } = .ok ((), st'))
    (hbig : cap c o < (C05.spec c.index ops).length) (hnone : o.nTrees = none) :
    ∃ roots,
      Reader.open c st'.store = .ok ⟨roots, c.dims, (C05.spec c.index ops).map (·.1)⟩ ∧
      1 ≤ roots.length ∧
      (roots.length = (rootsOf c (C01.run ops)).length ∨
       roots.length = Nat.max ((C05.spec c.index ops).length / ((C05.spec c.index ops).length / c.dims + 1)) 1) := by
  obtain ⟨roots, hopen, _, _, _, hc, _, ha⟩ := C15_history ops hops c o fuel env st' hwf h
  refine ⟨roots, hopen, ha hbig hnone, ?_⟩
  rw [hc hbig]
  exact C15_auto_cases o _ _ _ hnone

/-- the previous number of trees, in the reader's terms: if a reader could be opened on the state before the
    build, the `rootsOf c (run ops)` of `C15_history` is what it held -/
theorem C15_history_previous_roots (ops : List C01.Op) (c : Cfg) (rd : ReaderState)
    (h : Reader.open c (C01.run ops) = .ok rd) : rootsOf c (C01.run ops) = rd.roots :=
  (open_roots h).symm

/-- the single-bucket path in full: one tree, the bucket `0` holding every item; none for an empty index -/
theorem C15_history_single (ops : List C01.Op) (hops : ∀ op ∈ ops, op.wf)
    (c : Cfg) (o : BuildOpts) (fuel : Nat) (env st' : BState) (hwf : (C01.Op.build c o fuel env).wf)
    (h : Build.build c o fuel { env with store := C01.run ops } = .ok ((), st'))
    (hfit : (C05.spec c.index ops).length ≤ cap c o) :
    Reader.open c st'.store =
      .ok ⟨if (C05.spec c.index ops).isEmpty then [] else [0], c.dims, (C05.spec c.index ops).map (·.1)⟩ ∧
    Check.trees c st'.store =
      (if (C05.spec c.index ops).isEmpty then [] else [.bucket 0 ((C05.spec c.index ops).map (·.1))]) := by
  obtain ⟨hi, hcap, hn⟩ := hwf
  have hinv : IndexInvW c (C01.run ops) := (C01.C01_invariant ops hops c hi).1
  have hkeys := (C05.C05_history_presence ops hops c hi).2.2.2.2.2.1
  obtain ⟨roots, hopen, _, _, _, _, _, _⟩ := C15_history ops hops c o fuel env st' ⟨hi, hcap, hn⟩ h
  have hsingle := C15_single c o fuel { env with store := C01.run ops } st' hi hcap freshSupply hinv h
    (by simp only [fits, decide_eq_true_eq]; rw [keysOf_length_eq_spec ops hops c hi]; exact hfit)
  simp only [hkeys, List.isEmpty_map] at hsingle
  have hr : roots = rootsOf c st'.store := open_roots hopen
  rw [hsingle.1] at hr
  rw [hr] at hopen
  exact ⟨hopen, hsingle.2⟩

/-! ## searches on a non-empty index return results -/

/-- **C15 over histories, searches on a non-empty index return results**: in the situation of `C15_history`,
    if the index holds at least one item, every unfiltered query with `count ≥ 1` and a budget of at least one
    candidate (ANY `search_k ≠ 0` and oversampling ≠ 0, or both unset: second clause) succeeds with a NON-EMPTY
    answer — for any budget, however small, not only the unlimited one. -/
theorem C15_history_search_nonempty (ops : List C01.Op) (hops : ∀ op ∈ ops, op.wf)
    (c : Cfg) (o : BuildOpts) (fuel : Nat) (env st' : BState) (hwf : (C01.Op.build c o fuel env).wf)
    (h : Build.build c o fuel { env with store := C01.run ops } = .ok ((), st'))
    (hpos : 0 < (C05.spec c.index ops).length) :
    ∃ roots,
      Reader.open c st'.store = .ok ⟨roots, c.dims, (C05.spec c.index ops).map (·.1)⟩ ∧
      1 ≤ roots.length ∧
      (∀ (qh qv : List Nat) (q : QueryOpts), q.candidates = none → 1 ≤ q.count →
        1 ≤ budget c.metric roots.length q →
        ∃ ans, nnsByLeaf c st'.store ⟨roots, c.dims, (C05.spec c.index ops).map (·.1)⟩ qh qv q = .ok ans ∧
          1 ≤ ans.length) ∧
      (∀ (qh qv : List Nat) (q : QueryOpts), q.candidates = none → 1 ≤ q.count →
        q.searchK ≠ some 0 → q.oversampling ≠ some 0 →
        ∃ ans, nnsByLeaf c st'.store ⟨roots, c.dims, (C05.spec c.index ops).map (·.1)⟩ qh qv q = .ok ans ∧
          1 ≤ ans.length) := by
  have hkeys := (C05.C05_history_presence ops hops c hwf.1).2.2.2.2.2.1
  obtain ⟨roots, hopen, hF, _⟩ := C01.C01_forestOK_reachable ops hops c o fuel env st' hwf h
  rw [hkeys] at hopen hF
  have hne : (⟨roots, c.dims, (C05.spec c.index ops).map (·.1)⟩ : ReaderState).items ≠ [] := by
    intro e
    have := congrArg List.length e
    simp only [List.length_map, List.length_nil] at this
    omega
  have hr : 1 ≤ roots.length := by
    obtain ⟨ts, F⟩ := hF
    have := F.roots_ne hne
    cases hrr : roots with
    | nil => exact absurd hrr this
    | cons a l => simp
  have key : ∀ (qh qv : List Nat) (q : QueryOpts), q.candidates = none → 1 ≤ q.count →
      1 ≤ budget c.metric roots.length q →
      ∃ ans, nnsByLeaf c st'.store ⟨roots, c.dims, (C05.spec c.index ops).map (·.1)⟩ qh qv q = .ok ans ∧
        1 ≤ ans.length :=
    fun qh qv q hq hc hb => nnsByLeaf_nonempty hF hne qh qv q hq hc hb
  exact ⟨roots, hopen, hr, key,
    fun qh qv q hq hc hk ho => key qh qv q hq hc (budget_pos _ _ q hr hc hk ho)⟩

/-! ## constant capacity -/

/-- **C15 over histories, capacity, in the reader's terms**: if every build of index `c` in the history used the
    bucket capacity `K` (`capIs`; the other operations — item operations, clears, metric changes
    (`prepare` leaves the index without any tree), builds of other indexes — are unconstrained) and so does the
    last build, then on the state the reader opens:
    * the trees read at the reader's roots (`Check.trees`: they are held by the store, one per root) have no
      bucket of more than `K` items;
    * no descendants node stored under ANY tree key of the index — whatever the traversal can pop — lists more
      than `K` items;
    * the executable checker `Check.capacityOk` accepts the state. -/
theorem C15_history_capacity (ops : List C01.Op) (hops : ∀ op ∈ ops, op.wf)
    (c : Cfg) (o : BuildOpts) (fuel : Nat) (env st' : BState) (hwf : (C01.Op.build c o fuel env).wf)
    (h : Build.build c o fuel { env with store := C01.run ops } = .ok ((), st'))
    (K : Nat) (hK : ∀ op ∈ ops, capIs c K op) (hlast : cap c o = K) :
    ∃ roots,
      Reader.open c st'.store = .ok ⟨roots, c.dims, (C05.spec c.index ops).map (·.1)⟩ ∧
      (Check.trees c st'.store).map (·.ref) = roots.map NodeId.mkTree ∧
      (∀ t ∈ Check.trees c st'.store, Holds c st'.store t) ∧
      (∀ t ∈ Check.trees c st'.store, ∀ bk ∈ t.buckets, bk.2.length ≤ K) ∧
      (∀ id ids, Store.get st'.store (c.treeKey id) = some (.desc ids) → ids.length ≤ K) ∧
      Check.capacityOk c st'.store K = [] := by
  have hkeys := (C05.C05_history_presence ops hops c hwf.1).2.2.2.2.2.1
  obtain ⟨hrun, roots', ts, hm, hf, _, _⟩ := C01.C01_forest ops hops c o fuel env st' hwf h
  obtain ⟨roots, hopen, hFW, _⟩ := C01.C01_reader_reachable ops hops c o fuel env st' hwf h
  rw [hkeys] at hopen
  have htrees : Check.trees c st'.store = ts := Check.trees_of_forest hf (by simp [rootsOf, hm])
  have hbk : ∀ t ∈ Check.trees c st'.store, ∀ bk ∈ t.buckets, bk.2.length ≤ K := by
    rw [← hrun]
    apply C15_capacity_all_histories c hwf.1 K _ (C05.wf_snoc hops hwf)
    intro op hop
    rcases List.mem_append.1 hop with hop | hop
    · exact hK op hop
    · rw [List.mem_singleton.1 hop]; exact fun _ => hlast
  refine ⟨roots, hopen, hFW.refs, hFW.holds, hbk, ?_, (capacityOk_nil_iff c _ K).2 hbk⟩
  intro id ids hg
  obtain ⟨t, ht, hb⟩ := hf.desc_is_bucket hg
  exact hbk t (htrees ▸ ht) (id, ids) hb

/-! ## non-vacuity: the concrete histories of `C01Examples.lean`

`ops2` (Euclidean, dimension 2): five items built into ONE tree with capacity 2, then an insertion and a deletion;
the stored items are `1 … 5`. On it: a build asking for 3 trees (grow 1 → 3), then one asking for 1 tree
(shrink 3 → 1), one leaving the choice to arroy; a build with capacity 10 (single bucket); a build after a clear
(empty index). Every build below really succeeds in the model (`decide +kernel`). -/
namespace Ex
open C01 C01.Ex

def o3 : BuildOpts := { nTrees := some 3, splitAfter := some 2 }
def oAuto : BuildOpts := { splitAfter := some 2 }
/-- oracle streams of the growing build: one batch for the inserted item, one for the over-full bucket of the old
    tree, one for each of the two new trees -/
def env3 : BState :=
  { store := [], normals := [[f1, fm15], [f1, 0], [0, f1], [f1, fm15], [f1, 0], [0, f1], [f1, fm15]],
    batches := [1, 3, 5, 5] }
def e0 : BState := { store := [] }
/-- `ops2` followed by the build that grows the forest to 3 trees -/
def ops3 : List Op := ops2 ++ [.build cEx o3 10 env3]
/-- `ops2` followed by a clear of the index -/
def opsC : List Op := ops2 ++ [.clear cEx]

theorem ops3_wf : ∀ op ∈ ops3, op.wf := by decide
theorem opsC_wf : ∀ op ∈ opsC, op.wf := by decide

/-- the builds succeed; the states before them hold what is said -/
theorem grow_ok : isOk (Build.build cEx o3 10 { env3 with store := run ops2 }) = true := by decide +kernel
theorem before3 : (run ops3).keysOf 0 modeItem = [1, 2, 3, 4, 5] ∧ rootsOf cEx (run ops3) = [0, 4, 5] := by
  decide +kernel
theorem shrink_ok : isOk (Build.build cEx oEx 10 { e0 with store := run ops3 }) = true ∧
    isOk (Build.build cEx oAuto 10 { e0 with store := run ops3 }) = true := by decide +kernel
theorem beforeC : (run opsC).keysOf 0 modeItem = [] ∧
    isOk (Build.build cEx oEx 10 { e0 with store := run opsC }) = true := by decide +kernel

theorem ok_of_isOk {r : Except Err (Unit × BState)} (h : isOk r = true) : ∃ st', r = .ok ((), st') := by
  cases r with
  | ok r => exact ⟨r.2, rfl⟩
  | error e => cases h

-- from here on the concrete histories are only used through the facts above
attribute [local irreducible] run

theorem spec2_length : (C05.spec cEx.index ops2).length = 5 := by
  rw [← keysOf_length_eq_spec ops2 ops2_wf cEx (by decide)]
  exact congrArg List.length before2.1

theorem spec3_length : (C05.spec cEx.index ops3).length = 5 := by
  rw [← keysOf_length_eq_spec ops3 ops3_wf cEx (by decide)]
  exact congrArg List.length before3.1

theorem specC_length : (C05.spec cEx.index opsC).length = 0 := by
  rw [← keysOf_length_eq_spec opsC opsC_wf cEx (by decide)]
  exact congrArg List.length beforeC.1

/-- `C15_history`, growing: the index had 1 tree, 3 are requested, the reader reports 3 (5 items > capacity 2) -/
example : ∃ st' roots, Build.build cEx o3 10 { env3 with store := run ops2 } = .ok ((), st') ∧
    Reader.open cEx st'.store = .ok ⟨roots, 2, (C05.spec 0 ops2).map (·.1)⟩ ∧
    (rootsOf cEx (run ops2)).length = 1 ∧ roots.length = 3 := by
  obtain ⟨st', h⟩ := ok_of_isOk grow_ok
  obtain ⟨roots, hopen, _, _, _, _, hreq, _⟩ := C15_history ops2 ops2_wf cEx o3 10 env3 st' (by decide) h
  exact ⟨st', roots, h, hopen, by rw [before2.2.2.2]; rfl,
    hreq (by rw [spec2_length]; decide) 3 rfl⟩

/-- `C15_history`, shrinking: the index had 3 trees, 1 is requested, the reader reports 1 -/
example : ∃ st' roots, Build.build cEx oEx 10 { e0 with store := run ops3 } = .ok ((), st') ∧
    Reader.open cEx st'.store = .ok ⟨roots, 2, (C05.spec 0 ops3).map (·.1)⟩ ∧
    (rootsOf cEx (run ops3)).length = 3 ∧ roots.length = 1 := by
  obtain ⟨st', h⟩ := ok_of_isOk shrink_ok.1
  obtain ⟨roots, hopen, _, _, _, _, hreq, _⟩ := C15_history ops3 ops3_wf cEx oEx 10 e0 st' (by decide) h
  exact ⟨st', roots, h, hopen, by rw [before3.2]; rfl,
    hreq (by rw [spec3_length]; decide) 1 rfl⟩

/-- `C15_history` / `C15_history_auto`, the choice left to arroy (3 trees before, 5 items of dimension 2):
    at least one tree, and exactly `targetNTrees` -/
example : ∃ st' roots, Build.build cEx oAuto 10 { e0 with store := run ops3 } = .ok ((), st') ∧
    Reader.open cEx st'.store = .ok ⟨roots, 2, (C05.spec 0 ops3).map (·.1)⟩ ∧
    1 ≤ roots.length ∧ roots.length = targetNTrees oAuto 2 5 3 := by
  obtain ⟨st', h⟩ := ok_of_isOk shrink_ok.2
  obtain ⟨roots, hopen, _, _, _, hcount, _, hauto⟩ := C15_history ops3 ops3_wf cEx oAuto 10 e0 st' (by decide) h
  have hbig : cap cEx oAuto < (C05.spec cEx.index ops3).length := by rw [spec3_length]; decide
  refine ⟨st', roots, h, hopen, hauto hbig rfl, ?_⟩
  have := hcount hbig
  rw [spec3_length, before3.2] at this
  exact this

/-- `C15_history` / `C15_history_single`, single bucket: with capacity 10 the five items fit one bucket — one tree -/
example : ∃ st', Build.build cEx oLeaf 0 { e0 with store := run ops2 } = .ok ((), st') ∧
    Reader.open cEx st'.store = .ok ⟨[0], 2, (C05.spec 0 ops2).map (·.1)⟩ ∧
    Check.trees cEx st'.store = [.bucket 0 ((C05.spec 0 ops2).map (·.1))] := by
  obtain ⟨st', h⟩ := ok_of_isOk (r := Build.build cEx oLeaf 0 { e0 with store := run ops2 }) single_ok.1
  have hne : (C05.spec cEx.index ops2).isEmpty = false := by
    cases hs : C05.spec cEx.index ops2 with
    | nil => have := spec2_length; rw [hs] at this; cases this
    | cons a l => rfl
  have := C15_history_single ops2 ops2_wf cEx oLeaf 0 e0 st' (by decide) h (by rw [spec2_length]; decide)
  simp only [hne, Bool.false_eq_true, if_false] at this
  exact ⟨st', h, this.1, this.2⟩

example : ∃ st' roots, Build.build cEx oLeaf 0 { e0 with store := run ops2 } = .ok ((), st') ∧
    Reader.open cEx st'.store = .ok ⟨roots, 2, (C05.spec 0 ops2).map (·.1)⟩ ∧ roots.length = 1 := by
  obtain ⟨st', h⟩ := ok_of_isOk (r := Build.build cEx oLeaf 0 { e0 with store := run ops2 }) single_ok.1
  obtain ⟨roots, hopen, _, _, hone, _⟩ := C15_history ops2 ops2_wf cEx oLeaf 0 e0 st' (by decide) h
  exact ⟨st', roots, h, hopen, hone (by rw [spec2_length]; decide) (by rw [spec2_length]; decide)⟩

/-- `C15_history`, empty index (a built index, cleared, built again): no tree -/
example : ∃ st', Build.build cEx oEx 10 { e0 with store := run opsC } = .ok ((), st') ∧
    Reader.open cEx st'.store = .ok ⟨[], 2, (C05.spec 0 opsC).map (·.1)⟩ := by
  obtain ⟨st', h⟩ := ok_of_isOk beforeC.2
  obtain ⟨roots, hopen, _, hzero, _⟩ := C15_history opsC opsC_wf cEx oEx 10 e0 st' (by decide) h
  rw [hzero specC_length] at hopen
  exact ⟨st', h, hopen⟩

/-- `C15_history_search_nonempty`: on the 3-tree state, the smallest query (`count = 1`, `search_k = 1`)
    has an answer -/
example : ∃ st' roots ans, Build.build cEx o3 10 { env3 with store := run ops2 } = .ok ((), st') ∧
    Reader.open cEx st'.store = .ok ⟨roots, 2, (C05.spec 0 ops2).map (·.1)⟩ ∧
    nnsByLeaf cEx st'.store ⟨roots, 2, (C05.spec 0 ops2).map (·.1)⟩ [] [f1, f1] { count := 1, searchK := some 1 } =
      .ok ans ∧ 1 ≤ ans.length := by
  obtain ⟨st', h⟩ := ok_of_isOk grow_ok
  obtain ⟨roots, hopen, _, _, hq⟩ := C15_history_search_nonempty ops2 ops2_wf cEx o3 10 env3 st' (by decide) h
    (by rw [spec2_length]; decide)
  obtain ⟨ans, ha, hl⟩ := hq [] [f1, f1] { count := 1, searchK := some 1 } rfl (by decide) (by decide) (by decide)
  exact ⟨st', roots, ans, h, hopen, ha, hl⟩

/-- `C15_history_capacity`: every build of `ops3` (the first one, the growing one) and the shrinking build use
    the capacity 2 -/
theorem ops3_cap : ∀ op ∈ ops3, capIs cEx 2 op := by
  intro op hop
  rcases List.mem_append.1 hop with hop | hop
  · exact C01.Ex.ops2_cap op (List.mem_append_left _ hop)
  · rw [List.mem_singleton.1 hop]; exact fun _ => rfl

example : ∃ st', Build.build cEx oEx 10 { e0 with store := run ops3 } = .ok ((), st') ∧
    Check.capacityOk cEx st'.store 2 = [] ∧
    ∀ id ids, Store.get st'.store (cEx.treeKey id) = some (.desc ids) → ids.length ≤ 2 := by
  obtain ⟨st', h⟩ := ok_of_isOk shrink_ok.1
  obtain ⟨roots, _, _, _, _, hdesc, hchk⟩ :=
    C15_history_capacity ops3 ops3_wf cEx oEx 10 e0 st' (by decide) h 2 ops3_cap rfl
  exact ⟨st', h, hchk, hdesc⟩

end Ex

end Arroy.C15
