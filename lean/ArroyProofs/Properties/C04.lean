import ArroyProofs.SelfLookup
import ArroyProofs.ForestExample
/-! C04 — a stored vector is routed to itself by every tree (self-lookup works).

`RoutedT (Build.treeCtx c o s) t` (ArroyProofs/InsT.lean) is the builder-side routing invariant of a tree;
`Check.goodPath c s x t` says that `t` separates `x` by non-degenerate planes with decisive margins only. -/
namespace Arroy.C04
open Arroy Reader

/-- **C04, first sentence**: `RoutedT` says exactly that, below every non-degenerate plane, no stored item sits
in the subtree that the reader pops second when queried with the item's own vector (`readerFirst`, justified by
`C04_readerFirst_spec`). The margin only needs to be symmetric on (stored vector, normal of the tree) pairs. -/
theorem C04_routed_meaning (c : Cfg) (o : BuildOpts) (s : Store) (t : T)
    (hsymm : ∀ n ∈ t.normals, ∀ y hy vy, s.get (c.itemKey y) = some (.leaf hy vy) →
      c.metric.margin c.host vy n = c.metric.margin c.host n vy) :
    RoutedT (Build.treeCtx c o s) t ↔ ReaderRouted c s t :=
  routedT_iff_readerRouted c o s t hsymm

/-- the same under full symmetry of the margin -/
theorem C04_routed_meaning_symm (c : Cfg) (o : BuildOpts) (s : Store) (t : T)
    (hsymm : ∀ a b, c.metric.margin c.host a b = c.metric.margin c.host b a) :
    RoutedT (Build.treeCtx c o s) t ↔ ReaderRouted c s t :=
  routedT_iff_readerRouted c o s t (fun n _ _ _ vy _ => hsymm vy n)

/-- what "sent first" means: below a popped node of positive priority `d`, the child named by `readerFirst` gets
a positive priority, its sibling a non-positive one, so it is strictly greater in the queue order -/
theorem C04_readerFirst_spec (c : Cfg) (qv normal : List Nat) (d : Nat) (hd : F32.lt F32.zero d = true) (b : Bool)
    (h : readerFirst c qv normal = some b) :
    F32.lt F32.zero (Metric.pqDistance d (readerMargin c qv normal) b) = true ∧
    F32.lt F32.zero (Metric.pqDistance d (readerMargin c qv normal) (!b)) = false ∧
    F32.ordLt (Metric.pqDistance d (readerMargin c qv normal) (!b))
      (Metric.pqDistance d (readerMargin c qv normal) b) = true :=
  readerFirst_spec c qv normal d hd b h

/-- the side the builder computes for a stored item is the child the reader pops first for the item's vector -/
theorem C04_side_eq_readerFirst (c : Cfg) (s : Store) (n : List Nat) (hz : c.metric.isZero n = false)
    (y : Nat) (hy vy : List Nat) (hs : s.get (c.itemKey y) = some (.leaf hy vy))
    (hsymm : c.metric.margin c.host vy n = c.metric.margin c.host n vy) :
    Build.sideOf c s n y = some (readerFirst c vy n) :=
  sideOf_eq_readerFirst c s n hz y hy vy hs hsymm

/-- **C04, second sentence (self-lookup)**: on a valid forest whose trees are routed, if some tree separates
the stored item `x` by non-degenerate planes with decisive margins only, then `nns_by_leaf` on `x`'s own stored
leaf with any budget ≥ 1 (in particular the smallest, 1), no filter and `count ≥ #items` returns `x`.
The margin only needs to be symmetric between `x`'s vector and the normals of the forest. -/
theorem C04_selfLookup {c : Cfg} {s : Store} {rd : ReaderState} {ts : List T} (F : ForestWith c s rd ts)
    (o : BuildOpts) (hrouted : ∀ t ∈ ts, RoutedT (Build.treeCtx c o s) t)
    (x : Nat) (h v : List Nat) (hx : s.get (c.itemKey x) = some (.leaf h v))
    (hsymm : ∀ t ∈ ts, ∀ n ∈ t.normals, c.metric.margin c.host v n = c.metric.margin c.host n v)
    (t₀ : T) (ht₀ : t₀ ∈ ts) (hgood : Check.goodPath c s x t₀ = true)
    (q : QueryOpts) (hq : q.candidates = none) (hb : 1 ≤ budget c.metric rd.roots.length q)
    (hcount : rd.items.length ≤ q.count) :
    ∃ ans, nnsByLeaf c s rd h v q = .ok ans ∧ x ∈ ans.map (·.1) :=
  nnsByLeaf_selfLookup F o hrouted x h v hx hsymm t₀ ht₀ hgood q hq hb hcount

/-- the same under full symmetry of the margin (`hsymm` as proved from soft-float commutativity) -/
theorem C04_selfLookup_symm {c : Cfg} {s : Store} {rd : ReaderState} {ts : List T} (F : ForestWith c s rd ts)
    (o : BuildOpts) (hrouted : ∀ t ∈ ts, RoutedT (Build.treeCtx c o s) t)
    (hsymm : ∀ a b, c.metric.margin c.host a b = c.metric.margin c.host b a)
    (x : Nat) (h v : List Nat) (hx : s.get (c.itemKey x) = some (.leaf h v))
    (t₀ : T) (ht₀ : t₀ ∈ ts) (hgood : Check.goodPath c s x t₀ = true)
    (q : QueryOpts) (hq : q.candidates = none) (hb : 1 ≤ budget c.metric rd.roots.length q)
    (hcount : rd.items.length ≤ q.count) :
    ∃ ans, nnsByLeaf c s rd h v q = .ok ans ∧ x ∈ ans.map (·.1) :=
  C04_selfLookup F o hrouted x h v hx (fun _ _ n _ => hsymm v n) t₀ ht₀ hgood q hq hb hcount

/-- **self-lookup through `QueryBuilder::by_item`** with `search_k = 1` -/
theorem C04_selfLookup_by_item {c : Cfg} {s : Store} {rd : ReaderState} {ts : List T} (F : ForestWith c s rd ts)
    (o : BuildOpts) (hrouted : ∀ t ∈ ts, RoutedT (Build.treeCtx c o s) t)
    (x : Nat) (h v : List Nat) (hx : s.get (c.itemKey x) = some (.leaf h v))
    (hsymm : ∀ t ∈ ts, ∀ n ∈ t.normals, c.metric.margin c.host v n = c.metric.margin c.host n v)
    (t₀ : T) (ht₀ : t₀ ∈ ts) (hgood : Check.goodPath c s x t₀ = true)
    (q : QueryOpts) (hq : q.candidates = none) (hb : 1 ≤ budget c.metric rd.roots.length q)
    (hcount : rd.items.length ≤ q.count) :
    ∃ ans, byItem c s rd x q = .ok (some ans) ∧ x ∈ ans.map (·.1) := by
  obtain ⟨ans, ha, hm⟩ := C04_selfLookup F o hrouted x h v hx hsymm t₀ ht₀ hgood q hq hb hcount
  exact ⟨ans, by simp [byItem, Writer.itemLeaf, hx, ha], hm⟩

/-- the loop invariant behind self-lookup, for reference: budget 1, empty candidate list -/
theorem C04_traverse_invariant (c : Cfg) (o : BuildOpts) (s : Store)
    (x : Nat) (h v : List Nat) (hx : s.get (c.itemKey x) = some (.leaf h v))
    (q : QueryOpts) (hq : q.candidates = none) (fuel : Nat) (tq : List (Nat × T))
    (hsy : ∀ p ∈ tq, ∀ n ∈ p.2.normals, c.metric.margin c.host v n = c.metric.margin c.host n v)
    (hh : ∀ p ∈ tq, Holds c s p.2) (hr : ∀ p ∈ tq, RoutedT (Build.treeCtx c o s) p.2)
    (hn : ∀ p ∈ tq, F32.isNaN p.1 = false)
    (hc : ∀ p ∈ tq, F32.lt F32.zero p.1 = true → x ∈ p.2.items)
    (hg : ∃ p ∈ tq, F32.lt F32.zero p.1 = true ∧ Check.goodPath c s x p.2 = true)
    (hf : (tq.map (fun p => p.2.size)).sum < fuel) :
    ∃ out, traverse c s v q 1 fuel (qOf tq) [] = .ok out ∧ x ∈ out :=
  traverse_selfLookup c o s x h v hx q hq fuel tq hsy hh hr hn hc hg hf

/-! ### non-vacuity: the index of `ForestExample` (plane normal (0,1); item 2 = (0,2) has margin 2 > 0 and is
the right child; items 0 and 1 have margin 0 and share the left bucket) -/
section Examples
open ForestExample

example : RoutedT (Build.treeCtx ForestExample.c {} ForestExample.s) tree := by decide +kernel
example : Check.goodPath ForestExample.c ForestExample.s 2 tree = true := by decide +kernel
example : ForestExample.s.get (ForestExample.c.itemKey 2) = some (.leaf [F32.zero] [F32.zero, F32.two]) := by decide
example : ∀ n ∈ tree.normals, ForestExample.c.metric.margin ForestExample.c.host [F32.zero, F32.two] n =
    ForestExample.c.metric.margin ForestExample.c.host n [F32.zero, F32.two] := by decide +kernel
example : 1 ≤ budget ForestExample.c.metric ForestExample.rd.roots.length { count := 3, searchK := some 1 } := by
  decide

/-- the theorem applied: `by_item(2)` with `search_k = 1`, `count = 3` returns item 2 -/
example : ∃ ans, byItem ForestExample.c ForestExample.s ForestExample.rd 2 { count := 3, searchK := some 1 } =
    .ok (some ans) ∧ 2 ∈ ans.map (·.1) :=
  C04_selfLookup_by_item forestWith {} (by intro t ht; simp only [List.mem_singleton] at ht; subst ht; decide +kernel)
    2 [F32.zero] [F32.zero, F32.two] (by decide)
    (by intro t ht; simp only [List.mem_singleton] at ht; subst ht; decide +kernel)
    tree (by simp) (by decide +kernel) _ rfl (by decide) (by decide)

/-- items 0 and 1 have a zero margin against the only plane: no good path, the theorem does not apply to them -/
example : Check.goodPath ForestExample.c ForestExample.s 0 tree = false := by decide +kernel

end Examples

end Arroy.C04
