import ArroyProofs.ResplitFairBound
import ArroyProofs.Properties.C14FairBuild
/-! C14 — a closed-form loop budget for the whole build.

`C14_build_terminates_above_cap` needs `buildLoopMeasure c o st < loopFuel`, where the measure is read off the state
the prefix of the build leaves.  Here the measure is bounded by the input alone: with

* `n` = the number of stored items, `(st.store.keysOf c.index modeItem).length`,
* `T` = the number of trees the build aims at, `Build.targetNTrees o c.dims n r` where `r` is the number of roots
  recorded in the metadata, `(rootsOf c st.store).length` (this IS the number of roots at loop entry),

the measure is at most `T * (n - 1) ≤ T * n`.  `T` is the requested count when `o.nTrees = some t`, and at most
`max r (max 1 n)` (`max r c.dims` when `0 < c.dims`) when `o.nTrees = none`. -/
namespace Arroy.C14
open Arroy BuildM Generated IdSet Transp

/-- **C14 (the measure of the queue at loop entry, sharp form)**: at most `T * (n - 1)`: every queued id with a
non-zero size is a bucket of one of the `T` trees at loop entry, the queue is duplicate-free, and the buckets of one
tree hold `Σ (size - 1) ≤ n - 1` -/
theorem C14_loop_measure_bound_sharp (c : Cfg) (o : BuildOpts) (st : BState)
    (hi : c.index < 65536) (hcap : 1 ≤ Build.cap c o) (hinv : IndexInvW c st.store) (hnone : st.cancelAt = none) :
    buildLoopMeasure c o st ≤
      Build.targetNTrees o c.dims (st.store.keysOf c.index modeItem).length (rootsOf c st.store).length *
        ((st.store.keysOf c.index modeItem).length - 1) := by
  obtain ⟨roots0, items0, ts0, old⟩ := Old.of_inv hinv hi
  unfold buildLoopMeasure
  split
  · rename_i items roots large g st1 hp
    obtain ⟨ts, inUse, f, _, _, _, _, hitems, hlen, hsorted⟩ :=
      buildPrefix_spec_ext c o st st1 roots0 items0 ts0 items roots large g hi hcap hinv.1 hinv.2.1 old hnone
        freshSupply hp
    have hnd : items.Nodup := by
      rw [hitems]
      exact (Store.keysOf_sorted hinv.1 hinv.2.1 _ _ hi (by decide)).nodup
    have := forest_loopMeasure_le f hnd large hsorted.nodup
    rw [hlen, hitems] at this
    exact this
  · exact Nat.zero_le _

/-- **C14 (the measure of the queue at loop entry)**: at most `T * n`, `T` the number of trees the build aims at
and `n` the number of stored items -/
theorem C14_loop_measure_bound (c : Cfg) (o : BuildOpts) (st : BState)
    (hi : c.index < 65536) (hcap : 1 ≤ Build.cap c o) (hinv : IndexInvW c st.store) (hnone : st.cancelAt = none) :
    buildLoopMeasure c o st ≤
      Build.targetNTrees o c.dims (st.store.keysOf c.index modeItem).length (rootsOf c st.store).length *
        (st.store.keysOf c.index modeItem).length :=
  Nat.le_trans (C14_loop_measure_bound_sharp c o st hi hcap hinv hnone) (Nat.mul_le_mul_left _ (Nat.sub_le _ _))

/-- **C14 (the number of trees aimed at, requested)**: the requested count -/
theorem C14_target_trees_some (o : BuildOpts) (dims n r t : Nat) (h : o.nTrees = some t) :
    Build.targetNTrees o dims n r = t := by
  simp only [Build.targetNTrees, h]

/-- **C14 (the number of trees aimed at, default)**: at most the number of recorded roots, or of items, or 1 -/
theorem C14_target_trees_none_le (o : BuildOpts) (dims n r : Nat) (h : o.nTrees = none) :
    Build.targetNTrees o dims n r ≤ max r (max 1 n) := by
  have hnb : Nat.max (n / (n / dims + 1)) 1 ≤ max 1 n := by
    have := Nat.div_le_self n (n / dims + 1)
    show max (n / (n / dims + 1)) 1 ≤ max 1 n
    omega
  simp only [Build.targetNTrees, h]
  generalize Nat.max (n / (n / dims + 1)) 1 = nb at hnb ⊢
  split
  · split <;> omega
  · omega

/-- **C14 (the number of trees aimed at, default, by the dimension)**: at most the number of recorded roots or the
dimension -/
theorem C14_target_trees_none_le_dims (o : BuildOpts) (dims n r : Nat) (h : o.nTrees = none) (hd : 0 < dims) :
    Build.targetNTrees o dims n r ≤ max r dims := by
  have hnb : Nat.max (n / (n / dims + 1)) 1 ≤ dims := by
    have h1 : n / (n / dims + 1) < dims := by
      rw [Nat.div_lt_iff_lt_mul (Nat.succ_pos _)]
      have h2 := Nat.div_add_mod n dims
      have h3 := Nat.mod_lt n hd
      have h4 : dims * (n / dims + 1) = dims * (n / dims) + dims := by rw [Nat.mul_add, Nat.mul_one]
      show n < dims * (n / dims + 1)
      omega
    show max (n / (n / dims + 1)) 1 ≤ dims
    omega
  simp only [Build.targetNTrees, h]
  generalize Nat.max (n / (n / dims + 1)) 1 = nb at hnb ⊢
  split
  · split <;> omega
  · omega

/-- **C14 (a build terminates within an explicit budget)**: on a store satisfying the index invariant, without
cancellation schedule, for every option and oracle stream (hence every memory hint): if the loop budget exceeds
`T * n` (`T` the number of trees aimed at, `n` the number of stored items — both read off the input) and every round
of the loop has a batch longer than the capacity, `build` does not report any exhausted fuel -/
theorem C14_build_terminates_explicit (c : Cfg) (o : BuildOpts) (loopFuel : Nat) (st : BState)
    (hi : c.index < 65536) (hcap : 1 ≤ Build.cap c o) (hinv : IndexInvW c st.store) (hnone : st.cancelAt = none)
    (hfuel : Build.targetNTrees o c.dims (st.store.keysOf c.index modeItem).length (rootsOf c st.store).length *
      (st.store.keysOf c.index modeItem).length < loopFuel)
    (hbatch : ∀ f ∈ buildTrace c o loopFuel st, Build.cap c o < f.batch) (w : String) :
    Build.build c o loopFuel st ≠ .error (.fuel w) :=
  C14_build_terminates_above_cap c o loopFuel st hi hcap hinv hnone
    (Nat.lt_of_le_of_lt (C14_loop_measure_bound c o st hi hcap hinv hnone) hfuel) hbatch w

/-- **C14 (the same with the sharp budget)** `T * (n - 1) < loopFuel` -/
theorem C14_build_terminates_explicit_sharp (c : Cfg) (o : BuildOpts) (loopFuel : Nat) (st : BState)
    (hi : c.index < 65536) (hcap : 1 ≤ Build.cap c o) (hinv : IndexInvW c st.store) (hnone : st.cancelAt = none)
    (hfuel : Build.targetNTrees o c.dims (st.store.keysOf c.index modeItem).length (rootsOf c st.store).length *
      ((st.store.keysOf c.index modeItem).length - 1) < loopFuel)
    (hbatch : ∀ f ∈ buildTrace c o loopFuel st, Build.cap c o < f.batch) (w : String) :
    Build.build c o loopFuel st ≠ .error (.fuel w) :=
  C14_build_terminates_above_cap c o loopFuel st hi hcap hinv hnone
    (Nat.lt_of_le_of_lt (C14_loop_measure_bound_sharp c o st hi hcap hinv hnone) hfuel) hbatch w

/-- **C14 (explicit budget, any upper bound of the number of trees)** -/
theorem C14_build_terminates_trees_le (c : Cfg) (o : BuildOpts) (loopFuel : Nat) (st : BState) (T : Nat)
    (hi : c.index < 65536) (hcap : 1 ≤ Build.cap c o) (hinv : IndexInvW c st.store) (hnone : st.cancelAt = none)
    (hT : Build.targetNTrees o c.dims (st.store.keysOf c.index modeItem).length (rootsOf c st.store).length ≤ T)
    (hfuel : T * (st.store.keysOf c.index modeItem).length < loopFuel)
    (hbatch : ∀ f ∈ buildTrace c o loopFuel st, Build.cap c o < f.batch) (w : String) :
    Build.build c o loopFuel st ≠ .error (.fuel w) :=
  C14_build_terminates_explicit c o loopFuel st hi hcap hinv hnone
    (Nat.lt_of_le_of_lt (Nat.mul_le_mul_right _ hT) hfuel) hbatch w

/-- **C14 (explicit budget, requested number of trees)**: with `o.nTrees = some t`, a loop budget above `t * n` -/
theorem C14_build_terminates_ntrees (c : Cfg) (o : BuildOpts) (loopFuel : Nat) (st : BState) (t : Nat)
    (hi : c.index < 65536) (hcap : 1 ≤ Build.cap c o) (hinv : IndexInvW c st.store) (hnone : st.cancelAt = none)
    (ht : o.nTrees = some t)
    (hfuel : t * (st.store.keysOf c.index modeItem).length < loopFuel)
    (hbatch : ∀ f ∈ buildTrace c o loopFuel st, Build.cap c o < f.batch) (w : String) :
    Build.build c o loopFuel st ≠ .error (.fuel w) :=
  C14_build_terminates_trees_le c o loopFuel st t hi hcap hinv hnone
    (Nat.le_of_eq (C14_target_trees_some o _ _ _ t ht)) hfuel hbatch w

/-- **C14 (explicit budget, default number of trees)**: with `o.nTrees = none`, a loop budget above
`max r (max 1 n) * n`, `r` the number of recorded roots -/
theorem C14_build_terminates_default (c : Cfg) (o : BuildOpts) (loopFuel : Nat) (st : BState)
    (hi : c.index < 65536) (hcap : 1 ≤ Build.cap c o) (hinv : IndexInvW c st.store) (hnone : st.cancelAt = none)
    (ht : o.nTrees = none)
    (hfuel : max (rootsOf c st.store).length (max 1 (st.store.keysOf c.index modeItem).length) *
      (st.store.keysOf c.index modeItem).length < loopFuel)
    (hbatch : ∀ f ∈ buildTrace c o loopFuel st, Build.cap c o < f.batch) (w : String) :
    Build.build c o loopFuel st ≠ .error (.fuel w) :=
  C14_build_terminates_trees_le c o loopFuel st _ hi hcap hinv hnone
    (C14_target_trees_none_le o _ _ _ ht) hfuel hbatch w

/-- **C14 (explicit budget, default number of trees, by the dimension)**: with `o.nTrees = none` and a positive
dimension, a loop budget above `max r dims * n` -/
theorem C14_build_terminates_default_dims (c : Cfg) (o : BuildOpts) (loopFuel : Nat) (st : BState)
    (hi : c.index < 65536) (hcap : 1 ≤ Build.cap c o) (hinv : IndexInvW c st.store) (hnone : st.cancelAt = none)
    (ht : o.nTrees = none) (hd : 0 < c.dims)
    (hfuel : max (rootsOf c st.store).length c.dims * (st.store.keysOf c.index modeItem).length < loopFuel)
    (hbatch : ∀ f ∈ buildTrace c o loopFuel st, Build.cap c o < f.batch) (w : String) :
    Build.build c o loopFuel st ≠ .error (.fuel w) :=
  C14_build_terminates_trees_le c o loopFuel st _ hi hcap hinv hnone
    (C14_target_trees_none_le_dims o _ _ _ ht hd) hfuel hbatch w

/-- **C14 (explicit budget, fair rounds)**: the same when every round of the loop is fair -/
theorem C14_build_terminates_fair_explicit (c : Cfg) (o : BuildOpts) (loopFuel : Nat) (st : BState)
    (hi : c.index < 65536) (hcap : 1 ≤ Build.cap c o) (hinv : IndexInvW c st.store) (hnone : st.cancelAt = none)
    (hfuel : Build.targetNTrees o c.dims (st.store.keysOf c.index modeItem).length (rootsOf c st.store).length *
      (st.store.keysOf c.index modeItem).length < loopFuel)
    (hfair : ∀ f ∈ buildTrace c o loopFuel st, f.fair) (w : String) :
    Build.build c o loopFuel st ≠ .error (.fuel w) :=
  C14_build_terminates_fair c o loopFuel st hi hcap hinv hnone
    (Nat.lt_of_le_of_lt (C14_loop_measure_bound c o st hi hcap hinv hnone) hfuel) hfair w

/-! ## non-vacuity: the second build of the history of `C01Examples` (`FairExamples.st2`: 5 stored items, one
recorded root, `nTrees = some 1`), with loop budgets 6 (`> T * n = 5`) and 5 (`> T * (n - 1) = 4`) -/
namespace BoundExamples
open C01 C01.Ex FairExamples

/-- the input: 5 stored items, 1 recorded root, 1 tree aimed at; the measure of the queue is 2; with the budget 6
the loop is the one round of `build2_trace` -/
theorem st2_facts :
    (st2.store.keysOf cEx.index modeItem).length = 5 ∧ (rootsOf cEx st2.store).length = 1 ∧
    Build.targetNTrees oEx cEx.dims 5 1 = 1 ∧ buildTrace cEx oEx 6 st2 = [⟨2, 3, 3, 1, 2, []⟩] := by
  decide +kernel

/-- the same build with the default number of trees (`nTrees = none`: `5 / (5 / 2 + 1) = 1` tree) -/
def oDef : BuildOpts := { splitAfter := some 2 }

theorem st2_facts_default :
    Build.targetNTrees oDef cEx.dims 5 1 = 1 ∧ buildTrace cEx oDef 26 st2 = [⟨2, 3, 3, 1, 2, []⟩] ∧
    buildLoopMeasure cEx oDef st2 = 2 := by
  decide +kernel

-- from here on the concrete history is only used through the facts above
attribute [local irreducible] run

/-- the bound is not vacuous: measure `2 ≤ 1 * (5 - 1) ≤ 1 * 5` -/
example : buildLoopMeasure cEx oEx st2 = 2 ∧
    Build.targetNTrees oEx cEx.dims (st2.store.keysOf cEx.index modeItem).length (rootsOf cEx st2.store).length *
      ((st2.store.keysOf cEx.index modeItem).length - 1) = 4 := by
  refine ⟨build2_trace.2, ?_⟩
  rw [st2_facts.1, st2_facts.2.1, st2_facts.2.2.1]

example : buildLoopMeasure cEx oEx st2 ≤
    Build.targetNTrees oEx cEx.dims (st2.store.keysOf cEx.index modeItem).length (rootsOf cEx st2.store).length *
      (st2.store.keysOf cEx.index modeItem).length :=
  C14_loop_measure_bound cEx oEx st2 (by decide) (by decide) st2_inv rfl

/-- the hypotheses of `C14_build_terminates_explicit` (and of its `nTrees = some t` corollary) hold on `st2` with
the budget 6 -/
example : cEx.index < 65536 ∧ 1 ≤ Build.cap cEx oEx ∧ IndexInvW cEx st2.store ∧ st2.cancelAt = none ∧
    oEx.nTrees = some 1 ∧
    Build.targetNTrees oEx cEx.dims (st2.store.keysOf cEx.index modeItem).length (rootsOf cEx st2.store).length *
      (st2.store.keysOf cEx.index modeItem).length < 6 ∧
    1 * (st2.store.keysOf cEx.index modeItem).length < 6 ∧
    (∀ f ∈ buildTrace cEx oEx 6 st2, Build.cap cEx oEx < f.batch) ∧ (∀ f ∈ buildTrace cEx oEx 6 st2, f.fair) := by
  refine ⟨by decide, by decide, st2_inv, rfl, rfl, ?_, ?_, ?_, ?_⟩
  · rw [st2_facts.1, st2_facts.2.1, st2_facts.2.2.1]; decide
  · rw [st2_facts.1]; decide
  · rw [st2_facts.2.2.2]; decide
  · rw [st2_facts.2.2.2]; decide

example (w : String) : Build.build cEx oEx 6 st2 ≠ .error (.fuel w) :=
  C14_build_terminates_explicit cEx oEx 6 st2 (by decide) (by decide) st2_inv rfl
    (by rw [st2_facts.1, st2_facts.2.1, st2_facts.2.2.1]; decide)
    (by rw [st2_facts.2.2.2]; decide) w

example (w : String) : Build.build cEx oEx 6 st2 ≠ .error (.fuel w) :=
  C14_build_terminates_ntrees cEx oEx 6 st2 1 (by decide) (by decide) st2_inv rfl rfl
    (by rw [st2_facts.1]; decide) (by rw [st2_facts.2.2.2]; decide) w

/-- with the sharp budget the loop budget 5 of the original history is enough: `1 * (5 - 1) < 5` -/
example (w : String) : Build.build cEx oEx 5 st2 ≠ .error (.fuel w) :=
  C14_build_terminates_explicit_sharp cEx oEx 5 st2 (by decide) (by decide) st2_inv rfl
    (by rw [st2_facts.1, st2_facts.2.1, st2_facts.2.2.1]; decide)
    (by rw [build2_trace.1]; decide) w

/-- the hypotheses of the `nTrees = none` corollaries hold on `st2` with the budget 26:
`max 1 (max 1 5) * 5 = 25 < 26` and `max 1 2 * 5 = 10 < 26` -/
example : oDef.nTrees = none ∧ 0 < cEx.dims ∧ 1 ≤ Build.cap cEx oDef ∧
    max (rootsOf cEx st2.store).length (max 1 (st2.store.keysOf cEx.index modeItem).length) *
      (st2.store.keysOf cEx.index modeItem).length < 26 ∧
    max (rootsOf cEx st2.store).length cEx.dims * (st2.store.keysOf cEx.index modeItem).length < 26 ∧
    (∀ f ∈ buildTrace cEx oDef 26 st2, Build.cap cEx oDef < f.batch) := by
  refine ⟨rfl, by decide, by decide, ?_, ?_, ?_⟩
  · rw [st2_facts.1, st2_facts.2.1]; decide
  · rw [st2_facts.1, st2_facts.2.1]; decide
  · rw [st2_facts_default.2.1]; decide

example (w : String) : Build.build cEx oDef 26 st2 ≠ .error (.fuel w) :=
  C14_build_terminates_default cEx oDef 26 st2 (by decide) (by decide) st2_inv rfl rfl
    (by rw [st2_facts.1, st2_facts.2.1]; decide) (by rw [st2_facts_default.2.1]; decide) w

example (w : String) : Build.build cEx oDef 26 st2 ≠ .error (.fuel w) :=
  C14_build_terminates_default_dims cEx oDef 26 st2 (by decide) (by decide) st2_inv rfl rfl (by decide)
    (by rw [st2_facts.1, st2_facts.2.1]; decide) (by rw [st2_facts_default.2.1]; decide) w

end BoundExamples

end Arroy.C14
