import ArroyProofs.BruteForce
import ArroyProofs.ForestExample
/-! C02 — unlimited-budget search returns the exact nearest neighbours.

`ForestOK c s rd` (ArroyProofs/Forest.lean) is the store-level validity of the forest that a successful
build establishes (C01). `exactOver c s dims qh qv count ids` (ArroyProofs/Nns.lean) is the specification:
score every id of `ids` with `builtDistance` against the stored leaf, sort by `(OrderedFloat score, id)`,
keep `count`, report `normalizedDistance`. -/
namespace Arroy.C02
open Arroy Reader

/-- **C02 (exactness)**: on a valid forest, without a filter, with a budget of at least trees × items,
`nns_by_leaf` returns exactly the `count` nearest stored items, nearest first, with their reported distances. -/
theorem C02_exact {c : Cfg} {s : Store} {rd : ReaderState} (F : ForestOK c s rd) (qh qv : List Nat) (q : QueryOpts)
    (hq : q.candidates = none)
    (hb : rd.roots.length * rd.items.length ≤ budget c.metric rd.roots.length q) :
    nnsByLeaf c s rd qh qv q = .ok (exactOver c s rd.dims qh qv q.count rd.items) := by
  have := nnsByLeaf_exact F qh qv q (Or.inl hq) hb
  rwa [filter_none q hq] at this

/-- the same for `search_k = usize::MAX` (any oversampling ≥ 1, or the metric's default), given
fewer than 2^64 trees × items -/
theorem C02_exact_usizeMax {c : Cfg} {s : Store} {rd : ReaderState} (F : ForestOK c s rd) (qh qv : List Nat)
    (q : QueryOpts) (hq : q.candidates = none) (hk : q.searchK = some usizeMax) (ho : q.oversampling ≠ some 0)
    (hsz : rd.roots.length * rd.items.length ≤ usizeMax) :
    nnsByLeaf c s rd qh qv q = .ok (exactOver c s rd.dims qh qv q.count rd.items) :=
  C02_exact F qh qv q hq (by rw [budget_unlimited _ _ q hk ho]; exact hsz)

/-- the same when the budget is unset and `count × trees` saturates (`count = usize::MAX`) -/
theorem C02_exact_saturated {c : Cfg} {s : Store} {rd : ReaderState} (F : ForestOK c s rd) (qh qv : List Nat)
    (q : QueryOpts) (hq : q.candidates = none) (hk : q.searchK = none)
    (hc : usizeMax ≤ q.count * rd.roots.length) (ho : q.oversampling ≠ some 0)
    (hsz : rd.roots.length * rd.items.length ≤ usizeMax) :
    nnsByLeaf c s rd qh qv q = .ok (exactOver c s rd.dims qh qv q.count rd.items) :=
  C02_exact F qh qv q hq (by rw [budget_saturated _ _ q hk hc ho]; exact hsz)

/-- **C02 (what exactness means)**: the answer has `min count #items` entries, pairwise distinct ids,
all of them stored items carrying the normalised true score, nearest first on the true scores
(ties by id), and no item left out is nearer than an item returned (no stored item is unreachable). -/
theorem C02_spec {c : Cfg} {s : Store} {rd : ReaderState} (F : ForestOK c s rd) (qh qv : List Nat) (q : QueryOpts)
    (hq : q.candidates = none)
    (hb : rd.roots.length * rd.items.length ≤ budget c.metric rd.roots.length q) :
    ∃ ans, nnsByLeaf c s rd qh qv q = .ok ans ∧
      ans.length = min q.count rd.items.length ∧
      (ans.map (·.1)).Nodup ∧
      (∀ p ∈ ans, p.1 ∈ rd.items ∧ IsLeaf c s p.1 ∧
        p.2 = c.metric.normalizedDistance (scoreOf c s qh qv p.1) rd.dims) ∧
      (ans.map fun p => (scoreOf c s qh qv p.1, p.1)).Pairwise (fun a b => scoreLe a b = true) ∧
      (∀ p ∈ ans, ∀ y ∈ rd.items, y ∉ ans.map (·.1) →
        scoreLe (scoreOf c s qh qv p.1, p.1) (scoreOf c s qh qv y, y) = true) := by
  refine ⟨_, C02_exact F qh qv q hq hb, exactOver_length .., ?_, ?_, exactOver_sorted .., ?_⟩
  · obtain ⟨ts, F⟩ := F
    exact exactOver_nodup _ _ _ _ _ _ _ F.sorted.nodup
  · intro p hp
    have := exactOver_mem _ _ _ _ _ _ _ p hp
    obtain ⟨ts, F⟩ := F
    exact ⟨this.1, F.stored _ this.1, this.2⟩
  · intro p hp y hy hny
    exact exactOver_best _ _ _ _ _ _ _ p hp y hy hny

/-- **C02 (uniqueness)**: the exact answer does not depend on how it is computed: any arrangement of the
scored items that is sorted by `(OrderedFloat score, id)` is the list `nns_by_leaf` truncates. -/
theorem C02_unique (c : Cfg) (s : Store) (qh qv : List Nat) (ids : List Nat) (l : List (Nat × Nat))
    (hp : l.Perm (scored c s qh qv ids)) (hs : l.Pairwise (fun a b => scoreLe a b = true)) :
    l = sortedScored c s qh qv ids := sortedScored_unique c s qh qv ids l hp hs

/-- **C02 (oracle)**: if moreover the item keys of the store are exactly the metadata items (C01), the answer
is the head of `Check.bruteForce`, the brute-force oracle over the stored leaves. -/
theorem C02_exact_bruteforce {c : Cfg} {s : Store} {rd : ReaderState} (F : ForestOK c s rd) (qh qv : List Nat)
    (q : QueryOpts) (hq : q.candidates = none)
    (hb : rd.roots.length * rd.items.length ≤ budget c.metric rd.roots.length q)
    (hwf : ∀ kv ∈ s, kv.1.wf) (hidx : c.index < 256 ^ 2)
    (hkeys : s.keysOf c.index Generated.modeItem = rd.items) :
    nnsByLeaf c s rd qh qv q =
      .ok (((Check.bruteForce c s qh qv none).take q.count).map
        fun (d, id) => (id, c.metric.normalizedDistance d rd.dims)) := by
  rw [C02_exact F qh qv q hq hb]
  obtain ⟨ts, F⟩ := F
  rw [bruteForce_eq c s qh qv rd.items hwf hidx hkeys F.sorted.nodup F.stored]
  rfl

/-- `QueryBuilder::by_vector` with an unlimited budget -/
theorem C02_by_vector {c : Cfg} {s : Store} {rd : ReaderState} (F : ForestOK c s rd) (vec : List Nat)
    (q : QueryOpts) (hd : vec.length = rd.dims) (hq : q.candidates = none)
    (hb : rd.roots.length * rd.items.length ≤ budget c.metric rd.roots.length q) :
    byVector c s rd vec q =
      .ok (exactOver c s rd.dims (c.metric.newHeader c.host (c.metric.fromSlice vec)) (c.metric.fromSlice vec)
        q.count rd.items) := by
  unfold byVector
  simp only [hd, ne_eq, not_true_eq_false, if_false]
  exact C02_exact F _ _ q hq hb

/-- `QueryBuilder::by_item` with an unlimited budget, for a stored id -/
theorem C02_by_item {c : Cfg} {s : Store} {rd : ReaderState} (F : ForestOK c s rd) (id : Nat) (h v : List Nat)
    (hs : s.get (c.itemKey id) = some (.leaf h v))
    (q : QueryOpts) (hq : q.candidates = none)
    (hb : rd.roots.length * rd.items.length ≤ budget c.metric rd.roots.length q) :
    byItem c s rd id q = .ok (some (exactOver c s rd.dims h v q.count rd.items)) := by
  unfold byItem Writer.itemLeaf
  simp only [hs, C02_exact F h v q hq hb]

/-! ### non-vacuity: the hypotheses hold on a concrete index with a split node, a bucket and an item child -/

open ForestExample in
example : ForestOK ForestExample.c ForestExample.s ForestExample.rd := forestOK

open ForestExample in
example : ForestExample.rd.roots.length * ForestExample.rd.items.length ≤ usizeMax := by decide

open ForestExample in
/-- the theorem applied: querying (0,0) with `search_k = usize::MAX`, `count = 2` -/
example :
    nnsByLeaf ForestExample.c ForestExample.s ForestExample.rd [F32.zero] [F32.zero, F32.zero]
        { count := 2, searchK := some usizeMax } =
      .ok (exactOver ForestExample.c ForestExample.s 2 [F32.zero] [F32.zero, F32.zero] 2 [0, 1, 2]) :=
  C02_exact_usizeMax forestOK _ _ _ rfl rfl (by decide) (by decide)

open ForestExample in
example : (∀ kv ∈ ForestExample.s, kv.1.wf) ∧ ForestExample.c.index < 256 ^ 2 ∧
    ForestExample.s.keysOf ForestExample.c.index Generated.modeItem = ForestExample.rd.items := by
  refine ⟨?_, by decide, ?_⟩
  · rw [s_eq]; decide
  · rw [s_eq]; decide

/-- `C02_exact_saturated`: `count = usize::MAX`, budget unset -/
example : usizeMax ≤ ({ count := usizeMax } : QueryOpts).count * ForestExample.rd.roots.length := by decide

/-- `C02_by_vector` / `C02_by_item` on the example: query by the vector (1,0) / by item 1 -/
example : byVector ForestExample.c ForestExample.s ForestExample.rd [F32.one, F32.zero]
      { count := 3, searchK := some usizeMax } =
    .ok (exactOver ForestExample.c ForestExample.s 2 [F32.zero] [F32.one, F32.zero] 3 [0, 1, 2]) :=
  C02_by_vector ForestExample.forestOK _ _ rfl rfl (by decide)

example : byItem ForestExample.c ForestExample.s ForestExample.rd 1 { count := 3, searchK := some usizeMax } =
    .ok (some (exactOver ForestExample.c ForestExample.s 2 [F32.zero] [F32.one, F32.zero] 3 [0, 1, 2])) :=
  C02_by_item ForestExample.forestOK 1 _ _ (by decide) _ rfl (by decide)

end Arroy.C02
