import ArroyProofs.BQLemmas
import ArroyProofs.F32OfNat
import ArroyProofs.F32Order
import ArroyProofs.BQCosine
/-! # C12 — binary quantisation keeps exactly the sign pattern and its Hamming geometry

All theorems are for **every** dimension and **every** component value (any natural number taken
as a bit pattern: `+0.0`, `-0.0`, NaNs of both signs, infinities, subnormals are just values;
no `x < 2^32` hypothesis is needed). `host` (CPU features) is arbitrary everywhere. -/
namespace Arroy.C12
open Arroy Generated

/-- what a component reads back as: `+1.0` iff its sign bit is clear -/
def sgn (x : Nat) : Nat := if F32.signPositive x then F32.one else F32.negOne

/-- number of positions whose sign bits differ -/
def diffSigns (xs ys : List Nat) : Nat :=
  (xs.zip ys).countP (fun p => F32.signPositive p.1 != F32.signPositive p.2)

/-- the sign pattern of a vector -/
def signs (xs : List Nat) : List Bool := xs.map F32.signPositive

/-- the three binary-quantised metrics -/
def bqMetrics : List Metric := [.bqEuclidean, .bqManhattan, .bqCosine]

/-- the leaf header the writer stores next to a quantised vector -/
def hdr (m : Metric) (host : Host) (v : List Nat) : List Nat := m.newHeader host v

/-- built distance between two stored leaves (header computed by `new_header`) -/
def built (m : Metric) (host : Host) (u v : List Nat) : Nat :=
  m.builtDistance host (hdr m host u) u (hdr m host v) v

/-- the end-to-end distance of two input vectors: quantise, build headers, distance, normalise -/
def dist (m : Metric) (host : Host) (xs ys : List Nat) : Nat :=
  m.normalizedDistance (built m host (m.fromSlice xs) (m.fromSlice ys)) xs.length

/-- BQ-cosine built distance as a function of the two word counts and `h` only:
    `(1 − pq / sqrt(64 wu · 64 wv)) / 2` with `pq = 64·min wu wv − 2h`, all in binary32 -/
def cosineOf (wu wv h : Nat) : Nat := BQL.cosineOf wu wv h

theorem diffSigns_eq (xs ys : List Nat) : diffSigns xs ys = BQL.diffSigns xs ys :=
  (BQL.diffSigns_eq_countP xs ys).symm

/-! ## the codec -/

/-- reading back a quantised vector, truncated to the declared dimension, gives the sign values -/
theorem C12_roundtrip (xs : List Nat) :
    (BQ.unpack (BQ.pack xs)).take xs.length = xs.map sgn := by
  rw [BQL.unpack_pack]
  have : xs.length = (xs.map BQL.sgn).length := by simp
  rw [this, List.take_left]; rfl

/-- the same through `UnalignedVector::from_slice` / `to_vec` of each quantised metric -/
theorem C12_roundtrip_metric (m : Metric) (hm : m ∈ bqMetrics) (xs : List Nat) :
    (m.toVec (m.fromSlice xs)).take xs.length = xs.map sgn := by
  have : m.isBq = true := by
    simp only [bqMetrics, List.mem_cons, List.not_mem_nil, or_false] at hm
    rcases hm with rfl | rfl | rfl <;> decide
  simp only [Metric.toVec, Metric.fromSlice, this, if_true]
  exact C12_roundtrip xs

/-- number of stored words -/
theorem C12_length (xs : List Nat) : (BQ.pack xs).length = (xs.length + 63) / 64 :=
  BQL.pack_length xs

/-- the untruncated vector has 64 components per word -/
theorem C12_unpack_length (xs : List Nat) :
    (BQ.unpack (BQ.pack xs)).length = 64 * ((xs.length + 63) / 64) := by
  rw [BQL.unpack_pack]
  simp only [List.length_append, List.length_map, List.length_replicate, BQL.padBits]
  omega

/-- padding: everything beyond the declared dimension reads back as `-1.0` (the bits are 0),
    and every stored word fits in 64 bits -/
theorem C12_padding (xs : List Nat) :
    (BQ.unpack (BQ.pack xs)).drop xs.length
        = List.replicate ((64 - xs.length % 64) % 64) F32.negOne
    ∧ (∀ y ∈ (BQ.unpack (BQ.pack xs)).drop xs.length, y = F32.negOne)
    ∧ (∀ w ∈ BQ.pack xs, w < 2 ^ 64) := by
  have h : (BQ.unpack (BQ.pack xs)).drop xs.length
      = List.replicate ((64 - xs.length % 64) % 64) F32.negOne := by
    rw [BQL.unpack_pack]
    have : xs.length = (xs.map BQL.sgn).length := by simp
    rw (occs := .pos [1]) [this]
    rw [List.drop_left]; rfl
  refine ⟨h, ?_, BQL.pack_lt xs⟩
  rw [h]; intro y hy; exact (List.mem_replicate.mp hy).2

/-- packing depends on the sign bits only -/
theorem C12_sign_only (xs ys : List Nat) (h : signs xs = signs ys) : BQ.pack xs = BQ.pack ys := by
  rw [BQL.pack_eq_packBits, BQL.pack_eq_packBits]
  unfold signs at h
  rw [h]

/-! ## Hamming geometry -/

/-- popcount of the xor of the stored words = number of differing signs (padding bits agree) -/
theorem C12_hamming (xs ys : List Nat) (hl : xs.length = ys.length) :
    BQ.hamming (BQ.pack xs) (BQ.pack ys) = diffSigns xs ys := by
  rw [diffSigns_eq]; exact BQL.hamming_pack xs ys hl

theorem C12_hamming_symm (u v : List Nat) : BQ.hamming u v = BQ.hamming v u := BQL.hamming_comm u v

theorem C12_hamming_self (u : List Nat) : BQ.hamming u u = 0 := BQL.hamming_self u

theorem C12_hamming_le (xs ys : List Nat) (hl : xs.length = ys.length) :
    BQ.hamming (BQ.pack xs) (BQ.pack ys) ≤ xs.length := by
  rw [BQL.hamming_pack xs ys hl]; exact BQL.diffSigns_le xs ys

theorem C12_hamming_zero_iff (xs ys : List Nat) (hl : xs.length = ys.length) :
    BQ.hamming (BQ.pack xs) (BQ.pack ys) = 0 ↔ signs xs = signs ys := by
  rw [BQL.hamming_pack xs ys hl]; exact BQL.diffSigns_zero_iff xs ys hl

theorem C12_diffSigns_symm (xs ys : List Nat) : diffSigns xs ys = diffSigns ys xs := by
  rw [diffSigns_eq, diffSigns_eq]; exact BQL.diffSigns_comm xs ys

/-! ## distances as functions of `h` -/

/-- `squared_euclidean_distance_binary_quantized`: `4 h` (any headers) -/
theorem C12_euclid (host : Host) (ph qh u v : List Nat) :
    Metric.builtDistance .bqEuclidean host ph u qh v = F32.ofNat (4 * BQ.hamming u v) := by
  simp only [Metric.builtDistance, Nat.mul_comm]

/-- `manhattan_distance_binary_quantized`: `2 h` (any headers) -/
theorem C12_manhattan (host : Host) (ph qh u v : List Nat) :
    Metric.builtDistance .bqManhattan host ph u qh v = F32.ofNat (2 * BQ.hamming u v) := by
  simp only [Metric.builtDistance, Nat.mul_comm]

/-- `dot_product_binary_quantized`: (agreeing bits) − (differing bits) over the stored words -/
theorem C12_dot (u v : List Nat) :
    BQ.dot u v = F32.ofInt ((64 * min u.length v.length : Nat) - 2 * (BQ.hamming u v : Nat)) := rfl

theorem C12_margin (m : Metric) (hm : m ∈ bqMetrics) (host : Host) (u v : List Nat) :
    m.margin host u v = F32.ofInt ((64 * min u.length v.length : Nat) - 2 * (BQ.hamming u v : Nat)) := by
  have : m.isBq = true := by
    simp only [bqMetrics, List.mem_cons, List.not_mem_nil, or_false] at hm
    rcases hm with rfl | rfl | rfl <;> decide
  simp only [Metric.margin, this, if_true]; rfl

/-- BQ-cosine between two stored leaves: a function of the word counts and `h` (any headers:
    since the repair the stored norms are not used) -/
theorem C12_cosine (host : Host) (ph qh u v : List Nat) :
    Metric.builtDistance .bqCosine host ph u qh v = cosineOf u.length v.length (BQ.hamming u v) :=
  BQL.built_cosine host ph qh u v

/-- for `w` words (`D = 64 w < 2^62`) the product of the norms `sqrt(D·D)` is exactly `D`, and the
    distance is `(1 − (D − 2h)/D) / 2` computed in binary32 -/
theorem C12_cosine_closed (w h : Nat) (hw : 0 < w) (hb : 64 * w < 2 ^ 62) :
    cosineOf w w h
      = F32.div (F32.sub F32.one
          (F32.div (F32.ofInt ((64 * w : Nat) - 2 * (h : Nat))) (F32.ofNat (64 * w)))) F32.two :=
  BQL.cosineOf_closed w h hw hb

/-- the exactness fact behind it: `sqrt((n as f32) * (n as f32)) = n as f32` for all `n < 2^62` -/
theorem C12_norm_product_exact (n : Nat) (hn : n < 2 ^ 62) :
    F32.sqrt (F32.mul (F32.ofNat n) (F32.ofNat n)) = F32.ofNat n :=
  F32L.sqrt_mul_ofNat n hn

/-- the three built distances of quantised inputs of equal dimension, in terms of `diffSigns` -/
theorem C12_built (host : Host) (xs ys : List Nat) (hl : xs.length = ys.length) :
    built .bqEuclidean host (BQ.pack xs) (BQ.pack ys) = F32.ofNat (4 * diffSigns xs ys)
    ∧ built .bqManhattan host (BQ.pack xs) (BQ.pack ys) = F32.ofNat (2 * diffSigns xs ys)
    ∧ built .bqCosine host (BQ.pack xs) (BQ.pack ys)
        = cosineOf ((xs.length + 63) / 64) ((xs.length + 63) / 64) (diffSigns xs ys) := by
  refine ⟨?_, ?_, ?_⟩
  · rw [built, C12_euclid, C12_hamming xs ys hl]
  · rw [built, C12_manhattan, C12_hamming xs ys hl]
  · rw [built, C12_cosine, C12_hamming xs ys hl, C12_length, C12_length, ← hl]

/-- end-to-end (normalised) distances: `4h/d`, `2h/d` and the cosine value, computed in binary32 -/
theorem C12_normalized (host : Host) (xs ys : List Nat) (hl : xs.length = ys.length) :
    dist .bqEuclidean host xs ys = F32.div (F32.ofNat (4 * diffSigns xs ys)) (F32.ofNat xs.length)
    ∧ dist .bqManhattan host xs ys = F32.div (F32.ofNat (2 * diffSigns xs ys)) (F32.ofNat xs.length)
    ∧ dist .bqCosine host xs ys
        = cosineOf ((xs.length + 63) / 64) ((xs.length + 63) / 64) (diffSigns xs ys) := by
  obtain ⟨h1, h2, h3⟩ := C12_built host xs ys hl
  refine ⟨?_, ?_, ?_⟩
  · show Metric.normalizedDistance .bqEuclidean (built .bqEuclidean host (BQ.pack xs) (BQ.pack ys)) _ = _
    rw [h1]; rfl
  · show Metric.normalizedDistance .bqManhattan (built .bqManhattan host (BQ.pack xs) (BQ.pack ys)) _ = _
    rw [h2]; simp only [Metric.normalizedDistance, F32L.max_ofNat_zero]
  · show Metric.normalizedDistance .bqCosine (built .bqCosine host (BQ.pack xs) (BQ.pack ys)) _ = _
    rw [h3]; rfl

/-- every distance is a function of the number of differing signs (and the dimension) only -/
theorem C12_depends_only_on_h (m : Metric) (hm : m ∈ bqMetrics) (host : Host)
    (xs ys xs' ys' : List Nat) (hl : xs.length = ys.length) (hl' : xs'.length = ys'.length)
    (hd : xs.length = xs'.length) (hh : diffSigns xs ys = diffSigns xs' ys') :
    built m host (m.fromSlice xs) (m.fromSlice ys) = built m host (m.fromSlice xs') (m.fromSlice ys')
    ∧ dist m host xs ys = dist m host xs' ys' := by
  obtain ⟨a1, a2, a3⟩ := C12_built host xs ys hl
  obtain ⟨b1, b2, b3⟩ := C12_built host xs' ys' hl'
  obtain ⟨c1, c2, c3⟩ := C12_normalized host xs ys hl
  obtain ⟨d1, d2, d3⟩ := C12_normalized host xs' ys' hl'
  simp only [bqMetrics, List.mem_cons, List.not_mem_nil, or_false] at hm
  rcases hm with rfl | rfl | rfl
  · exact ⟨by show built _ host (BQ.pack xs) (BQ.pack ys) = built _ host (BQ.pack xs') (BQ.pack ys')
              rw [a1, b1, hh], by rw [c1, d1, hh, hd]⟩
  · exact ⟨by show built _ host (BQ.pack xs) (BQ.pack ys) = built _ host (BQ.pack xs') (BQ.pack ys')
              rw [a2, b2, hh], by rw [c2, d2, hh, hd]⟩
  · exact ⟨by show built _ host (BQ.pack xs) (BQ.pack ys) = built _ host (BQ.pack xs') (BQ.pack ys')
              rw [a3, b3, hh, hd], by rw [c3, d3, hh, hd]⟩

/-- symmetry in the two leaves, for arbitrary stored vectors -/
theorem C12_symm (m : Metric) (hm : m ∈ bqMetrics) (host : Host) (u v : List Nat) :
    built m host u v = built m host v u := by
  simp only [bqMetrics, List.mem_cons, List.not_mem_nil, or_false] at hm
  rcases hm with rfl | rfl | rfl
  · rw [built, built, C12_euclid, C12_euclid, C12_hamming_symm]
  · rw [built, built, C12_manhattan, C12_manhattan, C12_hamming_symm]
  · rw [built, built, C12_cosine, C12_cosine, C12_hamming_symm]; exact BQL.cosineOf_comm _ _ _

/-- symmetry of the end-to-end distance -/
theorem C12_symm_dist (m : Metric) (hm : m ∈ bqMetrics) (host : Host) (xs ys : List Nat)
    (hl : xs.length = ys.length) : dist m host xs ys = dist m host ys xs := by
  unfold dist
  rw [C12_symm m hm host, hl]

/-- equal sign patterns: Euclidean and Manhattan distances are `+0.0`, built and normalised
    (normalised: for a non-empty vector; `0/0` is NaN for dimension 0) -/
theorem C12_zero (host : Host) (xs ys : List Nat) (hs : signs xs = signs ys) :
    built .bqEuclidean host (BQ.pack xs) (BQ.pack ys) = 0
    ∧ built .bqManhattan host (BQ.pack xs) (BQ.pack ys) = 0
    ∧ (0 < xs.length → dist .bqEuclidean host xs ys = 0 ∧ dist .bqManhattan host xs ys = 0) := by
  have hl : xs.length = ys.length := by
    have := congrArg List.length hs
    simpa [signs] using this
  have h0 : diffSigns xs ys = 0 := by
    rw [← C12_hamming xs ys hl]; exact (C12_hamming_zero_iff xs ys hl).mpr hs
  obtain ⟨a1, a2, -⟩ := C12_built host xs ys hl
  obtain ⟨c1, c2, -⟩ := C12_normalized host xs ys hl
  rw [h0] at a1 a2 c1 c2
  refine ⟨by rw [a1]; exact F32L.ofNat_zero, by rw [a2]; exact F32L.ofNat_zero, ?_⟩
  intro hd
  rw [c1, c2]
  exact ⟨F32L.zero_div_ofNat hd, F32L.zero_div_ofNat hd⟩

/-- BQ-cosine, equal sign patterns: the distance is `+0.0` at EVERY dimension below `2^61`
    (`cos = D/D = 1` exactly). The bound is needed: from `D = 2^64` on, `D·D` overflows binary32 and
    the distance is `0.5` (or NaN). -/
theorem C12_zero_cosine (host : Host) (xs ys : List Nat) (hs : signs xs = signs ys)
    (hd : xs.length < 2 ^ 61) :
    built .bqCosine host (BQ.pack xs) (BQ.pack ys) = 0 ∧ dist .bqCosine host xs ys = 0 := by
  have hl : xs.length = ys.length := by
    have := congrArg List.length hs
    simpa [signs] using this
  have h0 : diffSigns xs ys = 0 := by
    rw [← C12_hamming xs ys hl]; exact (C12_hamming_zero_iff xs ys hl).mpr hs
  obtain ⟨-, -, a3⟩ := C12_built host xs ys hl
  obtain ⟨-, -, c3⟩ := C12_normalized host xs ys hl
  rw [h0] at a3 c3
  rw [a3, c3]
  have hw : 64 * ((xs.length + 63) / 64) < 2 ^ 62 := by omega
  exact ⟨BQL.cosineOf_self_zero _ hw, BQL.cosineOf_self_zero _ hw⟩

/-- BQ-cosine is a number in `[0, 1]` (never negative, never NaN) for every dimension below `2^61`
    and every `h` up to the padded dimension: `(D − 2h)/D` rounds into `[-1, 1]`, `1 − c` into
    `[0, 2]`, halving into `[0, 1]` -/
theorem C12_cosine_nonneg (w h : Nat) (hw : 0 < w) (hb : 64 * w < 2 ^ 62) (hh : h ≤ 64 * w) :
    F32.le F32.zero (cosineOf w w h) = true ∧ F32.le (cosineOf w w h) F32.one = true :=
  BQL.cosineOf_range w h hw hb hh

/-- the same on vectors: built and end-to-end BQ-cosine distances lie in `[0, 1]` -/
theorem C12_cosine_nonneg_dist (host : Host) (xs ys : List Nat) (hl : xs.length = ys.length)
    (h0 : 0 < xs.length) (hd : xs.length < 2 ^ 61) :
    F32.le F32.zero (dist .bqCosine host xs ys) = true
    ∧ F32.le (dist .bqCosine host xs ys) F32.one = true := by
  obtain ⟨-, -, c3⟩ := C12_normalized host xs ys hl
  rw [c3]
  apply C12_cosine_nonneg _ _ (by omega) (by omega)
  have := BQL.diffSigns_le xs ys
  rw [diffSigns_eq]
  omega

/-- History of the finding, machine-checked: the defect of the formula BEFORE the repair
    (`pnqn = p.norm * q.norm` with `norm = sqrt(dot(v, v))` stored in the headers), as plain binary32
    arithmetic. `sqrt(128)·sqrt(128) = 0x42ffffff`, one ulp below `128.0 = 0x43000000`, so
    `cos = 128/pnqn > 1` and the distance of any 65..=128-dimensional vector to itself was
    `(1 − cos)/2 = 0xb3800000 = −5.9604645e−8`: non-zero and negative. -/
theorem C12_old_formula_defect :
    F32.mul (F32.sqrt (F32.ofNat 128)) (F32.sqrt (F32.ofNat 128)) = 0x42ffffff
    ∧ F32.ofNat 128 = 0x43000000
    ∧ F32.div (F32.sub F32.one (F32.div (F32.ofNat 128)
        (F32.mul (F32.sqrt (F32.ofNat 128)) (F32.sqrt (F32.ofNat 128))))) F32.two = 0xb3800000
    ∧ F32.lt 0xb3800000 F32.zero = true :=
  BQL.old_formula_defect

/-! ## ordering neighbours by `h` -/

/-- Euclidean / Manhattan built distances are monotone in `h`, for all `h` (round-to-nearest-even
    conversion `u32 as f32` is monotone) -/
theorem C12_monotone (h1 h2 : Nat) (h : h1 ≤ h2) :
    F32.le (F32.ofNat (4 * h1)) (F32.ofNat (4 * h2)) = true
    ∧ F32.le (F32.ofNat (2 * h1)) (F32.ofNat (2 * h2)) = true :=
  ⟨F32L.ofNat_le (by omega), F32L.ofNat_le (by omega)⟩

/-- in the exact range (`4 h < 2^24`, i.e. dimension below 4 194 304) the order is strict:
    fewer differing signs means a strictly smaller distance -/
theorem C12_strict_monotone (h1 h2 : Nat) (h : h1 < h2) (hb : 4 * h2 < 2 ^ 24) :
    F32.lt (F32.ofNat (4 * h1)) (F32.ofNat (4 * h2)) = true
    ∧ F32.lt (F32.ofNat (2 * h1)) (F32.ofNat (2 * h2)) = true :=
  ⟨F32L.ofNat_lt (by omega) hb, F32L.ofNat_lt (by omega) (by omega)⟩

/-- the same, stated on vectors: the neighbour with fewer differing signs is closer -/
theorem C12_orders_neighbours (host : Host) (q xs ys : List Nat)
    (hx : q.length = xs.length) (hy : q.length = ys.length)
    (h : diffSigns q xs ≤ diffSigns q ys) :
    F32.le (built .bqEuclidean host (BQ.pack q) (BQ.pack xs))
        (built .bqEuclidean host (BQ.pack q) (BQ.pack ys)) = true
    ∧ F32.le (built .bqManhattan host (BQ.pack q) (BQ.pack xs))
        (built .bqManhattan host (BQ.pack q) (BQ.pack ys)) = true := by
  obtain ⟨a1, a2, -⟩ := C12_built host q xs hx
  obtain ⟨b1, b2, -⟩ := C12_built host q ys hy
  rw [a1, a2, b1, b2]
  exact C12_monotone _ _ h

/-- BQ-cosine orders by `h`, strictly, for every dimension up to 320 (1 to 5 words; kernel
    evaluation of all 960 steps). PARTIAL (bounded) for larger dimensions: the general statement
    needs monotonicity in the numerator of the rounding in `F32.div` (sticky-bit path of
    `SF.roundPack`) and of `F32.sub`, which is not proved here; what IS proved for all dimensions is
    the closed form `C12_cosine_closed`, the range `C12_cosine_nonneg` and `C12_zero_cosine`. -/
theorem C12_monotone_cosine_partial (w h1 h2 : Nat) (hw : 1 ≤ w ∧ w ≤ 5) (h : h1 < h2)
    (hb : h2 ≤ 64 * w) : F32.lt (cosineOf w w h1) (cosineOf w w h2) = true :=
  BQL.cosineOf_strict_mono w h1 h2 hw h hb

/-- for one, two and four words (dimensions 1..=128 and 193..=256, `D` a power of two) the cosine
    distance is exactly `h / D`: `h` over the dimension rounded up to a multiple of 64 -/
theorem C12_cosine_exact (w h : Nat) (hw : w = 1 ∨ w = 2 ∨ w = 4) (hb : h ≤ 64 * w) :
    cosineOf w w h = F32.div (F32.ofNat h) (F32.ofNat (64 * w)) :=
  BQL.cosineOf_exact w h hw hb

/-! ## non-vacuity: concrete vectors with `+0.0`, `-0.0`, NaNs of both signs, infinities, a subnormal -/

/-- `+0.0, -0.0, -NaN, +inf, +NaN, -inf, min subnormal, -1.5` -/
def exA : List Nat :=
  [0x00000000, 0x80000000, 0xffc00001, 0x7f800000, 0x7fc00000, 0xff800000, 0x00000001, 0xbfc00000]
/-- same signs as `exA`, different values: `1.0, -1.0, -0.0, +0.0, +inf, -NaN, 2.0, -inf` -/
def exA' : List Nat :=
  [0x3f800000, 0xbf800000, 0x80000000, 0x00000000, 0x7f800000, 0xffc00001, 0x40000000, 0xff800000]
/-- differs from `exA` in the signs of components 0, 1 and 7 -/
def exB : List Nat :=
  [0x80000000, 0x00000000, 0xffc00001, 0x7f800000, 0x7fc00000, 0xff800000, 0x00000001, 0x3fc00000]
/-- differs from `exA` in the signs of components 2, 3 and 4 -/
def exC : List Nat :=
  [0x00000000, 0x80000000, 0x7fc00001, 0xff800000, 0xffc00000, 0xff800000, 0x00000001, 0xbfc00000]

-- the stored word: bits 0, 3, 4, 6
example : BQ.pack exA = [0b01011001] := by decide +kernel
-- C12_roundtrip / C12_roundtrip_metric on `exA`: +0.0 ↦ 1.0, -0.0 ↦ -1.0, -NaN ↦ -1.0, +inf ↦ 1.0, …
example : (BQ.unpack (BQ.pack exA)).take exA.length
    = [F32.one, F32.negOne, F32.negOne, F32.one, F32.one, F32.negOne, F32.one, F32.negOne] := by
  decide +kernel
example : exA.map sgn
    = [F32.one, F32.negOne, F32.negOne, F32.one, F32.one, F32.negOne, F32.one, F32.negOne] := by
  decide +kernel
example : Metric.bqCosine ∈ bqMetrics := by decide
-- C12_padding / C12_length / C12_unpack_length: 56 padding components, one word
example : (BQ.unpack (BQ.pack exA)).drop exA.length = List.replicate 56 F32.negOne := by decide +kernel
example : (BQ.pack (List.replicate 65 F32.negZero)).length = 2 := by decide +kernel
example : (BQ.pack (List.replicate 65 F32.zero)) = [2 ^ 64 - 1, 1] := by decide +kernel
-- C12_sign_only / C12_zero / C12_hamming_zero_iff: hypotheses hold for two different vectors
example : signs exA = signs exA' ∧ exA ≠ exA' := by decide +kernel
example : BQ.pack exA = BQ.pack exA' := C12_sign_only _ _ (by decide +kernel)
example (host : Host) : dist .bqEuclidean host exA exA' = 0 ∧ dist .bqManhattan host exA exA' = 0 :=
  (C12_zero host exA exA' (by decide +kernel)).2.2 (by decide)
example (host : Host) : dist .bqCosine host exA exA' = 0 :=
  (C12_zero_cosine host exA exA' (by decide +kernel) (by decide)).2
-- C12_hamming / C12_built / C12_normalized: h = 3, d = 8: 12, 6; 1.5, 0.75; cosine 3/64
example : exA.length = exB.length ∧ diffSigns exA exB = 3 := by decide +kernel
example : BQ.hamming (BQ.pack exA) (BQ.pack exB) = 3 := by decide +kernel
example (host : Host) : built .bqEuclidean host (BQ.pack exA) (BQ.pack exB) = 0x41400000 := by
  rw [(C12_built host exA exB (by decide)).1]; decide +kernel
example (host : Host) : dist .bqEuclidean host exA exB = 0x3fc00000
    ∧ dist .bqManhattan host exA exB = 0x3f400000 ∧ dist .bqCosine host exA exB = 0x3d400000 := by
  obtain ⟨h1, h2, h3⟩ := C12_normalized host exA exB (by decide)
  rw [h1, h2, h3]; decide +kernel
-- C12_depends_only_on_h: two different pairs at the same Hamming distance
example : diffSigns exA exB = diffSigns exA exC ∧ signs exB ≠ signs exC := by decide +kernel
example (host : Host) : dist .bqCosine host exA exB = dist .bqCosine host exA exC :=
  (C12_depends_only_on_h .bqCosine (by decide) host exA exB exA exC (by decide) (by decide) rfl
    (by decide +kernel)).2
-- C12_symm
example (host : Host) : dist .bqManhattan host exA exB = dist .bqManhattan host exB exA :=
  C12_symm_dist _ (by decide) host _ _ (by decide)
-- C12_zero_cosine at the dimension where the old formula failed: a 65-dimensional vector of `+0.0`
example (host : Host) :
    dist .bqCosine host (List.replicate 65 F32.zero) (List.replicate 65 F32.negZero |>.map F32.neg) = 0 :=
  (C12_zero_cosine host _ _ (by decide +kernel) (by decide)).2
-- C12_cosine_nonneg: hypotheses hold (3 words, h = 5)
example : F32.le F32.zero (cosineOf 3 3 5) = true ∧ F32.le (cosineOf 3 3 5) F32.one = true :=
  C12_cosine_nonneg 3 5 (by decide) (by decide) (by decide)
example (host : Host) : F32.le F32.zero (dist .bqCosine host exA exB) = true :=
  (C12_cosine_nonneg_dist host exA exB (by decide) (by decide) (by decide)).1
-- C12_old_formula_defect is closed (no hypotheses): see the statement
-- C12_cosine_closed / C12_norm_product_exact: 3 words, D = 192 (not a perfect square)
example : cosineOf 3 3 5 = 0x3cd55550 ∧ F32.sqrt (F32.mul (F32.ofNat 192) (F32.ofNat 192)) = 0x43400000 := by
  decide +kernel
-- C12_monotone / C12_strict_monotone / C12_orders_neighbours / C12_monotone_cosine_partial
example : F32.lt (F32.ofNat (4 * 1)) (F32.ofNat (4 * 2)) = true :=
  (C12_strict_monotone 1 2 (by decide) (by decide)).1
example : F32.le (F32.ofNat (4 * 2 ^ 30)) (F32.ofNat (4 * (2 ^ 30 + 1))) = true :=
  (C12_monotone _ _ (by omega)).1
example (host : Host) :
    F32.le (built .bqEuclidean host (BQ.pack exA) (BQ.pack exA'))
      (built .bqEuclidean host (BQ.pack exA) (BQ.pack exB)) = true :=
  (C12_orders_neighbours host exA exA' exB (by decide) (by decide) (by decide +kernel)).1
example : F32.lt (cosineOf 2 2 0) (cosineOf 2 2 1) = true :=
  C12_monotone_cosine_partial 2 0 1 (by decide) (by decide) (by decide)
example : cosineOf 1 1 16 = 0x3e800000 := by decide +kernel   -- 16/64 = 0.25

end Arroy.C12
