import ArroyProofs.F32StdModel
import ArroyProofs.F32KernelRound
import ArroyProofs.SoftFloatRealDiv
import Mathlib.Analysis.Real.Sqrt
/-! # C11 (real-number side) — the soft-float binary32 arithmetic of the kernels satisfies the standard
model of floating-point arithmetic, and the rounding-error bounds hold for the ACTUAL scalar kernels

`SFR.toReal : Nat → ℝ` is the real value `(-1)^neg · m · 2^e` of a bit pattern (via `SF.unpack`),
`SFR.Finite x` says `x` is neither NaN nor infinite, `SFR.u = 2^-24`,
`SFR.NormalRange r := 2^-126 ≤ |r| ∧ |r| < 2^128·(1 - 2^-25)` (no underflow, no overflow after rounding),
`SFR.NormalOrZero r := r = 0 ∨ NormalRange r`.

* `C11_roundPack_real` : round-to-nearest-even (`SF.roundPack`) has relative error at most `u`.
* `C11_mul_std`, `C11_add_std`, `C11_sub_std`, `C11_fma_std` : each operation on finite operands whose
  exact result is zero or in the normal range returns a finite value `exact·(1+δ)`, `|δ| ≤ u`.
* `C11_f32_std_model_on` : `f32Arith` satisfies the conditional standard model `StdModelOn`
  (`StdModel` is its unconditional instance, `C11_std_model_on_of_std_model`).
* `C11_round_f32_dot`, `C11_round_f32_euclid`, `C11_round_f32_manhattan` : the error bounds of
  `C11_round` for `Kernel.dotScalar f32Arith` etc. on bit patterns, under explicit conditions on the
  exact intermediate results of the run (every exact product / difference and every exact partial sum
  is zero or in the normal range).

* `C11_f32_chk_model` : the same with DECIDABLE side conditions (`SFR.f32Checks`: finite operands, exact
  result zero or with leading bit in `[2^-126, 2^127)`), for the instrumented arithmetic
  `SFR.f32Chk = chkArith f32Arith f32Checks` on `Nat × Bool` that carries "no check failed so far".
* `C11_round_f32_dot_product`, `C11_round_f32_euclidean_distance`, `C11_round_f32_manhattan_distance`,
  `C11_round_f32_simd` : the error bounds of `C11_round` / `C11_round_simd` for the ACTUAL dispatching
  functions `dotProduct`, `euclideanDistance`, `manhattanDistance` and the four vectorised kernels on bit
  patterns; the only hypothesis besides equal lengths is that the flag of the instrumented run is `true`
  (evaluated by `decide +kernel` in the examples).

* `C11_div_std`, `C11_sqrt_std` : division and square root satisfy the standard-model equation as well
  (their quotient / root digits and sticky bit describe the exact result, which is rounded once).

Not covered: an error bound for the cosine distance (`dot / (‖p‖·‖q‖)` with `div`, `sqrt`, `clamp`):
the per-operation facts are here, the composition is not done; underflow (subnormal results have an
absolute, not a relative, error bound). -/
namespace Arroy.C11
open Arroy Kernel SF SFR KernelRound

/-- **Round to nearest, real-number form.** For `m > 0` and the exact value `v = ±(m + t)·2^e` in the
normal range, where `t = 0` when the sticky bit is clear and `0 ≤ t < 1` is arbitrary when it is set
(`roundPack` honours the sticky bit only if `m` has more than 24 bits — as in `div` and `sqrt`; hence
the hypothesis `sticky → 2^24 ≤ m`), the result is finite and equals `v·(1+δ)`, `|δ| ≤ 2^-24`. -/
theorem C11_roundPack_real (neg : Bool) (m : Nat) (e : Int) (sticky : Bool) (t : ℝ) (hm : 0 < m)
    (ht0 : 0 ≤ t) (ht1 : t < 1) (hst : sticky = false → t = 0) (hst' : sticky = true → 2 ^ 24 ≤ m)
    (hN : NormalRange (sgn neg * (((m : ℝ) + t) * (2 : ℝ) ^ e))) :
    Finite (roundPack f32 neg m e sticky) ∧ ∃ δ : ℝ, |δ| ≤ u ∧
      toReal (roundPack f32 neg m e sticky) = sgn neg * (((m : ℝ) + t) * (2 : ℝ) ^ e) * (1 + δ) :=
  roundPack_real neg m e sticky t hm ht0 ht1 hst hst' hN

theorem C11_mul_std (a b : Nat) (ha : Finite a) (hb : Finite b)
    (hN : NormalOrZero (toReal a * toReal b)) :
    Finite (F32.mul a b) ∧ ∃ δ : ℝ, |δ| ≤ u ∧ toReal (F32.mul a b) = toReal a * toReal b * (1 + δ) :=
  mul_std a b ha hb hN

theorem C11_add_std (a b : Nat) (ha : Finite a) (hb : Finite b)
    (hN : NormalOrZero (toReal a + toReal b)) :
    Finite (F32.add a b) ∧ ∃ δ : ℝ, |δ| ≤ u ∧ toReal (F32.add a b) = (toReal a + toReal b) * (1 + δ) :=
  add_std a b ha hb hN

theorem C11_sub_std (a b : Nat) (ha : Finite a) (hb : Finite b)
    (hN : NormalOrZero (toReal a - toReal b)) :
    Finite (F32.sub a b) ∧ ∃ δ : ℝ, |δ| ≤ u ∧ toReal (F32.sub a b) = (toReal a - toReal b) * (1 + δ) :=
  sub_std a b ha hb hN

theorem C11_fma_std (a b c : Nat) (ha : Finite a) (hb : Finite b) (hc : Finite c)
    (hN : NormalOrZero (toReal a * toReal b + toReal c)) :
    Finite (F32.fma a b c) ∧ ∃ δ : ℝ, |δ| ≤ u ∧
      toReal (F32.fma a b c) = (toReal a * toReal b + toReal c) * (1 + δ) :=
  fma_std a b c ha hb hc hN

/-- division: non-zero finite divisor, exact quotient zero or in the normal range -/
theorem C11_div_std (a b : Nat) (ha : Finite a) (hb : Finite b) (hb0 : toReal b ≠ 0)
    (hN : NormalOrZero (toReal a / toReal b)) :
    Finite (F32.div a b) ∧ ∃ δ : ℝ, |δ| ≤ u ∧ toReal (F32.div a b) = toReal a / toReal b * (1 + δ) :=
  div_std a b ha hb hb0 hN

/-- square root of a finite non-negative value (`-0.0` included: the result is then `-0.0`, value `0`) -/
theorem C11_sqrt_std (a : Nat) (ha : Finite a) (h0 : 0 ≤ toReal a) (hN : NormalOrZero (Real.sqrt (toReal a))) :
    Finite (F32.sqrt a) ∧ ∃ δ : ℝ, |δ| ≤ u ∧ toReal (F32.sqrt a) = Real.sqrt (toReal a) * (1 + δ) :=
  sqrt_std a ha _ (Real.sqrt_nonneg _) (Real.mul_self_sqrt h0) hN

/-- `|x|` is exact -/
theorem C11_abs_exact (a : Nat) (ha : Finite a) : Finite (F32.abs a) ∧ toReal (F32.abs a) = |toReal a| :=
  abs_real a ha

/-- **The arithmetic of the kernels satisfies the (conditional) standard model**, `u = 2^-24`. -/
theorem C11_f32_std_model_on : StdModelOn f32Arith toReal Finite NormalOrZero u := f32_std_model_on

/-- the unconditional `StdModel` of `C11_round` is the instance without side conditions -/
theorem C11_std_model_on_of_std_model (A : Arith ℝ) (u : ℝ) (h : StdModel A u) :
    StdModelOn A id (fun _ => True) (fun _ => True) u := h.toOn

/-- **Scalar dot product on bit patterns.** For finite vectors all of whose exact products
`toReal xᵢ · toReal yᵢ` and exact partial sums `toReal (fl(… + pᵢ₋₁)) + toReal pᵢ` (`pᵢ = fl(xᵢ·yᵢ)`,
summation from `-0.0` as `impl Sum for f32` does) are zero or in the normal range, the result is finite
and `|fl(Σ xᵢyᵢ) − Σ xᵢyᵢ| ≤ ((1+u)^(n+1) − 1) · Σ|xᵢyᵢ|`. -/
theorem C11_round_f32_dot (x y : List Nat) (n : Nat) (hx : x.length = n) (hy : y.length = n)
    (fx : ∀ a ∈ x, Finite a) (fy : ∀ b ∈ y, Finite b)
    (hprod : ∀ p ∈ List.zip x y, NormalOrZero (toReal p.1 * toReal p.2))
    (hsum : PartialSumsOK f32Arith toReal NormalOrZero F32.negZero (List.zipWith F32.mul x y)) :
    Finite (dotScalar f32Arith x y) ∧
    |toReal (dotScalar f32Arith x y) - (List.zipWith (fun a b => toReal a * toReal b) x y).sum|
      ≤ ((1 + u)^(n + 1) - 1)
        * ((List.zipWith (fun a b => toReal a * toReal b) x y).map (fun t => |t|)).sum :=
  dotScalar_round_on f32_std_model_on x y n hx hy fx fy hprod hsum

/-- **Scalar squared Euclidean distance on bit patterns**: relative error `(1+u)^(n+3) − 1`. -/
theorem C11_round_f32_euclid (x y : List Nat) (n : Nat) (hx : x.length = n) (hy : y.length = n)
    (fx : ∀ a ∈ x, Finite a) (fy : ∀ b ∈ y, Finite b)
    (hterm : ∀ p ∈ List.zip x y, NormalOrZero (toReal p.1 - toReal p.2) ∧
      NormalOrZero (toReal (F32.sub p.1 p.2) * toReal (F32.sub p.1 p.2)))
    (hsum : PartialSumsOK f32Arith toReal NormalOrZero F32.negZero
      (List.zipWith (fun a b => F32.mul (F32.sub a b) (F32.sub a b)) x y)) :
    Finite (euclidScalar f32Arith x y) ∧
    |toReal (euclidScalar f32Arith x y)
        - (List.zipWith (fun a b => (toReal a - toReal b) * (toReal a - toReal b)) x y).sum|
      ≤ ((1 + u)^(n + 3) - 1)
        * ((List.zipWith (fun a b => (toReal a - toReal b) * (toReal a - toReal b)) x y).map
            (fun t => |t|)).sum :=
  euclidScalar_round_on f32_std_model_on x y n hx hy fx fy hterm hsum

/-- **Manhattan distance on bit patterns** (`manhattanDistance`): relative error `(1+u)^(n+1) − 1`. -/
theorem C11_round_f32_manhattan (x y : List Nat) (n : Nat) (hx : x.length = n) (hy : y.length = n)
    (fx : ∀ a ∈ x, Finite a) (fy : ∀ b ∈ y, Finite b)
    (hterm : ∀ p ∈ List.zip x y, NormalOrZero (toReal p.1 - toReal p.2))
    (hsum : PartialSumsOK f32Arith toReal NormalOrZero F32.negZero
      (List.zipWith (fun a b => F32.abs (F32.sub a b)) x y)) :
    Finite (manhattanDistance x y) ∧
    |toReal (manhattanDistance x y) - (List.zipWith (fun a b => |toReal a - toReal b|) x y).sum|
      ≤ ((1 + u)^(n + 1) - 1)
        * ((List.zipWith (fun a b => |toReal a - toReal b|) x y).map (fun t => |t|)).sum :=
  manhattan_round_on f32_std_model_on F32.abs abs_real x y n hx hy fx fy hterm hsum

/-! ## decidable side conditions, all kernels, the dispatching functions -/

/-- **The checked standard model for `f32Arith`**: where the Boolean check of an operation passes, the
operation returns the exact result times `(1+δ)`, `|δ| ≤ 2^-24`. -/
theorem C11_f32_chk_model : ChkModel f32Arith toReal f32Checks u := f32_chk_model

/-- what the checks mean -/
theorem C11_f32_checks_sound :
    (∀ a b, f32Checks.add a b = true → Finite a ∧ Finite b ∧ NormalOrZero (toReal a + toReal b)) ∧
    (∀ a b, f32Checks.sub a b = true → Finite a ∧ Finite b ∧ NormalOrZero (toReal a - toReal b)) ∧
    (∀ a b, f32Checks.mul a b = true → Finite a ∧ Finite b ∧ NormalOrZero (toReal a * toReal b)) ∧
    (∀ a b c, f32Checks.fma a b c = true →
      Finite a ∧ Finite b ∧ Finite c ∧ NormalOrZero (toReal a * toReal b + toReal c)) :=
  ⟨chk_add_sound, chk_sub_sound, chk_mul_sound, chk_fma_sound⟩

/-- the plain run is the first component of the instrumented run (for every kernel; here the two
dispatching functions) -/
theorem C11_f32_chk_fst (h : Host) (x y : List Nat) :
    (dotProductG f32Chk h (chkIn x) (chkIn y)).1 = dotProduct h x y ∧
    (euclideanDistanceG f32Chk h (chkIn x) (chkIn y)).1 = euclideanDistance h x y := by
  have hh := chk_fst_hom f32Arith f32Checks
  have a1 := dotAvx_map Prod.fst hh (chkIn x) (chkIn y)
  have a2 := dotSse_map Prod.fst hh (chkIn x) (chkIn y)
  have a3 := dotScalar_map Prod.fst hh (chkIn x) (chkIn y)
  have b1 := euclidAvx_map Prod.fst hh (chkIn x) (chkIn y)
  have b2 := euclidSse_map Prod.fst hh (chkIn x) (chkIn y)
  have b3 := euclidScalar_map Prod.fst hh (chkIn x) (chkIn y)
  rw [chkIn_fst, chkIn_fst] at a1 a2 a3 b1 b2 b3
  constructor
  · rw [dotProduct_eq]; unfold dotProductG; rw [chkIn_length]
    split
    · exact a1.symm
    · split
      · exact a2.symm
      · exact a3.symm
  · rw [euclideanDistance_eq]; unfold euclideanDistanceG; rw [chkIn_length]
    split
    · exact b1.symm
    · split
      · exact b2.symm
      · exact b3.symm

/-- **`dotProduct` (with its run-time dispatch) on bit patterns.** If no operation of the instrumented
run fails its check, `|fl(Σ xᵢyᵢ) − Σ xᵢyᵢ| ≤ ((1+u)^K − 1) · Σ|xᵢyᵢ|` with `K = dotDepth h n`
(`n/32 + n%32 + 7` AVX, `n/16 + n%16 + 6` SSE, `n + 1` scalar), in any case `K ≤ n + 1`. -/
theorem C11_round_f32_dot_product (h : Host) (x y : List Nat) (hl : x.length = y.length)
    (hrun : (dotProductG f32Chk h (chkIn x) (chkIn y)).2 = true) :
    |toReal (dotProduct h x y) - (List.zipWith (fun a b => toReal a * toReal b) x y).sum|
      ≤ ((1 + u)^(dotDepth h x.length) - 1)
        * ((List.zipWith (fun a b => toReal a * toReal b) x y).map (fun z => |z|)).sum ∧
    dotDepth h x.length ≤ x.length + 1 :=
  ⟨dotProduct_round h x y hl hrun, dotDepth_le h x.length⟩

/-- **`euclideanDistance` (squared, with its run-time dispatch) on bit patterns**, `K = euclidDepth h n`
(`n/32 + n%32 + 9` AVX, `n/16 + n%16 + 8` SSE, `n + 3` scalar), `K ≤ n + 3`. -/
theorem C11_round_f32_euclidean_distance (h : Host) (x y : List Nat) (hl : x.length = y.length)
    (hrun : (euclideanDistanceG f32Chk h (chkIn x) (chkIn y)).2 = true) :
    |toReal (euclideanDistance h x y)
        - (List.zipWith (fun a b => (toReal a - toReal b) * (toReal a - toReal b)) x y).sum|
      ≤ ((1 + u)^(euclidDepth h x.length) - 1)
        * ((List.zipWith (fun a b => (toReal a - toReal b) * (toReal a - toReal b)) x y).map
            (fun z => |z|)).sum ∧
    euclidDepth h x.length ≤ x.length + 3 :=
  ⟨euclideanDistance_round h x y hl hrun, euclidDepth_le h x.length⟩

/-- **`manhattanDistance` on bit patterns** -/
theorem C11_round_f32_manhattan_distance (x y : List Nat) (hl : x.length = y.length)
    (hrun : (manhattanWith f32Chk (fun c => (F32.abs c.1, c.2)) (chkIn x) (chkIn y)).2 = true) :
    |toReal (manhattanDistance x y) - (List.zipWith (fun a b => |toReal a - toReal b|) x y).sum|
      ≤ ((1 + u)^(x.length + 1) - 1)
        * ((List.zipWith (fun a b => |toReal a - toReal b|) x y).map (fun z => |z|)).sum :=
  manhattanDistance_round x y hl hrun

/-- **The four vectorised kernels on bit patterns**, each under the flag of its own instrumented run
(`C11_round_simd` for `f32Arith`). -/
theorem C11_round_f32_simd (x y : List Nat) (hl : x.length = y.length) :
    ((dotSse f32Chk (chkIn x) (chkIn y)).2 = true →
      |toReal (dotSse f32Arith x y) - (List.zipWith (fun a b => toReal a * toReal b) x y).sum|
        ≤ ((1 + u)^(x.length / 16 + x.length % 16 + 6) - 1)
          * ((List.zipWith (fun a b => toReal a * toReal b) x y).map (fun z => |z|)).sum) ∧
    ((dotAvx f32Chk (chkIn x) (chkIn y)).2 = true →
      |toReal (dotAvx f32Arith x y) - (List.zipWith (fun a b => toReal a * toReal b) x y).sum|
        ≤ ((1 + u)^(x.length / 32 + x.length % 32 + 7) - 1)
          * ((List.zipWith (fun a b => toReal a * toReal b) x y).map (fun z => |z|)).sum) ∧
    ((euclidSse f32Chk (chkIn x) (chkIn y)).2 = true →
      |toReal (euclidSse f32Arith x y)
          - (List.zipWith (fun a b => (toReal a - toReal b) * (toReal a - toReal b)) x y).sum|
        ≤ ((1 + u)^(x.length / 16 + x.length % 16 + 8) - 1)
          * ((List.zipWith (fun a b => (toReal a - toReal b) * (toReal a - toReal b)) x y).map
              (fun z => |z|)).sum) ∧
    ((euclidAvx f32Chk (chkIn x) (chkIn y)).2 = true →
      |toReal (euclidAvx f32Arith x y)
          - (List.zipWith (fun a b => (toReal a - toReal b) * (toReal a - toReal b)) x y).sum|
        ≤ ((1 + u)^(x.length / 32 + x.length % 32 + 9) - 1)
          * ((List.zipWith (fun a b => (toReal a - toReal b) * (toReal a - toReal b)) x y).map
              (fun z => |z|)).sum) :=
  ⟨dotSse_round_chk f32_chk_model x y hl, dotAvx_round_chk f32_chk_model x y hl,
   euclidSse_round_chk f32_chk_model x y hl, euclidAvx_round_chk f32_chk_model x y hl⟩

/-! ## non-vacuity -/

section examples

local macro "unpack_lit" : tactic =>
  `(tactic| simp [unpack, f32, Fmt.width, Fmt.emaxField, Fmt.bias, Fmt.qmin])

-- `1 + 2^-23` (the successor of `1.0`), `1 + 2^-22`, `2`, `3`, `6`, `7`, `-1`, `-7`
private theorem ex_unpack_a : unpack f32 0x3f800001 = .fin false 8388609 (-23) := by unpack_lit
private theorem ex_unpack_a2 : unpack f32 0x3f800002 = .fin false 8388610 (-23) := by unpack_lit
private theorem ex_unpack_2 : unpack f32 0x40000000 = .fin false 8388608 (-22) := by unpack_lit
private theorem ex_unpack_3 : unpack f32 0x40400000 = .fin false 12582912 (-22) := by unpack_lit
private theorem ex_unpack_6 : unpack f32 0x40c00000 = .fin false 12582912 (-21) := by unpack_lit
private theorem ex_unpack_7 : unpack f32 0x40e00000 = .fin false 14680064 (-21) := by unpack_lit
private theorem ex_unpack_m1 : unpack f32 0xbf800000 = .fin true 8388608 (-23) := by unpack_lit
private theorem ex_unpack_m7 : unpack f32 0xc0e00000 = .fin true 14680064 (-21) := by unpack_lit

-- the product rounds: `(1 + 2^-23)² = 1 + 2^-22 + 2^-46` becomes `1 + 2^-22`
private theorem ex_mul_aa : F32.mul 0x3f800001 0x3f800001 = 0x3f800002 := by decide +kernel

private theorem ex_normal_aa : NormalOrZero (toReal 0x3f800001 * toReal 0x3f800001) := by
  right
  rw [toReal_of_unpack ex_unpack_a]
  unfold NormalRange sgn
  norm_num

/-- `C11_mul_std` applies to `0x3f800001 * 0x3f800001`, a product that is not representable -/
example : Finite (F32.mul 0x3f800001 0x3f800001) ∧ ∃ δ : ℝ, |δ| ≤ u ∧
    toReal (F32.mul 0x3f800001 0x3f800001) = toReal 0x3f800001 * toReal 0x3f800001 * (1 + δ) :=
  C11_mul_std _ _ (by decide) (by decide) ex_normal_aa

/-- `C11_add_std`: `(1 + 2^-22) + 6` is a tie and rounds to `7.0` -/
example : F32.add 0x3f800002 0x40c00000 = 0x40e00000 ∧ ∃ δ : ℝ, |δ| ≤ u ∧
    toReal (F32.add 0x3f800002 0x40c00000) = (toReal 0x3f800002 + toReal 0x40c00000) * (1 + δ) :=
  ⟨by decide +kernel, (C11_add_std _ _ (by decide) (by decide) (by
    right
    rw [toReal_of_unpack ex_unpack_a2, toReal_of_unpack ex_unpack_6]
    unfold NormalRange sgn
    norm_num)).2⟩

/-- `C11_sub_std`, exact-zero branch: `7 - 7 = +0` -/
example : ∃ δ : ℝ, |δ| ≤ u ∧
    toReal (F32.sub 0x40e00000 0x40e00000) = (toReal 0x40e00000 - toReal 0x40e00000) * (1 + δ) :=
  (C11_sub_std _ _ (by decide) (by decide) (Or.inl (sub_self _))).2

/-- `C11_fma_std`: `fma(a, a, -1) = 2^-22 + 2^-46` (exactly representable: the fused operation does not
round the product) -/
example : ∃ δ : ℝ, |δ| ≤ u ∧ toReal (F32.fma 0x3f800001 0x3f800001 0xbf800000)
    = (toReal 0x3f800001 * toReal 0x3f800001 + toReal 0xbf800000) * (1 + δ) :=
  (C11_fma_std _ _ _ (by decide) (by decide) (by decide) (by
    right
    rw [toReal_of_unpack ex_unpack_a, toReal_of_unpack ex_unpack_m1]
    unfold NormalRange sgn
    norm_num)).2

/-- `C11_round_f32_dot` applies to `⟨1+2^-23, 2, -1⟩ · ⟨1+2^-23, 3, 7⟩`: the first product rounds, the
second partial sum `(1 + 2^-22) + 6` rounds (to `7`), the last partial sum `7 + (-7)` is an exact zero;
the computed result is `+0.0`, the exact one `2^-22 + 2^-46`. -/
example :
    dotScalar f32Arith [0x3f800001, 0x40000000, 0xbf800000] [0x3f800001, 0x40400000, 0x40e00000] = 0 ∧
    |toReal (dotScalar f32Arith [0x3f800001, 0x40000000, 0xbf800000] [0x3f800001, 0x40400000, 0x40e00000])
      - (List.zipWith (fun a b => toReal a * toReal b)
          [0x3f800001, 0x40000000, 0xbf800000] [0x3f800001, 0x40400000, 0x40e00000]).sum|
      ≤ ((1 + u)^(3 + 1) - 1)
        * ((List.zipWith (fun a b => toReal a * toReal b)
            [0x3f800001, 0x40000000, 0xbf800000] [0x3f800001, 0x40400000, 0x40e00000]).map
              (fun t => |t|)).sum := by
  refine ⟨by decide +kernel, (C11_round_f32_dot _ _ 3 rfl rfl (by decide) (by decide) ?_ ?_).2⟩
  · intro p hp
    simp only [List.zip_cons_cons, List.zip_nil_right, List.mem_cons, List.not_mem_nil, or_false] at hp
    rcases hp with rfl | rfl | rfl
    · exact ex_normal_aa
    · right
      rw [toReal_of_unpack ex_unpack_2, toReal_of_unpack ex_unpack_3]
      unfold NormalRange sgn
      norm_num
    · right
      rw [toReal_of_unpack ex_unpack_m1, toReal_of_unpack ex_unpack_7]
      unfold NormalRange sgn
      norm_num
  · have h1 : F32.mul 1065353217 1065353217 = 0x3f800002 := by decide +kernel
    have h2 : F32.mul 1073741824 1077936128 = 0x40c00000 := by decide +kernel
    have h3 : F32.mul 3212836864 1088421888 = 0xc0e00000 := by decide +kernel
    have h4 : F32.add F32.negZero 0x3f800002 = 0x3f800002 := by decide +kernel
    have h5 : F32.add 0x3f800002 0x40c00000 = 0x40e00000 := by decide +kernel
    simp only [List.zipWith, PartialSumsOK, f32Arith, h1, h2, h3, h4, h5]
    refine ⟨?_, ?_, ?_, trivial⟩
    · right
      rw [toReal_negZero, toReal_of_unpack ex_unpack_a2]
      unfold NormalRange sgn
      norm_num
    · right
      rw [toReal_of_unpack ex_unpack_a2, toReal_of_unpack ex_unpack_6]
      unfold NormalRange sgn
      norm_num
    · left
      rw [toReal_of_unpack ex_unpack_7, toReal_of_unpack ex_unpack_m7]
      unfold sgn
      norm_num

/-- The normal-range hypothesis cannot be dropped: `2^-126·(1 + 2^-23) · 0.5` is a tie in the subnormal
range and rounds to `2^-127`, a relative error of about `2^-23 > u`. -/
example : ¬ ∃ δ : ℝ, |δ| ≤ u ∧
    toReal (F32.mul 0x00800001 0x3f000000) = toReal 0x00800001 * toReal 0x3f000000 * (1 + δ) := by
  have h1 : F32.mul 0x00800001 0x3f000000 = 0x00400000 := by decide +kernel
  have u1 : unpack f32 0x00800001 = .fin false 8388609 (-149) := by unpack_lit
  have u2 : unpack f32 0x3f000000 = .fin false 8388608 (-24) := by unpack_lit
  have u3 : unpack f32 0x00400000 = .fin false 4194304 (-149) := by unpack_lit
  rintro ⟨δ, hδ, h⟩
  rw [h1, toReal_of_unpack u1, toReal_of_unpack u2, toReal_of_unpack u3] at h
  have hE : (0 : ℝ) < (2 : ℝ) ^ (-149 : ℤ) := by positivity
  unfold sgn u at *
  rw [abs_le] at hδ
  have h24 : (2 : ℝ) ^ (-24 : ℤ) = 1 / 16777216 := by norm_num
  rw [h24] at h hδ
  have : (4194304 : ℝ) = 8388609 * (8388608 * (1 / 16777216)) * (1 + δ) := by
    have h' : (4194304 : ℝ) * (2 : ℝ) ^ (-149 : ℤ)
        = (8388609 * (8388608 * (1 / 16777216)) * (1 + δ)) * (2 : ℝ) ^ (-149 : ℤ) := by
      simp only [Bool.false_eq_true, if_false, one_mul] at h
      push_cast at h
      linarith
    exact mul_right_cancel₀ (ne_of_gt hE) h'
  linarith [hδ.1, hδ.2]

/-- `C11_roundPack_real` with a set sticky bit: `2^24 + 1 + ½` rounds up to `2^24 + 2` (without the
sticky bit `2^24 + 1` is a tie and rounds down to `2^24`) -/
example : roundPack f32 false 16777217 0 true = 0x4b800001 ∧ roundPack f32 false 16777217 0 false = 0x4b800000 ∧
    ∃ δ : ℝ, |δ| ≤ u ∧ toReal (roundPack f32 false 16777217 0 true)
      = sgn false * ((((16777217 : ℕ) : ℝ) + 1 / 2) * (2 : ℝ) ^ (0 : ℤ)) * (1 + δ) :=
  ⟨by decide +kernel, by decide +kernel,
   (C11_roundPack_real false 16777217 0 true (1 / 2) (by decide) (by norm_num) (by norm_num)
    (fun h => by cases h) (fun _ => by decide) (by unfold NormalRange sgn; norm_num)).2⟩

private theorem ex_unpack_1 : unpack f32 0x3f800000 = .fin false 8388608 (-23) := by unpack_lit

/-- `C11_div_std`: `1 / 3 = 0x3eaaaaab` (rounded up) -/
example : F32.div 0x3f800000 0x40400000 = 0x3eaaaaab ∧ ∃ δ : ℝ, |δ| ≤ u ∧
    toReal (F32.div 0x3f800000 0x40400000) = toReal 0x3f800000 / toReal 0x40400000 * (1 + δ) := by
  have h3 : toReal 0x40400000 = 3 := by
    rw [toReal_of_unpack ex_unpack_3]; unfold sgn; norm_num
  have h1 : toReal 0x3f800000 = 1 := by
    rw [toReal_of_unpack ex_unpack_1]; unfold sgn; norm_num
  refine ⟨by decide +kernel, (C11_div_std _ _ (by decide) (by decide) (by rw [h3]; norm_num) ?_).2⟩
  right
  rw [h1, h3]
  unfold NormalRange
  norm_num

/-- `C11_sqrt_std`: `√2 = 0x3fb504f3` -/
example : F32.sqrt 0x40000000 = 0x3fb504f3 ∧ ∃ δ : ℝ, |δ| ≤ u ∧
    toReal (F32.sqrt 0x40000000) = Real.sqrt (toReal 0x40000000) * (1 + δ) := by
  have h2 : toReal 0x40000000 = 2 := by
    rw [toReal_of_unpack ex_unpack_2]; unfold sgn; norm_num
  refine ⟨by decide +kernel, (C11_sqrt_std _ (by decide) (by rw [h2]; norm_num) ?_).2⟩
  right
  rw [h2]
  have hs0 := Real.sqrt_nonneg 2
  have hs1 : (1 : ℝ) ≤ Real.sqrt 2 := by
    rw [Real.le_sqrt (by norm_num) (by norm_num)]; norm_num
  have hs2 : Real.sqrt 2 ≤ 2 := by
    rw [Real.sqrt_le_left (by norm_num)]; norm_num
  unfold NormalRange
  rw [abs_of_nonneg hs0]
  constructor
  · have : (2 : ℝ) ^ (-126 : ℤ) ≤ 1 := by norm_num
    linarith
  · have : (2 : ℝ) < (2 : ℝ) ^ (128 : ℤ) * (1 - (2 : ℝ) ^ (-25 : ℤ)) := by norm_num
    linarith

/-- the hypothesis `sticky → 2^24 ≤ m` of `C11_roundPack_real` cannot be dropped: with at most 24
significant bits `roundPack` does not look at the sticky bit, so `(1 + ε)·2^0` is returned as `1.0`
(relative error up to `1/2`); `div` and `sqrt` always pass more than 24 bits -/
example : roundPack f32 false 1 0 true = 0x3f800000 ∧ roundPack f32 false 1 0 false = 0x3f800000 := by
  decide +kernel

/-- `C11_abs_exact` on `-1.0` -/
example : toReal (F32.abs 0xbf800000) = |toReal 0xbf800000| := (C11_abs_exact _ (by decide)).2

-- `0.3f`, `(1+2^-23) - 3 = -(2 - 2^-23)` (exact), `2 - 0.3f` (rounds), their squares (both round)
private theorem ex_unpack_p3 : unpack f32 0x3e99999a = .fin false 10066330 (-25) := by unpack_lit
private theorem ex_unpack_d1 : unpack f32 3221225471 = .fin true 16777215 (-23) := by unpack_lit
private theorem ex_unpack_d2 : unpack f32 1071225242 = .fin false 14260634 (-23) := by unpack_lit
private theorem ex_unpack_q1 : unpack f32 1082130430 = .fin false 16777214 (-22) := by unpack_lit
private theorem ex_unpack_q2 : unpack f32 1077474755 = .fin false 12121539 (-22) := by unpack_lit
private theorem ex_unpack_ad1 : unpack f32 1073741823 = .fin false 16777215 (-23) := by unpack_lit

private theorem ex_sub1 : F32.sub 0x3f800001 0x40400000 = 3221225471 := by decide +kernel
private theorem ex_sub2 : F32.sub 0x40000000 0x3e99999a = 1071225242 := by decide +kernel

private theorem ex_diff1 : NormalOrZero (toReal 0x3f800001 - toReal 0x40400000) := by
  right
  rw [toReal_of_unpack ex_unpack_a, toReal_of_unpack ex_unpack_3]
  unfold NormalRange sgn
  norm_num
private theorem ex_diff2 : NormalOrZero (toReal 0x40000000 - toReal 0x3e99999a) := by
  right
  rw [toReal_of_unpack ex_unpack_2, toReal_of_unpack ex_unpack_p3]
  unfold NormalRange sgn
  norm_num

/-- `C11_round_f32_euclid` applies to `⟨1+2^-23, 2⟩`, `⟨3, 0.3f⟩` (three of the five operations round) -/
example :
    |toReal (euclidScalar f32Arith [0x3f800001, 0x40000000] [0x40400000, 0x3e99999a])
      - (List.zipWith (fun a b => (toReal a - toReal b) * (toReal a - toReal b))
          [0x3f800001, 0x40000000] [0x40400000, 0x3e99999a]).sum|
      ≤ ((1 + u)^(2 + 3) - 1)
        * ((List.zipWith (fun a b => (toReal a - toReal b) * (toReal a - toReal b))
            [0x3f800001, 0x40000000] [0x40400000, 0x3e99999a]).map (fun t => |t|)).sum := by
  refine (C11_round_f32_euclid _ _ 2 rfl rfl (by decide) (by decide) ?_ ?_).2
  · intro p hp
    simp only [List.zip_cons_cons, List.zip_nil_right, List.mem_cons, List.not_mem_nil, or_false] at hp
    rcases hp with rfl | rfl
    · refine ⟨ex_diff1, ?_⟩
      right
      simp only [ex_sub1]
      rw [toReal_of_unpack ex_unpack_d1]
      unfold NormalRange sgn
      norm_num
    · refine ⟨ex_diff2, ?_⟩
      right
      simp only [ex_sub2]
      rw [toReal_of_unpack ex_unpack_d2]
      unfold NormalRange sgn
      norm_num
  · have h1 : F32.mul 3221225471 3221225471 = 1082130430 := by decide +kernel
    have h2 : F32.mul 1071225242 1071225242 = 1077474755 := by decide +kernel
    have h3 : F32.add F32.negZero 1082130430 = 1082130430 := by decide +kernel
    have e1 : F32.sub 1065353217 1077936128 = 3221225471 := ex_sub1
    have e2 : F32.sub 1073741824 1050253722 = 1071225242 := ex_sub2
    simp only [List.zipWith, PartialSumsOK, f32Arith, e1, e2, h1, h2, h3]
    refine ⟨?_, ?_, trivial⟩
    · right
      rw [toReal_negZero, toReal_of_unpack ex_unpack_q1]
      unfold NormalRange sgn
      norm_num
    · right
      rw [toReal_of_unpack ex_unpack_q1, toReal_of_unpack ex_unpack_q2]
      unfold NormalRange sgn
      norm_num

/-- `C11_round_f32_manhattan` applies to the same vectors -/
example :
    |toReal (manhattanDistance [0x3f800001, 0x40000000] [0x40400000, 0x3e99999a])
      - (List.zipWith (fun a b => |toReal a - toReal b|)
          [0x3f800001, 0x40000000] [0x40400000, 0x3e99999a]).sum|
      ≤ ((1 + u)^(2 + 1) - 1)
        * ((List.zipWith (fun a b => |toReal a - toReal b|)
            [0x3f800001, 0x40000000] [0x40400000, 0x3e99999a]).map (fun t => |t|)).sum := by
  refine (C11_round_f32_manhattan _ _ 2 rfl rfl (by decide) (by decide) ?_ ?_).2
  · intro p hp
    simp only [List.zip_cons_cons, List.zip_nil_right, List.mem_cons, List.not_mem_nil, or_false] at hp
    rcases hp with rfl | rfl
    · exact ex_diff1
    · exact ex_diff2
  · have h1 : F32.abs 3221225471 = 1073741823 := by decide +kernel
    have h2 : F32.abs 1071225242 = 1071225242 := by decide +kernel
    have h3 : F32.add F32.negZero 1073741823 = 1073741823 := by decide +kernel
    have e1 : F32.sub 1065353217 1077936128 = 3221225471 := ex_sub1
    have e2 : F32.sub 1073741824 1050253722 = 1071225242 := ex_sub2
    simp only [List.zipWith, PartialSumsOK, f32Arith, e1, e2, h1, h2, h3]
    refine ⟨?_, ?_, trivial⟩
    · right
      rw [toReal_negZero, toReal_of_unpack ex_unpack_ad1]
      unfold NormalRange sgn
      norm_num
    · right
      rw [toReal_of_unpack ex_unpack_ad1, toReal_of_unpack ex_unpack_d2]
      unfold NormalRange sgn
      norm_num

/-- 37 components (remainders 5 modulo 16 and 32) between `1.0` and `1.33`, resp. `2.0` and `71.7`;
none of the products is representable -/
def exX : List Nat := (List.range 37).map (fun i => 0x3f800001 + 74565 * i)
def exY : List Nat := (List.range 37).map (fun i => 0x40000003 + 1193046 * i)

/-- the AVX dot product (`Host` default), the SSE one, and the scalar one of a 15-component prefix:
no check fails, so `C11_round_f32_dot_product` applies -/
example : (dotProductG f32Chk {} (chkIn exX) (chkIn exY)).2 = true := by decide +kernel
example : (dotProductG f32Chk { avx := false } (chkIn exX) (chkIn exY)).2 = true := by decide +kernel
example : (dotProductG f32Chk {} (chkIn (exX.take 15)) (chkIn (exY.take 15))).2 = true := by
  decide +kernel
example : dotDepth {} 37 = 13 ∧ dotDepth { avx := false } 37 = 13 ∧ dotDepth {} 15 = 16 := by decide

example :
    |toReal (dotProduct {} exX exY) - (List.zipWith (fun a b => toReal a * toReal b) exX exY).sum|
      ≤ ((1 + u)^13 - 1)
        * ((List.zipWith (fun a b => toReal a * toReal b) exX exY).map (fun z => |z|)).sum :=
  (C11_round_f32_dot_product {} exX exY (by decide) (by decide +kernel)).1

/-- the code paths give different bit patterns for the Euclidean distance of these vectors (AVX with
FMA vs. SSE), all within the bound of the exact value -/
example : euclideanDistance {} exX exY = 1188290312 ∧
    euclideanDistance { avx := false } exX exY = 1188290310 := by decide +kernel

/-- Euclidean and Manhattan distance of the same vectors -/
example : (euclideanDistanceG f32Chk {} (chkIn exX) (chkIn exY)).2 = true := by decide +kernel
example : (euclideanDistanceG f32Chk { avx := false } (chkIn exX) (chkIn exY)).2 = true := by
  decide +kernel
example : (manhattanWith f32Chk (fun c => (F32.abs c.1, c.2)) (chkIn exX) (chkIn exY)).2 = true := by
  decide +kernel
example : (dotSse f32Chk (chkIn exX) (chkIn exY)).2 = true ∧ (dotAvx f32Chk (chkIn exX) (chkIn exY)).2 = true ∧
    (euclidSse f32Chk (chkIn exX) (chkIn exY)).2 = true ∧ (euclidAvx f32Chk (chkIn exX) (chkIn exY)).2 = true := by
  decide +kernel

/-- the flag is lowered by an underflow (the product of the counterexample above), an overflow
(`2^127 · 2`), and by a non-finite input -/
example : (dotProductG f32Chk {} (chkIn [0x00800001]) (chkIn [0x3f000000])).2 = false := by decide +kernel
example : (dotProductG f32Chk {} (chkIn [0x7f000000]) (chkIn [0x40000000])).2 = false := by decide +kernel
example : (dotProductG f32Chk {} (chkIn [0x7f800000]) (chkIn [0x3f800000])).2 = false := by decide +kernel

end examples

end Arroy.C11
