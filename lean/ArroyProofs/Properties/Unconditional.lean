import ArroyProofs.FreshSupplyProof
import ArroyProofs.Properties.C01
import ArroyProofs.Properties.C01Checker
import ArroyProofs.Properties.C15Build
import ArroyProofs.Properties.C04Build
import ArroyProofs.Properties.C10Reach
/-! The history-level theorems with the id-generator hypothesis `FreshSupply` discharged by C13
(`freshSupply`): these are the unconditional statements over ALL histories
`((add | append | overwrite | delete | clear | prepare_changing_distance)* build)+` on any indexes, all oracle streams
(normals, random sides, batch lengths), all options, all cancellation schedules. -/
namespace Arroy

namespace C01
/-- **C01**: after any history, a successful build leaves metadata listing exactly the stored
    items and a valid forest over them (every root reifies; node ids not shared; no floating node;
    each tree reaches every item exactly once), at least one tree if there is an item, no mark. -/
theorem C01_forest (ops : List Op) (hops : ∀ op ∈ ops, op.wf)
    (c : Cfg) (o : BuildOpts) (fuel : Nat) (env st' : BState) (hwf : (Op.build c o fuel env).wf)
    (h : Build.build c o fuel { env with store := run ops } = .ok ((), st')) :
    run (ops ++ [.build c o fuel env]) = st'.store ∧
    ∃ roots ts,
      Store.get st'.store c.metaKey =
        some (.metadata c.metric.nameBytes c.dims ((run ops).keysOf c.index Generated.modeItem) roots) ∧
      Forest c st'.store roots ((run ops).keysOf c.index Generated.modeItem) ts ∧
      ((run ops).keysOf c.index Generated.modeItem ≠ [] → roots ≠ []) ∧
      (∀ id, Store.get st'.store (c.updatedKey id) = none) :=
  C01_history freshSupply ops hops c o fuel env st' hwf h

/-- the index invariant holds in every reachable state, for every index -/
theorem C01_invariant (ops : List Op) (hops : ∀ op ∈ ops, op.wf) (c : Cfg) (hi : c.index < 65536) :
    IndexInv c (run ops) := C01_history_inv freshSupply ops hops c hi

/-- the executable checker run on implementation dumps accepts every state the model can reach
    right after a successful build -/
theorem C01_checker_accepts (ops : List Op) (hops : ∀ op ∈ ops, op.wf)
    (c : Cfg) (o : BuildOpts) (fuel : Nat) (env st' : BState) (hwf : (Op.build c o fuel env).wf)
    (h : Build.build c o fuel { env with store := run ops } = .ok ((), st')) :
    Check.forestValid c (run (ops ++ [.build c o fuel env])) = [] :=
  C01_checker_history freshSupply ops hops c o fuel env st' hwf h
end C01

namespace C15
/-- **C15, capacity**: with a constant capacity `K` no bucket ever holds more than `K` items -/
theorem C15_capacity_all_histories (c : Cfg) (hi : c.index < 65536) (K : Nat)
    (ops : List C01.Op) (hops : ∀ op ∈ ops, op.wf) (hK : ∀ op ∈ ops, capIs c K op) :
    ∀ t ∈ Check.trees c (C01.run ops), ∀ bk ∈ t.buckets, bk.2.length ≤ K :=
  C15_capacity_history freshSupply c hi K ops hops hK
end C15

namespace C04
/-- **C04, routing**: right after a successful build every item with a decisive margin lies on the
    side of every non-degenerate plane above it to which its own vector is sent first -/
theorem C04_routed_all_histories (c : Cfg) (ops : List C01.Op) (hops : ∀ op ∈ ops, op.wf)
    (hQ : ∀ op ∈ ops, sameCfg c op) (o : BuildOpts) (fuel : Nat) (env st' : BState)
    (hwf : (C01.Op.build c o fuel env).wf)
    (h : Build.build c o fuel { env with store := C01.run ops } = .ok ((), st')) :
    Routed c o st'.store ∧ Check.routed c st'.store = [] :=
  C04_history freshSupply c ops hops hQ o fuel env st' hwf h
end C04

namespace C10
/-- **C10** on every reachable state: a build that succeeds under any cancellation schedule is the
    fault-free build -/
theorem C10_transparent_ok_all (ops : List C01.Op) (hops : ∀ op ∈ ops, op.wf)
    (c : Cfg) (hi : c.index < 65536) (o : BuildOpts) (fuel : Nat) (env st' : BState)
    (h : Build.build c o fuel { env with store := C01.run ops } = .ok ((), st')) :
    Build.build c o fuel (Transp.erase { env with store := C01.run ops }) = .ok ((), Transp.erase st') :=
  C10_transparent_ok_reachable freshSupply ops hops c hi o fuel env st' h

theorem C10_transparent_err_all (ops : List C01.Op) (hops : ∀ op ∈ ops, op.wf)
    (c : Cfg) (hi : c.index < 65536) (o : BuildOpts) (fuel : Nat) (env : BState) (e : Err)
    (h : Build.build c o fuel { env with store := C01.run ops } = .error e) :
    (∃ k, e = .cancelled k) ∨ Build.build c o fuel (Transp.erase { env with store := C01.run ops }) = .error e :=
  C10_transparent_err_reachable freshSupply ops hops c hi o fuel env e h
end C10

end Arroy
