import ArroyProofs.CodecLemmas
/-! # C16 — the value codecs round-trip

`Properties/C16.lean` fixes the key layout and ties the extracted layout constants to the reference.
This file proves that the *decoders* of the model read back exactly what the *encoders* write, for
**all** well-formed values: the portable roaring serialisation (array and bitmap containers, as
roaring-rs 0.10 writes it, no run containers), vectors, leaf / descendants / split nodes, metadata
records, and the dispatch on the key kind (`decodeVal`). -/
namespace Arroy.C16
open Arroy Generated IdSet

/-! ## well-formedness of stored values (all decidable) -/

/-- an id set as stored: strictly increasing `u32`s -/
def IdsOk (s : List Nat) : Prop := Sorted s ∧ ∀ x ∈ s, x < 2 ^ 32
instance (s : List Nat) : Decidable (IdsOk s) := by unfold IdsOk; infer_instance

/-- vector words fit the word size of the metric's vector codec (4 bytes `f32`, 8 bytes sign words) -/
def VecOk (m : Metric) (v : List Nat) : Prop := ∀ x ∈ v, x < 256 ^ m.wordBytes
instance (m : Metric) (v : List Nat) : Decidable (VecOk m v) := by unfold VecOk; infer_instance

instance (n : Nat) : Decidable (validMode n) := by unfold validMode; infer_instance

/-- a child pointer of a split node: one of the four kinds, `u32` id -/
def NodeIdOk (n : NodeId) : Prop := validMode n.mode ∧ n.item < 2 ^ 32
instance (n : NodeId) : Decidable (NodeIdOk n) := by unfold NodeIdOk; infer_instance

/-- well-formed fields of a stored value -/
def ValOk (m : Metric) : Val → Prop
  | .leaf hdr vec => hdr.length = m.header.length ∧ (∀ x ∈ hdr, x < 2 ^ 32) ∧ VecOk m vec
  | .desc ids => IdsOk ids
  | .split l r n => NodeIdOk l ∧ NodeIdOk r ∧ VecOk m n
  | .metadata name dims items roots =>
      (∀ b ∈ name, b ≠ 0) ∧ dims < 2 ^ 32 ∧ IdsOk items ∧ ∀ r ∈ roots, r < 2 ^ 32
  | .version a b c => a < 2 ^ 32 ∧ b < 2 ^ 32 ∧ c < 2 ^ 32
  | .unit => True
  | .raw _ => False

instance (m : Metric) (v : Val) : Decidable (ValOk m v) := by
  cases v <;> unfold ValOk <;> infer_instance

/-- the three node kinds (what `NodeCodec` handles) -/
def IsNode : Val → Prop
  | .leaf _ _ => True
  | .desc _ => True
  | .split _ _ _ => True
  | _ => False

instance (v : Val) : Decidable (IsNode v) := by
  cases v <;> unfold IsNode <;> infer_instance

/-- `v` is the kind of value stored under key `k` -/
def Holds (k : Key) : Val → Prop
  | .leaf _ _ => k.mode = modeItem ∨ k.mode = modeTree
  | .desc _ => k.mode = modeItem ∨ k.mode = modeTree
  | .split _ _ _ => k.mode = modeItem ∨ k.mode = modeTree
  | .unit => k.mode = modeUpdated
  | .metadata _ _ _ _ => k.mode = metadataKeyMode ∧ k.item = metadataKeyItem
  | .version _ _ _ => k.mode = versionKeyMode ∧ k.item = versionKeyItem
  | .raw _ => False

instance (k : Key) (v : Val) : Decidable (Holds k v) := by
  cases v <;> unfold Holds <;> infer_instance

/-! ## roaring bitmaps -/

/-- **structure of the container list**: `containers s` groups `s` by `x / 65536`; flattening gives `s`
back; keys are strictly increasing 16-bit values; every container is a non-empty strictly increasing
list of 16-bit lows. -/
theorem C16_roaring_containers (s : List Nat) (h : IdsOk s) :
    Roaring.unflat (Roaring.containers s) = s
    ∧ Sorted ((Roaring.containers s).map (·.1))
    ∧ ∀ c ∈ Roaring.containers s, c.1 < 65536 ∧ Sorted c.2 ∧ (∀ v ∈ c.2, v < 65536) ∧ c.2 ≠ [] := by
  obtain ⟨hw, hk⟩ := Roaring.containers_wf s h.1 h.2
  exact ⟨Roaring.unflat_containers s, hk, fun c hc => ⟨(hw c hc).key_lt, (hw c hc).sorted,
    (hw c hc).low_lt, (hw c hc).ne⟩⟩

/-- **bitmap containers**: the 1024 words written for a container are 64-bit values, and reading
their set bits (`wordBits`) gives the lows back. -/
theorem C16_bitmap_words (lows : List Nat) (hs : Sorted lows) (hb : ∀ v ∈ lows, v < 65536) :
    (Roaring.bitmapWords lows).length = 1024
    ∧ (∀ w ∈ Roaring.bitmapWords lows, w < 2 ^ 64)
    ∧ ((List.range 1024).zip (Roaring.bitmapWords lows)).flatMap
        (fun (w, word) => Roaring.wordBits w word) = lows :=
  ⟨Roaring.bitmapWords_length lows, Roaring.bitmapWords_lt lows hs,
    Roaring.wordBits_bitmapWords lows hs hb⟩

/-- **one container** of either kind (array: cardinality ≤ 4096, bitmap beyond) decodes back and the
decoder consumes exactly its bytes. -/
theorem C16_container_roundtrip (key : Nat) (lows : List Nat) (hk : key < 65536) (hs : Sorted lows)
    (hb : ∀ v ∈ lows, v < 65536) (hne : lows ≠ []) (more : Bytes) :
    Roaring.decodeContainer key lows.length (Roaring.containerData lows ++ more)
      = some (lows.map (fun v => key * 65536 + v), more) :=
  Roaring.decodeContainer_containerData (key, lows) ⟨hk, hs, hb, hne⟩ more

/-- **roaring round trip**, both container kinds: every strictly increasing list of `u32`s decodes
back from its serialisation, and the decoder stops exactly at the end of the bitmap. -/
theorem C16_roaring_roundtrip (s : List Nat) (h : IdsOk s) (rest : Bytes) :
    Roaring.decode (Roaring.encode s ++ rest) = some (s, rest) :=
  Roaring.decode_encode s h.1 h.2 rest

theorem C16_roaring_roundtrip_nil (s : List Nat) (h : IdsOk s) :
    Roaring.decode (Roaring.encode s) = some (s, []) := by
  have := C16_roaring_roundtrip s h []
  rwa [List.append_nil] at this

/-- the serialised length is `serializedSize` (what `MetadataCodec` writes in front of the bitmap);
holds for every list -/
theorem C16_roaring_size (s : List Nat) : (Roaring.encode s).length = Roaring.serializedSize s :=
  Roaring.encode_length s

/-- the size fits the `u32` the metadata codec stores it in -/
theorem C16_roaring_size_lt (s : List Nat) (h : IdsOk s) : Roaring.serializedSize s < 2 ^ 32 :=
  Roaring.serializedSize_lt s h.1 h.2

/-- **offset header**: the `i`-th `u32` of the offset header (at byte `8 + 4 n + 4 i`, `n` the number
of containers) is the byte position at which the data of container `i` starts: from there on the
serialisation consists of the data of containers `i, i+1, …`. -/
theorem C16_roaring_offsets (s : List Nat) (h : IdsOk s) (i : Nat) (hi : i < (Roaring.containers s).length) :
    (Roaring.encode s).drop
        (ofLe (((Roaring.encode s).drop (8 + 4 * (Roaring.containers s).length + 4 * i)).take 4))
      = ((Roaring.containers s).drop i).flatMap (fun c => Roaring.containerData c.2) := by
  have hi' : i < (Roaring.offsets (8 + 8 * (Roaring.containers s).length) (Roaring.containers s)).length := by
    rw [Roaring.offsets_length]; exact hi
  rw [Roaring.header_offset s i hi', ofLe_le 4]
  · exact Roaring.drop_offset s i hi'
  · have h1 := Roaring.offsets_getElem_le s i hi'
    have h2 := C16_roaring_size_lt s h
    have : (256 : Nat) ^ 4 = 2 ^ 32 := by decide
    omega

/-! ## vectors, nodes, metadata -/

/-- vectors: `f32` words (4 bytes) or binary-quantised sign words (8 bytes) -/
theorem C16_vec_roundtrip (m : Metric) (v : List Nat) (h : VecOk m v) :
    decodeVec m (encodeVec m v) = some v :=
  CodecL.decodeVec_encodeVec m v h

theorem validMode_lt {n : Nat} (h : validMode n) : n < 256 := by
  rcases h with h | h | h | h <;> rw [h] <;> decide

/-- leaf, descendants and split nodes -/
theorem C16_node_roundtrip (m : Metric) (v : Val) (hn : IsNode v) (h : ValOk m v) :
    decodeNode m (encodeVal m v) = some v := by
  cases v with
  | leaf hdr vec => exact CodecL.decodeNode_leaf m hdr vec h.1 h.2.1 h.2.2
  | desc ids => exact CodecL.decodeNode_desc m ids h.1 h.2
  | split l r n =>
    obtain ⟨⟨hl1, hl2⟩, ⟨hr1, hr2⟩, hv⟩ := h
    exact CodecL.decodeNode_split m l r n (validMode_lt hl1) hl2 hl1 (validMode_lt hr1) hr2 hr1 hv
  | metadata _ _ _ _ => exact absurd hn (by simp [IsNode])
  | version _ _ _ => exact absurd hn (by simp [IsNode])
  | unit => exact absurd hn (by simp [IsNode])
  | raw _ => exact absurd hn (by simp [IsNode])

/-- metadata records: name, NUL, dimensions, bitmap size, item bitmap, roots -/
theorem C16_meta_roundtrip (m : Metric) (name : Bytes) (dims : Nat) (items roots : List Nat)
    (h : ValOk m (.metadata name dims items roots)) :
    decodeMeta (encodeVal m (.metadata name dims items roots))
      = some (.metadata name dims items roots) :=
  CodecL.decodeMeta_encode m name dims items roots h.1 h.2.1 h.2.2.1.1 h.2.2.1.2 h.2.2.2

/-- version records under any metric (`C16_version_roundtrip` is stated for one) -/
theorem C16_version_roundtrip_any (m : Metric) (a b c : Nat) (h : ValOk m (.version a b c)) :
    decodeVersion (encodeVal m (.version a b c)) = some (.version a b c) := by
  rw [CodecL.encodeVal_version_eq]
  exact C16_version_roundtrip a b c h.1 h.2.1 h.2.2

/-- **every stored value**: decoding, under the key that holds it, what the encoder wrote gives the
value back (never the `.raw` fallback). -/
theorem C16_val_roundtrip (m : Metric) (k : Key) (v : Val) (hk : Holds k v) (h : ValOk m v) :
    decodeVal m k (encodeVal m v) = v := by
  have node : ∀ v, IsNode v → Holds k v → ValOk m v → (k.mode = modeItem ∨ k.mode = modeTree) →
      decodeVal m k (encodeVal m v) = v := by
    intro v hn _ hv hm
    unfold decodeVal
    simp only [hm, if_true]
    rw [C16_node_roundtrip m v hn hv]; rfl
  cases v with
  | leaf hdr vec => exact node _ trivial hk h hk
  | desc ids => exact node _ trivial hk h hk
  | split l r n => exact node _ trivial hk h hk
  | metadata name dims items roots =>
    obtain ⟨h1, h2⟩ := hk
    unfold decodeVal
    rw [h1, h2]
    have e1 : ¬ (metadataKeyMode = modeItem ∨ metadataKeyMode = modeTree) := by decide
    have e2 : ¬ (metadataKeyMode = modeUpdated) := by decide
    simp only [e1, e2, and_self, if_true, if_false]
    rw [C16_meta_roundtrip m name dims items roots h]; rfl
  | version a b c =>
    obtain ⟨h1, h2⟩ := hk
    unfold decodeVal
    rw [h1, h2]
    have e1 : ¬ (versionKeyMode = modeItem ∨ versionKeyMode = modeTree) := by decide
    have e2 : ¬ (versionKeyMode = modeUpdated) := by decide
    have e3 : ¬ (versionKeyMode = metadataKeyMode ∧ versionKeyItem = metadataKeyItem) := by decide
    simp only [e1, e2, e3, and_self, if_true, if_false]
    rw [C16_version_roundtrip_any m a b c h]; rfl
  | unit =>
    have h1 : k.mode = modeUpdated := hk
    unfold decodeVal
    rw [h1]
    have e1 : ¬ (modeUpdated = modeItem ∨ modeUpdated = modeTree) := by decide
    simp only [e1, if_true, if_false]
    rfl
  | raw bs => exact absurd h (by simp [ValOk])

/-! ## non-vacuity

`Roaring.decode`, `decodeVec`, … go through `chunks`, which is defined by well-founded recursion and
therefore does not reduce in the kernel: a direct `decide` of a concrete round trip is not possible at
any size. The examples below check by kernel evaluation that concrete values meet every hypothesis
(including a set whose single container holds 5000 ids, i.e. a *bitmap* container), evaluate the
*encoder* on them, and instantiate the theorems. -/

/-- 5000 consecutive ids inside one 2^16 block: one bitmap container -/
def bigSet : List Nat := List.range' 70000 5000

set_option maxRecDepth 200000 in
theorem bigSet_ok : IdsOk bigSet := by decide +kernel

set_option maxRecDepth 200000 in
/-- it is a single container of cardinality 5000 > `arrayLimit` -/
example : (Roaring.containers bigSet).map (fun c => (c.1, c.2.length)) = [(1, 5000)]
    ∧ Roaring.arrayLimit < 5000 := by decide +kernel

set_option maxRecDepth 1000000 in
/-- the encoder on it: cookie 12346, one container, key 1, cardinality-1 = 4999, offset 16, then 8192 bytes
of bitmap whose word 69 has bits 48..63 set (ids 70000.. start at low 4464 = 69*64 + 48) -/
example : (Roaring.encode bigSet).length = 8208
    ∧ (Roaring.encode bigSet).take 16 = [58, 48, 0, 0, 1, 0, 0, 0, 1, 0, 135, 19, 16, 0, 0, 0]
    ∧ ((Roaring.encode bigSet).drop (16 + 69 * 8)).take 16
        = [0, 0, 0, 0, 0, 0, 255, 255, 255, 255, 255, 255, 255, 255, 255, 255] := by decide +kernel

example : Roaring.decode (Roaring.encode bigSet ++ [1, 2, 3]) = some (bigSet, [1, 2, 3]) :=
  C16_roaring_roundtrip bigSet bigSet_ok [1, 2, 3]

/-- array containers, at the edges of the key and low ranges -/
def edgeSet : List Nat := [0, 1, 65535, 65536, 131071, 4294901760, 4294967295]

theorem edgeSet_ok : IdsOk edgeSet := by decide

example : Roaring.containers edgeSet
    = [(0, [0, 1, 65535]), (1, [0, 65535]), (65535, [0, 65535])] := by decide

example : Roaring.decode (Roaring.encode edgeSet) = some (edgeSet, []) :=
  C16_roaring_roundtrip_nil edgeSet edgeSet_ok

example : (Roaring.encode edgeSet).drop
    (ofLe (((Roaring.encode edgeSet).drop (8 + 4 * 3 + 4 * 2)).take 4)) = [0, 0, 255, 255] := by
  have := C16_roaring_offsets edgeSet edgeSet_ok 2 (by decide)
  rw [show (Roaring.containers edgeSet).length = 3 by decide] at this
  rw [this]; decide

/-- vectors: `f32` bit patterns (NaN, -0.0, max) and 64-bit sign words -/
example : VecOk .euclidean [0x7fc00000, 0x80000000, 0xffffffff, 0]
    ∧ VecOk .bqCosine [0xffffffffffffffff, 0, 0x8000000000000001] := by decide

/-- a leaf of the dot-product metric (two header words), a split with a tree and an item child,
a bucket with a bitmap container -/
def exLeaf : Val := .leaf [0x3f800000, 0x40490fdb] [0x3f800000, 0xbf800000, 0x7f7fffff]
def exSplit : Val := .split (NodeId.mkTree 4294967295) (NodeId.mkItem 0) [0x3f800000, 0x80000000]
def exDesc : Val := .desc bigSet
def exMeta : Val := .metadata Metric.bqEuclidean.nameBytes 768 bigSet [0, 17, 4294967295]

example : IsNode exLeaf ∧ ValOk .dot exLeaf ∧ Holds (Key.mkItem 65535 7) exLeaf := by decide
example : IsNode exSplit ∧ ValOk .cosine exSplit ∧ Holds (Key.mkTree 0 4294967295) exSplit := by decide
set_option maxRecDepth 200000 in
example : IsNode exDesc ∧ ValOk .bqManhattan exDesc ∧ Holds (Key.mkTree 3 9) exDesc := by decide +kernel
set_option maxRecDepth 200000 in
theorem exMeta_ok : ValOk .bqEuclidean exMeta ∧ Holds (Key.mkMetadata 12) exMeta := by decide +kernel
example : ValOk .euclidean (.version 0 6 1) ∧ Holds (Key.mkVersion 12) (.version 0 6 1) := by decide
example : ValOk .euclidean .unit ∧ Holds (Key.mkUpdated 1 42) .unit := by decide

example : decodeVal .bqEuclidean (Key.mkMetadata 12) (encodeVal .bqEuclidean exMeta) = exMeta :=
  C16_val_roundtrip _ _ _ exMeta_ok.2 exMeta_ok.1

end Arroy.C16
