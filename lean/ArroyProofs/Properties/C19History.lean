import ArroyProofs.Properties.C19
import ArroyProofs.Properties.C06History
import ArroyProofs.Properties.C05History
/-! # C19 over histories — which calls are refused, with which error, and that a refused call changes nothing

`C19.lean` states the rule on ONE store.  Here it is stated on the stores a history can reach
(`C01.Op`, `C01.run`; `C06.accepted` says whether the model accepts an operation in a store):

* `C19_append_accepted_iff` : after a well-formed history an `append` is accepted iff the vector has the
  dimension of its `Cfg` and EVERY key of the database (all indexes, all kinds of entries) sorts strictly
  before the new item key (`Key.lt`); and then the step is exactly the step of the `add`.
* `C19_rejected_add` / `C19_rejected_append` / `C19_rejected_del` : which calls are refused and what the
  model returns: wrong length → `Err.invalidDim c.dims v.length` (add and append; for append whatever the
  keys: the length is checked first), right length but some key `≥` the new key → `Err.invalidAppend`,
  delete of an absent id → `false` with the very same store.
* `C19_rejected_history` : a refused operation (any `Op` that `C06.accepted` rejects) leaves `run` as it
  was, hence — for every index and every `Cfg` — `C06.status`, `C05.spec`, `Reader.open`,
  `Writer.needBuild` and every read (`item_vector`, `contains_item`, `iter`, `is_empty`, the queries by vector
  and by item on any reader state, and any other function of the store).
* `C19_query_dim_history` : a query by vector on a reader opened after a well-formed history fails with
  `Err.invalidDim d v.length` when the length is not the dimension `d` recorded by the last build. -/
namespace Arroy.C19
open Arroy Generated C01

/-- the store after a well-formed history is sorted (part of the invariant `C01_invariant`) -/
theorem run_sorted (ops : List Op) (hops : ∀ op ∈ ops, op.wf) : Store.Sorted (run ops) :=
  (C01_invariant ops hops ⟨0, .euclidean, 0, {}⟩ (by decide)).1.1

/-- `accepted` of an `append` in a sorted store -/
theorem accepted_append_iff {s : Store} (hs : Store.Sorted s) (c : Cfg) (id : Nat) (v : List Nat) :
    C06.accepted s (.append c id v) = true ↔
      v.length = c.dims ∧ ∀ kv ∈ s, kv.1.lt (c.itemKey id) = true := by
  show C06.okB (Writer.appendItem c s id v) = true ↔ _
  constructor
  · intro h
    by_cases hl : v.length = c.dims
    · refine ⟨hl, ?_⟩
      cases hp : s.putAppend (c.itemKey id) (c.mkLeaf v) with
      | none => rw [Writer.appendItem_none hl hp] at h; cases h
      | some s1 => exact (Store.putAppend_isSome_iff hs _ _).1 ⟨s1, hp⟩
    · rw [Writer.appendItem_err_dim s id hl] at h; cases h
  · intro ⟨hl, hall⟩
    obtain ⟨s1, hp⟩ := (Store.putAppend_isSome_iff hs (c.itemKey id) (c.mkLeaf v)).2 hall
    rw [Writer.appendItem_some hl hp]; rfl

/-- **C19, append over histories.**  After a well-formed history `ops`, `append_item(id, v)` on the index
opened as `c` is accepted **iff** `v` has `c.dims` components and every key already in the database — of
ANY index, items, tree nodes, updated marks, metadata and version entries alike — sorts strictly before
the key of the new item; and when it is accepted the resulting store is exactly the one `add_item(id, v)`
produces (so everything proved about accepted adds — `C05_overwrite_last_wins`, the staleness rules of
`C06History` — holds for the append: `C05_overwrite_last_wins_append`). -/
theorem C19_append_accepted_iff (ops : List Op) (hops : ∀ op ∈ ops, op.wf) (c : Cfg) (id : Nat) (v : List Nat) :
    (C06.accepted (run ops) (.append c id v) = true ↔
      v.length = c.dims ∧ ∀ kv ∈ run ops, kv.1.lt (c.itemKey id) = true) ∧
    (C06.accepted (run ops) (.append c id v) = true →
      step (run ops) (.append c id v) = step (run ops) (.add c id v) ∧
      C06.accepted (run ops) (.add c id v) = true ∧
      run (ops ++ [.append c id v]) = run (ops ++ [.add c id v])) := by
  have hs := run_sorted ops hops
  refine ⟨accepted_append_iff hs c id v, fun h => ?_⟩
  obtain ⟨hl, hall⟩ := (accepted_append_iff hs c id v).1 h
  have e : Writer.appendItem c (run ops) id v = Writer.addItem c (run ops) id v :=
    (C19_append c (run ops) hs id v hl).2.1 hall
  have hstep : step (run ops) (.append c id v) = step (run ops) (.add c id v) := by
    simp only [step]; rw [e]
  refine ⟨hstep, ?_, by rw [C06.run_snoc, C06.run_snoc, hstep]⟩
  show C06.okB (Writer.addItem c (run ops) id v) = true
  rw [Writer.addItem_of_len _ id hl]; rfl

/-! ## which calls are refused, and what the model returns -/

/-- **a refused add**: `add_item` is refused exactly for a wrong length (in any store, after any history),
and the model returns the dimension error carrying the expected and the received length -/
theorem C19_rejected_add (s : Store) (c : Cfg) (id : Nat) (v : List Nat) :
    (C06.accepted s (.add c id v) = false ↔ v.length ≠ c.dims) ∧
    (C06.accepted s (.add c id v) = false →
      Writer.addItem c s id v = .error (.invalidDim c.dims v.length)) := by
  have key : C06.accepted s (.add c id v) = false ↔ v.length ≠ c.dims := by
    show C06.okB (Writer.addItem c s id v) = false ↔ _
    constructor
    · intro h hl
      rw [Writer.addItem_of_len s id hl] at h; cases h
    · intro hl
      rw [Writer.addItem_err s id hl]; rfl
  exact ⟨key, fun h => Writer.addItem_err s id (key.1 h)⟩

/-- **a refused append** (after a well-formed history): refused exactly when the length is wrong — then the
error is the dimension error, whatever the keys of the database — or the length is right and some key
of the database is `≥` the new item key (equivalently: NOT every key sorts before it) — then the error is
`Err.invalidAppend`.  No other error is possible. -/
theorem C19_rejected_append (ops : List Op) (hops : ∀ op ∈ ops, op.wf) (c : Cfg) (id : Nat) (v : List Nat) :
    (C06.accepted (run ops) (.append c id v) = false ↔
      v.length ≠ c.dims ∨ ∃ kv ∈ run ops, (c.itemKey id).le kv.1 = true) ∧
    (v.length ≠ c.dims → Writer.appendItem c (run ops) id v = .error (.invalidDim c.dims v.length)) ∧
    (v.length = c.dims → C06.accepted (run ops) (.append c id v) = false →
      Writer.appendItem c (run ops) id v = .error .invalidAppend ∧
      (∃ kv ∈ run ops, (c.itemKey id).le kv.1 = true) ∧
      ¬ (∀ kv ∈ run ops, kv.1.lt (c.itemKey id) = true)) := by
  have hs := run_sorted ops hops
  have hiff := accepted_append_iff hs c id v
  have hright : v.length = c.dims → C06.accepted (run ops) (.append c id v) = false →
      Writer.appendItem c (run ops) id v = .error .invalidAppend ∧
      (∃ kv ∈ run ops, (c.itemKey id).le kv.1 = true) ∧
      ¬ (∀ kv ∈ run ops, kv.1.lt (c.itemKey id) = true) := by
    intro hl h
    have hnall : ¬ (∀ kv ∈ run ops, kv.1.lt (c.itemKey id) = true) := by
      intro hall
      rw [hiff.2 ⟨hl, hall⟩] at h; cases h
    have h' : C06.okB (Writer.appendItem c (run ops) id v) = false := h
    cases hp : (run ops).putAppend (c.itemKey id) (c.mkLeaf v) with
    | some s1 => rw [Writer.appendItem_some hl hp] at h'; cases h'
    | none =>
      exact ⟨Writer.appendItem_none hl hp, (Store.putAppend_eq_none_iff hs _ _).1 hp, hnall⟩
  refine ⟨?_, fun hl => Writer.appendItem_err_dim _ id hl, hright⟩
  constructor
  · intro h
    by_cases hl : v.length = c.dims
    · exact Or.inr (hright hl h).2.1
    · exact Or.inl hl
  · intro h
    cases ha : C06.accepted (run ops) (.append c id v) with
    | false => rfl
    | true =>
      obtain ⟨hl, hall⟩ := hiff.1 ha
      rcases h with h | ⟨kv, hkv, hle⟩
      · exact absurd hl h
      · have := hall kv hkv
        unfold Key.le at hle
        rw [this] at hle; cases hle

/-- **a refused delete**: `del_item` is "refused" (not effective) exactly for an id that is not stored in
the index; it reports `false` and returns the very same store -/
theorem C19_rejected_del (s : Store) (c : Cfg) (id : Nat) :
    (C06.accepted s (.del c id) = false ↔ Writer.containsItem c s id = false) ∧
    (C06.accepted s (.del c id) = false → Writer.delItem c s id = (s, false)) := by
  have key : C06.accepted s (.del c id) = false ↔ Writer.containsItem c s id = false :=
    C19_del_false_iff c s id
  exact ⟨key, fun h => (C19_del_absent c s id (key.1 h)).1⟩

/-! ## a refused call changes nothing -/

/-- **C19 over histories: a refused operation changes nothing.**  `op` any operation that the model does
not accept after the history `ops` — an add or append refused for its length, an append refused because
its key is not the greatest, a delete of an absent id (also: a failed build, a `prepare` to the same
metric).  Then the store after `ops ++ [op]` IS the store after `ops`; consequently, for every index `i`
and every `Cfg` `c'` (of any index, metric, dimension): the staleness status, the abstract item map,
`Reader.open`, `Writer.needBuild` (the index does not start to demand a build), every read of the writer,
every query on every reader state, and any other function of the store, are unchanged.
(No well-formedness of the history is needed.) -/
theorem C19_rejected_history (ops : List Op) (op : Op) (h : C06.accepted (run ops) op = false) :
    run (ops ++ [op]) = run ops ∧
    (∀ i, C06.status i (ops ++ [op]) = C06.status i ops) ∧
    (∀ i, C05.spec i (ops ++ [op]) = C05.spec i ops) ∧
    (∀ c' : Cfg,
      Reader.open c' (run (ops ++ [op])) = Reader.open c' (run ops) ∧
      Writer.needBuild c' (run (ops ++ [op])) = Writer.needBuild c' (run ops) ∧
      (∀ id, Writer.itemVector c' (run (ops ++ [op])) id = Writer.itemVector c' (run ops) id) ∧
      (∀ id, Writer.containsItem c' (run (ops ++ [op])) id = Writer.containsItem c' (run ops) id) ∧
      Writer.iter c' (run (ops ++ [op])) = Writer.iter c' (run ops) ∧
      Writer.isEmpty c' (run (ops ++ [op])) = Writer.isEmpty c' (run ops) ∧
      (∀ rd vec q, Reader.byVector c' (run (ops ++ [op])) rd vec q = Reader.byVector c' (run ops) rd vec q) ∧
      (∀ rd id q, Reader.byItem c' (run (ops ++ [op])) rd id q = Reader.byItem c' (run ops) rd id q)) ∧
    (∀ {α : Type} (f : Store → α), f (run (ops ++ [op])) = f (run ops)) := by
  obtain ⟨hrun, hst⟩ := C06.C06_noop_history_all ops op h
  refine ⟨hrun, hst, fun i => ?_, fun c' => ?_, fun f => by rw [hrun]⟩
  · rw [C05.spec_snoc]; unfold C05.specOp
    rw [if_neg (by simp [(C06.effective_false_iff i (run ops) op).2 (Or.inr h)])]
  · rw [hrun]
    exact ⟨rfl, rfl, fun _ => rfl, fun _ => rfl, rfl, rfl, fun _ _ _ => rfl, fun _ _ _ => rfl⟩

/-- the three refused item calls in one statement: what is returned, and that nothing changed -/
theorem C19_rejected_item_calls (ops : List Op) (hops : ∀ op ∈ ops, op.wf) (c : Cfg) (id : Nat) (v : List Nat) :
    (v.length ≠ c.dims →
      Writer.addItem c (run ops) id v = .error (.invalidDim c.dims v.length) ∧
      Writer.appendItem c (run ops) id v = .error (.invalidDim c.dims v.length) ∧
      run (ops ++ [.add c id v]) = run ops ∧ run (ops ++ [.append c id v]) = run ops) ∧
    (v.length = c.dims → (∃ kv ∈ run ops, (c.itemKey id).le kv.1 = true) →
      Writer.appendItem c (run ops) id v = .error .invalidAppend ∧ run (ops ++ [.append c id v]) = run ops) ∧
    (Writer.containsItem c (run ops) id = false →
      Writer.delItem c (run ops) id = (run ops, false) ∧ run (ops ++ [.del c id]) = run ops) := by
  refine ⟨fun hl => ?_, fun hl hk => ?_, fun hc => ?_⟩
  · have ha := (C19_rejected_add (run ops) c id v).1.2 hl
    have hp := (C19_rejected_append ops hops c id v).1.2 (Or.inl hl)
    exact ⟨Writer.addItem_err _ id hl, Writer.appendItem_err_dim _ id hl,
      (C19_rejected_history ops _ ha).1, (C19_rejected_history ops _ hp).1⟩
  · have hp := (C19_rejected_append ops hops c id v).1.2 (Or.inr hk)
    exact ⟨((C19_rejected_append ops hops c id v).2.2 hl hp).1, (C19_rejected_history ops _ hp).1⟩
  · have hd := (C19_rejected_del (run ops) c id).1.2 hc
    exact ⟨(C19_rejected_del (run ops) c id).2 hd, (C19_rejected_history ops _ hd).1⟩

/-- **a query by vector with a wrong length, on a reader opened after a well-formed history**: the reader
opened with `c` carries the dimension `d` of the last successful build of the index (`C06.status`), and a
query whose vector does not have `d` components fails with `Err.invalidDim d v.length` (nothing is
written by a query). -/
theorem C19_query_dim_history (ops : List Op) (hops : ∀ op ∈ ops, op.wf) (c : Cfg) (hi : c.index < 65536)
    (rd : ReaderState) (ho : Reader.open c (run ops) = .ok rd) (vec : List Nat) (q : QueryOpts)
    (h : vec.length ≠ rd.dims) :
    C06.status c.index ops = .built c.metric rd.dims rd.items false ∧
    Reader.byVector c (run ops) rd vec q = .error (.invalidDim rd.dims vec.length) :=
  ⟨((C06.C06_history ops hops c hi).2.2.2.1 rd.dims rd.items).1 ⟨rd.roots, ho⟩,
    C19_dim_query c (run ops) rd vec q h⟩

/-! ## non-vacuity: the histories of `C06History` (index 0: Euclidean, dimension 2; index 1 beside it) -/
namespace Ex
open C01.Ex C06.Ex

/-- after the rebuild every key of the database is below the item key `7` of index 0: the append is
accepted, and it is the add -/
example : C06.accepted (run hRebuilt) (.append cEx 7 [f1, f1]) = true ∧
    (∀ kv ∈ run hRebuilt, kv.1.lt (cEx.itemKey 7) = true) ∧
    step (run hRebuilt) (.append cEx 7 [f1, f1]) = step (run hRebuilt) (.add cEx 7 [f1, f1]) := by
  have h : C06.accepted (run hRebuilt) (.append cEx 7 [f1, f1]) = true := by decide +kernel
  have hh := C19_append_accepted_iff hRebuilt hRebuilt_wf cEx 7 [f1, f1]
  exact ⟨h, (hh.1.1 h).2, (hh.2 h).1⟩

/-- well-formedness of `hRebuilt` followed by a write to index 1 -/
theorem hOther1_wf : ∀ op ∈ hRebuilt ++ [.add c1 0 [f1, f1]], op.wf := fun op h => hChanged_wf op (by
  simp only [hChanged, hOther, List.mem_append, List.mem_cons, List.not_mem_nil, or_false] at h ⊢
  rcases h with h | h
  · exact Or.inl (Or.inl h)
  · exact Or.inl (Or.inr (Or.inl h)))

/-- once an item of index 1 is stored, the same append is refused with `InvalidAppend`: the right length,
but a key (of ANOTHER index) that is not below the new one -/
example : C06.accepted (run (hRebuilt ++ [.add c1 0 [f1, f1]])) (.append cEx 7 [f1, f1]) = false ∧
    Writer.appendItem cEx (run (hRebuilt ++ [.add c1 0 [f1, f1]])) 7 [f1, f1] = .error .invalidAppend ∧
    run (hRebuilt ++ [.add c1 0 [f1, f1]] ++ [.append cEx 7 [f1, f1]]) = run (hRebuilt ++ [.add c1 0 [f1, f1]]) := by
  have h : C06.accepted (run (hRebuilt ++ [.add c1 0 [f1, f1]])) (.append cEx 7 [f1, f1]) = false := by
    decide +kernel
  exact ⟨h, ((C19_rejected_append _ hOther1_wf cEx 7 [f1, f1]).2.2 rfl h).1,
    (C19_rejected_history _ _ h).1⟩

/-- wrong length: add and append of a 1-component vector to the 2-dimensional index -/
example : Writer.addItem cEx (run hBuilt) 7 [f1] = .error (.invalidDim 2 1) ∧
    Writer.appendItem cEx (run hBuilt) 7 [f1] = .error (.invalidDim 2 1) ∧
    C06.status 0 (hBuilt ++ [.add cEx 7 [f1]]) = C06.status 0 hBuilt ∧
    Reader.open cEx (run (hBuilt ++ [.add cEx 7 [f1]])) = Reader.open cEx (run hBuilt) :=
  ⟨(C19_rejected_add _ cEx 7 [f1]).2 ((C19_rejected_add _ cEx 7 [f1]).1.2 (by decide)),
   Writer.appendItem_err_dim _ 7 (by decide),
   (C19_rejected_history hBuilt _ ((C19_rejected_add _ cEx 7 [f1]).1.2 (by decide))).2.1 0,
   ((C19_rejected_history hBuilt _ ((C19_rejected_add _ cEx 7 [f1]).1.2 (by decide))).2.2.2.1 cEx).1⟩

/-- the absent delete -/
example : Writer.containsItem cEx (run hBuilt) 9 = false ∧
    C06.accepted (run hBuilt) (.del cEx 9) = false := by decide +kernel

/-- … and the index does not start to demand a build: it was clean after the build and stays clean -/
example : Writer.needBuild cEx (run (hBuilt ++ [.del cEx 9])) = Writer.needBuild cEx (run hBuilt) ∧
    C06.status 0 (hBuilt ++ [.del cEx 9]) = .built .euclidean 2 [0, 1, 2, 3, 4] false := by
  have h : C06.accepted (run hBuilt) (.del cEx 9) = false := by decide +kernel
  have hh := C19_rejected_history hBuilt _ h
  exact ⟨(hh.2.2.2.1 cEx).2.1, by rw [hh.2.1 0]; exact statuses.1⟩

/-- `C19_query_dim_history`: the reader opens after the rebuild with dimension 2; a 3-component query is refused -/
example : ∃ rd, Reader.open cEx (run hRebuilt) = .ok rd ∧ rd.dims = 2 ∧
    Reader.byVector cEx (run hRebuilt) rd [f1, f1, f1] { count := 1 } = .error (.invalidDim 2 3) := by
  have hs : C06.status cEx.index hRebuilt = .built .euclidean 2 [0, 1, 2, 3, 4] false := statuses.2.2.2.2.1
  obtain ⟨roots, ho⟩ := ((C06.C06_history hRebuilt hRebuilt_wf cEx (by decide)).2.2.2.1 2 [0, 1, 2, 3, 4]).2 hs
  exact ⟨_, ho, rfl, (C19_query_dim_history hRebuilt hRebuilt_wf cEx (by decide) _ ho [f1, f1, f1] { count := 1 }
    (show ([f1, f1, f1] : List Nat).length ≠ 2 by decide)).2⟩

end Ex

end Arroy.C19
