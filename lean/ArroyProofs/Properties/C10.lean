import ArroyProofs.TransparentBuild
/-! # C10 — a cancelled build reports it, and can be rolled back

The cancellation callback of the model is monotone by construction: `cancelAt = some n` means
"false for the calls `0 .. n-1`, true from call `n` on" (`BuildM.poll`).  `erase st` is the same
state with the callback that never fires.

Main results (for `Build.build`, i.e. `Writer::build`), all under the explicit, decidable
hypothesis `RootsPresent c st.store` (if the database holds tree nodes, its metadata lists at
least one root — one direction of the forest invariant):

* `C10_transparent_ok`  : a build that returns `Ok` under a cancel schedule returns exactly what the
  fault-free build returns (store, poll count, oracle remainders): no success over a half-built forest;
* `C10_transparent_err` : a failing build fails with `cancelled`, or with the fault-free build's own error;
* `C10_cancel_iff`      : with `P` the number of polls of the successful fault-free build, the build
  under `cancelAt = some n` fails with `cancelled` iff `n < P` (and otherwise returns the fault-free
  result, `C10_cancel_late`) — *including* when call `n` is the one swallowed by `used_tree_node`;
* `C10_abort`, `C10_commit_err`, `C10_retry` : the transaction model.

The hypothesis cannot be dropped: `C10_transparent_ok_needs_roots`, `C10_cancel_iff_needs_roots`
(tree nodes without roots, `n_trees = 0`: the swallowed cancellation is never seen again). -/
namespace Arroy.C10
open Generated Transp BuildM

/-! ## transparency of `build` -/

/-- A build that returns `Ok` under a cancel schedule is the fault-free build: same store, same
    number of polls, same oracle remainders.  In particular it never reports success over a
    half-built forest. -/
theorem C10_transparent_ok (c : Cfg) (o : BuildOpts) (fuel : Nat) (st st' : BState)
    (H : RootsPresent c st.store)
    (h : Build.build c o fuel st = .ok ((), st')) :
    Build.build c o fuel (erase st) = .ok ((), erase st') :=
  ((build_transparentOn c o fuel st H).ok () st' h).1

/-- A build that fails under a cancel schedule fails with the cancellation error, or exactly like
    the fault-free build. -/
theorem C10_transparent_err (c : Cfg) (o : BuildOpts) (fuel : Nat) (st : BState) (e : Err)
    (H : RootsPresent c st.store)
    (h : Build.build c o fuel st = .error e) :
    (∃ k, e = .cancelled k) ∨ Build.build c o fuel (erase st) = .error e := by
  rcases (build_transparentOn c o fuel st H).err e h with ⟨k, hk, _⟩ | h2
  · exact Or.inl ⟨k, hk⟩
  · exact Or.inr h2

/-- both at once, in the `match` form of the closure predicate (`Transp.Transparent.simple`) -/
theorem C10_transparent_match (c : Cfg) (o : BuildOpts) (fuel : Nat) (st : BState)
    (H : RootsPresent c st.store) :
    match Build.build c o fuel st with
    | .ok (a, st') => Build.build c o fuel (erase st) = .ok (a, erase st')
    | .error e => (∃ k, e = .cancelled k) ∨ Build.build c o fuel (erase st) = .error e := by
  cases hb : Build.build c o fuel st with
  | ok r => obtain ⟨⟨⟩, st'⟩ := r; exact C10_transparent_ok c o fuel st st' H hb
  | error e => exact C10_transparent_err c o fuel st e H hb

/- Remark (not machine-checked): the unconditional form of `C10_transparent_err` also fails in the
   model, but only through a model artefact: tree keys without roots, `n_trees = 2^32`,
   `loopFuel = 0`.  After the swallow `used = []`, so `new_trees` can hand out `2^32` ids and the run
   ends with the model's `.fuel` error, whereas the fault-free run (one id already used) ends with
   `.dbFull`.  With `loopFuel > 0` the next poll reports `cancelled`. -/

/-- a successful build under a schedule has not made the firing call, never decreases the
    counter and leaves the schedule alone -/
theorem C10_ok_before_firing (c : Cfg) (o : BuildOpts) (fuel n : Nat) (st st' : BState)
    (H : RootsPresent c st.store) (hc : st.cancelAt = some n) (hs : st.polls ≤ n)
    (h : Build.build c o fuel st = .ok ((), st')) :
    st'.cancelAt = some n ∧ st.polls ≤ st'.polls ∧ st'.polls ≤ n := by
  obtain ⟨_, h2, h3, h4⟩ := (build_transparentOn c o fuel st H).ok () st' h
  have hsafe : Safe st := by
    intro m hm; rw [hc] at hm; cases hm; exact hs
  exact ⟨by rw [h3, hc], h2, h4 hsafe n (by rw [h3, hc])⟩

/-- Exact characterisation.  Let the fault-free build succeed and make `P = st'.polls` polls in
    total (counted from `st.polls ≤ n`, e.g. from `0`).  Then the build whose callback fires at
    call `n` fails with `cancelled` iff `n < P`.  This includes the case where call `n` is one of
    the calls of `used_tree_node`, whose error is swallowed: a later poll sees the flag again. -/
theorem C10_cancel_iff (c : Cfg) (o : BuildOpts) (fuel n : Nat) (st st' : BState)
    (H : RootsPresent c st.store) (hc : st.cancelAt = some n) (hs : st.polls ≤ n)
    (hff : Build.build c o fuel (erase st) = .ok ((), st')) :
    (∃ k, Build.build c o fuel st = .error (.cancelled k)) ↔ n < st'.polls := by
  have T := build_transparentOn c o fuel st H
  cases hb : Build.build c o fuel st with
  | error e =>
    rcases T.err e hb with ⟨k, hk, hn⟩ | h2
    · subst hk
      exact ⟨fun _ => hn n () st' hc hff, fun _ => ⟨k, rfl⟩⟩
    · rw [hff] at h2; cases h2
  | ok r =>
    obtain ⟨⟨⟩, st''⟩ := r
    have h1 := C10_transparent_ok c o fuel st st'' H hb
    have h2 := (C10_ok_before_firing c o fuel n st st'' H hc hs hb).2.2
    rw [hff] at h1
    injection h1 with h1
    injection h1 with _ h1
    subst h1
    constructor
    · rintro ⟨k, hk⟩; cases hk
    · intro hlt
      simp only [erase_polls] at hlt
      omega

/-- ... and if the callback would only fire after the last poll (`P ≤ n`), the build returns
    exactly the fault-free result. -/
theorem C10_cancel_late (c : Cfg) (o : BuildOpts) (fuel n : Nat) (st st' : BState)
    (H : RootsPresent c st.store) (hc : st.cancelAt = some n) (hs : st.polls ≤ n)
    (hff : Build.build c o fuel (erase st) = .ok ((), st')) (hn : st'.polls ≤ n) :
    Build.build c o fuel st = .ok ((), { st' with cancelAt := some n }) := by
  have T := build_transparentOn c o fuel st H
  cases hb : Build.build c o fuel st with
  | error e =>
    rcases T.err e hb with ⟨k, _, hlt⟩ | h2
    · have := hlt n () st' hc hff
      omega
    · rw [hff] at h2; cases h2
  | ok r =>
    obtain ⟨⟨⟩, st''⟩ := r
    have h1 := C10_transparent_ok c o fuel st st'' H hb
    have h3 := (C10_ok_before_firing c o fuel n st st'' H hc hs hb).1
    rw [hff] at h1
    injection h1 with h1
    injection h1 with _ h1
    subst h1
    cases st''
    simp_all [erase]

/-! ## the hypothesis `RootsPresent` is needed

Tree nodes under the index but no metadata (hence no roots), one item, `n_trees = Some(0)`,
`split_after = Some(0)`: the fault-free build polls 4 times (pre-process, one item, two tree keys)
and succeeds.  With the callback firing at call 2 (the first call of `used_tree_node`) the error is
swallowed, nothing polls afterwards, and `build` returns `Ok` after 3 calls.  (The store written is
the same in this corner; only the call count shows the difference.) -/

def cBad : Cfg := { index := 0, metric := .euclidean, dims := 2 }
def oBad : BuildOpts := { nTrees := some 0, splitAfter := some 0 }
def sBad : Store :=
  [(cBad.treeKey 5, .desc [0]), (cBad.treeKey 6, .desc [0]), (cBad.itemKey 0, .leaf [] [0, 0])]
def stBad : BState := { store := sBad, cancelAt := some 2 }

def okPolls : Except Err (Unit × BState) → Option Nat
  | .ok (_, st) => some st.polls
  | .error _ => none

def cancelledAt : Except Err (Unit × BState) → Option Nat
  | .error (.cancelled k) => some k
  | _ => none

theorem C10_bad_not_rootsPresent : ¬ RootsPresent cBad sBad := by decide
theorem C10_bad_cancelled_run : okPolls (Build.build cBad oBad 0 stBad) = some 3 := by decide +kernel
theorem C10_bad_faultfree_run : okPolls (Build.build cBad oBad 0 (erase stBad)) = some 4 := by decide +kernel

/-- the unconditional form of `C10_transparent_ok` is false -/
theorem C10_transparent_ok_needs_roots :
    ¬ ∀ (c : Cfg) (o : BuildOpts) (fuel : Nat) (st st' : BState),
      Build.build c o fuel st = .ok ((), st') → Build.build c o fuel (erase st) = .ok ((), erase st') := by
  intro h
  have h1 := C10_bad_cancelled_run
  have h2 := C10_bad_faultfree_run
  cases hb : Build.build cBad oBad 0 stBad with
  | error e => rw [hb] at h1; cases h1
  | ok r =>
    obtain ⟨⟨⟩, st'⟩ := r
    rw [h _ _ _ _ _ hb] at h2
    rw [hb] at h1
    simp only [okPolls, erase_polls, Option.some.injEq] at h1 h2
    omega

/-- the unconditional form of `C10_cancel_iff` is false: `n = 2 < 4 = P`, yet no error -/
theorem C10_cancel_iff_needs_roots :
    ¬ ∀ (c : Cfg) (o : BuildOpts) (fuel n : Nat) (st st' : BState),
      st.cancelAt = some n → st.polls ≤ n → Build.build c o fuel (erase st) = .ok ((), st') →
      ((∃ k, Build.build c o fuel st = .error (.cancelled k)) ↔ n < st'.polls) := by
  intro h
  have h1 := C10_bad_cancelled_run
  have h2 := C10_bad_faultfree_run
  cases hb : Build.build cBad oBad 0 (erase stBad) with
  | error e => rw [hb] at h2; cases h2
  | ok r =>
    obtain ⟨⟨⟩, st'⟩ := r
    rw [hb] at h2
    simp only [okPolls, Option.some.injEq] at h2
    obtain ⟨k, hk⟩ := (h cBad oBad 0 2 stBad st' rfl (Nat.zero_le _) hb).2 (by omega)
    rw [hk] at h1
    cases h1

/-! ## the transaction model

`build` works inside a write transaction of the caller: a private copy of the committed store.
In the model an error returns no state at all (the partial edits live only in the transaction);
the caller commits only after `Ok`. -/

/-- run `m` in a write transaction opened on the committed store `db`
    (`env` carries the callback schedule and the oracles) -/
def runTxn (m : BuildM α) (db : Store) (env : BState) : Except Err (α × BState) :=
  m { env with store := db }

/-- run `m` in a transaction, then abort it, whatever the outcome: the database afterwards -/
def abortAfter (m : BuildM α) (db : Store) (env : BState) : Store :=
  match runTxn m db env with
  | .ok _ => db
  | .error _ => db

/-- run `m` in a transaction and commit iff it returned `Ok`: the database afterwards -/
def commitIfOk (m : BuildM α) (db : Store) (env : BState) : Store :=
  match runTxn m db env with
  | .ok (_, st') => st'.store
  | .error _ => db

/-- aborting the transaction restores the exact previous contents -/
theorem C10_abort (m : BuildM α) (db : Store) (env : BState) : abortAfter m db env = db := by
  unfold abortAfter; split <;> rfl

/-- the error path performs no commit -/
theorem C10_commit_err (m : BuildM α) (db : Store) (env : BState) (e : Err)
    (h : runTxn m db env = .error e) : commitIfOk m db env = db := by
  unfold commitIfOk; rw [h]

/-- retrying without the fault, after the abort, is the fault-free build of the original database -/
theorem C10_retry (c : Cfg) (o : BuildOpts) (fuel : Nat) (db : Store) (env : BState) :
    runTxn (Build.build c o fuel) (abortAfter (Build.build c o fuel) db env) (erase env) =
      Build.build c o fuel (erase { env with store := db }) := by
  rw [C10_abort]; rfl

/-- a cancelled build followed by abort and a clean retry commits exactly what the build would
    have committed had the callback never fired -/
theorem C10_cancel_abort_retry (c : Cfg) (o : BuildOpts) (fuel : Nat) (db : Store) (env : BState) :
    commitIfOk (Build.build c o fuel) (abortAfter (Build.build c o fuel) db env) (erase env) =
      commitIfOk (Build.build c o fuel) db (erase env) := by
  rw [C10_abort]

/-! ## non-vacuity -/

def cEx : Cfg := { index := 0, metric := .euclidean, dims := 2 }

/-- three items, nothing built yet; with `split_after = 10` everything fits one leaf -/
def sItems : Store :=
  [(cEx.itemKey 0, .leaf [] [0, 0]), (cEx.itemKey 1, .leaf [] [0, 0]), (cEx.itemKey 2, .leaf [] [0, 0])]

/-- a built index: metadata with root 0, one descendants node, three items -/
def sBuilt : Store :=
  [(cEx.metaKey, .metadata [] 2 [0, 1, 2] [0]), (cEx.treeKey 0, .desc [0, 1, 2]),
   (cEx.itemKey 0, .leaf [] [0, 0]), (cEx.itemKey 1, .leaf [] [0, 0]), (cEx.itemKey 2, .leaf [] [0, 0])]

def oLeaf : BuildOpts := { splitAfter := some 10 }
def oTree : BuildOpts := { nTrees := some 1, splitAfter := some 2 }

example : RootsPresent cEx sItems := by decide
/-- non-trivially: there are tree keys, and a root -/
example : RootsPresent cEx sBuilt ∧ sBuilt.keysOf cEx.index modeTree = [0] ∧ rootsOf cEx sBuilt = [0] := by
  decide

/-- the fault-free build makes 5 polls; firing at call 3 is reported at the 4th call -/
example : cancelledAt (Build.build cEx oLeaf 0 { store := sItems, cancelAt := some 3 }) = some 4 := by
  decide +kernel
example : okPolls (Build.build cEx oLeaf 0 { store := sItems, cancelAt := none }) = some 5 := by
  decide +kernel
/-- firing after the last poll: the build completes (`C10_cancel_late`) -/
example : okPolls (Build.build cEx oLeaf 0 { store := sItems, cancelAt := some 5 }) = some 5 := by
  decide +kernel

/-- the swallowed poll: on the built index the fault-free build makes 7 polls (pre-process, 3 items,
    1 tree key in `used_tree_node`, 2 in `delete_items_from_trees`).  Firing at call 4 — the call
    inside `used_tree_node` — is swallowed there and reported by the next call, the 6th. -/
example : okPolls (Build.build cEx oTree 0 { store := sBuilt, cancelAt := none }) = some 7 := by
  decide +kernel
example : cancelledAt (Build.build cEx oTree 0 { store := sBuilt, cancelAt := some 4 }) = some 6 := by
  decide +kernel
example : Swallows cEx { store := sBuilt, polls := 4, cancelAt := some 4 } :=
  ⟨4, rfl, by decide, by decide⟩

end Arroy.C10
