import ArroyProofs.Properties.C05History
import ArroyProofs.LeavesMade
import ArroyProofs.BQRequant
/-! # C02 over histories — the ANSWER of an unlimited-budget query as a function of what happened

`Reachable.lean` (`C02_exact_reachable`) states exact search against the stored leaves of the state the build
left; `C05History.lean` (`C05_history`) states the stored vectors as a function of the history (`C05.spec`).
Here the two are composed: the answer of the query is `specAnswer c (C05.spec c.index ops) qh qv count` — the
entries of the abstract item map scored by `built_distance` against the query, sorted by
`(OrderedFloat score, id)`, truncated to `count`, reported through `normalized_distance`. No store, no leaf,
no tree occurs in the right-hand side.

Side conditions (all decidable, syntactic, on the operations of index `c.index` only):
* `C05.Typed` / `C05.metricOf` — those of `C05_history`: the index is written at the dimension `c.dims` and under
  the metric it has at that point;
* `Written c.index c.host m0 ops` —
  (a) while the index is Cosine, its items are written from the host `c.host` (the Cosine header holds the norm
      of the vector, computed by the run-time-dispatched dot-product kernel of the WRITING host; every other
      metric either has no norm in its header or — quantised Cosine — computes it without the kernels);
      likewise a metric change TOWARDS Cosine is made from `c.host`;
  (b) no build under a dot-product `Cfg` is run on the index while its metric is not dot-product (the
      preprocessing of a dot-product build rewrites the headers of all items; `built_distance` of dot-product
      itself never reads a header, so for a dot-product index nothing is asked). -/
namespace Arroy

deriving instance DecidableEq for Host

namespace C02
open Arroy Generated Reader

/-! ## the specification of the answer -/

/-- the score of a vector `v` of the abstract item map against the query leaf `(qh, qv)`: `built_distance`
    between the query and the leaf `add_item` makes of `v` (words `from_slice v`, header `new_header` of them) -/
def specScore (c : Cfg) (qh qv v : List Nat) : Nat :=
  c.metric.builtDistance c.host qh qv (c.metric.newHeader c.host (c.metric.fromSlice v)) (c.metric.fromSlice v)

/-- every entry of the map with its score -/
def specScored (c : Cfg) (m : C05.IMap) (qh qv : List Nat) : List (Nat × Nat) :=
  m.map fun p => (specScore c qh qv p.2, p.1)

/-- **the answer, from the abstract item map only**: score every entry, sort by `(OrderedFloat score, id)`,
    keep `count`, report `(id, normalized_distance score)` -/
def specAnswer (c : Cfg) (m : C05.IMap) (qh qv : List Nat) (count : Nat) : List (Nat × Nat) :=
  (((specScored c m qh qv).mergeSort scoreLe).take count).map
    fun (d, id) => (id, c.metric.normalizedDistance d c.dims)

/-! ### the map holds READ-BACK vectors; scoring them is scoring the vectors as written -/

/-- the stored words of the read-back of `v` are the stored words of `v`: for an f32 metric the read-back is
    `v`; for a quantised one it is the `±1.0` sign pattern, which packs to the same words -/
theorem fromSlice_readback (m : Metric) (v : List Nat) :
    m.fromSlice (C05.readback m v.length v) = m.fromSlice v := by
  cases hb : m.isBq with
  | false => rw [C05.readback_f32 m hb]
  | true =>
    simp only [C05.readback, Metric.toVec, Metric.fromSlice, hb, if_true]
    exact BQL.pack_unpack_pack v

/-- … so an entry is scored as the vector that was written -/
theorem specScore_readback (c : Cfg) (qh qv v : List Nat) (hv : v.length = c.dims) :
    specScore c qh qv (C05.readback c.metric c.dims v) = specScore c qh qv v := by
  unfold specScore
  rw [← hv, fromSlice_readback]

/-! ## headers: who reads them, who computes them with the host's kernels -/

/-- only Cosine reads the header of the ITEM in `built_distance` -/
theorem builtDistance_item_header (m : Metric) (hm : m ≠ .cosine) (host : Host) (ph pv qh qh' qv : List Nat) :
    m.builtDistance host ph pv qh qv = m.builtDistance host ph pv qh' qv := by
  cases m <;> first | rfl | exact absurd rfl hm

/-- only Cosine computes a header with the kernels of the host -/
theorem newHeader_host (m : Metric) (hm : m ≠ .cosine) (h h' : Host) (v : List Nat) :
    m.newHeader h v = m.newHeader h' v := by
  cases m <;> first | rfl | exact absurd rfl hm

/-! ## every stored leaf was made by `add_item` — along TYPED histories, metric changes included -/

/-- the `Cfg` the index is read with, host included -/
def hcfg (i : Nat) (mt : Metric) (d : Nat) (host : Host) : Cfg := { index := i, metric := mt, dims := d, host := host }

theorem hcfg_eta (c : Cfg) : hcfg c.index c.metric c.dims c.host = c := rfl

/-- `LeavesMade` depends on the host only for Cosine -/
theorem leavesMade_congr {c c' : Cfg} {s : Store} (hi : c.index = c'.index) (hm : c.metric = c'.metric)
    (hd : c.dims = c'.dims) (hh : c.metric = .cosine → c.host = c'.host) (h : LeavesMade c s) :
    LeavesMade c' s := by
  intro id hdr v hg
  have hk : c'.itemKey id = c.itemKey id := by simp [Cfg.itemKey, hi]
  rw [hk] at hg
  obtain ⟨xs, hl, hv, hhd⟩ := h id hdr v hg
  refine ⟨xs, by rw [← hd]; exact hl, by rw [← hm]; exact hv, fun hdot => ?_⟩
  rw [← hm] at hdot ⊢
  rw [hhd hdot]
  by_cases hc : c.metric = .cosine
  · rw [hh hc]
  · exact newHeader_host _ hc _ _ _

/-- what `Written` asks of one operation, the index having metric `mt` at that point -/
def opWritten (i : Nat) (host : Host) (mt : Metric) : C01.Op → Prop
  | .add c _ v => c.index = i → v.length = c.dims → mt = .cosine → c.host = host
  | .append c _ v => c.index = i → v.length = c.dims → mt = .cosine → c.host = host
  | .build c _ _ _ => c.index = i → c.metric = .dot → mt = .dot
  | .prepare c m' => c.index = i → m' ≠ c.metric → m' = .cosine → c.host = host
  | _ => True

instance (i : Nat) (host : Host) (mt : Metric) (op : C01.Op) : Decidable (opWritten i host mt op) := by
  cases op <;> unfold opWritten <;> infer_instance

/-- **the side condition of `C02_history` beyond `C05.Typed`**: while index `i` is Cosine its items are written
    (and a change towards Cosine is made) from `host`; no dot-product build runs on it while it is not
    dot-product. `mt`: the metric of the index at the start (then `C05.metricStep`). -/
def Written (i : Nat) (host : Host) : Metric → List C01.Op → Prop
  | _, [] => True
  | mt, op :: ops => opWritten i host mt op ∧ Written i host (C05.metricStep i mt op) ops

instance decWritten (i : Nat) (host : Host) : (mt : Metric) → (ops : List C01.Op) → Decidable (Written i host mt ops)
  | _, [] => isTrue trivial
  | mt, op :: ops =>
    have := decWritten i host (C05.metricStep i mt op) ops
    by unfold Written; infer_instance

theorem written_append (i : Nat) (host : Host) (ops : List C01.Op) (op : C01.Op) : ∀ mt,
    Written i host mt (ops ++ [op]) ↔ Written i host mt ops ∧ opWritten i host (C05.metricOf i mt ops) op := by
  induction ops with
  | nil => intro mt; simp [Written, C05.metricOf]
  | cons a ops ih =>
    intro mt
    simp only [List.cons_append, Written, ih, C05.metricOf, List.foldl_cons, and_assoc]

/-- one step of a typed, written history keeps "every leaf of the index was made for its current `Cfg`" -/
theorem made_step {i d : Nat} {host : Host} (hi : i < 65536) {mt : Metric} (s : Store) (op : C01.Op) (hop : op.wf)
    (hinv : ∀ c : Cfg, c.index < 65536 → IndexInv c s) (hP : LeavesMade (hcfg i mt d host) s)
    (ht : C05.opTyped i d mt op) (hw : opWritten i host mt op) :
    LeavesMade (hcfg i (C05.metricStep i mt op) d host) (C01.step s op) := by
  have hKi : (hcfg i mt d host).index < 65536 := hi
  have hadd : ∀ (c' : Cfg) (id : Nat) (vec : List Nat) (s' : Store),
      (c'.index = i → vec.length = c'.dims → c'.metric = mt ∧ c'.dims = d) →
      (c'.index = i → vec.length = c'.dims → mt = .cosine → c'.host = host) →
      Writer.addItem c' s id vec = .ok s' → LeavesMade (hcfg i mt d host) s' := by
    intro c' id vec s' ht hw h
    by_cases hidx : c'.index = i
    · obtain ⟨hm, hd⟩ := ht hidx (Writer.addItem_ok h).1
      have hh := hw hidx (Writer.addItem_ok h).1
      have h1 : LeavesMade c' s := leavesMade_congr hidx.symm hm.symm hd.symm (fun e => (hh e).symm) hP
      have h2 : LeavesMade c' s' := C01.leavesMade_add (fun _ => rfl) h h1
      exact leavesMade_congr hidx hm hd (fun e => hh (hm ▸ e)) h2
    · exact C01.leavesMade_add (fun e => absurd e hidx) h hP
  cases op with
  | add c' id vec =>
    simp only [C01.step, C05.metricStep]
    cases h : Writer.addItem c' s id vec with
    | error e => exact hP
    | ok s' => exact hadd c' id vec s' ht hw h
  | append c' id vec =>
    simp only [C01.step, C05.metricStep]
    cases h : Writer.appendItem c' s id vec with
    | error e => exact hP
    | ok s' => exact hadd c' id vec s' ht hw (Writer.appendItem_ok_eq_addItem (hinv _ hKi).1.1 h)
  | del c' id => exact C01.leavesMade_step s _ hop _ hKi trivial hinv hP
  | clear c' => exact C01.leavesMade_step s _ hop _ hKi trivial hinv hP
  | build c' o fuel env => exact C01.leavesMade_step s _ hop _ hKi hw hinv hP
  | prepare c' m' =>
    by_cases hidx : c'.index = i
    · obtain ⟨hm, hd⟩ := ht hidx
      have hstep : C05.metricStep i mt (.prepare c' m') = m' := by simp [C05.metricStep, hidx]
      rw [hstep]
      by_cases hne : m' = c'.metric
      · subst hne
        simp only [C01.step, C18.C18_same]
        rw [hm]; exact hP
      · have hinv' := hinv c' hop
        obtain ⟨s', h, _, hsome, hleaf, _⟩ :=
          C18.C18_change c' m' s hne hinv'.1.2.1 hinv'.1.1 hop hinv'.1.2.2.1
        simp only [C01.step, h]
        intro id0 hdr v hg
        have hk : (hcfg i m' d host).itemKey id0 = c'.itemKey id0 := by simp [Cfg.itemKey, hcfg, hidx]
        have hk0 : (hcfg i mt d host).itemKey id0 = c'.itemKey id0 := by simp [Cfg.itemKey, hcfg, hidx]
        rw [hk] at hg
        have hx : (Store.get s (c'.itemKey id0)).isSome = true := by rw [← hsome, hg]; rfl
        obtain ⟨hd0, v0, hg0⟩ := hinv'.1.2.2.1.leaf_of_isSome hx
        obtain ⟨xs0, hl0, hv0, _⟩ := hP id0 hd0 v0 (by rw [hk0]; exact hg0)
        rw [hleaf id0 hd0 v0 hg0] at hg
        simp only [Cfg.mkLeaf, Option.some.injEq, Val.leaf.injEq] at hg
        refine ⟨(c'.metric.toVec v0).take c'.dims, ?_, hg.2.symm, fun _ => ?_⟩
        · rw [List.length_take]
          have := C01.toVec_fromSlice_length mt xs0
          rw [hm, hd]
          show min d _ = d
          have hv0' : v0 = mt.fromSlice xs0 := hv0
          rw [← hv0'] at this
          have hl0' : xs0.length = d := hl0
          omega
        · rw [← hg.1, ← hg.2]
          show m'.newHeader c'.host _ = m'.newHeader host _
          by_cases hc : m' = .cosine
          · rw [hw hidx hne hc]
          · exact newHeader_host _ hc _ _ _
    · have hstep : C05.metricStep i mt (.prepare c' m') = mt := by simp [C05.metricStep, hidx]
      rw [hstep]
      exact C01.leavesMade_step s _ hop _ hKi (fun e => absurd e hidx) hinv hP

theorem made_foldl {i d : Nat} {host : Host} (hi : i < 65536) (ops : List C01.Op) (hops : ∀ op ∈ ops, op.wf) :
    ∀ (s : Store) (mt : Metric), (∀ c : Cfg, c.index < 65536 → IndexInv c s) →
      LeavesMade (hcfg i mt d host) s → C05.Typed i d mt ops → Written i host mt ops →
      LeavesMade (hcfg i (C05.metricOf i mt ops) d host) (ops.foldl C01.step s) := by
  induction ops with
  | nil => intro s mt _ hP _ _; exact hP
  | cons op ops ih =>
    intro s mt hinv hP ht hw
    have hop := hops op (by simp)
    exact ih (fun op' h' => hops op' (List.mem_cons_of_mem _ h')) _ _
      (C01.C01_inv_step freshSupply s op hop hinv) (made_step hi s op hop hinv hP ht.1 hw.1) ht.2 hw.2

/-- **every stored leaf of the index is `c.mkLeaf` of a vector of the declared dimension** (for dot-product:
    has the words of one) after every well-formed, typed, written history — metric changes included -/
theorem made_history (ops : List C01.Op) (hops : ∀ op ∈ ops, op.wf) (c : Cfg) (hi : c.index < 65536)
    (m0 : Metric) (ht : C05.Typed c.index c.dims m0 ops) (hm : c.metric = C05.metricOf c.index m0 ops)
    (hw : Written c.index c.host m0 ops) : LeavesMade c (C01.run ops) := by
  have h := made_foldl (i := c.index) (d := c.dims) (host := c.host) hi ops hops [] m0
    (fun c _ => C01.C01_inv_empty c) (LeavesMade.nil _) ht hw
  rw [← hm] at h
  exact h

/-! ## the exact answer over the stored leaves IS the answer computed from the map -/

theorem lookup_of_mem_asc {m : C05.IMap} (ha : C05.Asc m) {id : Nat} {v : List Nat} (h : (id, v) ∈ m) :
    List.lookup id m = some v := by
  induction m with
  | nil => cases h
  | cons p r ih =>
    obtain ⟨j, w⟩ := p
    unfold C05.Asc at ha ih
    rw [List.map_cons, List.pairwise_cons] at ha
    rw [C05.lk_cons]
    rcases List.mem_cons.1 h with e | h'
    · cases e; rw [if_pos rfl]
    · have hlt : j < id := ha.1 id (List.mem_map.2 ⟨(id, v), h', rfl⟩)
      rw [if_neg (by omega)]
      exact ih ha.2 h'

theorem mem_of_lookup {m : C05.IMap} {id : Nat} {v : List Nat} (h : List.lookup id m = some v) : (id, v) ∈ m := by
  induction m with
  | nil => cases h
  | cons p r ih =>
    obtain ⟨j, w⟩ := p
    rw [C05.lk_cons] at h
    by_cases e : id = j
    · rw [if_pos e] at h; cases h; subst e; exact List.mem_cons_self
    · rw [if_neg e] at h; exact List.mem_cons_of_mem _ (ih h)

/-- the stored leaf of an entry of the map: the words are `from_slice` of the entry's vector, the header
    (but for dot-product) `new_header` of these words -/
theorem leaf_of_lookup {c : Cfg} {s : Store} {m : C05.IMap} (hr : C05.Rep c s m) (hP : LeavesMade c s)
    {id : Nat} {v : List Nat} (hl : List.lookup id m = some v) :
    ∃ hd, Store.get s (c.itemKey id) = some (.leaf hd (c.metric.fromSlice v)) ∧
      (c.metric ≠ .dot → hd = c.metric.newHeader c.host (c.metric.fromSlice v)) := by
  have hv := hr.1 id
  rw [hl] at hv
  unfold Writer.itemVector Writer.itemLeaf at hv
  cases hg : Store.get s (c.itemKey id) with
  | none => rw [hg] at hv; cases hv
  | some val =>
    rw [hg] at hv
    cases val with
    | leaf hd w =>
      simp only [Option.map_some, Option.some.injEq] at hv
      obtain ⟨xs, hxl, hxw, hhd⟩ := hP id hd w hg
      have hw : c.metric.fromSlice v = w := by
        rw [← hv, hxw, ← hxl]
        exact fromSlice_readback c.metric xs
      rw [hw]
      exact ⟨hd, rfl, hhd⟩
    | _ => cases hv

/-- the true score of a stored item is the score of its map entry -/
theorem scoreOf_spec {c : Cfg} {s : Store} {m : C05.IMap} (hr : C05.Rep c s m) (hP : LeavesMade c s)
    {id : Nat} {v : List Nat} (hl : List.lookup id m = some v) (qh qv : List Nat) :
    scoreOf c s qh qv id = specScore c qh qv v := by
  obtain ⟨hd, hg, hhd⟩ := leaf_of_lookup hr hP hl
  unfold scoreOf specScore
  rw [hg]
  by_cases hdot : c.metric = .dot
  · exact builtDistance_item_header _ (by rw [hdot]; decide) _ _ _ _ _ _
  · rw [hhd hdot]

theorem scored_spec {c : Cfg} {s : Store} {m : C05.IMap} (hr : C05.Rep c s m) (hP : LeavesMade c s)
    (qh qv : List Nat) : scored c s qh qv (m.map (·.1)) = specScored c m qh qv := by
  unfold scored specScored
  rw [List.map_map]
  apply List.map_congr_left
  intro p hp
  show (scoreOf c s qh qv p.1, p.1) = _
  rw [scoreOf_spec hr hP (lookup_of_mem_asc hr.2 (show (p.1, p.2) ∈ m from hp))]

/-- **the bridge**: on a store that represents the map `m` and whose leaves were made by `add_item`, the exact
    answer over the stored ids is `specAnswer` of the map -/
theorem exactOver_spec {c : Cfg} {s : Store} {m : C05.IMap} (hr : C05.Rep c s m) (hP : LeavesMade c s)
    (qh qv : List Nat) (count : Nat) :
    exactOver c s c.dims qh qv count (m.map (·.1)) = specAnswer c m qh qv count := by
  unfold exactOver sortedScored specAnswer
  rw [scored_spec hr hP]

/-! ## properties of `specAnswer` (pure list facts) -/

theorem specSorted_perm (c : Cfg) (m : C05.IMap) (qh qv : List Nat) :
    ((specScored c m qh qv).mergeSort scoreLe).Perm (specScored c m qh qv) := List.mergeSort_perm _ _

theorem specSorted_pairwise (c : Cfg) (m : C05.IMap) (qh qv : List Nat) :
    ((specScored c m qh qv).mergeSort scoreLe).Pairwise (fun a b => scoreLe a b = true) :=
  List.pairwise_mergeSort scoreLe_trans scoreLe_total _

theorem specScored_ids (c : Cfg) (m : C05.IMap) (qh qv : List Nat) :
    (specScored c m qh qv).map (·.2) = m.map (·.1) := by
  unfold specScored; rw [List.map_map]; rfl

/-- the sorted scored list is the only sorted arrangement of the scored entries (ties are broken by id, and
    the ids of the map are distinct): a way to COMPUTE `specAnswer` -/
theorem specAnswer_of_sorted (c : Cfg) {m : C05.IMap} (ha : C05.Asc m) (qh qv : List Nat) (count : Nat)
    (l : List (Nat × Nat)) (hp : l.Perm (specScored c m qh qv))
    (hs : l.Pairwise (fun a b => scoreLe a b = true)) :
    specAnswer c m qh qv count = (l.take count).map fun (d, id) => (id, c.metric.normalizedDistance d c.dims) := by
  have : l = (specScored c m qh qv).mergeSort scoreLe := by
    refine List.Perm.eq_of_pairwise (le := fun a b => scoreLe a b = true) ?_ hs (specSorted_pairwise c m qh qv)
      (hp.trans (specSorted_perm c m qh qv).symm)
    intro a b ha' hb' h1 h2
    have hid := (scoreLe_antisymm _ _ h1 h2).2
    obtain ⟨ea, hea, rfl⟩ := List.mem_map.1 (hp.mem_iff.1 ha')
    obtain ⟨eb, heb, rfl⟩ := List.mem_map.1 ((specSorted_perm c m qh qv).mem_iff.1 hb')
    simp only at hid
    have h1' := lookup_of_mem_asc ha (show (ea.1, ea.2) ∈ m from hea)
    have h2' := lookup_of_mem_asc ha (show (eb.1, eb.2) ∈ m from heb)
    rw [hid, h2'] at h1'
    have hv : eb.2 = ea.2 := Option.some.inj h1'
    show (specScore c qh qv ea.2, ea.1) = (specScore c qh qv eb.2, eb.1)
    rw [hid, hv]
  unfold specAnswer
  rw [this]

theorem specAnswer_length (c : Cfg) (m : C05.IMap) (qh qv : List Nat) (count : Nat) :
    (specAnswer c m qh qv count).length = min count m.length := by
  simp [specAnswer, specScored]

/-- the ids of the answer: the head of the sorted ids -/
theorem specAnswer_ids (c : Cfg) (m : C05.IMap) (qh qv : List Nat) (count : Nat) :
    (specAnswer c m qh qv count).map (·.1) = (((specScored c m qh qv).mergeSort scoreLe).map (·.2)).take count := by
  unfold specAnswer
  rw [List.map_map, ← List.map_take]
  rfl

/-- every entry of the answer is an entry of the map, reported with the distance of ITS vector -/
theorem specAnswer_mem (c : Cfg) (m : C05.IMap) (qh qv : List Nat) (count : Nat) :
    ∀ p ∈ specAnswer c m qh qv count, ∃ v, (p.1, v) ∈ m ∧
      p.2 = c.metric.normalizedDistance (specScore c qh qv v) c.dims := by
  intro p hp
  unfold specAnswer at hp
  obtain ⟨x, hx, rfl⟩ := List.mem_map.1 hp
  have hx' := (specSorted_perm c m qh qv).mem_iff.1 (List.mem_of_mem_take hx)
  obtain ⟨e, he, rfl⟩ := List.mem_map.1 hx'
  exact ⟨e.2, he, rfl⟩

/-- each id at most once -/
theorem specAnswer_nodup (c : Cfg) {m : C05.IMap} (ha : C05.Asc m) (qh qv : List Nat) (count : Nat) :
    ((specAnswer c m qh qv count).map (·.1)).Nodup := by
  rw [specAnswer_ids]
  refine List.Nodup.sublist (List.take_sublist _ _) ?_
  have hp := (specSorted_perm c m qh qv).map (·.2)
  rw [specScored_ids] at hp
  exact hp.nodup_iff.2 (List.Pairwise.imp (fun h => Nat.ne_of_lt h) ha : (m.map (·.1)).Pairwise (· ≠ ·))

/-- with `count` at least the number of entries, every id of the map is returned -/
theorem specAnswer_all (c : Cfg) (m : C05.IMap) (qh qv : List Nat) (count : Nat) (hc : m.length ≤ count) :
    ((specAnswer c m qh qv count).map (·.1)).Perm (m.map (·.1)) := by
  rw [specAnswer_ids, List.take_of_length_le (by simp [specScored]; exact hc)]
  have hp := (specSorted_perm c m qh qv).map (·.2)
  rw [specScored_ids] at hp
  exact hp

/-- the score of the entry of `id` in the map (0 if there is none) -/
def scoreIn (c : Cfg) (m : C05.IMap) (qh qv : List Nat) (id : Nat) : Nat :=
  match List.lookup id m with
  | some v => specScore c qh qv v
  | none => 0

/-- the answer, re-scored from the map, is the head of the sorted scored list -/
theorem specAnswer_rescored (c : Cfg) {m : C05.IMap} (ha : C05.Asc m) (qh qv : List Nat) (count : Nat) :
    (specAnswer c m qh qv count).map (fun p => (scoreIn c m qh qv p.1, p.1)) =
      ((specScored c m qh qv).mergeSort scoreLe).take count := by
  unfold specAnswer
  rw [List.map_map]
  conv => rhs; rw [← List.map_id (((specScored c m qh qv).mergeSort scoreLe).take count)]
  apply List.map_congr_left
  intro x hx
  obtain ⟨e, he, rfl⟩ := List.mem_map.1 ((specSorted_perm c m qh qv).mem_iff.1 (List.mem_of_mem_take hx))
  show (scoreIn c m qh qv e.1, e.1) = _
  unfold scoreIn
  rw [lookup_of_mem_asc ha (show (e.1, e.2) ∈ m from he)]
  rfl

/-- nearest first (ties by id) -/
theorem specAnswer_sorted (c : Cfg) {m : C05.IMap} (ha : C05.Asc m) (qh qv : List Nat) (count : Nat) :
    ((specAnswer c m qh qv count).map (fun p => (scoreIn c m qh qv p.1, p.1))).Pairwise
      (fun a b => scoreLe a b = true) := by
  rw [specAnswer_rescored c ha]
  exact (specSorted_pairwise c m qh qv).sublist (List.take_sublist _ _)

/-- no entry of the map that is not returned is nearer than an entry that is -/
theorem specAnswer_best (c : Cfg) {m : C05.IMap} (ha : C05.Asc m) (qh qv : List Nat) (count : Nat)
    (p : Nat × Nat) (hp : p ∈ specAnswer c m qh qv count) (y : Nat) (vy : List Nat) (hy : (y, vy) ∈ m)
    (hny : y ∉ (specAnswer c m qh qv count).map (·.1)) :
    scoreLe (scoreIn c m qh qv p.1, p.1) (specScore c qh qv vy, y) = true := by
  have hpm : (scoreIn c m qh qv p.1, p.1) ∈ ((specScored c m qh qv).mergeSort scoreLe).take count := by
    rw [← specAnswer_rescored c ha]
    exact List.mem_map.2 ⟨p, hp, rfl⟩
  have hym : (specScore c qh qv vy, y) ∈ (specScored c m qh qv).mergeSort scoreLe :=
    (specSorted_perm c m qh qv).mem_iff.2 (List.mem_map.2 ⟨(y, vy), hy, rfl⟩)
  have hyd : (specScore c qh qv vy, y) ∈ ((specScored c m qh qv).mergeSort scoreLe).drop count := by
    rw [← List.take_append_drop count ((specScored c m qh qv).mergeSort scoreLe), List.mem_append] at hym
    rcases hym with h | h
    · exfalso; apply hny
      rw [specAnswer_ids, ← List.map_take]
      exact List.mem_map.2 ⟨_, h, rfl⟩
    · exact h
  have hpw := specSorted_pairwise c m qh qv
  rw [← List.take_append_drop count ((specScored c m qh qv).mergeSort scoreLe), List.pairwise_append] at hpw
  exact hpw.2.2 _ hpm _ hyd

/-! ## C02 over histories -/

/-- the state a successful build leaves at the end of a typed, written history: it represents the
    specification map, its leaves were made by `add_item`, the reader opens on the ids of the map, on a valid
    forest -/
theorem history_core (ops : List C01.Op) (hops : ∀ op ∈ ops, op.wf)
    (c : Cfg) (o : BuildOpts) (fuel : Nat) (env st' : BState) (hwf : (C01.Op.build c o fuel env).wf)
    (h : Build.build c o fuel { env with store := C01.run ops } = .ok ((), st'))
    (m0 : Metric) (ht : C05.Typed c.index c.dims m0 ops) (hm : c.metric = C05.metricOf c.index m0 ops)
    (hw : Written c.index c.host m0 ops) :
    C05.Rep c st'.store (C05.spec c.index ops) ∧ LeavesMade c st'.store ∧
    ∃ roots, Reader.open c st'.store = .ok ⟨roots, c.dims, (C05.spec c.index ops).map (·.1)⟩ ∧
      ForestOK c st'.store ⟨roots, c.dims, (C05.spec c.index ops).map (·.1)⟩ := by
  obtain ⟨hrun, hspec, _⟩ := C05.C05_history_reader_ids ops hops c o fuel env st' hwf h
  obtain ⟨_, hmet, hty⟩ := C05.build_snoc ops (.build c o fuel env) ⟨_, _, _, _, rfl⟩
  have hops' := C05.wf_snoc hops hwf
  have hm' : c.metric = C05.metricOf c.index m0 (ops ++ [.build c o fuel env]) := by rw [hmet]; exact hm
  have hrep := C05.rep_history _ hops' c hwf.1 m0 (hty _ _ _ ht) hm'
  have hmade := made_history _ hops' c hwf.1 m0 (hty _ _ _ ht) hm'
    ((written_append _ _ _ _ _).2 ⟨hw, fun _ hdot => by rw [← hm]; exact hdot⟩)
  rw [hrun] at hrep hmade
  rw [hspec] at hrep
  obtain ⟨roots, h1, h2, _⟩ := C01.C01_forestOK_reachable ops hops c o fuel env st' hwf h
  rw [(C05.C05_history_presence ops hops c hwf.1).2.2.2.2.2.1] at h1 h2
  exact ⟨hrep, hmade, roots, h1, h2⟩

/-- **C02 over histories**: for every well-formed history `ops` (any mix of add / append / del / clear / build /
    prepare over any indexes, rejected calls and failed builds included) in which index `c.index` is written
    at dimension `c.dims` under the metric it has at that point (`C05.Typed`, `C05.metricOf` — the side
    conditions of `C05_history`) and as `Written` asks (Cosine items from the host `c.host`; no dot-product
    build on a non-dot-product index), every successful `Build.build c …` leaves a state on which
    `Reader::open` succeeds with the ids of the specification map, and every query `(qh, qv)` with an unlimited
    budget (`search_k = usize::MAX`, no filter, oversampling ≠ 0, trees × items ≤ `usize::MAX`) returns
    `specAnswer c (C05.spec c.index ops) qh qv count`: the answer is a function of the history, the query and
    `count` only — not of the trees, the build options, the oracle streams, the fuel or the other indexes. -/
theorem C02_history (ops : List C01.Op) (hops : ∀ op ∈ ops, op.wf)
    (c : Cfg) (o : BuildOpts) (fuel : Nat) (env st' : BState) (hwf : (C01.Op.build c o fuel env).wf)
    (h : Build.build c o fuel { env with store := C01.run ops } = .ok ((), st'))
    (m0 : Metric) (ht : C05.Typed c.index c.dims m0 ops) (hm : c.metric = C05.metricOf c.index m0 ops)
    (hw : Written c.index c.host m0 ops) :
    ∃ roots,
      Reader.open c st'.store = .ok ⟨roots, c.dims, (C05.spec c.index ops).map (·.1)⟩ ∧
      ∀ (qh qv : List Nat) (q : QueryOpts), q.candidates = none → q.searchK = some usizeMax →
        q.oversampling ≠ some 0 → roots.length * (C05.spec c.index ops).length ≤ usizeMax →
        nnsByLeaf c st'.store ⟨roots, c.dims, (C05.spec c.index ops).map (·.1)⟩ qh qv q =
          .ok (specAnswer c (C05.spec c.index ops) qh qv q.count) := by
  obtain ⟨hrep, hmade, roots, h1, h2⟩ := history_core ops hops c o fuel env st' hwf h m0 ht hm hw
  refine ⟨roots, h1, fun qh qv q hq hk ho hsz => ?_⟩
  rw [C02_exact_usizeMax h2 qh qv q hq hk ho (by simpa using hsz)]
  exact congrArg Except.ok (exactOver_spec hrep hmade qh qv q.count)

/-- **C02 over histories, through `QueryBuilder::by_vector`**: the query vector `vec` (of the declared
    dimension) is scored as the leaf `add_item` would make of it -/
theorem C02_history_by_vector (ops : List C01.Op) (hops : ∀ op ∈ ops, op.wf)
    (c : Cfg) (o : BuildOpts) (fuel : Nat) (env st' : BState) (hwf : (C01.Op.build c o fuel env).wf)
    (h : Build.build c o fuel { env with store := C01.run ops } = .ok ((), st'))
    (m0 : Metric) (ht : C05.Typed c.index c.dims m0 ops) (hm : c.metric = C05.metricOf c.index m0 ops)
    (hw : Written c.index c.host m0 ops) :
    ∃ roots,
      Reader.open c st'.store = .ok ⟨roots, c.dims, (C05.spec c.index ops).map (·.1)⟩ ∧
      ∀ (vec : List Nat) (q : QueryOpts), vec.length = c.dims → q.candidates = none →
        q.searchK = some usizeMax → q.oversampling ≠ some 0 →
        roots.length * (C05.spec c.index ops).length ≤ usizeMax →
        byVector c st'.store ⟨roots, c.dims, (C05.spec c.index ops).map (·.1)⟩ vec q =
          .ok (specAnswer c (C05.spec c.index ops) (c.metric.newHeader c.host (c.metric.fromSlice vec))
            (c.metric.fromSlice vec) q.count) := by
  obtain ⟨roots, h1, h2⟩ := C02_history ops hops c o fuel env st' hwf h m0 ht hm hw
  refine ⟨roots, h1, fun vec q hd hq hk ho hsz => ?_⟩
  unfold byVector
  simp only [hd, ne_eq, not_true_eq_false, if_false]
  exact h2 _ _ q hq hk ho hsz

/-- **C02 over histories, through `QueryBuilder::by_item`**: an id that is not in the specification map
    (never written, deleted, cleared) gives `None`; an id of the map is answered as the query by its own
    vector `v` (the one last written, as read back) -/
theorem C02_history_by_item (ops : List C01.Op) (hops : ∀ op ∈ ops, op.wf)
    (c : Cfg) (o : BuildOpts) (fuel : Nat) (env st' : BState) (hwf : (C01.Op.build c o fuel env).wf)
    (h : Build.build c o fuel { env with store := C01.run ops } = .ok ((), st'))
    (m0 : Metric) (ht : C05.Typed c.index c.dims m0 ops) (hm : c.metric = C05.metricOf c.index m0 ops)
    (hw : Written c.index c.host m0 ops) :
    ∃ roots,
      Reader.open c st'.store = .ok ⟨roots, c.dims, (C05.spec c.index ops).map (·.1)⟩ ∧
      ∀ (id : Nat) (q : QueryOpts), q.candidates = none →
        q.searchK = some usizeMax → q.oversampling ≠ some 0 →
        roots.length * (C05.spec c.index ops).length ≤ usizeMax →
        byItem c st'.store ⟨roots, c.dims, (C05.spec c.index ops).map (·.1)⟩ id q =
          .ok ((List.lookup id (C05.spec c.index ops)).map fun v =>
            specAnswer c (C05.spec c.index ops) (c.metric.newHeader c.host (c.metric.fromSlice v))
              (c.metric.fromSlice v) q.count) := by
  obtain ⟨hrep, hmade, _⟩ := history_core ops hops c o fuel env st' hwf h m0 ht hm hw
  obtain ⟨roots, h1, h2⟩ := C02_history ops hops c o fuel env st' hwf h m0 ht hm hw
  refine ⟨roots, h1, fun id q hq hk ho hsz => ?_⟩
  unfold byItem
  cases hl : List.lookup id (C05.spec c.index ops) with
  | none =>
    have hv := hrep.1 id
    rw [hl] at hv
    unfold Writer.itemVector at hv
    cases hi : Writer.itemLeaf c st'.store id with
    | none => rfl
    | some x => rw [hi] at hv; cases hv
  | some v =>
    obtain ⟨hd, hg, hhd⟩ := leaf_of_lookup hrep hmade hl
    have hi : Writer.itemLeaf c st'.store id = some (hd, c.metric.fromSlice v) := by
      unfold Writer.itemLeaf; rw [hg]
    simp only [hi, Option.map_some]
    by_cases hdot : c.metric = .dot
    · rw [nnsByLeaf_headerless c _ _ (by rw [hdot]; decide) hd
        (c.metric.newHeader c.host (c.metric.fromSlice v)), h2 _ _ q hq hk ho hsz]
    · rw [hhd hdot, h2 _ _ q hq hk ho hsz]

/-- **what the answer is, clause by clause** (the statement of C02 against the history): under the hypotheses
    of `C02_history`, the answer `ans` of an unlimited-budget query
    * has `min count (number of entries of the specification map)` entries;
    * holds each id at most once;
    * holds only ids of the map, each reported with the normalised `built_distance` between the query and the
      vector the map holds for it (the one last written and not since deleted or cleared);
    * is sorted nearest first on these scores (under `OrderedFloat`, ties by id);
    * leaves out no entry of the map that is strictly nearer than an entry returned (no stored item is
      unreachable by search);
    * holds every id of the map once `count` is at least their number. -/
theorem C02_history_answer_spec (ops : List C01.Op) (hops : ∀ op ∈ ops, op.wf)
    (c : Cfg) (o : BuildOpts) (fuel : Nat) (env st' : BState) (hwf : (C01.Op.build c o fuel env).wf)
    (h : Build.build c o fuel { env with store := C01.run ops } = .ok ((), st'))
    (m0 : Metric) (ht : C05.Typed c.index c.dims m0 ops) (hm : c.metric = C05.metricOf c.index m0 ops)
    (hw : Written c.index c.host m0 ops) :
    ∃ roots,
      Reader.open c st'.store = .ok ⟨roots, c.dims, (C05.spec c.index ops).map (·.1)⟩ ∧
      ∀ (qh qv : List Nat) (q : QueryOpts), q.candidates = none → q.searchK = some usizeMax →
        q.oversampling ≠ some 0 → roots.length * (C05.spec c.index ops).length ≤ usizeMax →
        ∃ ans, nnsByLeaf c st'.store ⟨roots, c.dims, (C05.spec c.index ops).map (·.1)⟩ qh qv q = .ok ans ∧
          ans.length = min q.count (C05.spec c.index ops).length ∧
          (ans.map (·.1)).Nodup ∧
          (∀ p ∈ ans, ∃ v, List.lookup p.1 (C05.spec c.index ops) = some v ∧
            p.2 = c.metric.normalizedDistance (specScore c qh qv v) c.dims) ∧
          (ans.map fun p => (scoreIn c (C05.spec c.index ops) qh qv p.1, p.1)).Pairwise
            (fun a b => scoreLe a b = true) ∧
          (∀ p ∈ ans, ∀ y vy, List.lookup y (C05.spec c.index ops) = some vy → y ∉ ans.map (·.1) →
            scoreLe (scoreIn c (C05.spec c.index ops) qh qv p.1, p.1) (specScore c qh qv vy, y) = true) ∧
          ((C05.spec c.index ops).length ≤ q.count → (ans.map (·.1)).Perm ((C05.spec c.index ops).map (·.1))) := by
  obtain ⟨roots, h1, h2⟩ := C02_history ops hops c o fuel env st' hwf h m0 ht hm hw
  have ha : C05.Asc (C05.spec c.index ops) := (C05.C05_history_presence ops hops c hwf.1).2.2.2.2.2.2
  refine ⟨roots, h1, fun qh qv q hq hk ho hsz => ⟨_, h2 qh qv q hq hk ho hsz, specAnswer_length _ _ _ _ _,
    specAnswer_nodup c ha _ _ _, fun p hp => ?_, specAnswer_sorted c ha _ _ _,
    fun p hp y vy hy hny => specAnswer_best c ha qh qv q.count p hp y vy (mem_of_lookup hy) hny,
    specAnswer_all c _ _ _ _⟩⟩
  obtain ⟨v, hv, hd⟩ := specAnswer_mem c _ qh qv q.count p hp
  exact ⟨v, lookup_of_mem_asc ha hv, hd⟩

/-- **no deleted, cleared or never-written item is ever returned**: an id that is not in the specification map
    of the history is in no answer; and an id that is returned carries the distance to the vector the map
    holds for it — for an overwritten item, the LAST vector written (`C02_history_overwritten`) -/
theorem C02_history_deleted_never_returned (ops : List C01.Op) (hops : ∀ op ∈ ops, op.wf)
    (c : Cfg) (o : BuildOpts) (fuel : Nat) (env st' : BState) (hwf : (C01.Op.build c o fuel env).wf)
    (h : Build.build c o fuel { env with store := C01.run ops } = .ok ((), st'))
    (m0 : Metric) (ht : C05.Typed c.index c.dims m0 ops) (hm : c.metric = C05.metricOf c.index m0 ops)
    (hw : Written c.index c.host m0 ops) :
    ∃ roots,
      Reader.open c st'.store = .ok ⟨roots, c.dims, (C05.spec c.index ops).map (·.1)⟩ ∧
      ∀ (qh qv : List Nat) (q : QueryOpts), q.candidates = none → q.searchK = some usizeMax →
        q.oversampling ≠ some 0 → roots.length * (C05.spec c.index ops).length ≤ usizeMax →
        ∃ ans, nnsByLeaf c st'.store ⟨roots, c.dims, (C05.spec c.index ops).map (·.1)⟩ qh qv q = .ok ans ∧
          (∀ id, id ∉ (C05.spec c.index ops).map (·.1) → id ∉ ans.map (·.1)) ∧
          (∀ p ∈ ans, ∃ v, List.lookup p.1 (C05.spec c.index ops) = some v ∧
            p.2 = c.metric.normalizedDistance (specScore c qh qv v) c.dims) := by
  obtain ⟨roots, h1, h2⟩ := C02_history_answer_spec ops hops c o fuel env st' hwf h m0 ht hm hw
  refine ⟨roots, h1, fun qh qv q hq hk ho hsz => ?_⟩
  obtain ⟨ans, ha, _, _, hmem, _⟩ := h2 qh qv q hq hk ho hsz
  refine ⟨ans, ha, fun id hid hin => hid ?_, hmem⟩
  obtain ⟨p, hp, rfl⟩ := List.mem_map.1 hin
  obtain ⟨v, hv, _⟩ := hmem p hp
  exact List.mem_map.2 ⟨(p.1, v), mem_of_lookup hv, rfl⟩

/-- **the number of results**: `min count (number of entries of the specification map)` -/
theorem C02_history_count (ops : List C01.Op) (hops : ∀ op ∈ ops, op.wf)
    (c : Cfg) (o : BuildOpts) (fuel : Nat) (env st' : BState) (hwf : (C01.Op.build c o fuel env).wf)
    (h : Build.build c o fuel { env with store := C01.run ops } = .ok ((), st'))
    (m0 : Metric) (ht : C05.Typed c.index c.dims m0 ops) (hm : c.metric = C05.metricOf c.index m0 ops)
    (hw : Written c.index c.host m0 ops) :
    ∃ roots,
      Reader.open c st'.store = .ok ⟨roots, c.dims, (C05.spec c.index ops).map (·.1)⟩ ∧
      ∀ (qh qv : List Nat) (q : QueryOpts), q.candidates = none → q.searchK = some usizeMax →
        q.oversampling ≠ some 0 → roots.length * (C05.spec c.index ops).length ≤ usizeMax →
        ∃ ans, nnsByLeaf c st'.store ⟨roots, c.dims, (C05.spec c.index ops).map (·.1)⟩ qh qv q = .ok ans ∧
          ans.length = min q.count (C05.spec c.index ops).length := by
  obtain ⟨roots, h1, h2⟩ := C02_history_answer_spec ops hops c o fuel env st' hwf h m0 ht hm hw
  refine ⟨roots, h1, fun qh qv q hq hk ho hsz => ?_⟩
  obtain ⟨ans, ha, hl, _⟩ := h2 qh qv q hq hk ho hsz
  exact ⟨ans, ha, hl⟩

/-- **an overwritten item is scored with its LAST vector**: whatever the history did to `id` before, after an
    `add_item c id v` of the declared dimension and a successful build, every answer that holds `id` reports
    the distance between the query and THAT vector `v` (scored as `add_item` stored it), and `id` is in the
    answer as soon as `count` reaches the number of stored items -/
theorem C02_history_overwritten (ops : List C01.Op) (hops : ∀ op ∈ ops, op.wf)
    (c : Cfg) (o : BuildOpts) (fuel : Nat) (env st' : BState) (hwf : (C01.Op.build c o fuel env).wf)
    (id : Nat) (hid : id < 4294967296) (v : List Nat) (hv : v.length = c.dims)
    (h : Build.build c o fuel { env with store := C01.run (ops ++ [.add c id v]) } = .ok ((), st'))
    (m0 : Metric) (ht : C05.Typed c.index c.dims m0 ops) (hm : c.metric = C05.metricOf c.index m0 ops)
    (hw : Written c.index c.host m0 ops) :
    C05.spec c.index (ops ++ [.add c id v]) =
      C05.mset id (C05.readback c.metric c.dims v) (C05.spec c.index ops) ∧
    ∃ roots,
      Reader.open c st'.store = .ok ⟨roots, c.dims, (C05.spec c.index (ops ++ [.add c id v])).map (·.1)⟩ ∧
      ∀ (qh qv : List Nat) (q : QueryOpts), q.candidates = none → q.searchK = some usizeMax →
        q.oversampling ≠ some 0 →
        roots.length * (C05.spec c.index (ops ++ [.add c id v])).length ≤ usizeMax →
        ∃ ans, nnsByLeaf c st'.store ⟨roots, c.dims, (C05.spec c.index (ops ++ [.add c id v])).map (·.1)⟩
            qh qv q = .ok ans ∧
          (∀ p ∈ ans, p.1 = id → p.2 = c.metric.normalizedDistance (specScore c qh qv v) c.dims) ∧
          ((C05.spec c.index (ops ++ [.add c id v])).length ≤ q.count → id ∈ ans.map (·.1)) := by
  obtain ⟨hs, ht', hm'⟩ := C05.add_snoc ops c id v hv m0 ht hm
  have hops' := C05.wf_snoc hops (show (C01.Op.add c id v).wf from ⟨hwf.1, hid⟩)
  have hw' : Written c.index c.host m0 (ops ++ [.add c id v]) :=
    (written_append _ _ _ _ _).2 ⟨hw, fun _ _ _ => rfl⟩
  obtain ⟨roots, h1, h2⟩ := C02_history_answer_spec _ hops' c o fuel env st' hwf h m0 ht' hm' hw'
  have hl : List.lookup id (C05.spec c.index (ops ++ [.add c id v])) = some (C05.readback c.metric c.dims v) := by
    rw [hs, C05.lookup_mset, if_pos rfl]
  refine ⟨hs, roots, h1, fun qh qv q hq hk ho hsz => ?_⟩
  obtain ⟨ans, ha, _, _, hmem, _, _, hall⟩ := h2 qh qv q hq hk ho hsz
  refine ⟨ans, ha, fun p hp hpid => ?_, fun hc => ?_⟩
  · obtain ⟨v', hv', hd⟩ := hmem p hp
    rw [hpid, hl] at hv'
    cases hv'
    rw [hd, specScore_readback c qh qv v hv]
  · exact (hall hc).mem_iff.2 (List.mem_map.2 ⟨(id, _), mem_of_lookup hl, rfl⟩)

/-! ## non-vacuity

(A) the history of `C05History.lean` (`C05.Ex.hBack`: adds on two indexes, an overwrite, deletes, a rejected add,
    a clear, a build, the metric changed to binary-quantised Euclidean, an add under it, the metric changed back)
    followed by its last build;
(B) the two-round history of `C01Examples.lean` (`C01.Ex.ops2`: five adds, a build, an add, a delete) followed by
    its second build — five distinct vectors, the answer is not in id order, the deleted item is not returned;
(C) a Cosine index (the metric that reads headers) with an overwrite and a delete;
(D) the quantised index in the middle of (A).
Every closed fact below is computed by the kernel (`decide +kernel`): the builds really run. -/
namespace Ex
open C01.Ex C05.Ex

instance (m : C05.IMap) : Decidable (C05.Asc m) := by unfold C05.Asc; infer_instance

/-- how the examples compute `specAnswer`: from an explicitly given sorted arrangement -/
theorem answer_of (c : Cfg) {m : C05.IMap} (ha : C05.Asc m) (qh qv : List Nat) (count : Nat)
    (l : List (Nat × Nat)) (r : List (Nat × Nat)) (hp : l.Perm (specScored c m qh qv))
    (hs : l.Pairwise (fun a b => scoreLe a b = true))
    (hr : (l.map fun (d, id) => (id, c.metric.normalizedDistance d c.dims)) = r) :
    specAnswer c m qh qv count = r.take count := by
  rw [specAnswer_of_sorted c ha qh qv count l hp hs, ← hr, List.map_take]

/-! ### (A) metric changes: Euclidean → quantised → Euclidean -/

theorem A_side : C05.Typed cEx.index cEx.dims .euclidean hBack ∧ cEx.metric = C05.metricOf cEx.index .euclidean hBack ∧
    Written cEx.index cEx.host .euclidean hBack := by decide +kernel

theorem A_open : Reader.open cEx (C01.run (hBack ++ [.build cEx oLeaf 0 e0])) = .ok ⟨[0], 2, [3, 4]⟩ := by
  decide +kernel

theorem A_scored : specScored cEx [(3, [fm1, f1]), (4, [fm1, f1])] [0] [f1, f1] = [(1082130432, 3), (1082130432, 4)] ∧
    ([(1082130432, 3), (1082130432, 4)] : List (Nat × Nat)).Pairwise (fun a b => scoreLe a b = true) ∧
    ([(1082130432, 3), (1082130432, 4)].map fun ((d, id) : Nat × Nat) =>
      (id, cEx.metric.normalizedDistance d cEx.dims)) = [(3, f2), (4, f2)] ∧
    cEx.metric.newHeader cEx.host (cEx.metric.fromSlice [f1, f1]) = [0] ∧ cEx.metric.fromSlice [f1, f1] = [f1, f1] := by
  decide +kernel

/-- `C02_history` / `C02_history_by_vector` on (A): both stored items read (-1.0, 1.0) after the two metric
    changes; the query (1.0, 1.0) is at distance 2.0 of both; the tie is broken by id -/
example : ∃ st', Build.build cEx oLeaf 0 { e0 with store := C01.run hBack } = .ok ((), st') ∧
    Reader.open cEx st'.store = .ok ⟨[0], 2, [3, 4]⟩ ∧
    ∀ count, byVector cEx st'.store ⟨[0], 2, [3, 4]⟩ [f1, f1] { count := count, searchK := some usizeMax } =
      .ok (([(3, f2), (4, f2)] : List (Nat × Nat)).take count) := by
  have hok := C05.Ex.last_build_ok
  cases hb : Build.build cEx oLeaf 0 { e0 with store := C01.run hBack } with
  | error e => rw [hb] at hok; cases hok
  | ok r =>
    obtain ⟨u, st'⟩ := r
    have hrun := (C05.C05_history_reader_ids hBack hBack_wf cEx oLeaf 0 e0 st' (by decide) hb).1
    obtain ⟨roots, h1, h2⟩ := C02_history_by_vector hBack hBack_wf cEx oLeaf 0 e0 st' (by decide) hb .euclidean
      A_side.1 A_side.2.1 A_side.2.2
    have hs : C05.spec cEx.index hBack = [(3, [fm1, f1]), (4, [fm1, f1])] := C05.Ex.specs.2.2.2.2.2.2.2.2.2.2.1
    rw [hs] at h1 h2
    have hr : roots = [0] := by
      have := A_open; rw [hrun, h1] at this; cases this; rfl
    subst hr
    refine ⟨st', rfl, h1, fun count => ?_⟩
    refine (h2 [f1, f1] { count := count, searchK := some usizeMax } rfl rfl rfl (by simp) (by decide)).trans ?_
    rw [A_scored.2.2.2.1, A_scored.2.2.2.2]
    exact congrArg Except.ok (answer_of cEx (by decide) _ _ _ _ _ (by rw [A_scored.1]) A_scored.2.1 A_scored.2.2.1)

/-! ### (B) five distinct vectors, an incremental build, a deleted item -/

theorem B_side : C05.Typed cEx.index cEx.dims .euclidean ops2 ∧ cEx.metric = C05.metricOf cEx.index .euclidean ops2 ∧
    Written cEx.index cEx.host .euclidean ops2 ∧
    C05.spec cEx.index ops2 = [(1, [fm1, 0]), (2, [f1, fm1]), (3, [f2, f1]), (4, [f3, f1]), (5, [f25, f2])] := by
  decide +kernel

theorem B_open : Reader.open cEx (C01.run (ops2 ++ [.build cEx oEx 5 env2])) = .ok ⟨[0], 2, [1, 2, 3, 4, 5]⟩ := by
  decide +kernel

/-- the sorted arrangement of the scores of the five items against the query (2.0, 1.0), and what is reported:
    item 3 at 0.0, item 4 at 1.0, item 5 at √1.25, item 2 at √5, item 1 at √10 -/
theorem B_scored :
    ([(0, 3), (1065353216, 4), (1067450368, 5), (1084227584, 2), (1092616192, 1)] : List (Nat × Nat)).Perm
      (specScored cEx [(1, [fm1, 0]), (2, [f1, fm1]), (3, [f2, f1]), (4, [f3, f1]), (5, [f25, f2])] [0] [f2, f1]) ∧
    ([(0, 3), (1065353216, 4), (1067450368, 5), (1084227584, 2), (1092616192, 1)] : List (Nat × Nat)).Pairwise
      (fun a b => scoreLe a b = true) ∧
    ([(0, 3), (1065353216, 4), (1067450368, 5), (1084227584, 2), (1092616192, 1)].map fun ((d, id) : Nat × Nat) =>
      (id, cEx.metric.normalizedDistance d cEx.dims)) =
        [(3, 0), (4, f1), (5, 1066343357), (2, 1074731965), (1, 1078616770)] := by
  decide +kernel

/-- `C02_history` / `C02_history_deleted_never_returned` / `C02_history_count` on (B): the answer to the query
    (2.0, 1.0), for every `count` and every query header; item 0, deleted after the first build, is not in it -/
example : ∃ st', Build.build cEx oEx 5 { env2 with store := C01.run ops2 } = .ok ((), st') ∧
    Reader.open cEx st'.store = .ok ⟨[0], 2, [1, 2, 3, 4, 5]⟩ ∧
    ∀ count, nnsByLeaf cEx st'.store ⟨[0], 2, [1, 2, 3, 4, 5]⟩ [0] [f2, f1] { count := count, searchK := some usizeMax } =
      .ok (([(3, 0), (4, f1), (5, 1066343357), (2, 1074731965), (1, 1078616770)] : List (Nat × Nat)).take count) := by
  obtain ⟨st', hb⟩ := build2_result
  have hrun := (C05.C05_history_reader_ids ops2 ops2_wf cEx oEx 5 env2 st' build2_wf hb).1
  obtain ⟨roots, h1, h2⟩ := C02_history ops2 ops2_wf cEx oEx 5 env2 st' build2_wf hb .euclidean
    B_side.1 B_side.2.1 B_side.2.2.1
  rw [B_side.2.2.2] at h1 h2
  have hr : roots = [0] := by
    have := B_open; rw [hrun, h1] at this; cases this; rfl
  subst hr
  refine ⟨st', hb, h1, fun count => ?_⟩
  refine (h2 [0] [f2, f1] { count := count, searchK := some usizeMax } rfl rfl (by simp) (by decide)).trans ?_
  exact congrArg Except.ok (answer_of cEx (by decide) _ _ _ _ _ B_scored.1 B_scored.2.1 B_scored.2.2)

/-- … and through the clauses of `C02_history_answer_spec`: whatever the query, five results for `count ≥ 5`, each
    id once, item 0 never -/
example : ∃ st', Build.build cEx oEx 5 { env2 with store := C01.run ops2 } = .ok ((), st') ∧
    ∀ qh qv, ∃ ans, nnsByLeaf cEx st'.store ⟨[0], 2, [1, 2, 3, 4, 5]⟩ qh qv { count := 7, searchK := some usizeMax } =
      .ok ans ∧ ans.length = 5 ∧ (ans.map (·.1)).Nodup ∧ 0 ∉ ans.map (·.1) ∧ (ans.map (·.1)).Perm [1, 2, 3, 4, 5] := by
  obtain ⟨st', hb⟩ := build2_result
  have hrun := (C05.C05_history_reader_ids ops2 ops2_wf cEx oEx 5 env2 st' build2_wf hb).1
  obtain ⟨roots, h1, h2⟩ := C02_history_answer_spec ops2 ops2_wf cEx oEx 5 env2 st' build2_wf hb .euclidean
    B_side.1 B_side.2.1 B_side.2.2.1
  obtain ⟨roots', h1', h3⟩ := C02_history_deleted_never_returned ops2 ops2_wf cEx oEx 5 env2 st' build2_wf hb
    .euclidean B_side.1 B_side.2.1 B_side.2.2.1
  obtain ⟨roots'', h1'', h4⟩ := C02_history_count ops2 ops2_wf cEx oEx 5 env2 st' build2_wf hb
    .euclidean B_side.1 B_side.2.1 B_side.2.2.1
  rw [B_side.2.2.2] at h1 h2 h1' h3 h1'' h4
  have hr : roots = [0] := by
    have := B_open; rw [hrun, h1] at this; cases this; rfl
  have hr' : roots' = [0] := by
    have := B_open; rw [hrun, h1'] at this; cases this; rfl
  have hr'' : roots'' = [0] := by
    have := B_open; rw [hrun, h1''] at this; cases this; rfl
  subst hr hr' hr''
  refine ⟨st', hb, fun qh qv => ?_⟩
  obtain ⟨ans, ha, hl, hnd, _, _, _, hall⟩ := h2 qh qv { count := 7, searchK := some usizeMax } rfl rfl (by simp) (by decide)
  obtain ⟨ans', ha', hdel, _⟩ := h3 qh qv { count := 7, searchK := some usizeMax } rfl rfl (by simp) (by decide)
  obtain ⟨ans'', ha'', hl''⟩ := h4 qh qv { count := 7, searchK := some usizeMax } rfl rfl (by simp) (by decide)
  rw [ha] at ha' ha''
  cases ha'; cases ha''
  exact ⟨ans, ha, hl'', hnd, hdel 0 (by decide), hall (by decide)⟩

/-! ### (C) Cosine: the item header is read; an overwrite and a delete -/

def cC : Cfg := { index := 2, metric := .cosine, dims := 2 }
/-- item 1 written as (1.0, 0.0), item 2, item 3, item 2 deleted -/
def hC : List C01.Op := [.add cC 1 [f1, 0], .add cC 2 [0, f1], .add cC 3 [fm1, 0], .del cC 2]

theorem hC_wf : ∀ op ∈ hC, op.wf := by decide

/-- … then item 1 OVERWRITTEN with (1.0, 1.0) -/
theorem C_side : C05.Typed cC.index cC.dims .cosine hC ∧ cC.metric = C05.metricOf cC.index .cosine hC ∧
    Written cC.index cC.host .cosine hC ∧
    C05.spec cC.index (hC ++ [.add cC 1 [f1, f1]]) = [(1, [f1, f1]), (3, [fm1, 0])] ∧
    C06.okB (Build.build cC oLeaf 0 { e0 with store := C01.run (hC ++ [.add cC 1 [f1, f1]]) }) = true ∧
    Reader.open cC (C01.run ((hC ++ [.add cC 1 [f1, f1]]) ++ [.build cC oLeaf 0 e0])) = .ok ⟨[0], 2, [1, 3]⟩ := by
  decide +kernel

/-- `C02_history_overwritten` on (C): against the query leaf of (1.0, 0.0), item 1 is reported at the Cosine
    distance of its LAST vector (1.0, 1.0) — `(1 - 1/√2)/2`, not 0 — and is returned for `count = 2` -/
example : ∃ st', Build.build cC oLeaf 0 { e0 with store := C01.run (hC ++ [.add cC 1 [f1, f1]]) } = .ok ((), st') ∧
    ∃ ans, nnsByLeaf cC st'.store ⟨[0], 2, [1, 3]⟩ [f1] [f1, 0] { count := 2, searchK := some usizeMax } = .ok ans ∧
      (1, 1041626650) ∈ ans := by
  have hok := C_side.2.2.2.2.1
  cases hb : Build.build cC oLeaf 0 { e0 with store := C01.run (hC ++ [.add cC 1 [f1, f1]]) } with
  | error e => rw [hb] at hok; cases hok
  | ok r =>
    obtain ⟨u, st'⟩ := r
    have hwf : ∀ op ∈ hC ++ [.add cC 1 [f1, f1]], op.wf := by decide
    have hrun := (C05.C05_history_reader_ids _ hwf cC oLeaf 0 e0 st' (by decide) hb).1
    obtain ⟨_, roots, h1, h2⟩ := C02_history_overwritten hC hC_wf cC oLeaf 0 e0 st' (by decide) 1 (by decide)
      [f1, f1] rfl hb .cosine C_side.1 C_side.2.1 C_side.2.2.1
    rw [C_side.2.2.2.1] at h1 h2
    have hr : roots = [0] := by
      have := C_side.2.2.2.2.2; rw [hrun, h1] at this; cases this; rfl
    subst hr
    obtain ⟨ans, ha, hd, hin⟩ := h2 [f1] [f1, 0] { count := 2, searchK := some usizeMax } rfl rfl (by simp) (by decide)
    refine ⟨st', rfl, ans, ha, ?_⟩
    obtain ⟨p, hp, hp1⟩ := List.mem_map.1 (hin (by decide))
    have := hd p hp hp1
    have hval : cC.metric.normalizedDistance (specScore cC [f1] [f1, 0] [f1, f1]) cC.dims = 1041626650 := by
      decide +kernel
    rw [hval] at this
    have : p = (1, 1041626650) := Prod.ext hp1 this
    rw [← this]; exact hp

/-- `C02_history_by_item` on (C): item 3 = (-1.0, 0.0) is its own nearest neighbour at distance 0, item 1 follows;
    the deleted item 2 gives `None` -/
example : ∃ st', Build.build cC oLeaf 0 { e0 with store := C01.run (hC ++ [.add cC 1 [f1, f1]]) } = .ok ((), st') ∧
    byItem cC st'.store ⟨[0], 2, [1, 3]⟩ 3 { count := 2, searchK := some usizeMax } = .ok (some [(3, 0), (1, 1062896250)]) ∧
    byItem cC st'.store ⟨[0], 2, [1, 3]⟩ 2 { count := 2, searchK := some usizeMax } = .ok none := by
  have hok := C_side.2.2.2.2.1
  cases hb : Build.build cC oLeaf 0 { e0 with store := C01.run (hC ++ [.add cC 1 [f1, f1]]) } with
  | error e => rw [hb] at hok; cases hok
  | ok r =>
    obtain ⟨u, st'⟩ := r
    have hwf : ∀ op ∈ hC ++ [.add cC 1 [f1, f1]], op.wf := by decide
    have hrun := (C05.C05_history_reader_ids _ hwf cC oLeaf 0 e0 st' (by decide) hb).1
    have hside : C05.Typed cC.index cC.dims .cosine (hC ++ [.add cC 1 [f1, f1]]) ∧
        cC.metric = C05.metricOf cC.index .cosine (hC ++ [.add cC 1 [f1, f1]]) ∧
        Written cC.index cC.host .cosine (hC ++ [.add cC 1 [f1, f1]]) := by decide +kernel
    obtain ⟨roots, h1, h2⟩ := C02_history_by_item _ hwf cC oLeaf 0 e0 st' (by decide) hb .cosine
      hside.1 hside.2.1 hside.2.2
    rw [C_side.2.2.2.1] at h1 h2
    have hr : roots = [0] := by
      have := C_side.2.2.2.2.2; rw [hrun, h1] at this; cases this; rfl
    subst hr
    refine ⟨st', rfl, ?_, ?_⟩
    · refine (h2 3 { count := 2, searchK := some usizeMax } rfl rfl (by simp) (by decide)).trans ?_
      have hl : List.lookup 3 [(1, [f1, f1]), (3, [fm1, 0])] = some [fm1, 0] := by decide
      rw [hl]
      simp only [Option.map_some]
      have hsc : ([(0, 3), (1062896250, 1)] : List (Nat × Nat)).Perm
            (specScored cC [(1, [f1, f1]), (3, [fm1, 0])] (cC.metric.newHeader cC.host (cC.metric.fromSlice [fm1, 0]))
              (cC.metric.fromSlice [fm1, 0])) ∧
          ([(0, 3), (1062896250, 1)] : List (Nat × Nat)).Pairwise (fun a b => scoreLe a b = true) ∧
          ([(0, 3), (1062896250, 1)].map fun ((d, id) : Nat × Nat) => (id, cC.metric.normalizedDistance d cC.dims)) =
            [(3, 0), (1, 1062896250)] := by decide +kernel
      exact congrArg (fun x => Except.ok (some x))
        (answer_of cC (by decide) _ _ 2 _ _ hsc.1 hsc.2.1 hsc.2.2)
    · refine (h2 2 { count := 2, searchK := some usizeMax } rfl rfl (by simp) (by decide)).trans ?_
      have hl : List.lookup 2 [(1, [f1, f1]), (3, [fm1, 0])] = none := by decide
      rw [hl]; rfl

/-! ### (D) a quantised index: the map holds sign patterns, the leaves hold words -/

theorem D_side : C05.Typed cBq.index cBq.dims .euclidean hBqAdd ∧ cBq.metric = C05.metricOf cBq.index .euclidean hBqAdd ∧
    Written cBq.index cBq.host .euclidean hBqAdd ∧
    C06.okB (Build.build cBq oLeaf 0 { e0 with store := C01.run hBqAdd }) = true ∧
    Reader.open cBq (C01.run (hBqAdd ++ [.build cBq oLeaf 0 e0])) = .ok ⟨[0], 2, [3, 4]⟩ := by
  decide +kernel

theorem hBqAdd_wf : ∀ op ∈ hBqAdd, op.wf := by decide

/-- `C02_history_by_vector` on (D): index 0, written under Euclidean and changed to binary-quantised Euclidean;
    the query (1.0, -1.0) differs from both stored sign patterns (-, +) in two bits: distance 4·2/2 = 4.0 -/
example : ∃ st', Build.build cBq oLeaf 0 { e0 with store := C01.run hBqAdd } = .ok ((), st') ∧
    ∀ count, byVector cBq st'.store ⟨[0], 2, [3, 4]⟩ [f1, fm1] { count := count, searchK := some usizeMax } =
      .ok (([(3, 1082130432), (4, 1082130432)] : List (Nat × Nat)).take count) := by
  have hok := D_side.2.2.2.1
  cases hb : Build.build cBq oLeaf 0 { e0 with store := C01.run hBqAdd } with
  | error e => rw [hb] at hok; cases hok
  | ok r =>
    obtain ⟨u, st'⟩ := r
    have hrun := (C05.C05_history_reader_ids hBqAdd hBqAdd_wf cBq oLeaf 0 e0 st' (by decide) hb).1
    obtain ⟨roots, h1, h2⟩ := C02_history_by_vector hBqAdd hBqAdd_wf cBq oLeaf 0 e0 st' (by decide) hb .euclidean
      D_side.1 D_side.2.1 D_side.2.2.1
    have hs : C05.spec cBq.index hBqAdd = [(3, [fm1, f1]), (4, [fm1, f1])] := C05.Ex.specs.2.2.2.2.2.2.2.2.2.1
    rw [hs] at h1 h2
    have hr : roots = [0] := by
      have := D_side.2.2.2.2; rw [hrun, h1] at this; cases this; rfl
    subst hr
    refine ⟨st', rfl, fun count => ?_⟩
    refine (h2 [f1, fm1] { count := count, searchK := some usizeMax } rfl rfl rfl (by simp) (by decide)).trans ?_
    have hsc : ([(1090519040, 3), (1090519040, 4)] : List (Nat × Nat)).Perm
          (specScored cBq [(3, [fm1, f1]), (4, [fm1, f1])]
            (cBq.metric.newHeader cBq.host (cBq.metric.fromSlice [f1, fm1])) (cBq.metric.fromSlice [f1, fm1])) ∧
        ([(1090519040, 3), (1090519040, 4)] : List (Nat × Nat)).Pairwise (fun a b => scoreLe a b = true) ∧
        ([(1090519040, 3), (1090519040, 4)].map fun ((d, id) : Nat × Nat) =>
          (id, cBq.metric.normalizedDistance d cBq.dims)) = [(3, 1082130432), (4, 1082130432)] := by decide +kernel
    exact congrArg Except.ok (answer_of cBq (by decide) _ _ _ _ _ hsc.1 hsc.2.1 hsc.2.2)

/-! ### (E) dot-product: the builds rewrite the item headers, the answer does not depend on them -/

def cP : Cfg := { index := 3, metric := .dot, dims := 2 }
/-- two items, a build (whose preprocessing rewrites their headers), a third item -/
def hP : List C01.Op := [.add cP 1 [f1, f2], .add cP 2 [f2, fm1], .build cP oLeaf 0 e0, .add cP 3 [fm1, fm1]]

theorem E_side : (∀ op ∈ hP, op.wf) ∧ C05.Typed cP.index cP.dims .dot hP ∧ cP.metric = C05.metricOf cP.index .dot hP ∧
    Written cP.index cP.host .dot hP ∧
    C05.spec cP.index hP = [(1, [f1, f2]), (2, [f2, fm1]), (3, [fm1, fm1])] ∧
    C06.okB (Build.build cP oLeaf 0 { e0 with store := C01.run hP }) = true ∧
    Reader.open cP (C01.run (hP ++ [.build cP oLeaf 0 e0])) = .ok ⟨[0], 2, [1, 2, 3]⟩ ∧
    -- the stored header of item 1 after the second build is NOT `new_header` of its words
    Store.get (C01.run (hP ++ [.build cP oLeaf 0 e0])) (cP.itemKey 1) = some (.leaf [0, 1084227584] [f1, f2]) ∧
    cP.metric.newHeader cP.host [f1, f2] = [0, 0] := by
  decide +kernel

/-- `C02_history_by_vector` on (E): the query (1.0, 1.0) has dot products 3, 1, -2 with the three items; the
    largest product comes first and the reported "distance" is the product -/
example : ∃ st', Build.build cP oLeaf 0 { e0 with store := C01.run hP } = .ok ((), st') ∧
    ∀ count, byVector cP st'.store ⟨[0], 2, [1, 2, 3]⟩ [f1, f1] { count := count, searchK := some usizeMax } =
      .ok (([(1, f3), (2, f1), (3, fm2)] : List (Nat × Nat)).take count) := by
  obtain ⟨hwf, ht, hm, hw, hs, hok, hopen, _⟩ := E_side
  cases hb : Build.build cP oLeaf 0 { e0 with store := C01.run hP } with
  | error e => rw [hb] at hok; cases hok
  | ok r =>
    obtain ⟨u, st'⟩ := r
    have hrun := (C05.C05_history_reader_ids hP hwf cP oLeaf 0 e0 st' (by decide) hb).1
    obtain ⟨roots, h1, h2⟩ := C02_history_by_vector hP hwf cP oLeaf 0 e0 st' (by decide) hb .dot ht hm hw
    rw [hs] at h1 h2
    have hr : roots = [0] := by
      have := hopen; rw [hrun, h1] at this; cases this; rfl
    subst hr
    refine ⟨st', rfl, fun count => ?_⟩
    refine (h2 [f1, f1] { count := count, searchK := some usizeMax } rfl rfl rfl (by simp) (by decide)).trans ?_
    have hsc : ([(3225419776, 1), (3212836864, 2), (1073741824, 3)] : List (Nat × Nat)).Perm
          (specScored cP [(1, [f1, f2]), (2, [f2, fm1]), (3, [fm1, fm1])]
            (cP.metric.newHeader cP.host (cP.metric.fromSlice [f1, f1])) (cP.metric.fromSlice [f1, f1])) ∧
        ([(3225419776, 1), (3212836864, 2), (1073741824, 3)] : List (Nat × Nat)).Pairwise
          (fun a b => scoreLe a b = true) ∧
        ([(3225419776, 1), (3212836864, 2), (1073741824, 3)].map fun ((d, id) : Nat × Nat) =>
          (id, cP.metric.normalizedDistance d cP.dims)) = [(1, f3), (2, f1), (3, fm2)] := by decide +kernel
    exact congrArg Except.ok (answer_of cP (by decide) _ _ _ _ _ hsc.1 hsc.2.1 hsc.2.2)

/-! ### the side condition `Written` cannot be dropped -/

def cD : Cfg := { cC with metric := .dot }
/-- (C) with a build under a dot-product `Cfg` run on the Cosine index: typed (builds are not constrained by
    `C05.Typed`), not `Written` -/
def hBad : List C01.Op := hC ++ [.add cC 1 [f1, f1], .build cD oLeaf 0 e0]

theorem bad_side :
    (∀ op ∈ hBad, op.wf) ∧ C05.Typed cC.index cC.dims .cosine hBad ∧ cC.metric = C05.metricOf cC.index .cosine hBad ∧
    ¬ Written cC.index cC.host .cosine hBad ∧
    C05.spec cC.index hBad = [(1, [f1, f1]), (3, [fm1, 0])] ∧
    C06.okB (Build.build cC oLeaf 0 { e0 with store := C01.run hBad }) = true ∧
    Reader.open cC (C01.run (hBad ++ [.build cC oLeaf 0 e0])) = .ok ⟨[0], 2, [1, 3]⟩ ∧
    cC.metric.normalizedDistance (scoreOf cC (C01.run (hBad ++ [.build cC oLeaf 0 e0])) [f1] [f1, 0] 1) cC.dims = 0 ∧
    cC.metric.normalizedDistance (specScore cC [f1] [f1, 0] [f1, f1]) cC.dims = 1041626650 := by
  decide +kernel

/-- the dot-product build succeeds and rewrites the headers of the Cosine leaves; the next Cosine build succeeds,
    the reader opens, and the unlimited-budget query by the leaf of (1.0, 0.0) reports item 1 at distance 0.0 —
    not the Cosine distance `1041626650` of its vector (1.0, 1.0) — so the answer is NOT `specAnswer` of the
    specification map (which is unaffected: `C05_history` needs no such condition). The history is well-formed and
    `C05.Typed` (builds are not constrained there); only `Written` fails. -/
example : ∃ st', Build.build cC oLeaf 0 { e0 with store := C01.run hBad } = .ok ((), st') ∧
    Reader.open cC st'.store = .ok ⟨[0], 2, [1, 3]⟩ ∧
    nnsByLeaf cC st'.store ⟨[0], 2, [1, 3]⟩ [f1] [f1, 0] { count := 2, searchK := some usizeMax } ≠
      .ok (specAnswer cC (C05.spec cC.index hBad) [f1] [f1, 0] 2) := by
  obtain ⟨hwf, _, _, _, hs, hok, hopen, hbad, hgood⟩ := bad_side
  cases hb : Build.build cC oLeaf 0 { e0 with store := C01.run hBad } with
  | error e => rw [hb] at hok; cases hok
  | ok r =>
    obtain ⟨u, st'⟩ := r
    have hrun := (C05.C05_history_reader_ids hBad hwf cC oLeaf 0 e0 st' (by decide) hb).1
    obtain ⟨roots, h1, h2⟩ := C02_exact_reachable hBad hwf cC oLeaf 0 e0 st' (by decide) hb
    rw [(C05.C05_history_presence hBad hwf cC (by decide)).2.2.2.2.2.1, hs] at h1 h2
    have hr : roots = [0] := by
      have := hopen; rw [hrun, h1] at this; cases this; rfl
    subst hr
    rw [hrun] at hbad
    refine ⟨st', rfl, h1, fun heq => ?_⟩
    have hex := h2 [f1] [f1, 0] { count := 2, searchK := some usizeMax } rfl rfl (by simp) (by decide)
    rw [hs] at heq
    have heq := hex.symm.trans heq
    have heq' := Except.ok.inj heq
    -- item 1 is in both answers (count = 2 = number of items) …
    have hin : 1 ∈ (specAnswer cC [(1, [f1, f1]), (3, [fm1, 0])] [f1] [f1, 0] 2).map (·.1) :=
      (specAnswer_all cC _ _ _ 2 (by decide)).mem_iff.2 (by decide)
    obtain ⟨p, hp, hp1⟩ := List.mem_map.1 hin
    -- … with the distance of its vector in `specAnswer`, with the stored score in the exact answer
    obtain ⟨v, hv, hd⟩ := specAnswer_mem cC _ _ _ _ p hp
    have hv' := lookup_of_mem_asc (m := [(1, [f1, f1]), (3, [fm1, 0])]) (by decide) hv
    rw [hp1] at hv'
    have hvv : v = [f1, f1] := by
      have : List.lookup 1 [(1, [f1, f1]), (3, [fm1, 0])] = some [f1, f1] := by decide
      rw [this] at hv'; exact (Option.some.inj hv').symm
    rw [← heq'] at hp
    have hd' := (exactOver_mem _ _ _ _ _ _ _ p hp).2
    rw [hp1] at hd'
    rw [hvv, hgood] at hd
    rw [hbad, hd] at hd'
    exact absurd hd' (by decide)

end Ex

end C02
end Arroy
